extern crate futures;
extern crate multiqueue2;
use futures::executor::{spawn, Notify};
use futures::{Async, Stream};
use std::sync::Arc;
use std::sync::mpsc::channel;
struct N;
impl Notify for N { fn notify(&self, _id: usize) {} }
fn main() {
    let which = std::env::args().nth(1).unwrap();
    match which.as_str() {
        "F3" => {
            // poll of a fresh, never-written, empty futures queue must return NotReady
            let (tx, rx) = multiqueue2::mpmc_fut_queue::<u32>(4);
            let (dtx, drx) = channel();
            std::thread::spawn(move || {
                let mut t = spawn(rx);
                let r = t.poll_stream_notify(&Arc::new(N), 0);
                dtx.send(match r { Ok(Async::NotReady) => "NotReady", Ok(Async::Ready(Some(_))) => "Some", Ok(Async::Ready(None)) => "None", Err(_) => "Err" }).unwrap();
            });
            match drx.recv_timeout(std::time::Duration::from_secs(3)) {
                Ok(s) => { println!("poll returned {}", s); assert_eq!(s, "NotReady"); }
                Err(_) => { println!("FAIL: poll did not return within 3 s"); std::process::exit(1); }
            }
            drop(tx);
        }
        "F2" => {
            // recv() of a futures receiver on an empty queue must block until a value arrives, not panic
            let (tx, rx) = multiqueue2::mpmc_fut_queue::<u32>(4);
            let h = std::thread::spawn(move || rx.recv());
            std::thread::sleep(std::time::Duration::from_millis(200));
            tx.try_send(5).unwrap();
            match h.join() { Ok(v) => { println!("recv -> {:?}", v); assert_eq!(v, Ok(5)); } Err(_) => { println!("FAIL: recv panicked"); std::process::exit(1);} }
        }
        "F1" => {
            let (tx, rx) = multiqueue2::mpmc_queue::<u32>(4);
            drop(rx);
            let r = tx.try_send(7);
            println!("{:?}", r);
            assert_eq!(r, Err(std::sync::mpsc::TrySendError::Disconnected(7)));
        }
        "F5" => f5(),
        "F6" => f6(),
        "F7" => f7(),
        "F15" => f15(),
        _ => panic!(),
    }
}
// F5: a sink task parked on Full must be notified when space is freed by the direct try_recv
pub fn f5() {
    use futures::Sink;
    use std::sync::atomic::{AtomicUsize, Ordering};
    struct Cnt(AtomicUsize);
    impl Notify for Cnt { fn notify(&self, _id: usize) { self.0.fetch_add(1, Ordering::SeqCst); } }
    let (tx, rx) = multiqueue2::mpmc_fut_queue::<u32>(1);
    let n = Arc::new(Cnt(AtomicUsize::new(0)));
    let mut t = spawn(tx);
    assert!(t.start_send_notify(1, &n, 0).unwrap().is_ready());
    assert!(!t.start_send_notify(2, &n, 0).unwrap().is_ready()); // parked
    assert_eq!(rx.try_recv(), Ok(1));
    let c = n.0.load(Ordering::SeqCst);
    println!("notifications after direct try_recv: {}", c);
    if c == 0 { println!("FAIL: parked sink task never notified"); std::process::exit(1); }
}
// counting allocator
use std::alloc::{GlobalAlloc, Layout, System};
use std::sync::atomic::{AtomicIsize, Ordering as O};
pub struct CA;
pub static LIVE: AtomicIsize = AtomicIsize::new(0);
unsafe impl GlobalAlloc for CA {
    unsafe fn alloc(&self, l: Layout) -> *mut u8 { LIVE.fetch_add(1, O::SeqCst); System.alloc(l) }
    unsafe fn dealloc(&self, p: *mut u8, l: Layout) { LIVE.fetch_sub(1, O::SeqCst); System.dealloc(p, l) }
}
#[global_allocator]
static A: CA = CA;
// F6: churn after one drop of a non-last handle of a stream must not grow memory
pub fn f6() {
    let (tx, rx) = multiqueue2::broadcast_queue::<u64>(4);
    let extra = rx.clone();
    drop(extra); // non-last handle of the stream
    let cycle = |n: usize| { for i in 0..n { let s = rx.add_stream(); let _ = tx.try_send(i as u64); let _ = s.try_recv(); let _ = rx.try_recv(); drop(s); } };
    cycle(200);
    let a = LIVE.load(O::SeqCst);
    cycle(1000);
    let b = LIVE.load(O::SeqCst);
    println!("live blocks after 200 cycles: {}, after 1200 cycles: {} (growth {})", a, b, b - a);
    if b - a > 100 { println!("FAIL: memory grows with churn"); std::process::exit(1); }
}
// F7: create + drop must release everything
pub fn f7() {
    let before = LIVE.load(O::SeqCst);
    {
        let (tx, rx) = multiqueue2::mpmc_queue::<u64>(8);
        tx.try_send(1).unwrap();
        let _ = rx.try_recv();
        drop(tx); drop(rx);
    }
    let after = LIVE.load(O::SeqCst);
    println!("live blocks before {} after {} (leak {})", before, after, after - before);
    if after != before { println!("FAIL: leak"); std::process::exit(1); }
}
// F15: YieldingWait::with_spins(_, 0) must still notice a value
pub fn f15() {
    use multiqueue2::wait::YieldingWait;
    let (tx, rx) = multiqueue2::broadcast_queue_with::<u32, YieldingWait>(4, YieldingWait::with_spins(0, 0));
    let (dtx, drx) = channel();
    std::thread::spawn(move || { dtx.send(rx.recv()).unwrap(); });
    std::thread::sleep(std::time::Duration::from_millis(100));
    tx.try_send(9).unwrap();
    match drx.recv_timeout(std::time::Duration::from_secs(3)) {
        Ok(v) => { println!("recv -> {:?}", v); }
        Err(_) => { println!("FAIL: recv never returned although a value was sent"); std::process::exit(1); }
    }
}
