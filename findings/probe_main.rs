use multiqueue2::*;
use std::cell::Cell;
use std::rc::Rc;
struct IsSend<T>(std::marker::PhantomData<T>);
trait No { const V: bool = false; }
impl<T> No for IsSend<T> {}
impl<T: Send> IsSend<T> { const V: bool = true; }
struct IsSync<T>(std::marker::PhantomData<T>);
impl<T> No for IsSync<T> {}
impl<T: Sync> IsSync<T> { const V: bool = true; }
#[derive(Clone)] struct SyncOnly(std::marker::PhantomData<std::sync::MutexGuard<'static, u32>>); // Sync, !Send
type FS = fn(&u32) -> u32;
macro_rules! p { ($name:expr, $t:ty) => { println!("{} send={} sync={}", $name, <IsSend<$t>>::V, <IsSync<$t>>::V); } }
fn main() {
    p!("BroadcastFutReceiver<Cell<u32>>", BroadcastFutReceiver<Cell<u32>>);
    p!("BroadcastFutSender<Cell<u32>>", BroadcastFutSender<Cell<u32>>);
    p!("BroadcastFutSender<u32>", BroadcastFutSender<u32>);
    p!("MPMCFutUniReceiver<u32,FS,Rc<u32>>", MPMCFutUniReceiver<u32, fn(&Rc<u32>) -> u32, Rc<u32>>);
    p!("MPMCFutUniReceiver<u32,Box<dyn FnMut>,u32>", MPMCFutUniReceiver<u32, Box<dyn FnMut(&u32) -> u32>, u32>);
    p!("MPMCFutUniReceiver<u32,FS,u32>", MPMCFutUniReceiver<u32, FS, u32>);
    p!("BroadcastFutUniReceiver<u32,Box<dyn FnMut>,u32>", BroadcastFutUniReceiver<u32, Box<dyn FnMut(&u32) -> u32>, u32>);
    p!("BroadcastFutUniReceiver<u32,FS,u32>", BroadcastFutUniReceiver<u32, FS, u32>);
    p!("MPMCSender<Cell<u32>>", MPMCSender<Cell<u32>>);
    p!("BroadcastSender<SyncOnly>", BroadcastSender<SyncOnly>);
}
