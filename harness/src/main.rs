//! mqx: runs scenarios against the real multiqueue2 (built with --cfg multiqueue2_verif)
//! under the deterministic scheduler and prints the canonical per-step trace.

extern crate futures;
extern crate multiqueue2;

mod rt;

use futures::executor::{spawn, Notify, NotifyHandle, Spawn};
use futures::{Async, AsyncSink};
use multiqueue2::verif_hooks as vh;
use multiqueue2::wait::{BlockingWait, BusyWait, YieldingWait};
use multiqueue2::*;
use rt::*;
use std::alloc::{GlobalAlloc, Layout, System};
use std::io::{BufRead, Write};
use std::panic::{catch_unwind, AssertUnwindSafe};
use std::sync::atomic::{AtomicBool, AtomicUsize, Ordering};
use std::sync::mpsc::{TryRecvError, TrySendError};
use std::sync::{Arc, Mutex};

// ---------------------------------------------------------------------------
// quarantine allocator: while a scenario runs nothing is really freed, so heap
// addresses are never reused and a use-after-free touches intact, identifiable memory

const QCAP: usize = 1 << 20;
static Q_ON: AtomicBool = AtomicBool::new(false);
static Q_N: AtomicUsize = AtomicUsize::new(0);
static mut Q_BUF: [(usize, usize, usize); QCAP] = [(0, 0, 0); QCAP];

struct QAlloc;

unsafe impl GlobalAlloc for QAlloc {
    unsafe fn alloc(&self, l: Layout) -> *mut u8 {
        System.alloc(l)
    }
    unsafe fn dealloc(&self, p: *mut u8, l: Layout) {
        if Q_ON.load(Ordering::Relaxed) {
            let i = Q_N.fetch_add(1, Ordering::Relaxed);
            if i < QCAP {
                Q_BUF[i] = (p as usize, l.size(), l.align());
                return;
            }
        }
        System.dealloc(p, l)
    }
}

#[global_allocator]
static GA: QAlloc = QAlloc;

fn quarantine_flush() {
    Q_ON.store(false, Ordering::SeqCst);
    let n = Q_N.load(Ordering::SeqCst).min(QCAP);
    unsafe {
        for i in 0..n {
            let (p, s, a) = Q_BUF[i];
            System.dealloc(p as *mut u8, Layout::from_size_align_unchecked(s, a));
        }
    }
    Q_N.store(0, Ordering::SeqCst);
}

// ---------------------------------------------------------------------------

static mut RT_PTR: *const Rt = std::ptr::null();

fn rt() -> &'static Rt {
    unsafe { &*RT_PTR }
}

// ---------------------------------------------------------------------------
// payload

const MAGIC: u64 = 0x5bd1_e995_9e37_79b9;

pub struct P {
    id: u64,
    ser: u64,
    chk: u64,
}

impl P {
    fn new(id: u64) -> P {
        let active = rt().active();
        let ser = rt().with(|st| {
            let s = st.ledger.len() as u64;
            st.ledger.push((id, 0));
            if active {
                st.emit(format!("born:{:x}:{:x}", s, id));
            }
            s
        });
        P {
            id,
            ser,
            chk: id ^ ser ^ MAGIC,
        }
    }

    fn fields(&self) -> (u64, u64, u64) {
        unsafe {
            (
                std::ptr::read_volatile(&self.id),
                std::ptr::read_volatile(&self.ser),
                std::ptr::read_volatile(&self.chk),
            )
        }
    }

    /// the payload must be a complete value that has not been destroyed
    fn check(&self) {
        let (id, ser, chk) = self.fields();
        let active = rt().active();
        rt().with(|st| {
            let valid = chk == id ^ ser ^ MAGIC
                && (ser as usize) < st.ledger.len()
                && st.ledger[ser as usize].1 == 0;
            if !valid && active {
                st.emit_bad();
            }
        });
    }
}

impl Clone for P {
    fn clone(&self) -> P {
        let (id0, ser0, _) = self.fields();
        self.check();
        let active = rt().active();
        if active {
            rt().sched_point(Pending::Op);
        }
        let (_, ser1, _) = self.fields();
        let nser = rt().with(|st| {
            if active {
                st.emit(format!("op:clonemid:none:0:0:{:x}:1", ser0));
            }
            ser1
        });
        if nser != ser0 {
            if active {
                rt().with(|st| st.emit_bad());
            }
        } else {
            self.check();
        }
        let ser = rt().with(|st| {
            let s = st.ledger.len() as u64;
            st.ledger.push((id0, 0));
            if active {
                st.emit(format!("clone:{:x}:{:x}", s, ser0));
            }
            s
        });
        P {
            id: id0,
            ser,
            chk: id0 ^ ser ^ MAGIC,
        }
    }
}

/// search mode (MQX_DROPYIELD=1): a payload destructor is a scheduling point of its own, so that other
/// agents can run while a value is being destroyed in place.  Not used for the correspondence (the model
/// has no such step); used to look for a concrete failing input after a divergence.
fn dropyield() -> bool {
    static mut CACHE: u8 = 0;
    unsafe {
        if CACHE == 0 {
            CACHE = if std::env::var("MQX_DROPYIELD").is_ok() { 2 } else { 1 };
        }
        CACHE == 2
    }
}

impl Drop for P {
    fn drop(&mut self) {
        let active = rt().active();
        if active && dropyield() && !std::thread::panicking() && !multiqueue2::verif_hooks::is_quiet() {
            let (_, ser0, _) = self.fields();
            rt().sched_point(Pending::Op);
            rt().with(|st| st.emit(format!("op:dropmid:none:0:0:{:x}:1", ser0)));
        }
        // the destructor looks at the value only now
        let (id, ser, chk) = self.fields();
        rt().with(|st| {
            let valid = chk == id ^ ser ^ MAGIC && (ser as usize) < st.ledger.len();
            if valid {
                st.ledger[ser as usize].1 += 1;
                if active {
                    st.emit(format!("drop:{:x}", ser));
                }
            } else if active {
                st.emit_bad();
            }
        });
    }
}

type VF = fn(&P) -> u64;

fn view_fn(p: &P) -> u64 {
    let (_, ser0, _) = p.fields();
    p.check();
    let active = rt().active();
    if active {
        rt().sched_point(Pending::Op);
        rt().with(|st| st.emit(format!("op:viewmid:none:0:0:{:x}:1", ser0)));
    }
    let (_, ser1, _) = p.fields();
    if ser1 != ser0 {
        if active {
            rt().with(|st| st.emit_bad());
        }
    } else {
        p.check();
    }
    ser0
}

// ---------------------------------------------------------------------------
// task notification

struct Ntf;

impl Notify for Ntf {
    fn notify(&self, id: usize) {
        let active = rt().active();
        rt().with(|st| {
            if id < st.agents.len() {
                st.agents[id].notified = true;
            }
            if active {
                st.emit(format!("ntf:{}", id));
            }
        });
    }
}

// ---------------------------------------------------------------------------
// handles and calls

#[allow(dead_code)]
enum H {
    BS(BroadcastSender<P>),
    BR(BroadcastReceiver<P>),
    BU(BroadcastUniReceiver<P>),
    BFS(Spawn<BroadcastFutSender<P>>),
    BFR(Spawn<BroadcastFutReceiver<P>>),
    BFU(Spawn<BroadcastFutUniReceiver<u64, VF, P>>),
    MS(MPMCSender<P>),
    MR(MPMCReceiver<P>),
    MU(MPMCUniReceiver<P>),
    MFS(Spawn<MPMCFutSender<P>>),
    MFR(Spawn<MPMCFutReceiver<P>>),
    MFU(Spawn<MPMCFutUniReceiver<u64, VF, P>>),
    Gone,
}

#[derive(Clone, Debug, PartialEq)]
enum Call {
    Send(u64),
    Recv,
    BRecv,
    View,
    BView,
    CloneTo(usize),
    AddStream(usize),
    Unsub,
    Drop,
    IntoSingle,
    IntoMulti,
    SSend(u64),
    ASend(u64),
    Poll,
    APoll,
    PollC,
    Transform,
}

#[derive(Clone, Debug, PartialEq)]
enum Item {
    C(Call),
    Barrier,
}

fn parse_call(s: &str) -> Call {
    let mut it = s.split(':');
    let k = it.next().unwrap();
    let arg = it.next();
    let n = || arg.unwrap().parse::<u64>().unwrap();
    match k {
        "send" => Call::Send(n()),
        "recv" => Call::Recv,
        "brecv" => Call::BRecv,
        "view" => Call::View,
        "bview" => Call::BView,
        "clone" => Call::CloneTo(n() as usize),
        "addstream" => Call::AddStream(n() as usize),
        "unsub" => Call::Unsub,
        "drop" => Call::Drop,
        "intosingle" => Call::IntoSingle,
        "intomulti" => Call::IntoMulti,
        "ssend" => Call::SSend(n()),
        "asend" => Call::ASend(n()),
        "poll" => Call::Poll,
        "apoll" => Call::APoll,
        "pollc" => Call::PollC,
        "transform" => Call::Transform,
        _ => panic!("bad call {}", s),
    }
}

fn call_str(c: &Call) -> String {
    match c {
        Call::Send(v) => format!("send:{}", v),
        Call::Recv => "recv".into(),
        Call::BRecv => "brecv".into(),
        Call::View => "view".into(),
        Call::BView => "bview".into(),
        Call::CloneTo(a) => format!("clone:{}", a),
        Call::AddStream(a) => format!("addstream:{}", a),
        Call::Unsub => "unsub".into(),
        Call::Drop => "drop".into(),
        Call::IntoSingle => "intosingle".into(),
        Call::IntoMulti => "intomulti".into(),
        Call::SSend(v) => format!("ssend:{}", v),
        Call::ASend(v) => format!("asend:{}", v),
        Call::Poll => "poll".into(),
        Call::APoll => "apoll".into(),
        Call::PollC => "pollc".into(),
        Call::Transform => "transform".into(),
    }
}

type Slots = Arc<Vec<Mutex<Option<H>>>>;

fn emit(s: String) {
    rt().with(|st| st.emit(s));
}

fn send_res(r: Result<(), TrySendError<P>>) -> String {
    match r {
        Ok(()) => "ret:ok".into(),
        Err(TrySendError::Full(v)) => {
            let s = format!("ret:full:{:x}", v.ser);
            drop(v);
            s
        }
        Err(TrySendError::Disconnected(v)) => {
            let s = format!("ret:disc:{:x}", v.ser);
            drop(v);
            s
        }
    }
}

fn recv_res(r: Result<P, TryRecvError>) -> String {
    match r {
        Ok(v) => {
            v.check();
            let s = format!("ret:val:{:x}", v.ser);
            drop(v);
            s
        }
        Err(TryRecvError::Empty) => "ret:empty".into(),
        Err(TryRecvError::Disconnected) => "ret:discon".into(),
    }
}

fn brecv_res<E>(r: Result<P, E>) -> String {
    match r {
        Ok(v) => {
            v.check();
            let s = format!("ret:val:{:x}", v.ser);
            drop(v);
            s
        }
        Err(_) => "ret:discon".into(),
    }
}

fn view_res(r: Result<u64, TryRecvError>) -> String {
    match r {
        Ok(ser) => format!("ret:val:{:x}", ser),
        Err(TryRecvError::Empty) => "ret:empty".into(),
        Err(TryRecvError::Disconnected) => "ret:discon".into(),
    }
}

fn bview_res<E>(r: Result<u64, E>) -> String {
    match r {
        Ok(ser) => format!("ret:val:{:x}", ser),
        Err(_) => "ret:discon".into(),
    }
}

/// first[a]: 0 = empty script, 1 = starts with a call, 2 = starts with a barrier
fn give(slots: &Slots, a: usize, h: H, first: &[usize]) {
    *slots[a].lock().unwrap() = Some(h);
    rt().with(|st| {
        st.agents[a].pending = match first[a] {
            0 => Pending::Finished,
            1 => Pending::CallStart,
            _ => Pending::Barrier,
        };
    });
}

fn await_notify() {
    rt().sched_point(Pending::Await);
    let me = Rt::me().unwrap();
    rt().with(|st| {
        st.agents[me].notified = false;
        st.emit("op:await:none:0:0:0:1".into());
    });
}

macro_rules! poll_stream {
    ($sp:expr, $me:expr, $ntf:expr, $owned:expr) => {{
        match $sp.poll_stream_notify($ntf, $me) {
            Ok(Async::Ready(Some(v))) => Some(poll_item(v, $owned)),
            Ok(Async::Ready(None)) => Some("ret:discon".to_string()),
            Ok(Async::NotReady) => None,
            Err(_) => Some("ret:err".to_string()),
        }
    }};
}

trait PollItem {
    fn fin(self) -> String;
}
impl PollItem for P {
    fn fin(self) -> String {
        self.check();
        let s = format!("ret:val:{:x}", self.ser);
        drop(self);
        s
    }
}
impl PollItem for u64 {
    fn fin(self) -> String {
        format!("ret:val:{:x}", self)
    }
}
fn poll_item<T: PollItem>(v: T, _owned: bool) -> String {
    v.fin()
}

macro_rules! start_send {
    ($sp:expr, $me:expr, $ntf:expr, $v:expr, $awaiting:expr) => {{
        let mut msg = $v;
        loop {
            match $sp.start_send_notify(msg, $ntf, $me) {
                Ok(AsyncSink::Ready) => break "ret:ok".to_string(),
                Ok(AsyncSink::NotReady(m)) => {
                    if $awaiting {
                        emit(format!("ret:full:{:x}", m.ser));
                        msg = m;
                        await_notify();
                    } else {
                        let s = format!("ret:full:{:x}", m.ser);
                        drop(m);
                        break s;
                    }
                }
                Err(e) => {
                    let m = e.0;
                    let s = format!("ret:disc:{:x}", m.ser);
                    drop(m);
                    break s;
                }
            }
        }
    }};
}

/// Perform one call on the handle; returns the `ret:` token.
fn do_call(h: &mut H, call: &Call, me: usize, slots: &Slots, slen: &[usize], ntf: &NotifyHandle) -> String {
    match call {
        Call::Send(id) => {
            let v = P::new(*id);
            match h {
                H::BS(s) => send_res(s.try_send(v)),
                H::MS(s) => send_res(s.try_send(v)),
                H::BFS(s) => send_res(s.get_ref().try_send(v)),
                H::MFS(s) => send_res(s.get_ref().try_send(v)),
                _ => panic!("send on wrong handle"),
            }
        }
        Call::SSend(id) | Call::ASend(id) => {
            let aw = match call {
                Call::ASend(_) => true,
                _ => false,
            };
            let v = P::new(*id);
            match h {
                H::BFS(s) => start_send!(s, me, ntf, v, aw),
                H::MFS(s) => start_send!(s, me, ntf, v, aw),
                _ => panic!("ssend on wrong handle"),
            }
        }
        Call::PollC => match h {
            H::BFS(s) => {
                let _ = s.poll_flush_notify(ntf, me);
                "ret:ok".into()
            }
            H::MFS(s) => {
                let _ = s.poll_flush_notify(ntf, me);
                "ret:ok".into()
            }
            _ => panic!("pollc on wrong handle"),
        },
        Call::Recv => match h {
            H::BR(r) => recv_res(r.try_recv()),
            H::BU(r) => recv_res(r.try_recv()),
            H::MR(r) => recv_res(r.try_recv()),
            H::MU(r) => recv_res(r.try_recv()),
            H::BFR(r) => recv_res(r.get_ref().try_recv()),
            H::MFR(r) => recv_res(r.get_ref().try_recv()),
            H::BFU(r) => view_res(r.get_mut().try_recv()),
            H::MFU(r) => view_res(r.get_mut().try_recv()),
            _ => panic!("recv on wrong handle"),
        },
        Call::BRecv => match h {
            H::BR(r) => brecv_res(r.recv()),
            H::BU(r) => brecv_res(r.recv()),
            H::MR(r) => brecv_res(r.recv()),
            H::MU(r) => brecv_res(r.recv()),
            H::BFR(r) => brecv_res(r.get_ref().recv()),
            H::MFR(r) => brecv_res(r.get_ref().recv()),
            H::BFU(r) => bview_res(r.get_mut().recv()),
            H::MFU(r) => bview_res(r.get_mut().recv()),
            _ => panic!("brecv on wrong handle"),
        },
        Call::View => match h {
            H::BU(r) => view_res(r.try_recv_view(|p| view_fn(p)).map_err(|e| e.1)),
            H::MU(r) => view_res(r.try_recv_view(|p| view_fn(p)).map_err(|e| e.1)),
            _ => panic!("view on wrong handle"),
        },
        Call::BView => match h {
            H::BU(r) => bview_res(r.recv_view(|p| view_fn(p)).map_err(|e| e.1)),
            H::MU(r) => bview_res(r.recv_view(|p| view_fn(p)).map_err(|e| e.1)),
            _ => panic!("bview on wrong handle"),
        },
        Call::Poll | Call::APoll => {
            let aw = *call == Call::APoll;
            loop {
                let r = match h {
                    H::BFR(r) => poll_stream!(r, me, ntf, true),
                    H::MFR(r) => poll_stream!(r, me, ntf, true),
                    H::BFU(r) => poll_stream!(r, me, ntf, false),
                    H::MFU(r) => poll_stream!(r, me, ntf, false),
                    _ => panic!("poll on wrong handle"),
                };
                match r {
                    Some(s) => break s,
                    None => {
                        if aw {
                            emit("ret:notready".into());
                            await_notify();
                        } else {
                            break "ret:notready".into();
                        }
                    }
                }
            }
        }
        Call::CloneTo(a) => {
            let nh = match h {
                H::BS(s) => H::BS(s.clone()),
                H::MS(s) => H::MS(s.clone()),
                H::BR(r) => H::BR(r.clone()),
                H::MR(r) => H::MR(r.clone()),
                H::BFS(s) => H::BFS(spawn(s.get_ref().clone())),
                H::MFS(s) => H::MFS(spawn(s.get_ref().clone())),
                H::BFR(r) => H::BFR(spawn(r.get_ref().clone())),
                H::MFR(r) => H::MFR(spawn(r.get_ref().clone())),
                _ => panic!("clone on wrong handle"),
            };
            give(slots, *a, nh, slen);
            "ret:unit".into()
        }
        Call::AddStream(a) => {
            let nh = match h {
                H::BR(r) => H::BR(r.add_stream()),
                H::BFR(r) => H::BFR(spawn(r.get_ref().add_stream())),
                H::BFU(r) => H::BFU(spawn(r.get_ref().add_stream_with(view_fn as VF))),
                H::MFU(r) => H::MFU(spawn(r.get_ref().add_stream_with(view_fn as VF))),
                _ => panic!("addstream on wrong handle"),
            };
            give(slots, *a, nh, slen);
            "ret:unit".into()
        }
        Call::Unsub => {
            let old = std::mem::replace(h, H::Gone);
            let b = |x: bool| format!("ret:bool:{}", if x { 1 } else { 0 });
            match old {
                H::BR(r) => b(r.unsubscribe()),
                H::BU(r) => {
                    r.unsubscribe();
                    "ret:unit".into()
                }
                H::MR(r) => b(r.unsubscribe()),
                H::MU(r) => b(r.unsubscribe()),
                H::BFR(r) => b(r.into_inner().unsubscribe()),
                H::MFR(r) => b(r.into_inner().unsubscribe()),
                H::BFU(r) => b(r.into_inner().unsubscribe()),
                H::MFU(r) => b(r.into_inner().unsubscribe()),
                _ => panic!("unsub on wrong handle"),
            }
        }
        Call::Drop => {
            let old = std::mem::replace(h, H::Gone);
            drop(old);
            "ret:unit".into()
        }
        Call::IntoSingle => {
            let old = std::mem::replace(h, H::Gone);
            match old {
                H::BR(r) => match r.into_single() {
                    Ok(u) => {
                        *h = H::BU(u);
                        "ret:bool:1".into()
                    }
                    Err(r) => {
                        *h = H::BR(r);
                        "ret:bool:0".into()
                    }
                },
                H::MR(r) => match r.into_single() {
                    Ok(u) => {
                        *h = H::MU(u);
                        "ret:bool:1".into()
                    }
                    Err(r) => {
                        *h = H::MR(r);
                        "ret:bool:0".into()
                    }
                },
                H::BFR(r) => match r.into_inner().into_single(view_fn as VF) {
                    Ok(u) => {
                        *h = H::BFU(spawn(u));
                        "ret:bool:1".into()
                    }
                    Err((_, r)) => {
                        *h = H::BFR(spawn(r));
                        "ret:bool:0".into()
                    }
                },
                H::MFR(r) => match r.into_inner().into_single(view_fn as VF) {
                    Ok(u) => {
                        *h = H::MFU(spawn(u));
                        "ret:bool:1".into()
                    }
                    Err((_, r)) => {
                        *h = H::MFR(spawn(r));
                        "ret:bool:0".into()
                    }
                },
                _ => panic!("intosingle on wrong handle"),
            }
        }
        Call::IntoMulti => {
            let old = std::mem::replace(h, H::Gone);
            match old {
                H::BU(u) => *h = H::BR(u.into_multi()),
                H::MU(u) => *h = H::MR(u.into_multi()),
                H::BFU(u) => *h = H::BFR(spawn(u.into_inner().into_multi())),
                H::MFU(u) => *h = H::MFR(spawn(u.into_inner().into_multi())),
                _ => panic!("intomulti on wrong handle"),
            }
            "ret:unit".into()
        }
        Call::Transform => {
            let old = std::mem::replace(h, H::Gone);
            match old {
                H::BFU(u) => *h = H::BFU(spawn(u.into_inner().transform_operation(view_fn as VF))),
                H::MFU(u) => *h = H::MFU(spawn(u.into_inner().transform_operation(view_fn as VF))),
                _ => panic!("transform on wrong handle"),
            }
            "ret:unit".into()
        }
    }
}

// ---------------------------------------------------------------------------
// scenarios

#[derive(Clone, Debug)]
struct Scenario {
    name: String,
    bcast: bool,
    fut: bool,
    cap: u64,
    wk: String,
    sf: usize,
    sy: usize,
    scripts: Vec<(usize, Vec<Item>)>,
    sched: Vec<(usize, u8)>,
    limit: usize,
}

fn read_scenarios(path: &str) -> Vec<Scenario> {
    let f = std::fs::File::open(path).expect("scenario file");
    let mut out = Vec::new();
    let mut cur: Option<Scenario> = None;
    for line in std::io::BufReader::new(f).lines() {
        let line = line.unwrap();
        let w: Vec<&str> = line.split_whitespace().collect();
        if w.is_empty() {
            continue;
        }
        match w[0] {
            "scenario" => {
                cur = Some(Scenario {
                    name: w[1].to_string(),
                    bcast: true,
                    fut: false,
                    cap: 1,
                    wk: "busy".into(),
                    sf: 0,
                    sy: 0,
                    scripts: Vec::new(),
                    sched: Vec::new(),
                    limit: 4000,
                })
            }
            "cfg" => {
                let sc = cur.as_mut().unwrap();
                sc.bcast = w[1] == "B";
                sc.fut = w[2] == "fut";
                sc.cap = w[3].parse().unwrap();
                sc.wk = w[4].to_string();
                sc.sf = w[5].parse().unwrap();
                sc.sy = w[6].parse().unwrap();
            }
            "limit" => cur.as_mut().unwrap().limit = w[1].parse().unwrap(),
            "script" => {
                let a: usize = w[1].parse().unwrap();
                let calls = w[2..]
                    .iter()
                    .map(|s| if *s == "sync" { Item::Barrier } else { Item::C(parse_call(s)) })
                    .collect();
                cur.as_mut().unwrap().scripts.push((a, calls));
            }
            "sched" => {
                for t in &w[1..] {
                    let (t, sp) = if t.ends_with('!') {
                        (&t[..t.len() - 1], 1u8)
                    } else if t.ends_with('*') {
                        (&t[..t.len() - 1], 2u8)
                    } else {
                        (&t[..], 0u8)
                    };
                    cur.as_mut().unwrap().sched.push((t.parse().unwrap(), sp));
                }
            }
            "end" => {
                if let Some(sc) = cur.take() {
                    out.push(sc);
                }
            }
            _ => {}
        }
    }
    out
}

fn create(sc: &Scenario) -> (H, H) {
    let cap = sc.cap;
    match (sc.bcast, sc.fut) {
        (true, false) => {
            let (t, r) = match sc.wk.as_str() {
                "busy" => broadcast_queue_with::<P, BusyWait>(cap, BusyWait::new()),
                "yield" => broadcast_queue_with::<P, YieldingWait>(cap, YieldingWait::with_spins(sc.sf, sc.sy)),
                "block" => broadcast_queue_with::<P, BlockingWait>(cap, BlockingWait::with_spins(sc.sf, sc.sy)),
                _ => panic!("bad wait kind"),
            };
            (H::BS(t), H::BR(r))
        }
        (false, false) => {
            let (t, r) = match sc.wk.as_str() {
                "busy" => mpmc_queue_with::<P, BusyWait>(cap, BusyWait::new()),
                "yield" => mpmc_queue_with::<P, YieldingWait>(cap, YieldingWait::with_spins(sc.sf, sc.sy)),
                "block" => mpmc_queue_with::<P, BlockingWait>(cap, BlockingWait::with_spins(sc.sf, sc.sy)),
                _ => panic!("bad wait kind"),
            };
            (H::MS(t), H::MR(r))
        }
        (true, true) => {
            let (t, r) = broadcast_fut_queue_with::<P>(cap, sc.sf, sc.sy);
            (H::BFS(spawn(t)), H::BFR(spawn(r)))
        }
        (false, true) => {
            assert!(sc.sf == 50 && sc.sy == 50, "mpmc futures queues only exist with the default spin counts");
            let (t, r) = mpmc_fut_queue::<P>(cap);
            (H::MFS(spawn(t)), H::MFR(spawn(r)))
        }
    }
}

fn snapshot_str(st: &State) -> String {
    if st.torn {
        return "S torn".into();
    }
    let snap = match vh::snapshot() {
        Some(s) => s,
        None => return "S none".into(),
    };
    let mut s = String::new();
    s.push_str(&format!("S {:x} {:x} {:x} ", snap.head, snap.tail_cache, snap.writers));
    s.push_str("T ");
    for t in &snap.tags {
        s.push_str(&format!("{:x} ", t));
    }
    s.push_str("P ");
    for t in &snap.refs {
        s.push_str(&format!("{:x} ", t));
    }
    let name = |addr: usize| -> String {
        match st.block_of(addr) {
            Some(i) if st.blocks[i].addr == addr => match st.blocks[i].obj {
                Obj::Group(g) => format!("{:x}", g),
                Obj::Pos(p) => format!("{:x}", p),
                Obj::Tok(t) => format!("{:x}", t),
                o => o.name(),
            },
            _ => format!("?{:x}", addr),
        }
    };
    let oname = |addr: usize| -> String {
        match st.block_of(addr) {
            Some(i) if st.blocks[i].addr == addr => st.blocks[i].obj.name(),
            _ => format!("?{:x}", addr),
        }
    };
    s.push_str(&format!("G {} : ", name(snap.group)));
    for (a, _) in &snap.streams {
        s.push_str(&format!("{} ", name(*a)));
    }
    s.push_str(": ");
    for (_, v) in &snap.streams {
        s.push_str(&format!("{:x} ", v));
    }
    s.push_str(&format!(
        "L {:x} {:x} {:x} {:x} ",
        snap.last_pos, snap.signal, snap.epoch, snap.inner_epoch
    ));
    s.push_str("K ");
    for (a, e) in &snap.tokens {
        s.push_str(&format!("{}:{:x} ", name(*a), e));
    }
    s.push_str("F ");
    for a in &snap.tofree {
        s.push_str(&format!("{} ", oname(*a)));
    }
    s.push_str("W ");
    for a in &snap.wait_to_free {
        s.push_str(&format!("{} ", oname(*a)));
    }
    let cp = snap
        .layout
        .iter()
        .find(|(n, _)| *n == "cons_parked_len")
        .map(|(_, v)| *v)
        .unwrap_or(0);
    s.push_str(&format!("C {:x}", cp));
    s
}

fn run_scenario(sc: &Scenario, verbose: bool, out: &mut dyn Write) {
    let nag = sc.scripts.iter().map(|(a, _)| *a + 1).max().unwrap_or(2).max(2);
    let mut scripts: Vec<Vec<Item>> = vec![Vec::new(); nag];
    for (a, cs) in &sc.scripts {
        scripts[*a] = cs.clone();
    }
    let slen: Vec<usize> = scripts
        .iter()
        .map(|s| match s.first() {
            None => 0,
            Some(Item::C(_)) => 1,
            Some(Item::Barrier) => 2,
        })
        .collect();
    let listed: Vec<usize> = {
        let mut v: Vec<usize> = sc.scripts.iter().map(|(a, _)| *a).collect();
        v.sort();
        v
    };

    // fresh runtime state
    let epoch = rt().with(|st| {
        let ep = st.epoch + 1;
        *st = State {
            epoch: ep,
            aborted: false,
            current: None,
            agents: (0..nag)
                .map(|_| AgentSt {
                    pending: Pending::NotBorn,
                    notified: false,
                })
                .collect(),
            events: Vec::new(),
            bad: false,
            locks: Default::default(),
            sleepers: Vec::new(),
            woken: Vec::new(),
            spurious_next: false,
            blocks: Vec::new(),
            n_group: 0,
            n_pos: 0,
            n_meta: 0,
            n_tok: 0,
            layout: Vec::new(),
            cap: 0,
            torn: false,
            ledger: Vec::new(),
        };
        ep
    });
    Q_ON.store(true, Ordering::SeqCst);
    vh::unregister_queue();
    let (tx, rx) = create(sc);
    let snap0 = vh::snapshot().expect("snapshot");
    rt().with(|st| {
        st.layout = snap0.layout.clone();
        st.cap = snap0.capacity;
    });
    let slots: Slots = Arc::new((0..nag).map(|_| Mutex::new(None)).collect());
    *slots[0].lock().unwrap() = Some(tx);
    *slots[1].lock().unwrap() = Some(rx);
    rt().with(|st| {
        for a in 0..2 {
            st.agents[a].pending = match slen[a] {
                0 => Pending::Finished,
                1 => Pending::CallStart,
                _ => Pending::Barrier,
            };
        }
    });
    let ntf: NotifyHandle = NotifyHandle::from(Arc::new(Ntf));

    let mut threads = Vec::new();
    for a in 0..nag {
        if slen[a] == 0 {
            continue;
        }
        let script = scripts[a].clone();
        let slots = slots.clone();
        let slen = slen.clone();
        let ntf = ntf.clone();
        threads.push(
            std::thread::Builder::new()
                .stack_size(256 * 1024)
                .spawn(move || {
                    ME.with(|m| m.set(Some((a, epoch))));
                    vh::set_agent(true);
                    let r = catch_unwind(AssertUnwindSafe(|| {
                        rt().wait_for_baton();
                        let mut h = slots[a].lock().unwrap().take().expect("handle");
                        let mut have_grant = true;
                        for item in script.iter() {
                            let call = match item {
                                Item::Barrier => {
                                    if !have_grant {
                                        rt().sched_point(Pending::Barrier);
                                        have_grant = true;
                                    }
                                    continue;
                                }
                                Item::C(c) => c,
                            };
                            if !have_grant {
                                rt().sched_point(Pending::CallStart);
                            }
                            have_grant = false;
                            rt().with(|st| {
                                st.agents[a].notified = false;
                                st.emit(format!("start:{}", call_str(call)));
                            });
                            let res = catch_unwind(AssertUnwindSafe(|| {
                                do_call(&mut h, call, a, &slots, &slen, &ntf)
                            }));
                            match res {
                                Ok(s) => emit(s),
                                Err(e) => {
                                    if e.is::<AbortScenario>() {
                                        std::mem::forget(h);
                                        std::panic::resume_unwind(e);
                                    }
                                    emit("ret:panic".into());
                                }
                            }
                        }
                        // a handle that was not dropped by the script stays alive until the end
                        *slots[a].lock().unwrap() = Some(h);
                    }));
                    let _ = r;
                    rt().finish();
                })
                .unwrap(),
        );
    }

    writeln!(out, "scenario {}", sc.name).unwrap();
    // index of the script item each agent is waiting at (controller's view)
    let next_idx: std::cell::RefCell<Vec<usize>> = std::cell::RefCell::new(vec![0; nag]);
    let seqmode = std::cell::Cell::new(false);
    let release_barriers = || {
        rt().with(|st| {
            let quiet = listed.iter().all(|a| match st.agents[*a].pending {
                Pending::NotBorn | Pending::CallStart | Pending::Barrier | Pending::Finished => true,
                _ => false,
            });
            if !quiet {
                return;
            }
            let waiting: Vec<usize> = listed.iter().cloned().filter(|a| st.agents[*a].pending == Pending::Barrier).collect();
            let running = listed.iter().any(|a| st.agents[*a].pending == Pending::CallStart);
            if !waiting.is_empty() && !running {
                let mut ni = next_idx.borrow_mut();
                for a in waiting {
                    ni[a] += 1;
                    st.agents[a].pending = if ni[a] < scripts[a].len() {
                        Pending::CallStart
                    } else {
                        Pending::Finished
                    };
                }
                seqmode.set(true);
            }
        });
    };
    let mut steps = 0usize;
    let mut last: isize = -1;
    let mut isbad = false;
    let mut do_step = |a: usize, sp: bool, steps: &mut usize, last: &mut isize, isbad: &mut bool, out: &mut dyn Write| -> bool {
        let (en, starting) = rt().with(|st| {
            (
                a < st.agents.len() && Rt::enabled(st, a),
                a < st.agents.len() && st.agents[a].pending == Pending::CallStart,
            )
        });
        if !en {
            return false;
        }
        if starting {
            next_idx.borrow_mut()[a] += 1;
        }
        let evs = rt().step(a, sp);
        *steps += 1;
        *last = a as isize;
        writeln!(out, "{} {} {}", *steps, a, evs.join(" ")).unwrap();
        rt().with(|st| {
            if st.bad {
                *isbad = true;
            }
            if verbose {
                writeln!(out, "{}", snapshot_str(st)).unwrap();
                let en: Vec<String> = listed
                    .iter()
                    .filter(|a| Rt::enabled(st, **a))
                    .map(|a| a.to_string())
                    .collect();
                writeln!(out, "E {}", en.join(" ")).unwrap();
            }
        });
        true
    };
    for (a, sp) in &sc.sched {
        release_barriers();
        if isbad || steps >= sc.limit || seqmode.get() {
            break;
        }
        do_step(*a, *sp == 1, &mut steps, &mut last, &mut isbad, out);
        if *sp == 2 {
            loop {
                let go = rt().with(|st| {
                    let mid = match st.agents[*a].pending {
                        Pending::CallStart | Pending::Finished | Pending::NotBorn | Pending::Barrier => false,
                        _ => true,
                    };
                    mid && Rt::enabled(st, *a)
                });
                if !go || isbad || steps >= sc.limit {
                    break;
                }
                do_step(*a, false, &mut steps, &mut last, &mut isbad, out);
            }
        }
    }
    let outcome;
    loop {
        if isbad {
            outcome = "bad";
            break;
        }
        if steps >= sc.limit {
            outcome = "limit";
            break;
        }
        release_barriers();
        let en: Vec<usize> = rt().with(|st| listed.iter().cloned().filter(|a| Rt::enabled(st, *a)).collect());
        if en.is_empty() {
            let fin = rt().with(|st| {
                listed.iter().all(|a| match st.agents[*a].pending {
                    Pending::Finished | Pending::NotBorn | Pending::CallStart | Pending::Barrier => true,
                    _ => false,
                })
            });
            outcome = if fin { "done" } else { "deadlock" };
            break;
        }
        let a = en.iter().cloned().find(|a| (*a as isize) > last).unwrap_or(en[0]);
        do_step(a, false, &mut steps, &mut last, &mut isbad, out);
        if seqmode.get() {
            loop {
                let go = rt().with(|st| {
                    let mid = match st.agents[a].pending {
                        Pending::CallStart | Pending::Finished | Pending::NotBorn | Pending::Barrier => false,
                        _ => true,
                    };
                    mid && Rt::enabled(st, a)
                });
                if !go || isbad || steps >= sc.limit {
                    break;
                }
                do_step(a, false, &mut steps, &mut last, &mut isbad, out);
            }
        }
    }
    // end of scenario: release every thread, drop what is left
    rt().with(|st| {
        st.aborted = true;
    });
    rt().cv.notify_all();
    for t in threads {
        let _ = t.join();
    }
    let (torn_in_trace, ledger_bad, live) = rt().with(|st| {
        let lb: Vec<String> = st
            .ledger
            .iter()
            .enumerate()
            .filter(|(_, (_, d))| *d != 1)
            .map(|(s, (_, d))| format!("{:x}x{}", s, d))
            .collect();
        (st.torn, lb, st.live_objects())
    });
    for s in slots.iter() {
        let h = s.lock().unwrap().take();
        drop(h);
    }
    drop(ntf);
    writeln!(
        out,
        "end {} steps={} torn={} ledger={} live={}",
        outcome,
        steps,
        if torn_in_trace { 1 } else { 0 },
        if torn_in_trace { ledger_bad.join(",") } else { "-".into() },
        if torn_in_trace { live.join(",") } else { "-".into() }
    )
    .unwrap();
    vh::unregister_queue();
    quarantine_flush();
}

fn arith() {
    use vh::export as ex;
    let stdin = std::io::stdin();
    let out = std::io::stdout();
    let mut out = out.lock();
    let hx = |s: &str| usize::from_str_radix(s, 16).unwrap();
    for line in stdin.lock().lines() {
        let line = line.unwrap();
        let w: Vec<&str> = line.split_whitespace().collect();
        if w.is_empty() {
            continue;
        }
        let b = |x: bool| if x { "1".to_string() } else { "0".to_string() };
        let res = match w[0] {
            "past" => {
                let (d, t) = ex::past(hx(w[1]), hx(w[2]));
                format!("{:x} {}", d, b(t))
            }
            "rm_tag" => format!("{:x}", ex::rm_tag(hx(w[1]))),
            "is_tagged" => b(ex::is_tagged(hx(w[1]))),
            "get_valid_wrap" => format!("{:x}", ex::get_valid_wrap(hx(w[1]) as u64)),
            "matches_previous" => b(ex::matches_previous(hx(w[1]), hx(w[2]) as u64, hx(w[3]))),
            "get_previous" => format!("{:x}", ex::get_previous(hx(w[1]), hx(w[2]) as u64)),
            "slot_of" => format!("{:x}", ex::slot_of(hx(w[1]), hx(w[2]) as u64)),
            "wait_check" => b(ex::wait_check(hx(w[1]), hx(w[2]), hx(w[3]))),
            "next_count" => format!("{:x}", ex::rm_tag(hx(w[1]).wrapping_add(1))),
            _ => "?".into(),
        };
        writeln!(out, "{} = {}", line.trim(), res).unwrap();
    }
}

fn main() {
    let args: Vec<String> = std::env::args().collect();
    let rtb: &'static Rt = Box::leak(Box::new(Rt::new()));
    unsafe {
        RT_PTR = rtb;
        vh::set_runtime(Some(rtb));
    }
    vh::set_agent(true);
    // agent threads that are torn down by the end-of-scenario abort panic: keep stderr quiet
    std::panic::set_hook(Box::new(|info| {
        if info.payload().is::<AbortScenario>() {
            return;
        }
        if std::env::var("MQX_PANIC_TRACE").is_ok() {
            eprintln!("panic: {}", info);
        }
    }));
    match args.get(1).map(|s| s.as_str()) {
        Some("run") => {
            let verbose = !args.iter().any(|a| a == "--brief");
            let scs = read_scenarios(&args[2]);
            let stdout = std::io::stdout();
            let mut out = std::io::BufWriter::new(stdout.lock());
            for sc in &scs {
                run_scenario(sc, verbose, &mut out);
            }
            out.flush().unwrap();
        }
        Some("arith") => arith(),
        _ => {
            eprintln!("usage: mqx run <file> [--brief] | arith");
            std::process::exit(2);
        }
    }
}
