//! Deterministic scheduler runtime: serialises the agent threads, hands the baton to the
//! agent the controller names, records one canonical event list per step.

use multiqueue2::verif_hooks::{EvKind, OpKind, Runtime};
use std::cell::Cell;
use std::collections::HashMap;
use std::sync::{Condvar, Mutex};

#[derive(Clone, Debug, PartialEq)]
pub enum Pending {
    NotBorn,
    CallStart,
    Op,
    Lock(usize),
    TryLock,
    Wake(usize),
    Await,
    Barrier,
    Finished,
}

#[derive(Clone, Copy, Debug, PartialEq, Eq, Hash)]
pub enum Obj {
    Ring,
    Refs,
    Group(usize),
    Pos(usize),
    Meta(usize),
    Tok(usize),
    Other,
}

impl Obj {
    pub fn name(&self) -> String {
        match self {
            Obj::Ring => "ring".into(),
            Obj::Refs => "refs".into(),
            Obj::Group(g) => format!("g{:x}", g),
            Obj::Pos(s) => format!("p{:x}", s),
            Obj::Meta(s) => format!("m{:x}", s),
            Obj::Tok(t) => format!("t{:x}", t),
            Obj::Other => "other".into(),
        }
    }
}

pub struct Block {
    pub addr: usize,
    pub bytes: usize,
    pub obj: Obj,
    pub live: bool,
}

pub struct AgentSt {
    pub pending: Pending,
    pub notified: bool,
}

pub struct State {
    pub epoch: u64,
    pub aborted: bool,
    pub current: Option<usize>,
    pub agents: Vec<AgentSt>,
    pub events: Vec<String>,
    pub bad: bool,
    pub locks: HashMap<usize, usize>,
    pub sleepers: Vec<usize>,
    pub woken: Vec<usize>,
    pub spurious_next: bool,
    pub blocks: Vec<Block>,
    pub n_group: usize,
    pub n_pos: usize,
    pub n_meta: usize,
    pub n_tok: usize,
    pub layout: Vec<(&'static str, usize)>,
    pub cap: usize,
    pub torn: bool,
    // payload ledger: index = serial
    pub ledger: Vec<(u64, u32)>, // (id, drops)
}

impl State {
    fn new() -> State {
        State {
            epoch: 0,
            aborted: false,
            current: None,
            agents: Vec::new(),
            events: Vec::new(),
            bad: false,
            locks: HashMap::new(),
            sleepers: Vec::new(),
            woken: Vec::new(),
            spurious_next: false,
            blocks: Vec::new(),
            n_group: 0,
            n_pos: 0,
            n_meta: 0,
            n_tok: 0,
            layout: Vec::new(),
            cap: 0,
            torn: false,
            ledger: Vec::new(),
        }
    }

    pub fn lay(&self, name: &str) -> Option<usize> {
        self.layout.iter().find(|(n, _)| *n == name).map(|(_, a)| *a)
    }

    /// the heap block containing addr
    pub fn block_of(&self, addr: usize) -> Option<usize> {
        // latest block first (addresses are never reused during a scenario, but be safe)
        for (i, b) in self.blocks.iter().enumerate().rev() {
            if addr >= b.addr && addr < b.addr + b.bytes.max(1) {
                return Some(i);
            }
        }
        None
    }

    pub fn obj_at(&self, addr: usize) -> Option<Obj> {
        self.block_of(addr).map(|i| self.blocks[i].obj)
    }

    /// canonical name of a shared location; second component: the block is freed
    pub fn loc_name(&self, addr: usize) -> (String, bool) {
        if addr == 0 {
            return ("none".into(), false);
        }
        for (n, a) in &self.layout {
            if *a == addr {
                let nm = match *n {
                    "head" => "head",
                    "tail_cache" => "tailc",
                    "writers" => "writers",
                    "readers" => "readers",
                    "signal" => "signal",
                    "epoch" => "epoch",
                    "mm_lock" => "mm",
                    "wtf_lock" => "wtf",
                    "bw_lock" => "bw",
                    "bw_cv" => "bwcv",
                    "cons_parked" => "cp",
                    "prod_parked" => "pp",
                    _ => continue,
                };
                return (nm.into(), false);
            }
        }
        if let Some(i) = self.block_of(addr) {
            let b = &self.blocks[i];
            let freed = !b.live;
            let nm = match b.obj {
                Obj::Ring => {
                    let stride = self.lay("data_stride").unwrap_or(1).max(1);
                    format!("tag{:x}", (addr - b.addr) / stride)
                }
                Obj::Refs => {
                    let stride = self.lay("refs_stride").unwrap_or(1).max(1);
                    format!("pin{:x}", (addr - b.addr) / stride)
                }
                Obj::Pos(s) => format!("pos{:x}", s),
                Obj::Meta(s) => format!("cons{:x}", s),
                Obj::Tok(t) => format!("tok{:x}", t),
                Obj::Group(g) => format!("grp{:x}", g),
                Obj::Other => format!("other{:x}", addr),
            };
            return (nm, freed);
        }
        (format!("unknown{:x}", addr), false)
    }

    pub fn classify(&mut self, name: &str) -> Obj {
        if name.contains("ReaderMeta") {
            self.n_meta += 1;
            Obj::Meta(self.n_meta - 1)
        } else if name.contains("ReaderGroup") {
            self.n_group += 1;
            Obj::Group(self.n_group - 1)
        } else if name.contains("ReaderPos") {
            self.n_pos += 1;
            Obj::Pos(self.n_pos - 1)
        } else if name.contains("MemToken") {
            self.n_tok += 1;
            Obj::Tok(self.n_tok - 1)
        } else if name.contains("QueueEntry") {
            Obj::Ring
        } else if name.contains("RefCnt") {
            Obj::Refs
        } else {
            Obj::Other
        }
    }

    pub fn emit(&mut self, s: String) {
        self.events.push(s);
    }

    pub fn emit_bad(&mut self) {
        self.bad = true;
        self.events.push("bad".into());
    }

    pub fn live_objects(&self) -> Vec<String> {
        self.blocks
            .iter()
            .filter(|b| b.live)
            .map(|b| b.obj.name())
            .collect()
    }
}

pub struct Rt {
    pub st: Mutex<State>,
    pub cv: Condvar,
}

thread_local! {
    /// (agent id, scenario epoch) of the current thread, if it is an agent thread
    pub static ME: Cell<Option<(usize, u64)>> = Cell::new(None);
}

pub struct AbortScenario;

fn kind_str(k: OpKind) -> &'static str {
    match k {
        OpKind::Load => "ld",
        OpKind::Store => "st",
        OpKind::Cas => "cas",
        OpKind::CasWeak => "casw",
        OpKind::FetchAdd => "fadd",
        OpKind::FetchSub => "fsub",
        OpKind::FetchOr => "for",
        OpKind::FetchAnd => "fand",
        OpKind::PtrLoad => "pld",
        OpKind::PtrCas => "pcas",
        OpKind::Lock => "lock",
        OpKind::TryLock => "trylock",
        OpKind::CvWait => "cvwait",
        OpKind::CvNotifyAll => "cvnotify",
        OpKind::Yield => "yield",
        OpKind::Sleep => "sleep",
    }
}

impl Rt {
    pub fn new() -> Rt {
        Rt {
            st: Mutex::new(State::new()),
            cv: Condvar::new(),
        }
    }

    pub fn me() -> Option<usize> {
        ME.with(|m| m.get()).map(|(a, _)| a)
    }

    /// Park the calling agent with `pending` until the controller hands it the baton.
    pub fn sched_point(&self, pending: Pending) {
        let (me, ep) = match ME.with(|m| m.get()) {
            Some(x) => x,
            None => return,
        };
        let mut st = self.st.lock().unwrap();
        if st.epoch != ep || st.aborted {
            drop(st);
            if !std::thread::panicking() {
                std::panic::resume_unwind(Box::new(AbortScenario));
            }
            return;
        }
        st.agents[me].pending = pending;
        st.current = None;
        self.cv.notify_all();
        loop {
            if st.epoch != ep || st.aborted {
                drop(st);
                if !std::thread::panicking() {
                    std::panic::resume_unwind(Box::new(AbortScenario));
                }
                return;
            }
            if st.current == Some(me) {
                break;
            }
            st = self.cv.wait(st).unwrap();
        }
    }

    /// Agent thread start: wait for the first baton without touching the scheduler state.
    pub fn wait_for_baton(&self) {
        let (me, ep) = match ME.with(|m| m.get()) {
            Some(x) => x,
            None => return,
        };
        let mut st = self.st.lock().unwrap();
        loop {
            if st.epoch != ep || st.aborted {
                drop(st);
                std::panic::resume_unwind(Box::new(AbortScenario));
            }
            if st.current == Some(me) {
                break;
            }
            st = self.cv.wait(st).unwrap();
        }
    }

    /// Agent thread: the script is finished.
    pub fn finish(&self) {
        let (me, ep) = match ME.with(|m| m.get()) {
            Some(x) => x,
            None => return,
        };
        let mut st = self.st.lock().unwrap();
        if st.epoch != ep {
            return;
        }
        st.agents[me].pending = Pending::Finished;
        st.current = None;
        self.cv.notify_all();
    }

    pub fn with<R, F: FnOnce(&mut State) -> R>(&self, f: F) -> R {
        let mut st = self.st.lock().unwrap();
        f(&mut st)
    }

    pub fn active(&self) -> bool {
        match ME.with(|m| m.get()) {
            Some((_, ep)) => {
                let st = self.st.lock().unwrap();
                st.epoch == ep && !st.aborted
            }
            None => false,
        }
    }

    fn canon_val(st: &State, k: OpKind, v: usize) -> String {
        match k {
            OpKind::PtrLoad | OpKind::PtrCas => match st.obj_at(v) {
                Some(Obj::Group(g)) => format!("{:x}", g),
                _ => format!("?{:x}", v),
            },
            _ => format!("{:x}", v),
        }
    }

    // ---- controller side ----

    pub fn enabled(st: &State, a: usize) -> bool {
        match &st.agents[a].pending {
            Pending::NotBorn | Pending::Finished | Pending::Barrier => false,
            Pending::CallStart | Pending::Op | Pending::TryLock => true,
            Pending::Lock(addr) => !st.locks.contains_key(addr),
            Pending::Wake(m) => st.woken.contains(&a) && !st.locks.contains_key(m),
            Pending::Await => st.agents[a].notified,
        }
    }

    /// Let agent `a` run one step; returns the events of the step.
    pub fn step(&self, a: usize, spurious: bool) -> Vec<String> {
        let mut st = self.st.lock().unwrap();
        st.events.clear();
        st.spurious_next = spurious;
        st.current = Some(a);
        self.cv.notify_all();
        while st.current.is_some() {
            st = self.cv.wait(st).unwrap();
        }
        st.spurious_next = false;
        std::mem::replace(&mut st.events, Vec::new())
    }
}

thread_local! {
    static LAST_OP: Cell<(usize, usize)> = Cell::new((0, 0));
}

impl Runtime for Rt {
    fn op(&self, kind: OpKind, addr: usize, a: usize, b: usize) {
        if !self.active() {
            return;
        }
        LAST_OP.with(|l| l.set((a, b)));
        match kind {
            OpKind::Lock => {
                self.sched_point(Pending::Lock(addr));
                let me = Rt::me().unwrap();
                self.with(|st| {
                    st.locks.insert(addr, me);
                });
            }
            _ => self.sched_point(Pending::Op),
        }
    }

    fn done(&self, kind: OpKind, addr: usize, result: usize, ok: bool) {
        if !self.active() {
            return;
        }
        let (a, b) = LAST_OP.with(|l| l.get());
        self.with(|st| {
            let (loc, freed) = st.loc_name(addr);
            let (sa, sb) = match kind {
                OpKind::PtrCas => (Rt::canon_val(st, kind, a), Rt::canon_val(st, kind, b)),
                _ => (format!("{:x}", a), format!("{:x}", b)),
            };
            let sr = Rt::canon_val(st, kind, result);
            if kind == OpKind::CvNotifyAll {
                let mut s = std::mem::replace(&mut st.sleepers, Vec::new());
                st.woken.append(&mut s);
            }
            st.emit(format!(
                "op:{}:{}:{}:{}:{}:{}",
                kind_str(kind),
                loc,
                sa,
                sb,
                sr,
                if ok { 1 } else { 0 }
            ));
            if freed {
                st.emit_bad();
            }
        });
    }

    fn event(&self, kind: EvKind, addr: usize, a: usize, name: &'static str) {
        // allocations made by the controller (queue construction) are recorded silently
        let is_agent = self.active();
        let is_ctrl = ME.with(|m| m.get()).is_none();
        if !is_agent && !is_ctrl {
            return;
        }
        self.with(|st| match kind {
            EvKind::Alloc => {
                let obj = st.classify(name);
                st.blocks.push(Block {
                    addr,
                    bytes: a,
                    obj,
                    live: true,
                });
                if is_agent {
                    st.emit(format!("alloc:{}", obj.name()));
                }
            }
            EvKind::Dealloc => {
                let idx = st.block_of(addr);
                match idx {
                    Some(i) if st.blocks[i].addr == addr => {
                        let was_live = st.blocks[i].live;
                        st.blocks[i].live = false;
                        let obj = st.blocks[i].obj;
                        if obj == Obj::Ring {
                            st.torn = true;
                        }
                        if is_agent {
                            if !was_live {
                                st.emit_bad();
                            }
                            st.emit(format!("dealloc:{}", obj.name()));
                        }
                    }
                    _ => {
                        if is_agent {
                            st.emit_bad();
                            st.emit(format!("dealloc:unknown{:x}", addr));
                        }
                    }
                }
            }
            EvKind::Unlock => {
                if is_agent {
                    st.locks.remove(&addr);
                    let (loc, _) = st.loc_name(addr);
                    st.emit(format!("unlock:{}", loc));
                }
            }
            EvKind::Touch => {
                if is_agent {
                    match st.block_of(addr) {
                        Some(i) => {
                            let nm = st.blocks[i].obj.name();
                            let live = st.blocks[i].live;
                            st.emit(format!("touch:{}", nm));
                            if !live {
                                st.emit_bad();
                            }
                        }
                        None => {
                            st.emit(format!("touch:unknown{:x}", addr));
                            st.emit_bad();
                        }
                    }
                }
            }
        });
    }

    fn try_lock(&self, addr: usize) -> bool {
        if !self.active() {
            return true;
        }
        self.sched_point(Pending::TryLock);
        let me = Rt::me().unwrap();
        self.with(|st| {
            let (loc, _) = st.loc_name(addr);
            if st.locks.contains_key(&addr) {
                st.emit(format!("op:trylock:{}:0:0:0:0", loc));
                false
            } else {
                st.locks.insert(addr, me);
                st.emit(format!("op:trylock:{}:0:0:1:1", loc));
                true
            }
        })
    }

    fn cv_wait(&self, cv: usize, mutex: usize) {
        if !self.active() {
            return;
        }
        self.sched_point(Pending::Op);
        let me = Rt::me().unwrap();
        self.with(|st| {
            st.locks.remove(&mutex);
            st.sleepers.push(me);
            let (loc, _) = st.loc_name(cv);
            st.emit(format!("op:cvwait:{}:0:0:0:1", loc));
        });
        self.sched_point(Pending::Wake(mutex));
        self.with(|st| {
            st.woken.retain(|x| *x != me);
            st.locks.insert(mutex, me);
            let (loc, _) = st.loc_name(mutex);
            st.emit(format!("op:wake:{}:0:0:0:1", loc));
        });
    }

    fn spurious(&self) -> bool {
        if !self.active() {
            return false;
        }
        self.with(|st| st.spurious_next)
    }
}
