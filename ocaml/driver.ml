(* Driver around the extracted Coq model (Mqmodel).
   Reads scenarios, runs the model's stepx under the scheduling policy shared with the
   Rust harness, prints one canonical line per step.  Also enumerates schedules.  *)
open Mqmodel

(* ---------- numbers: N <-> hex strings ---------- *)
let rec pos_of_int (i : int) : positive =
  if i = 1 then XH else if i land 1 = 0 then XO (pos_of_int (i lsr 1)) else XI (pos_of_int (i lsr 1))
let n_of_int (i : int) : n = if i = 0 then N0 else Npos (pos_of_int i)
let rec pos_to_int = function XH -> 1 | XO p -> 2 * pos_to_int p | XI p -> 2 * pos_to_int p + 1
let n_to_int = function N0 -> 0 | Npos p -> pos_to_int p

(* bits, least significant first *)
let rec pos_bits = function XH -> [1] | XO p -> 0 :: pos_bits p | XI p -> 1 :: pos_bits p
let hex_of_n (x : n) : string =
  match x with
  | N0 -> "0"
  | Npos p ->
    let bits = Array.of_list (pos_bits p) in
    let len = Array.length bits in
    let nd = (len + 3) / 4 in
    let b = Buffer.create nd in
    for d = nd - 1 downto 0 do
      let v = ref 0 in
      for k = 3 downto 0 do
        let i = d * 4 + k in
        v := !v * 2 + (if i < len then bits.(i) else 0)
      done;
      Buffer.add_char b "0123456789abcdef".[!v]
    done;
    Buffer.contents b
let n_of_dec (s : string) : n = n_of_int (int_of_string s)

let h = hex_of_n
let hi (i : int) = Printf.sprintf "%x" i

(* ---------- printing ---------- *)
let call_str = function
  | CNone -> "none" | CTrySend v -> "send:" ^ string_of_int (n_to_int v)
  | CTryRecv -> "recv" | CRecv -> "brecv" | CTryView -> "view" | CView -> "bview"
  | CClone a -> "clone:" ^ string_of_int (n_to_int a)
  | CAddStream a -> "addstream:" ^ string_of_int (n_to_int a)
  | CUnsub -> "unsub" | CDrop -> "drop" | CIntoSingle -> "intosingle" | CIntoMulti -> "intomulti"
  | CStartSend v -> "ssend:" ^ string_of_int (n_to_int v)
  | CAStartSend v -> "asend:" ^ string_of_int (n_to_int v)
  | CPoll -> "poll" | CAPoll -> "apoll" | CPollComplete -> "pollc" | CTransform -> "transform"

let parse_call (s : string) : call =
  match String.split_on_char ':' s with
  | ["send"; v] -> CTrySend (n_of_dec v)
  | ["recv"] -> CTryRecv | ["brecv"] -> CRecv | ["view"] -> CTryView | ["bview"] -> CView
  | ["clone"; a] -> CClone (n_of_dec a)
  | ["addstream"; a] -> CAddStream (n_of_dec a)
  | ["unsub"] -> CUnsub | ["drop"] -> CDrop
  | ["intosingle"] -> CIntoSingle | ["intomulti"] -> CIntoMulti
  | ["ssend"; v] -> CStartSend (n_of_dec v) | ["asend"; v] -> CAStartSend (n_of_dec v)
  | ["poll"] -> CPoll | ["apoll"] -> CAPoll | ["pollc"] -> CPollComplete
  | ["transform"] -> CTransform
  | _ -> failwith ("bad call " ^ s)

let res_str = function
  | RNoRes -> "nores" | ROk -> "ok" | RFull s -> "full:" ^ h s | RDisc s -> "disc:" ^ h s
  | RVal s -> "val:" ^ h s | REmpty -> "empty" | RDiscon -> "discon" | RNotReady -> "notready"
  | RBool b -> if b then "bool:1" else "bool:0" | RUnit -> "unit" | RPanic -> "panic"

let obj_str = function
  | ORing -> "ring" | ORefs -> "refs" | OGroup g -> "g" ^ h g | OPos s -> "p" ^ h s
  | OMeta s -> "m" ^ h s | OTok t -> "t" ^ h t

let loc_str = function
  | LHead -> "head" | LTailc -> "tailc" | LWriters -> "writers"
  | LTag i -> "tag" ^ h i | LPin i -> "pin" ^ h i | LPos s -> "pos" ^ h s | LCons s -> "cons" ^ h s
  | LReaders -> "readers" | LSignal -> "signal" | LEpoch -> "epoch" | LTok t -> "tok" ^ h t
  | LMm -> "mm" | LWtf -> "wtf" | LBw -> "bw" | LBwCv -> "bwcv" | LCp -> "cp" | LPp -> "pp"
  | LNone -> "none"

let opk_str = function
  | KLoad -> "ld" | KStore -> "st" | KCas -> "cas" | KCasW -> "casw" | KFadd -> "fadd"
  | KFsub -> "fsub" | KFor -> "for" | KFand -> "fand" | KPld -> "pld" | KPcas -> "pcas"
  | KLock -> "lock" | KTryLock -> "trylock" | KCvWait -> "cvwait" | KWake -> "wake"
  | KCvNotify -> "cvnotify" | KYield -> "yield" | KSleep -> "sleep"
  | KCloneMid -> "clonemid" | KViewMid -> "viewmid" | KAwait -> "await"

let ev_str = function
  | EStart c -> "start:" ^ call_str c
  | EOp (k, l, a, b, r, ok) ->
    Printf.sprintf "op:%s:%s:%s:%s:%s:%d" (opk_str k) (loc_str l) (h a) (h b) (h r) (if ok then 1 else 0)
  | EAlloc o -> "alloc:" ^ obj_str o
  | EDealloc o -> "dealloc:" ^ obj_str o
  | EUnlock l -> "unlock:" ^ loc_str l
  | ETouch g -> "touch:g" ^ h g
  | ENotify a -> "ntf:" ^ string_of_int (n_to_int a)
  | EBorn (s, id) -> "born:" ^ h s ^ ":" ^ h id
  | EClone (s, f) -> "clone:" ^ h s ^ ":" ^ h f
  | EDropV s -> "drop:" ^ h s
  | EBad _ -> "bad"
  | ERet r -> "ret:" ^ res_str r

let is_bad = function EBad _ -> true | _ -> false
let bad_code evs = List.fold_left (fun acc e -> match e with EBad w when acc < 0 -> n_to_int w | _ -> acc) (-1) evs

let snapshot_str (c : cfg) (s : state) : string =
  let sh = s.sh in
  if sh.torn then "S torn" else begin
    let b = Buffer.create 256 in
    let add x = Buffer.add_string b x; Buffer.add_char b ' ' in
    add "S"; add (h sh.head); add (h sh.tailc); add (h sh.writers);
    let n = n_to_int c.c_n in
    add "T"; for i = 0 to n - 1 do add (h (gtag sh (n_of_int i))) done;
    add "P"; for i = 0 to n - 1 do add (h (gpin sh (n_of_int i))) done;
    add "G"; add (h sh.cur); add ":";
    let grp = ggroup sh sh.cur in
    List.iter (fun sd -> add (h sd)) grp; add ":";
    List.iter (fun sd -> add (h (gpos sh sd))) grp;
    add "L"; add (h sh.last_pos); add (h sh.signal); add (h sh.epoch); add (h sh.iepoch);
    add "K"; List.iter (fun t -> add (h t ^ ":" ^ h (gtokep sh t))) sh.tokens;
    add "F"; List.iter (fun o -> add (obj_str o)) sh.tofree;
    add "W"; List.iter (fun o -> add (obj_str o)) sh.wtf;
    add "C"; Buffer.add_string b (hi (List.length sh.cparked));
    Buffer.contents b
  end

(* ---------- scenarios ---------- *)
type item = C of call | Barrier

type scenario = {
  name : string;
  fl : flavour; fut : bool; cap : int; wk : waitk;
  scripts : (int * item list) list;
  sched : (int * int) list;   (* agent, mode: 0 step, 1 spurious, 2 run the call to completion *)
  limit : int;
}

let words (s : string) = List.filter (fun w -> w <> "") (String.split_on_char ' ' (String.trim s))

let parse_wk kind sf sy =
  let sf = n_of_dec sf and sy = n_of_dec sy in
  match kind with
  | "busy" -> WBusy | "yield" -> WYield (sf, sy) | "block" -> WBlock (sf, sy) | "fut" -> WFut (sf, sy)
  | _ -> failwith ("bad wait kind " ^ kind)

let read_scenarios (ic : in_channel) : scenario list =
  let out = ref [] in
  let cur = ref None in
  (try
     while true do
       let line = input_line ic in
       match words line with
       | [] -> ()
       | "scenario" :: nm :: _ ->
         cur := Some { name = nm; fl = BCast; fut = false; cap = 1; wk = WBusy; scripts = []; sched = []; limit = 4000 }
       | "cfg" :: fl :: kind :: cap :: wk :: sf :: sy :: _ ->
         (match !cur with Some sc ->
            cur := Some { sc with fl = (if fl = "B" then BCast else MPMC); fut = (kind = "fut");
                                  cap = int_of_string cap; wk = parse_wk wk sf sy }
                        | None -> ())
       | "limit" :: l :: _ ->
         (match !cur with Some sc -> cur := Some { sc with limit = int_of_string l } | None -> ())
       | "script" :: a :: calls ->
         (match !cur with Some sc ->
            cur := Some { sc with scripts = sc.scripts @ [ (int_of_string a, List.map (fun w -> if w = "sync" then Barrier else C (parse_call w)) calls) ] }
                        | None -> ())
       | "sched" :: toks ->
         let tok t =
           let l = String.length t in
           if l > 0 && t.[l - 1] = '!' then (int_of_string (String.sub t 0 (l - 1)), 1)
           else if l > 0 && t.[l - 1] = '*' then (int_of_string (String.sub t 0 (l - 1)), 2)
           else (int_of_string t, 0) in
         (match !cur with Some sc -> cur := Some { sc with sched = sc.sched @ List.map tok toks } | None -> ())
       | "end" :: _ ->
         (match !cur with Some sc -> out := sc :: !out; cur := None | None -> ())
       | _ -> ()
     done
   with End_of_file -> ());
  List.rev !out

(* ---------- running ---------- *)
type runstate = {
  mutable st : state;
  mutable seqmode : bool;
  mutable scripts_left : (int * item list) list;
  mutable steps : int;
  mutable last : int;
  mutable isbad : bool;
}

let agent_ids (sc : scenario) = List.sort compare (List.map fst sc.scripts)

let script_item rs a = match List.assoc_opt a rs.scripts_left with Some (c :: _) -> Some c | _ -> None
let script_head rs a = match script_item rs a with Some (C c) -> Some c | _ -> None
let pop_script rs a =
  rs.scripts_left <- List.map (fun (b, l) -> if b = a then (b, (match l with _ :: t -> t | [] -> [])) else (b, l)) rs.scripts_left

(* a barrier ("sync") opens when no call is in flight and every born agent that still has calls waits at one;
   from then on the run is sequential: one whole call at a time *)
let release_barriers sc rs =
  let ids = List.sort compare (List.map fst sc.scripts) in
  let quiet = List.for_all (fun a -> match pc_of rs.st (n_of_int a) with Idle | Done -> true | _ -> false) ids in
  if quiet then begin
    let born a = (match pc_of rs.st (n_of_int a) with Idle -> true | _ -> false) in
    let waiting = List.filter (fun a -> born a && script_item rs a = Some Barrier) ids in
    let running = List.filter (fun a -> born a && (match script_item rs a with Some (C _) -> true | _ -> false)) ids in
    if waiting <> [] && running = [] then begin
      List.iter (fun a -> pop_script rs a) waiting;
      rs.seqmode <- true
    end
  end

let agent_enabled rs a =
  let na = n_of_int a in
  if is_idle rs.st na then script_head rs a <> None else can_step rs.st na

let enabled_set sc rs = release_barriers sc rs; List.filter (agent_enabled rs) (agent_ids sc)

(* one scheduling step of agent a; returns the events, or None if a is not enabled *)
let do_step (c : cfg) rs (a : int) (spur : bool) : ev list option =
  let na = n_of_int a in
  if not (agent_enabled rs a) then None
  else begin
    let lab =
      if is_idle rs.st na then (match script_head rs a with Some cl -> Start (na, cl) | None -> Step na)
      else if spur && at_weak_cas rs.st na then Spur na
      else Step na in
    match stepx c rs.st lab with
    | None -> None
    | Some (s', evs) ->
      (match lab with Start _ -> pop_script rs a | _ -> ());
      rs.st <- s'; rs.steps <- rs.steps + 1; rs.last <- a;
      if List.exists is_bad evs then rs.isbad <- true;
      Some evs
  end

let next_rr sc rs =
  let en = enabled_set sc rs in
  match en with
  | [] -> None
  | _ ->
    (match List.filter (fun a -> a > rs.last) en with
     | a :: _ -> Some a
     | [] -> Some (List.hd en))

let mkcfg_of (sc : scenario) = mk_cfg sc.fl (n_of_int sc.cap) sc.wk

let run_scenario (oc : out_channel) (sc : scenario) (verbose : bool) =
  let c = mkcfg_of sc in
  let rs = { st = init sc.fut; seqmode = false; scripts_left = sc.scripts; steps = 0; last = -1; isbad = false } in
  Printf.fprintf oc "scenario %s\n" sc.name;
  let emit a evs =
    Printf.fprintf oc "%d %d %s\n" rs.steps a (String.concat " " (List.map ev_str evs));
    if verbose then begin
      Printf.fprintf oc "%s\n" (snapshot_str c rs.st);
      Printf.fprintf oc "E %s\n" (String.concat " " (List.map string_of_int (List.filter (agent_enabled rs) (agent_ids sc))))
    end in
  let rec follow = function
    | [] -> ()
    | (a, mode) :: rest ->
      release_barriers sc rs;
      if rs.isbad || rs.steps >= sc.limit || rs.seqmode then ()
      else begin
        (match do_step c rs a (mode = 1) with Some evs -> emit a evs | None -> ());
        if mode = 2 then begin
          let midcall () = (match pc_of rs.st (n_of_int a) with Idle | Done -> false | _ -> true) in
          while midcall () && agent_enabled rs a && not rs.isbad && rs.steps < sc.limit do
            (match do_step c rs a false with Some evs -> emit a evs | None -> ())
          done
        end;
        follow rest
      end in
  follow sc.sched;
  let outcome = ref "" in
  while !outcome = "" do
    if rs.isbad then outcome := "bad"
    else if rs.steps >= sc.limit then outcome := "limit"
    else match next_rr sc rs with
      | None -> outcome := (if List.for_all (fun a -> match pc_of rs.st (n_of_int a) with Done | Idle -> true | _ -> false)
                                (agent_ids sc)
                            then "done" else "deadlock")
      | Some a ->
        (match do_step c rs a false with Some evs -> emit a evs | None -> outcome := "stuck");
        if rs.seqmode then begin
          let midcall () = (match pc_of rs.st (n_of_int a) with Idle | Done -> false | _ -> true) in
          while midcall () && agent_enabled rs a && not rs.isbad && rs.steps < sc.limit do
            (match do_step c rs a false with Some evs -> emit a evs | None -> ())
          done
        end
  done;
  (* summary of the ghost state for the oracles *)
  let sh = rs.st.sh in
  Printf.fprintf oc "end %s steps=%d log=%s deliv=%s\n" !outcome rs.steps
    (String.concat "," (List.map h sh.g_log))
    (String.concat "," (List.map (fun (((sd, p), ser), a) -> h sd ^ "/" ^ h p ^ "/" ^ h ser ^ "/" ^ string_of_int (n_to_int a)) sh.g_deliv))

(* ---------- schedule enumeration (DFS with a preemption bound) ---------- *)
let explore (oc : out_channel) (sc : scenario) (pbound : int) (maxn : int) (maxlen : int) =
  let c = mkcfg_of sc in
  let count = ref 0 in
  let rec dfs (st : state) (scripts : (int * item list) list) (last : int) (pre : int) (acc : int list) (len : int) =
    if !count >= maxn then ()
    else begin
      let rs = { st; seqmode = false; scripts_left = scripts; steps = 0; last; isbad = false } in
      let en = enabled_set sc rs in
      if en = [] || len >= maxlen then begin
        incr count;
        Printf.fprintf oc "scenario %s_x%d\n" sc.name !count;
        Printf.fprintf oc "cfg %s %s %d %s\n" (match sc.fl with BCast -> "B" | MPMC -> "M")
          (if sc.fut then "fut" else "plain") sc.cap
          (match sc.wk with WBusy -> "busy 0 0"
                          | WYield (a, b) -> Printf.sprintf "yield %d %d" (n_to_int a) (n_to_int b)
                          | WBlock (a, b) -> Printf.sprintf "block %d %d" (n_to_int a) (n_to_int b)
                          | WFut (a, b) -> Printf.sprintf "fut %d %d" (n_to_int a) (n_to_int b));
        Printf.fprintf oc "limit %d\n" sc.limit;
        List.iter (fun (a, calls) ->
            Printf.fprintf oc "script %d %s\n" a (String.concat " " (List.map (function C c -> call_str c | Barrier -> "sync") calls))) sc.scripts;
        Printf.fprintf oc "sched %s\nend\n" (String.concat " " (List.map string_of_int (List.rev acc)))
      end else
        List.iter (fun a ->
            (* switching away from an agent that could continue costs one preemption *)
            let cost = if last >= 0 && a <> last && List.mem last en then 1 else 0 in
            if pre + cost <= pbound then begin
              let rs' = { st; seqmode = false; scripts_left = scripts; steps = 0; last; isbad = false } in
              match do_step c rs' a false with
              | Some _ when not rs'.isbad -> dfs rs'.st rs'.scripts_left a (pre + cost) (a :: acc) (len + 1)
              | Some _ -> (* a bad state: emit it as a schedule of its own *)
                dfs_emit_bad (a :: acc)
              | None -> ()
            end) en
    end
  and dfs_emit_bad acc =
    incr count;
    Printf.fprintf oc "scenario %s_bad%d\n" sc.name !count;
    Printf.fprintf oc "cfg %s %s %d %s\n" (match sc.fl with BCast -> "B" | MPMC -> "M")
      (if sc.fut then "fut" else "plain") sc.cap
      (match sc.wk with WBusy -> "busy 0 0"
                      | WYield (a, b) -> Printf.sprintf "yield %d %d" (n_to_int a) (n_to_int b)
                      | WBlock (a, b) -> Printf.sprintf "block %d %d" (n_to_int a) (n_to_int b)
                      | WFut (a, b) -> Printf.sprintf "fut %d %d" (n_to_int a) (n_to_int b));
    List.iter (fun (a, calls) ->
        Printf.fprintf oc "script %d %s\n" a (String.concat " " (List.map (function C c -> call_str c | Barrier -> "sync") calls))) sc.scripts;
    Printf.fprintf oc "sched %s\nend\n" (String.concat " " (List.map string_of_int (List.rev acc)))
  in
  dfs (init sc.fut) sc.scripts (-1) 0 [] 0

(* ---------- arithmetic differential mode ---------- *)
(* lines: "<fn> <hex args...>" -> "<fn> <args> = <result>" *)
let n_of_hex (s : string) : n =
  let r = ref N0 in
  let push bit = r := (match !r with
      | N0 -> if bit then Npos XH else N0
      | Npos p -> Npos (if bit then XI p else XO p)) in
  String.iter (fun ch ->
      let d = if ch >= '0' && ch <= '9' then Char.code ch - 48 else Char.code ch - 87 in
      push (d land 8 <> 0); push (d land 4 <> 0); push (d land 2 <> 0); push (d land 1 <> 0)) s;
  !r

let arith (ic : in_channel) (oc : out_channel) =
  (try
     while true do
       let line = input_line ic in
       let b x = if x then "1" else "0" in
       let res =
         match words line with
         | ["past"; a; bb] -> let (d, t) = past (n_of_hex a) (n_of_hex bb) in h d ^ " " ^ b t
         | ["rm_tag"; a] -> h (rm_tag (n_of_hex a))
         | ["is_tagged"; a] -> b (is_tagged (n_of_hex a))
         | ["get_valid_wrap"; a] -> h (get_valid_wrap (n_of_hex a))
         | ["matches_previous"; a; w; v] -> b (matches_previous (n_of_hex a) (n_of_hex w) (n_of_hex v))
         | ["get_previous"; a; bb] -> h (get_previous (n_of_hex a) (n_of_hex bb))
         | ["slot_of"; a; w] -> h (slot_of (n_of_hex a) (n_of_hex w))
         | ["wait_check"; a; f; w] -> b (wait_check (n_of_hex a) (n_of_hex f) (n_of_hex w))
         | ["next_count"; a] -> h (next_count (n_of_hex a))
         | _ -> "?" in
       Printf.fprintf oc "%s = %s\n" (String.trim line) res
     done
   with End_of_file -> ())

let () =
  let args = Array.to_list Sys.argv in
  match args with
  | _ :: "run" :: file :: rest ->
    let verbose = not (List.mem "--brief" rest) in
    let ic = open_in file in
    let scs = read_scenarios ic in
    close_in ic;
    List.iter (fun sc -> run_scenario stdout sc verbose) scs
  | _ :: "explore" :: file :: pb :: maxn :: maxlen :: _ ->
    let ic = open_in file in
    let scs = read_scenarios ic in
    close_in ic;
    List.iter (fun sc -> explore stdout sc (int_of_string pb) (int_of_string maxn) (int_of_string maxlen)) scs
  | _ :: "arith" :: _ -> arith stdin stdout
  | _ -> prerr_endline "usage: driver run <file> [--brief] | explore <file> <pbound> <max> <maxlen> | arith"; exit 2
