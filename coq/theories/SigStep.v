(* Case analyses for C13 (the NO_READER flag) and C11 (the result of unsubscribe). *)
From Coq Require Import NArith List Bool Lia.
Require Import MQ.Arith64 MQ.Arith64Facts MQ.Types MQ.State MQ.Model MQ.Exec MQ.Reach MQ.Ctl MQ.WritersStep.
Import ListNotations.
Open Scope N_scope.

(* bit 1 of the signal word: every receiver is gone *)
Definition no_reader (S : shared) : bool := N.odd (signal S / 2).

Lemma odd_half_pred x : N.odd x = true -> (x - 1) / 2 = x / 2.
Proof. intros H. apply N.odd_spec in H as [k ->]. replace (2 * k + 1 - 1) with (k * 2) by lia.
  rewrite N.div_mul by lia. symmetry. replace (2 * k + 1) with (1 + k * 2) by lia.
  rewrite N.div_add by lia. reflexivity. Qed.

Lemma even_half_succ x : N.odd x = false -> (x + 1) / 2 = x / 2.
Proof. intros H. rewrite <- N.negb_even in H. apply negb_false_iff, N.even_spec in H as [k ->].
  replace (2 * k + 1) with (1 + k * 2) by lia. rewrite N.div_add by lia.
  replace (2 * k) with (k * 2) by lia. rewrite N.div_mul by lia. reflexivity. Qed.

(* once set, the flag stays set *)
Lemma micro_no_reader c me A S o :
  micro c me A S = Some o -> no_reader S = true -> no_reader (o_s o) = true.
Proof.
  intros H NR. destruct A as [role alive multi sid tok pc stack R notified parked].
  unfold no_reader in *.
  destruct pc; micro_cases H; cbn [o_s]; cbn;
    first [ exact NR
          | rewrite odd_half_pred by assumption; exact NR
          | rewrite even_half_succ by assumption; exact NR
          | congruence ].
Qed.

(* past the NO_READER test of try_send *)
Definition past_sig (pc : pcl) : bool :=
  match pc with
  | TSmode | TS1 | P1 | P2 | P3pre | P3 | P4pre | P4 | P5 | P6 | P7
  | M1 | M2 | M3pre | M3 | M3b | M3post | M4pre | M4 | M5 | G1 | G2 | G3 => true
  | _ => false
  end.

Definition d_ok (A : agent) : bool :=
  negb (past_sig (a_pc A)) || negb (N.odd (r_sig (a_r A) / 2)).

Lemma micro_dok c me A S o :
  micro c me A S = Some o -> ctl_ok A = true -> d_ok A = true ->
  d_ok (o_a o) = true /\ (forall a' A', o_new o = Some (a', A') -> d_ok A' = true).
Proof.
  intros H Q D. destruct A as [role alive multi sid tok pc stack R notified parked].
  unfold d_ok in *. cbn in D.
  destruct pc; micro_cases H; cbn [o_a o_new];
    (split; [|let an := fresh "an" in let An := fresh "An" in let X := fresh "X" in
              intros an An X; try discriminate X; injection X as <- <-; reflexivity]);
    unfold popret; cbn; eqb_hyps;
    first [ reflexivity | exact D
          | match goal with E : N.odd (_ / 2) = false |- _ => rewrite E; reflexivity end
          | match goal with E : signal S = 0 |- _ => rewrite E; reflexivity end
          | pre_case Q Q1 Q2 Q3; try split_frame Q1 Q2; cbn in D |- *; first [reflexivity | exact D] ].
Qed.

(* the step that performs the test *)
Lemma micro_ts0b c me A S o :
  micro c me A S = Some o -> a_pc A = TS0b -> N.odd (r_sig (a_r A) / 2) = true ->
  r_res (a_r (o_a o)) = RDisc (r_v (a_r A)) /\ g_log (o_s o) = g_log S /\ head (o_s o) = head S.
Proof.
  intros H E B. destruct A as [role alive multi sid tok pc stack R notified parked].
  cbn in E, B. subst pc. micro_cases H; cbn; unfold popret; cbn.
  - destruct stack; cbn; auto.
  - congruence.
Qed.

Lemma micro_ts0 c me A S o :
  micro c me A S = Some o -> a_pc A = TS0 -> r_sig (a_r (o_a o)) = signal S.
Proof.
  intros H E. destruct A as [role alive multi sid tok pc stack R notified parked].
  cbn in E. subst pc. micro_cases H; reflexivity.
Qed.

(* ---- unsubscribe: the answer is decided by the handle's own decrement ---- *)
Lemma micro_rd0 c me A S o :
  micro c me A S = Some o -> a_pc A = RD0 ->
  r_last (a_r (o_a o)) = (gcons S (a_sid A) =? 1) /\
  gcons (o_s o) (a_sid A) = wsub (gcons S (a_sid A)) 1.
Proof.
  intros H E. destruct A as [role alive multi sid tok pc stack R notified parked].
  cbn in E. subst pc. micro_cases H; cbn; unfold gcons; cbn;
    rewrite getd_put, N.eqb_refl; split; auto;
    match goal with E : (_ =? 1) = _ |- _ => unfold gcons in E; now rewrite E end.
Qed.

(* the unsubscribe / drop path of a receiver after its decrement *)
Definition rd_after (A : agent) : bool :=
  match last_pc (a_pc A) (a_stack A) with
  | D1 | D2pre | D2 | D3 | D4pre | D4b | D4c | D5 | D6 | RDtok | RDfin | RDfin2 => true
  | _ => false
  end.

Lemma micro_rlast c me A S o :
  micro c me A S = Some o -> ctl_ok A = true -> rd_after A = true ->
  r_last (a_r (o_a o)) = r_last (a_r A).
Proof.
  intros H Q D. destruct A as [role alive multi sid tok pc stack R notified parked].
  unfold rd_after in D. cbn in D.
  destruct pc; micro_cases H; cbn [o_a]; unfold popret; cbn;
    first [ reflexivity
          | pre_case Q Q1 Q2 Q3; try split_frame Q1 Q2; cbn in D |- *; first [reflexivity | discriminate D] ].
Qed.

(* what the last step of unsubscribe reports *)
Lemma micro_rdfin2 c me A S o :
  micro c me A S = Some o -> a_pc A = RDfin2 -> r_call (a_r A) = CUnsub ->
  exists r, In (ERet r) (o_ev o) /\
    r = match a_role A, c_fl c with RUni, BCast => RUnit | _, _ => RBool (r_last (a_r A)) end.
Proof.
  intros H E C. destruct A as [role alive multi sid tok pc stack R notified parked].
  cbn in E, C. subst pc. unfold micro, m_wait, m_fut in H. destruct (spins c). cbn in H. rewrite C in H.
  unfold ok in H. destruct (release_handle c S) as [S1 e1]. injection H as <-. cbn.
  eexists. split; [apply in_or_app; right; left; reflexivity|].
  destruct role, (c_fl c); reflexivity.
Qed.
