(* After the last sender handle is gone nothing is claimed any more, and a drained stream stays drained: the end
   of a stream, once reached, is reached for good (C07, C15: None is stable). *)
From Coq Require Import NArith List Bool Lia.
Require Import MQ.Arith64 MQ.Arith64Facts MQ.Types MQ.State MQ.Model MQ.Exec MQ.Reach MQ.Fields MQ.Ctl MQ.Count
  MQ.WritersStep MQ.InvWriters MQ.HeadStep MQ.InvHead MQ.InvMisc MQ.RecvDefs MQ.InvReg MQ.InvPos MQ.WinStep MQ.WinDefs MQ.InvWin MQ.EndStep.
Import ListNotations.
Open Scope N_scope.

Theorem no_claim_without_senders c fut s x X o :
  mreach c fut s -> lenN (ags s) < B62 -> get (ags s) x = Some X -> micro c x X (sh s) = Some o ->
  writers (sh s) = 0 ->
  writers (o_s o) = 0 /\ head (o_s o) = head (sh s) /\ g_log (o_s o) = g_log (sh s).
Proof.
  intros R SMa EX M W0. split; [apply (writers_zero_stable c fut s x X o R SMa EX M W0)|].
  destruct (micro_head _ _ _ _ _ M) as [[E1 E2] | [CL _]]; [auto|]. exfalso.
  assert (IB : in_send_body X = true) by (unfold in_send_body; destruct CL as [-> | [-> _]]; reflexivity).
  pose proof (send_body_cs x X (ctl_mreach c fut s R x X EX) IB) as CS.
  destruct (iw_mreach c fut s R) as (_ & WC). destruct (WC SMa) as (WE & _).
  pose proof (cnt_get_pos cs (ags s) x X EX CS) as CP. rewrite <- WE in CP. lia.
Qed.

Theorem end_state_stable c fut s x X o sg :
  0 < c_n c -> c_n c <= B61 -> mreachN c fut s ->
  lenN (ags (apply1 s x o)) < B62 -> lenN (g_log (sh s)) < B62 ->
  get (ags s) x = Some X -> (is_local (a_pc X) = true \/ enabled x X (sh s) = true) ->
  micro c x X (sh s) = Some o -> new_ok s x o = true -> ~ f11_bad (sh s) X ->
  writers (sh s) = 0 -> gpos (sh s) sg = head (sh s) -> In sg (streams (o_s o)) ->
  writers (o_s o) = 0 /\ head (o_s o) = head (sh s) /\ g_log (o_s o) = g_log (sh s) /\ gpos (o_s o) sg = head (o_s o).
Proof.
  intros Np Ns RN SM' SL EX EN M NO NF W0 DR IN'.
  assert (SMa : lenN (ags s) < B62) by (pose proof (apply1_len s x o); lia).
  pose proof (mreachN_mreach c fut s RN) as R.
  destruct (no_claim_without_senders c fut s x X o R SMa EX M W0) as (W1 & H1 & L1).
  repeat split; auto.
  assert (RN' : mreachN c fut (apply1 s x o)) by (eapply mrn_micro; eauto).
  assert (SL' : lenN (g_log (sh (apply1 s x o))) < B62) by (change (sh (apply1 s x o)) with (o_s o); rewrite L1; exact SL).
  destruct (win_mreachN c Np Ns fut _ RN' (conj SM' SL')) as (G' & _).
  destruct (win_mreachN c Np Ns fut s RN (conj SMa SL)) as (G & _).
  change (sh (apply1 s x o)) with (o_s o) in G'.
  pose proof (w_cursor_le_head c _ G' sg IN') as LE. pose proof (w_head_small c _ G) as HS.
  rewrite H1 in *.
  destruct (cursor_steps c fut s x X o sg R SMa EX M) as [E | [(_ & _ & E) | (_ & ESG & E)]].
  - rewrite E. exact DR.
  - exfalso. rewrite E, DR in LE. rewrite next_count_small in LE; unfold MASK_IND, B62 in *; lia.
  - pose proof (w_pos_fresh c _ G sg) as FR. rewrite ESG in FR. specialize (FR (N.le_refl _)).
    rewrite <- ESG in FR. rewrite FR in DR. rewrite <- DR in *. lia.
Qed.

(* the attempt of a receive on a drained stream with no sender left: every own step moves down the chain
   tag test -> writers test -> second tag test -> (position re-check) and the last one reports the end *)
Definition end_rank (pc : pcl) : N :=
  match pc with R4 | V1 => 4 | R5 | V5 => 3 | R6 | V6 => 2 | R6b => 1 | _ => 0 end.

Theorem end_attempt_reports_end c fut s x X o :
  0 < c_n c -> c_n c <= B61 -> mreachN c fut s -> lenN (ags s) < B62 -> lenN (g_log (sh s)) < B62 ->
  get (ags s) x = Some X -> micro c x X (sh s) = Some o ->
  writers (sh s) = 0 -> 0 < end_rank (a_pc X) ->
  r_p (a_r X) = head (sh s) -> gpos (sh s) (a_sid X) = head (sh s) ->
  r_res (a_r (o_a o)) = RDiscon \/
  (0 < end_rank (a_pc (o_a o)) /\ end_rank (a_pc (o_a o)) < end_rank (a_pc X) /\
   r_p (a_r (o_a o)) = r_p (a_r X) /\ a_sid (o_a o) = a_sid X /\ a_stack (o_a o) = a_stack X /\ o_s o = sh s).
Proof.
  intros Np Ns RN SMa SL EX M W0 RK EP EC.
  destruct (win_mreachN c Np Ns fut s RN (conj SMa SL)) as (G & _).
  pose proof (tag_not_head c (sh s) G) as TN. rewrite <- EP in TN.
  destruct (a_pc X) eqn:PC; try (cbn in RK; lia).
  - destruct (end_R4 _ _ _ _ _ M PC TN) as (E1 & E2 & E3 & E4 & E5). right. rewrite E1. cbn. repeat split; auto; lia.
  - destruct (end_R5 _ _ _ _ _ M (or_introl PC) W0) as ([E1 | E1] & E2 & E3 & E4 & E5); right; rewrite E1; cbn; repeat split; auto; lia.
  - destruct (end_R6 _ _ _ _ _ M PC TN) as [(E1 & _) | (E1 & E2 & E3 & E4 & E5)]; [left; exact E1|].
    right. rewrite E1. cbn. repeat split; auto; lia.
  - left. rewrite <- EP in EC. exact (proj1 (end_R6b _ _ _ _ _ M PC EC)).
  - destruct (end_V1 _ _ _ _ _ M PC TN) as (E1 & E2 & E3 & E4 & E5). right. rewrite E1. cbn. repeat split; auto; lia.
  - destruct (end_R5 _ _ _ _ _ M (or_intror PC) W0) as ([E1 | E1] & E2 & E3 & E4 & E5); right; rewrite E1; cbn; repeat split; auto; lia.
  - left. exact (proj1 (end_V6 _ _ _ _ _ M PC TN)).
Qed.
