(* The reference counts of the slots (C04): definitions.  A broadcast consumer that shares its stream holds a
   reference on the slot of its attempt position from the increment (R7) to the decrement (R9 or R11). *)
From Coq Require Import NArith List Bool Lia.
Require Import MQ.Arith64 MQ.Arith64Facts MQ.Types MQ.State MQ.Model MQ.Exec MQ.Reach MQ.Ctl MQ.RecvDefs.
Import ListNotations.
Open Scope N_scope.

Definition holds (A : agent) : bool :=
  match a_pc A with
  | R8 | R9 | R11 => true
  | KC => negb (r_single (a_r A))
  | _ => false
  end.

(* program counters that exist on the broadcast flavour only *)
Definition bphase_ok (c : cfg) (A : agent) : Prop :=
  ((a_pc A = R7 \/ a_pc A = R8 \/ a_pc A = R9 \/ a_pc A = R11) -> r_single (a_r A) = false) /\
  ((a_pc A = R7 \/ a_pc A = R9 \/ a_pc A = KC \/ a_pc A = R11) -> is_bcast c = true).

Definition hw (c : cfg) (i : N) (a : N) (A : agent) : N :=
  if is_bcast c && holds A && (sl c (r_p (a_r A)) =? i) then 1 else 0.

Lemma hw_notified c i a A : hw c i a (set_a_notified true A) = hw c i a A.
Proof. destruct A; reflexivity. Qed.

Lemma hw_le1 c i a A : hw c i a A <= 1.
Proof. unfold hw. destruct (is_bcast c && holds A && (sl c (r_p (a_r A)) =? i)); lia. Qed.
