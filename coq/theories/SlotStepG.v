(* Small step facts for the delivery theorems: what the two committing steps do. *)
From Coq Require Import NArith List Bool Lia.
Require Import MQ.Arith64 MQ.Arith64Facts MQ.Types MQ.State MQ.Model MQ.Exec MQ.Reach MQ.Ctl MQ.Count MQ.WritersStep
  MQ.RecvDefs MQ.RecvStep.
Import ListNotations.
Open Scope N_scope.

Definition dentry (A : agent) (me : N) : list (N * N * N * N) :=
  match r_val (a_r A) with Some ser => [(a_sid A, r_p (a_r A), ser, me)] | None => [] end.

Lemma t_R12c c me A S o : micro c me A S = Some o -> a_pc A = R12 ->
  (gpos (o_s o) (a_sid A) = gpos S (a_sid A) /\ g_deliv (o_s o) = g_deliv S) \/
  (gpos (o_s o) (a_sid A) = next_count (r_p (a_r A)) /\ g_deliv (o_s o) = g_deliv S ++ dentry A me /\
   (r_am (a_r A) = true \/ gpos S (a_sid A) = r_p (a_r A))).
Proof.
  intros H E. destruct A as [role alive multi sid tok pc stack R notified parked]. cbn in E. subst pc.
  unfold dentry, gpos. micro_cases H; cbn; unfold deliver; cbn; rewrite ?getd_put, ?N.eqb_refl; eqb_hyps;
    repeat match goal with H0 : r_val _ = _ |- _ => rewrite H0; clear H0 end; cbn; rewrite ?getd_put, ?N.eqb_refl, ?app_nil_r;
    first [ solve [left; split; reflexivity] | solve [right; split; [reflexivity|split; [reflexivity|auto]]] ].
Qed.

Lemma t_V4c c me A S o : micro c me A S = Some o -> a_pc A = V4 ->
  gpos (o_s o) (a_sid A) = next_count (r_p (a_r A)) /\ g_deliv (o_s o) = g_deliv S ++ dentry A me.
Proof.
  intros H E. destruct A as [role alive multi sid tok pc stack R notified parked]. cbn in E. subst pc.
  unfold dentry, gpos. micro_cases H; cbn; unfold deliver; cbn; rewrite ?getd_put, ?N.eqb_refl;
    repeat match goal with H0 : r_val _ = _ |- _ => rewrite H0; clear H0 end; cbn; rewrite ?getd_put, ?N.eqb_refl, ?app_nil_r;
    solve [split; reflexivity].
Qed.
