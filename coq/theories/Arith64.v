(* 64-bit index arithmetic exactly as src/countedindex.rs computes it (64-bit target).
   Words are N below 2^64; the wrap is explicit. No proofs here. *)
From Coq Require Import NArith List Bool.
Import ListNotations.
Open Scope N_scope.

Definition W : N := 18446744073709551616.          (* 2^64 *)
Definition MASK_IND : N := 9223372036854775808.     (* 1 << 63 *)
Definition MASK_TAG : N := 9223372036854775807.     (* MASK_IND - 1 *)
Definition MAX_WRAP : N := 4611686018427387903.     (* (1 << 62) - 1 *)
Definition INITIAL_QUEUE_FLAG : N := 18446744073709551615. (* usize::MAX *)

Definition wsub (a b : N) : N := (a + W - b mod W) mod W.   (* a.wrapping_sub(b) *)
Definition wadd (a b : N) : N := (a + b) mod W.             (* a.wrapping_add(b) *)

Definition is_tagged (v : N) : bool := MASK_IND <=? v mod W.       (* (v & MASK_IND) != 0 *)
Definition rm_tag (v : N) : N := v mod MASK_IND.                   (* v & MASK_TAG *)

(* past(check, seq) = (diff, diff > MAX_WRAP) *)
Definition past (check seq : N) : N * bool :=
  let d := wsub check seq in (d, MAX_WRAP <? d).

(* Transaction::matches_previous with mask+1 = n *)
Definition matches_previous (loaded n val : N) : bool :=
  rm_tag (wsub loaded n) =? val.

Definition get_previous (start by_ : N) : N := wsub start by_.

(* Transaction::get().0 with mask = n-1, n a power of two *)
Definition slot_of (loaded n : N) : N := loaded mod n.

(* the value stored by commit / commit_direct *)
Definition next_count (loaded : N) : N := rm_tag (wadd loaded 1).

Definition next_power_of_two (v : N) : N := 2 ^ N.log2_up v.

Definition get_valid_wrap (v : N) : N :=
  if MAX_WRAP <=? v then MAX_WRAP
  else if v =? 0 then 1
  else next_power_of_two v.

(* wait::check after the fix: (slot flag, writers) already loaded *)
Definition wait_check (seq flag wc : N) : bool :=
  (wc =? 0) || (seq =? rm_tag flag) || (negb (is_tagged flag) && snd (past seq (rm_tag flag))).
