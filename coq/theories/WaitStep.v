(* Step facts of the wake-up protocol (C08, C14): what the steps that put a consumer to sleep, park a task and notify do.
   These are the local obligations of the protocol; their composition into "no wake-up is lost" is not proved. *)
From Coq Require Import NArith List Bool Lia.
Require Import MQ.Arith64 MQ.Arith64Facts MQ.Types MQ.State MQ.Model MQ.Exec MQ.Reach MQ.Ctl MQ.Count MQ.WritersStep
  MQ.RecvDefs MQ.RecvStep.
Import ListNotations.
Open Scope N_scope.

Ltac one_pc H E :=
  match type of H with micro _ _ ?A _ = _ =>
    destruct A as [role alive multi sid tok pc stack R notified parked]; cbn in E; subst pc; micro_cases H end.

(* the blocking wait: take the mutex, check, sleep only after a negative check, release the mutex by sleeping *)
Lemma w_B1 c me A S o : micro c me A S = Some o -> a_pc A = B1 ->
  bw_lock (o_s o) = Some me /\ a_pc (o_a o) = C1 /\ a_stack (o_a o) = B1c :: a_stack A /\ sleepers (o_s o) = sleepers S.
Proof. intros H E. one_pc H E; cbn; repeat split; reflexivity. Qed.

Lemma w_B1c c me A S o : micro c me A S = Some o -> a_pc A = B1c ->
  (r_last (a_r A) = false /\ a_pc (o_a o) = B2 /\ bw_lock (o_s o) = bw_lock S /\ sleepers (o_s o) = sleepers S) \/
  (r_last (a_r A) = true /\ a_pc (o_a o) = RVloop /\ bw_lock (o_s o) = None /\ sleepers (o_s o) = sleepers S).
Proof. intros H E. one_pc H E; cbn; first [solve [left; repeat split; auto] | solve [right; repeat split; auto]]. Qed.

Lemma w_B2 c me A S o : micro c me A S = Some o -> a_pc A = B2 ->
  sleepers (o_s o) = sleepers S ++ [me] /\ bw_lock (o_s o) = None /\ a_pc (o_a o) = B2w /\ woken (o_s o) = woken S.
Proof. intros H E. one_pc H E; cbn; repeat split; reflexivity. Qed.

(* the check that precedes the sleep evaluates the wait condition on the tag and the writers count it loads *)
Lemma w_C2 c me A S o : micro c me A S = Some o -> a_pc A = C2 ->
  r_last (a_r (o_a o)) = wait_check (r_cnt (a_r A)) (r_tag (a_r A)) (writers S).
Proof.
  intros H E. one_pc H E; unfold popret; cbn; try reflexivity; destruct stack; reflexivity.
Qed.

Lemma w_C1 c me A S o : micro c me A S = Some o -> a_pc A = C1 ->
  r_tag (a_r (o_a o)) = gtag S (r_slot (a_r A)) /\ a_pc (o_a o) = C2 /\ a_stack (o_a o) = a_stack A.
Proof. intros H E. one_pc H E; cbn; repeat split; reflexivity. Qed.

(* a sleeper runs again only after it was woken and the mutex is free *)
Lemma w_B2w_enabled me A S : a_pc A = B2w -> enabled me A S = true ->
  memN me (woken S) = true /\ bw_lock S = None.
Proof.
  intros E H. unfold enabled in H. rewrite E in H. apply andb_prop in H as [H1 H2]. split; [exact H1|].
  destruct (bw_lock S); [discriminate H2|reflexivity].
Qed.

(* the notification: take the mutex (only when it is free), wake every sleeper, release *)
Lemma w_N1_enabled me A S : a_pc A = N1 -> enabled me A S = true -> bw_lock S = None.
Proof. intros E H. unfold enabled in H. rewrite E in H. destruct (bw_lock S); [discriminate H|reflexivity]. Qed.

Lemma w_B1_enabled me A S : a_pc A = B1 -> enabled me A S = true -> bw_lock S = None.
Proof. intros E H. unfold enabled in H. rewrite E in H. destruct (bw_lock S); [discriminate H|reflexivity]. Qed.

Lemma w_N1 c me A S o : micro c me A S = Some o -> a_pc A = N1 ->
  bw_lock (o_s o) = Some me /\ a_pc (o_a o) = N2 /\ sleepers (o_s o) = sleepers S.
Proof. intros H E. one_pc H E; cbn; repeat split; reflexivity. Qed.

Lemma w_N2 c me A S o : micro c me A S = Some o -> a_pc A = N2 ->
  sleepers (o_s o) = [] /\ woken (o_s o) = woken S ++ sleepers S /\ bw_lock (o_s o) = None.
Proof. intros H E. one_pc H E; cbn; repeat split; reflexivity. Qed.

(* every successful send and every sender drop goes through the notification before it returns *)
Lemma w_TSdone c me A S o : micro c me A S = Some o -> a_pc A = TSdone -> r_res (a_r A) = ROk -> needs_notify c = true ->
  a_pc (o_a o) = NTF /\ a_stack (o_a o) = TSret :: a_stack A.
Proof.
  intros H E RO NN. destruct A as [role alive multi sid tok pc stack R notified parked]. cbn in E, RO. subst pc.
  micro_cases H; cbn; try (split; reflexivity); congruence.
Qed.

Lemma w_SSdone c me A S o : micro c me A S = Some o -> a_pc A = SSdone -> r_res (a_r A) = ROk -> needs_notify c = true ->
  a_pc (o_a o) = NTF /\ a_stack (o_a o) = SSret :: a_stack A.
Proof.
  intros H E RO NN. destruct A as [role alive multi sid tok pc stack R notified parked]. cbn in E, RO. subst pc.
  micro_cases H; cbn; try (split; reflexivity); congruence.
Qed.

Lemma w_SD1 c me A S o : micro c me A S = Some o -> a_pc A = SD1 ->
  a_pc (o_a o) = NTF /\ a_stack (o_a o) = SD2 :: a_stack A.
Proof. intros H E. one_pc H E; cbn; split; reflexivity. Qed.

Lemma w_SD0 c me A S o : micro c me A S = Some o -> a_pc A = SD0 ->
  writers (o_s o) = wsub (writers S) 1 /\ a_stack (o_a o) = SD1 :: a_stack A.
Proof. intros H E. one_pc H E; cbn; split; reflexivity. Qed.

Lemma w_NTF c me A S o : micro c me A S = Some o -> a_pc A = NTF ->
  match c_wk c with
  | WBlock _ _ => a_pc (o_a o) = N1 /\ a_stack (o_a o) = a_stack A
  | WFut _ _ => a_pc (o_a o) = FN1 /\ a_stack (o_a o) = a_stack A
  | _ => True
  end.
Proof. intros H E. one_pc H E; cbn; try exact I; split; reflexivity. Qed.

(* the futures park lists: a task parks itself only after a negative check made while it holds the list's lock; a
   notification empties the list and notifies every task that was on it *)
Lemma w_FP2 c me A S o : micro c me A S = Some o -> a_pc A = FP2 ->
  (r_last (a_r A) = false /\ cparked (o_s o) = cparked S ++ [me] /\ cp_lock (o_s o) = None /\ a_pc (o_a o) = FP3) \/
  (r_last (a_r A) = true /\ cparked (o_s o) = cparked S /\ cp_lock (o_s o) = None /\ a_pc (o_a o) = RVloop).
Proof. intros H E. one_pc H E; cbn; first [solve [left; repeat split; auto] | solve [right; repeat split; auto]]. Qed.

Lemma w_FN1 c me A S o : micro c me A S = Some o -> a_pc A = FN1 ->
  cparked (o_s o) = [] /\ o_ntf o = cparked S.
Proof. intros H E. one_pc H E; cbn; split; try reflexivity; congruence. Qed.

Lemma w_PN1 c me A S o : micro c me A S = Some o -> a_pc A = PN1 ->
  pparked (o_s o) = [] /\ o_ntf o = pparked S.
Proof. intros H E. one_pc H E; cbn; split; reflexivity. Qed.

Lemma w_SP2 c me A S o : micro c me A S = Some o -> a_pc A = SP2 ->
  (exists v, r_res (a_r A) = RFull v /\ pparked (o_s o) = pparked S ++ [me] /\ pp_lock (o_s o) = None) \/
  (pparked (o_s o) = pparked S /\ pp_lock (o_s o) = None).
Proof.
  intros H E. one_pc H E; cbn; first [solve [left; eexists; repeat split; eauto] | solve [right; split; reflexivity]].
Qed.

(* a parked task runs again only after it was notified *)
Lemma w_AW_enabled me A S : a_pc A = AW -> enabled me A S = true -> a_notified A = true.
Proof. intros E H. unfold enabled in H. rewrite E in H. exact H. Qed.
