(* Case analysis for the delivery theorems: where the start position of a stream is recorded. *)
From Coq Require Import NArith List Bool Lia.
Require Import MQ.Arith64 MQ.Arith64Facts MQ.Types MQ.State MQ.Model MQ.Exec MQ.Reach MQ.Ctl MQ.Count MQ.WritersStep
  MQ.RecvDefs MQ.RecvStep.
Import ListNotations.
Open Scope N_scope.

Lemma micro_gstart c me A S o :
  micro c me A S = Some o ->
  g_start (o_s o) = g_start S \/
  (a_pc A = A3 /\ cur S = r_g (a_r A) /\
   g_start (o_s o) = put (g_start S) (r_ns (a_r A)) (gpos S (r_ns (a_r A)))).
Proof.
  intros H. destruct A as [role alive multi sid tok pc stack R notified parked].
  destruct pc; micro_cases H; cbn [o_s]; unfold deliver; cbn; eqb_hyps;
    first [ solve [left; reflexivity]
          | solve [right; repeat split; auto]
          | destruct (r_val R); cbn; solve [left; reflexivity] ].
Qed.
