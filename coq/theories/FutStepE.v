(* Small step facts for C14. *)
From Coq Require Import NArith List Bool Lia.
Require Import MQ.Arith64 MQ.Arith64Facts MQ.Types MQ.State MQ.Model MQ.Exec MQ.Reach MQ.Ctl MQ.Count MQ.WritersStep
  MQ.RecvDefs MQ.RecvStep MQ.NpDefs MQ.FutDefs.
Import ListNotations.
Open Scope N_scope.

Ltac one_pc H E :=
  match type of H with micro _ _ ?A _ = _ =>
    destruct A as [role alive multi sid tok pc stack R notified parked]; cbn in E; subst pc; micro_cases H end.

Lemma f_P7 c me A S o : micro c me A S = Some o -> a_pc A = P7 -> npf (o_a o) = true.
Proof. intros H E. one_pc H E; reflexivity. Qed.

Lemma f_SD0 c me A S o : micro c me A S = Some o -> ctl_ok A = true -> a_pc A = SD0 -> npf (o_a o) = true.
Proof.
  intros H Q E. destruct A as [role alive multi sid tok pc stack R notified parked]. cbn in E. subst pc.
  unfold ctl_ok in Q. cbn in Q. apply andb_prop in Q as [Q Q3]. apply andb_prop in Q as [Q1 Q2].
  destruct stack as [|k st]; [|cbn in Q1; discriminate Q1]. cbn in Q2.
  unfold npf, sender_drop. micro_cases H; cbn.
  destruct (r_call R); cbn in Q2; try discriminate Q2; destruct role; cbn in Q2 |- *; try discriminate Q2; reflexivity.
Qed.

Lemma f_FP1 c me A S o : micro c me A S = Some o -> a_pc A = FP1 ->
  cp_lock (o_s o) = Some me /\ a_pc (o_a o) = C1 /\ a_stack (o_a o) = FP2 :: a_stack A.
Proof. intros H E. one_pc H E; cbn; repeat split; reflexivity. Qed.

Lemma f_FP2 c me A S o : micro c me A S = Some o -> a_pc A = FP2 -> r_last (a_r A) = false ->
  a_pc (o_a o) = FP3 /\ a_r (o_a o) = a_r A /\ a_notified (o_a o) = a_notified A /\
  tags (o_s o) = tags S /\ writers (o_s o) = writers S /\ cparked (o_s o) = cparked S ++ [me] /\ o_ntf o = [].
Proof.
  intros H E RL. destruct A as [role alive multi sid tok pc stack R notified parked]. cbn in E, RL. subst pc.
  micro_cases H; cbn; try congruence; repeat split; reflexivity.
Qed.

Lemma f_FN1 c me A S o : micro c me A S = Some o -> a_pc A = FN1 -> o_ntf o = cparked S.
Proof.
  intros H E. destruct A as [role alive multi sid tok pc stack R notified parked]. cbn in E. subst pc.
  micro_cases H; cbn; try congruence; reflexivity.
Qed.

Lemma f_C2 c me A S o st : micro c me A S = Some o -> a_pc A = C2 -> a_stack A = FP2 :: st ->
  a_pc (o_a o) = FP2 /\ r_last (a_r (o_a o)) = wait_check (r_cnt (a_r A)) (r_tag (a_r A)) (writers S) /\
  r_cnt (a_r (o_a o)) = r_cnt (a_r A) /\ r_slot (a_r (o_a o)) = r_slot (a_r A) /\
  tags (o_s o) = tags S /\ writers (o_s o) = writers S.
Proof.
  intros H E ES. destruct A as [role alive multi sid tok pc stack R notified parked]. cbn in E, ES. subst pc stack.
  micro_cases H; cbn; repeat split; reflexivity.
Qed.

Lemma f_FP1_enabled me A S : a_pc A = FP1 -> enabled me A S = true -> cp_lock S = None.
Proof. intros E H. unfold enabled in H. rewrite E in H. destruct (cp_lock S); [discriminate H|reflexivity]. Qed.

Lemma f_FN1_enabled me A S : a_pc A = FN1 -> enabled me A S = true -> cp_lock S = None.
Proof. intros E H. unfold enabled in H. rewrite E in H. destruct (cp_lock S); [discriminate H|reflexivity]. Qed.

Lemma memN_of_in b l : In b l -> memN b l = true.
Proof.
  induction l as [|y l IH]; [intros []|]. change (memN b (y :: l)) with (N.eqb b y || memN b l).
  intros [E0 | IN]; [subst y; rewrite N.eqb_refl; reflexivity|]. rewrite (IH IN). apply orb_true_r.
Qed.

(* who is notified by a step *)
Lemma apply1_notified s x o b B :
  get (ags (apply1 s x o)) b = Some B -> In b (o_ntf o) -> a_notified B = true.
Proof.
  intros EB IN. unfold apply1 in EB. cbn [ags] in EB. rewrite get_notify_all in EB.
  rewrite (memN_of_in _ _ IN) in EB.
  destruct (o_new o) as [[a' A']|];
    match type of EB with match ?g with _ => _ end = _ => destruct g as [B0|]; [injection EB as <-; destruct B0; reflexivity|discriminate EB] end.
Qed.

Lemma f_AW c me A S o : micro c me A S = Some o -> a_pc A = AW ->
  a_pc (o_a o) = E0 \/ a_pc (o_a o) = SS0.
Proof. intros H E. one_pc H E; cbn; auto. Qed.
