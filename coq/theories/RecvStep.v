(* Case analysis for the receiver-side population bookkeeping (InvRecv.v): how one micro-step
   changes the consumer count of a stream and the weight of the stepping agent. *)
From Coq Require Import NArith List Bool Lia.
Require Import MQ.Arith64 MQ.Arith64Facts MQ.Types MQ.State MQ.Model MQ.Exec MQ.Reach MQ.Ctl MQ.Count MQ.WritersStep MQ.RecvDefs.
Import ListNotations.
Open Scope N_scope.

Definition new_wt (sg : N) (o : out) : N :=
  match o_new o with Some (a', A') => wt sg a' A' | None => 0 end.

Definition L_same sg me A S o := gcons (o_s o) sg = gcons S sg /\ wt sg me (o_a o) + new_wt sg o = wt sg me A.
Definition L_inc sg me A S o :=
  gcons (o_s o) sg = wadd (gcons S sg) 1 /\ wt sg me (o_a o) = wt sg me A + 1 /\ new_wt sg o = 0 /\ 1 <= wt sg me A.
Definition L_dec sg me A S o :=
  gcons (o_s o) sg = wsub (gcons S sg) 1 /\ wt sg me (o_a o) + 1 = wt sg me A /\ new_wt sg o = 0.
Definition L_new sg me A S o :=
  sg = nsid S /\ gcons (o_s o) sg = 1 /\ wt sg me (o_a o) = 1 /\ wt sg me A = 0 /\ new_wt sg o = 0.
Definition L_abandon sg me A S o :=
  gcons (o_s o) sg = gcons S sg /\ wt sg me (o_a o) = 0 /\ wt sg me A = 1 /\ new_wt sg o = 0 /\
  w_n sg A = true /\ a_pc A = A3.

Ltac eqb_split :=
  repeat match goal with
  | |- context [N.eqb ?x ?y] => let E := fresh "E" in destruct (N.eqb x y) eqn:E
  end.

Ltac l_unfold :=
  unfold L_same, L_inc, L_dec, L_new, L_abandon, new_wt, wt, w_h, w_c, w_n, topc, recv_role.

Ltac l_finish :=
  unfold gcons; cbn; rewrite ?getd_put; cbn;
  eqb_split; cbn in *; eqb_hyps; subst;
  first [ solve [left; split; [reflexivity | cbn; lia]]
        | solve [right; left; repeat split; try reflexivity; cbn; lia]
        | solve [right; right; left; repeat split; try reflexivity; cbn; lia]
        | solve [right; right; right; left; repeat split; try reflexivity; cbn; lia]
        | solve [right; right; right; right; repeat split; try reflexivity; cbn; lia]
        | solve [exfalso; lia] ].

Lemma micro_cons sg c me A S o :
  micro c me A S = Some o -> ctl_ok A = true -> fresh_ok A S ->
  L_same sg me A S o \/ L_inc sg me A S o \/ L_dec sg me A S o \/ L_new sg me A S o \/ L_abandon sg me A S o.
Proof.
  intros H Q [F1 [F2 F3]]. destruct A as [role alive multi sid tok pc stack R notified parked].
  unfold nphase, topc in F3. cbn in F1, F2, F3.
  destruct pc; micro_cases H; l_unfold; cbn [o_a o_new o_s];
    pre_case Q Q1 Q2 Q3; cbn in F3; try specialize (F3 eq_refl);
    first [ l_finish
          | try split_frame Q1 Q2; first [ l_finish | split_call Q2; try (apply eqb_prop in Q3; subst; cbn); l_finish ] ].
Qed.
