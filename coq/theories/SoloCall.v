(* Solo termination of whole try calls (C18): try_send, try_recv and try_recv_view from the first step of the call
   to its return, by a ranking function over the program counter and the frames of the call stack.  The bodies
   (send body, receive attempt) are ranked as in SoloSendStep.v / SoloRecvStep.v. *)
From Coq Require Import NArith List Bool Lia.
Require Import MQ.Arith64 MQ.Arith64Facts MQ.Types MQ.State MQ.Model MQ.Exec MQ.Reach MQ.Ctl MQ.Count MQ.WritersStep MQ.SoloRecvStep MQ.SoloSendStep.
Import ListNotations.
Open Scope N_scope.

Definition in_call (pc : pcl) : bool :=
  match pc with
  | TSbegin | TS0 | TS0b | TSmode | TS1 | P1 | P2 | P3pre | P3 | P4pre | P4 | P5 | P6 | P7
  | M1 | M2 | M3pre | M3 | M3b | M3post | M4pre | M4 | M5 | G1 | G2 | G3 | U1 | U2 | U3
  | TSdone | NTF | TSret | TSfin | FIN
  | E0 | E0ret | R1pre | R1 | R2 | R3 | R1n | R2n | R4 | R5 | R6 | R6b | R7 | R8 | R9 | R10 | KC | R11 | R12
  | V1 | V5 | V6 | VK | V4 | TRfin | PN1 | TRfin2 => true
  | _ => false
  end.

(* weight of a return address on the stack: what remains to be done after the return, plus one *)
Definition wret (k : pcl) (S : shared) : N :=
  match k with
  | TSfin => 3 | TSret => 4 | TS0b => g1 S + 24 | M3pre => 17 | P3pre => 17
  | E0ret => 48 | TRfin => 6 | TRfin2 => 3
  | _ => 0
  end.

Fixpoint fsum (st : list pcl) (S : shared) : N :=
  match st with [] => 0 | k :: st' => wret k S + fsum st' S end.

Definition wpc (A : agent) (S : shared) : N :=
  match a_pc A with
  | FIN => 1 | TSfin => 2 | TSret => 3 | NTF => 1 | TSdone => 7
  | P7 => 9 | P6 => 10 | P5 => 11 | P4 => 12 | P4pre => 13 | P3 => 15 | P3pre => 16
  | P2 => g1 S + 18 | P1 => g1 S + 19 | M1 => g1 S + 19
  | M2 => g1 S + 18 + hpen A S | M3pre => 16 + hpen A S | M3 => 15 + hpen A S | M3b => 15 + hpen A S
  | M3post => 14 + hpen A S | M4pre => 13 + hpen A S | M4 => 12 + hpen A S | M5 => 11 + hpen A S
  | G1 | G2 | G3 => scan_rank A S + match a_stack A with M3pre :: _ => hpen A S | _ => 0 end
  | TS1 => g1 S + 20 | TSmode => g1 S + 21 | TS0b => g1 S + 23 | TS0 => g1 S + 28 | TSbegin => g1 S + 32
  | U1 => 3 | U2 => 2 | U3 => 1
  | TRfin2 => 2 | PN1 => 1 | TRfin => 5 | E0ret => 47 | E0 => 52
  | _ => att_rank A S
  end.

Definition call_rank (A : agent) (S : shared) : N := wpc A S + fsum (a_stack A) S.

Lemma fsum_ext st S S' : cur S' = cur S -> groups S' = groups S -> fsum st S' = fsum st S.
Proof.
  intros E1 E2. induction st as [|k st IH]; [reflexivity|]. cbn [fsum]. rewrite IH.
  unfold wret, g1, ggroup. rewrite E1, E2. reflexivity.
Qed.

Lemma wret_ext k S S' : cur S' = cur S -> groups S' = groups S -> wret k S' = wret k S.
Proof. intros E1 E2. unfold wret, g1, ggroup. rewrite E1, E2. reflexivity. Qed.

Ltac ext_back S0 :=
  repeat match goal with
  | |- context [fsum ?st ?S'] =>
      lazymatch S' with S0 => fail | _ => rewrite (fsum_ext st S0 S') by reflexivity end
  | |- context [wret ?k ?S'] =>
      is_var k; lazymatch S' with S0 => fail | _ => rewrite (wret_ext k S0 S') by reflexivity end
  end.

Ltac crank_fin S0 :=
  unfold call_rank; cbn; ext_back S0;
  unfold wpc, att_rank, pen, fresh, scan_rank, hpen, hfresh, gfresh, g1, gmd_next, ggroup, gpos in *; cbn;
  repeat match goal with
  | |- context [if is_bcast ?c then _ else _] => destruct (is_bcast c)
  | |- context [if ?a =? ?b then _ else _] => destruct (N.eqb_spec a b)
  | |- context [match getd [] ?m ?k with _ => _ end] => destruct (getd [] m k) eqn:?
  end; cbn;
  repeat match goal with E : getd [] _ _ = _ |- _ => rewrite ?E; clear E | E : r_gl _ = _ |- _ => rewrite ?E; clear E end;
  rewrite ?lenN_cons; change (lenN (@nil N)) with 0;
  unfold g1, ggroup; cbn;
  repeat match goal with |- context [wret ?k ?S] => is_var k; generalize (wret k S); intro end;
  repeat match goal with |- context [fsum ?st ?S] => generalize (fsum st S); intro end;
  first [ solve [right; lia]
        | solve [left; reflexivity]
        | solve [exfalso; congruence]
        | idtac ].

Lemma micro_call_rank c me A S o :
  micro c me A S = Some o -> ctl_ok A = true -> in_call (a_pc A) = true ->
  in_call (a_pc (o_a o)) = false \/ call_rank (o_a o) (o_s o) < call_rank A S.
Proof.
  intros H Q IA. destruct A as [role alive multi sid tok pc stack R notified parked]. cbn in IA.
  destruct pc; try discriminate IA; micro_cases H; cbn [o_a o_s]; eqb_hyps;
    pre_case Q Q1 Q2 Q3; try split_frame Q1 Q2; crank_fin S.
Qed.

(* k consecutive own steps of an agent that stay inside the call (nobody else runs in between) *)
Inductive solo_call (c : cfg) (me : N) : nat -> agent -> shared -> Prop :=
| csolo_0 A Sh : solo_call c me 0 A Sh
| csolo_S k A Sh o :
    micro c me A Sh = Some o -> in_call (a_pc (o_a o)) = true ->
    solo_call c me k (o_a o) (o_s o) -> solo_call c me (Datatypes.S k) A Sh.

Theorem solo_call_bound c me k A S :
  solo_call c me k A S -> ctl_ok A = true -> in_call (a_pc A) = true -> N.of_nat k <= call_rank A S.
Proof.
  intros H. induction H as [A S|k A S o M IA' H IH]; intros Q IA; [cbn; lia|].
  destruct (micro_ctl c me A S o M Q) as (Q' & _).
  destruct (micro_call_rank c me A S o M Q IA) as [OUT | LT].
  - rewrite OUT in IA'. discriminate IA'.
  - specialize (IH Q' IA'). rewrite Nat2N.inj_succ. lia.
Qed.

(* whole calls, from their first step with an empty stack *)
Theorem solo_try_send_bound c me k A S :
  solo_call c me k A S -> ctl_ok A = true -> a_pc A = TSbegin -> a_stack A = [] ->
  N.of_nat k <= 2 * lenN (ggroup S (cur S)) + 35.
Proof.
  intros H Q PC ST. assert (IA : in_call (a_pc A) = true) by (rewrite PC; reflexivity).
  pose proof (solo_call_bound c me k A S H Q IA) as B. unfold call_rank, wpc, g1 in B. rewrite PC, ST in B. cbn in B. lia.
Qed.

Theorem solo_try_recv_bound c me k A S :
  solo_call c me k A S -> ctl_ok A = true -> a_pc A = E0 -> a_stack A = [] -> (k <= 52)%nat.
Proof.
  intros H Q PC ST. assert (IA : in_call (a_pc A) = true) by (rewrite PC; reflexivity).
  pose proof (solo_call_bound c me k A S H Q IA) as B. unfold call_rank, wpc in B. rewrite PC, ST in B. cbn in B. lia.
Qed.
