(* Every claimed position is in progress or published (C07: nothing is left undelivered when the end is reported). *)
From Coq Require Import NArith List Bool Lia.
Require Import MQ.Arith64 MQ.Arith64Facts MQ.Types MQ.State MQ.Model MQ.Exec MQ.Reach MQ.Fields MQ.Ctl MQ.Count MQ.SumCount MQ.FreshStep
  MQ.WritersStep MQ.InvWriters MQ.HeadStep MQ.InvHead MQ.RecvDefs MQ.RecvStep MQ.KnownStep MQ.InvRecv MQ.SoleDefs MQ.InvSole
  MQ.PosStep MQ.AttStep MQ.InvPos MQ.GroupStep MQ.GroupStep2 MQ.GroupStep3 MQ.NewAgentStep MQ.InvGroups MQ.RegStep MQ.InvReg
  MQ.WinStep MQ.WinDefs MQ.WinStep2 MQ.WinTrans MQ.InvWin MQ.SlotDefs MQ.SlotStepA MQ.SlotStepB MQ.SlotStepC MQ.SlotStepD MQ.InvSlot.
Import ListNotations.
Open Scope N_scope.

Section PB.
Variable c : cfg.
Notation N := (c_n c).
Hypothesis Npos : 0 < N.
Hypothesis Nsmall : N <= B61.

Definition in_progress (s : state) (q : BinNums.N) : Prop :=
  exists a A, get (ags s) a = Some A /\ wip (a_pc A) = true /\ r_h (a_r A) = q.

Definition published (S : shared) (q : BinNums.N) : Prop :=
  gtag S (sl c q) <> INITIAL_QUEUE_FLAG /\ q <= gtag S (sl c q).

Definition PubInv (s : state) : Prop :=
  SmallW s -> forall q, q < head (sh s) -> in_progress s q \/ published (sh s) q.

Lemma wip_notified B b : wip (a_pc (set_a_notified b B)) = wip (a_pc B) /\ r_h (a_r (set_a_notified b B)) = r_h (a_r B).
Proof. destruct B; split; reflexivity. Qed.

Theorem pub_mreachN fut s : mreachN c fut s -> PubInv s.
Proof.
  intros RN. induction RN as [|s0 a A cl pc RN IH EA Hpc Hal He FT0|s0 x X o RN IH EX EN M NO NF|s0 a A o RN IH EA M|s0 RN IH].
  - intros _ q L. cbn in L. lia.
  - (* begin_call *)
    intros SM q L. unfold begin_call in *. destruct SM as [S1 S2]. cbn [ags sh] in *.
    rewrite (len_put_same _ _ _ _ EA) in S1.
    change (g_log (hist (HCall a cl (g_clock (sh s0))) (sh s0))) with (g_log (sh s0)) in S2.
    change (head (hist (HCall a cl (g_clock (sh s0))) (sh s0))) with (head (sh s0)) in L.
    destruct (IH (conj S1 S2) q L) as [(b & B & EB & PW & ER) | PB]; [left|right; exact PB].
    exists b, B. split; [|split; assumption]. cbn [ags]. rewrite get_put.
    destruct (N.eqb b a) eqn:E; [|exact EB]. apply N.eqb_eq in E. subst b. rewrite EA in EB. injection EB as <-.
    rewrite Hpc in PW. discriminate PW.
  - (* micro-step *)
    intros SM' q L. change (sh (apply1 s0 x o)) with (o_s o) in *.
    pose proof (small_back c Npos Nsmall s0 x X o EX M SM') as SM.
    destruct (slot_mreachN c Npos Nsmall fut s0 RN SM) as (SG & SA & _ & _).
    destruct (win_mreachN c Npos Nsmall fut s0 RN SM) as (G & IA).
    destruct (head_small c Npos Nsmall fut s0 (mreachN_mreach c fut s0 RN) SM) as [HL HB].
    destruct (SA x X EX) as (WX & _). destruct (IA x X EX) as (SAX & _).
    pose proof (ctl_mreach c fut s0 (mreachN_mreach c fut s0 RN) x X EX) as QX.
    assert (SELF : forall B, B = o_a o -> wip (a_pc B) = true ->
              exists b B', get (ags (apply1 s0 x o)) b = Some B' /\ wip (a_pc B') = true /\ r_h (a_r B') = r_h (a_r B)).
    { intros B -> PW. destruct (apply1_get_self s0 x o NO) as (B' & EB' & [-> | ->]).
      - exists x, (o_a o). auto.
      - exists x, (set_a_notified true (o_a o)). destruct (wip_notified (o_a o) true) as (E1 & E2).
        split; [exact EB'|]. split; [rewrite E1; exact PW|exact E2]. }
    destruct (N.lt_ge_cases q (head (sh s0))) as [LO | GE].
    + destruct (IH SM q LO) as [(b & B & EB & PW & ER) | (T1 & T2)].
      * destruct (N.eq_dec b x) as [-> | NE].
        -- rewrite EX in EB. injection EB as <-.
           (* the stepping agent was in progress on q: it writes the cell or publishes *)
           destruct (a_pc X) eqn:EPX; try discriminate PW.
           ++ destruct (t_P6r _ _ _ _ _ M EPX) as (PC' & ER' & _).
              left. destruct (SELF (o_a o) eq_refl) as (b' & B' & E1 & E2 & E3); [rewrite PC'; reflexivity|].
              exists b', B'. split; [exact E1|]. split; [exact E2|]. rewrite E3, ER'. exact ER.
           ++ destruct (t_P7r _ _ _ _ _ M EPX) as (ETG & _).
              right. unfold published, gtag. rewrite ETG, getd_put, ER, N.eqb_refl.
              split; [unfold INITIAL_QUEUE_FLAG, B62 in *; lia|lia].
        -- left. destruct (apply1_get_conv s0 x o b B EB NE NO) as (B' & EB' & [-> | ->]).
           ++ exists b, B. auto.
           ++ exists b, (set_a_notified true B). destruct (wip_notified B true) as (E1 & E2).
              split; [exact EB'|]. split; [rewrite E1; exact PW|rewrite E2; exact ER].
      * right. unfold published.
        destruct (micro_tags (sl c q) _ _ _ _ _ M) as [E | (PC & EI & E)]; rewrite E; [split; assumption|].
        assert (PWX : wip (a_pc X) = true) by (rewrite PC; reflexivity).
        destruct (WX PWX) as (X0 & _ & _ & _ & _ & X5 & _). rewrite <- EI in X5.
        split; [unfold INITIAL_QUEUE_FLAG, B62 in *; lia|]. destruct X5 as [X5 | X5]; [contradiction|lia].
    + (* q was claimed by this very step *)
      left.
      destruct (micro_head _ _ _ _ _ M) as [[E _] | [CL [E _]]]; [rewrite E in L; lia|].
      assert (HX : (a_pc X = P5 \/ a_pc X = M5) /\ head (sh s0) = r_h (a_r X)).
      { destruct CL as [PC | [PC EH]]; [|split; [right; exact PC|exact EH]].
        split; [left; exact PC|]. destruct SM as [SMa _].
        destruct (head_mreach c fut s0 (mreachN_mreach c fut s0 RN) SMa) as [HLX _].
        assert (PX : pp_pc (a_pc X) (a_stack X) = true) by (rewrite PC; reflexivity).
        symmetry. apply (HLX x X EX PX). }
      destruct HX as (CL' & EH).
      rewrite E, <- EH, (next_count_plus c Npos Nsmall) in L by lia.
      assert (EQ : q = head (sh s0)) by lia.
      assert (PC' : a_pc (o_a o) = P6 /\ r_h (a_r (o_a o)) = r_h (a_r X)).
      { destruct CL' as [PC | PC].
        - destruct (t_P5 c _ _ _ _ M PC G SAX) as (_ & E2 & E3 & _). split; assumption.
        - destruct (t_M5 c Npos Nsmall _ _ _ _ M PC G SAX) as [(PC2 & _ & WE) | (E3 & _ & _ & E2 & _)].
          + exfalso. destruct WE as (E1 & _). rewrite E1 in E. rewrite <- EH, (next_count_plus c Npos Nsmall) in E by lia. lia.
          + split; assumption. }
      destruct PC' as (PC' & ER').
      destruct (SELF (o_a o) eq_refl) as (b' & B' & E1 & E2 & E3); [rewrite PC'; reflexivity|].
      exists b', B'. split; [exact E1|]. split; [exact E2|]. rewrite E3, ER', <- EH. symmetry. exact EQ.
  - (* spurious failure *)
    intros SM' q L.
    destruct (spur_shape _ _ _ _ M) as (N0 & _ & _ & _ & _ & _ & SHP & _ & EH & EL).
    destruct (spur_win c _ _ _ M) as (WE & _).
    assert (SM : SmallW s0).
    { destruct SM' as [S1 S2]. split; [pose proof (apply1_len s0 a o); lia|].
      change (sh (apply1 s0 a o)) with (o_s o) in S2. rewrite EL in S2. exact S2. }
    change (sh (apply1 s0 a o)) with (o_s o) in *. rewrite EH in L.
    destruct WE as (_ & _ & _ & _ & _ & _ & E7).
    destruct (IH SM q L) as [(b & B & EB & PW & ER) | (T1 & T2)].
    + left. assert (NE : b <> a).
      { intros ->. rewrite EA in EB. injection EB as <-. destruct SHP as [(P1' & _) | (P1' & _)]; rewrite P1' in PW; discriminate PW. }
      assert (NOK : new_ok s0 a o = true) by (unfold new_ok; rewrite N0; reflexivity).
      destruct (apply1_get_conv s0 a o b B EB NE NOK) as (B' & EB' & [-> | ->]).
      * exists b, B. auto.
      * exists b, (set_a_notified true B). destruct (wip_notified B true) as (E1 & E2).
        split; [exact EB'|]. split; [rewrite E1; exact PW|rewrite E2; exact ER].
    + right. unfold published, gtag. rewrite E7. split; assumption.
  - intros SM q L. cbn [ags sh] in *. destruct SM as [S1 S2].
    change (g_log (tick (sh s0))) with (g_log (sh s0)) in S2.
    exact (IH (conj S1 S2) q L).
Qed.

(* with no sender left nothing is in progress: every claimed position is published *)
Theorem all_published_when_no_writer fut s :
  mreachN c fut s -> SmallW s -> writers (sh s) = 0 ->
  forall q, q < head (sh s) -> published (sh s) q.
Proof.
  intros RN SM W0 q L. destruct (pub_mreachN fut s RN SM q L) as [(a & A & EA & PW & _) | P]; [exfalso|exact P].
  pose proof (mreachN_mreach c fut s RN) as R. destruct SM as [SMa _].
  destruct (iw_mreach c fut s R) as (_ & WC). destruct (WC SMa) as (WE & _).
  assert (IB : in_send_body A = true) by (unfold in_send_body; destruct (a_pc A); try discriminate PW; reflexivity).
  pose proof (send_body_cs a A (ctl_mreach c fut s R a A EA) IB) as CS.
  pose proof (cnt_get_pos cs (ags s) a A EA CS) as CP. rewrite <- WE in CP. lia.
Qed.
End PB.
