(* Deliveries (C01): what each commit hands to the client, and the positions a stream delivers. *)
From Coq Require Import NArith List Bool Lia.
Require Import MQ.Arith64 MQ.Arith64Facts MQ.Types MQ.State MQ.Model MQ.Exec MQ.Reach MQ.Fields MQ.Ctl MQ.Count MQ.SumCount MQ.FreshStep
  MQ.WritersStep MQ.InvWriters MQ.HeadStep MQ.InvHead MQ.RecvDefs MQ.RecvStep MQ.KnownStep MQ.InvRecv MQ.SoleDefs MQ.InvSole
  MQ.PosStep MQ.AttStep MQ.InvPos MQ.GroupStep MQ.GroupStep2 MQ.GroupStep3 MQ.NewAgentStep MQ.InvGroups MQ.RegStep MQ.InvReg
  MQ.WinStep MQ.WinDefs MQ.WinStep2 MQ.WinTrans MQ.InvWin MQ.SlotDefs MQ.SlotStepA MQ.SlotStepB MQ.SlotStepC MQ.SlotStepD
  MQ.SlotStepE MQ.SlotStepG MQ.InvSlot.
Import ListNotations.
Open Scope N_scope.

(* the positions delivered on stream [sg], in the order of delivery *)
Definition dposs (sg : N) (l : list (N * N * N * N)) : list N :=
  map (fun e => match e with (_, p, _, _) => p end)
      (filter (fun e => match e with (sid, _, _, _) => sid =? sg end) l).

Lemma dposs_app sg l l' : dposs sg (l ++ l') = dposs sg l ++ dposs sg l'.
Proof. unfold dposs. rewrite filter_app, map_app. reflexivity. Qed.

(* consecutive positions, ending just before the cursor *)
Definition consec (ps : list N) (g : N) : Prop :=
  ps = [] \/ (ps = seqN (hd 0 ps) (length ps) /\ g = hd 0 ps + lenN ps).

Lemma seqN_snoc k : forall h, seqN h (S k) = seqN h k ++ [h + N.of_nat k].
Proof.
  induction k as [|k IH]; intros h.
  - cbn. rewrite N.add_0_r. reflexivity.
  - change (seqN h (S (S k))) with (h :: seqN (h + 1) (S k)). rewrite IH.
    change (seqN h (S k)) with (h :: seqN (h + 1) k). cbn [app]. f_equal. f_equal. f_equal. lia.
Qed.

Lemma consec_snoc ps g : consec ps g -> consec (ps ++ [g]) (g + 1).
Proof.
  intros [-> | (E & EG)].
  - right. cbn. unfold lenN. cbn. split; [reflexivity|lia].
  - right. destruct ps as [|h t].
    + cbn in *. unfold lenN in *. cbn in *. split; [subst g; reflexivity|lia].
    + assert (HD : hd 0 ((h :: t) ++ [g]) = h) by reflexivity.
      rewrite HD. cbn [hd] in E, EG.
      assert (LN : length ((h :: t) ++ [g]) = S (length (h :: t))) by (rewrite app_length; cbn [length]; lia).
      rewrite LN, seqN_snoc, <- E. unfold lenN in *. rewrite LN. split; [|lia].
      f_equal. f_equal. lia.
Qed.

Lemma logat_some S p : p < lenN (g_log S) -> exists v, logat S p = Some v.
Proof.
  unfold logat, lenN. intros L. destruct (nth_error (g_log S) (N.to_nat p)) eqn:E; [eauto|].
  apply nth_error_None in E. lia.
Qed.

Section DL.
Variable c : cfg.
Notation N := (c_n c).
Hypothesis Npos : 0 < N.
Hypothesis Nsmall : N <= B61.

Definition DelivInv (s : state) : Prop :=
  SmallW s ->
  (forall sid p ser me, In (sid, p, ser, me) (g_deliv (sh s)) ->
     sid < nsid (sh s) /\ p < head (sh s) /\ (is_bcast c = false -> logat (sh s) p = Some ser)) /\
  (forall sg, consec (dposs sg (g_deliv (sh s))) (gpos (sh s) sg)) /\
  (forall a A, get (ags s) a = Some A -> rvs c A).

Lemma rvs_notified B b : rvs c (set_a_notified b B) <-> rvs c B.
Proof. destruct B; unfold rvs; cbn; tauto. Qed.

Lemma rvs_plain B : a_pc B <> R11 -> a_pc B <> R12 -> rvs c B.
Proof. intros N1 N2 _ [X | X]; contradiction. Qed.

Section Step.
Variables (fut : bool) (s : state) (x : BinNums.N) (X : agent) (o : out).
Hypothesis RN : mreachN c fut s.
Hypothesis SM' : SmallW (apply1 s x o).
Hypothesis EX : get (ags s) x = Some X.
Hypothesis M : micro c x X (sh s) = Some o.
Hypothesis NO : new_ok s x o = true.
Hypothesis NF : ~ f11_bad (sh s) X.
Hypothesis EN : is_local (a_pc X) = true \/ enabled x X (sh s) = true.
Hypothesis IH : DelivInv s.

Let R := mreachN_mreach c fut s RN.
Let SM := small_back c Npos Nsmall s x X o EX M SM'.

Lemma dl_slot : SlotG c (sh s) /\ (forall a A, get (ags s) a = Some A -> SlotA c A (sh s)) /\ CellsOK c s /\ Distinct s.
Proof. exact (slot_mreachN c Npos Nsmall fut s RN SM). Qed.

Lemma dl_win : WinG c (sh s) /\ forall a A, get (ags s) a = Some A -> WinA c A (sh s).
Proof. exact (win_mreachN c Npos Nsmall fut s RN SM). Qed.

(* at a commit the cursor is the attempt position *)
Lemma dl_commit_pos :
  (a_pc X = R12 /\ (r_am (a_r X) = true \/ gpos (sh s) (a_sid X) = r_p (a_r X))) \/ a_pc X = V4 ->
  gpos (sh s) (a_sid X) = r_p (a_r X).
Proof.
  destruct SM as [SMa _].
  intros [(PC & [AM | E]) | PC]; [|exact E|].
  - symmetry. apply (pos_mreach c fut s R SMa x X EX). unfold ap_phase. rewrite PC. cbn. rewrite AM. reflexivity.
  - symmetry. apply (pos_mreach c fut s R SMa x X EX). unfold ap_phase. rewrite PC. reflexivity.
Qed.

(* a committing consumer holds a value *)
Lemma dl_commit_val : (a_pc X = R12 \/ a_pc X = V4) -> gpos (sh s) (a_sid X) = r_p (a_r X) ->
  exists ser, r_val (a_r X) = Some ser /\ (is_bcast c = false -> logat (sh s) (r_p (a_r X)) = Some ser) /\
              r_p (a_r X) < head (sh s).
Proof.
  intros PC EP. destruct dl_slot as (_ & SA & _). destruct dl_win as (_ & IA).
  destruct (SA x X EX) as (_ & _ & _ & FX & _). destruct (IA x X EX) as (_ & _ & (_ & RX2) & _).
  destruct (IH SM) as (_ & _ & RV).
  assert (RD : rdphase (a_pc X) = true) by (destruct PC as [-> | ->]; reflexivity).
  assert (MX : matched (a_pc X) = true) by (destruct PC as [-> | ->]; reflexivity).
  destruct (FX RD) as (_ & FV). specialize (FV EP). specialize (RX2 MX).
  destruct (head_small c Npos Nsmall fut s R SM) as [HL _].
  destruct (logat_some (sh s) (r_p (a_r X))) as (v & EV); [lia|].
  rewrite EV in FV. unfold valof in FV.
  destruct PC as [PC | PC]; rewrite PC in FV.
  - destruct (is_bcast c) eqn:BC.
    + destruct (r_val (a_r X)) as [ser|] eqn:ER.
      * exists ser. split; [reflexivity|]. split; [intros X0; discriminate X0|exact RX2].
      * exfalso. apply (RV x X EX BC (or_intror PC)). exact ER.
    + exists v. split; [symmetry; exact FV|]. split; [intros _; exact EV|exact RX2].
  - exists v. split; [symmetry; exact FV|]. split; [intros _; exact EV|exact RX2].
Qed.

Lemma app_self_nil {T} (l d : list T) : l ++ d = l -> d = [].
Proof. intros E. rewrite <- (app_nil_r l) in E at 2. apply app_inv_head in E. exact E. Qed.

(* what a step that appends a delivery does *)
Lemma dl_append ser me0 :
  (a_pc X = R12 \/ a_pc X = V4) -> r_val (a_r X) = Some ser ->
  g_deliv (o_s o) = g_deliv (sh s) ++ [(a_sid X, r_p (a_r X), ser, me0)] ->
  gpos (sh s) (a_sid X) = r_p (a_r X) /\ gpos (o_s o) (a_sid X) = r_p (a_r X) + 1.
Proof.
  intros PC EV EAPP. destruct dl_win as (G & IA). destruct (IA x X EX) as (_ & _ & (_ & RX2) & _).
  assert (MX : matched (a_pc X) = true) by (destruct PC as [-> | ->]; reflexivity). specialize (RX2 MX).
  pose proof (w_head_small c _ G) as HB.
  destruct PC as [PC | PC].
  - destruct (t_R12c _ _ _ _ _ M PC) as [(_ & E) | (E1 & _ & E3)].
    + exfalso. rewrite E in EAPP. symmetry in EAPP. apply app_self_nil in EAPP. discriminate EAPP.
    + split; [apply dl_commit_pos; left; split; assumption|].
      rewrite E1. apply (next_count_plus c Npos Nsmall). lia.
  - destruct (t_V4c _ _ _ _ _ M PC) as (E1 & _).
    split; [apply dl_commit_pos; right; exact PC|]. rewrite E1. apply (next_count_plus c Npos Nsmall). lia.
Qed.

(* a step that moves a cursor of a stream with deliveries appends a delivery *)
Lemma dl_commit_appends :
  (a_pc X = R12 \/ a_pc X = V4) -> gpos (o_s o) (a_sid X) = next_count (gpos (sh s) (a_sid X)) ->
  exists ser, r_val (a_r X) = Some ser /\ g_deliv (o_s o) = g_deliv (sh s) ++ [(a_sid X, r_p (a_r X), ser, x)] /\
    gpos (sh s) (a_sid X) = r_p (a_r X).
Proof.
  intros PC EG. destruct dl_slot as (SG & _). destruct dl_win as (G & _). pose proof (w_head_small c _ G) as HB.
  pose proof (sg_pos _ _ SG (a_sid X)) as L. rewrite (next_count_plus c Npos Nsmall) in EG by lia.
  assert (EP : gpos (sh s) (a_sid X) = r_p (a_r X)).
  { destruct PC as [PC | PC].
    - destruct (t_R12c _ _ _ _ _ M PC) as [(E & _) | (_ & _ & E3)]; [lia|].
      apply dl_commit_pos. left. split; assumption.
    - apply dl_commit_pos. right. exact PC. }
  destruct (dl_commit_val PC EP) as (ser & EV & _).
  exists ser. split; [exact EV|]. split; [|exact EP].
  destruct PC as [PC | PC].
  - destruct (t_R12c _ _ _ _ _ M PC) as [(E & _) | (_ & E2 & _)]; [lia|].
    rewrite E2. unfold dentry. rewrite EV. reflexivity.
  - destruct (t_V4c _ _ _ _ _ M PC) as (_ & E2). rewrite E2. unfold dentry. rewrite EV. reflexivity.
Qed.

Lemma dl_step :
  (forall sid p ser me, In (sid, p, ser, me) (g_deliv (o_s o)) ->
     sid < nsid (o_s o) /\ p < head (o_s o) /\ (is_bcast c = false -> logat (o_s o) p = Some ser)) /\
  (forall sg, consec (dposs sg (g_deliv (o_s o))) (gpos (o_s o) sg)).
Proof.
  destruct (IH SM) as (DV & DS & RV). destruct dl_win as (G & IA). destruct dl_slot as (SG & SA & _).
  pose proof (ctl_mreach c fut s R x X EX) as QX.
  destruct (recv_mreach c fut s R) as (_ & FR & _).
  destruct (micro_fresh _ _ _ _ _ M QX (FR x X EX)) as (NS & _).
  destruct (FR x X EX) as (F1 & _).
  assert (SF : StepFacts (sh s) (o_s o)) by (eapply st_sf; eauto).
  destruct SF as [H1 _ H3 _ _ _ _].
  assert (TL : forall p, p < head (sh s) -> logat (o_s o) p = logat (sh s) p) by (eapply st_logm; eauto).
  assert (CS : forall g, gpos (o_s o) g = gpos (sh s) g \/
     (a_sid X = g /\ (a_pc X = R12 \/ a_pc X = V4) /\ gpos (o_s o) g = next_count (gpos (sh s) g)) \/
     (a_pc X = A2 /\ g = nsid (sh s) /\ gpos (o_s o) g = gpos (sh s) (a_sid X))) by (eapply st_cs; eauto).
  assert (OLD : forall sid p ser me, In (sid, p, ser, me) (g_deliv (sh s)) ->
     sid < nsid (o_s o) /\ p < head (o_s o) /\ (is_bcast c = false -> logat (o_s o) p = Some ser)).
  { intros sid p ser me IN. destruct (DV sid p ser me IN) as (D1 & D2 & D3).
    split; [lia|]. split; [lia|]. intros BC. rewrite TL by exact D2. exact (D3 BC). }
  split.
  - intros sid p ser me IN.
    destruct (micro_gdeliv _ _ _ _ _ M) as [E | (PC & ser0 & EV & E)]; rewrite E in IN; [exact (OLD _ _ _ _ IN)|].
    apply in_app_or in IN as [IN | [IN | []]]; [exact (OLD _ _ _ _ IN)|]. injection IN as <- <- <- <-.
    destruct (dl_append ser0 x PC EV E) as (EP & _).
    destruct (dl_commit_val PC EP) as (ser1 & EV1 & LG & LH). rewrite EV in EV1. injection EV1 as <-.
    split; [lia|]. split; [lia|]. intros BC. rewrite TL by exact LH. exact (LG BC).
  - intros sg. specialize (DS sg).
    destruct (CS sg) as [E | [(ES & PC & E) | (PC & EG & E)]].
    + (* the cursor of sg did not move: no delivery on sg *)
      rewrite E.
      destruct (micro_gdeliv _ _ _ _ _ M) as [ED | (PC & ser0 & EV & ED)]; rewrite ED; [exact DS|].
      rewrite dposs_app. destruct (N.eq_dec (a_sid X) sg) as [ES | NS0].
      * exfalso. destruct (dl_append ser0 x PC EV ED) as (EP & EP'). subst sg. lia.
      * assert (EF : dposs sg [(a_sid X, r_p (a_r X), ser0, x)] = []).
        { unfold dposs. cbn. assert (EB : (a_sid X =? sg) = false) by (apply N.eqb_neq; exact NS0). rewrite EB. reflexivity. }
        rewrite EF, app_nil_r. exact DS.
    + (* a commit on sg *)
      subst sg. destruct (dl_commit_appends PC E) as (ser & EV & ED & EP).
      rewrite ED, dposs_app.
      assert (EF : dposs (a_sid X) [(a_sid X, r_p (a_r X), ser, x)] = [r_p (a_r X)]).
      { unfold dposs. cbn. rewrite N.eqb_refl. reflexivity. }
      rewrite EF, E. pose proof (w_head_small c _ G) as HB. pose proof (sg_pos _ _ SG (a_sid X)) as L.
      rewrite (next_count_plus c Npos Nsmall) by lia. rewrite EP in DS |- *. apply consec_snoc. exact DS.
    + (* a fresh cursor: nothing was delivered on it *)
      left.
      assert (ED : g_deliv (o_s o) = g_deliv (sh s)).
      { destruct (micro_gdeliv _ _ _ _ _ M) as [ED | ([PC2 | PC2] & _)]; [exact ED| |]; congruence. }
      rewrite ED. unfold dposs.
      assert (FIL : forall l, (forall sid p ser me, In (sid, p, ser, me) l -> sid < nsid (sh s)) ->
                filter (fun e : BinNums.N * BinNums.N * BinNums.N * BinNums.N => let '(sid, _, _, _) := e in sid =? sg) l = []).
      { induction l as [|[[[sid p] ser] me] l IHl]; intros HL; [reflexivity|]. cbn.
        assert (EB : (sid =? sg) = false).
        { apply N.eqb_neq. specialize (HL sid p ser me (or_introl eq_refl)). lia. }
        rewrite EB. apply IHl. intros sid' p' ser' me' IN. apply (HL sid' p' ser' me'). right. exact IN. }
      rewrite FIL; [reflexivity|]. intros sid p ser me IN. apply (DV sid p ser me IN).
Qed.
End Step.

Theorem deliv_mreachN fut s : mreachN c fut s -> DelivInv s.
Proof.
  intros RN. induction RN as [|s0 a A cl pc RN IH EA Hpc Hal He FT0|s0 x X o RN IH EX EN M NO NF|s0 a A o RN IH EA M|s0 RN IH].
  - intros _. split; [|split].
    + intros sid p ser me [].
    + intros sg. left. reflexivity.
    + intros a A EA. cbn in EA. unfold get in EA. cbn in EA.
      destruct (N.eqb a 0); [injection EA as <-; apply rvs_plain; destruct fut; discriminate|].
      destruct (N.eqb a 1); [injection EA as <-; apply rvs_plain; destruct fut; discriminate|discriminate].
  - intros SM. unfold begin_call in *. destruct SM as [S1 S2]. cbn [ags sh] in *.
    rewrite (len_put_same _ _ _ _ EA) in S1.
    change (g_log (hist (HCall a cl (g_clock (sh s0))) (sh s0))) with (g_log (sh s0)) in S2.
    destruct (IH (conj S1 S2)) as (DV & DS & RV).
    split; [exact DV|]. split; [exact DS|].
    intros b B EB. rewrite get_put in EB. destruct (N.eqb b a) eqn:E; [|apply (RV b B EB)].
    injection EB as <-. destruct (entry_plain c _ _ _ He) as (_ & P2' & _).
    apply rvs_plain; destruct A; cbn; intros X0; rewrite X0 in P2'; discriminate P2'.
  - intros SM'. change (sh (apply1 s0 x o)) with (o_s o).
    destruct (dl_step fut s0 x X o RN SM' EX M NO NF EN IH) as (D1 & D2).
    split; [exact D1|]. split; [exact D2|].
    pose proof (small_back c Npos Nsmall s0 x X o EX M SM') as SM.
    destruct (IH SM) as (_ & _ & RV).
    intros b B EB.
    destruct (apply1_get _ _ _ _ _ EB) as (B0 & HB & Hsrc).
    assert (W0 : rvs c B0); [|destruct HB as [-> | ->]; [exact W0|apply rvs_notified; exact W0]].
    destruct Hsrc as [(a' & Hn & ->) | [(-> & ->) | (Hne & EB0)]].
    + destruct (micro_new_idle _ _ _ _ _ _ _ M Hn) as (EI & _). apply rvs_plain; rewrite EI; discriminate.
    + apply (micro_rvs _ _ _ _ _ M (ctl_mreach c fut s0 (mreachN_mreach c fut s0 RN) x X EX) (RV x X EX)).
    + apply (RV b B0 EB0).
  - intros SM'.
    destruct (spur_shape _ _ _ _ M) as (N0 & _ & _ & _ & _ & _ & SHP & _ & EH & EL).
    destruct (spur_win c _ _ _ M) as (WE & ENS & _).
    destruct (spur_slot _ _ _ _ M) as (_ & ED & _).
    assert (SM : SmallW s0).
    { destruct SM' as [S1 S2]. split; [pose proof (apply1_len s0 a o); lia|].
      change (sh (apply1 s0 a o)) with (o_s o) in S2. rewrite EL in S2. exact S2. }
    destruct (IH SM) as (DV & DS & RV).
    destruct WE as (E1 & E2 & E3 & _).
    change (sh (apply1 s0 a o)) with (o_s o).
    split; [|split].
    + intros sid p ser me IN. rewrite ED in IN. rewrite ENS, E1, (logat_eq _ _ _ EL). apply (DV _ _ _ _ IN).
    + intros sg. rewrite ED. unfold gpos. rewrite E3. apply DS.
    + intros b B EB.
      destruct (apply1_get _ _ _ _ _ EB) as (B0 & HB & Hsrc).
      assert (W0 : rvs c B0); [|destruct HB as [-> | ->]; [exact W0|apply rvs_notified; exact W0]].
      destruct Hsrc as [(a' & Hn & ->) | [(-> & ->) | (Hne & EB0)]].
      * rewrite N0 in Hn. discriminate Hn.
      * apply rvs_plain; destruct SHP as [(_ & P') | (_ & P')]; rewrite P'; discriminate.
      * apply (RV b B0 EB0).
  - intros SM. cbn [ags sh] in *. destruct SM as [S1 S2].
    change (g_log (tick (sh s0))) with (g_log (sh s0)) in S2.
    exact (IH (conj S1 S2)).
Qed.
End DL.
