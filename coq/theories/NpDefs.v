(* Lost wake-ups of the blocking wait (C08): who owes a notification. *)
From Coq Require Import NArith List Bool Lia.
Require Import MQ.Arith64 MQ.Types MQ.State MQ.Model MQ.Exec MQ.Reach MQ.Ctl MQ.RecvDefs.
Import ListNotations.
Open Scope N_scope.

Definition is_ok (r : res) : bool := match r with ROk => true | _ => false end.

(* has made a wait condition true (published a value, or was the last sender) and has not yet notified *)
Definition sender_drop (A : agent) : bool :=
  is_sender_role (a_role A) && match r_call (a_r A) with CDrop => true | _ => false end.

Definition np (A : agent) : bool :=
  match a_pc A with
  | NTF | N1 | N2 | SD1 => true
  | TSdone | SSdone => is_ok (r_res (a_r A))
  | SD0 | SD2 | Done | Idle | FIN | FN1 => false
  | _ => sender_drop A
  end.

