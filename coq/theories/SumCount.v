(* Weighted counting over the agent map (generalises Count.v to weights in N). *)
From Coq Require Import NArith List Bool Lia.
Require Import MQ.Arith64 MQ.Types MQ.State MQ.Model MQ.Exec MQ.Reach MQ.Count.
Import ListNotations.
Open Scope N_scope.

Fixpoint sumf (f : N -> agent -> N) (m : fmap agent) : N :=
  match m with
  | [] => 0
  | (k, A) :: m' => f k A + sumf f m'
  end.

Lemma sumf_put_in f m : forall a A A',
  keys_nodup m -> get m a = Some A ->
  sumf f (put m a A') + f a A = sumf f m + f a A'.
Proof.
  induction m as [|[k B] m IH]; intros a A A' ND G.
  - discriminate G.
  - rewrite get_cons in G. rewrite put_cons. destruct ND as [N1 N2].
    destruct (N.eqb a k) eqn:E.
    + apply N.eqb_eq in E. subst k. injection G as <-. cbn [sumf]. lia.
    + cbn [sumf]. specialize (IH a A A' N2 G). lia.
Qed.

Lemma sumf_put_new f m : forall a A',
  get m a = None -> sumf f (put m a A') = sumf f m + f a A'.
Proof.
  induction m as [|[k B] m IH]; intros a A' G.
  - change (put (@nil (N * agent)) a A') with [(a, A')]. cbn [sumf]. lia.
  - rewrite get_cons in G. rewrite put_cons. destruct (N.eqb a k) eqn:E; [discriminate|].
    cbn [sumf]. rewrite IH by assumption. lia.
Qed.

Lemma sumf_notify f l : (forall k A, f k (set_a_notified true A) = f k A) ->
  forall m, keys_nodup m -> sumf f (notify_all l m) = sumf f m.
Proof.
  intros Hf. induction l as [|a l IH]; intros m ND; [reflexivity|].
  rewrite notify_all_cons_step. destruct (get m a) as [A|] eqn:E.
  - rewrite IH by (apply keys_nodup_put; exact ND).
    pose proof (sumf_put_in f m a A (set_a_notified true A) ND E) as X. rewrite Hf in X. lia.
  - apply IH. exact ND.
Qed.

Lemma sumf_get_le f m : forall a A, get m a = Some A -> f a A <= sumf f m.
Proof.
  induction m as [|[k B] m IH]; intros a A G; [discriminate|].
  rewrite get_cons in G. cbn [sumf]. destruct (N.eqb a k) eqn:E.
  - apply N.eqb_eq in E. subst. injection G as <-. lia.
  - specialize (IH a A G). lia.
Qed.

Lemma sumf_two_le f m : forall a A b B,
  keys_nodup m -> a <> b -> get m a = Some A -> get m b = Some B ->
  f a A + f b B <= sumf f m.
Proof.
  induction m as [|[k C] m IH]; intros a A b B ND Hab GA GB; [discriminate|].
  rewrite get_cons in GA, GB. cbn [sumf]. destruct ND as [N1 N2].
  destruct (N.eqb a k) eqn:E1; destruct (N.eqb b k) eqn:E2.
  - apply N.eqb_eq in E1, E2. congruence.
  - apply N.eqb_eq in E1. subst. injection GA as <-.
    pose proof (sumf_get_le f m b B GB). lia.
  - apply N.eqb_eq in E2. subst. injection GB as <-.
    pose proof (sumf_get_le f m a A GA). lia.
  - specialize (IH a A b B N2 Hab GA GB). lia.
Qed.

Lemma sumf_bound f m w : (forall k A, f k A <= w) -> sumf f m <= w * lenN m.
Proof.
  intros H. unfold lenN. induction m as [|[k A] m IH]; cbn [sumf length]; [lia|].
  rewrite Nat2N.inj_succ. specialize (H k A). lia.
Qed.

Lemma sumf_zero f m : (forall a A, get m a = Some A -> f a A = 0) -> keys_nodup m -> sumf f m = 0.
Proof.
  induction m as [|[k A] m IH]; intros H ND; [reflexivity|]. cbn [sumf]. destruct ND as [N1 N2].
  rewrite (H k A) by (rewrite get_cons, N.eqb_refl; reflexivity).
  rewrite IH; [reflexivity| |exact N2].
  intros a B G. apply (H a B). rewrite get_cons. destruct (N.eqb a k) eqn:E; [|exact G].
  apply N.eqb_eq in E. subst. congruence.
Qed.

(* the sum after one micro-step *)
Lemma apply1_sumf f s a o A :
  (forall k B, f k (set_a_notified true B) = f k B) ->
  keys_nodup (ags s) -> get (ags s) a = Some A -> new_ok s a o = true ->
  sumf f (ags (apply1 s a o)) + f a A =
  sumf f (ags s) + f a (o_a o) +
  match o_new o with Some (a', A') => f a' A' | None => 0 end.
Proof.
  intros Hf ND G NO. unfold apply1. cbn [ags].
  assert (ND1 : keys_nodup (put (ags s) a (o_a o))) by (apply keys_nodup_put; exact ND).
  pose proof (sumf_put_in f (ags s) a A (o_a o) ND G) as X.
  unfold new_ok in NO. destruct (o_new o) as [[a' A']|].
  - apply andb_prop in NO as [N1 N2]. apply negb_true_iff, N.eqb_neq in N1.
    destruct (get (ags s) a') eqn:E; [discriminate|].
    rewrite sumf_notify by (auto; apply keys_nodup_put; exact ND1).
    rewrite sumf_put_new by (rewrite get_put_other; auto). lia.
  - rewrite sumf_notify by auto. lia.
Qed.
