(* Small step fact for C13: after the publishing compare-exchange the creator still carries the weight of the new stream. *)
From Coq Require Import NArith List Bool Lia.
Require Import MQ.Arith64 MQ.Arith64Facts MQ.Types MQ.State MQ.Model MQ.Exec MQ.Reach MQ.Ctl MQ.Count MQ.WritersStep
  MQ.RecvDefs MQ.RecvStep.
Import ListNotations.
Open Scope N_scope.

Lemma t_A3w c me A S o : micro c me A S = Some o -> a_pc A = A3 -> a_stack A = [] -> cur S = r_g (a_r A) ->
  w_n (r_ns (a_r A)) (o_a o) = true.
Proof.
  intros H E ES EC. destruct A as [role alive multi sid tok pc stack R notified parked]. cbn in E, ES, EC. subst pc stack.
  unfold w_n, topc. micro_cases H; cbn; eqb_hyps; rewrite ?N.eqb_refl; try reflexivity; congruence.
Qed.
