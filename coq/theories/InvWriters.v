(* The writers counter counts the live sender handles, and a sender in single-writer mode is
   the only live sender (I8, sender half): what makes the plain store to head sound.
   Case analyses over the micro-step are in WritersStep.v. *)
From Coq Require Import NArith List Bool Lia.
Require Import MQ.Arith64 MQ.Arith64Facts MQ.Types MQ.State MQ.Model MQ.Exec MQ.Reach MQ.Ctl MQ.Count MQ.AgentInv MQ.WritersStep.
Import ListNotations.
Open Scope N_scope.

(* ------------------------------------------------------------------ *)
(* per-agent part for all reachable states *)
Lemma micro_wok c me A S o :
  micro c me A S = Some o -> w_ok A = true ->
  w_ok (o_a o) = true /\ (forall a' A', o_new o = Some (a', A') -> w_ok A' = true).
Proof.
  intros H Q. unfold w_ok in Q.
  apply andb_prop in Q as [Q QF]. apply andb_prop in Q as [QC QM].
  destruct (micro_ctl _ _ _ _ _ H QC) as [C1 C2].
  destruct (micro_wextra _ _ _ _ _ H QC QM QF) as [[E1 E2] E3].
  split.
  - unfold w_ok. now rewrite C1, E1, E2.
  - intros a' A' X. destruct (E3 _ _ X) as [X1 X2]. unfold w_ok. now rewrite (C2 _ _ X), X1, X2.
Qed.

Lemma spur_shape c A S o :
  micro_spur c A S = Some o ->
  o_new o = None /\ a_role (o_a o) = a_role A /\ a_alive (o_a o) = a_alive A /\
  a_multi (o_a o) = a_multi A /\ a_stack (o_a o) = a_stack A /\
  r_call (a_r (o_a o)) = r_call (a_r A) /\
  ((a_pc A = M5 /\ a_pc (o_a o) = M2) \/ (a_pc A = R12 /\ a_pc (o_a o) = R4)) /\
  writers (o_s o) = writers S /\ head (o_s o) = head S /\ g_log (o_s o) = g_log S.
Proof.
  intros H. destruct A as [role alive multi sid tok pc stack R notified parked].
  unfold micro_spur, ok in H. cbn in H.
  destruct pc; try discriminate H.
  - injection H as <-. cbn. intuition.
  - destruct (r_am R); [discriminate|].
    unfold use_obj, bad, drop_opt, drop_val in H. cbn in H.
    break_hyp H; injection H as <-; cbn; intuition.
Qed.

Lemma spur_wok c A S o : micro_spur c A S = Some o -> w_ok A = true -> w_ok (o_a o) = true /\ o_new o = None.
Proof.
  intros H Q. destruct A as [role alive multi sid tok pc stack R notified parked].
  unfold micro_spur, ok in H. cbn in H.
  destruct pc; try discriminate H;
    (destruct stack as [|k st]; [unfold w_ok, ctl_ok in Q; cbn in Q; discriminate Q|]).
  - injection H as <-. cbn. split; [|reflexivity].
    unfold w_ok, ctl_ok, top_sc1 in *. cbn in *. exact Q.
  - destruct (r_am R); [discriminate|].
    unfold use_obj, bad, drop_opt, drop_val in H. cbn in H.
    break_hyp H; injection H as <-; cbn; (split; [|reflexivity]);
      unfold w_ok, ctl_ok, top_sc1 in *; cbn in *; exact Q.
Qed.

Lemma w_init fut a A : get (ags (init fut)) a = Some A -> w_ok A = true.
Proof.
  intros EA. cbn in EA. unfold get in EA. cbn in EA.
  destruct (N.eqb a 0); [injection EA as <-; destruct fut; reflexivity|].
  destruct (N.eqb a 1); [injection EA as <-; destruct fut; reflexivity|discriminate].
Qed.

Theorem wok_mreach c fut s : mreach c fut s -> forall a A, get (ags s) a = Some A -> w_ok A = true.
Proof.
  apply (agents_minv c w_ok).
  - intros A b. apply w_notified.
  - apply w_entry.
  - apply micro_wok.
  - apply spur_wok.
  - intros f a A. apply w_init.
Qed.

(* ------------------------------------------------------------------ *)
(* the global part *)
Lemma cs_notified a A b : cs a (set_a_notified b A) = cs a A.
Proof. destruct A; reflexivity. Qed.

Lemma cnt_le_len f m : cnt f m <= lenN m.
Proof.
  unfold lenN. induction m as [|[k A] m IH]; cbn [cnt length]; [lia|].
  rewrite Nat2N.inj_succ. destruct (f k A); cbn [b2n]; lia.
Qed.

Lemma len_put_ge {A} (m : fmap A) a v : lenN m <= lenN (put m a v).
Proof.
  unfold lenN. induction m as [|[k B] m IH].
  - change (put (@nil (N * A)) a v) with [(a, v)]. cbn. lia.
  - rewrite put_cons. destruct (N.eqb a k); cbn [length] in *; lia.
Qed.

Lemma len_notify_ge l : forall (m : fmap agent), lenN m <= lenN (notify_all l m).
Proof.
  induction l as [|a l IH]; intros m; [apply N.le_refl|].
  rewrite notify_all_cons_step. etransitivity; [|apply IH].
  destruct (get m a); [apply len_put_ge|apply N.le_refl].
Qed.

Lemma apply1_len s a o : lenN (ags s) <= lenN (ags (apply1 s a o)).
Proof.
  unfold apply1. cbn [ags]. etransitivity; [|apply len_notify_ge].
  destruct (o_new o) as [[a' A']|].
  - etransitivity; [apply (len_put_ge _ a (o_a o))|apply len_put_ge].
  - apply len_put_ge.
Qed.

(* where an agent of the successor state comes from *)
Lemma apply1_get s a o b B :
  get (ags (apply1 s a o)) b = Some B ->
  exists B0, (B = B0 \/ B = set_a_notified true B0) /\
    ((exists a', o_new o = Some (a', B0) /\ b = a') \/ (b = a /\ B0 = o_a o) \/
     (b <> a /\ get (ags s) b = Some B0)).
Proof.
  intros EB. unfold apply1 in EB. cbn [ags] in EB. rewrite get_notify_all in EB.
  destruct (o_new o) as [[a' A']|] eqn:EN.
  - rewrite get_put in EB. destruct (N.eqb b a') eqn:E1.
    + apply N.eqb_eq in E1. subst. injection EB as <-. exists A'.
      split; [destruct (memN a' (o_ntf o)); auto|]. left. eauto.
    + rewrite get_put in EB. destruct (N.eqb b a) eqn:E2.
      * apply N.eqb_eq in E2. subst. injection EB as <-. exists (o_a o).
        split; [destruct (memN a (o_ntf o)); auto|]. right. left. auto.
      * apply N.eqb_neq in E2. destruct (get (ags s) b) as [B0|] eqn:EB0; [|discriminate].
        injection EB as <-. exists B0. split; [destruct (memN b (o_ntf o)); auto|]. right. right. auto.
  - rewrite get_put in EB. destruct (N.eqb b a) eqn:E2.
    + apply N.eqb_eq in E2. subst. injection EB as <-. exists (o_a o).
      split; [destruct (memN a (o_ntf o)); auto|]. right. left. auto.
    + apply N.eqb_neq in E2. destruct (get (ags s) b) as [B0|] eqn:EB0; [|discriminate].
      injection EB as <-. exists B0. split; [destruct (memN b (o_ntf o)); auto|]. right. right. auto.
Qed.

Definition IW (s : state) : Prop :=
  keys_nodup (ags s) /\
  (lenN (ags s) < B62 ->
   writers (sh s) = cnt cs (ags s) /\
   (forall a A, get (ags s) a = Some A -> cs a A = true -> a_multi A = false -> cnt cs (ags s) = 1)).

Definition WOK (s : state) : Prop := forall a A, get (ags s) a = Some A -> w_ok A = true.

Lemma cs_begin c A cl pc a :
  ctl_ok A = true -> a_pc A = Idle -> a_alive A = true -> entry c (a_role A) cl = Some pc ->
  cs a (at_pc pc (withr (set_r_res RNoRes (set_r_call cl (a_r A))) (set_a_notified false A))) = cs a A.
Proof.
  intros H Hpc Hal He.
  destruct A as [role alive multi sid tok pc0 stack R notified parked].
  cbn in Hpc, Hal. subst pc0 alive.
  unfold ctl_ok in H. cbn in H. unfold cs. cbn.
  destruct stack as [|k st]; [|cbn in H; discriminate H].
  cbn in H. unfold entry in He.
  destruct (r_call R); cbn in H; try discriminate H;
  destruct role, cl; try discriminate He; try (destruct (is_bcast c); try discriminate He);
    injection He as <-; reflexivity.
Qed.

Lemma iw_micro c s a A o :
  WOK s -> IW s -> get (ags s) a = Some A ->
  micro c a A (sh s) = Some o -> new_ok s a o = true -> IW (apply1 s a o).
Proof.
  intros WK [ND I] EA M NO.
  split; [eapply apply1_keys; eauto|].
  intros Small.
  assert (Small0 : lenN (ags s) < B62) by (pose proof (apply1_len s a o); lia).
  destruct (I Small0) as [IWr IU].
  pose proof (WK _ _ EA) as QA. unfold w_ok in QA.
  apply andb_prop in QA as [QA QF]. apply andb_prop in QA as [QC QM].
  pose proof (apply1_cnt cs s a o A (fun k B => cs_notified k B true) ND EA NO) as CNT.
  pose proof (cnt_le_len cs (ags s)) as LE.
  assert (B62W : B62 < W) by reflexivity.
  change (sh (apply1 s a o)) with (o_s o).
  destruct (micro_writers _ _ _ _ _ M QC QF) as
    [(Hw & Hcs & Hnew & Hmu) | [(Hw & Hc1 & Hc0 & Htop & Hmul & a' & A' & Hn & HcN & HmN) | (Hw & Hc1 & Hc0 & Hn)]].
  - (* nothing counted changes *)
    assert (CE : cnt cs (ags (apply1 s a o)) = cnt cs (ags s)).
    { rewrite Hcs in CNT. destruct (o_new o) as [[a' A']|] eqn:EN.
      - rewrite (Hnew _ _ eq_refl) in CNT. cbn [b2n] in CNT. lia.
      - lia. }
    split; [rewrite Hw, CE; exact IWr|].
    intros b B EB Hcb Hmb. rewrite CE.
    destruct (apply1_get _ _ _ _ _ EB) as (B0 & HB & Hsrc).
    assert (Hcb0 : cs b B0 = true) by (destruct HB as [->| ->]; [exact Hcb|now rewrite cs_notified in Hcb]).
    assert (Hmb0 : a_multi B0 = false) by (destruct HB as [->| ->]; [exact Hmb|destruct B0; exact Hmb]).
    destruct Hsrc as [(a' & Hn & ->) | [(-> & ->) | (Hne & EB0)]].
    + rewrite (Hnew _ _ Hn) in Hcb0. discriminate.
    + destruct (Hmu Hmb0) as [Hm | [Hw1 | Hs]].
      * eapply IU; eauto; try (rewrite <- Hcs; exact Hcb0).
      * now rewrite <- IWr.
      * rewrite Hcs in Hcb0. unfold cs in Hcb0. rewrite Hs in Hcb0. discriminate.
    + eapply IU; eauto.
  - (* a sender handle is cloned *)
    rewrite Hn in CNT. rewrite Hc1, Hc0, HcN in CNT. cbn [b2n] in CNT.
    assert (CE : cnt cs (ags (apply1 s a o)) = cnt cs (ags s) + 1) by lia.
    split.
    + rewrite Hw, CE, IWr. unfold wadd. rewrite N.mod_small; [reflexivity|]. unfold B62, W in *. lia.
    + intros b B EB Hcb Hmb. exfalso.
      destruct (apply1_get _ _ _ _ _ EB) as (B0 & HB & Hsrc).
      assert (Hcb0 : cs b B0 = true) by (destruct HB as [->| ->]; [exact Hcb|now rewrite cs_notified in Hcb]).
      assert (Hmb0 : a_multi B0 = false) by (destruct HB as [->| ->]; [exact Hmb|destruct B0; exact Hmb]).
      destruct Hsrc as [(a2 & Hn2 & ->) | [(-> & ->) | (Hne & EB0)]].
      * rewrite Hn in Hn2. injection Hn2 as <- <-. congruence.
      * rewrite Hmul in Hmb0. unfold top_sc1 in Htop.
        apply orb_prop in QM. unfold top_sc1 in QM. rewrite Htop in QM. cbn in QM.
        destruct QM as [X|X]; [discriminate|congruence].
      * pose proof (IU _ _ EB0 Hcb0 Hmb0) as C1.
        pose proof (cnt_two cs (ags s) a A b B0 ND (fun E => Hne (eq_sym E)) EA EB0 Hc0 Hcb0). lia.
  - (* a sender handle starts to go away *)
    rewrite Hn, Hc1, Hc0 in CNT. cbn [b2n] in CNT.
    pose proof (cnt_get_pos cs (ags s) a A EA Hc0) as POS.
    assert (CE : cnt cs (ags (apply1 s a o)) = cnt cs (ags s) - 1) by lia.
    split.
    + rewrite Hw, CE, IWr. apply wsub_ge; [lia|]. unfold B62, W in *. lia.
    + intros b B EB Hcb Hmb. exfalso.
      destruct (apply1_get _ _ _ _ _ EB) as (B0 & HB & Hsrc).
      assert (Hcb0 : cs b B0 = true) by (destruct HB as [->| ->]; [exact Hcb|now rewrite cs_notified in Hcb]).
      assert (Hmb0 : a_multi B0 = false) by (destruct HB as [->| ->]; [exact Hmb|destruct B0; exact Hmb]).
      destruct Hsrc as [(a2 & Hn2 & ->) | [(-> & ->) | (Hne & EB0)]].
      * rewrite Hn in Hn2. discriminate.
      * congruence.
      * pose proof (IU _ _ EB0 Hcb0 Hmb0) as C1.
        pose proof (cnt_two cs (ags s) a A b B0 ND (fun E => Hne (eq_sym E)) EA EB0 Hc0 Hcb0). lia.
Qed.

(* a step that replaces agent [a] by one with the same counted status and mode *)
Lemma iw_replace s a A A1 S1 :
  IW s -> get (ags s) a = Some A -> cs a A1 = cs a A -> a_multi A1 = a_multi A ->
  writers S1 = writers (sh s) ->
  IW (mkstate S1 (put (ags s) a A1)).
Proof.
  intros [ND I] EA Hc Hm Hw. split; [apply keys_nodup_put; exact ND|]. cbn [ags sh].
  intros Small.
  assert (LN : lenN (put (ags s) a A1) = lenN (ags s)).
  { clear -EA. unfold lenN. f_equal. revert EA. generalize (ags s) as m.
    induction m as [|[k B] m IH]; intros G; [discriminate|].
    rewrite get_cons in G. rewrite put_cons. destruct (N.eqb a k); [reflexivity|].
    cbn [length]. f_equal. auto. }
  rewrite LN in Small. destruct (I Small) as [IWr IU].
  pose proof (cnt_put_in cs (ags s) a A A1 ND EA) as CNT. rewrite Hc in CNT.
  assert (CE : cnt cs (put (ags s) a A1) = cnt cs (ags s)) by lia.
  split; [now rewrite Hw, CE|].
  intros b B EB Hcb Hmb. rewrite CE. rewrite get_put in EB.
  destruct (N.eqb b a) eqn:E.
  - apply N.eqb_eq in E. subst. injection EB as <-. eapply IU; eauto; congruence.
  - eapply IU; eauto.
Qed.

Theorem iw_mreach c fut s : mreach c fut s -> IW s.
Proof.
  intros R. assert (G : WOK s /\ IW s); [|exact (proj2 G)].
  revert s R. apply mreach_inv.
  - intros s0 a A cl pc [WK I] EA Hpc Hal He _. split.
    + intros b B EB. unfold begin_call in EB. cbn [ags] in EB. rewrite get_put in EB.
      destruct (N.eqb b a); [injection EB as <-; apply (w_entry c); auto; eapply WK; eauto|eapply WK; eauto].
    + unfold begin_call. apply (iw_replace s0 a A _ _ I EA).
      * pose proof (WK _ _ EA) as Q. unfold w_ok in Q.
        apply andb_prop in Q as [Q _]. apply andb_prop in Q as [Q _].
        eapply cs_begin; eauto.
      * destruct A; reflexivity.
      * reflexivity.
  - intros s0 a A o [WK I] EA _ M NO. split.
    + destruct (micro_wok _ _ _ _ _ M (WK _ _ EA)) as [Q1 Q2].
      eapply (allq_apply1 w_ok); eauto; intros; apply w_notified.
    + eapply iw_micro; eauto.
  - intros s0 a A o [WK I] EA M.
    destruct (spur_shape _ _ _ _ M) as (N0 & Hr & Ha & Hm & Hs & Hc & Hp & Hw & _).
    destruct (spur_wok _ _ _ _ M (WK _ _ EA)) as [Q1 _].
    split.
    + eapply (allq_apply1 w_ok); eauto; try (intros; apply w_notified).
      intros a' A' X. rewrite N0 in X. discriminate.
    + unfold apply1. rewrite N0. cbn.
      assert (NT : o_ntf o = []).
      { clear -M. unfold micro_spur, ok in M. destruct (a_pc A); try discriminate M.
        - now injection M as <-.
        - destruct (r_am (a_r A)); [discriminate|].
          unfold use_obj, bad, drop_opt, drop_val in M. break_hyp M; now injection M as <-. }
      rewrite NT. change (notify_all [] (put (ags s0) a (o_a o))) with (put (ags s0) a (o_a o)).
      apply (iw_replace s0 a A _ _ I EA).
      * unfold cs. rewrite Hr, Ha, Hc.
        destruct Hp as [[-> ->]|[-> ->]]; reflexivity.
      * exact Hm.
      * exact Hw.
  - intros s0 [WK I]. split; [exact WK|]. destruct I as [ND I]. split; [exact ND|]. exact I.
  - split.
    + intros a A. apply w_init.
    + split; [apply init_keys|]. intros _. split.
      * destruct fut; reflexivity.
      * intros a A EA _ _. destruct fut; reflexivity.
Qed.

Theorem wok_reach c fut s : reach c fut s -> forall a A, get (ags s) a = Some A -> w_ok A = true.
Proof. intros R. apply (wok_mreach c fut). now apply reach_mreach. Qed.

Theorem iw_reach c fut s : reach c fut s -> IW s.
Proof. intros R. apply (iw_mreach c fut). now apply reach_mreach. Qed.
