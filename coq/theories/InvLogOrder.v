(* The claim log is append-only across steps: one total order of accepted values, fixed at claim time. *)
From Coq Require Import NArith List Bool Lia.
Require Import MQ.Arith64 MQ.Types MQ.State MQ.Model MQ.Exec MQ.Reach MQ.Fields.
Import ListNotations.
Open Scope N_scope.

Theorem log_append_only c s l s' :
  step c s l = Some s' -> exists tail, g_log (sh s') = g_log (sh s) ++ tail.
Proof.
  intros ST.
  assert (P0 : exists tail, g_log (sh s) = g_log (sh s) ++ tail) by (exists []; now rewrite app_nil_r).
  revert P0 ST. apply (step_pres c (fun x => exists tail, g_log (sh x) = g_log (sh s) ++ tail)).
  - intros s0 a A cl pc H _ _ _ _ _. exact H.
  - intros s0 a A o [t H] _ _ M _. cbn [apply1 sh].
    destruct (micro_head _ _ _ _ _ M) as [[_ E]|[_ [_ E]]]; rewrite E.
    + eauto.
    + exists (t ++ [r_v (a_r A)]). rewrite H. now rewrite app_assoc.
  - intros s0 a A o [t H] _ M. cbn [apply1 sh].
    destruct (spur_head _ _ _ _ M) as [_ E]. rewrite E. eauto.
  - intros s0 H. exact H.
Qed.
