(* The window invariant (C03): definitions.  Global part: the tail cache is a lower bound of
   every registered cursor, the head counter is at most one ring ahead of the tail cache, no
   cursor is ahead of the head counter, a written slot tag is a claimed position.  Per-agent part:
   what a sender knows at each step of try_send, what a receiver knows once it has seen the tag
   of its position. *)
From Coq Require Import NArith List Bool Lia.
Require Import MQ.Arith64 MQ.Arith64Facts MQ.Types MQ.State MQ.Model MQ.Exec MQ.Reach MQ.Ctl MQ.RecvDefs MQ.InvReg MQ.WinStep.
Import ListNotations.
Open Scope N_scope.

Section Win.
Variable c : cfg.
Notation N := (c_n c).

Record WinG (S : shared) : Prop := {
  w_tail_le_cursor : forall sg, In sg (streams S) -> tailc S <= gpos S sg;
  w_head_le_tail_n : head S <= tailc S + N;
  w_tail_le_head : tailc S <= head S;
  w_cursor_le_head : forall sg, In sg (streams S) -> gpos S sg <= head S;
  w_tag_claimed : forall i, gtag S i = INITIAL_QUEUE_FLAG \/ gtag S i < head S;
  w_head_small : head S < B62;
  w_pos_fresh : forall g, nsid S <= g -> gpos S g = 0
}.

Definition A0 (S : shared) (R : regs) : Prop := r_h R <= head S.
Definition Hb (S : shared) (R : regs) : Prop := r_h R <= tailc S + N.
Definition ScanCtx (S : shared) (R : regs) : Prop := r_h R = r_tc R + N /\ r_tc R <= tailc S.
Definition CondProg (S : shared) (R : regs) : Prop :=
  r_g R <= cur S /\ r_g R < ngid S /\
  (cur S = r_g R ->
     exists pre, ggroup S (r_g R) = pre ++ r_gl R /\ r_md R <= N /\
       (r_none R = false -> forall sg, In sg pre -> r_h R <= gpos S sg + r_md R)).
Definition Post (S : shared) (R : regs) : Prop :=
  r_none R = false -> r_md R <= N /\ forall sg, In sg (streams S) -> r_h R <= gpos S sg + r_md R.
Definition FT (S : shared) (R : regs) : Prop := r_nt R <= tailc S /\ r_h R <= r_nt R + N.
Definition PASS (S : shared) (R : regs) : Prop := r_h R < tailc S + N.

(* what a sender knows, by program counter; [uni] = it runs the single-writer path *)
Definition sa (A : agent) (S : shared) : Prop :=
  let R := a_r A in
  match a_pc A with
  | P2 => A0 S R /\ Hb S R
  | M2 => A0 S R /\ Hb S R
  | G1 => A0 S R /\ Hb S R /\ ScanCtx S R
  | G2 => A0 S R /\ Hb S R /\ ScanCtx S R /\ CondProg S R
  | G3 => A0 S R /\ Hb S R /\ ScanCtx S R /\ CondProg S R /\ (r_none R = false -> r_gl R = [])
  | P3pre | M3pre => A0 S R /\ Hb S R /\ ScanCtx S R /\ Post S R
  | P3 | M3 => A0 S R /\ Hb S R /\ ScanCtx S R /\ Post S R /\ r_none R = false /\ r_nt R = r_h R - r_md R
  | M3b => A0 S R /\ Hb S R
  | M3post => A0 S R /\ FT S R
  | P4pre | P4 | P5 | M4pre | M4 | M5 => A0 S R /\ PASS S R
  | P6 | P7 => r_h R < head S
  | _ => True
  end.

(* the single-writer path keeps the tail cache value it read: nobody else writes the cache *)
Definition ua (A : agent) (S : shared) : Prop :=
  match a_pc A with
  | P3pre | P3 => r_tc (a_r A) = tailc S
  | G1 | G2 | G3 => match a_stack A with P3pre :: _ => r_tc (a_r A) = tailc S | _ => True end
  | _ => True
  end.

(* what a receiver knows: its attempt position is not ahead of the head counter, and once it has
   seen the tag of that position the position is claimed *)
Definition att_pc (pc : pcl) : bool :=
  match pc with
  | R4 | R5 | R6 | R6b | R7 | R8 | R9 | R10 | KC | R11 | R12 | V1 | V5 | V6 | VK | V4 => true
  | _ => false
  end.

Definition ra (A : agent) (S : shared) : Prop :=
  (att_pc (a_pc A) = true -> r_p (a_r A) <= head S) /\
  (matched (a_pc A) = true -> r_p (a_r A) < head S).

(* list identifiers: the list being installed is newer than the list it replaces *)
Definition ga (A : agent) : Prop :=
  (a_pc A = A3 \/ a_pc A = D2) -> r_g (a_r A) < r_ng (a_r A).

End Win.

(* the known-finding class F11: the publishing compare-exchange of add_stream is about to succeed
   although the parent cursor has moved away from the value the new cursor was initialised with *)
Definition f11_bad (S : shared) (X : agent) : Prop :=
  a_pc X = A3 /\ cur S = r_g (a_r X) /\ gpos S (r_ns (a_r X)) <> gpos S (a_sid X).

Inductive mreachN (c : cfg) (fut : bool) : state -> Prop :=
| mrn_init : mreachN c fut (init fut)
| mrn_begin s a A cl pc :
    mreachN c fut s -> get (ags s) a = Some A -> a_pc A = Idle -> a_alive A = true ->
    entry c (a_role A) cl = Some pc -> fresh_target s a cl = true ->
    mreachN c fut (begin_call s a A cl pc)
| mrn_micro s a A o :
    mreachN c fut s -> get (ags s) a = Some A ->
    (is_local (a_pc A) = true \/ enabled a A (sh s) = true) ->
    micro c a A (sh s) = Some o -> new_ok s a o = true -> ~ f11_bad (sh s) A ->
    mreachN c fut (apply1 s a o)
| mrn_spur s a A o :
    mreachN c fut s -> get (ags s) a = Some A -> micro_spur c A (sh s) = Some o ->
    mreachN c fut (apply1 s a o)
| mrn_tick s : mreachN c fut s -> mreachN c fut (mkstate (tick (sh s)) (ags s)).

Lemma mreachN_mreach c fut s : mreachN c fut s -> mreach c fut s.
Proof.
  intros R. induction R.
  - constructor.
  - eapply mr_begin; eauto.
  - eapply mr_micro; eauto.
  - eapply mr_spur; eauto.
  - apply mr_tick; auto.
Qed.
