(* What cannot be the case once no operation is in flight (C06): the two transient causes of a refused send or
   an empty-handed receive - a position claimed but not yet published, a slot pinned by a reader - are absent
   whenever no agent is between claiming and publishing, resp. no agent holds a slot reference. *)
From Coq Require Import NArith List Bool Lia.
Require Import MQ.Arith64 MQ.Arith64Facts MQ.Types MQ.State MQ.Model MQ.Exec MQ.Reach MQ.Fields MQ.Ctl MQ.Count MQ.SumCount
  MQ.WritersStep MQ.InvWriters MQ.RecvDefs MQ.InvReg MQ.WinStep MQ.WinDefs MQ.InvWin MQ.SlotDefs MQ.InvSlot MQ.InvPub
  MQ.PinDefs MQ.InvPin.
Import ListNotations.
Open Scope N_scope.

Section Q.
Variable c : cfg.
Notation N := (c_n c).
Hypothesis Npos : 0 < N.
Hypothesis Nsmall : N <= B61.

(* every outstanding position of every registered stream is ready to be received *)
Theorem outstanding_ready fut s sg p :
  mreachN c fut s -> lenN (ags s) < B62 -> lenN (g_log (sh s)) < B62 ->
  (forall a A, get (ags s) a = Some A -> wip (a_pc A) = false) ->
  In sg (streams (sh s)) -> gpos (sh s) sg <= p -> p < head (sh s) ->
  gtag (sh s) (sl c p) = p /\ get (cells (sh s)) (sl c p) = logat (sh s) p /\ logat (sh s) p <> None.
Proof.
  intros RN S1 S2 CALM IN LO HI.
  assert (SM : SmallW s) by (split; assumption).
  destruct (win_mreachN c Npos Nsmall fut s RN SM) as (G & _).
  destruct (slot_mreachN c Npos Nsmall fut s RN SM) as (SG & _ & CO & _).
  destruct (pub_mreachN c Npos Nsmall fut s RN SM p HI) as [(a & A & EA & PW & _) | (T1 & T2)].
  { rewrite (CALM a A EA) in PW. discriminate PW. }
  pose proof (w_tail_le_cursor c _ G sg IN) as W1. pose proof (w_head_le_tail_n c _ G) as W2.
  assert (TH : gtag (sh s) (sl c p) < head (sh s)) by (destruct (w_tag_claimed c _ G (sl c p)) as [T | T]; [contradiction|exact T]).
  assert (TE : gtag (sh s) (sl c p) = p).
  { pose proof (sg_own c _ SG (sl c p) T1) as OWN. unfold sl in OWN. symmetry.
    apply (slot_window (tailc (sh s)) p _ N Npos); try lia. symmetry. exact OWN. }
  split; [exact TE|].
  assert (NOP7 : forall a A, get (ags s) a = Some A -> a_pc A = P7 -> sl c (r_h (a_r A)) <> sl c p).
  { intros a A EA P7A _. pose proof (CALM a A EA) as K. rewrite P7A in K. discriminate K. }
  destruct (CO (sl c p) T1 NOP7) as (C1 & C2). rewrite TE in C1. split; [symmetry; exact C1|].
  rewrite C1. exact C2.
Qed.

(* no slot is pinned *)
Theorem no_pins fut s i :
  mreachN c fut s -> lenN (ags s) < B62 -> lenN (g_log (sh s)) < B62 ->
  (forall a A, get (ags s) a = Some A -> holds A = false) ->
  gpin (sh s) i = 0.
Proof.
  intros RN S1 S2 CALM.
  destruct (pin_mreachN c Npos Nsmall fut s RN (conj S1 S2)) as (_ & PC & _).
  rewrite (PC i). apply sumf_zero.
  - intros a A EA. unfold hw. rewrite (CALM a A EA). rewrite andb_false_r. reflexivity.
  - exact (proj1 (iw_mreach c fut s (mreachN_mreach c fut s RN))).
Qed.
End Q.
