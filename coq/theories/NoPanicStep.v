(* Case analysis for "no call panics": the expect of the single-writer tail reload and the value of a commit. *)
From Coq Require Import NArith List Bool Lia.
Require Import MQ.Arith64 MQ.Arith64Facts MQ.Types MQ.State MQ.Model MQ.Exec MQ.Reach MQ.Ctl MQ.Count MQ.WritersStep MQ.HeadStep.
Import ListNotations.
Open Scope N_scope.

(* on the single-writer path the scan has not found a cursor ahead of the loaded head *)
Definition nnb (A : agent) : bool :=
  match a_pc A with
  | G2 | G3 => match a_stack A with P3pre :: _ => negb (r_none (a_r A)) | _ => true end
  | P3pre => negb (r_none (a_r A))
  | _ => true
  end.

Definition is_panic (r : res) : bool := match r with RPanic => true | _ => false end.

Ltac kill_past Hp :=
  match goal with
  | E : past ?h (gpos ?S ?g) = (_, true) |- _ =>
      let K := fresh "K" in pose proof (Hp eq_refl g) as K; rewrite E in K; discriminate K
  end.

Lemma micro_nn c me A S o :
  micro c me A S = Some o -> ctl_ok A = true -> nnb A = true ->
  (pp_pc (a_pc A) (a_stack A) = true -> forall g, snd (past (r_h (a_r A)) (gpos S g)) = false) ->
  nnb (o_a o) = true.
Proof.
  intros H Q. destruct A as [role alive multi sid tok pc stack R notified parked]. unfold nnb.
  destruct pc; micro_cases H; cbn [o_a o_s]; pre_case Q Q1 Q2 Q3; try split_frame Q1 Q2; cbn;
    intros NN Hp; first [ reflexivity | exact NN | kill_past Hp | idtac ].
  all: try (destruct (r_none R); first [reflexivity | discriminate NN]).
Qed.
