(* C13: every stream in the published list is held by somebody or is being removed by the handle that held it last;
   so when no receiver-side agent is left, the list is empty. *)
From Coq Require Import NArith List Bool Lia.
Require Import MQ.Arith64 MQ.Arith64Facts MQ.Types MQ.State MQ.Model MQ.Exec MQ.Reach MQ.Fields MQ.Ctl MQ.Count MQ.SumCount MQ.FreshStep
  MQ.WritersStep MQ.InvWriters MQ.HeadStep MQ.InvHead MQ.RecvDefs MQ.RecvStep MQ.KnownStep MQ.InvRecv MQ.SoleDefs MQ.InvSole
  MQ.PosStep MQ.AttStep MQ.InvPos MQ.GroupStep MQ.GroupStep2 MQ.GroupStep3 MQ.NewAgentStep MQ.InvGroups MQ.RegStep MQ.InvReg
  MQ.WinStep MQ.WinDefs MQ.WinStep2 MQ.WinTrans MQ.InvWin MQ.SlotDefs MQ.SlotStepA MQ.SlotStepB MQ.SlotStepC MQ.SlotStepD
  MQ.SlotStepE MQ.SlotStepF MQ.SlotStepG MQ.SlotStepJ MQ.InvSlot MQ.InvDeliv MQ.InvStart MQ.HoldStepA MQ.HoldStepB MQ.HoldStepC.
Import ListNotations.
Open Scope N_scope.

Section HD.
Variable c : cfg.
Notation N := (c_n c).
Hypothesis Npos : 0 < N.
Hypothesis Nsmall : N <= B61.

Definition held (s : state) (sg : BinNums.N) : Prop :=
  1 <= sumf (wt sg) (ags s) \/ exists a A, get (ags s) a = Some A /\ lastp sg A = true.

Definition HoldInv (s : state) : Prop := SmallW s -> forall sg, In sg (streams (sh s)) -> held s sg.

Lemma lastp_notified sg B : lastp sg (set_a_notified true B) = lastp sg B.
Proof. destruct B; reflexivity. Qed.

Lemma in_removeN_neq x y l : In x (removeN y l) -> x <> y.
Proof.
  induction l as [|z l IH]; [intros []|].
  change (removeN y (z :: l)) with (if N.eqb y z then removeN y l else z :: removeN y l).
  destruct (N.eqb y z) eqn:E; intros H; [auto|]. destruct H as [-> | H]; [|auto].
  apply N.eqb_neq in E. intros E0. apply E. symmetry. exact E0.
Qed.

Theorem hold_mreachN fut s : mreachN c fut s -> HoldInv s.
Proof.
  intros RN. induction RN as [|s0 a A cl pc RN IH EA Hpc Hal He FT0|s0 x X o RN IH EX EN M NO NF|s0 a A o RN IH EA M|s0 RN IH].
  - (* initial state: stream 0, held by handle 1 *)
    intros _ sg [<- | []]. left. destruct fut; vm_compute; intros X0; discriminate X0.
  - (* begin_call *)
    intros SM. unfold begin_call in *. destruct SM as [S1 S2]. cbn [ags sh] in *.
    rewrite (len_put_same _ _ _ _ EA) in S1.
    change (g_log (hist (HCall a cl (g_clock (sh s0))) (sh s0))) with (g_log (sh s0)) in S2.
    intros sg IN. change (streams (hist (HCall a cl (g_clock (sh s0))) (sh s0))) with (streams (sh s0)) in IN.
    pose proof (mreachN_mreach c fut s0 RN) as R.
    pose proof (ctl_mreach c fut s0 R a A EA) as QA.
    destruct (begin_agent c A cl pc QA Hpc Hal He) as (_ & _ & _ & _ & EW).
    destruct (recv_mreach c fut s0 R) as (ND & _).
    destruct (IH (conj S1 S2) sg IN) as [L | (w & W & EW0 & LW)].
    + left. cbn [ags].
      pose proof (sumf_put_in (wt sg) (ags s0) a A (at_pc pc (withr (set_r_res RNoRes (set_r_call cl (a_r A))) (set_a_notified false A))) ND EA) as SUM.
      rewrite (EW sg a) in SUM. lia.
    + right. exists w, W. split; [|exact LW]. cbn [ags]. rewrite get_put. destruct (N.eqb w a) eqn:E; [|exact EW0].
      apply N.eqb_eq in E. subst w. rewrite EA in EW0. injection EW0 as <-. exfalso.
      clear -QA Hpc LW. destruct A as [role alive multi sid tok pc0 stack R0 notified parked]. cbn in Hpc. subst pc0.
      unfold ctl_ok in QA. cbn in QA. destruct stack; [|cbn in QA; discriminate QA].
      unfold lastp, topc in LW. cbn in LW. rewrite andb_false_r in LW. discriminate LW.
  - (* micro-step *)
    intros SM' sg IN. change (sh (apply1 s0 x o)) with (o_s o) in *.
    pose proof (small_back c Npos Nsmall s0 x X o EX M SM') as SM.
    pose proof (mreachN_mreach c fut s0 RN) as R. destruct SM as [SMa SMl].
    pose proof (ctl_mreach c fut s0 R x X EX) as QX.
    destruct (recv_mreach c fut s0 R) as (ND & FR & UQ & CE). specialize (CE SMa).
    destruct (groups_mreach c fut s0 R) as (GC & GA).
    destruct (micro_groups _ _ _ _ _ M) as (NG & IM & CU).
    pose proof (apply1_sumf (wt sg) s0 x o X (fun k B => wt_notified sg k B true) ND EX NO) as SUM. fold (new_wt sg o) in SUM.
    assert (WITN : forall w W, w <> x -> get (ags s0) w = Some W -> lastp sg W = true -> held (apply1 s0 x o) sg).
    { intros w W NE EW LW. right. destruct (apply1_get_conv s0 x o w W EW NE NO) as (B & EB & [-> | ->]).
      - exists w, W. auto.
      - exists w, (set_a_notified true W). split; [exact EB|]. rewrite lastp_notified. exact LW. }
    assert (SELF : lastp sg (o_a o) = true -> held (apply1 s0 x o) sg).
    { intros LX. right. destruct (apply1_get_self s0 x o NO) as (B & EB & [-> | ->]).
      - exists x, (o_a o). auto.
      - exists x, (set_a_notified true (o_a o)). split; [exact EB|]. rewrite lastp_notified. exact LX. }
    (* the stream was registered before, or it is the one just published *)
    assert (OLD : In sg (streams (sh s0)) -> (a_pc X = D2 /\ cur (sh s0) = r_g (a_r X) /\ cur (o_s o) = r_ng (a_r X) -> sg <> a_sid X) ->
                  held (apply1 s0 x o) sg).
    { intros IN0 NREM. destruct (IH (conj SMa SMl) sg IN0) as [L | (w & W & EW & LW)].
      - destruct (micro_cons sg _ _ _ _ _ M QX (FR x X EX)) as [(_ & LS) | [(_ & LI & LN & _) | [(LC & LD & LN) | [(_ & _ & L1 & L0 & LN) | (_ & L0 & L1 & LN & WN & PA3)]]]].
        + left. lia.
        + left. lia.
        + (* a handle lets go *)
          destruct (N.le_gt_cases 2 (sumf (wt sg) (ags s0))) as [G2 | G1]; [left; lia|].
          assert (E1 : sumf (wt sg) (ags s0) = 1) by lia.
          destruct (CE sg) as [Z | EG]; [lia|]. rewrite E1 in EG.
          destruct (micro_consw sg _ _ _ _ _ M) as [ES | [EI | [(_ & EN1) | (PRD & ESID & _)]]].
          * exfalso. rewrite ES, EG in LC. unfold wsub, W in LC. cbn in LC. discriminate LC.
          * exfalso. rewrite EI, EG in LC. unfold wsub, wadd, W in LC. cbn in LC. discriminate LC.
          * exfalso. rewrite EN1, EG in LC. unfold wsub, W in LC. cbn in LC. discriminate LC.
          * apply SELF. rewrite <- ESID. apply (t_RD0l _ _ _ _ _ M PRD); [|rewrite ESID; exact EG].
            clear -QX PRD. destruct X as [role alive multi sid tok pc stack R0 notified parked]. cbn in PRD. subst pc.
            unfold ctl_ok in QX. cbn in QX. apply andb_prop in QX as [Q _]. apply andb_prop in Q as [Q1 _].
            destruct stack; [reflexivity|cbn in Q1; discriminate Q1].
        + left. lia.
        + (* the publishing step failed: the stream in flight was not registered *)
          exfalso. assert (ESG : r_ns (a_r X) = sg).
          { unfold w_n in WN. apply andb_prop in WN as [WN _]. apply N.eqb_eq in WN. exact WN. }
          destruct (start_mreachN c Npos Nsmall fut s0 RN (conj SMa SMl)) as [_ G2' G3' _ _].
          apply (G3' sg IN0). rewrite <- ESG. apply (G2' x X EX PA3).
      - destruct (N.eq_dec w x) as [-> | NE]; [|apply (WITN w W NE EW LW)].
        rewrite EX in EW. injection EW as <-.
        destruct (micro_lastp sg _ _ _ _ _ M QX LW) as [LX | REM]; [apply SELF; exact LX|].
        exfalso. apply (NREM REM). unfold lastp in LW. apply andb_prop in LW as [LW _]. apply andb_prop in LW as [LW _].
        apply N.eqb_eq in LW. symmetry. exact LW. }
    unfold streams in IN.
    destruct CU as [E | [(PC & EC & E) | (PC & EC & E)]].
    + unfold G_cur_same in E. rewrite E, (IM _ GC) in IN. apply OLD; [exact IN|]. intros (PD2 & EC1 & EC2).
      exfalso. destruct (GA x X EX) as (_ & _ & XR). destruct (XR PD2) as (L1 & _).
      destruct (win_mreachN c Npos Nsmall fut s0 RN (conj SMa SMl)) as (_ & IA). destruct (IA x X EX) as (_ & _ & _ & GAX).
      unfold ga in GAX. specialize (GAX (or_intror PD2)). rewrite E, EC1 in EC2. lia.
    + destruct (GA x X EX) as (_ & XA & _). destruct (XA PC) as (L1 & EL).
      rewrite E, (IM _ L1), EL, <- EC in IN. apply in_app_or in IN as [IN | [<- | []]].
      * apply OLD; [exact IN|]. intros (PD2 & _). congruence.
      * (* the new stream: its creator carries its weight *)
        left. destruct (apply1_get_self s0 x o NO) as (B & EB & HB).
        pose proof (sumf_get_le (wt (r_ns (a_r X))) _ x B EB) as LE.
        assert (WB : 1 <= wt (r_ns (a_r X)) x B).
        { assert (ST0 : a_stack X = []).
          { clear -QX PC. destruct X as [role alive multi sid tok pc stack R0 notified parked]. cbn in PC. subst pc.
            unfold ctl_ok in QX. cbn in QX. apply andb_prop in QX as [Q _]. apply andb_prop in Q as [Q1 _].
            destruct stack; [reflexivity|cbn in Q1; discriminate Q1]. }
          pose proof (t_A3w _ _ _ _ _ M PC ST0 EC) as WN.
          assert (WX : 1 <= wt (r_ns (a_r X)) x (o_a o)) by (unfold wt; rewrite WN; cbn; lia).
          destruct HB as [-> | ->]; [exact WX|rewrite wt_notified; exact WX]. }
        lia.
    + destruct (GA x X EX) as (_ & _ & XR). destruct (XR PC) as (L1 & EL).
      rewrite E, (IM _ L1), EL, <- EC in IN.
      apply OLD; [eapply in_removeN_in; eauto|]. intros _. apply (in_removeN_neq _ _ _ IN).
  - (* spurious failure *)
    intros SM' sg IN.
    pose proof (mreachN_mreach c fut s0 RN) as R.
    destruct (spur_shape _ _ _ _ M) as (N0 & Hr & Ha & Hm & Hs & Hc & SHP & _ & EH & EL).
    destruct (spur_groups _ _ _ _ M) as (E1 & _ & E3 & _ & _ & ENS & ELAST & _).
    assert (SM : SmallW s0).
    { destruct SM' as [S1 S2]. split; [pose proof (apply1_len s0 a o); lia|].
      change (sh (apply1 s0 a o)) with (o_s o) in S2. rewrite EL in S2. exact S2. }
    change (sh (apply1 s0 a o)) with (o_s o) in IN. unfold streams, ggroup in IN. rewrite E1, E3 in IN.
    destruct (recv_mreach c fut s0 R) as (ND & _).
    assert (NOK : new_ok s0 a o = true) by (unfold new_ok; rewrite N0; reflexivity).
    destruct (spur_slot _ _ _ _ M) as (_ & _ & _ & ESID & _).
    assert (EWT : wt sg a (o_a o) = wt sg a A).
    { unfold wt, w_h, w_c, w_n, topc. rewrite Hr, Ha, Hs, Hc, ESID, ENS.
      destruct SHP as [(P1 & P2) | (P1 & P2)]; rewrite P1, P2; destruct (a_stack A); reflexivity. }
    destruct (IH SM sg IN) as [L | (w & W & EW & LW)].
    + left. pose proof (apply1_sumf (wt sg) s0 a o A (fun k B => wt_notified sg k B true) ND EA NOK) as SUM. rewrite N0, EWT in SUM. lia.
    + right. assert (NE : w <> a).
      { intros ->. rewrite EA in EW. injection EW as <-. unfold lastp, topc in LW.
        pose proof (ctl_mreach c fut s0 R a A EA) as Q. clear -Q LW SHP.
        destruct A as [role alive multi sid tok pc stack R0 notified parked]. cbn in *.
        unfold ctl_ok in Q. cbn in Q. apply andb_prop in Q as [Q _]. apply andb_prop in Q as [Q1 Q2].
        apply andb_prop in LW as [_ LW].
        destruct SHP as [(P1 & _) | (P1 & _)]; subst pc; cbn in Q1;
          (destruct stack as [|k st]; [discriminate Q1|]); cbn in Q1; apply andb_prop in Q1 as [K Q1];
          destruct k; cbn in K; try discriminate K; cbn in Q1, LW;
          try (destruct st as [|k2 st]; cbn in Q1, LW; try discriminate Q1; try discriminate LW;
               try (apply andb_prop in Q1 as [K2 Q1]; destruct k2; cbn in K2; try discriminate K2; cbn in Q1, LW;
                    destruct st; cbn in Q1, LW; try discriminate Q1; try discriminate LW)). }
      destruct (apply1_get_conv s0 a o w W EW NE NOK) as (B & EB & [-> | ->]).
      * exists w, W. auto.
      * exists w, (set_a_notified true W). split; [exact EB|]. rewrite lastp_notified. exact LW.
  - intros SM sg IN. cbn [ags sh] in *. destruct SM as [S1 S2].
    change (g_log (tick (sh s0))) with (g_log (sh s0)) in S2.
    exact (IH (conj S1 S2) sg IN).
Qed.
End HD.
