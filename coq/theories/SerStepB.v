(* Case analysis for payload identities: the value register of a send holds an allocated serial number. *)
From Coq Require Import NArith List Bool Lia.
Require Import MQ.Arith64 MQ.Arith64Facts MQ.Types MQ.State MQ.Model MQ.Exec MQ.Reach MQ.Ctl MQ.Count MQ.WritersStep
  MQ.RecvDefs MQ.RecvStep MQ.SerDefs.
Import ListNotations.
Open Scope N_scope.

Lemma micro_sv c me A S o :
  micro c me A S = Some o -> ctl_ok A = true -> sv_active (o_a o) = true ->
  (sv_active A = true /\ r_v (a_r (o_a o)) = r_v (a_r A)) \/
  ((a_pc A = TSbegin \/ a_pc A = SSbegin) /\ r_v (a_r (o_a o)) = nser S /\ nser (o_s o) = nser S + 1).
Proof.
  intros H Q. destruct A as [role alive multi sid tok pc stack R notified parked]. unfold sv_active, topc.
  destruct pc; micro_cases H; cbn [o_a o_s]; pre_case Q Q1 Q2 Q3; try split_frame Q1 Q2; cbn;
    first [ solve [intros X; discriminate X]
          | solve [intros X; left; split; [exact X|reflexivity]]
          | solve [intros X; left; split; reflexivity]
          | solve [intros X; right; repeat split; auto]
          | idtac ].
Qed.
