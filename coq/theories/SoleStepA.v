(* Case analysis: per-agent mode facts of receivers (SoleDefs.ra_ok) are preserved. *)
From Coq Require Import NArith List Bool Lia.
Require Import MQ.Arith64 MQ.Arith64Facts MQ.Types MQ.State MQ.Model MQ.Exec MQ.Reach MQ.Ctl MQ.Count MQ.WritersStep MQ.RecvDefs MQ.SoleDefs.
Import ListNotations.
Open Scope N_scope.

Lemma micro_ra c me A S o :
  micro c me A S = Some o -> ctl_ok A = true -> ra_ok A = true ->
  ra_ok (o_a o) = true /\ (forall a' A', o_new o = Some (a', A') -> ra_ok A' = true).
Proof.
  intros H Q U. destruct A as [role alive multi sid tok pc stack R notified parked].
  unfold ra_ok, uni_ok, att_ok, topc in *. cbn in U.
  destruct pc; micro_cases H; cbn [o_a o_new];
    (split; [|let an := fresh "an" in let An := fresh "An" in let X := fresh "X" in
              intros an An X; try discriminate X; injection X as <- <-; cbn]);
    pre_case Q Q1 Q2 Q3;
    repeat (match goal with E : is_view_call _ = _ |- _ => unfold is_view_call in E; cbn in E end);
    try (match goal with E : false = true |- _ => discriminate E | E : true = false |- _ => discriminate E end);
    cbn in U |- *;
    try (match goal with E : r_am _ = _ |- _ => try rewrite E in U; try rewrite E end); cbn in U |- *;
    first [ reflexivity | exact U
          | try split_frame Q1 Q2; cbn in U |- *;
            first [ reflexivity | exact U
                  | split_call Q2; cbn in U |- *;
                    try (match goal with E : false = true |- _ => discriminate E | E : true = false |- _ => discriminate E end);
                    try (match goal with b : bool |- _ => is_var b; destruct b; cbn in U |- *; try discriminate U end);
                    first [ reflexivity | exact U | discriminate U
                          | destruct multi; cbn in U |- *; first [reflexivity | exact U | discriminate U]
                          | destruct (r_am R), multi; cbn in U |- *; first [reflexivity | exact U | discriminate U] ] ] ].
Qed.
