(* Case analysis: a handle created by a step starts idle. *)
From Coq Require Import NArith List Bool Lia.
Require Import MQ.Arith64 MQ.Types MQ.State MQ.Model MQ.Exec MQ.Reach.
Import ListNotations.
Open Scope N_scope.

Lemma micro_new_idle c me A S o a' A' :
  micro c me A S = Some o -> o_new o = Some (a', A') ->
  a_pc A' = Idle /\ a_stack A' = [] /\ a_alive A' = true /\ a_r A' = empty_regs.
Proof.
  intros H. destruct A as [role alive multi sid tok pc stack R notified parked].
  destruct pc; micro_cases H; cbn [o_new]; intros X; try discriminate X;
    injection X as <- <-; repeat split; reflexivity.
Qed.
