(* A model of Rust's auto-trait resolution (Send / Sync) over the small type grammar that the
   handle types of the crate use.  The crate-specific input (struct declarations and explicit
   impl headers) is generated from the source by tools/traitscan.py into Gen/Handles.v. *)
From Coq Require Import String List Bool.
Import ListNotations.
Open Scope string_scope.

Inductive tr := TSend | TSync.

Inductive ty :=
| TParam (n : string)
| TRaw (t : ty)                       (* *const T / *mut T : neither Send nor Sync *)
| TRef (t : ty)                       (* &T : Send iff T: Sync, Sync iff T: Sync *)
| TDyn (send sync : bool)             (* dyn Trait (+ Send) (+ Sync) *)
| TApp (name : string) (args : list ty).

Record sdecl := mksdecl { s_name : string; s_params : list string; s_fields : list ty }.
Record idecl := mkidecl { i_tr : tr; i_name : string; i_args : list ty; i_bounds : list (string * tr) }.

Definition tr_eqb (a b : tr) : bool := match a, b with TSend, TSend | TSync, TSync => true | _, _ => false end.

(* what is known about a type parameter *)
Definition env := list (string * (bool * bool)).   (* name -> (is Send, is Sync) *)

Fixpoint lookup {A} (n : string) (l : list (string * A)) : option A :=
  match l with [] => None | (m, v) :: l' => if String.eqb n m then Some v else lookup n l' end.

Fixpoint find_struct (n : string) (l : list sdecl) : option sdecl :=
  match l with [] => None | d :: l' => if String.eqb n (s_name d) then Some d else find_struct n l' end.

Definition impls_of (t : tr) (n : string) (l : list idecl) : list idecl :=
  filter (fun i => tr_eqb t (i_tr i) && String.eqb n (i_name i)) l.

Fixpoint zip {A B} (a : list A) (b : list B) : list (A * B) :=
  match a, b with x :: a', y :: b' => (x, y) :: zip a' b' | _, _ => [] end.

(* the std / library types that occur in the crate; everything else must be a declared struct *)
Definition prim (n : string) : bool :=
  existsb (String.eqb n)
    ["usize"; "isize"; "u8"; "u32"; "u64"; "bool"; "AtomicUsize"; "AtomicPtr"; "Array"; "Tuple"; "FnPtr";
     "Task"; "Condvar"; "Ordering"; "str"; "String"].

Section Solve.
Variable structs : list sdecl.
Variable impls : list idecl.

(* substitution environment for a struct instance: parameter -> (Send?, Sync?) computed for the argument *)
Fixpoint holds (fuel : nat) (e : env) (t : tr) (x : ty) {struct fuel} : bool :=
  match fuel with
  | O => false
  | S f =>
    let both a := holds f e TSend a && holds f e TSync a in
    match x with
    | TParam n => match lookup n e with
                  | Some (s, y) => match t with TSend => s | TSync => y end
                  | None => false
                  end
    | TRaw _ => false
    | TRef a => holds f e TSync a
    | TDyn s y => match t with TSend => s | TSync => y end
    | TApp name args =>
      if prim name then forallb (holds f e t) args
      else if String.eqb name "Arc" then forallb both args
      else if String.eqb name "Cell" then match t with TSend => forallb (holds f e TSend) args | TSync => false end
      else if String.eqb name "Mutex" then forallb (holds f e TSend) args   (* Send iff T: Send; Sync iff T: Send *)
      else if String.eqb name "PhantomData" || String.eqb name "Vec" || String.eqb name "VecDeque"
              || String.eqb name "Option" || String.eqb name "Box"
           then forallb (holds f e t) args
      else
        match find_struct name structs with
        | None => false
        | Some d =>
          (* what the instance knows about its own parameters *)
          let e' := map (fun pa => (fst pa, (holds f e TSend (snd pa), holds f e TSync (snd pa))))
                        (zip (s_params d) args) in
          match impls_of t name impls with
          | [] => forallb (holds f e' t) (s_fields d)                      (* auto trait: all fields *)
          | is => existsb (fun i =>                                         (* explicit impls replace it *)
                    let ei := map (fun pa => (match fst pa with TParam n => n | _ => "" end,
                                              (holds f e TSend (snd pa), holds f e TSync (snd pa))))
                                  (zip (i_args i) args) in
                    forallb (fun b => match lookup (fst b) ei with
                                      | Some (s, y) => match snd b with TSend => s | TSync => y end
                                      | None => false
                                      end) (i_bounds i)) is
          end
        end
    end
  end.
End Solve.

(* ---- the 12 public handle types and their instantiations ---- *)
Inductive handle :=
| BroadcastSender | BroadcastReceiver | BroadcastUniReceiver
| BroadcastFutSender | BroadcastFutReceiver | BroadcastFutUniReceiver
| MPMCSender | MPMCReceiver | MPMCUniReceiver
| MPMCFutSender | MPMCFutReceiver | MPMCFutUniReceiver.

Definition all_handles : list handle :=
  [BroadcastSender; BroadcastReceiver; BroadcastUniReceiver; BroadcastFutSender; BroadcastFutReceiver;
   BroadcastFutUniReceiver; MPMCSender; MPMCReceiver; MPMCUniReceiver; MPMCFutSender; MPMCFutReceiver;
   MPMCFutUniReceiver].

Definition hname (h : handle) : string :=
  match h with
  | BroadcastSender => "BroadcastSender" | BroadcastReceiver => "BroadcastReceiver"
  | BroadcastUniReceiver => "BroadcastUniReceiver" | BroadcastFutSender => "BroadcastFutSender"
  | BroadcastFutReceiver => "BroadcastFutReceiver" | BroadcastFutUniReceiver => "BroadcastFutUniReceiver"
  | MPMCSender => "MPMCSender" | MPMCReceiver => "MPMCReceiver" | MPMCUniReceiver => "MPMCUniReceiver"
  | MPMCFutSender => "MPMCFutSender" | MPMCFutReceiver => "MPMCFutReceiver"
  | MPMCFutUniReceiver => "MPMCFutUniReceiver"
  end.

Definition is_broadcast (h : handle) : bool :=
  match h with
  | BroadcastSender | BroadcastReceiver | BroadcastUniReceiver | BroadcastFutSender
  | BroadcastFutReceiver | BroadcastFutUniReceiver => true
  | _ => false
  end.
Definition is_fut_uni (h : handle) : bool :=
  match h with BroadcastFutUniReceiver | MPMCFutUniReceiver => true | _ => false end.
(* the struct's own where-clauses: broadcast single-consumer receivers require T: Sync *)
Definition needs_sync_payload (h : handle) : bool :=
  match h with BroadcastUniReceiver | BroadcastFutUniReceiver => true | _ => false end.

(* payload class = (Send?, Sync?), closure class = (Send?, Sync?) *)
Definition inst (h : handle) : ty :=
  if is_fut_uni h then TApp (hname h) [TParam "R"; TParam "F"; TParam "T"]
  else TApp (hname h) [TParam "T"].

Definition envof (p f : bool * bool) : env := [("T", p); ("F", f); ("R", (true, true))].

Definition wf (h : handle) (p : bool * bool) : bool := implb (needs_sync_payload h) (snd p).

Definition expected_send (h : handle) (p f : bool * bool) : bool :=
  fst p && implb (is_broadcast h) (snd p) && implb (is_fut_uni h) (fst f).

Definition bools : list bool := [true; false].
Definition classes : list (bool * bool) := list_prod bools bools.
Definition domain : list (handle * (bool * bool) * (bool * bool)) :=
  list_prod (list_prod all_handles classes) classes.

Definition FUELT : nat := 40.
