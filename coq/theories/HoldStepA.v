(* Case analysis for C13: which steps change a consumer count. *)
From Coq Require Import NArith List Bool Lia.
Require Import MQ.Arith64 MQ.Arith64Facts MQ.Types MQ.State MQ.Model MQ.Exec MQ.Reach MQ.Ctl MQ.Count MQ.WritersStep
  MQ.RecvDefs MQ.RecvStep.
Import ListNotations.
Open Scope N_scope.

Lemma micro_consw sg c me A S o :
  micro c me A S = Some o ->
  gcons (o_s o) sg = gcons S sg \/ gcons (o_s o) sg = wadd (gcons S sg) 1 \/
  (sg = nsid S /\ gcons (o_s o) sg = 1) \/
  (a_pc A = RD0 /\ a_sid A = sg /\ gcons (o_s o) sg = wsub (gcons S sg) 1).
Proof.
  intros H. destruct A as [role alive multi sid tok pc stack R notified parked]. unfold gcons.
  destruct pc; micro_cases H; cbn [o_s]; cbn; rewrite ?getd_put;
    first [ solve [left; reflexivity]
          | eqb_split; eqb_hyps; subst;
            first [ solve [left; reflexivity] | solve [right; left; reflexivity]
                  | solve [right; right; left; split; reflexivity]
                  | solve [right; right; right; repeat split; reflexivity] ] ].
Qed.
