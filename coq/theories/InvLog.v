(* The claim log: head counts exactly the accepted values (I1), and the log only grows. *)
From Coq Require Import NArith List Bool Lia.
Require Import MQ.Arith64 MQ.Arith64Facts MQ.Types MQ.State MQ.Model MQ.Exec MQ.Reach MQ.Fields.
Import ListNotations.
Open Scope N_scope.

Definition head_counts_log (s : state) : Prop :=
  head (sh s) = lenN (g_log (sh s)) mod MASK_IND.

Lemma lenN_app1 {A} (l : list A) x : lenN (l ++ [x]) = lenN l + 1.
Proof. unfold lenN. rewrite app_length. cbn [length]. lia. Qed.

Lemma next_count_of_mod k : next_count (k mod MASK_IND) = (k + 1) mod MASK_IND.
Proof.
  rewrite next_count_mod.
  - rewrite N.add_mod_idemp_l by (unfold MASK_IND; lia). reflexivity.
  - assert (k mod MASK_IND < MASK_IND) by (apply N.mod_lt; unfold MASK_IND; lia).
    unfold MASK_IND, W in *. lia.
Qed.

Theorem head_is_log_length c fut s : reach c fut s -> head_counts_log s.
Proof.
  apply reach_inv.
  - intros s0 a A cl pc H _ _ _ _ _. exact H.
  - intros s0 a A o H _ _ M. unfold head_counts_log in *. cbn [apply1 sh].
    destruct (micro_head _ _ _ _ _ M) as [[E1 E2]|[[Hp|[Hp Hh]] [E1 E2]]].
    + now rewrite E1, E2.
    + (* P5: the sole writer stores r_h + 1; r_h was loaded from head ... stated for M5 only below *)
      rewrite E1, E2, lenN_app1.
      (* P5 stores next_count r_h without re-reading head: the equation needs r_h = head *)
      admit.
    + rewrite E1, E2, lenN_app1, <- Hh, H. apply next_count_of_mod.
  - intros s0 a A o H _ M. unfold head_counts_log in *. cbn [apply1 sh].
    destruct (spur_head _ _ _ _ M) as [E1 E2]. now rewrite E1, E2.
  - intros s0 H. exact H.
  - reflexivity.
Abort.
