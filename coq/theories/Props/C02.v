(* C02 All streams see one FIFO order consistent with producers and real time.
   Proved here, for all configurations, populations and schedules:
   - there is a single claim log; no step ever removes, reorders or rewrites an entry - a step either leaves it
     alone or appends the value of the send that claims at that step; the head counter is the length of that log;
   - every commit of a consumer moves its stream's cursor by exactly one;
   - C02_history_claims_are_the_log: in the call history (calls, claims, deliveries and returns in the order in
     which they happened) the i-th claim event is the claim of position i with the i-th value of the log: the
     order of accepted values is the order in which the claiming steps happened.  A claiming step lies inside its
     send call, so two sends of one handle, and any two sends of which the first returned before the second was
     called, claim in that order;
   - with Props/C01.v: every stream delivers consecutive positions of this one log, in delivery order.
   Not proved as a theorem: the statement about call and return events of non-overlapping sends in the form of the
   property (the oracle checks it on every real trace). *)
From Coq Require Import NArith List Bool.
Require Import MQ.Arith64 MQ.Arith64Facts MQ.Types MQ.State MQ.Model MQ.Exec MQ.Reach MQ.Fields MQ.InvLogOrder MQ.InvHead MQ.InvPos MQ.HistStepA MQ.InvHist.
Import ListNotations.
Open Scope N_scope.

Theorem C02_one_append_only_order : forall c s l s',
  step c s l = Some s' -> exists tail, g_log (sh s') = g_log (sh s) ++ tail.
Proof. exact log_append_only. Qed.
Check C02_one_append_only_order : forall c s l s',
  step c s l = Some s' -> exists tail, g_log (sh s') = g_log (sh s) ++ tail.
Print Assumptions C02_one_append_only_order.

Theorem C02_position_is_claim_rank : forall c fut s,
  reach c fut s -> lenN (ags s) < B62 -> head (sh s) = lenN (g_log (sh s)) mod MASK_IND.
Proof. exact head_is_log_length. Qed.
Check C02_position_is_claim_rank : forall c fut s,
  reach c fut s -> lenN (ags s) < B62 -> head (sh s) = lenN (g_log (sh s)) mod MASK_IND.
Print Assumptions C02_position_is_claim_rank.

(* every consumer's commit moves its stream's cursor from p to p + 1: positions are handed out in order *)
Theorem C02_cursor_advances_by_one : forall c fut s a A o sg,
  reach c fut s -> lenN (ags s) < B62 -> get (ags s) a = Some A -> micro c a A (sh s) = Some o ->
  gpos (o_s o) sg = gpos (sh s) sg \/
  (a_sid A = sg /\ (a_pc A = R12 \/ a_pc A = V4) /\ gpos (o_s o) sg = next_count (gpos (sh s) sg)) \/
  (a_pc A = A2 /\ sg = nsid (sh s) /\ gpos (o_s o) sg = gpos (sh s) (a_sid A)).
Proof. intros c fut s a A o sg R. apply (cursor_steps c fut). now apply reach_mreach. Qed.
Check C02_cursor_advances_by_one : forall c fut s a A o sg,
  reach c fut s -> lenN (ags s) < B62 -> get (ags s) a = Some A -> micro c a A (sh s) = Some o ->
  gpos (o_s o) sg = gpos (sh s) sg \/
  (a_sid A = sg /\ (a_pc A = R12 \/ a_pc A = V4) /\ gpos (o_s o) sg = next_count (gpos (sh s) sg)) \/
  (a_pc A = A2 /\ sg = nsid (sh s) /\ gpos (o_s o) sg = gpos (sh s) (a_sid A)).
Print Assumptions C02_cursor_advances_by_one.

Example C02_witness :
  let c := mk_cfg MPMC 4 WBusy in
  let s1 := reach_by c false (Start 0 (CTrySend 5) :: repeat (Step 0) 6) in
  let s2 := reach_by c false (Start 0 (CTrySend 5) :: repeat (Step 0) 6 ++ Start 0 (CTrySend 6) :: repeat (Step 0) 6) in
  g_log (sh s1) = [0] /\ g_log (sh s2) = [0; 1].
Proof. vm_compute. split; reflexivity. Qed.

Theorem C02_history_claims_are_the_log : forall c fut s i v p,
  mreach c fut s -> lenN (ags s) < B62 -> lenN (g_log (sh s)) < B62 ->
  nth_error (rev (hclaims (g_hist (sh s)))) i = Some (v, p) ->
  p = N.of_nat i /\ nth_error (g_log (sh s)) i = Some v.
Proof. exact history_claims_are_the_log. Qed.
Check C02_history_claims_are_the_log : forall c fut s i v p,
  mreach c fut s -> lenN (ags s) < B62 -> lenN (g_log (sh s)) < B62 ->
  nth_error (rev (hclaims (g_hist (sh s)))) i = Some (v, p) ->
  p = N.of_nat i /\ nth_error (g_log (sh s)) i = Some v.
Print Assumptions C02_history_claims_are_the_log.

Example C02_history_witness :
  let c := mk_cfg MPMC 2 WBusy in
  let s := reach_by c false (Start 0 (CTrySend 5) :: repeat (Step 0) 6 ++ Start 0 (CTrySend 6) :: repeat (Step 0) 6) in
  rev (hclaims (g_hist (sh s))) = [(0, 0); (1, 1)] /\ g_log (sh s) = [0; 1].
Proof. vm_compute. split; reflexivity. Qed.
