(* C02 All streams see one FIFO order consistent with producers and real time.
   Proved here: there is a single claim log; no step ever removes, reorders or rewrites an entry - a step either
   leaves it alone or appends the value of the send that claims at that step (for all configurations, populations
   and schedules); the head counter is the length of that log.  Hence the order of accepted values is fixed at the
   claiming steps, which lie inside the calls (program order and real-time order of non-overlapping sends follow
   from the order of the steps).  Not proved: that every stream delivers along this log (see C01). *)
From Coq Require Import NArith List Bool.
Require Import MQ.Arith64 MQ.Arith64Facts MQ.Types MQ.State MQ.Model MQ.Exec MQ.Reach MQ.Fields MQ.InvLogOrder MQ.InvHead MQ.InvPos.
Import ListNotations.
Open Scope N_scope.

Theorem C02_one_append_only_order : forall c s l s',
  step c s l = Some s' -> exists tail, g_log (sh s') = g_log (sh s) ++ tail.
Proof. exact log_append_only. Qed.
Check C02_one_append_only_order : forall c s l s',
  step c s l = Some s' -> exists tail, g_log (sh s') = g_log (sh s) ++ tail.
Print Assumptions C02_one_append_only_order.

Theorem C02_position_is_claim_rank : forall c fut s,
  reach c fut s -> lenN (ags s) < B62 -> head (sh s) = lenN (g_log (sh s)) mod MASK_IND.
Proof. exact head_is_log_length. Qed.
Check C02_position_is_claim_rank : forall c fut s,
  reach c fut s -> lenN (ags s) < B62 -> head (sh s) = lenN (g_log (sh s)) mod MASK_IND.
Print Assumptions C02_position_is_claim_rank.

(* every consumer's commit moves its stream's cursor from p to p + 1: positions are handed out in order *)
Theorem C02_cursor_advances_by_one : forall c fut s a A o sg,
  reach c fut s -> lenN (ags s) < B62 -> get (ags s) a = Some A -> micro c a A (sh s) = Some o ->
  gpos (o_s o) sg = gpos (sh s) sg \/
  (a_sid A = sg /\ (a_pc A = R12 \/ a_pc A = V4) /\ gpos (o_s o) sg = next_count (gpos (sh s) sg)) \/
  (a_pc A = A2 /\ sg = nsid (sh s) /\ gpos (o_s o) sg = gpos (sh s) (a_sid A)).
Proof. intros c fut s a A o sg R. apply (cursor_steps c fut). now apply reach_mreach. Qed.
Check C02_cursor_advances_by_one : forall c fut s a A o sg,
  reach c fut s -> lenN (ags s) < B62 -> get (ags s) a = Some A -> micro c a A (sh s) = Some o ->
  gpos (o_s o) sg = gpos (sh s) sg \/
  (a_sid A = sg /\ (a_pc A = R12 \/ a_pc A = V4) /\ gpos (o_s o) sg = next_count (gpos (sh s) sg)) \/
  (a_pc A = A2 /\ sg = nsid (sh s) /\ gpos (o_s o) sg = gpos (sh s) (a_sid A)).
Print Assumptions C02_cursor_advances_by_one.

Example C02_witness :
  let c := mk_cfg MPMC 4 WBusy in
  let s1 := reach_by c false (Start 0 (CTrySend 5) :: repeat (Step 0) 6) in
  let s2 := reach_by c false (Start 0 (CTrySend 5) :: repeat (Step 0) 6 ++ Start 0 (CTrySend 6) :: repeat (Step 0) 6) in
  g_log (sh s1) = [0] /\ g_log (sh s2) = [0; 1].
Proof. vm_compute. split; reflexivity. Qed.
