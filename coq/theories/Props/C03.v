(* C03 Capacity bound: never more than N unconsumed values, never an overwrite.
   Proved here: the capacity N the queue uses is the requested capacity rounded up to a power of two, minimum 1
   (the arithmetic of countedindex.rs get_valid_wrap, all requests below 2^62-1), and the exact meaning of the
   producers' "ring is full" test and of the scan arithmetic under the no-wrap bound.  The window invariant
   itself is in the files named in the MANIFEST entry. *)
From Coq Require Import NArith List Bool.
Require Import MQ.Arith64 MQ.Arith64Facts MQ.Types MQ.State MQ.Model MQ.Exec MQ.Reach.
Open Scope N_scope.

Theorem C03_capacity : forall v, v < MAX_WRAP ->
  let n := get_valid_wrap v in
  (exists k, n = 2 ^ k) /\ 1 <= n /\ v <= n /\ (forall k, v <= 2 ^ k -> n <= 2 ^ k).
Proof. exact get_valid_wrap_spec. Qed.
Check C03_capacity : forall v, v < MAX_WRAP ->
  let n := get_valid_wrap v in
  (exists k, n = 2 ^ k) /\ 1 <= n /\ v <= n /\ (forall k, v <= 2 ^ k -> n <= 2 ^ k).
Print Assumptions C03_capacity.

Theorem C03_full_test_exact : forall h n tc,
  h < B62 -> tc < B62 -> 0 < n -> n <= B61 ->
  matches_previous h n tc = true <-> h = tc + n.
Proof. exact matches_previous_spec. Qed.
Check C03_full_test_exact : forall h n tc,
  h < B62 -> tc < B62 -> 0 < n -> n <= B61 ->
  matches_previous h n tc = true <-> h = tc + n.
Print Assumptions C03_full_test_exact.

Theorem C03_scan_distance : forall check seq, check < B62 -> seq < B62 ->
  past check seq = (if seq <=? check then (check - seq, false) else (check + W - seq, true)).
Proof. exact past_spec. Qed.
Check C03_scan_distance : forall check seq, check < B62 -> seq < B62 ->
  past check seq = (if seq <=? check then (check - seq, false) else (check + W - seq, true)).
Print Assumptions C03_scan_distance.

Example C03_capacity_values :
  List.map get_valid_wrap (0 :: 1 :: 2 :: 3 :: 4 :: 5 :: 8 :: 9 :: nil) = (1 :: 1 :: 2 :: 4 :: 4 :: 8 :: 8 :: 16 :: nil).
Proof. vm_compute. reflexivity. Qed.
