(* C03 Capacity bound: never more than N unconsumed values, never an overwrite.
   Proved here: the capacity N the queue uses is the requested capacity rounded up to a power of two, minimum 1
   (the arithmetic of countedindex.rs get_valid_wrap, all requests below 2^62-1), and the exact meaning of the
   producers' "ring is full" test and of the scan arithmetic under the no-wrap bound; and the window invariant
   itself (C03_window, C03_no_overwrite below): in every state of every execution - any population of
   handles, any interleaving of micro-steps, including states in the middle of calls - no registered stream's
   cursor is ahead of the head counter and the head counter is at most N ahead of any registered cursor, so at
   most N claimed values are unconsumed on any stream and the slot of an unconsumed value is never claimed again.
   The executions covered are those of [mreachN]: all micro-steps except a publishing compare-exchange of
   add_stream that succeeds although the parent cursor has moved since the new cursor was initialised from it -
   that step is known finding F11 (it does break the window: see known_findings.json and the replay there), and
   it is excluded by the predicate [f11_bad], which names exactly that step. *)
From Coq Require Import NArith List Bool Lia.
Require Import MQ.Arith64 MQ.Arith64Facts MQ.Types MQ.State MQ.Model MQ.Exec MQ.Reach MQ.RecvDefs MQ.InvReg MQ.WinStep MQ.WinDefs MQ.InvWin MQ.WinRun.
Import ListNotations.
Open Scope N_scope.

Theorem C03_capacity : forall v, v < MAX_WRAP ->
  let n := get_valid_wrap v in
  (exists k, n = 2 ^ k) /\ 1 <= n /\ v <= n /\ (forall k, v <= 2 ^ k -> n <= 2 ^ k).
Proof. exact get_valid_wrap_spec. Qed.
Check C03_capacity : forall v, v < MAX_WRAP ->
  let n := get_valid_wrap v in
  (exists k, n = 2 ^ k) /\ 1 <= n /\ v <= n /\ (forall k, v <= 2 ^ k -> n <= 2 ^ k).
Print Assumptions C03_capacity.

Theorem C03_full_test_exact : forall h n tc,
  h < B62 -> tc < B62 -> 0 < n -> n <= B61 ->
  matches_previous h n tc = true <-> h = tc + n.
Proof. exact matches_previous_spec. Qed.
Check C03_full_test_exact : forall h n tc,
  h < B62 -> tc < B62 -> 0 < n -> n <= B61 ->
  matches_previous h n tc = true <-> h = tc + n.
Print Assumptions C03_full_test_exact.

Theorem C03_scan_distance : forall check seq, check < B62 -> seq < B62 ->
  past check seq = (if seq <=? check then (check - seq, false) else (check + W - seq, true)).
Proof. exact past_spec. Qed.
Check C03_scan_distance : forall check seq, check < B62 -> seq < B62 ->
  past check seq = (if seq <=? check then (check - seq, false) else (check + W - seq, true)).
Print Assumptions C03_scan_distance.

Example C03_capacity_values :
  List.map get_valid_wrap (0 :: 1 :: 2 :: 3 :: 4 :: 5 :: 8 :: 9 :: nil) = (1 :: 1 :: 2 :: 4 :: 4 :: 8 :: 8 :: 16 :: nil).
Proof. vm_compute. reflexivity. Qed.

(* ---- the window invariant ---- *)
Theorem C03_window : forall c fut s,
  0 < c_n c -> c_n c <= B61 -> mreachN c fut s ->
  lenN (ags s) < B62 -> lenN (g_log (sh s)) < B62 ->
  forall sg, In sg (streams (sh s)) ->
    gpos (sh s) sg <= head (sh s) /\ head (sh s) <= gpos (sh s) sg + c_n c.
Proof.
  intros c fut s Np Ns R S1 S2 sg IN.
  destruct (win_mreachN c Np Ns fut s R (conj S1 S2)) as (G & _).
  pose proof (w_tail_le_cursor c _ G sg IN). pose proof (w_head_le_tail_n c _ G).
  pose proof (w_cursor_le_head c _ G sg IN). split; lia.
Qed.
Check C03_window : forall c fut s,
  0 < c_n c -> c_n c <= B61 -> mreachN c fut s ->
  lenN (ags s) < B62 -> lenN (g_log (sh s)) < B62 ->
  forall sg, In sg (streams (sh s)) ->
    gpos (sh s) sg <= head (sh s) /\ head (sh s) <= gpos (sh s) sg + c_n c.
Print Assumptions C03_window.

(* a sender that has passed the full test and is about to claim (P5: plain store, M5: compare-exchange)
   claims a position less than N ahead of every registered cursor: the slot it will write holds a value that
   every registered stream has consumed *)
Theorem C03_no_overwrite : forall c fut s a A,
  0 < c_n c -> c_n c <= B61 -> mreachN c fut s ->
  lenN (ags s) < B62 -> lenN (g_log (sh s)) < B62 ->
  get (ags s) a = Some A -> (a_pc A = P5 \/ a_pc A = M5) ->
  forall sg, In sg (streams (sh s)) -> r_h (a_r A) < gpos (sh s) sg + c_n c.
Proof.
  intros c fut s a A Np Ns R S1 S2 EA PC sg IN.
  destruct (win_mreachN c Np Ns fut s R (conj S1 S2)) as (G & IA).
  destruct (IA a A EA) as (SA & _). pose proof (w_tail_le_cursor c _ G sg IN) as T.
  unfold sa in SA. destruct PC as [PC | PC]; rewrite PC in SA; destruct SA as (_ & PS); unfold PASS in PS; lia.
Qed.
Check C03_no_overwrite : forall c fut s a A,
  0 < c_n c -> c_n c <= B61 -> mreachN c fut s ->
  lenN (ags s) < B62 -> lenN (g_log (sh s)) < B62 ->
  get (ags s) a = Some A -> (a_pc A = P5 \/ a_pc A = M5) ->
  forall sg, In sg (streams (sh s)) -> r_h (a_r A) < gpos (sh s) sg + c_n c.
Print Assumptions C03_no_overwrite.

(* a consumer that has matched the tag of its position reads a claimed position (never ahead of the head) *)
Theorem C03_reader_behind_head : forall c fut s a A,
  0 < c_n c -> c_n c <= B61 -> mreachN c fut s ->
  lenN (ags s) < B62 -> lenN (g_log (sh s)) < B62 ->
  get (ags s) a = Some A -> matched (a_pc A) = true -> r_p (a_r A) < head (sh s).
Proof.
  intros c fut s a A Np Ns R S1 S2 EA MT.
  destruct (win_mreachN c Np Ns fut s R (conj S1 S2)) as (_ & IA).
  destruct (IA a A EA) as (_ & _ & (_ & RA) & _). exact (RA MT).
Qed.
Check C03_reader_behind_head : forall c fut s a A,
  0 < c_n c -> c_n c <= B61 -> mreachN c fut s ->
  lenN (ags s) < B62 -> lenN (g_log (sh s)) < B62 ->
  get (ags s) a = Some A -> matched (a_pc A) = true -> r_p (a_r A) < head (sh s).
Print Assumptions C03_reader_behind_head.

(* the executions the theorems cover contain every reachable state up to the excluded step *)
Theorem C03_covered_executions : forall c fut s, mreachN c fut s -> mreach c fut s.
Proof. exact mreachN_mreach. Qed.
Check C03_covered_executions : forall c fut s, mreachN c fut s -> mreach c fut s.
Print Assumptions C03_covered_executions.

(* non-vacuity: a capacity-2 broadcast queue, a second stream, a cloned sender; the ring is exactly full
   (head = slowest cursor + N) in a state the theorems apply to *)
Example C03_window_witness :
  let c := mk_cfg BCast 2 WBusy in
  exists s, mreachN c false s /\ 0 < c_n c /\ c_n c <= B61 /\ lenN (ags s) < B62 /\ lenN (g_log (sh s)) < B62 /\
    streams (sh s) = [0; 1] /\ head (sh s) = 3 /\ gpos (sh s) 0 = 1 /\ gpos (sh s) 1 = 1 /\ c_n c = 2.
Proof.
  cbv zeta.
  destruct (m_run true (mk_cfg BCast 2 WBusy) (init false)
              [MCall 0 (CTrySend 5) 60; MCall 1 (CAddStream 2) 60; MCall 0 (CTrySend 6) 60; MCall 0 (CTrySend 7) 60;
               MCall 1 CTryRecv 60; MCall 0 (CTrySend 7) 60; MCall 2 CTryRecv 60; MCall 0 (CClone 3) 60;
               MCall 3 (CTrySend 8) 60]) as [s|] eqn:E; [|vm_compute in E; discriminate E].
  exists s. split; [eapply m_run_sound; [apply mrn_init|exact E]|].
  vm_compute in E. injection E as <-. vm_compute. repeat split; intros X; discriminate X.
Qed.

(* the exclusion is necessary: over the unrestricted reachability the window statement is false.  The
   state s below is covered by the theorems; one more micro-step of agent 1 - the publishing compare-exchange
   of its add_stream, which [f11_bad] names - registers stream 1 with cursor 0 while the head counter is 4 and
   N = 2.  This is known finding F11 (replayed on the real code by findings/F11_addstream_shared_parent.scn). *)
Example C03_window_refuted_without_exclusion :
  let c := mk_cfg BCast 2 WBusy in
  exists s A s', mreachN c false s /\ get (ags s) 1 = Some A /\ f11_bad (sh s) A /\
    m_step false c s 1 = Some s' /\ mreach c false s' /\
    In 1 (streams (sh s')) /\ head (sh s') = 4 /\ gpos (sh s') 1 = 0 /\ c_n c = 2 /\
    ~ (head (sh s') <= gpos (sh s') 1 + c_n c).
Proof.
  cbv zeta.
  set (pre := [MCall 1 (CClone 2) 60; MCall 0 (CTrySend 1) 60; MCall 0 (CTrySend 2) 60; MBegin 1 (CAddStream 3); MSteps 1 3;
               MCall 2 CTryRecv 60; MCall 2 CTryRecv 60; MCall 0 (CTrySend 3) 60; MCall 0 (CTrySend 4) 60]).
  destruct (m_run true (mk_cfg BCast 2 WBusy) (init false) pre) as [s|] eqn:E; [|vm_compute in E; discriminate E].
  assert (R : mreachN (mk_cfg BCast 2 WBusy) false s) by (eapply m_run_sound; [apply mrn_init|exact E]).
  destruct (get (ags s) 1) as [A|] eqn:EA; [|vm_compute in E; injection E as <-; vm_compute in EA; discriminate EA].
  destruct (m_step false (mk_cfg BCast 2 WBusy) s 1) as [s'|] eqn:ES;
    [|vm_compute in E; injection E as <-; vm_compute in ES; discriminate ES].
  exists s, A, s'. split; [exact R|]. split; [exact EA|].
  assert (R' : mreach (mk_cfg BCast 2 WBusy) false s')
    by (eapply m_step_mreach; [apply (mreachN_mreach _ _ _ R)|exact ES]).
  vm_compute in E. injection E as <-. vm_compute in EA. injection EA as <-. vm_compute in ES. injection ES as <-.
  split; [vm_compute; repeat split; intros X; discriminate X|].
  split; [reflexivity|]. split; [exact R'|].
  vm_compute. repeat split; auto; intros X; discriminate X.
Qed.
