(* C04 Consumers only observe complete, live values.
   Proved here, for all configurations, populations of handles and schedules over [mreachN] (every execution
   without the publishing step of known finding F11, fewer than 2^62 handles and claimed values):
   - C04_reader_starts_from_published_value: a consumer that has read a cell (it is between that read and its
     commit: cloning, viewing, or about to commit) and whose stream's cursor still is its attempt position holds
     exactly the value that the send which claimed that position put there - one send's whole value, written
     before that send published the slot's tag;
   - C04_matched_position_is_published: a consumer that has matched the tag of its position looks at a slot whose
     tag is not the never-written flag and is not older than its position, and its position is a claimed one;
   - C04_writer_does_not_touch_unconsumed: a send that has claimed a position and not yet published it (it is
     about to write the cell, or has just written it) claimed a position less than N ahead of, and not behind,
     every cursor: the cell it writes holds a value every stream has consumed, and no consumer's cursor is at or
     past the position it is writing.
   - C04_cell_unchanged_during_clone_or_view: while a consumer is in the middle of a clone (broadcast) or of a
     view closure, the cell it started from still holds exactly the value it started from - for a handle that
     shares its stream this rests on C04_reference_count_is_holders (the reference count of a slot is the number
     of consumers between their increment and their decrement on it) and C04_producer_meets_only_stale_holders (a
     producer that has passed the test of the count and not yet written only coexists with holders whose cursor
     re-check will fail); for a handle that acts as the only consumer it rests on the window invariant.
   Not proved: that the value has not been dropped (ownership ledger, C05) and that the payload's own Clone
   implementation behaves (it is opaque).  Those are decided by the correspondence (the model flags such accesses
   in g_bad) and the oracle. *)
From Coq Require Import NArith List Bool Lia.
Require Import MQ.Arith64 MQ.Arith64Facts MQ.Types MQ.State MQ.Model MQ.Exec MQ.Reach MQ.RecvDefs MQ.InvReg MQ.WinStep MQ.WinDefs
  MQ.InvWin MQ.WinRun MQ.SlotDefs MQ.InvSlot MQ.SumCount MQ.PinDefs MQ.InvPin.
Import ListNotations.
Open Scope N_scope.

Theorem C04_reader_starts_from_published_value : forall c fut s a A,
  0 < c_n c -> c_n c <= B61 -> mreachN c fut s ->
  lenN (ags s) < B62 -> lenN (g_log (sh s)) < B62 ->
  get (ags s) a = Some A -> rdphase (a_pc A) = true ->
  gpos (sh s) (a_sid A) = r_p (a_r A) ->
  r_p (a_r A) < head (sh s) /\ nth_error (g_log (sh s)) (N.to_nat (r_p (a_r A))) = valof c A.
Proof.
  intros c fut s a A Np Ns R S1 S2 EA RD EP.
  destruct (slot_mreachN c Np Ns fut s R (conj S1 S2)) as (_ & SA & _).
  destruct (win_mreachN c Np Ns fut s R (conj S1 S2)) as (_ & IA).
  destruct (SA a A EA) as (_ & _ & _ & FA & _). destruct (IA a A EA) as (_ & _ & (_ & RA) & _).
  split; [exact (RA (rd_matched _ RD))|]. destruct (FA RD) as (_ & FV). exact (FV EP).
Qed.
Check C04_reader_starts_from_published_value : forall c fut s a A,
  0 < c_n c -> c_n c <= B61 -> mreachN c fut s ->
  lenN (ags s) < B62 -> lenN (g_log (sh s)) < B62 ->
  get (ags s) a = Some A -> rdphase (a_pc A) = true ->
  gpos (sh s) (a_sid A) = r_p (a_r A) ->
  r_p (a_r A) < head (sh s) /\ nth_error (g_log (sh s)) (N.to_nat (r_p (a_r A))) = valof c A.
Print Assumptions C04_reader_starts_from_published_value.

Theorem C04_matched_position_is_published : forall c fut s a A,
  0 < c_n c -> c_n c <= B61 -> mreachN c fut s ->
  lenN (ags s) < B62 -> lenN (g_log (sh s)) < B62 ->
  get (ags s) a = Some A -> matched (a_pc A) = true ->
  r_p (a_r A) < head (sh s) /\
  gtag (sh s) (sl c (r_p (a_r A))) <> INITIAL_QUEUE_FLAG /\ r_p (a_r A) <= gtag (sh s) (sl c (r_p (a_r A))).
Proof.
  intros c fut s a A Np Ns R S1 S2 EA MT.
  destruct (slot_mreachN c Np Ns fut s R (conj S1 S2)) as (_ & SA & _).
  destruct (win_mreachN c Np Ns fut s R (conj S1 S2)) as (_ & IA).
  destruct (SA a A EA) as (_ & EA' & _). destruct (IA a A EA) as (_ & _ & (_ & RA) & _).
  split; [exact (RA MT)|exact (EA' MT)].
Qed.
Check C04_matched_position_is_published : forall c fut s a A,
  0 < c_n c -> c_n c <= B61 -> mreachN c fut s ->
  lenN (ags s) < B62 -> lenN (g_log (sh s)) < B62 ->
  get (ags s) a = Some A -> matched (a_pc A) = true ->
  r_p (a_r A) < head (sh s) /\
  gtag (sh s) (sl c (r_p (a_r A))) <> INITIAL_QUEUE_FLAG /\ r_p (a_r A) <= gtag (sh s) (sl c (r_p (a_r A))).
Print Assumptions C04_matched_position_is_published.

Theorem C04_writer_does_not_touch_unconsumed : forall c fut s a A,
  0 < c_n c -> c_n c <= B61 -> mreachN c fut s ->
  lenN (ags s) < B62 -> lenN (g_log (sh s)) < B62 ->
  get (ags s) a = Some A -> wip (a_pc A) = true ->
  nth_error (g_log (sh s)) (N.to_nat (r_h (a_r A))) = Some (r_v (a_r A)) /\
  (forall g, gpos (sh s) g <= r_h (a_r A)) /\
  (forall sg, In sg (streams (sh s)) -> r_h (a_r A) < gpos (sh s) sg + c_n c) /\
  (forall b B, b <> a -> get (ags s) b = Some B -> wip (a_pc B) = true -> sl c (r_h (a_r B)) <> sl c (r_h (a_r A))).
Proof.
  intros c fut s a A Np Ns R S1 S2 EA PW.
  destruct (slot_mreachN c Np Ns fut s R (conj S1 S2)) as (_ & SA & _ & DI).
  destruct (win_mreachN c Np Ns fut s R (conj S1 S2)) as (G & _).
  destruct (SA a A EA) as (WA & _). destruct (WA PW) as (_ & A1 & A2 & A3 & A4 & _).
  split; [exact A1|]. split; [exact A4|]. split.
  - intros sg IN. pose proof (w_tail_le_cursor c _ G sg IN). lia.
  - intros b B NE EB PB ESL. destruct (SA b B EB) as (WB & _).
    apply (DI b a B A NE EB EA PB PW). apply (wip_slots c Np B A (sh s) WB WA PB PW ESL).
Qed.
Check C04_writer_does_not_touch_unconsumed : forall c fut s a A,
  0 < c_n c -> c_n c <= B61 -> mreachN c fut s ->
  lenN (ags s) < B62 -> lenN (g_log (sh s)) < B62 ->
  get (ags s) a = Some A -> wip (a_pc A) = true ->
  nth_error (g_log (sh s)) (N.to_nat (r_h (a_r A))) = Some (r_v (a_r A)) /\
  (forall g, gpos (sh s) g <= r_h (a_r A)) /\
  (forall sg, In sg (streams (sh s)) -> r_h (a_r A) < gpos (sh s) sg + c_n c) /\
  (forall b B, b <> a -> get (ags s) b = Some B -> wip (a_pc B) = true -> sl c (r_h (a_r B)) <> sl c (r_h (a_r A))).
Print Assumptions C04_writer_does_not_touch_unconsumed.

Theorem C04_cell_unchanged_during_clone_or_view : forall c fut s b B,
  0 < c_n c -> c_n c <= B61 -> mreachN c fut s ->
  lenN (ags s) < B62 -> lenN (g_log (sh s)) < B62 ->
  get (ags s) b = Some B -> (a_pc B = KC \/ a_pc B = VK) ->
  get (cells (sh s)) (sl c (r_p (a_r B))) = Some (r_tmp (a_r B)).
Proof.
  intros c fut s b B Np Ns R S1 S2 EB PC.
  destruct (pin_mreachN c Np Ns fut s R (conj S1 S2)) as (_ & _ & _ & IT & _). exact (IT b B EB PC).
Qed.
Check C04_cell_unchanged_during_clone_or_view : forall c fut s b B,
  0 < c_n c -> c_n c <= B61 -> mreachN c fut s ->
  lenN (ags s) < B62 -> lenN (g_log (sh s)) < B62 ->
  get (ags s) b = Some B -> (a_pc B = KC \/ a_pc B = VK) ->
  get (cells (sh s)) (sl c (r_p (a_r B))) = Some (r_tmp (a_r B)).
Print Assumptions C04_cell_unchanged_during_clone_or_view.

Theorem C04_reference_count_is_holders : forall c fut s i,
  0 < c_n c -> c_n c <= B61 -> mreachN c fut s ->
  lenN (ags s) < B62 -> lenN (g_log (sh s)) < B62 ->
  gpin (sh s) i = sumf (hw c i) (ags s).
Proof.
  intros c fut s i Np Ns R S1 S2.
  destruct (pin_mreachN c Np Ns fut s R (conj S1 S2)) as (_ & PC & _). exact (PC i).
Qed.
Check C04_reference_count_is_holders : forall c fut s i,
  0 < c_n c -> c_n c <= B61 -> mreachN c fut s ->
  lenN (ags s) < B62 -> lenN (g_log (sh s)) < B62 ->
  gpin (sh s) i = sumf (hw c i) (ags s).
Print Assumptions C04_reference_count_is_holders.

Theorem C04_producer_meets_only_stale_holders : forall c fut s w W b B,
  0 < c_n c -> c_n c <= B61 -> mreachN c fut s ->
  lenN (ags s) < B62 -> lenN (g_log (sh s)) < B62 -> is_bcast c = true ->
  get (ags s) w = Some W -> zone W (sh s) -> get (ags s) b = Some B ->
  holds B = true -> sl c (r_p (a_r B)) = sl c (r_h (a_r W)) ->
  (a_pc B = R8 \/ a_pc B = R9) /\ r_p (a_r B) < gpos (sh s) (a_sid B).
Proof.
  intros c fut s w W b B Np Ns R S1 S2 BC EW ZW EB HB ESL.
  destruct (pin_mreachN c Np Ns fut s R (conj S1 S2)) as (_ & _ & ST & _). exact (ST BC w W b B EW ZW EB HB ESL).
Qed.
Check C04_producer_meets_only_stale_holders : forall c fut s w W b B,
  0 < c_n c -> c_n c <= B61 -> mreachN c fut s ->
  lenN (ags s) < B62 -> lenN (g_log (sh s)) < B62 -> is_bcast c = true ->
  get (ags s) w = Some W -> zone W (sh s) -> get (ags s) b = Some B ->
  holds B = true -> sl c (r_p (a_r B)) = sl c (r_h (a_r W)) ->
  (a_pc B = R8 \/ a_pc B = R9) /\ r_p (a_r B) < gpos (sh s) (a_sid B).
Print Assumptions C04_producer_meets_only_stale_holders.

(* non-vacuity: a consumer that shares its stream, in the middle of its clone, holding one reference on slot 0 *)
Example C04_pinned_witness :
  let c := mk_cfg BCast 2 WBusy in
  exists s B, mreachN c false s /\ lenN (ags s) < B62 /\ lenN (g_log (sh s)) < B62 /\
    get (ags s) 1 = Some B /\ a_pc B = KC /\ holds B = true /\ gpin (sh s) 0 = 1 /\
    get (cells (sh s)) (sl c (r_p (a_r B))) = Some (r_tmp (a_r B)).
Proof.
  cbv zeta.
  destruct (m_run true (mk_cfg BCast 2 WBusy) (init false)
              [MCall 0 (CTrySend 5) 60; MCall 1 (CClone 2) 60; MBegin 1 CTryRecv; MSteps 1 9]) as [s|] eqn:E;
    [|vm_compute in E; discriminate E].
  destruct (get (ags s) 1) as [B|] eqn:EB; [|vm_compute in E; injection E as <-; vm_compute in EB; discriminate EB].
  exists s, B. split; [eapply m_run_sound; [apply mrn_init|exact E]|].
  vm_compute in E. injection E as <-. vm_compute in EB. injection EB as <-.
  vm_compute. repeat split; intros X; discriminate X.
Qed.

(* non-vacuity: a broadcast consumer in the middle of its clone (program counter KC) with its cursor at its position *)
Example C04_witness :
  let c := mk_cfg BCast 2 WBusy in
  exists s A, mreachN c false s /\ lenN (ags s) < B62 /\ lenN (g_log (sh s)) < B62 /\
    get (ags s) 1 = Some A /\ a_pc A = KC /\ rdphase (a_pc A) = true /\
    gpos (sh s) (a_sid A) = r_p (a_r A) /\ valof c A = Some 0 /\ g_log (sh s) = [0; 1].
Proof.
  cbv zeta.
  destruct (m_run true (mk_cfg BCast 2 WBusy) (init false)
              [MCall 0 (CTrySend 5) 60; MCall 0 (CTrySend 6) 60; MBegin 1 CTryRecv; MSteps 1 6]) as [s|] eqn:E;
    [|vm_compute in E; discriminate E].
  destruct (get (ags s) 1) as [A|] eqn:EA; [|vm_compute in E; injection E as <-; vm_compute in EA; discriminate EA].
  exists s, A. split; [eapply m_run_sound; [apply mrn_init|exact E]|].
  vm_compute in E. injection E as <-. vm_compute in EA. injection EA as <-.
  vm_compute. repeat split; intros X; discriminate X.
Qed.
