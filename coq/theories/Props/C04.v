(* C04 Consumers only observe complete, live values.
   Proved here, for all configurations, populations of handles and schedules over [mreachN] (every execution
   without the publishing step of known finding F11, fewer than 2^62 handles and claimed values):
   - C04_reader_starts_from_published_value: a consumer that has read a cell (it is between that read and its
     commit: cloning, viewing, or about to commit) and whose stream's cursor still is its attempt position holds
     exactly the value that the send which claimed that position put there - one send's whole value, written
     before that send published the slot's tag;
   - C04_matched_position_is_published: a consumer that has matched the tag of its position looks at a slot whose
     tag is not the never-written flag and is not older than its position, and its position is a claimed one;
   - C04_writer_does_not_touch_unconsumed: a send that has claimed a position and not yet published it (it is
     about to write the cell, or has just written it) claimed a position less than N ahead of, and not behind,
     every cursor: the cell it writes holds a value every stream has consumed, and no consumer's cursor is at or
     past the position it is writing.
   Not proved: that the cell stays untouched for the whole duration of a clone or view of a consumer that shares
   its stream (the reference-count/pin invariant), and that the value has not been dropped (ownership ledger,
   C05).  Those are decided by the correspondence (the model flags such accesses in g_bad) and the oracle. *)
From Coq Require Import NArith List Bool Lia.
Require Import MQ.Arith64 MQ.Arith64Facts MQ.Types MQ.State MQ.Model MQ.Exec MQ.Reach MQ.RecvDefs MQ.InvReg MQ.WinStep MQ.WinDefs
  MQ.InvWin MQ.WinRun MQ.SlotDefs MQ.InvSlot.
Import ListNotations.
Open Scope N_scope.

Theorem C04_reader_starts_from_published_value : forall c fut s a A,
  0 < c_n c -> c_n c <= B61 -> mreachN c fut s ->
  lenN (ags s) < B62 -> lenN (g_log (sh s)) < B62 ->
  get (ags s) a = Some A -> rdphase (a_pc A) = true ->
  gpos (sh s) (a_sid A) = r_p (a_r A) ->
  r_p (a_r A) < head (sh s) /\ nth_error (g_log (sh s)) (N.to_nat (r_p (a_r A))) = valof c A.
Proof.
  intros c fut s a A Np Ns R S1 S2 EA RD EP.
  destruct (slot_mreachN c Np Ns fut s R (conj S1 S2)) as (_ & SA & _).
  destruct (win_mreachN c Np Ns fut s R (conj S1 S2)) as (_ & IA).
  destruct (SA a A EA) as (_ & _ & _ & FA & _). destruct (IA a A EA) as (_ & _ & (_ & RA) & _).
  split; [exact (RA (rd_matched _ RD))|]. destruct (FA RD) as (_ & FV). exact (FV EP).
Qed.
Check C04_reader_starts_from_published_value : forall c fut s a A,
  0 < c_n c -> c_n c <= B61 -> mreachN c fut s ->
  lenN (ags s) < B62 -> lenN (g_log (sh s)) < B62 ->
  get (ags s) a = Some A -> rdphase (a_pc A) = true ->
  gpos (sh s) (a_sid A) = r_p (a_r A) ->
  r_p (a_r A) < head (sh s) /\ nth_error (g_log (sh s)) (N.to_nat (r_p (a_r A))) = valof c A.
Print Assumptions C04_reader_starts_from_published_value.

Theorem C04_matched_position_is_published : forall c fut s a A,
  0 < c_n c -> c_n c <= B61 -> mreachN c fut s ->
  lenN (ags s) < B62 -> lenN (g_log (sh s)) < B62 ->
  get (ags s) a = Some A -> matched (a_pc A) = true ->
  r_p (a_r A) < head (sh s) /\
  gtag (sh s) (sl c (r_p (a_r A))) <> INITIAL_QUEUE_FLAG /\ r_p (a_r A) <= gtag (sh s) (sl c (r_p (a_r A))).
Proof.
  intros c fut s a A Np Ns R S1 S2 EA MT.
  destruct (slot_mreachN c Np Ns fut s R (conj S1 S2)) as (_ & SA & _).
  destruct (win_mreachN c Np Ns fut s R (conj S1 S2)) as (_ & IA).
  destruct (SA a A EA) as (_ & EA' & _). destruct (IA a A EA) as (_ & _ & (_ & RA) & _).
  split; [exact (RA MT)|exact (EA' MT)].
Qed.
Check C04_matched_position_is_published : forall c fut s a A,
  0 < c_n c -> c_n c <= B61 -> mreachN c fut s ->
  lenN (ags s) < B62 -> lenN (g_log (sh s)) < B62 ->
  get (ags s) a = Some A -> matched (a_pc A) = true ->
  r_p (a_r A) < head (sh s) /\
  gtag (sh s) (sl c (r_p (a_r A))) <> INITIAL_QUEUE_FLAG /\ r_p (a_r A) <= gtag (sh s) (sl c (r_p (a_r A))).
Print Assumptions C04_matched_position_is_published.

Theorem C04_writer_does_not_touch_unconsumed : forall c fut s a A,
  0 < c_n c -> c_n c <= B61 -> mreachN c fut s ->
  lenN (ags s) < B62 -> lenN (g_log (sh s)) < B62 ->
  get (ags s) a = Some A -> wip (a_pc A) = true ->
  nth_error (g_log (sh s)) (N.to_nat (r_h (a_r A))) = Some (r_v (a_r A)) /\
  (forall g, gpos (sh s) g <= r_h (a_r A)) /\
  (forall sg, In sg (streams (sh s)) -> r_h (a_r A) < gpos (sh s) sg + c_n c) /\
  (forall b B, b <> a -> get (ags s) b = Some B -> wip (a_pc B) = true -> sl c (r_h (a_r B)) <> sl c (r_h (a_r A))).
Proof.
  intros c fut s a A Np Ns R S1 S2 EA PW.
  destruct (slot_mreachN c Np Ns fut s R (conj S1 S2)) as (_ & SA & _ & DI).
  destruct (win_mreachN c Np Ns fut s R (conj S1 S2)) as (G & _).
  destruct (SA a A EA) as (WA & _). destruct (WA PW) as (_ & A1 & A2 & A3 & A4 & _).
  split; [exact A1|]. split; [exact A4|]. split.
  - intros sg IN. pose proof (w_tail_le_cursor c _ G sg IN). lia.
  - intros b B NE EB PB ESL. destruct (SA b B EB) as (WB & _).
    apply (DI b a B A NE EB EA PB PW). apply (wip_slots c Np B A (sh s) WB WA PB PW ESL).
Qed.
Check C04_writer_does_not_touch_unconsumed : forall c fut s a A,
  0 < c_n c -> c_n c <= B61 -> mreachN c fut s ->
  lenN (ags s) < B62 -> lenN (g_log (sh s)) < B62 ->
  get (ags s) a = Some A -> wip (a_pc A) = true ->
  nth_error (g_log (sh s)) (N.to_nat (r_h (a_r A))) = Some (r_v (a_r A)) /\
  (forall g, gpos (sh s) g <= r_h (a_r A)) /\
  (forall sg, In sg (streams (sh s)) -> r_h (a_r A) < gpos (sh s) sg + c_n c) /\
  (forall b B, b <> a -> get (ags s) b = Some B -> wip (a_pc B) = true -> sl c (r_h (a_r B)) <> sl c (r_h (a_r A))).
Print Assumptions C04_writer_does_not_touch_unconsumed.

(* non-vacuity: a broadcast consumer in the middle of its clone (program counter KC) with its cursor at its position *)
Example C04_witness :
  let c := mk_cfg BCast 2 WBusy in
  exists s A, mreachN c false s /\ lenN (ags s) < B62 /\ lenN (g_log (sh s)) < B62 /\
    get (ags s) 1 = Some A /\ a_pc A = KC /\ rdphase (a_pc A) = true /\
    gpos (sh s) (a_sid A) = r_p (a_r A) /\ valof c A = Some 0 /\ g_log (sh s) = [0; 1].
Proof.
  cbv zeta.
  destruct (m_run true (mk_cfg BCast 2 WBusy) (init false)
              [MCall 0 (CTrySend 5) 60; MCall 0 (CTrySend 6) 60; MBegin 1 CTryRecv; MSteps 1 6]) as [s|] eqn:E;
    [|vm_compute in E; discriminate E].
  destruct (get (ags s) 1) as [A|] eqn:EA; [|vm_compute in E; injection E as <-; vm_compute in EA; discriminate EA].
  exists s, A. split; [eapply m_run_sound; [apply mrn_init|exact E]|].
  vm_compute in E. injection E as <-. vm_compute in EA. injection EA as <-.
  vm_compute. repeat split; intros X; discriminate X.
Qed.
