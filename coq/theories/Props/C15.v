(* C15 Futures handles obey the Sink/Stream contract and match the plain queue.
   Proved here, for every reachable state: a task call (poll, start_send, poll_complete) is never at a program
   counter of the blocking wait strategies (no condition-variable wait, no Wait::wait spin loop inside the call).
   The NotReady-identity and the equality with the plain handles are established by the correspondence and the
   oracles only (see MANIFEST level_note). *)
From Coq Require Import NArith List Bool.
Require Import MQ.Arith64 MQ.Types MQ.State MQ.Model MQ.Exec MQ.Reach MQ.Ctl MQ.CtlFacts.
Open Scope N_scope.

Theorem C15_task_calls_never_block : forall c fut s a A,
  reach c fut s -> get (ags s) a = Some A -> is_task_call (r_call (a_r A)) = true ->
  waiting_pc (a_pc A) = false.
Proof. intros c fut s a A R G. apply ctl_task_not_condvar. exact (ctl_reach c fut s R a A G). Qed.
Check C15_task_calls_never_block : forall c fut s a A,
  reach c fut s -> get (ags s) a = Some A -> is_task_call (r_call (a_r A)) = true ->
  waiting_pc (a_pc A) = false.
Print Assumptions C15_task_calls_never_block.

Example C15_nonvacuous :
  exists s A, reach (mk_cfg MPMC 1 (WFut 0 0)) true s /\ get (ags s) 1 = Some A
              /\ is_task_call (r_call (a_r A)) = true /\ a_pc A = R3.
Proof.
  exists (reach_by (mk_cfg MPMC 1 (WFut 0 0)) true (Start 1 CPoll :: Step 1 :: nil)).
  eexists. split; [apply reach_run|]. vm_compute. repeat split.
Qed.
