(* C15 Futures handles obey the Sink/Stream contract and match the plain queue.
   Proved here:
   - for every reachable state: a task call (poll, start_send, poll_complete) is never at a program counter of the
     blocking wait strategies (no condition-variable wait, no Wait::wait spin loop inside the call);
   - C15_refused_send_hands_back_its_value: whenever a step of a send (try_send, and start_send, which runs the same
     code) sets the result to Full - what the Sink reports as NotReady(message) - the value in the result is the
     very value the call was given, and that step has written nothing to the ring (claim log, head counter, cells and
     tags unchanged); it is one of the five steps that can refuse (full test on the cached tail, full test after the
     scan on either path, reference-count test on either path), all of which come before the claiming step.
   - C15_none_is_stable: with no sender handle alive a registered stream whose cursor equals the head counter keeps
     cursor = head, head and the claim log across every step of any agent (nothing is claimed any more, a drained
     stream stays drained); with Props/C07.v (the end is reported only on a drained stream without senders, and a
     receive attempt on such a stream reports the end within four own steps) the Stream's None comes only at the
     end of the stream and is returned by every later poll as well.
   The equality of results with the plain handles is established by the correspondence and the oracles (the futures
   calls run the same attempt code: same program counters of the model, same source functions). *)
From Coq Require Import NArith List Bool.
Require Import MQ.Arith64 MQ.Arith64Facts MQ.Types MQ.State MQ.Model MQ.Exec MQ.Reach MQ.Ctl MQ.CtlFacts MQ.FullStep
  MQ.RecvDefs MQ.InvReg MQ.WinDefs MQ.EndStable.
Import ListNotations.
Open Scope N_scope.

Theorem C15_task_calls_never_block : forall c fut s a A,
  reach c fut s -> get (ags s) a = Some A -> is_task_call (r_call (a_r A)) = true ->
  waiting_pc (a_pc A) = false.
Proof. intros c fut s a A R G. apply ctl_task_not_condvar. exact (ctl_reach c fut s R a A G). Qed.
Check C15_task_calls_never_block : forall c fut s a A,
  reach c fut s -> get (ags s) a = Some A -> is_task_call (r_call (a_r A)) = true ->
  waiting_pc (a_pc A) = false.
Print Assumptions C15_task_calls_never_block.

Example C15_nonvacuous :
  exists s A, reach (mk_cfg MPMC 1 (WFut 0 0)) true s /\ get (ags s) 1 = Some A
              /\ is_task_call (r_call (a_r A)) = true /\ a_pc A = R3.
Proof.
  exists (reach_by (mk_cfg MPMC 1 (WFut 0 0)) true (Start 1 CPoll :: Step 1 :: nil)).
  eexists. split; [apply reach_run|]. vm_compute. repeat split.
Qed.

Theorem C15_refused_send_hands_back_its_value : forall c me A S o v,
  micro c me A S = Some o -> is_full (r_res (a_r A)) = false -> r_res (a_r (o_a o)) = RFull v ->
  v = r_v (a_r A) /\ g_log (o_s o) = g_log S /\ head (o_s o) = head S /\ cells (o_s o) = cells S /\ tags (o_s o) = tags S /\
  (a_pc A = P2 \/ a_pc A = P3 \/ a_pc A = P4 \/ a_pc A = M3post \/ a_pc A = M4).
Proof. exact micro_full. Qed.
Check C15_refused_send_hands_back_its_value : forall c me A S o v,
  micro c me A S = Some o -> is_full (r_res (a_r A)) = false -> r_res (a_r (o_a o)) = RFull v ->
  v = r_v (a_r A) /\ g_log (o_s o) = g_log S /\ head (o_s o) = head S /\ cells (o_s o) = cells S /\ tags (o_s o) = tags S /\
  (a_pc A = P2 \/ a_pc A = P3 \/ a_pc A = P4 \/ a_pc A = M3post \/ a_pc A = M4).
Print Assumptions C15_refused_send_hands_back_its_value.

Example C15_refused_witness :
  let c := mk_cfg MPMC 1 (WFut 0 0) in
  let s := reach_by c true (Start 0 (CStartSend 5) :: repeat (Step 0) 9 ++ Start 0 (CStartSend 6) :: repeat (Step 0) 8) in
  exists A, get (ags s) 0 = Some A /\ g_log (sh s) = [0] /\ is_full (r_res (a_r A)) = true /\ r_res (a_r A) = RFull (r_v (a_r A)).
Proof. vm_compute. eexists. repeat split. Qed.

(* ---- None is stable ---- *)
Theorem C15_none_is_stable : forall c fut s x X o sg,
  0 < c_n c -> c_n c <= B61 -> mreachN c fut s ->
  lenN (ags (apply1 s x o)) < B62 -> lenN (g_log (sh s)) < B62 ->
  get (ags s) x = Some X -> (is_local (a_pc X) = true \/ enabled x X (sh s) = true) ->
  micro c x X (sh s) = Some o -> new_ok s x o = true -> ~ f11_bad (sh s) X ->
  writers (sh s) = 0 -> gpos (sh s) sg = head (sh s) -> In sg (streams (o_s o)) ->
  writers (o_s o) = 0 /\ head (o_s o) = head (sh s) /\ g_log (o_s o) = g_log (sh s) /\ gpos (o_s o) sg = head (o_s o).
Proof. exact end_state_stable. Qed.
Check C15_none_is_stable : forall c fut s x X o sg,
  0 < c_n c -> c_n c <= B61 -> mreachN c fut s ->
  lenN (ags (apply1 s x o)) < B62 -> lenN (g_log (sh s)) < B62 ->
  get (ags s) x = Some X -> (is_local (a_pc X) = true \/ enabled x X (sh s) = true) ->
  micro c x X (sh s) = Some o -> new_ok s x o = true -> ~ f11_bad (sh s) X ->
  writers (sh s) = 0 -> gpos (sh s) sg = head (sh s) -> In sg (streams (o_s o)) ->
  writers (o_s o) = 0 /\ head (o_s o) = head (sh s) /\ g_log (o_s o) = g_log (sh s) /\ gpos (o_s o) sg = head (o_s o).
Print Assumptions C15_none_is_stable.
