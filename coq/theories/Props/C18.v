(* C18 try operations never wait for another thread.
   Proved here, for every reachable state of every configuration and every schedule: an agent that is inside
   try_send, try_recv or try_recv_view is never at a program counter of a wait strategy (spin/yield loop of
   Wait::wait, condition-variable protocol), of the futures park path, or of the futures send loop; its stack is
   well formed.
   Bounded solo termination, for every shared state whatsoever (reachable or not: the other threads may be frozen
   anywhere) and every register contents of the running agent:
   - the receive attempt (the common body of try_recv and try_recv_view, also run by recv/poll: from the read of
     "am I the only consumer" to the return to the caller): C18_receive_attempt_rank_decreases - a ranking function
     (a static order of the program counters plus a penalty while the attempt position is not the stream's cursor)
     that every own step decreases unless it returns; every retry edge (cursor re-check failed, commit
     compare-exchange failed) reloads the cursor, after which no retry edge can be taken without another thread's
     step; C18_receive_attempt_solo_bound - at most 40 consecutive own steps stay inside the attempt;
   - the send body (try_send from the choice of the single-/multi-writer path to the return, the scan of the
     stream list included): C18_send_body_rank_decreases - the same with penalties for a stale loaded head (the
     claiming compare-exchange failed) and a stale stream list (pointer re-validation failed) and the length of
     the list being scanned; C18_send_body_solo_bound - from the start of the body at most
     2 * (number of registered streams) + 16 consecutive own steps stay inside it.
   - whole calls: C18_call_rank_decreases - a ranking function over the program counter and the frames of the call
     stack (well-formed by the control invariant) that every own step of try_send, try_recv or try_recv_view
     decreases from the first step of the call (client side included: creation of the payload, epoch
     announcement, the bodies above, the drop of a refused or received value, the return) unless the step leaves
     the call; C18_try_send_solo_bound - a try_send completes within 2 * (number of registered streams) + 35
     consecutive own steps; C18_try_recv_solo_bound - a try_recv / try_recv_view within 52.
   So a try operation never spins on another thread's unfinished work: an unpublished slot yields Empty, a pinned
   slot Full.  Not covered: the notification calls after a successful send on strategies that need a notification
   (they take a mutex of the wait strategy: the step leaves the ranked set; C18 is stated for strategies that
   need none, where that call returns at once); spurious failures of compare_exchange_weak are excluded ([micro] models a weak
   compare-exchange that fails only when the value differs; the spurious step is [micro_spur]). *)
From Coq Require Import NArith List Bool.
Require Import MQ.Arith64 MQ.Types MQ.State MQ.Model MQ.Exec MQ.Reach MQ.Ctl MQ.CtlFacts MQ.SoloRecvStep MQ.SoloSendStep MQ.SoloCall.
Import ListNotations.
Open Scope N_scope.

Theorem C18_try_never_in_wait_code : forall c fut s a A,
  reach c fut s -> get (ags s) a = Some A -> is_try_call (r_call (a_r A)) = true ->
  waiting_pc (a_pc A) = false /\ poll_tops (a_pc A) = false /\ ss_tops (a_pc A) = false.
Proof. intros c fut s a A R G. apply ctl_try_not_waiting. exact (ctl_reach c fut s R a A G). Qed.
Check C18_try_never_in_wait_code : forall c fut s a A,
  reach c fut s -> get (ags s) a = Some A -> is_try_call (r_call (a_r A)) = true ->
  waiting_pc (a_pc A) = false /\ poll_tops (a_pc A) = false /\ ss_tops (a_pc A) = false.
Print Assumptions C18_try_never_in_wait_code.

Theorem C18_control_invariant : forall c fut s, reach c fut s -> Ctl s.
Proof. exact ctl_reach. Qed.
Check C18_control_invariant : forall c fut s, reach c fut s -> Ctl s.
Print Assumptions C18_control_invariant.

Example C18_nonvacuous :
  exists s A, reach (mk_cfg BCast 2 WBusy) false s /\ get (ags s) 1 = Some A
              /\ is_try_call (r_call (a_r A)) = true /\ a_pc A = R3.
Proof.
  exists (reach_by (mk_cfg BCast 2 WBusy) false (Start 1 CTryRecv :: Step 1 :: nil)).
  eexists. split; [apply reach_run|]. vm_compute. repeat split.
Qed.

(* ---- bounded solo termination ---- *)
Theorem C18_receive_attempt_rank_decreases : forall c me A S o,
  micro c me A S = Some o -> in_att (a_pc A) = true ->
  (in_att (a_pc (o_a o)) = true /\ a_stack (o_a o) = a_stack A /\ att_rank (o_a o) (o_s o) < att_rank A S) \/
  returned A (o_a o).
Proof. exact micro_att_rank. Qed.
Check C18_receive_attempt_rank_decreases : forall c me A S o,
  micro c me A S = Some o -> in_att (a_pc A) = true ->
  (in_att (a_pc (o_a o)) = true /\ a_stack (o_a o) = a_stack A /\ att_rank (o_a o) (o_s o) < att_rank A S) \/
  returned A (o_a o).
Print Assumptions C18_receive_attempt_rank_decreases.

Theorem C18_receive_attempt_solo_bound : forall c me k A S,
  solo_att c me k A S -> in_att (a_pc A) = true -> (k <= 40)%nat.
Proof. exact solo_att_at_most_40. Qed.
Check C18_receive_attempt_solo_bound : forall c me k A S,
  solo_att c me k A S -> in_att (a_pc A) = true -> (k <= 40)%nat.
Print Assumptions C18_receive_attempt_solo_bound.

Theorem C18_send_body_rank_decreases : forall c me A S o,
  micro c me A S = Some o -> in_send A = true ->
  (in_send (o_a o) = true /\ base (o_a o) = base A /\ send_rank (o_a o) (o_s o) < send_rank A S) \/
  in_send (o_a o) = false \/
  (a_pc (o_a o) = hd Idle (base A) /\ a_stack (o_a o) = tl (base A)).
Proof. exact micro_send_rank. Qed.
Check C18_send_body_rank_decreases : forall c me A S o,
  micro c me A S = Some o -> in_send A = true ->
  (in_send (o_a o) = true /\ base (o_a o) = base A /\ send_rank (o_a o) (o_s o) < send_rank A S) \/
  in_send (o_a o) = false \/
  (a_pc (o_a o) = hd Idle (base A) /\ a_stack (o_a o) = tl (base A)).
Print Assumptions C18_send_body_rank_decreases.

Theorem C18_send_body_solo_bound : forall c me k A S,
  solo_send c me k A S -> a_pc A = TSmode -> N.of_nat k <= 2 * lenN (ggroup S (cur S)) + 16.
Proof. exact solo_send_from_start. Qed.
Check C18_send_body_solo_bound : forall c me k A S,
  solo_send c me k A S -> a_pc A = TSmode -> N.of_nat k <= 2 * lenN (ggroup S (cur S)) + 16.
Print Assumptions C18_send_body_solo_bound.

Theorem C18_call_rank_decreases : forall c me A S o,
  micro c me A S = Some o -> ctl_ok A = true -> in_call (a_pc A) = true ->
  in_call (a_pc (o_a o)) = false \/ call_rank (o_a o) (o_s o) < call_rank A S.
Proof. exact micro_call_rank. Qed.
Check C18_call_rank_decreases : forall c me A S o,
  micro c me A S = Some o -> ctl_ok A = true -> in_call (a_pc A) = true ->
  in_call (a_pc (o_a o)) = false \/ call_rank (o_a o) (o_s o) < call_rank A S.
Print Assumptions C18_call_rank_decreases.

Theorem C18_try_send_solo_bound : forall c me k A S,
  solo_call c me k A S -> ctl_ok A = true -> a_pc A = TSbegin -> a_stack A = [] ->
  N.of_nat k <= 2 * lenN (ggroup S (cur S)) + 35.
Proof. exact solo_try_send_bound. Qed.
Check C18_try_send_solo_bound : forall c me k A S,
  solo_call c me k A S -> ctl_ok A = true -> a_pc A = TSbegin -> a_stack A = [] ->
  N.of_nat k <= 2 * lenN (ggroup S (cur S)) + 35.
Print Assumptions C18_try_send_solo_bound.

Theorem C18_try_recv_solo_bound : forall c me k A S,
  solo_call c me k A S -> ctl_ok A = true -> a_pc A = E0 -> a_stack A = [] -> (k <= 52)%nat.
Proof. exact solo_try_recv_bound. Qed.
Check C18_try_recv_solo_bound : forall c me k A S,
  solo_call c me k A S -> ctl_ok A = true -> a_pc A = E0 -> a_stack A = [] -> (k <= 52)%nat.
Print Assumptions C18_try_recv_solo_bound.

(* non-vacuity: a whole try_send run solo from the first step of the call on the initial queue stays inside the call
   for ten own steps; a try_recv for eight *)
Example C18_call_witness :
  let c := mk_cfg BCast 2 WBusy in
  (exists A, a_pc A = TSbegin /\ a_stack A = [] /\ ctl_ok A = true /\ solo_call c 0 10 A (sh (init false))) /\
  (exists A, a_pc A = E0 /\ a_stack A = [] /\ ctl_ok A = true /\ solo_call c 1 8 A (sh (init false))).
Proof.
  cbv zeta. split.
  - exists (mkagent RSender true false 0 0 TSbegin [] (set_r_call (CTrySend 7) empty_regs) false false).
    split; [reflexivity|]. split; [reflexivity|]. split; [vm_compute; reflexivity|].
    do 10 (eapply csolo_S; [vm_compute; reflexivity|reflexivity|]). apply csolo_0.
  - exists (mkagent RRecv true true 0 1 E0 [] (set_r_call CTryRecv empty_regs) false false).
    split; [reflexivity|]. split; [reflexivity|]. split; [vm_compute; reflexivity|].
    do 8 (eapply csolo_S; [vm_compute; reflexivity|reflexivity|]). apply csolo_0.
Qed.

(* non-vacuity: solo runs exist - three own steps of a receive attempt, three of a send body, from the initial state
   of a broadcast queue with the agents just inside the bodies *)
Example C18_solo_witness :
  let c := mk_cfg BCast 2 WBusy in
  (exists A S, in_att (a_pc A) = true /\ solo_att c 1 3 A S) /\
  (exists A S, a_pc A = TSmode /\ solo_send c 0 3 A S).
Proof.
  cbv zeta. split.
  - exists (set_a_stack [TRfin] (set_a_pc R1pre (mkagent RRecv true true 0 1 Idle [] empty_regs false false))), (sh (init false)).
    split; [reflexivity|].
    eapply solo_S; [vm_compute; reflexivity|reflexivity|reflexivity|].
    eapply solo_S; [vm_compute; reflexivity|reflexivity|reflexivity|].
    eapply solo_S; [vm_compute; reflexivity|reflexivity|reflexivity|]. apply solo_0.
  - exists (set_a_stack [TSfin] (set_a_pc TSmode (mkagent RSender true false 0 0 Idle [] empty_regs false false))), (sh (init false)).
    split; [reflexivity|].
    eapply ssolo_S; [vm_compute; reflexivity|reflexivity|reflexivity|].
    eapply ssolo_S; [vm_compute; reflexivity|reflexivity|reflexivity|].
    eapply ssolo_S; [vm_compute; reflexivity|reflexivity|reflexivity|]. apply ssolo_0.
Qed.
