(* C18 try operations never wait for another thread.
   Proved here, for every reachable state of every configuration and every schedule: an agent that is inside
   try_send, try_recv or try_recv_view is never at a program counter of a wait strategy (spin/yield loop of
   Wait::wait, condition-variable protocol), of the futures park path, or of the futures send loop; its stack is
   well formed.  Bounded solo termination (ranking function) is not proved (see MANIFEST level_note). *)
From Coq Require Import NArith List Bool.
Require Import MQ.Arith64 MQ.Types MQ.State MQ.Model MQ.Exec MQ.Reach MQ.Ctl MQ.CtlFacts.
Open Scope N_scope.

Theorem C18_try_never_in_wait_code : forall c fut s a A,
  reach c fut s -> get (ags s) a = Some A -> is_try_call (r_call (a_r A)) = true ->
  waiting_pc (a_pc A) = false /\ poll_tops (a_pc A) = false /\ ss_tops (a_pc A) = false.
Proof. intros c fut s a A R G. apply ctl_try_not_waiting. exact (ctl_reach c fut s R a A G). Qed.
Check C18_try_never_in_wait_code : forall c fut s a A,
  reach c fut s -> get (ags s) a = Some A -> is_try_call (r_call (a_r A)) = true ->
  waiting_pc (a_pc A) = false /\ poll_tops (a_pc A) = false /\ ss_tops (a_pc A) = false.
Print Assumptions C18_try_never_in_wait_code.

Theorem C18_control_invariant : forall c fut s, reach c fut s -> Ctl s.
Proof. exact ctl_reach. Qed.
Check C18_control_invariant : forall c fut s, reach c fut s -> Ctl s.
Print Assumptions C18_control_invariant.

Example C18_nonvacuous :
  exists s A, reach (mk_cfg BCast 2 WBusy) false s /\ get (ags s) 1 = Some A
              /\ is_try_call (r_call (a_r A)) = true /\ a_pc A = R3.
Proof.
  exists (reach_by (mk_cfg BCast 2 WBusy) false (Start 1 CTryRecv :: Step 1 :: nil)).
  eexists. split; [apply reach_run|]. vm_compute. repeat split.
Qed.
