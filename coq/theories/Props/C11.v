(* C11 Removing a stream releases its backpressure and nothing else.
   Proved here (the 'unsubscribe reports true exactly when the handle was the last one' half), for all
   configurations and schedules: the first step of unsubscribe/drop records whether the handle's own decrement
   found the count at 1; no later step of that call changes the record (in any reachable state); the last step
   reports exactly the record.  Not proved: removal of the stream from the published list and its effect on
   senders (needs the stream-registry invariant). *)
From Coq Require Import NArith List Bool.
Require Import MQ.Arith64 MQ.Arith64Facts MQ.Types MQ.State MQ.Model MQ.Exec MQ.Reach MQ.Ctl MQ.SigStep MQ.InvSig MQ.SumCount MQ.RecvDefs MQ.InvReg MQ.InvMisc.
Open Scope N_scope.

Theorem C11_own_decrement_decides : forall c me A S o,
  micro c me A S = Some o -> a_pc A = RD0 ->
  r_last (a_r (o_a o)) = (gcons S (a_sid A) =? 1) /\
  gcons (o_s o) (a_sid A) = wsub (gcons S (a_sid A)) 1.
Proof. exact micro_rd0. Qed.
Check C11_own_decrement_decides : forall c me A S o,
  micro c me A S = Some o -> a_pc A = RD0 ->
  r_last (a_r (o_a o)) = (gcons S (a_sid A) =? 1) /\
  gcons (o_s o) (a_sid A) = wsub (gcons S (a_sid A)) 1.
Print Assumptions C11_own_decrement_decides.

Theorem C11_record_kept : forall c fut s a A o,
  reach c fut s -> get (ags s) a = Some A -> rd_after A = true ->
  micro c a A (sh s) = Some o -> r_last (a_r (o_a o)) = r_last (a_r A).
Proof.
  intros c fut s a A o R G D M. eapply micro_rlast; eauto. exact (ctl_reach c fut s R a A G).
Qed.
Check C11_record_kept : forall c fut s a A o,
  reach c fut s -> get (ags s) a = Some A -> rd_after A = true ->
  micro c a A (sh s) = Some o -> r_last (a_r (o_a o)) = r_last (a_r A).
Print Assumptions C11_record_kept.

Theorem C11_reports_the_record : forall c me A S o,
  micro c me A S = Some o -> a_pc A = RDfin2 -> r_call (a_r A) = CUnsub ->
  exists r, In (ERet r) (o_ev o) /\
    r = match a_role A, c_fl c with RUni, BCast => RUnit | _, _ => RBool (r_last (a_r A)) end.
Proof. exact micro_rdfin2. Qed.
Check C11_reports_the_record : forall c me A S o,
  micro c me A S = Some o -> a_pc A = RDfin2 -> r_call (a_r A) = CUnsub ->
  exists r, In (ERet r) (o_ev o) /\
    r = match a_role A, c_fl c with RUni, BCast => RUnit | _, _ => RBool (r_last (a_r A)) end.
Print Assumptions C11_reports_the_record.

Theorem C11_removal_takes_own_stream_only : forall c fut s x X o,
  reach c fut s -> lenN (ags s) < B62 -> get (ags s) x = Some X ->
  micro c x X (sh s) = Some o -> a_pc X = D2 -> cur (sh s) = r_g (a_r X) ->
  streams (o_s o) = removeN (a_sid X) (streams (sh s)) /\ sumf (wt (a_sid X)) (ags s) = 0.
Proof. intros c fut s x X o R. apply (removal_takes_own_stream_only c fut). now apply reach_mreach. Qed.
Check C11_removal_takes_own_stream_only : forall c fut s x X o,
  reach c fut s -> lenN (ags s) < B62 -> get (ags s) x = Some X ->
  micro c x X (sh s) = Some o -> a_pc X = D2 -> cur (sh s) = r_g (a_r X) ->
  streams (o_s o) = removeN (a_sid X) (streams (sh s)) /\ sumf (wt (a_sid X)) (ags s) = 0.
Print Assumptions C11_removal_takes_own_stream_only.

Example C11_witness :
  let c := mk_cfg BCast 2 WBusy in
  let h := g_hist (sh (reach_by c false
             (Start 1 (CClone 2) :: repeat (Step 1) 3 ++ Start 2 CUnsub :: repeat (Step 2) 6
              ++ Start 1 CUnsub :: repeat (Step 1) 60))) in
  existsb (fun e => match e with HRet 2 (RBool false) _ => true | _ => false end) h = true /\
  existsb (fun e => match e with HRet 1 (RBool true) _ => true | _ => false end) h = true.
Proof. vm_compute. split; reflexivity. Qed.
