(* C09 Single-threaded behaviour of the whole API equals a reference model.
   Proved here, over [mreachN] (all configurations, populations and interleavings of micro-steps - the
   single-threaded call sequences are the executions in which every call runs to its end before the next begins;
   without the publishing step of known finding F11; fewer than 2^62 handles and claimed values):
   - C09_no_call_panics: no agent ever carries the panic result: neither of the two places of the code that can
     panic is reached with the panicking condition - the expect of the single-writer tail reload ("the write head
     got ran over by consumers") and the commit of a receive without a value;
   - C09_single_writer_scan_finds_no_cursor_ahead: an agent on the single-writer path, during and after the scan
     of the stream list, has not met a cursor ahead of its loaded head (the scan's None, which the expect turns
     into a panic, is never produced there).
   The state components of the reference model are covered by theorems of the other files, which hold for every
   execution and so for the sequential ones: one append-only claim log whose length is the head counter
   (Props/C02.v), one cursor per stream advancing by one per delivery, the deliveries being the log entries in order
   (Props/C01.v, Props/C10.v), the window of N (Props/C03.v), the sender count (Props/C07.v, Props/C12.v), the
   answers at quiescent states (Props/C06.v), the end of a stream (Props/C07.v).
   Not proved: the refinement of whole calls to the reference specification (every call returns the reference
   model's answer); the reference model is the oracle of the correspondence on the real code. *)
From Coq Require Import NArith List Bool.
Require Import MQ.Arith64 MQ.Arith64Facts MQ.Types MQ.State MQ.Model MQ.Exec MQ.Reach MQ.Ctl MQ.RecvDefs MQ.InvReg MQ.WinStep MQ.WinDefs MQ.InvWin MQ.WinRun
  MQ.HeadStep MQ.NoPanicStep MQ.NoPanicStepB MQ.InvNoPanic.
Import ListNotations.
Open Scope N_scope.

Theorem C09_no_call_panics : forall c fut s a A,
  0 < c_n c -> c_n c <= B61 -> mreachN c fut s -> lenN (ags s) < B62 -> lenN (g_log (sh s)) < B62 ->
  get (ags s) a = Some A -> r_res (a_r A) <> RPanic.
Proof. intros c fut s a A Np Ns. exact (no_panic c Np Ns fut s a A). Qed.
Check C09_no_call_panics : forall c fut s a A,
  0 < c_n c -> c_n c <= B61 -> mreachN c fut s -> lenN (ags s) < B62 -> lenN (g_log (sh s)) < B62 ->
  get (ags s) a = Some A -> r_res (a_r A) <> RPanic.
Print Assumptions C09_no_call_panics.

Theorem C09_single_writer_scan_finds_no_cursor_ahead : forall c fut s a A,
  0 < c_n c -> c_n c <= B61 -> mreachN c fut s -> lenN (ags s) < B62 -> lenN (g_log (sh s)) < B62 ->
  get (ags s) a = Some A -> nnb A = true.
Proof.
  intros c fut s a A Np Ns RN S1 S2 EA. exact (proj1 (nopanic_mreachN c Np Ns fut s RN (conj S1 S2) a A EA)).
Qed.
Check C09_single_writer_scan_finds_no_cursor_ahead : forall c fut s a A,
  0 < c_n c -> c_n c <= B61 -> mreachN c fut s -> lenN (ags s) < B62 -> lenN (g_log (sh s)) < B62 ->
  get (ags s) a = Some A -> nnb A = true.
Print Assumptions C09_single_writer_scan_finds_no_cursor_ahead.

Theorem C09_panic_needs_its_condition : forall c me A S o,
  micro c me A S = Some o -> ctl_ok A = true -> panicked (r_res (a_r (o_a o))) = true ->
  panicked (r_res (a_r A)) = true \/
  (a_pc A = P3pre /\ r_none (a_r A) = true) \/
  ((a_pc A = R12 \/ a_pc A = V4) /\ r_val (a_r A) = None /\
   (a_pc A = R12 -> r_am (a_r A) = true \/ gpos S (a_sid A) = r_p (a_r A))).
Proof. exact micro_panic. Qed.
Check C09_panic_needs_its_condition : forall c me A S o,
  micro c me A S = Some o -> ctl_ok A = true -> panicked (r_res (a_r (o_a o))) = true ->
  panicked (r_res (a_r A)) = true \/
  (a_pc A = P3pre /\ r_none (a_r A) = true) \/
  ((a_pc A = R12 \/ a_pc A = V4) /\ r_val (a_r A) = None /\
   (a_pc A = R12 -> r_am (a_r A) = true \/ gpos S (a_sid A) = r_p (a_r A))).
Print Assumptions C09_panic_needs_its_condition.

(* non-vacuity: a single sender on a full queue of one slot has scanned the stream list and is at the expect *)
Example C09_expect_witness :
  let c := mk_cfg MPMC 1 WBusy in
  exists s A, mreachN c false s /\ 0 < c_n c /\ c_n c <= B61 /\ lenN (ags s) < B62 /\ lenN (g_log (sh s)) < B62 /\
    get (ags s) 0 = Some A /\ a_pc A = P3pre /\ r_none (a_r A) = false /\ pp_pc (a_pc A) (a_stack A) = true.
Proof.
  cbv zeta.
  destruct (m_run true (mk_cfg MPMC 1 WBusy) (init false)
              [MCall 0 (CTrySend 7) 100; MBegin 0 (CTrySend 8); MSteps 0 8]) as [s|] eqn:E;
    [|vm_compute in E; discriminate E].
  destruct (get (ags s) 0) as [A|] eqn:EA; [|vm_compute in E; injection E as <-; vm_compute in EA; discriminate EA].
  exists s, A. split; [eapply m_run_sound; [apply mrn_init|exact E]|].
  vm_compute in E. injection E as <-. vm_compute in EA. injection EA as <-.
  vm_compute. repeat split; intros Y; discriminate Y.
Qed.
