(* C14 A parked futures task is always notified when it can make progress.
   Proved here, for the consumers' side of the futures adapters (FutWait, the list of parked consumer tasks), for all
   configurations with the futures wait strategy, all populations and schedules with fewer than 2^62 handles:
   - C14_no_lost_notification_of_a_stream_task - whenever a stream task has parked itself (it is on its way out of
     poll with NotReady, or has returned it, and has not been notified since) and the condition it waits for holds on
     the current state of its slot and of the writers count (the awaited position is published, the slot has moved
     past it, or no sender is left), some agent owes the notification: it has published a value or decremented the
     writers count and is on its way to the drain of the park list;
   - C14_parked_stream_task_is_on_the_list - such a task is in the list that the drain empties;
   - C14_owed_notification_is_kept - an agent that owes the notification keeps owing it across each of its steps
     until it executes the drain step; C14_drain_notifies_every_parked_task - the drain step notifies every task in
     the list and empties it; C14_notified_task_is_marked - a task named by a step's notification list has its
     notified flag set after the step; C14_parked_task_runs_again_once_notified - a task waiting to be polled again
     is runnable exactly when notified;
   - C14_park_list_lock_is_exclusive - the lock of the list has one holder: the re-check of the condition and the
     insertion into the list happen under it, the drain needs it free.
   So a state in which a stream task stays parked forever although a value or the end of the stream is available
   would need a pending notifier that never runs, i.e. an unfair scheduler.
   Refuted, not proved: the producers' side (a sink task parked on a full queue is notified when space is freed):
   C14_sink_side_refuted exhibits a reachable state in which a sink task, refused because its slot was momentarily
   pinned, and both stream tasks are parked un-notified although a send would be accepted - the known finding F14
   (see DESIGN.md).  Fairness of the executor cannot be expressed.  Both sides are explored on the real code by the scheduler harness (DESIGN.md). *)
From Coq Require Import NArith List Bool.
Require Import MQ.Arith64 MQ.Arith64Facts MQ.Types MQ.State MQ.Model MQ.Exec MQ.Reach MQ.Ctl MQ.RecvDefs MQ.InvReg MQ.WinDefs MQ.WinRun
  MQ.WaitStep MQ.WakeDefs MQ.NpDefs MQ.FutDefs MQ.FutStepA MQ.FutStepC MQ.FutStepD MQ.FutStepE MQ.InvFut.
Import ListNotations.
Open Scope N_scope.

Theorem C14_no_lost_notification_of_a_stream_task : forall c sf sy fut s t T,
  c_wk c = WFut sf sy -> mreach c fut s -> lenN (ags s) < B62 ->
  get (ags s) t = Some T -> fwait T = true -> wcond T (sh s) = true ->
  exists n N, get (ags s) n = Some N /\ npf N = true.
Proof.
  intros c sf sy fut s t T WF R SM ET FW WC.
  destruct (fut_mreach c sf sy WF fut s R SM) as [_ _ WKE _]. exact (WKE t T ET FW WC).
Qed.
Check C14_no_lost_notification_of_a_stream_task : forall c sf sy fut s t T,
  c_wk c = WFut sf sy -> mreach c fut s -> lenN (ags s) < B62 ->
  get (ags s) t = Some T -> fwait T = true -> wcond T (sh s) = true ->
  exists n N, get (ags s) n = Some N /\ npf N = true.
Print Assumptions C14_no_lost_notification_of_a_stream_task.

Theorem C14_parked_stream_task_is_on_the_list : forall c sf sy fut s t T,
  c_wk c = WFut sf sy -> mreach c fut s -> lenN (ags s) < B62 ->
  get (ags s) t = Some T -> fwait T = true -> In t (cparked (sh s)).
Proof.
  intros c sf sy fut s t T WF R SM ET FW.
  destruct (fut_mreach c sf sy WF fut s R SM) as [_ PK _ _]. exact (PK t T ET FW).
Qed.
Check C14_parked_stream_task_is_on_the_list : forall c sf sy fut s t T,
  c_wk c = WFut sf sy -> mreach c fut s -> lenN (ags s) < B62 ->
  get (ags s) t = Some T -> fwait T = true -> In t (cparked (sh s)).
Print Assumptions C14_parked_stream_task_is_on_the_list.

Theorem C14_owed_notification_is_kept : forall c me A S o,
  micro c me A S = Some o -> ctl_ok A = true -> npf A = true ->
  npf (o_a o) = true \/ a_pc A = FN1 \/ (forall a b, c_wk c <> WFut a b).
Proof. exact micro_npf. Qed.
Check C14_owed_notification_is_kept : forall c me A S o,
  micro c me A S = Some o -> ctl_ok A = true -> npf A = true ->
  npf (o_a o) = true \/ a_pc A = FN1 \/ (forall a b, c_wk c <> WFut a b).
Print Assumptions C14_owed_notification_is_kept.

Theorem C14_drain_notifies_every_parked_task : forall c me A S o,
  micro c me A S = Some o -> a_pc A = FN1 -> o_ntf o = cparked S /\ cparked (o_s o) = [].
Proof.
  intros c me A S o M PC. split; [exact (f_FN1 c me A S o M PC)|].
  destruct (micro_cparked c me A S o M) as [(E & [E2 | [E2 | [E2 | (_ & E2)]]]) | [(PC2 & _) | (_ & E & _)]];
    try congruence.
  rewrite (f_FN1 c me A S o M PC) in E2. congruence.
Qed.
Check C14_drain_notifies_every_parked_task : forall c me A S o,
  micro c me A S = Some o -> a_pc A = FN1 -> o_ntf o = cparked S /\ cparked (o_s o) = [].
Print Assumptions C14_drain_notifies_every_parked_task.

Theorem C14_notified_task_is_marked : forall s x o b B,
  get (ags (apply1 s x o)) b = Some B -> In b (o_ntf o) -> a_notified B = true.
Proof. exact apply1_notified. Qed.
Check C14_notified_task_is_marked : forall s x o b B,
  get (ags (apply1 s x o)) b = Some B -> In b (o_ntf o) -> a_notified B = true.
Print Assumptions C14_notified_task_is_marked.

Theorem C14_parked_task_runs_again_once_notified : forall me A S,
  a_pc A = AW -> enabled me A S = a_notified A.
Proof. intros me A S PC. unfold enabled. rewrite PC. reflexivity. Qed.
Check C14_parked_task_runs_again_once_notified : forall me A S,
  a_pc A = AW -> enabled me A S = a_notified A.
Print Assumptions C14_parked_task_runs_again_once_notified.

Theorem C14_park_list_lock_is_exclusive : forall c sf sy fut s a A,
  c_wk c = WFut sf sy -> mreach c fut s -> lenN (ags s) < B62 ->
  get (ags s) a = Some A -> fholder A = true -> cp_lock (sh s) = Some a.
Proof.
  intros c sf sy fut s a A WF R SM EA HA.
  destruct (fut_mreach c sf sy WF fut s R SM) as [LK _ _ _]. exact (LK a A EA HA).
Qed.
Check C14_park_list_lock_is_exclusive : forall c sf sy fut s a A,
  c_wk c = WFut sf sy -> mreach c fut s -> lenN (ags s) < B62 ->
  get (ags s) a = Some A -> fholder A = true -> cp_lock (sh s) = Some a.
Print Assumptions C14_park_list_lock_is_exclusive.

Theorem C14_drain_needs_the_lock_free : forall me A S,
  a_pc A = FN1 -> enabled me A S = true -> cp_lock S = None.
Proof. exact f_FN1_enabled. Qed.
Check C14_drain_needs_the_lock_free : forall me A S,
  a_pc A = FN1 -> enabled me A S = true -> cp_lock S = None.
Print Assumptions C14_drain_needs_the_lock_free.

(* ---- the producers' side: the statement is false of the code as it is (known finding F14) ----
   [sink_side_statement]: whenever a sink task is parked with NotReady(v), un-notified, on the producers' park list,
   while a send would be accepted (room in every stream's window, the slot of the head position unpinned, readers
   present), some agent can still take a step.  Refuted on a broadcast queue with one slot and two stream tasks
   on one stream: the state reached by the schedule below has every task parked and un-notified.  The same
   schedule on the real code is findings/F14_pinned_refusal_nobody_notifies.scn. *)
Definition room (c : cfg) (S : shared) : Prop :=
  (forall sg, In sg (streams S) -> head S < gpos S sg + c_n c) /\ gpin S (head S mod c_n c) = 0 /\
  signal S = 0 /\ streams S <> [].
Definition runnable (s : state) (n : N) (A : agent) : bool := is_local (a_pc A) || enabled n A (sh s).
Definition sink_side_statement (c : cfg) : Prop :=
  forall s t T, mreach c true s -> get (ags s) t = Some T ->
    a_pc T = AW -> a_notified T = false -> (exists v, r_res (a_r T) = RFull v) -> In t (pparked (sh s)) -> room c (sh s) ->
    exists n A, get (ags s) n = Some A /\ runnable s n A = true.

Lemma forallb_get {X} (f : N * X -> bool) (m : fmap X) : forallb f m = true ->
  forall n x, get m n = Some x -> f (n, x) = true.
Proof.
  induction m as [|(k, v) m IH]; cbn [forallb]; intros H n x G; [discriminate G|].
  apply andb_prop in H as [H1 H2]. change (get ((k, v) :: m) n) with (if N.eqb n k then Some v else get m n) in G.
  revert G. destruct (N.eqb n k) eqn:E; intros G.
  - apply N.eqb_eq in E. assert (EV : v = x) by congruence. subst k x. exact H1.
  - apply (IH H2 n x G).
Qed.

Theorem C14_sink_side_refuted : ~ sink_side_statement (mk_cfg BCast 1 (WFut 0 0)).
Proof.
  intros ST.
  destruct (m_run true (mk_cfg BCast 1 (WFut 0 0)) (init true)
     [MCall 1 (CClone 2) 100; MCall 0 (CAStartSend 1) 200; MBegin 1 CAPoll; MSteps 1 8; MCall 2 CAPoll 200; MStep 1;
      MBegin 0 (CAStartSend 2); MSteps 0 20; MSteps 1 17; MBegin 2 CAPoll; MSteps 2 21]) as [s|] eqn:E;
    [|vm_compute in E; discriminate E].
  assert (R : mreach (mk_cfg BCast 1 (WFut 0 0)) true s)
    by (apply mreachN_mreach; eapply m_run_sound; [apply mrn_init|exact E]).
  destruct (get (ags s) 0) as [T|] eqn:ET; [|vm_compute in E; injection E as <-; vm_compute in ET; discriminate ET].
  assert (NR : forallb (fun p => negb (runnable s (fst p) (snd p))) (ags s) = true)
    by (vm_compute in E; injection E as <-; vm_compute; reflexivity).
  destruct (ST s 0 T R ET) as (n & A & EA & RN).
  - vm_compute in E. injection E as <-. vm_compute in ET. injection ET as <-. reflexivity.
  - vm_compute in E. injection E as <-. vm_compute in ET. injection ET as <-. reflexivity.
  - vm_compute in E. injection E as <-. vm_compute in ET. injection ET as <-. exists 2. reflexivity.
  - vm_compute in E. injection E as <-. vm_compute. left. reflexivity.
  - vm_compute in E. injection E as <-. clear. unfold room. vm_compute. repeat split.
    + intros sg [<- | []]. reflexivity.
    + intros X; discriminate X.
  - pose proof (forallb_get _ _ NR n A EA) as K. cbn [fst snd] in K. rewrite RN in K. discriminate K.
Qed.
Check C14_sink_side_refuted : ~ sink_side_statement (mk_cfg BCast 1 (WFut 0 0)).
Print Assumptions C14_sink_side_refuted.

(* non-vacuity: stream task 1 polls an empty queue, gets NotReady and is parked; sink task 0 publishes a value and
   has not drained the park list yet *)
Example C14_notification_witness :
  let c := mk_cfg MPMC 2 (WFut 0 0) in
  exists s T P, mreach c true s /\ lenN (ags s) < B62 /\ c_wk c = WFut 0 0 /\
    cparked (sh s) = [1] /\ get (ags s) 1 = Some T /\ fwait T = true /\ a_pc T = AW /\ wcond T (sh s) = true /\
    get (ags s) 0 = Some P /\ npf P = true /\ a_pc P = TSdone.
Proof.
  cbv zeta.
  destruct (m_run true (mk_cfg MPMC 2 (WFut 0 0)) (init true)
              [MBegin 1 CAPoll; MSteps 1 20; MBegin 0 (CAStartSend 5); MSteps 0 14]) as [s|] eqn:E;
    [|vm_compute in E; discriminate E].
  destruct (get (ags s) 1) as [T|] eqn:ET; [|vm_compute in E; injection E as <-; vm_compute in ET; discriminate ET].
  destruct (get (ags s) 0) as [P|] eqn:EP; [|vm_compute in E; injection E as <-; vm_compute in EP; discriminate EP].
  exists s, T, P. split; [apply mreachN_mreach; eapply m_run_sound; [apply mrn_init|exact E]|].
  vm_compute in E. injection E as <-. vm_compute in ET. injection ET as <-. vm_compute in EP. injection EP as <-.
  vm_compute. repeat split; intros X; discriminate X.
Qed.
