(* C16 Deferred reclamation of internal bookkeeping is memory safe.
   Proved here (the part of the argument that does not depend on the epoch protocol), for every reachable state:
   stream-list identifiers are allocated fresh and a list is never modified after its allocation, the published
   list identifier and every list identifier an agent works on are allocated ones - so the pointer comparison
   that re-validates a scan ("the list is still the one I read") compares the identities of two unmodified
   lists, and the list a publishing compare-exchange installs is the list it read plus/minus one stream;
   C16_scan_starts_from_published_list / C16_scan_result_is_validated, for every state: the scan of the stream
   list (get_max_diff) starts from the published list and remembers its identity; its last step hands the result
   to the caller only if the published identity is still that one, otherwise the scan starts again - a writer
   never acts on a distance computed from a list that was replaced while it was scanning.
   Not proved: that no freed object is dereferenced (epoch invariant I10); the model flags such accesses in
   g_bad and the correspondence compares them with the quarantine allocator of the harness. *)
From Coq Require Import NArith List Bool.
Require Import MQ.Arith64 MQ.Types MQ.State MQ.Model MQ.Exec MQ.Reach MQ.Ctl MQ.RecvDefs MQ.GroupStep MQ.GroupStep2 MQ.InvGroups MQ.ScanStep.
Import ListNotations.
Open Scope N_scope.

Theorem C16_lists_immutable_ids_fresh : forall c me A S o,
  micro c me A S = Some o ->
  ngid S <= ngid (o_s o) /\
  (forall g, g < ngid S -> ggroup (o_s o) g = ggroup S g) /\
  (G_cur_same S o \/ G_add A S o \/ G_remove A S o).
Proof. exact micro_groups. Qed.
Check C16_lists_immutable_ids_fresh : forall c me A S o,
  micro c me A S = Some o ->
  ngid S <= ngid (o_s o) /\
  (forall g, g < ngid S -> ggroup (o_s o) g = ggroup S g) /\
  (G_cur_same S o \/ G_add A S o \/ G_remove A S o).
Print Assumptions C16_lists_immutable_ids_fresh.

Theorem C16_list_ids_allocated : forall c fut s,
  reach c fut s ->
  cur (sh s) < ngid (sh s) /\
  forall a A, get (ags s) a = Some A -> g_rg_ok A (sh s) /\ g_add_ok A (sh s) /\ g_rem_ok A (sh s).
Proof. intros c fut s R. exact (groups_mreach c fut s (reach_mreach c fut s R)). Qed.
Check C16_list_ids_allocated : forall c fut s,
  reach c fut s ->
  cur (sh s) < ngid (sh s) /\
  forall a A, get (ags s) a = Some A -> g_rg_ok A (sh s) /\ g_add_ok A (sh s) /\ g_rem_ok A (sh s).
Print Assumptions C16_list_ids_allocated.

Example C16_witness :
  let c := mk_cfg BCast 2 WBusy in
  let s := reach_by c false (Start 1 (CAddStream 2) :: repeat (Step 1) 12) in
  cur (sh s) = 1 /\ ngid (sh s) = 2 /\ ggroup (sh s) 0 = [0] /\ ggroup (sh s) 1 = [0; 1].
Proof. vm_compute. repeat split. Qed.

(* ---- the pointer re-validation of a scan ---- *)
Theorem C16_scan_starts_from_published_list : forall c me A S o,
  micro c me A S = Some o -> a_pc A = G1 ->
  r_g (a_r (o_a o)) = cur S /\ r_gl (a_r (o_a o)) = ggroup S (cur S) /\ r_none (a_r (o_a o)) = false /\
  groups (o_s o) = groups S /\ cur (o_s o) = cur S.
Proof. exact scan_starts_from_published. Qed.
Check C16_scan_starts_from_published_list : forall c me A S o,
  micro c me A S = Some o -> a_pc A = G1 ->
  r_g (a_r (o_a o)) = cur S /\ r_gl (a_r (o_a o)) = ggroup S (cur S) /\ r_none (a_r (o_a o)) = false /\
  groups (o_s o) = groups S /\ cur (o_s o) = cur S.
Print Assumptions C16_scan_starts_from_published_list.

Theorem C16_scan_result_is_validated : forall c me A S o,
  micro c me A S = Some o -> a_pc A = G3 ->
  o_s o = S /\ a_r (o_a o) = a_r A /\
  ((cur S = r_g (a_r A) /\ a_pc (o_a o) = hd Idle (a_stack A) /\ a_stack (o_a o) = tl (a_stack A)) \/
   (cur S <> r_g (a_r A) /\ a_pc (o_a o) = G1 /\ a_stack (o_a o) = a_stack A)).
Proof. exact scan_validated. Qed.
Check C16_scan_result_is_validated : forall c me A S o,
  micro c me A S = Some o -> a_pc A = G3 ->
  o_s o = S /\ a_r (o_a o) = a_r A /\
  ((cur S = r_g (a_r A) /\ a_pc (o_a o) = hd Idle (a_stack A) /\ a_stack (o_a o) = tl (a_stack A)) \/
   (cur S <> r_g (a_r A) /\ a_pc (o_a o) = G1 /\ a_stack (o_a o) = a_stack A)).
Print Assumptions C16_scan_result_is_validated.

Example C16_scan_witness :
  let c := mk_cfg BCast 2 WBusy in
  let A := mkagent RSender true true 0 0 G3 [M3pre; TSfin] empty_regs false false in
  exists o, micro c 0 A (sh (init false)) = Some o /\ a_pc (o_a o) = M3pre.
Proof. cbv zeta. eexists. split; [vm_compute; reflexivity|reflexivity]. Qed.
