(* C05 Every payload and every clone is destroyed exactly once.
   Proved here (the part that concerns the value a send overwrites and a value a send is refused):
   - C05_overwritten_value_was_consumed_by_every_stream, over [mreachN] (all configurations, populations and
     interleavings of micro-steps; without the publishing step of known finding F11; fewer than 2^62 handles and
     claimed values): a send that has claimed position h and is about to write its cell, finding the slot written
     before with tag q, overwrites the claim-log entry of position q <= h - N - one send's whole value, still in
     the cell - and every registered stream's cursor is already past q: nothing a consumer can still reach is
     overwritten (that no consumer is in the middle of a clone or view of that cell is Props/C04.v);
   - C05_send_remembers_what_it_overwrites / C05_send_drops_what_it_overwrote_once: that step stores the old cell
     value (broadcast flavour, slot written before; otherwise nothing) and drops nothing; the next step of the send,
     after publishing the new tag, increments the drop count of exactly that value by one and forgets it;
   - C05_refused_value_is_dropped_by_the_caller_once: back in the caller a refused value (Full / Disconnected,
     which by Props/C15.v is the very value the call was given, the ring untouched) is dropped there once; an
     accepted one is not touched by the caller.
   Not proved: the ledger invariant over whole histories (every serial number's drop count ends at exactly one:
   nothing dropped twice, nothing left undropped after the last handle is gone, a delivered clone or moved-out
   value dropped exactly by its receiver); the model keeps the per-payload drop ledger and the correspondence
   compares it with the real destructor calls on every trace, the oracle checks the final counts.  The known
   finding F12 (two streams on a move-out queue destroy the same payload) lives in that part. *)
From Coq Require Import NArith List Bool.
Require Import MQ.Arith64 MQ.Arith64Facts MQ.Types MQ.State MQ.Model MQ.Exec MQ.Reach MQ.Ctl MQ.RecvDefs MQ.InvReg MQ.WinStep MQ.WinDefs MQ.InvWin MQ.WinRun
  MQ.SlotDefs MQ.InvSlot MQ.Own.
Import ListNotations.
Open Scope N_scope.

Theorem C05_overwritten_value_was_consumed_by_every_stream : forall c fut s a A,
  0 < c_n c -> c_n c <= B61 -> mreachN c fut s -> lenN (ags s) < B62 -> lenN (g_log (sh s)) < B62 ->
  get (ags s) a = Some A -> a_pc A = P6 ->
  let i := sl c (r_h (a_r A)) in
  let q := gtag (sh s) i in
  q <> INITIAL_QUEUE_FLAG ->
  q + c_n c <= r_h (a_r A) /\
  get (cells (sh s)) i = logat (sh s) q /\ logat (sh s) q <> None /\
  forall sg, In sg (streams (sh s)) -> q < gpos (sh s) sg.
Proof. intros c fut s a A Np Ns. exact (overwritten_is_consumed c Np Ns fut s a A). Qed.
Check C05_overwritten_value_was_consumed_by_every_stream : forall c fut s a A,
  0 < c_n c -> c_n c <= B61 -> mreachN c fut s -> lenN (ags s) < B62 -> lenN (g_log (sh s)) < B62 ->
  get (ags s) a = Some A -> a_pc A = P6 ->
  let i := sl c (r_h (a_r A)) in
  let q := gtag (sh s) i in
  q <> INITIAL_QUEUE_FLAG ->
  q + c_n c <= r_h (a_r A) /\
  get (cells (sh s)) i = logat (sh s) q /\ logat (sh s) q <> None /\
  forall sg, In sg (streams (sh s)) -> q < gpos (sh s) sg.
Print Assumptions C05_overwritten_value_was_consumed_by_every_stream.

Theorem C05_send_remembers_what_it_overwrites : forall c me A S o,
  micro c me A S = Some o -> a_pc A = P6 ->
  let i := sl c (r_h (a_r A)) in
  r_old (a_r (o_a o)) = (if is_bcast c && negb (is_tagged (gtag S i)) then get (cells S) i else None) /\
  g_drops (o_s o) = g_drops S.
Proof. exact own_P6. Qed.
Check C05_send_remembers_what_it_overwrites : forall c me A S o,
  micro c me A S = Some o -> a_pc A = P6 ->
  let i := sl c (r_h (a_r A)) in
  r_old (a_r (o_a o)) = (if is_bcast c && negb (is_tagged (gtag S i)) then get (cells S) i else None) /\
  g_drops (o_s o) = g_drops S.
Print Assumptions C05_send_remembers_what_it_overwrites.

Theorem C05_send_drops_what_it_overwrote_once : forall c me A S o,
  micro c me A S = Some o -> a_pc A = P7 ->
  g_drops (o_s o) = match r_old (a_r A) with
                    | Some ser => put (g_drops S) ser (gdrops S ser + 1)
                    | None => g_drops S
                    end /\
  r_old (a_r (o_a o)) = None.
Proof. exact own_P7. Qed.
Check C05_send_drops_what_it_overwrote_once : forall c me A S o,
  micro c me A S = Some o -> a_pc A = P7 ->
  g_drops (o_s o) = match r_old (a_r A) with
                    | Some ser => put (g_drops S) ser (gdrops S ser + 1)
                    | None => g_drops S
                    end /\
  r_old (a_r (o_a o)) = None.
Print Assumptions C05_send_drops_what_it_overwrote_once.

Theorem C05_refused_value_is_dropped_by_the_caller_once : forall c me A S o,
  micro c me A S = Some o -> a_pc A = TSfin ->
  g_drops (o_s o) = match r_res (a_r A) with
                    | RFull ser | RDisc ser => put (g_drops S) ser (gdrops S ser + 1)
                    | _ => g_drops S
                    end.
Proof. exact own_TSfin. Qed.
Check C05_refused_value_is_dropped_by_the_caller_once : forall c me A S o,
  micro c me A S = Some o -> a_pc A = TSfin ->
  g_drops (o_s o) = match r_res (a_r A) with
                    | RFull ser | RDisc ser => put (g_drops S) ser (gdrops S ser + 1)
                    | _ => g_drops S
                    end.
Print Assumptions C05_refused_value_is_dropped_by_the_caller_once.

(* non-vacuity: a broadcast queue with one slot: value 0 sent and received, the second send has claimed position 1
   and is about to overwrite the cell, which still holds value 0 under tag 0; the stream's cursor is 1 *)
Example C05_overwrite_witness :
  let c := mk_cfg BCast 1 WBusy in
  exists s A, mreachN c false s /\ 0 < c_n c /\ c_n c <= B61 /\ lenN (ags s) < B62 /\ lenN (g_log (sh s)) < B62 /\
    get (ags s) 0 = Some A /\ a_pc A = P6 /\ r_h (a_r A) = 1 /\
    gtag (sh s) (sl c (r_h (a_r A))) = 0 /\ get (cells (sh s)) (sl c (r_h (a_r A))) = Some 0 /\
    In 0 (streams (sh s)) /\ gpos (sh s) 0 = 1.
Proof.
  cbv zeta.
  destruct (m_run true (mk_cfg BCast 1 WBusy) (init false)
              [MCall 0 (CTrySend 7) 100; MCall 1 CTryRecv 100; MBegin 0 (CTrySend 8); MSteps 0 13]) as [s|] eqn:E;
    [|vm_compute in E; discriminate E].
  destruct (get (ags s) 0) as [A|] eqn:EA; [|vm_compute in E; injection E as <-; vm_compute in EA; discriminate EA].
  exists s, A. split; [eapply m_run_sound; [apply mrn_init|exact E]|].
  vm_compute in E. injection E as <-. vm_compute in EA. injection EA as <-.
  vm_compute. repeat split; try (intros Y; discriminate Y). left. reflexivity.
Qed.
