(* C19: handle types are Send exactly when that is sound, and never Sync.
   The domain (12 handle types x 4 payload classes x 4 closure classes) is finite; the statement is
   decided by computation over the trait-resolution model applied to the declarations that
   tools/traitscan.py regenerated from the source (Gen/Handles.v), and lifted with forallb_forall. *)
From Coq Require Import String List Bool.
Require Import MQ.TraitModel MQ.Gen.Handles.
Import ListNotations.

Definition send_of (h : handle) (p f : bool * bool) : bool :=
  holds structs impls FUELT (envof p f) TSend (inst h).
Definition sync_of (h : handle) (p f : bool * bool) : bool :=
  holds structs impls FUELT (envof p f) TSync (inst h).

Definition ok_entry (x : handle * (bool * bool) * (bool * bool)) : bool :=
  let '(h, p, f) := x in
  implb (wf h p) (Bool.eqb (send_of h p f) (expected_send h p f) && negb (sync_of h p f)).

Lemma all_ok : forallb ok_entry domain = true.
Proof. vm_compute. reflexivity. Qed.

Global Opaque send_of sync_of.

Lemma implb_true_l (b : bool) : implb true b = true -> b = true.
Proof. destruct b; simpl; auto. Qed.

Lemma in_domain h p f : In (h, p, f) domain.
Proof.
  unfold domain. apply in_prod; [apply in_prod|].
  - destruct h; simpl; tauto.
  - destruct p as [[] []]; simpl; tauto.
  - destruct f as [[] []]; simpl; tauto.
Qed.

Lemma entry_ok h p f : wf h p = true ->
  send_of h p f = expected_send h p f /\ sync_of h p f = false.
Proof.
  intros Hwf.
  pose proof (proj1 (forallb_forall ok_entry domain) all_ok _ (in_domain h p f)) as H.
  unfold ok_entry in H. rewrite Hwf in H.
  apply implb_true_l in H.
  apply andb_true_iff in H. destruct H as [H1 H2].
  apply eqb_prop in H1. apply negb_true_iff in H2. split; assumption.
Qed.

Theorem C19_send_iff : forall h p f, wf h p = true -> send_of h p f = expected_send h p f.
Proof. intros h p f H. exact (proj1 (entry_ok h p f H)). Qed.
Check C19_send_iff : forall h p f, wf h p = true -> send_of h p f = expected_send h p f.
Print Assumptions C19_send_iff.

Theorem C19_never_sync : forall h p f, wf h p = true -> sync_of h p f = false.
Proof. intros h p f H. exact (proj2 (entry_ok h p f H)). Qed.
Check C19_never_sync : forall h p f, wf h p = true -> sync_of h p f = false.
Print Assumptions C19_never_sync.

(* what the expected table says, spelled out: the property text *)
Theorem C19_expected_is_the_property : forall h p f,
  expected_send h p f = true <->
  (fst p = true /\ (is_broadcast h = true -> snd p = true) /\ (is_fut_uni h = true -> fst f = true)).
Proof.
  intros h [ps py] [fs fy]. unfold expected_send. simpl.
  destruct ps, py, fs, (is_broadcast h), (is_fut_uni h); simpl; intuition congruence.
Qed.
Check C19_expected_is_the_property : forall h p f,
  expected_send h p f = true <->
  (fst p = true /\ (is_broadcast h = true -> snd p = true) /\ (is_fut_uni h = true -> fst f = true)).
Print Assumptions C19_expected_is_the_property.

(* non-vacuity: the table has both outcomes, and the model really looks at the declarations *)
Example ex_C19_some_send : send_of MPMCFutUniReceiver (true, false) (true, false) = true.
Proof. vm_compute. reflexivity. Qed.
Example ex_C19_some_not_send : send_of BroadcastFutReceiver (true, false) (true, true) = false
                            /\ send_of MPMCFutUniReceiver (true, true) (false, false) = false
                            /\ send_of MPMCSender (false, true) (true, true) = false.
Proof. vm_compute. repeat split; reflexivity. Qed.
Example ex_C19_model_sees_impls :
  holds structs [] FUELT (envof (true, true) (true, true)) TSend (inst MPMCSender) = false.
Proof. vm_compute. reflexivity. Qed.
