From Coq Require Import NArith List.
Require Import MQ.Arith64 MQ.Types MQ.State MQ.Model MQ.Exec.
Import ListNotations.
Open Scope N_scope.
Theorem tmp_init_head : head (sh (init false)) = 0.
Proof. reflexivity. Qed.
Check tmp_init_head : head (sh (init false)) = 0.
Print Assumptions tmp_init_head.
