(* C01 Exactly-once delivery of every accepted value to every stream.
   Proved here, for all configurations, populations of handles and schedules (interleavings of micro-steps,
   states in the middle of calls included):
   - the head counter equals the number of claimed values (mod 2^63); every step either leaves the claim log
     alone or appends exactly the value of the claiming send (a claimed position is claimed once, by one send;
     refused sends claim nothing), including the single-writer path that stores the counter without a
     compare-exchange;
   - C01_stream_delivers_consecutive_positions: for every stream, the positions it has delivered, in the order
     of delivery, are consecutive and end just before its cursor: each position once, in order, no gap;
   - C01_delivered_value_is_log_entry: on the move-out flavour (MPMC, views included) every delivery recorded
     for position p handed the client exactly the p-th claimed value;
   - C01_broadcast_delivery_has_identity_of_log_entry: on the broadcast flavour every delivery recorded for
     position p handed the client a clone whose identity is the identity of the p-th claimed value;
   - C01_commit_reads_log_entry: on every flavour, a consumer at its committing step whose cursor is its
     attempt position holds the p-th claimed value (broadcast: the source its clone was made from);
   - C01_slot_holds_its_position: a slot whose tag is a position holds that position's value unless a writer
     has overwritten the cell and is about to publish.
   The last four are over [mreachN]: every execution without the publishing step of known finding F11
   (see Props/C03.v), with fewer than 2^62 handles ever created and fewer than 2^62 values ever claimed.
   (That the cell a clone or view is made from stays unchanged while it runs is Props/C04.v.)
   Not proved: the wrap-around of positions at 2^63. *)
From Coq Require Import NArith List Bool.
Require Import MQ.Arith64 MQ.Arith64Facts MQ.Types MQ.State MQ.Model MQ.Exec MQ.Reach MQ.Fields MQ.Ctl MQ.Count
  MQ.WritersStep MQ.InvWriters MQ.HeadStep MQ.InvHead MQ.RecvDefs MQ.InvReg MQ.WinStep MQ.WinDefs MQ.InvWin MQ.WinRun
  MQ.SlotDefs MQ.InvSlot MQ.InvDeliv MQ.InvSer.
Import ListNotations.
Open Scope N_scope.

Theorem C01_head_counts_claims : forall c fut s,
  reach c fut s -> lenN (ags s) < B62 -> head (sh s) = lenN (g_log (sh s)) mod MASK_IND.
Proof. exact head_is_log_length. Qed.
Check C01_head_counts_claims : forall c fut s,
  reach c fut s -> lenN (ags s) < B62 -> head (sh s) = lenN (g_log (sh s)) mod MASK_IND.
Print Assumptions C01_head_counts_claims.

Theorem C01_claim_appends_own_value : forall c me A S o, micro c me A S = Some o ->
  (head (o_s o) = head S /\ g_log (o_s o) = g_log S) \/
  ((a_pc A = P5 \/ (a_pc A = M5 /\ head S = r_h (a_r A))) /\
   head (o_s o) = next_count (r_h (a_r A)) /\ g_log (o_s o) = g_log S ++ [r_v (a_r A)]).
Proof. exact micro_head. Qed.
Check C01_claim_appends_own_value : forall c me A S o, micro c me A S = Some o ->
  (head (o_s o) = head S /\ g_log (o_s o) = g_log S) \/
  ((a_pc A = P5 \/ (a_pc A = M5 /\ head S = r_h (a_r A))) /\
   head (o_s o) = next_count (r_h (a_r A)) /\ g_log (o_s o) = g_log S ++ [r_v (a_r A)]).
Print Assumptions C01_claim_appends_own_value.

Theorem C01_single_writer_head_current : forall c fut s a A,
  reach c fut s -> lenN (ags s) < B62 -> get (ags s) a = Some A ->
  pp_pc (a_pc A) (a_stack A) = true -> r_h (a_r A) = head (sh s).
Proof.
  intros c fut s a A R Small. exact (proj1 (head_mreach c fut s (reach_mreach c fut s R) Small) a A).
Qed.
Check C01_single_writer_head_current : forall c fut s a A,
  reach c fut s -> lenN (ags s) < B62 -> get (ags s) a = Some A ->
  pp_pc (a_pc A) (a_stack A) = true -> r_h (a_r A) = head (sh s).
Print Assumptions C01_single_writer_head_current.

Example C01_witness :
  let c := mk_cfg MPMC 2 WBusy in
  let s := reach_by c false (Start 0 (CTrySend 5) :: repeat (Step 0) 6 ++ Start 0 (CTrySend 6) :: repeat (Step 0) 6) in
  head (sh s) = 2 /\ g_log (sh s) = [0; 1].
Proof. vm_compute. split; reflexivity. Qed.

(* ---- deliveries ---- *)
Theorem C01_stream_delivers_consecutive_positions : forall c fut s,
  0 < c_n c -> c_n c <= B61 -> mreachN c fut s ->
  lenN (ags s) < B62 -> lenN (g_log (sh s)) < B62 ->
  forall sg, let ps := dposs sg (g_deliv (sh s)) in
    ps = [] \/ (ps = seqN (hd 0 ps) (length ps) /\ gpos (sh s) sg = hd 0 ps + lenN ps).
Proof.
  intros c fut s Np Ns R S1 S2 sg.
  destruct (deliv_mreachN c Np Ns fut s R (conj S1 S2)) as (_ & DS & _). exact (DS sg).
Qed.
Check C01_stream_delivers_consecutive_positions : forall c fut s,
  0 < c_n c -> c_n c <= B61 -> mreachN c fut s ->
  lenN (ags s) < B62 -> lenN (g_log (sh s)) < B62 ->
  forall sg, let ps := dposs sg (g_deliv (sh s)) in
    ps = [] \/ (ps = seqN (hd 0 ps) (length ps) /\ gpos (sh s) sg = hd 0 ps + lenN ps).
Print Assumptions C01_stream_delivers_consecutive_positions.

Theorem C01_delivered_value_is_log_entry : forall c fut s,
  0 < c_n c -> c_n c <= B61 -> mreachN c fut s ->
  lenN (ags s) < B62 -> lenN (g_log (sh s)) < B62 ->
  forall sid p ser me, In (sid, p, ser, me) (g_deliv (sh s)) ->
    sid < nsid (sh s) /\ p < head (sh s) /\
    (is_bcast c = false -> nth_error (g_log (sh s)) (N.to_nat p) = Some ser).
Proof.
  intros c fut s Np Ns R S1 S2 sid p ser me IN.
  destruct (deliv_mreachN c Np Ns fut s R (conj S1 S2)) as (DV & _). exact (DV sid p ser me IN).
Qed.
Check C01_delivered_value_is_log_entry : forall c fut s,
  0 < c_n c -> c_n c <= B61 -> mreachN c fut s ->
  lenN (ags s) < B62 -> lenN (g_log (sh s)) < B62 ->
  forall sid p ser me, In (sid, p, ser, me) (g_deliv (sh s)) ->
    sid < nsid (sh s) /\ p < head (sh s) /\
    (is_bcast c = false -> nth_error (g_log (sh s)) (N.to_nat p) = Some ser).
Print Assumptions C01_delivered_value_is_log_entry.

Theorem C01_broadcast_delivery_has_identity_of_log_entry : forall c fut s,
  0 < c_n c -> c_n c <= B61 -> mreachN c fut s ->
  lenN (ags s) < B62 -> lenN (g_log (sh s)) < B62 -> is_bcast c = true ->
  forall sid p ser me, In (sid, p, ser, me) (g_deliv (sh s)) ->
    exists src, nth_error (g_log (sh s)) (N.to_nat p) = Some src /\ gid (sh s) ser = gid (sh s) src.
Proof.
  intros c fut s Np Ns R S1 S2 BC sid p ser me IN.
  destruct (ser_mreachN c Np Ns fut s R (conj S1 S2)) as ([_ _ G3] & _).
  destruct (G3 BC sid p ser me IN) as (_ & src & E1 & E2). exists src. split; [exact E1|exact E2].
Qed.
Check C01_broadcast_delivery_has_identity_of_log_entry : forall c fut s,
  0 < c_n c -> c_n c <= B61 -> mreachN c fut s ->
  lenN (ags s) < B62 -> lenN (g_log (sh s)) < B62 -> is_bcast c = true ->
  forall sid p ser me, In (sid, p, ser, me) (g_deliv (sh s)) ->
    exists src, nth_error (g_log (sh s)) (N.to_nat p) = Some src /\ gid (sh s) ser = gid (sh s) src.
Print Assumptions C01_broadcast_delivery_has_identity_of_log_entry.

(* [valof]: the register that holds what the consumer read from the cell (move-out: the value itself;
   broadcast: the source of the clone; view: the viewed value) *)
Theorem C01_commit_reads_log_entry : forall c fut s a A,
  0 < c_n c -> c_n c <= B61 -> mreachN c fut s ->
  lenN (ags s) < B62 -> lenN (g_log (sh s)) < B62 ->
  get (ags s) a = Some A -> (a_pc A = R12 \/ a_pc A = V4) ->
  gpos (sh s) (a_sid A) = r_p (a_r A) ->
  r_p (a_r A) < head (sh s) /\ nth_error (g_log (sh s)) (N.to_nat (r_p (a_r A))) = valof c A.
Proof.
  intros c fut s a A Np Ns R S1 S2 EA PC EP.
  destruct (slot_mreachN c Np Ns fut s R (conj S1 S2)) as (_ & SA & _).
  destruct (win_mreachN c Np Ns fut s R (conj S1 S2)) as (_ & IA).
  destruct (SA a A EA) as (_ & _ & _ & FA & _). destruct (IA a A EA) as (_ & _ & (_ & RA) & _).
  assert (RD : rdphase (a_pc A) = true) by (destruct PC as [-> | ->]; reflexivity).
  assert (MX : matched (a_pc A) = true) by (destruct PC as [-> | ->]; reflexivity).
  split; [exact (RA MX)|]. destruct (FA RD) as (_ & FV). exact (FV EP).
Qed.
Check C01_commit_reads_log_entry : forall c fut s a A,
  0 < c_n c -> c_n c <= B61 -> mreachN c fut s ->
  lenN (ags s) < B62 -> lenN (g_log (sh s)) < B62 ->
  get (ags s) a = Some A -> (a_pc A = R12 \/ a_pc A = V4) ->
  gpos (sh s) (a_sid A) = r_p (a_r A) ->
  r_p (a_r A) < head (sh s) /\ nth_error (g_log (sh s)) (N.to_nat (r_p (a_r A))) = valof c A.
Print Assumptions C01_commit_reads_log_entry.

Theorem C01_slot_holds_its_position : forall c fut s i,
  0 < c_n c -> c_n c <= B61 -> mreachN c fut s ->
  lenN (ags s) < B62 -> lenN (g_log (sh s)) < B62 ->
  gtag (sh s) i <> INITIAL_QUEUE_FLAG ->
  (forall a A, get (ags s) a = Some A -> a_pc A = P7 -> sl c (r_h (a_r A)) <> i) ->
  sl c (gtag (sh s) i) = i /\ gtag (sh s) i < head (sh s) /\
  nth_error (g_log (sh s)) (N.to_nat (gtag (sh s) i)) = get (cells (sh s)) i /\ get (cells (sh s)) i <> None.
Proof.
  intros c fut s i Np Ns R S1 S2 T NOP7.
  destruct (slot_mreachN c Np Ns fut s R (conj S1 S2)) as (SG & _ & CO & _).
  destruct (win_mreachN c Np Ns fut s R (conj S1 S2)) as (G & _).
  split; [exact (sg_own c _ SG i T)|].
  split; [destruct (w_tag_claimed c _ G i) as [T0 | T0]; [contradiction|exact T0]|].
  exact (CO i T NOP7).
Qed.
Check C01_slot_holds_its_position : forall c fut s i,
  0 < c_n c -> c_n c <= B61 -> mreachN c fut s ->
  lenN (ags s) < B62 -> lenN (g_log (sh s)) < B62 ->
  gtag (sh s) i <> INITIAL_QUEUE_FLAG ->
  (forall a A, get (ags s) a = Some A -> a_pc A = P7 -> sl c (r_h (a_r A)) <> i) ->
  sl c (gtag (sh s) i) = i /\ gtag (sh s) i < head (sh s) /\
  nth_error (g_log (sh s)) (N.to_nat (gtag (sh s) i)) = get (cells (sh s)) i /\ get (cells (sh s)) i <> None.
Print Assumptions C01_slot_holds_its_position.

(* non-vacuity: a move-out queue with two consumers on one stream, three values, all delivered in order;
   a broadcast queue with two streams *)
Example C01_delivery_witness :
  let c := mk_cfg MPMC 2 WBusy in
  exists s, mreachN c false s /\ lenN (ags s) < B62 /\ lenN (g_log (sh s)) < B62 /\
    g_log (sh s) = [0; 1; 2] /\ g_deliv (sh s) = [(0, 0, 0, 1); (0, 1, 1, 2); (0, 2, 2, 2)] /\
    dposs 0 (g_deliv (sh s)) = [0; 1; 2] /\ gpos (sh s) 0 = 3.
Proof.
  cbv zeta.
  destruct (m_run true (mk_cfg MPMC 2 WBusy) (init false)
              [MCall 0 (CTrySend 5) 60; MCall 0 (CTrySend 6) 60; MCall 1 (CClone 2) 60; MCall 1 CTryRecv 60;
               MCall 2 CTryRecv 60; MCall 0 (CTrySend 7) 60; MCall 2 CTryRecv 60]) as [s|] eqn:E; [|vm_compute in E; discriminate E].
  exists s. split; [eapply m_run_sound; [apply mrn_init|exact E]|].
  vm_compute in E. injection E as <-. vm_compute. repeat split; intros X; discriminate X.
Qed.

Example C01_delivery_witness_broadcast :
  let c := mk_cfg BCast 2 WBusy in
  exists s, mreachN c false s /\ lenN (ags s) < B62 /\ lenN (g_log (sh s)) < B62 /\
    dposs 0 (g_deliv (sh s)) = [0; 1] /\ dposs 1 (g_deliv (sh s)) = [0] /\ gpos (sh s) 0 = 2 /\ gpos (sh s) 1 = 1 /\
    g_deliv (sh s) = [(0, 0, 2, 1); (1, 0, 3, 2); (0, 1, 4, 1)] /\ g_log (sh s) = [0; 1] /\
    gid (sh s) 2 = gid (sh s) 0 /\ gid (sh s) 3 = gid (sh s) 0 /\ gid (sh s) 4 = gid (sh s) 1 /\ gid (sh s) 0 <> gid (sh s) 1.
Proof.
  cbv zeta.
  destruct (m_run true (mk_cfg BCast 2 WBusy) (init false)
              [MCall 0 (CTrySend 5) 60; MCall 1 (CAddStream 2) 60; MCall 0 (CTrySend 6) 60; MCall 1 CTryRecv 60;
               MCall 2 CTryRecv 60; MCall 1 CTryRecv 60]) as [s|] eqn:E; [|vm_compute in E; discriminate E].
  exists s. split; [eapply m_run_sound; [apply mrn_init|exact E]|].
  vm_compute in E. injection E as <-. vm_compute. repeat split; intros X; discriminate X.
Qed.
