(* C01 Exactly-once delivery of every accepted value to every stream.
   Proved here, for every reachable state with fewer than 2^62 handles ever created, all configurations,
   populations and schedules: the head counter equals the number of claimed values (mod 2^63), every step either
   leaves the claim log alone or appends exactly the value of the claiming send to it (so a claimed position is
   claimed once, by one send, and refused sends claim nothing), including the single-writer path that stores the
   counter without a compare-exchange.  Not proved: that what a stream delivers is the log segment from its start
   position (needs the slot/tag/cursor invariant, see MANIFEST level_note). *)
From Coq Require Import NArith List Bool.
Require Import MQ.Arith64 MQ.Arith64Facts MQ.Types MQ.State MQ.Model MQ.Exec MQ.Reach MQ.Fields MQ.Ctl MQ.Count
  MQ.WritersStep MQ.InvWriters MQ.HeadStep MQ.InvHead.
Import ListNotations.
Open Scope N_scope.

Theorem C01_head_counts_claims : forall c fut s,
  reach c fut s -> lenN (ags s) < B62 -> head (sh s) = lenN (g_log (sh s)) mod MASK_IND.
Proof. exact head_is_log_length. Qed.
Check C01_head_counts_claims : forall c fut s,
  reach c fut s -> lenN (ags s) < B62 -> head (sh s) = lenN (g_log (sh s)) mod MASK_IND.
Print Assumptions C01_head_counts_claims.

Theorem C01_claim_appends_own_value : forall c me A S o, micro c me A S = Some o ->
  (head (o_s o) = head S /\ g_log (o_s o) = g_log S) \/
  ((a_pc A = P5 \/ (a_pc A = M5 /\ head S = r_h (a_r A))) /\
   head (o_s o) = next_count (r_h (a_r A)) /\ g_log (o_s o) = g_log S ++ [r_v (a_r A)]).
Proof. exact micro_head. Qed.
Check C01_claim_appends_own_value : forall c me A S o, micro c me A S = Some o ->
  (head (o_s o) = head S /\ g_log (o_s o) = g_log S) \/
  ((a_pc A = P5 \/ (a_pc A = M5 /\ head S = r_h (a_r A))) /\
   head (o_s o) = next_count (r_h (a_r A)) /\ g_log (o_s o) = g_log S ++ [r_v (a_r A)]).
Print Assumptions C01_claim_appends_own_value.

Theorem C01_single_writer_head_current : forall c fut s a A,
  reach c fut s -> lenN (ags s) < B62 -> get (ags s) a = Some A ->
  pp_pc (a_pc A) (a_stack A) = true -> r_h (a_r A) = head (sh s).
Proof.
  intros c fut s a A R Small. exact (proj1 (head_mreach c fut s (reach_mreach c fut s R) Small) a A).
Qed.
Check C01_single_writer_head_current : forall c fut s a A,
  reach c fut s -> lenN (ags s) < B62 -> get (ags s) a = Some A ->
  pp_pc (a_pc A) (a_stack A) = true -> r_h (a_r A) = head (sh s).
Print Assumptions C01_single_writer_head_current.

Example C01_witness :
  let c := mk_cfg MPMC 2 WBusy in
  let s := reach_by c false (Start 0 (CTrySend 5) :: repeat (Step 0) 6 ++ Start 0 (CTrySend 6) :: repeat (Step 0) 6) in
  head (sh s) = 2 /\ g_log (sh s) = [0; 1].
Proof. vm_compute. split; reflexivity. Qed.
