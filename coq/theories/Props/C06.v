(* C06 Spurious Full/Empty is only transient: quiescent state equals the model.
   Proved here, over [mreachN] (all configurations, populations and interleavings of micro-steps, without the
   publishing step of known finding F11; fewer than 2^62 handles and claimed values): the two transient causes of a
   spurious answer are absent as soon as no operation is in the corresponding window - in particular in every
   quiescent state (all calls returned):
   - C06_outstanding_values_are_ready: when no send is between claiming and publishing, every outstanding position
     p of every registered stream (cursor <= p < head) has its slot tagged with exactly p, and the cell holds the
     p-th entry of the claim log: a receive at p finds its value - an Empty for a completely sent value can only
     be answered while a send is between its claim and its publication;
   - C06_no_slot_is_pinned: when no receiver holds a slot reference (between the increment and the decrement of the
     reference count), every reference count is zero: a send is not refused for a pinned slot - that refusal can
     only be answered while a receiver is inside its clone window;
   - C06_at_most_N_outstanding: no registered stream has more than N outstanding values and no cursor is ahead of
     the head counter (the window of Props/C03.v), so "N minus outstanding" further sends is a non-negative count.
   Not proved: that a try_send / try_recv run from such a state returns exactly the reference model's answer
   (needs the refinement of the whole call to the reference specification); that is compared on the real code by
   the correspondence and the reference-model oracle at the quiescent points of every trace. *)
From Coq Require Import NArith List Bool Lia.
Require Import MQ.Arith64 MQ.Arith64Facts MQ.Types MQ.State MQ.Model MQ.Exec MQ.Reach MQ.Ctl MQ.RecvDefs MQ.InvReg MQ.WinStep MQ.WinDefs MQ.InvWin MQ.WinRun
  MQ.SlotDefs MQ.InvSlot MQ.PinDefs MQ.Quiesce.
Import ListNotations.
Open Scope N_scope.

Theorem C06_outstanding_values_are_ready : forall c fut s sg p,
  0 < c_n c -> c_n c <= B61 -> mreachN c fut s -> lenN (ags s) < B62 -> lenN (g_log (sh s)) < B62 ->
  (forall a A, get (ags s) a = Some A -> wip (a_pc A) = false) ->
  In sg (streams (sh s)) -> gpos (sh s) sg <= p -> p < head (sh s) ->
  gtag (sh s) (sl c p) = p /\ get (cells (sh s)) (sl c p) = logat (sh s) p /\ logat (sh s) p <> None.
Proof. intros c fut s sg p Np Ns. exact (outstanding_ready c Np Ns fut s sg p). Qed.
Check C06_outstanding_values_are_ready : forall c fut s sg p,
  0 < c_n c -> c_n c <= B61 -> mreachN c fut s -> lenN (ags s) < B62 -> lenN (g_log (sh s)) < B62 ->
  (forall a A, get (ags s) a = Some A -> wip (a_pc A) = false) ->
  In sg (streams (sh s)) -> gpos (sh s) sg <= p -> p < head (sh s) ->
  gtag (sh s) (sl c p) = p /\ get (cells (sh s)) (sl c p) = logat (sh s) p /\ logat (sh s) p <> None.
Print Assumptions C06_outstanding_values_are_ready.

Theorem C06_no_slot_is_pinned : forall c fut s i,
  0 < c_n c -> c_n c <= B61 -> mreachN c fut s -> lenN (ags s) < B62 -> lenN (g_log (sh s)) < B62 ->
  (forall a A, get (ags s) a = Some A -> holds A = false) ->
  gpin (sh s) i = 0.
Proof. intros c fut s i Np Ns. exact (no_pins c Np Ns fut s i). Qed.
Check C06_no_slot_is_pinned : forall c fut s i,
  0 < c_n c -> c_n c <= B61 -> mreachN c fut s -> lenN (ags s) < B62 -> lenN (g_log (sh s)) < B62 ->
  (forall a A, get (ags s) a = Some A -> holds A = false) ->
  gpin (sh s) i = 0.
Print Assumptions C06_no_slot_is_pinned.

Theorem C06_at_most_N_outstanding : forall c fut s sg,
  0 < c_n c -> c_n c <= B61 -> mreachN c fut s -> lenN (ags s) < B62 -> lenN (g_log (sh s)) < B62 ->
  In sg (streams (sh s)) ->
  gpos (sh s) sg <= head (sh s) /\ head (sh s) <= gpos (sh s) sg + c_n c.
Proof.
  intros c fut s sg Np Ns R S1 S2 IN.
  destruct (win_mreachN c Np Ns fut s R (conj S1 S2)) as (G & _).
  pose proof (w_tail_le_cursor c _ G sg IN). pose proof (w_head_le_tail_n c _ G).
  pose proof (w_cursor_le_head c _ G sg IN). split; lia.
Qed.
Check C06_at_most_N_outstanding : forall c fut s sg,
  0 < c_n c -> c_n c <= B61 -> mreachN c fut s -> lenN (ags s) < B62 -> lenN (g_log (sh s)) < B62 ->
  In sg (streams (sh s)) ->
  gpos (sh s) sg <= head (sh s) /\ head (sh s) <= gpos (sh s) sg + c_n c.
Print Assumptions C06_at_most_N_outstanding.

(* non-vacuity: a quiescent state of a broadcast queue with two slots, two values sent, one received: position 1
   is outstanding on stream 0 *)
Example C06_quiescent_witness :
  let c := mk_cfg BCast 2 WBusy in
  exists s, mreachN c false s /\ 0 < c_n c /\ c_n c <= B61 /\ lenN (ags s) < B62 /\ lenN (g_log (sh s)) < B62 /\
    forallb (fun p => negb (wip (a_pc (snd p))) && negb (holds (snd p)) && match a_pc (snd p) with Idle => true | _ => false end) (ags s) = true /\
    In 0 (streams (sh s)) /\ gpos (sh s) 0 = 1 /\ head (sh s) = 2.
Proof.
  cbv zeta.
  destruct (m_run true (mk_cfg BCast 2 WBusy) (init false)
              [MCall 0 (CTrySend 7) 100; MCall 0 (CTrySend 8) 100; MCall 1 CTryRecv 100]) as [s|] eqn:E;
    [|vm_compute in E; discriminate E].
  exists s. split; [eapply m_run_sound; [apply mrn_init|exact E]|].
  vm_compute in E. injection E as <-. vm_compute. repeat split; try (intros Y; discriminate Y). left. reflexivity.
Qed.
