(* C13 With no receivers left, sends fail as Disconnected and never hang.
   Proved here, for all configurations, populations and schedules:
   (1) the NO_READER flag, once set, stays set across every step;
   (2) the first shared access of try_send loads the signal word into the register the test uses;
   (3) the test step of a send that loaded the flag returns Disconnected with the very value it was given and
       claims nothing (log and head unchanged);
   (4) in every reachable state whoever is past that test (in particular at the claiming steps) loaded a signal
       word without the flag.
   (5) C13_empty_list_flag_or_remover_on_its_way: in every reachable state in which the published stream list is
       empty, the flag is set, or an agent that has removed a stream from the list is still between that removal and
       its look at the list - and (C13_remover_sets_the_flag) such an agent stays on that path until it has looked
       at the list and, finding it empty, set the flag.  So once the list is empty and every drop/unsubscribe call
       has returned, the flag is set and, by (3), every later send is refused as Disconnected.
   Not proved: that the list is empty once the last receiver handle is gone (every registered stream has a holder
   or a remover; the converse - a held stream is registered - is Props/C10.v); that a sender blocked or parked at
   that moment is woken (C08/C14). *)
From Coq Require Import NArith List Bool.
Require Import MQ.Arith64 MQ.Types MQ.State MQ.Model MQ.Exec MQ.Reach MQ.Ctl MQ.RecvDefs MQ.InvReg MQ.SigStep MQ.InvSig MQ.SigStepB MQ.InvEmpty.
Import ListNotations.
Open Scope N_scope.

Theorem C13_no_reader_sticky : forall c s l s',
  step c s l = Some s' -> no_reader (sh s) = true -> no_reader (sh s') = true.
Proof. exact no_reader_sticky. Qed.
Check C13_no_reader_sticky : forall c s l s',
  step c s l = Some s' -> no_reader (sh s) = true -> no_reader (sh s') = true.
Print Assumptions C13_no_reader_sticky.

Theorem C13_send_loads_signal : forall c me A S o,
  micro c me A S = Some o -> a_pc A = TS0 -> r_sig (a_r (o_a o)) = signal S.
Proof. exact micro_ts0. Qed.
Check C13_send_loads_signal : forall c me A S o,
  micro c me A S = Some o -> a_pc A = TS0 -> r_sig (a_r (o_a o)) = signal S.
Print Assumptions C13_send_loads_signal.

Theorem C13_refused_as_disconnected : forall c me A S o,
  micro c me A S = Some o -> a_pc A = TS0b -> N.odd (r_sig (a_r A) / 2) = true ->
  r_res (a_r (o_a o)) = RDisc (r_v (a_r A)) /\ g_log (o_s o) = g_log S /\ head (o_s o) = head S.
Proof. exact micro_ts0b. Qed.
Check C13_refused_as_disconnected : forall c me A S o,
  micro c me A S = Some o -> a_pc A = TS0b -> N.odd (r_sig (a_r A) / 2) = true ->
  r_res (a_r (o_a o)) = RDisc (r_v (a_r A)) /\ g_log (o_s o) = g_log S /\ head (o_s o) = head S.
Print Assumptions C13_refused_as_disconnected.

Theorem C13_claims_only_with_readers : forall c fut s a A,
  reach c fut s -> get (ags s) a = Some A ->
  past_sig (a_pc A) = true -> N.odd (r_sig (a_r A) / 2) = false.
Proof. intros c fut s a A R. apply (past_test_saw_readers c fut). now apply reach_mreach. Qed.
Check C13_claims_only_with_readers : forall c fut s a A,
  reach c fut s -> get (ags s) a = Some A ->
  past_sig (a_pc A) = true -> N.odd (r_sig (a_r A) / 2) = false.
Print Assumptions C13_claims_only_with_readers.

(* non-vacuity: after the only receiver is dropped the flag is set and try_send reports Disconnected *)
Example C13_witness :
  let c := mk_cfg MPMC 4 WBusy in
  let s := reach_by c false (Start 1 CDrop :: repeat (Step 1) 23) in
  no_reader (sh s) = true /\
  exists A, get (ags (reach_by c false (Start 1 CDrop :: repeat (Step 1) 23 ++ Start 0 (CTrySend 7) :: Step 0 :: nil))) 0 = Some A
            /\ r_res (a_r A) = RDisc 0 /\ a_pc A = Idle.
Proof. vm_compute. split; [reflexivity|]. eexists. repeat split. Qed.

Theorem C13_empty_list_flag_or_remover_on_its_way : forall c fut s,
  mreach c fut s -> streams (sh s) = [] ->
  no_reader (sh s) = true \/ exists a A, get (ags s) a = Some A /\ dph A = true.
Proof. exact empty_mreach. Qed.
Check C13_empty_list_flag_or_remover_on_its_way : forall c fut s,
  mreach c fut s -> streams (sh s) = [] ->
  no_reader (sh s) = true \/ exists a A, get (ags s) a = Some A /\ dph A = true.
Print Assumptions C13_empty_list_flag_or_remover_on_its_way.

Theorem C13_remover_sets_the_flag : forall c me A S o,
  micro c me A S = Some o -> ctl_ok A = true -> dph A = true ->
  dph (o_a o) = true \/ (a_pc A = D6 /\ no_reader (o_s o) = true) \/ (a_pc A = D5 /\ ggroup S (cur S) <> []).
Proof. exact micro_dph. Qed.
Check C13_remover_sets_the_flag : forall c me A S o,
  micro c me A S = Some o -> ctl_ok A = true -> dph A = true ->
  dph (o_a o) = true \/ (a_pc A = D6 /\ no_reader (o_s o) = true) \/ (a_pc A = D5 /\ ggroup S (cur S) <> []).
Print Assumptions C13_remover_sets_the_flag.

Example C13_empty_witness :
  let c := mk_cfg MPMC 4 WBusy in
  let s := reach_by c false (Start 1 CDrop :: repeat (Step 1) 23) in
  streams (sh s) = [] /\ no_reader (sh s) = true.
Proof. vm_compute. split; reflexivity. Qed.
