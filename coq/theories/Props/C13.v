(* C13 With no receivers left, sends fail as Disconnected and never hang.
   Proved here, for all configurations, populations and schedules:
   (1) the NO_READER flag, once set, stays set across every step;
   (2) the first shared access of try_send loads the signal word into the register the test uses;
   (3) the test step of a send that loaded the flag returns Disconnected with the very value it was given and
       claims nothing (log and head unchanged);
   (4) in every reachable state whoever is past that test (in particular at the claiming steps) loaded a signal
       word without the flag.
   (5) C13_empty_list_flag_or_remover_on_its_way: in every reachable state in which the published stream list is
       empty, the flag is set, or an agent that has removed a stream from the list is still between that removal and
       its look at the list - and (C13_remover_sets_the_flag) such an agent stays on that path until it has looked
       at the list and, finding it empty, set the flag.  So once the list is empty and every drop/unsubscribe call
       has returned, the flag is set and, by (3), every later send is refused as Disconnected.
   (6) C13_all_receivers_gone_flag_set: in every state (of every execution without the F11 step, counters below
       2^62) in which no call is in progress and no receiver handle is alive, the flag is set - it rests on (5) and
       on C13_registered_stream_is_held: every stream in the published list is held by somebody (a handle, a clone
       in flight, a new stream's creator) or is being removed by the handle whose decrement found the count at one.
       By (3) every send that starts afterwards returns Disconnected with its value.
   Not proved: that a sender blocked or parked at that moment is woken (C08/C14). *)
From Coq Require Import NArith List Bool.
Require Import MQ.Arith64 MQ.Types MQ.State MQ.Model MQ.Exec MQ.Reach MQ.Ctl MQ.RecvDefs MQ.InvReg MQ.SigStep MQ.InvSig MQ.SigStepB MQ.InvEmpty MQ.Arith64Facts MQ.SumCount MQ.WinDefs MQ.InvWin MQ.WinRun MQ.HoldStepB MQ.InvHold MQ.InvGone.
Import ListNotations.
Open Scope N_scope.

Theorem C13_no_reader_sticky : forall c s l s',
  step c s l = Some s' -> no_reader (sh s) = true -> no_reader (sh s') = true.
Proof. exact no_reader_sticky. Qed.
Check C13_no_reader_sticky : forall c s l s',
  step c s l = Some s' -> no_reader (sh s) = true -> no_reader (sh s') = true.
Print Assumptions C13_no_reader_sticky.

Theorem C13_send_loads_signal : forall c me A S o,
  micro c me A S = Some o -> a_pc A = TS0 -> r_sig (a_r (o_a o)) = signal S.
Proof. exact micro_ts0. Qed.
Check C13_send_loads_signal : forall c me A S o,
  micro c me A S = Some o -> a_pc A = TS0 -> r_sig (a_r (o_a o)) = signal S.
Print Assumptions C13_send_loads_signal.

Theorem C13_refused_as_disconnected : forall c me A S o,
  micro c me A S = Some o -> a_pc A = TS0b -> N.odd (r_sig (a_r A) / 2) = true ->
  r_res (a_r (o_a o)) = RDisc (r_v (a_r A)) /\ g_log (o_s o) = g_log S /\ head (o_s o) = head S.
Proof. exact micro_ts0b. Qed.
Check C13_refused_as_disconnected : forall c me A S o,
  micro c me A S = Some o -> a_pc A = TS0b -> N.odd (r_sig (a_r A) / 2) = true ->
  r_res (a_r (o_a o)) = RDisc (r_v (a_r A)) /\ g_log (o_s o) = g_log S /\ head (o_s o) = head S.
Print Assumptions C13_refused_as_disconnected.

Theorem C13_claims_only_with_readers : forall c fut s a A,
  reach c fut s -> get (ags s) a = Some A ->
  past_sig (a_pc A) = true -> N.odd (r_sig (a_r A) / 2) = false.
Proof. intros c fut s a A R. apply (past_test_saw_readers c fut). now apply reach_mreach. Qed.
Check C13_claims_only_with_readers : forall c fut s a A,
  reach c fut s -> get (ags s) a = Some A ->
  past_sig (a_pc A) = true -> N.odd (r_sig (a_r A) / 2) = false.
Print Assumptions C13_claims_only_with_readers.

(* non-vacuity: after the only receiver is dropped the flag is set and try_send reports Disconnected *)
Example C13_witness :
  let c := mk_cfg MPMC 4 WBusy in
  let s := reach_by c false (Start 1 CDrop :: repeat (Step 1) 23) in
  no_reader (sh s) = true /\
  exists A, get (ags (reach_by c false (Start 1 CDrop :: repeat (Step 1) 23 ++ Start 0 (CTrySend 7) :: Step 0 :: nil))) 0 = Some A
            /\ r_res (a_r A) = RDisc 0 /\ a_pc A = Idle.
Proof. vm_compute. split; [reflexivity|]. eexists. repeat split. Qed.

Theorem C13_empty_list_flag_or_remover_on_its_way : forall c fut s,
  mreach c fut s -> streams (sh s) = [] ->
  no_reader (sh s) = true \/ exists a A, get (ags s) a = Some A /\ dph A = true.
Proof. exact empty_mreach. Qed.
Check C13_empty_list_flag_or_remover_on_its_way : forall c fut s,
  mreach c fut s -> streams (sh s) = [] ->
  no_reader (sh s) = true \/ exists a A, get (ags s) a = Some A /\ dph A = true.
Print Assumptions C13_empty_list_flag_or_remover_on_its_way.

Theorem C13_remover_sets_the_flag : forall c me A S o,
  micro c me A S = Some o -> ctl_ok A = true -> dph A = true ->
  dph (o_a o) = true \/ (a_pc A = D6 /\ no_reader (o_s o) = true) \/ (a_pc A = D5 /\ ggroup S (cur S) <> []).
Proof. exact micro_dph. Qed.
Check C13_remover_sets_the_flag : forall c me A S o,
  micro c me A S = Some o -> ctl_ok A = true -> dph A = true ->
  dph (o_a o) = true \/ (a_pc A = D6 /\ no_reader (o_s o) = true) \/ (a_pc A = D5 /\ ggroup S (cur S) <> []).
Print Assumptions C13_remover_sets_the_flag.

Example C13_empty_witness :
  let c := mk_cfg MPMC 4 WBusy in
  let s := reach_by c false (Start 1 CDrop :: repeat (Step 1) 23) in
  streams (sh s) = [] /\ no_reader (sh s) = true.
Proof. vm_compute. split; reflexivity. Qed.

Theorem C13_registered_stream_is_held : forall c fut s sg,
  0 < c_n c -> c_n c <= B61 -> mreachN c fut s ->
  lenN (ags s) < B62 -> lenN (g_log (sh s)) < B62 -> In sg (streams (sh s)) ->
  1 <= sumf (wt sg) (ags s) \/ exists a A, get (ags s) a = Some A /\ lastp sg A = true.
Proof. intros c fut s sg Np Ns R S1 S2 IN. exact (hold_mreachN c Np Ns fut s R (conj S1 S2) sg IN). Qed.
Check C13_registered_stream_is_held : forall c fut s sg,
  0 < c_n c -> c_n c <= B61 -> mreachN c fut s ->
  lenN (ags s) < B62 -> lenN (g_log (sh s)) < B62 -> In sg (streams (sh s)) ->
  1 <= sumf (wt sg) (ags s) \/ exists a A, get (ags s) a = Some A /\ lastp sg A = true.
Print Assumptions C13_registered_stream_is_held.

Theorem C13_all_receivers_gone_flag_set : forall c fut s,
  0 < c_n c -> c_n c <= B61 -> mreachN c fut s ->
  lenN (ags s) < B62 -> lenN (g_log (sh s)) < B62 ->
  (forall a A, get (ags s) a = Some A ->
     (a_pc A = Idle \/ a_pc A = Done) /\ (recv_role (a_role A) = true -> a_alive A = false)) ->
  no_reader (sh s) = true.
Proof. intros c fut s Np Ns R S1 S2 RG. exact (all_gone_flag c fut s Np Ns R (conj S1 S2) RG). Qed.
Check C13_all_receivers_gone_flag_set : forall c fut s,
  0 < c_n c -> c_n c <= B61 -> mreachN c fut s ->
  lenN (ags s) < B62 -> lenN (g_log (sh s)) < B62 ->
  (forall a A, get (ags s) a = Some A ->
     (a_pc A = Idle \/ a_pc A = Done) /\ (recv_role (a_role A) = true -> a_alive A = false)) ->
  no_reader (sh s) = true.
Print Assumptions C13_all_receivers_gone_flag_set.

(* non-vacuity: two receiver handles on two streams, both dropped; the premise of the theorem holds in that state *)
Example C13_gone_witness :
  let c := mk_cfg BCast 2 WBusy in
  exists s, mreachN c false s /\ lenN (ags s) < B62 /\ lenN (g_log (sh s)) < B62 /\
    (forall a A, get (ags s) a = Some A ->
       (a_pc A = Idle \/ a_pc A = Done) /\ (recv_role (a_role A) = true -> a_alive A = false)) /\
    streams (sh s) = [] /\ no_reader (sh s) = true /\ lenN (ags s) = 3.
Proof.
  cbv zeta.
  destruct (m_run true (mk_cfg BCast 2 WBusy) (init false)
              [MCall 1 (CAddStream 2) 60; MBegin 1 CDrop; MSteps 1 35; MBegin 2 CDrop; MSteps 2 35]) as [s|] eqn:E;
    [|vm_compute in E; discriminate E].
  exists s. split; [eapply m_run_sound; [apply mrn_init|exact E]|].
  vm_compute in E. injection E as <-.
  split; [vm_compute; reflexivity|]. split; [vm_compute; reflexivity|].
  split; [|vm_compute; repeat split; reflexivity].
  intros a A EA. unfold get in EA. cbn in EA.
  repeat (match type of EA with (if ?b then _ else _) = _ => destruct b end);
    try discriminate EA; injection EA as <-; cbn; (split; [auto|intros X; first [discriminate X|reflexivity]]).
Qed.
