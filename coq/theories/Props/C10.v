(* C10 add_stream starts at the parent position with no gap and no side effects.
   Proved here, for all configurations, populations of handles and schedules:
   - the allocating step of add_stream initialises the new cursor with the parent's cursor as it is at that step;
     no step of any agent writes the cursor of a stream still in flight (its creator is the only agent that knows
     it), so the stream is published with exactly that position; once published it is in the published list for
     as long as its creator or a handle holds it;
   - C10_deliveries_begin_at_start_without_gap: for every stream that has been published, the start position
     recorded by the publishing step is the cursor it was published with, and the positions the stream has
     delivered are exactly start, start+1, ... up to just before its cursor: nothing before the start, no gap,
     each once, in order (over [mreachN], counters below 2^62);
   - backpressure for the new stream: the window invariant of Props/C03.v holds for every registered stream,
     new ones included.
   All of it is for executions without the publishing step of known finding F11 (the parent cursor moved between
   the allocating step and the publishing step because a sibling handle of the parent received concurrently): in
   that case the start position is stale; see Props/C03.v for the refutation example. *)
From Coq Require Import NArith List Bool Lia.
Require Import MQ.Arith64 MQ.Arith64Facts MQ.Types MQ.State MQ.Model MQ.Exec MQ.Reach MQ.Ctl MQ.SumCount MQ.RecvDefs
  MQ.GroupStep MQ.GroupStep2 MQ.InvReg MQ.InvMisc MQ.WinDefs MQ.InvWin MQ.WinRun MQ.InvDeliv MQ.InvStart.
Import ListNotations.
Open Scope N_scope.

Theorem C10_starts_at_parent_position : forall c me A S o,
  micro c me A S = Some o -> a_pc A = A2 ->
  r_ng (a_r (o_a o)) = ngid S /\ r_ns (a_r (o_a o)) = nsid S /\ r_g (a_r (o_a o)) = r_g (a_r A) /\
  ggroup (o_s o) (ngid S) = ggroup S (r_g (a_r A)) ++ [nsid S] /\
  gpos (o_s o) (nsid S) = gpos S (a_sid A) /\ a_pc (o_a o) = A3.
Proof. exact micro_a2. Qed.
Check C10_starts_at_parent_position : forall c me A S o,
  micro c me A S = Some o -> a_pc A = A2 ->
  r_ng (a_r (o_a o)) = ngid S /\ r_ns (a_r (o_a o)) = nsid S /\ r_g (a_r (o_a o)) = r_g (a_r A) /\
  ggroup (o_s o) (ngid S) = ggroup S (r_g (a_r A)) ++ [nsid S] /\
  gpos (o_s o) (nsid S) = gpos S (a_sid A) /\ a_pc (o_a o) = A3.
Print Assumptions C10_starts_at_parent_position.

Theorem C10_position_kept_until_first_handle : forall c fut s a A x X o,
  reach c fut s -> lenN (ags s) < B62 -> get (ags s) a = Some A -> nphase A = true ->
  get (ags s) x = Some X -> micro c x X (sh s) = Some o ->
  gpos (o_s o) (r_ns (a_r A)) = gpos (sh s) (r_ns (a_r A)).
Proof. intros c fut s a A x X o R. apply (inflight_cursor_untouched c fut). now apply reach_mreach. Qed.
Check C10_position_kept_until_first_handle : forall c fut s a A x X o,
  reach c fut s -> lenN (ags s) < B62 -> get (ags s) a = Some A -> nphase A = true ->
  get (ags s) x = Some X -> micro c x X (sh s) = Some o ->
  gpos (o_s o) (r_ns (a_r A)) = gpos (sh s) (r_ns (a_r A)).
Print Assumptions C10_position_kept_until_first_handle.

Theorem C10_published_stream_is_registered : forall c fut s a A,
  reach c fut s -> lenN (ags s) < B62 -> get (ags s) a = Some A ->
  (pubphase A = true -> In (r_ns (a_r A)) (streams (sh s))) /\
  (forall sg, w_h sg A = true -> In sg (streams (sh s))).
Proof.
  intros c fut s a A R Small EA.
  destruct (reg_mreach c fut s (reach_mreach c fut s R) Small) as (_ & R1 & R2).
  split; [apply (R2 a A EA)|intros sg; apply (R1 a A sg EA)].
Qed.
Check C10_published_stream_is_registered : forall c fut s a A,
  reach c fut s -> lenN (ags s) < B62 -> get (ags s) a = Some A ->
  (pubphase A = true -> In (r_ns (a_r A)) (streams (sh s))) /\
  (forall sg, w_h sg A = true -> In sg (streams (sh s))).
Print Assumptions C10_published_stream_is_registered.

Example C10_witness :
  let c := mk_cfg BCast 2 WBusy in
  let s := reach_by c false (Start 0 (CTrySend 5) :: repeat (Step 0) 7 ++ Start 1 CTryRecv :: repeat (Step 1) 6
                             ++ Start 1 (CAddStream 2) :: repeat (Step 1) 12) in
  streams (sh s) = [0; 1] /\ gpos (sh s) 1 = 1 /\ gpos (sh s) 0 = 1.
Proof. vm_compute. repeat split. Qed.

(* ---- deliveries of a stream begin at its start position ---- *)
Theorem C10_deliveries_begin_at_start_without_gap : forall c fut s,
  0 < c_n c -> c_n c <= B61 -> mreachN c fut s ->
  lenN (ags s) < B62 -> lenN (g_log (sh s)) < B62 ->
  (forall sg, In sg (streams (sh s)) -> get (g_start (sh s)) sg <> None) /\
  (forall sg st, get (g_start (sh s)) sg = Some st ->
     let ps := dposs sg (g_deliv (sh s)) in
     ps = seqN st (length ps) /\ gpos (sh s) sg = st + lenN ps) /\
  (forall sid p ser me, In (sid, p, ser, me) (g_deliv (sh s)) -> get (g_start (sh s)) sid <> None).
Proof.
  intros c fut s Np Ns R S1 S2.
  destruct (start_mreachN c Np Ns fut s R (conj S1 S2)) as [G1 G2 G3 G4 G5].
  destruct (deliv_mreachN c Np Ns fut s R (conj S1 S2)) as (_ & DS & _).
  split; [exact G3|]. split; [|exact G5].
  intros sg st E ps. pose proof (G4 sg st E) as EP. fold ps in EP. split; [|exact EP].
  destruct (DS sg) as [E0 | (E1 & E2)]; fold ps in E0 || fold ps in E1, E2.
  - rewrite E0. reflexivity.
  - destruct ps as [|h t] eqn:EPS; [reflexivity|]. cbn [hd] in E1, E2.
    assert (h = st) by lia. subst h. exact E1.
Qed.
Check C10_deliveries_begin_at_start_without_gap : forall c fut s,
  0 < c_n c -> c_n c <= B61 -> mreachN c fut s ->
  lenN (ags s) < B62 -> lenN (g_log (sh s)) < B62 ->
  (forall sg, In sg (streams (sh s)) -> get (g_start (sh s)) sg <> None) /\
  (forall sg st, get (g_start (sh s)) sg = Some st ->
     let ps := dposs sg (g_deliv (sh s)) in
     ps = seqN st (length ps) /\ gpos (sh s) sg = st + lenN ps) /\
  (forall sid p ser me, In (sid, p, ser, me) (g_deliv (sh s)) -> get (g_start (sh s)) sid <> None).
Print Assumptions C10_deliveries_begin_at_start_without_gap.

(* what the publishing step records as the start is the cursor the stream is published with *)
Theorem C10_start_is_published_cursor : forall c me A S o,
  micro c me A S = Some o ->
  g_start (o_s o) = g_start S \/
  (a_pc A = A3 /\ cur S = r_g (a_r A) /\
   g_start (o_s o) = put (g_start S) (r_ns (a_r A)) (gpos S (r_ns (a_r A)))).
Proof. exact SlotStepF.micro_gstart. Qed.
Check C10_start_is_published_cursor : forall c me A S o,
  micro c me A S = Some o ->
  g_start (o_s o) = g_start S \/
  (a_pc A = A3 /\ cur S = r_g (a_r A) /\
   g_start (o_s o) = put (g_start S) (r_ns (a_r A)) (gpos S (r_ns (a_r A)))).
Print Assumptions C10_start_is_published_cursor.

(* non-vacuity: stream 1 is added after one value was consumed on stream 0: it starts at position 1 and delivers 1, 2 *)
Example C10_start_witness :
  let c := mk_cfg BCast 4 WBusy in
  exists s, mreachN c false s /\ lenN (ags s) < B62 /\ lenN (g_log (sh s)) < B62 /\
    get (g_start (sh s)) 1 = Some 1 /\ dposs 1 (g_deliv (sh s)) = [1; 2] /\ gpos (sh s) 1 = 3 /\
    dposs 0 (g_deliv (sh s)) = [0].
Proof.
  cbv zeta.
  destruct (m_run true (mk_cfg BCast 4 WBusy) (init false)
              [MCall 0 (CTrySend 5) 60; MCall 0 (CTrySend 6) 60; MCall 0 (CTrySend 7) 60; MCall 1 CTryRecv 60;
               MCall 1 (CAddStream 2) 60; MCall 2 CTryRecv 60; MCall 2 CTryRecv 60]) as [s|] eqn:E; [|vm_compute in E; discriminate E].
  exists s. split; [eapply m_run_sound; [apply mrn_init|exact E]|].
  vm_compute in E. injection E as <-. vm_compute. repeat split; intros X; discriminate X.
Qed.
