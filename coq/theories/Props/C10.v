(* C10 add_stream starts at the parent position with no gap and no side effects.
   Proved here, for every reachable state (fewer than 2^62 handles ever created), all configurations and schedules:
   the allocating step of add_stream initialises the new cursor with the parent's cursor as it is at that step;
   no step of any agent writes the cursor of a stream that is still in flight (its creator is the only agent that
   knows it), so the stream is published with exactly that position; once published it is in the published list for
   as long as its creator or a handle holds it.  Not proved: delivery without gap from there on and 'no loss of
   backpressure' (window invariant; for a parent shared with a concurrently receiving sibling this is the known
   finding F11). *)
From Coq Require Import NArith List Bool.
Require Import MQ.Arith64 MQ.Arith64Facts MQ.Types MQ.State MQ.Model MQ.Exec MQ.Reach MQ.Ctl MQ.SumCount MQ.RecvDefs
  MQ.GroupStep MQ.GroupStep2 MQ.InvReg MQ.InvMisc.
Import ListNotations.
Open Scope N_scope.

Theorem C10_starts_at_parent_position : forall c me A S o,
  micro c me A S = Some o -> a_pc A = A2 ->
  r_ng (a_r (o_a o)) = ngid S /\ r_ns (a_r (o_a o)) = nsid S /\ r_g (a_r (o_a o)) = r_g (a_r A) /\
  ggroup (o_s o) (ngid S) = ggroup S (r_g (a_r A)) ++ [nsid S] /\
  gpos (o_s o) (nsid S) = gpos S (a_sid A) /\ a_pc (o_a o) = A3.
Proof. exact micro_a2. Qed.
Check C10_starts_at_parent_position : forall c me A S o,
  micro c me A S = Some o -> a_pc A = A2 ->
  r_ng (a_r (o_a o)) = ngid S /\ r_ns (a_r (o_a o)) = nsid S /\ r_g (a_r (o_a o)) = r_g (a_r A) /\
  ggroup (o_s o) (ngid S) = ggroup S (r_g (a_r A)) ++ [nsid S] /\
  gpos (o_s o) (nsid S) = gpos S (a_sid A) /\ a_pc (o_a o) = A3.
Print Assumptions C10_starts_at_parent_position.

Theorem C10_position_kept_until_first_handle : forall c fut s a A x X o,
  reach c fut s -> lenN (ags s) < B62 -> get (ags s) a = Some A -> nphase A = true ->
  get (ags s) x = Some X -> micro c x X (sh s) = Some o ->
  gpos (o_s o) (r_ns (a_r A)) = gpos (sh s) (r_ns (a_r A)).
Proof. intros c fut s a A x X o R. apply (inflight_cursor_untouched c fut). now apply reach_mreach. Qed.
Check C10_position_kept_until_first_handle : forall c fut s a A x X o,
  reach c fut s -> lenN (ags s) < B62 -> get (ags s) a = Some A -> nphase A = true ->
  get (ags s) x = Some X -> micro c x X (sh s) = Some o ->
  gpos (o_s o) (r_ns (a_r A)) = gpos (sh s) (r_ns (a_r A)).
Print Assumptions C10_position_kept_until_first_handle.

Theorem C10_published_stream_is_registered : forall c fut s a A,
  reach c fut s -> lenN (ags s) < B62 -> get (ags s) a = Some A ->
  (pubphase A = true -> In (r_ns (a_r A)) (streams (sh s))) /\
  (forall sg, w_h sg A = true -> In sg (streams (sh s))).
Proof.
  intros c fut s a A R Small EA.
  destruct (reg_mreach c fut s (reach_mreach c fut s R) Small) as (_ & R1 & R2).
  split; [apply (R2 a A EA)|intros sg; apply (R1 a A sg EA)].
Qed.
Check C10_published_stream_is_registered : forall c fut s a A,
  reach c fut s -> lenN (ags s) < B62 -> get (ags s) a = Some A ->
  (pubphase A = true -> In (r_ns (a_r A)) (streams (sh s))) /\
  (forall sg, w_h sg A = true -> In sg (streams (sh s))).
Print Assumptions C10_published_stream_is_registered.

Example C10_witness :
  let c := mk_cfg BCast 2 WBusy in
  let s := reach_by c false (Start 0 (CTrySend 5) :: repeat (Step 0) 7 ++ Start 1 CTryRecv :: repeat (Step 1) 6
                             ++ Start 1 (CAddStream 2) :: repeat (Step 1) 12) in
  streams (sh s) = [0; 1] /\ gpos (sh s) 1 = 1 /\ gpos (sh s) 0 = 1.
Proof. vm_compute. repeat split. Qed.
