(* C07 Sender disconnect: every stream drains everything, then sees the end.
   Proved here, for all configurations, populations of handles and schedules:
   - the writers counter that the receivers test before reporting the end equals the number of live sender
     handles (zero only when no sender handle is alive; a sender handle that exists keeps it positive), through
     every clone and drop at any moment, and once zero it stays zero;
   - C07_end_reported_only_when_drained: whenever a step of a receive (try_recv, recv, try_recv_view, recv_view,
     poll: they all run the same attempt) turns the result into "disconnected", no sender handle is alive and the
     cursor of the handle's stream equals the head counter: every value ever claimed has been consumed on that
     stream (with Props/C01.v: delivered, each once, in order);
   - C07_nothing_pending_without_senders: with no sender handle alive every claimed position is published (no
     send is between claiming and publishing), so a consumer never waits for a value that will not come.
   - C07_nothing_is_claimed_without_senders: with no sender handle alive no step claims a position: the head
     counter, the claim log and the zero writers count stay as they are;
   - C07_end_is_stable: with no sender handle alive a registered stream whose cursor equals the head counter keeps
     cursor = head across every step of any agent - a drained stream stays drained, the end once reached is
     reached for good (the Stream's None is stable, C15);
   - C07_drained_attempt_reports_end: on such a stream every own step of a receive attempt that has loaded the
     cursor moves strictly down the chain tag test -> writers test -> second tag test -> position re-check without
     touching shared memory, and the last step sets the result to "disconnected": the attempt reports the end
     within four own steps whatever the other agents do in between (their steps keep the state drained).
   All but the counter facts are over [mreachN] (every execution without the publishing step of known finding F11)
   with fewer than 2^62 handles and claimed values.  That a blocked or parked consumer is woken when the last
   sender goes is Props/C08.v (blocking wait) and Props/C14.v (parked stream task): the wait condition holds as
   soon as the writers count is zero. *)
From Coq Require Import NArith List Bool.
Require Import MQ.Arith64 MQ.Arith64Facts MQ.Types MQ.State MQ.Model MQ.Exec MQ.Reach MQ.Ctl MQ.Count MQ.WritersStep MQ.InvWriters MQ.InvMisc
  MQ.RecvDefs MQ.InvReg MQ.WinStep MQ.WinDefs MQ.InvWin MQ.WinRun MQ.SlotDefs MQ.InvSlot MQ.InvPub MQ.SlotStepH MQ.SlotStepI MQ.InvEnd MQ.EndStep MQ.EndStable.
Import ListNotations.
Open Scope N_scope.

Theorem C07_writers_counts_live_senders : forall c fut s,
  reach c fut s -> lenN (ags s) < B62 -> writers (sh s) = cnt cs (ags s).
Proof. intros c fut s R Small. exact (proj1 (proj2 (iw_reach c fut s R) Small)). Qed.
Check C07_writers_counts_live_senders : forall c fut s,
  reach c fut s -> lenN (ags s) < B62 -> writers (sh s) = cnt cs (ags s).
Print Assumptions C07_writers_counts_live_senders.

Theorem C07_live_sender_keeps_it_positive : forall c fut s a A,
  reach c fut s -> lenN (ags s) < B62 -> get (ags s) a = Some A -> cs a A = true -> 1 <= writers (sh s).
Proof.
  intros c fut s a A R Small G C.
  rewrite (proj1 (proj2 (iw_reach c fut s R) Small)). eapply cnt_get_pos; eauto.
Qed.
Check C07_live_sender_keeps_it_positive : forall c fut s a A,
  reach c fut s -> lenN (ags s) < B62 -> get (ags s) a = Some A -> cs a A = true -> 1 <= writers (sh s).
Print Assumptions C07_live_sender_keeps_it_positive.

Theorem C07_zero_is_final : forall c fut s a A o,
  reach c fut s -> lenN (ags s) < B62 -> get (ags s) a = Some A ->
  micro c a A (sh s) = Some o -> writers (sh s) = 0 -> writers (o_s o) = 0.
Proof. intros c fut s a A o R. apply (writers_zero_stable c fut). now apply reach_mreach. Qed.
Check C07_zero_is_final : forall c fut s a A o,
  reach c fut s -> lenN (ags s) < B62 -> get (ags s) a = Some A ->
  micro c a A (sh s) = Some o -> writers (sh s) = 0 -> writers (o_s o) = 0.
Print Assumptions C07_zero_is_final.

Example C07_witness :
  let c := mk_cfg MPMC 2 WBusy in
  let s := reach_by c false (Start 0 CDrop :: repeat (Step 0) 40) in
  writers (sh s) = 0 /\ cnt cs (ags s) = 0.
Proof. vm_compute. split; reflexivity. Qed.

(* ---- the end is reported only when the stream is drained ---- *)
Theorem C07_end_reported_only_when_drained : forall c fut s x X o,
  0 < c_n c -> c_n c <= B61 -> mreachN c fut s ->
  lenN (ags s) < B62 -> lenN (g_log (sh s)) < B62 ->
  get (ags s) x = Some X -> micro c x X (sh s) = Some o ->
  (a_pc X = R6 \/ a_pc X = R6b \/ a_pc X = V6) ->
  is_discon (r_res (a_r X)) = false -> is_discon (r_res (a_r (o_a o))) = true ->
  writers (sh s) = 0 /\ gpos (sh s) (a_sid X) = head (sh s).
Proof.
  intros c fut s x X o Np Ns R S1 S2 EX M PC D0 D1.
  exact (end_reported_when_drained c Np Ns fut s x X o R (conj S1 S2) EX M PC D0 D1).
Qed.
Check C07_end_reported_only_when_drained : forall c fut s x X o,
  0 < c_n c -> c_n c <= B61 -> mreachN c fut s ->
  lenN (ags s) < B62 -> lenN (g_log (sh s)) < B62 ->
  get (ags s) x = Some X -> micro c x X (sh s) = Some o ->
  (a_pc X = R6 \/ a_pc X = R6b \/ a_pc X = V6) ->
  is_discon (r_res (a_r X)) = false -> is_discon (r_res (a_r (o_a o))) = true ->
  writers (sh s) = 0 /\ gpos (sh s) (a_sid X) = head (sh s).
Print Assumptions C07_end_reported_only_when_drained.

Theorem C07_nothing_pending_without_senders : forall c fut s,
  0 < c_n c -> c_n c <= B61 -> mreachN c fut s ->
  lenN (ags s) < B62 -> lenN (g_log (sh s)) < B62 -> writers (sh s) = 0 ->
  forall q, q < head (sh s) ->
    gtag (sh s) (sl c q) <> INITIAL_QUEUE_FLAG /\ q <= gtag (sh s) (sl c q).
Proof.
  intros c fut s Np Ns R S1 S2 W0 q L.
  exact (all_published_when_no_writer c Np Ns fut s R (conj S1 S2) W0 q L).
Qed.
Check C07_nothing_pending_without_senders : forall c fut s,
  0 < c_n c -> c_n c <= B61 -> mreachN c fut s ->
  lenN (ags s) < B62 -> lenN (g_log (sh s)) < B62 -> writers (sh s) = 0 ->
  forall q, q < head (sh s) ->
    gtag (sh s) (sl c q) <> INITIAL_QUEUE_FLAG /\ q <= gtag (sh s) (sl c q).
Print Assumptions C07_nothing_pending_without_senders.

(* the only steps that set the result "disconnected" in a receive are those three *)
Example C07_end_witness :
  let c := mk_cfg BCast 2 WBusy in
  exists s X o, mreachN c false s /\ lenN (ags s) < B62 /\ lenN (g_log (sh s)) < B62 /\
    get (ags s) 1 = Some X /\ micro c 1 X (sh s) = Some o /\ a_pc X = R6 /\
    is_discon (r_res (a_r X)) = false /\ is_discon (r_res (a_r (o_a o))) = true /\
    writers (sh s) = 0 /\ gpos (sh s) 0 = 1 /\ head (sh s) = 1.
Proof.
  cbv zeta.
  destruct (m_run true (mk_cfg BCast 2 WBusy) (init false)
              [MCall 0 (CTrySend 5) 60; MBegin 0 CDrop; MSteps 0 12; MCall 1 CTryRecv 60; MBegin 1 CTryRecv; MSteps 1 7])
    as [s|] eqn:E; [|vm_compute in E; discriminate E].
  destruct (get (ags s) 1) as [X|] eqn:EX; [|vm_compute in E; injection E as <-; vm_compute in EX; discriminate EX].
  destruct (micro (mk_cfg BCast 2 WBusy) 1 X (sh s)) as [o|] eqn:EM;
    [|vm_compute in E; injection E as <-; vm_compute in EX; injection EX as <-; vm_compute in EM; discriminate EM].
  exists s, X, o. split; [eapply m_run_sound; [apply mrn_init|exact E]|].
  vm_compute in E. injection E as <-. vm_compute in EX. injection EX as <-. vm_compute in EM. injection EM as <-.
  vm_compute. repeat split; intros Y; discriminate Y.
Qed.

(* ---- after the last sender: nothing is claimed, a drained stream stays drained, an attempt reports the end ---- *)
Theorem C07_nothing_is_claimed_without_senders : forall c fut s x X o,
  mreach c fut s -> lenN (ags s) < B62 -> get (ags s) x = Some X -> micro c x X (sh s) = Some o ->
  writers (sh s) = 0 ->
  writers (o_s o) = 0 /\ head (o_s o) = head (sh s) /\ g_log (o_s o) = g_log (sh s).
Proof. exact no_claim_without_senders. Qed.
Check C07_nothing_is_claimed_without_senders : forall c fut s x X o,
  mreach c fut s -> lenN (ags s) < B62 -> get (ags s) x = Some X -> micro c x X (sh s) = Some o ->
  writers (sh s) = 0 ->
  writers (o_s o) = 0 /\ head (o_s o) = head (sh s) /\ g_log (o_s o) = g_log (sh s).
Print Assumptions C07_nothing_is_claimed_without_senders.

Theorem C07_end_is_stable : forall c fut s x X o sg,
  0 < c_n c -> c_n c <= B61 -> mreachN c fut s ->
  lenN (ags (apply1 s x o)) < B62 -> lenN (g_log (sh s)) < B62 ->
  get (ags s) x = Some X -> (is_local (a_pc X) = true \/ enabled x X (sh s) = true) ->
  micro c x X (sh s) = Some o -> new_ok s x o = true -> ~ f11_bad (sh s) X ->
  writers (sh s) = 0 -> gpos (sh s) sg = head (sh s) -> In sg (streams (o_s o)) ->
  writers (o_s o) = 0 /\ head (o_s o) = head (sh s) /\ g_log (o_s o) = g_log (sh s) /\ gpos (o_s o) sg = head (o_s o).
Proof. exact end_state_stable. Qed.
Check C07_end_is_stable : forall c fut s x X o sg,
  0 < c_n c -> c_n c <= B61 -> mreachN c fut s ->
  lenN (ags (apply1 s x o)) < B62 -> lenN (g_log (sh s)) < B62 ->
  get (ags s) x = Some X -> (is_local (a_pc X) = true \/ enabled x X (sh s) = true) ->
  micro c x X (sh s) = Some o -> new_ok s x o = true -> ~ f11_bad (sh s) X ->
  writers (sh s) = 0 -> gpos (sh s) sg = head (sh s) -> In sg (streams (o_s o)) ->
  writers (o_s o) = 0 /\ head (o_s o) = head (sh s) /\ g_log (o_s o) = g_log (sh s) /\ gpos (o_s o) sg = head (o_s o).
Print Assumptions C07_end_is_stable.

Theorem C07_drained_attempt_reports_end : forall c fut s x X o,
  0 < c_n c -> c_n c <= B61 -> mreachN c fut s -> lenN (ags s) < B62 -> lenN (g_log (sh s)) < B62 ->
  get (ags s) x = Some X -> micro c x X (sh s) = Some o ->
  writers (sh s) = 0 -> 0 < end_rank (a_pc X) ->
  r_p (a_r X) = head (sh s) -> gpos (sh s) (a_sid X) = head (sh s) ->
  r_res (a_r (o_a o)) = RDiscon \/
  (0 < end_rank (a_pc (o_a o)) /\ end_rank (a_pc (o_a o)) < end_rank (a_pc X) /\
   r_p (a_r (o_a o)) = r_p (a_r X) /\ a_sid (o_a o) = a_sid X /\ a_stack (o_a o) = a_stack X /\ o_s o = sh s).
Proof. exact end_attempt_reports_end. Qed.
Check C07_drained_attempt_reports_end : forall c fut s x X o,
  0 < c_n c -> c_n c <= B61 -> mreachN c fut s -> lenN (ags s) < B62 -> lenN (g_log (sh s)) < B62 ->
  get (ags s) x = Some X -> micro c x X (sh s) = Some o ->
  writers (sh s) = 0 -> 0 < end_rank (a_pc X) ->
  r_p (a_r X) = head (sh s) -> gpos (sh s) (a_sid X) = head (sh s) ->
  r_res (a_r (o_a o)) = RDiscon \/
  (0 < end_rank (a_pc (o_a o)) /\ end_rank (a_pc (o_a o)) < end_rank (a_pc X) /\
   r_p (a_r (o_a o)) = r_p (a_r X) /\ a_sid (o_a o) = a_sid X /\ a_stack (o_a o) = a_stack X /\ o_s o = sh s).
Print Assumptions C07_drained_attempt_reports_end.

(* non-vacuity: one value sent and received, the sender dropped; the receiver's next attempt has loaded the cursor
   (= head = 1) and is at the tag test *)
Example C07_drained_attempt_witness :
  let c := mk_cfg MPMC 2 WBusy in
  exists s X, mreachN c false s /\ lenN (ags s) < B62 /\ lenN (g_log (sh s)) < B62 /\
    get (ags s) 1 = Some X /\ a_pc X = R4 /\ end_rank (a_pc X) = 4 /\ writers (sh s) = 0 /\
    r_p (a_r X) = head (sh s) /\ gpos (sh s) (a_sid X) = head (sh s) /\ head (sh s) = 1 /\ In (a_sid X) (streams (sh s)).
Proof.
  cbv zeta.
  destruct (m_run true (mk_cfg MPMC 2 WBusy) (init false)
              [MCall 0 (CTrySend 7) 100; MCall 1 CTryRecv 100; MBegin 0 CDrop; MSteps 0 12; MBegin 1 CTryRecv; MSteps 1 5])
    as [s|] eqn:E; [|vm_compute in E; discriminate E].
  destruct (get (ags s) 1) as [X|] eqn:EX; [|vm_compute in E; injection E as <-; vm_compute in EX; discriminate EX].
  exists s, X. split; [eapply m_run_sound; [apply mrn_init|exact E]|].
  vm_compute in E. injection E as <-. vm_compute in EX. injection EX as <-.
  vm_compute. repeat split; try (intros Y; discriminate Y). left. reflexivity.
Qed.
