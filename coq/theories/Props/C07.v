(* C07 Sender disconnect: every stream drains everything, then sees the end.
   Proved here, for every reachable state with fewer than 2^62 handles ever created: the writers counter that the
   receivers test before reporting the end equals the number of live sender handles (so it is zero only when no
   sender handle is alive, and a sender handle that exists keeps it positive), through every clone and drop at
   any moment.  Not proved: that the stream is drained when the end is reported (needs the slot/tag invariant). *)
From Coq Require Import NArith List Bool.
Require Import MQ.Arith64 MQ.Arith64Facts MQ.Types MQ.State MQ.Model MQ.Exec MQ.Reach MQ.Ctl MQ.Count MQ.WritersStep MQ.InvWriters MQ.InvMisc.
Open Scope N_scope.

Theorem C07_writers_counts_live_senders : forall c fut s,
  reach c fut s -> lenN (ags s) < B62 -> writers (sh s) = cnt cs (ags s).
Proof. intros c fut s R Small. exact (proj1 (proj2 (iw_reach c fut s R) Small)). Qed.
Check C07_writers_counts_live_senders : forall c fut s,
  reach c fut s -> lenN (ags s) < B62 -> writers (sh s) = cnt cs (ags s).
Print Assumptions C07_writers_counts_live_senders.

Theorem C07_live_sender_keeps_it_positive : forall c fut s a A,
  reach c fut s -> lenN (ags s) < B62 -> get (ags s) a = Some A -> cs a A = true -> 1 <= writers (sh s).
Proof.
  intros c fut s a A R Small G C.
  rewrite (proj1 (proj2 (iw_reach c fut s R) Small)). eapply cnt_get_pos; eauto.
Qed.
Check C07_live_sender_keeps_it_positive : forall c fut s a A,
  reach c fut s -> lenN (ags s) < B62 -> get (ags s) a = Some A -> cs a A = true -> 1 <= writers (sh s).
Print Assumptions C07_live_sender_keeps_it_positive.

Theorem C07_zero_is_final : forall c fut s a A o,
  reach c fut s -> lenN (ags s) < B62 -> get (ags s) a = Some A ->
  micro c a A (sh s) = Some o -> writers (sh s) = 0 -> writers (o_s o) = 0.
Proof. intros c fut s a A o R. apply (writers_zero_stable c fut). now apply reach_mreach. Qed.
Check C07_zero_is_final : forall c fut s a A o,
  reach c fut s -> lenN (ags s) < B62 -> get (ags s) a = Some A ->
  micro c a A (sh s) = Some o -> writers (sh s) = 0 -> writers (o_s o) = 0.
Print Assumptions C07_zero_is_final.

Example C07_witness :
  let c := mk_cfg MPMC 2 WBusy in
  let s := reach_by c false (Start 0 CDrop :: repeat (Step 0) 40) in
  writers (sh s) = 0 /\ cnt cs (ags s) = 0.
Proof. vm_compute. split; reflexivity. Qed.
