(* C12 Handles may be cloned and dropped during traffic without visible effect.
   Proved here (sender half of the mode invariant), for every reachable state with fewer than 2^62 handles ever
   created, all configurations and schedules, clones and drops at any moment: the writers counter equals the
   number of live sender handles, and a sender in single-writer mode is the only live sender - which is what
   makes its plain store to the head counter sound (C01 file).  The receiver half: for every stream the consumer count equals the total
   weight of the agents on it, and a handle that behaves as the only consumer (single-consumer mode, a
   single-consumer receiver type, or an attempt that found the count at one) is the only agent with weight on its
   stream.  Not proved: observational equivalence of the modes (follows with the slot invariant only). *)
From Coq Require Import NArith List Bool.
Require Import MQ.Arith64 MQ.Arith64Facts MQ.Types MQ.State MQ.Model MQ.Exec MQ.Reach MQ.Ctl MQ.Count MQ.WritersStep MQ.InvWriters MQ.SumCount MQ.RecvDefs MQ.InvRecv MQ.SoleDefs MQ.InvSole.
Open Scope N_scope.

Theorem C12_writers_counts_live_senders : forall c fut s,
  reach c fut s -> lenN (ags s) < B62 -> writers (sh s) = cnt cs (ags s).
Proof. intros c fut s R Small. exact (proj1 (proj2 (iw_reach c fut s R) Small)). Qed.
Check C12_writers_counts_live_senders : forall c fut s,
  reach c fut s -> lenN (ags s) < B62 -> writers (sh s) = cnt cs (ags s).
Print Assumptions C12_writers_counts_live_senders.

Theorem C12_single_writer_mode_is_sole : forall c fut s a A,
  reach c fut s -> lenN (ags s) < B62 ->
  get (ags s) a = Some A -> cs a A = true -> a_multi A = false -> cnt cs (ags s) = 1.
Proof. intros c fut s a A R Small. exact (proj2 (proj2 (iw_reach c fut s R) Small) a A). Qed.
Check C12_single_writer_mode_is_sole : forall c fut s a A,
  reach c fut s -> lenN (ags s) < B62 ->
  get (ags s) a = Some A -> cs a A = true -> a_multi A = false -> cnt cs (ags s) = 1.
Print Assumptions C12_single_writer_mode_is_sole.

Theorem C12_consumer_count_is_population : forall c fut s sg,
  reach c fut s -> lenN (ags s) < B62 ->
  sumf (wt sg) (ags s) = 0 \/ gcons (sh s) sg = sumf (wt sg) (ags s).
Proof.
  intros c fut s sg R Small. destruct (recv_mreach c fut s (reach_mreach c fut s R)) as (_ & _ & _ & CE). exact (CE Small sg).
Qed.
Check C12_consumer_count_is_population : forall c fut s sg,
  reach c fut s -> lenN (ags s) < B62 ->
  sumf (wt sg) (ags s) = 0 \/ gcons (sh s) sg = sumf (wt sg) (ags s).
Print Assumptions C12_consumer_count_is_population.

Theorem C12_single_consumer_mode_is_sole : forall c fut s a A,
  reach c fut s -> lenN (ags s) < B62 -> get (ags s) a = Some A -> claims_sole A = true ->
  sumf (wt (a_sid A)) (ags s) = 1.
Proof. exact sole_reach. Qed.
Check C12_single_consumer_mode_is_sole : forall c fut s a A,
  reach c fut s -> lenN (ags s) < B62 -> get (ags s) a = Some A -> claims_sole A = true ->
  sumf (wt (a_sid A)) (ags s) = 1.
Print Assumptions C12_single_consumer_mode_is_sole.

Example C12_witness :
  let c := mk_cfg BCast 2 WBusy in
  let s := reach_by c false (Start 0 (CClone 2) :: repeat (Step 0) 3) in
  writers (sh s) = 2 /\ cnt cs (ags s) = 2.
Proof. vm_compute. split; reflexivity. Qed.
