(* C08 A blocked receiver always wakes when a value or the end is available.
   Proved here:
   - adequacy of the wait condition (wait.rs check) as arithmetic, for all sequence numbers below 2^62: it holds
     when no sender is left, when the awaited position is published in the slot, when the slot has moved past the
     awaited position; it does not hold for a never-written slot or an older value while a sender lives;
   - for the wait strategy with mutex and condition variable (BlockingWait), for all configurations, populations and
     schedules with fewer than 2^62 handles: C08_no_lost_wakeup - whenever a consumer is asleep on the condition
     variable (registered as a sleeper, not yet woken) and its wait condition holds on the current state of its slot
     and of the writers count, some agent owes the notification: it has published a value or decremented the writers
     count and is on its way to the notify call; C08_owed_notification_is_delivered - such an agent keeps owing it
     across every step until it executes the notify step; C08_notify_wakes_every_sleeper - that step moves every
     sleeper to the woken set; C08_wait_mutex_is_exclusive, C08_sleepers_are_at_the_wait - the wait mutex has one
     holder, a sleeper or woken agent is at the condition-variable wait, a sleeper is not in the woken set;
     C08_sleeper_runs_only_when_woken.  So no wake-up is lost: a state in which a consumer sleeps forever although
     its value or the end is available would need a pending notifier that never runs, i.e. an unfair scheduler.
   - the step facts of the protocol (WaitStep.v), also for the futures park lists (C14).
   Not proved: the same composition for the spinning strategies (they re-check the condition themselves, there is
   nothing to lose); fairness of the scheduler and of the OS condition variable cannot be expressed.  The futures
   park list of the consumers is Props/C14.v. *)
From Coq Require Import NArith List Bool.
Require Import MQ.Arith64 MQ.Arith64Facts MQ.Types MQ.State MQ.Model MQ.Exec MQ.Reach MQ.Ctl MQ.RecvDefs MQ.InvReg MQ.WinDefs MQ.WinRun
  MQ.WaitStep MQ.WakeDefs MQ.NpDefs MQ.WakeStepC MQ.InvWake.
Import ListNotations.
Open Scope N_scope.

Theorem C08_released_when_no_sender : forall seq flag, wait_check seq flag 0 = true.
Proof. exact wait_check_no_writers. Qed.
Check C08_released_when_no_sender : forall seq flag, wait_check seq flag 0 = true.
Print Assumptions C08_released_when_no_sender.

Theorem C08_released_when_published : forall seq wc, seq < MASK_IND -> wait_check seq seq wc = true.
Proof. exact wait_check_published. Qed.
Check C08_released_when_published : forall seq wc, seq < MASK_IND -> wait_check seq seq wc = true.
Print Assumptions C08_released_when_published.

Theorem C08_released_when_lapped : forall seq tag wc, tag < B62 -> seq < tag -> wait_check seq tag wc = true.
Proof. exact wait_check_newer. Qed.
Check C08_released_when_lapped : forall seq tag wc, tag < B62 -> seq < tag -> wait_check seq tag wc = true.
Print Assumptions C08_released_when_lapped.

Theorem C08_holds_on_fresh_slot : forall seq wc,
  seq < B62 -> wc <> 0 -> wait_check seq INITIAL_QUEUE_FLAG wc = false.
Proof. exact wait_check_never_written. Qed.
Check C08_holds_on_fresh_slot : forall seq wc,
  seq < B62 -> wc <> 0 -> wait_check seq INITIAL_QUEUE_FLAG wc = false.
Print Assumptions C08_holds_on_fresh_slot.

Theorem C08_holds_on_older_value : forall seq tag wc,
  seq < B62 -> tag < seq -> wc <> 0 -> wait_check seq tag wc = false.
Proof. exact wait_check_older. Qed.
Check C08_holds_on_older_value : forall seq tag wc,
  seq < B62 -> tag < seq -> wc <> 0 -> wait_check seq tag wc = false.
Print Assumptions C08_holds_on_older_value.

Example C08_nonvacuous : wait_check 5 5 1 = true /\ wait_check 5 1 1 = false /\ wait_check 5 9 1 = true
  /\ wait_check 0 INITIAL_QUEUE_FLAG 1 = false.
Proof. vm_compute. repeat split. Qed.

(* ---- no wake-up of the blocking wait is lost ---- *)
Theorem C08_no_lost_wakeup : forall c sf sy fut s t T,
  c_wk c = WBlock sf sy -> mreach c fut s -> lenN (ags s) < B62 ->
  In t (sleepers (sh s)) -> get (ags s) t = Some T -> wcond T (sh s) = true ->
  exists n N, get (ags s) n = Some N /\ np N = true.
Proof.
  intros c sf sy fut s t T WB R SM IN ET WC.
  destruct (wake_mreach c sf sy WB fut s R SM) as [_ _ _ WKE _]. exact (WKE t T IN ET WC).
Qed.
Check C08_no_lost_wakeup : forall c sf sy fut s t T,
  c_wk c = WBlock sf sy -> mreach c fut s -> lenN (ags s) < B62 ->
  In t (sleepers (sh s)) -> get (ags s) t = Some T -> wcond T (sh s) = true ->
  exists n N, get (ags s) n = Some N /\ np N = true.
Print Assumptions C08_no_lost_wakeup.

Theorem C08_owed_notification_is_delivered : forall c me A S o,
  micro c me A S = Some o -> ctl_ok A = true -> np A = true ->
  np (o_a o) = true \/ a_pc A = N2 \/ (forall a b, c_wk c <> WBlock a b).
Proof. exact micro_np. Qed.
Check C08_owed_notification_is_delivered : forall c me A S o,
  micro c me A S = Some o -> ctl_ok A = true -> np A = true ->
  np (o_a o) = true \/ a_pc A = N2 \/ (forall a b, c_wk c <> WBlock a b).
Print Assumptions C08_owed_notification_is_delivered.

Theorem C08_notify_wakes_every_sleeper : forall c me A S o,
  micro c me A S = Some o -> a_pc A = N2 ->
  sleepers (o_s o) = [] /\ woken (o_s o) = woken S ++ sleepers S /\ bw_lock (o_s o) = None.
Proof. exact w_N2. Qed.
Check C08_notify_wakes_every_sleeper : forall c me A S o,
  micro c me A S = Some o -> a_pc A = N2 ->
  sleepers (o_s o) = [] /\ woken (o_s o) = woken S ++ sleepers S /\ bw_lock (o_s o) = None.
Print Assumptions C08_notify_wakes_every_sleeper.

Theorem C08_wait_mutex_is_exclusive : forall c sf sy fut s a A,
  c_wk c = WBlock sf sy -> mreach c fut s -> lenN (ags s) < B62 ->
  get (ags s) a = Some A -> holder A = true -> bw_lock (sh s) = Some a.
Proof.
  intros c sf sy fut s a A WB R SM EA HA.
  destruct (wake_mreach c sf sy WB fut s R SM) as [LK _ _ _ _]. exact (LK a A EA HA).
Qed.
Check C08_wait_mutex_is_exclusive : forall c sf sy fut s a A,
  c_wk c = WBlock sf sy -> mreach c fut s -> lenN (ags s) < B62 ->
  get (ags s) a = Some A -> holder A = true -> bw_lock (sh s) = Some a.
Print Assumptions C08_wait_mutex_is_exclusive.

Theorem C08_sleepers_are_at_the_wait : forall c sf sy fut s t,
  c_wk c = WBlock sf sy -> mreach c fut s -> lenN (ags s) < B62 ->
  (In t (sleepers (sh s)) -> (exists T, get (ags s) t = Some T /\ a_pc T = B2w) /\ memN t (woken (sh s)) = false) /\
  (In t (woken (sh s)) -> exists T, get (ags s) t = Some T /\ a_pc T = B2w).
Proof.
  intros c sf sy fut s t WB R SM.
  destruct (wake_mreach c sf sy WB fut s R SM) as [_ SL WKN _ _]. split; [exact (SL t)|exact (WKN t)].
Qed.
Check C08_sleepers_are_at_the_wait : forall c sf sy fut s t,
  c_wk c = WBlock sf sy -> mreach c fut s -> lenN (ags s) < B62 ->
  (In t (sleepers (sh s)) -> (exists T, get (ags s) t = Some T /\ a_pc T = B2w) /\ memN t (woken (sh s)) = false) /\
  (In t (woken (sh s)) -> exists T, get (ags s) t = Some T /\ a_pc T = B2w).
Print Assumptions C08_sleepers_are_at_the_wait.

Theorem C08_sleeper_runs_only_when_woken : forall me A S,
  a_pc A = B2w -> enabled me A S = true -> memN me (woken S) = true /\ bw_lock S = None.
Proof. exact w_B2w_enabled. Qed.
Check C08_sleeper_runs_only_when_woken : forall me A S,
  a_pc A = B2w -> enabled me A S = true -> memN me (woken S) = true /\ bw_lock S = None.
Print Assumptions C08_sleeper_runs_only_when_woken.

(* non-vacuity: consumer 1 sleeps on an empty queue; producer 0 publishes a value and has not notified yet *)
Example C08_wakeup_witness :
  let c := mk_cfg MPMC 2 (WBlock 0 0) in
  exists s T P, mreach c false s /\ lenN (ags s) < B62 /\ c_wk c = WBlock 0 0 /\
    sleepers (sh s) = [1] /\ get (ags s) 1 = Some T /\ wcond T (sh s) = true /\
    get (ags s) 0 = Some P /\ np P = true /\ a_pc P = TSdone.
Proof.
  cbv zeta.
  destruct (m_run true (mk_cfg MPMC 2 (WBlock 0 0)) (init false)
              [MBegin 1 CRecv; MSteps 1 18; MBegin 0 (CTrySend 5); MSteps 0 9]) as [s|] eqn:E;
    [|vm_compute in E; discriminate E].
  destruct (get (ags s) 1) as [T|] eqn:ET; [|vm_compute in E; injection E as <-; vm_compute in ET; discriminate ET].
  destruct (get (ags s) 0) as [P|] eqn:EP; [|vm_compute in E; injection E as <-; vm_compute in EP; discriminate EP].
  exists s, T, P. split; [apply mreachN_mreach; eapply m_run_sound; [apply mrn_init|exact E]|].
  vm_compute in E. injection E as <-. vm_compute in ET. injection ET as <-. vm_compute in EP. injection EP as <-.
  vm_compute. repeat split; intros X; discriminate X.
Qed.
