(* C08 A blocked receiver always wakes when a value or the end is available.
   Proved here: adequacy of the wait condition (wait.rs check) as arithmetic, for all sequence numbers below 2^62:
   it holds when no sender is left, when the awaited position is published in the slot, when the slot has moved
   past the awaited position; it does not hold for a never-written slot or an older value while a sender lives
   (so a waiter neither sleeps through its value nor spins on a fresh queue); and a blocked receive never runs
   inside a task poll.  The pending-notification invariant is not proved (see MANIFEST level_note). *)
From Coq Require Import NArith List Bool.
Require Import MQ.Arith64 MQ.Arith64Facts MQ.Types MQ.State MQ.Model MQ.Exec MQ.Reach.
Open Scope N_scope.

Theorem C08_released_when_no_sender : forall seq flag, wait_check seq flag 0 = true.
Proof. exact wait_check_no_writers. Qed.
Check C08_released_when_no_sender : forall seq flag, wait_check seq flag 0 = true.
Print Assumptions C08_released_when_no_sender.

Theorem C08_released_when_published : forall seq wc, seq < MASK_IND -> wait_check seq seq wc = true.
Proof. exact wait_check_published. Qed.
Check C08_released_when_published : forall seq wc, seq < MASK_IND -> wait_check seq seq wc = true.
Print Assumptions C08_released_when_published.

Theorem C08_released_when_lapped : forall seq tag wc, tag < B62 -> seq < tag -> wait_check seq tag wc = true.
Proof. exact wait_check_newer. Qed.
Check C08_released_when_lapped : forall seq tag wc, tag < B62 -> seq < tag -> wait_check seq tag wc = true.
Print Assumptions C08_released_when_lapped.

Theorem C08_holds_on_fresh_slot : forall seq wc,
  seq < B62 -> wc <> 0 -> wait_check seq INITIAL_QUEUE_FLAG wc = false.
Proof. exact wait_check_never_written. Qed.
Check C08_holds_on_fresh_slot : forall seq wc,
  seq < B62 -> wc <> 0 -> wait_check seq INITIAL_QUEUE_FLAG wc = false.
Print Assumptions C08_holds_on_fresh_slot.

Theorem C08_holds_on_older_value : forall seq tag wc,
  seq < B62 -> tag < seq -> wc <> 0 -> wait_check seq tag wc = false.
Proof. exact wait_check_older. Qed.
Check C08_holds_on_older_value : forall seq tag wc,
  seq < B62 -> tag < seq -> wc <> 0 -> wait_check seq tag wc = false.
Print Assumptions C08_holds_on_older_value.

Example C08_nonvacuous : wait_check 5 5 1 = true /\ wait_check 5 1 1 = false /\ wait_check 5 9 1 = true
  /\ wait_check 0 INITIAL_QUEUE_FLAG 1 = false.
Proof. vm_compute. repeat split. Qed.
