(* Consequences of the control invariant that the property files state. *)
From Coq Require Import NArith List Bool Lia.
Require Import MQ.Arith64 MQ.Types MQ.State MQ.Model MQ.Exec MQ.Reach MQ.Ctl.
Import ListNotations.
Open Scope N_scope.

Definition is_try_call (cl : call) : bool :=
  match cl with CTrySend _ | CTryRecv | CTryView => true | _ => false end.

Definition is_task_call (cl : call) : bool :=
  match cl with CPoll | CAPoll | CStartSend _ | CAStartSend _ | CPollComplete => true | _ => false end.

(* program counters of the blocking wait strategies: spinning in Wait::wait, yielding, sleeping on the condvar *)
Definition waiting_pc (pc : pcl) : bool := wait_tops pc.

(* program counters of the condition-variable protocol of BlockingWait *)
Definition condvar_pc (pc : pcl) : bool :=
  match pc with B1 | B1c | B2 | B2w | B3c => true | _ => false end.

Lemma ctl_try_not_waiting A :
  ctl_ok A = true -> is_try_call (r_call (a_r A)) = true ->
  waiting_pc (a_pc A) = false /\ poll_tops (a_pc A) = false /\ ss_tops (a_pc A) = false.
Proof.
  intros Q T. destruct A as [role alive multi sid tok pc stack R notified parked].
  unfold ctl_ok in Q. cbn in Q, T |- *.
  apply andb_prop in Q as [Q Q3]. apply andb_prop in Q as [Q1 Q2].
  destruct (waiting_pc pc || poll_tops pc || ss_tops pc) eqn:E.
  - exfalso. destruct pc; cbn in E; try discriminate E;
      (destruct stack; cbn in Q1; [|discriminate Q1]); cbn in Q2;
      destruct (r_call R); cbn in T, Q2; discriminate.
  - apply orb_false_elim in E as [E E3]. apply orb_false_elim in E as [E1 E2]. auto.
Qed.

Lemma ctl_task_not_condvar A :
  ctl_ok A = true -> is_task_call (r_call (a_r A)) = true ->
  waiting_pc (a_pc A) = false.
Proof.
  intros Q T. destruct A as [role alive multi sid tok pc stack R notified parked].
  unfold ctl_ok in Q. cbn in Q, T |- *.
  apply andb_prop in Q as [Q Q3]. apply andb_prop in Q as [Q1 Q2].
  destruct (waiting_pc pc) eqn:E; [|reflexivity].
  exfalso. destruct pc; cbn in E; try discriminate E;
    (destruct stack; cbn in Q1; [|discriminate Q1]); cbn in Q2;
    destruct (r_call R); cbn in T, Q2; discriminate.
Qed.

(* an idle agent has an empty stack; a dead agent is Done *)
Lemma ctl_idle_stack A : ctl_ok A = true -> a_pc A = Idle -> a_stack A = [].
Proof.
  intros Q E. destruct A as [role alive multi sid tok pc stack R notified parked].
  cbn in E. subst pc. unfold ctl_ok in Q. cbn in Q.
  destruct stack; [reflexivity|discriminate Q].
Qed.

Lemma ctl_alive_done A : ctl_ok A = true -> (a_alive A = false <-> a_pc A = Done).
Proof.
  intros Q. destruct A as [role alive multi sid tok pc stack R notified parked].
  unfold ctl_ok in Q. cbn in Q |- *.
  apply andb_prop in Q as [_ Q3]. apply eqb_prop in Q3. subst alive.
  destruct pc; cbn; split; intros X; try reflexivity; discriminate X.
Qed.
