(* The end of a stream is reported only when the stream is drained (C07). *)
From Coq Require Import NArith List Bool Lia.
Require Import MQ.Arith64 MQ.Arith64Facts MQ.Types MQ.State MQ.Model MQ.Exec MQ.Reach MQ.Fields MQ.Ctl MQ.Count MQ.SumCount MQ.FreshStep
  MQ.WritersStep MQ.InvWriters MQ.HeadStep MQ.InvHead MQ.RecvDefs MQ.RecvStep MQ.KnownStep MQ.InvRecv MQ.SoleDefs MQ.InvSole
  MQ.PosStep MQ.AttStep MQ.InvPos MQ.GroupStep MQ.GroupStep2 MQ.GroupStep3 MQ.NewAgentStep MQ.InvGroups MQ.RegStep MQ.InvReg MQ.InvMisc
  MQ.WinStep MQ.WinDefs MQ.WinStep2 MQ.WinTrans MQ.InvWin MQ.SlotDefs MQ.SlotStepA MQ.SlotStepB MQ.SlotStepC MQ.SlotStepD MQ.InvSlot
  MQ.InvPub MQ.SlotStepH MQ.SlotStepI.
Import ListNotations.
Open Scope N_scope.

Section EN.
Variable c : cfg.
Notation N := (c_n c).
Hypothesis Npos : 0 < N.
Hypothesis Nsmall : N <= B61.

Definition z1 (A : agent) (S : shared) : Prop := zphase (a_pc A) = true -> writers S = 0.
Definition z2 (A : agent) (S : shared) : Prop :=
  a_pc A = R6b -> gpos S (a_sid A) = r_p (a_r A) -> r_p (a_r A) = head S.

Definition EndInv (s : state) : Prop :=
  SmallW s -> forall a A, get (ags s) a = Some A -> z1 A (sh s) /\ z2 A (sh s).

Lemma zz_notified B Sh b : (z1 (set_a_notified b B) Sh /\ z2 (set_a_notified b B) Sh) <-> (z1 B Sh /\ z2 B Sh).
Proof. destruct B; unfold z1, z2; cbn; tauto. Qed.

Lemma zz_plain B Sh : zphase (a_pc B) = false -> z1 B Sh /\ z2 B Sh.
Proof. intros Z. split; [intros X; congruence|intros X; rewrite X in Z; discriminate Z]. Qed.

(* no sender left, the cursor at p, the slot of p does not carry p: nothing at or after p was ever claimed *)
Lemma unpublished_means_drained fut s sg p :
  mreachN c fut s -> SmallW s -> writers (sh s) = 0 -> In sg (streams (sh s)) -> gpos (sh s) sg = p ->
  rm_tag (gtag (sh s) (sl c p)) <> p -> p <= head (sh s) -> p = head (sh s).
Proof.
  intros RN SM W0 REG EP TG LE.
  destruct (N.eq_dec p (head (sh s))) as [E | NE]; [exact E|]. exfalso.
  assert (L : p < head (sh s)) by lia.
  destruct (all_published_when_no_writer c Npos Nsmall fut s RN SM W0 p L) as (T1 & T2).
  destruct (win_mreachN c Npos Nsmall fut s RN SM) as (G & _).
  destruct (slot_mreachN c Npos Nsmall fut s RN SM) as (SG & _).
  pose proof (w_tail_le_cursor c _ G _ REG) as W2'. pose proof (w_head_le_tail_n c _ G) as W3'.
  pose proof (w_head_small c _ G) as HB.
  assert (TH : gtag (sh s) (sl c p) < head (sh s)) by (destruct (w_tag_claimed c _ G (sl c p)) as [T | T]; [contradiction|exact T]).
  pose proof (sg_own c _ SG (sl c p) T1) as OWN. unfold sl in OWN.
  assert (TE : gtag (sh s) (sl c p) = p) by (apply (slot_window p _ _ N Npos); try lia; exact OWN).
  apply TG. rewrite TE. apply rm_tag_small. unfold MASK_IND, B62 in *. lia.
Qed.

Theorem end_mreachN fut s : mreachN c fut s -> EndInv s.
Proof.
  intros RN. induction RN as [|s0 a A cl pc RN IH EA Hpc Hal He FT0|s0 x X o RN IH EX EN M NO NF|s0 a A o RN IH EA M|s0 RN IH].
  - intros _ a A EA. cbn in EA. unfold get in EA. cbn in EA.
    destruct (N.eqb a 0); [injection EA as <-; apply zz_plain; destruct fut; reflexivity|].
    destruct (N.eqb a 1); [injection EA as <-; apply zz_plain; destruct fut; reflexivity|discriminate].
  - intros SM. unfold begin_call in *. destruct SM as [S1 S2]. cbn [ags sh] in *.
    rewrite (len_put_same _ _ _ _ EA) in S1.
    change (g_log (hist (HCall a cl (g_clock (sh s0))) (sh s0))) with (g_log (sh s0)) in S2.
    intros b B EB. rewrite get_put in EB. destruct (N.eqb b a) eqn:E.
    + injection EB as <-. apply zz_plain. destruct A; cbn. clear -He.
      unfold entry in He. destruct a_role, cl; try discriminate He; try (destruct (is_bcast c); try discriminate He);
        injection He as <-; reflexivity.
    + exact (IH (conj S1 S2) b B EB).
  - (* micro-step *)
    intros SM' b B EB. change (sh (apply1 s0 x o)) with (o_s o).
    pose proof (small_back c Npos Nsmall s0 x X o EX M SM') as SM.
    pose proof (mreachN_mreach c fut s0 RN) as R.
    destruct (win_mreachN c Npos Nsmall fut s0 RN SM) as (G & IA).
    destruct (slot_mreachN c Npos Nsmall fut s0 RN SM) as (SG & SA & _).
    assert (SF : StepFacts (sh s0) (o_s o)) by (eapply st_sf; eauto). destruct SF as [F1 _ F3 _ _ _ _].
    pose proof (ctl_mreach c fut s0 R x X EX) as QX.
    assert (WZ : writers (sh s0) = 0 -> writers (o_s o) = 0).
    { destruct SM as [SMa _]. apply (writers_zero_stable c fut s0 x X o R SMa EX M). }
    assert (HZ : writers (sh s0) = 0 -> head (o_s o) = head (sh s0)).
    { intros W0. destruct (micro_head _ _ _ _ _ M) as [[E _] | [CL _]]; [exact E|]. exfalso.
      assert (IB : in_send_body X = true) by (unfold in_send_body; destruct CL as [-> | [-> _]]; reflexivity).
      pose proof (send_body_cs x X QX IB) as CS. destruct SM as [SMa _].
      destruct (iw_mreach c fut s0 R) as (_ & WC). destruct (WC SMa) as (WE & _).
      pose proof (cnt_get_pos cs (ags s0) x X EX CS) as CP. rewrite <- WE in CP. lia. }
    destruct (apply1_get _ _ _ _ _ EB) as (B0 & HB & Hsrc).
    assert (W0 : z1 B0 (o_s o) /\ z2 B0 (o_s o)); [|destruct HB as [-> | ->]; [exact W0|apply zz_notified; exact W0]].
    clear HB EB B.
    destruct Hsrc as [(a' & Hn & ->) | [(-> & ->) | (Hne & EB0)]].
    + destruct (micro_new_idle _ _ _ _ _ _ _ M Hn) as (EI & _). apply zz_plain. rewrite EI. reflexivity.
    + destruct (zphase (a_pc (o_a o))) eqn:ZP; [|apply zz_plain; exact ZP].
      destruct (IH SM x X EX) as (Z1X & Z2X).
      destruct (micro_zphase _ _ _ _ _ M QX ZP) as (ES & EPp & [(PC & W00 & N6b) | (PC & PC' & SGL & TG)]).
      * split; [intros _; apply WZ; exact W00|]. intros P6b. contradiction.
      * assert (ZX : zphase (a_pc X) = true) by (rewrite PC; reflexivity).
        pose proof (Z1X ZX) as W00.
        split; [intros _; apply WZ; exact W00|].
        intros _. rewrite ES, EPp, (HZ W00). intros EQ.
        assert (EG : gpos (o_s o) (a_sid X) = gpos (sh s0) (a_sid X)).
        { assert (CS : forall g, gpos (o_s o) g = gpos (sh s0) g \/
             (a_sid X = g /\ (a_pc X = R12 \/ a_pc X = V4) /\ gpos (o_s o) g = next_count (gpos (sh s0) g)) \/
             (a_pc X = A2 /\ g = nsid (sh s0) /\ gpos (o_s o) g = gpos (sh s0) (a_sid X))) by (eapply st_cs; eauto).
          destruct (CS (a_sid X)) as [E | [(_ & [PC2 | PC2] & _) | (PC2 & _)]]; [exact E| | |]; congruence. }
        rewrite EG in EQ.
        destruct (IA x X EX) as (_ & _ & (RX1 & _) & _).
        assert (AX : att_pc (a_pc X) = true) by (rewrite PC; reflexivity).
        assert (REG : In (a_sid X) (streams (sh s0))).
        { destruct SM as [SMa _]. destruct (reg_mreach c fut s0 R SMa) as (_ & RG1 & _).
          apply (RG1 x X (a_sid X) EX). apply ftr_wh; [exact QX|]. rewrite PC. reflexivity. }
        apply (unpublished_means_drained fut s0 (a_sid X) (r_p (a_r X)) RN SM W00 REG EQ TG (RX1 AX)).
    + destruct (IH SM b B0 EB0) as (Z1B & Z2B). split.
      * intros ZP. apply WZ. apply Z1B. exact ZP.
      * intros P6b EQ. assert (ZP : zphase (a_pc B0) = true) by (rewrite P6b; reflexivity).
        rewrite (HZ (Z1B ZP)).
        destruct (SA b B0 EB0) as (_ & _ & PB & _).
        assert (AB : att_pc (a_pc B0) = true) by (rewrite P6b; reflexivity).
        specialize (PB AB). specialize (F3 (a_sid B0)). apply Z2B; [exact P6b|lia].
  - (* spurious failure *)
    intros SM' b B EB.
    destruct (spur_shape _ _ _ _ M) as (N0 & _ & _ & _ & _ & _ & SHP & EW & EH & EL).
    destruct (spur_win c _ _ _ M) as (WE & _).
    assert (SM : SmallW s0).
    { destruct SM' as [S1 S2]. split; [pose proof (apply1_len s0 a o); lia|].
      change (sh (apply1 s0 a o)) with (o_s o) in S2. rewrite EL in S2. exact S2. }
    change (sh (apply1 s0 a o)) with (o_s o).
    destruct WE as (_ & _ & E3 & _).
    destruct (apply1_get _ _ _ _ _ EB) as (B0 & HB & Hsrc).
    assert (W0 : z1 B0 (o_s o) /\ z2 B0 (o_s o)); [|destruct HB as [-> | ->]; [exact W0|apply zz_notified; exact W0]].
    destruct Hsrc as [(a' & Hn & ->) | [(-> & ->) | (Hne & EB0)]].
    + rewrite N0 in Hn. discriminate Hn.
    + apply zz_plain. destruct SHP as [(_ & P') | (_ & P')]; rewrite P'; reflexivity.
    + destruct (IH SM b B0 EB0) as (Z1B & Z2B). unfold z1, z2, gpos in *. rewrite EW, EH, E3. split; assumption.
  - intros SM. cbn [ags sh] in *. destruct SM as [S1 S2].
    change (g_log (tick (sh s0))) with (g_log (sh s0)) in S2.
    exact (IH (conj S1 S2)).
Qed.

(* a step that turns the result of a receive into "disconnected" is taken with the stream drained *)
Theorem end_reported_when_drained fut s x X o :
  mreachN c fut s -> SmallW s -> get (ags s) x = Some X -> micro c x X (sh s) = Some o ->
  (a_pc X = R6 \/ a_pc X = R6b \/ a_pc X = V6) ->
  is_discon (r_res (a_r X)) = false -> is_discon (r_res (a_r (o_a o))) = true ->
  writers (sh s) = 0 /\ gpos (sh s) (a_sid X) = head (sh s).
Proof.
  intros RN SM EX M PC D0 D1.
  pose proof (mreachN_mreach c fut s RN) as R.
  destruct (end_mreachN fut s RN SM x X EX) as (Z1X & Z2X).
  destruct (win_mreachN c Npos Nsmall fut s RN SM) as (G & IA).
  destruct (IA x X EX) as (_ & _ & (RX1 & _) & _).
  pose proof (ctl_mreach c fut s R x X EX) as QX.
  assert (ZP : zphase (a_pc X) = true) by (destruct PC as [-> | [-> | ->]]; reflexivity).
  assert (AX : att_pc (a_pc X) = true) by (destruct PC as [-> | [-> | ->]]; reflexivity).
  assert (FT0 : fn_of (a_pc X) = FTR) by (destruct PC as [-> | [-> | ->]]; reflexivity).
  pose proof (Z1X ZP) as W0. split; [exact W0|].
  assert (REG : In (a_sid X) (streams (sh s))).
  { destruct SM as [SMa _]. destruct (reg_mreach c fut s R SMa) as (_ & RG1 & _).
    apply (RG1 x X (a_sid X) EX). apply ftr_wh; assumption. }
  destruct SM as [SMa SMl].
  destruct PC as [PC | [PC | PC]].
  - destruct (t_R6d _ _ _ _ _ M PC D0 D1) as (SGL & TG).
    assert (EP : r_p (a_r X) = gpos (sh s) (a_sid X)).
    { apply (pos_mreach c fut s R SMa x X EX). unfold ap_phase. rewrite PC. cbn. rewrite SGL. destruct (r_am (a_r X)); reflexivity. }
    rewrite <- EP. apply (unpublished_means_drained fut s (a_sid X) (r_p (a_r X)) RN (conj SMa SMl) W0 REG (eq_sym EP) TG (RX1 AX)).
  - pose proof (t_R6bd _ _ _ _ _ M PC D0 D1) as EP. rewrite EP. apply (Z2X PC EP).
  - pose proof (t_V6d _ _ _ _ _ M PC D0 D1) as TG.
    assert (EP : r_p (a_r X) = gpos (sh s) (a_sid X)).
    { apply (pos_mreach c fut s R SMa x X EX). unfold ap_phase. rewrite PC. reflexivity. }
    rewrite <- EP. apply (unpublished_means_drained fut s (a_sid X) (r_p (a_r X)) RN (conj SMa SMl) W0 REG (eq_sym EP) TG (RX1 AX)).
Qed.
End EN.
