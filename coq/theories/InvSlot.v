(* The slot invariant (C01/C04), proved over the same executions as the window invariant. *)
From Coq Require Import NArith List Bool Lia.
Require Import MQ.Arith64 MQ.Arith64Facts MQ.Types MQ.State MQ.Model MQ.Exec MQ.Reach MQ.Fields MQ.Ctl MQ.Count MQ.SumCount MQ.FreshStep
  MQ.WritersStep MQ.InvWriters MQ.HeadStep MQ.InvHead MQ.RecvDefs MQ.RecvStep MQ.KnownStep MQ.InvRecv MQ.SoleDefs MQ.InvSole
  MQ.PosStep MQ.AttStep MQ.InvPos MQ.GroupStep MQ.GroupStep2 MQ.GroupStep3 MQ.NewAgentStep MQ.InvGroups MQ.RegStep MQ.InvReg
  MQ.WinStep MQ.WinDefs MQ.WinStep2 MQ.WinTrans MQ.InvWin MQ.SlotDefs MQ.SlotStepA MQ.SlotStepB MQ.SlotStepC.
Import ListNotations.
Open Scope N_scope.

Section SL.
Variable c : cfg.
Notation N := (c_n c).
Hypothesis Npos : 0 < N.
Hypothesis Nsmall : N <= B61.

(* ---- definitions ---- *)
Definition wipa (A : agent) (S : shared) : Prop :=
  wip (a_pc A) = true ->
  let h := r_h (a_r A) in
  h < head S /\ logat S h = Some (r_v (a_r A)) /\ tailc S <= h /\ h < tailc S + N /\
  (forall g, gpos S g <= h) /\
  (gtag S (sl c h) = INITIAL_QUEUE_FLAG \/ gtag S (sl c h) < h) /\
  (a_pc A = P7 -> get (cells S) (sl c h) = Some (r_v (a_r A))).

Definition ea (A : agent) (S : shared) : Prop :=
  matched (a_pc A) = true ->
  gtag S (sl c (r_p (a_r A))) <> INITIAL_QUEUE_FLAG /\ r_p (a_r A) <= gtag S (sl c (r_p (a_r A))).

Definition pa (A : agent) (S : shared) : Prop :=
  att_pc (a_pc A) = true -> r_p (a_r A) <= gpos S (a_sid A).

Definition fa (A : agent) (S : shared) : Prop :=
  rdphase (a_pc A) = true ->
  (a_pc A = KC \/ a_pc A = R11 -> is_bcast c = true) /\
  (gpos S (a_sid A) = r_p (a_r A) -> logat S (r_p (a_r A)) = valof c A).

Definition SlotA (A : agent) (S : shared) : Prop :=
  wipa A S /\ ea A S /\ pa A S /\ fa A S /\ wita c S A.

Record SlotG (S : shared) : Prop := {
  sg_pos : forall g, gpos S g <= head S;
  sg_own : forall i, gtag S i <> INITIAL_QUEUE_FLAG -> sl c (gtag S i) = i
}.

(* a slot whose tag is a position holds that position's value, unless a writer has overwritten the cell
   and is about to publish *)
Definition CellsOK (s : state) : Prop :=
  forall i, gtag (sh s) i <> INITIAL_QUEUE_FLAG ->
    (forall a A, get (ags s) a = Some A -> a_pc A = P7 -> sl c (r_h (a_r A)) <> i) ->
    logat (sh s) (gtag (sh s) i) = get (cells (sh s)) i /\ get (cells (sh s)) i <> None.

Definition Distinct (s : state) : Prop :=
  forall a b A B, a <> b -> get (ags s) a = Some A -> get (ags s) b = Some B ->
    wip (a_pc A) = true -> wip (a_pc B) = true -> r_h (a_r A) <> r_h (a_r B).

Definition SlotInv (s : state) : Prop :=
  SmallW s ->
  SlotG (sh s) /\ (forall a A, get (ags s) a = Some A -> SlotA A (sh s)) /\ CellsOK s /\ Distinct s.

(* ---- the claim log as a function of positions ---- *)
Lemma logat_app S S' l p :
  g_log S' = g_log S ++ l -> p < lenN (g_log S) -> logat S' p = logat S p.
Proof.
  unfold logat, lenN. intros E L. rewrite E. apply nth_error_app1. lia.
Qed.

Lemma logat_last S S' v :
  g_log S' = g_log S ++ [v] -> logat S' (lenN (g_log S)) = Some v.
Proof.
  unfold logat, lenN. intros E. rewrite E, Nnat.Nat2N.id, nth_error_app2 by lia.
  rewrite PeanoNat.Nat.sub_diag. reflexivity.
Qed.

Lemma logat_eq S S' p : g_log S' = g_log S -> logat S' p = logat S p.
Proof. unfold logat. intros ->. reflexivity. Qed.

(* ---- agents before and after a step ---- *)
Lemma apply1_get_conv s x o b B0 :
  get (ags s) b = Some B0 -> b <> x -> new_ok s x o = true ->
  exists B, get (ags (apply1 s x o)) b = Some B /\ (B = B0 \/ B = set_a_notified true B0).
Proof.
  intros EB NE NO. unfold apply1. cbn [ags]. rewrite get_notify_all.
  assert (E2 : N.eqb b x = false) by (apply N.eqb_neq; exact NE).
  unfold new_ok in NO. destruct (o_new o) as [[a' A']|].
  - apply andb_prop in NO as [_ NO]. rewrite !get_put.
    destruct (N.eqb b a') eqn:E1.
    + apply N.eqb_eq in E1. subst a'. rewrite EB in NO. discriminate NO.
    + rewrite E2, EB. eexists. split; [reflexivity|]. destruct (memN b (o_ntf o)); auto.
  - rewrite get_put, E2, EB. eexists. split; [reflexivity|]. destruct (memN b (o_ntf o)); auto.
Qed.

Lemma slota_notified B Sh b : SlotA (set_a_notified b B) Sh <-> SlotA B Sh.
Proof. destruct B; unfold SlotA, wipa, ea, pa, fa, wita, valof; cbn; tauto. Qed.

Lemma rd_att pc : rdphase pc = true -> att_pc pc = true.
Proof. destruct pc; intros X; try discriminate X; reflexivity. Qed.

Lemma rd_matched pc : rdphase pc = true -> matched pc = true.
Proof. destruct pc; intros X; try discriminate X; reflexivity. Qed.

Lemma matched_att pc : matched pc = true -> att_pc pc = true.
Proof. destruct pc; intros X; try discriminate X; reflexivity. Qed.

Lemma wip_sphase pc : wip pc = true -> sphase pc = true.
Proof. destruct pc; intros X; try discriminate X; reflexivity. Qed.

Lemma wita_nonphase A S : witphase (a_pc A) = false -> wita c S A.
Proof. unfold wita. destruct (a_pc A); intros X; try discriminate X; exact I. Qed.

Lemma wita_mono A S S' : (forall g, gpos S g <= gpos S' g) -> wita c S A -> wita c S' A.
Proof.
  intros MP. unfold wita, W2.
  assert (M : forall R, ((exists g, r_h R <= gpos S g + r_md R) \/ N <= r_md R) ->
                        ((exists g, r_h R <= gpos S' g + r_md R) \/ N <= r_md R)).
  { intros R [(g & L) | L]; [left; exists g; specialize (MP g); lia|right; exact L]. }
  destruct (a_pc A); try (intros H; exact H); intros H X; specialize (H X); auto.
  destruct H as [H | H]; [left; apply M; exact H|right; exact H].
Qed.

(* a tag that equals a position modulo the tag bit is that position *)
Lemma tag_is_pos S p t :
  WinG c S -> t = gtag S (sl c p) -> rm_tag t = p -> p <= head S ->
  t <> INITIAL_QUEUE_FLAG /\ t = p.
Proof.
  intros G -> E L. pose proof (w_head_small c S G) as HB.
  destruct (w_tag_claimed c S G (sl c p)) as [T | T].
  - rewrite T, rm_tag_initial in E. unfold MASK_TAG, B62 in *. lia.
  - rewrite rm_tag_small in E by (unfold MASK_IND, B62 in *; lia).
    split; [|exact E]. unfold INITIAL_QUEUE_FLAG, B62 in *. lia.
Qed.
End SL.
