(* The slot invariant (C01/C04), proved over the same executions as the window invariant. *)
From Coq Require Import NArith List Bool Lia.
Require Import MQ.Arith64 MQ.Arith64Facts MQ.Types MQ.State MQ.Model MQ.Exec MQ.Reach MQ.Fields MQ.Ctl MQ.Count MQ.SumCount MQ.FreshStep
  MQ.WritersStep MQ.InvWriters MQ.HeadStep MQ.InvHead MQ.RecvDefs MQ.RecvStep MQ.KnownStep MQ.InvRecv MQ.SoleDefs MQ.InvSole
  MQ.PosStep MQ.AttStep MQ.InvPos MQ.GroupStep MQ.GroupStep2 MQ.GroupStep3 MQ.NewAgentStep MQ.InvGroups MQ.RegStep MQ.InvReg
  MQ.WinStep MQ.WinDefs MQ.WinStep2 MQ.WinTrans MQ.InvWin MQ.SlotDefs MQ.SlotStepA MQ.SlotStepB MQ.SlotStepC MQ.SlotStepD.
Import ListNotations.
Open Scope N_scope.

Section SL.
Variable c : cfg.
Notation N := (c_n c).
Hypothesis Npos : 0 < N.
Hypothesis Nsmall : N <= B61.

(* ---- definitions ---- *)
Definition wipa (A : agent) (S : shared) : Prop :=
  wip (a_pc A) = true ->
  let h := r_h (a_r A) in
  h < head S /\ logat S h = Some (r_v (a_r A)) /\ tailc S <= h /\ h < tailc S + N /\
  (forall g, gpos S g <= h) /\
  (gtag S (sl c h) = INITIAL_QUEUE_FLAG \/ gtag S (sl c h) < h) /\
  (a_pc A = P7 -> get (cells S) (sl c h) = Some (r_v (a_r A))).

Definition ea (A : agent) (S : shared) : Prop :=
  matched (a_pc A) = true ->
  gtag S (sl c (r_p (a_r A))) <> INITIAL_QUEUE_FLAG /\ r_p (a_r A) <= gtag S (sl c (r_p (a_r A))).

Definition pa (A : agent) (S : shared) : Prop :=
  att_pc (a_pc A) = true -> r_p (a_r A) <= gpos S (a_sid A).

Definition fa (A : agent) (S : shared) : Prop :=
  rdphase (a_pc A) = true ->
  (a_pc A = KC \/ a_pc A = R11 -> is_bcast c = true) /\
  (gpos S (a_sid A) = r_p (a_r A) -> logat S (r_p (a_r A)) = valof c A).

Definition SlotA (A : agent) (S : shared) : Prop :=
  wipa A S /\ ea A S /\ pa A S /\ fa A S /\ wita c S A.

Record SlotG (S : shared) : Prop := {
  sg_pos : forall g, gpos S g <= head S;
  sg_own : forall i, gtag S i <> INITIAL_QUEUE_FLAG -> sl c (gtag S i) = i
}.

(* a slot whose tag is a position holds that position's value, unless a writer has overwritten the cell
   and is about to publish *)
Definition CellsOK (s : state) : Prop :=
  forall i, gtag (sh s) i <> INITIAL_QUEUE_FLAG ->
    (forall a A, get (ags s) a = Some A -> a_pc A = P7 -> sl c (r_h (a_r A)) <> i) ->
    logat (sh s) (gtag (sh s) i) = get (cells (sh s)) i /\ get (cells (sh s)) i <> None.

Definition Distinct (s : state) : Prop :=
  forall a b A B, a <> b -> get (ags s) a = Some A -> get (ags s) b = Some B ->
    wip (a_pc A) = true -> wip (a_pc B) = true -> r_h (a_r A) <> r_h (a_r B).

Definition SlotInv (s : state) : Prop :=
  SmallW s ->
  SlotG (sh s) /\ (forall a A, get (ags s) a = Some A -> SlotA A (sh s)) /\ CellsOK s /\ Distinct s.

(* ---- the claim log as a function of positions ---- *)
Lemma logat_app S S' l p :
  g_log S' = g_log S ++ l -> p < lenN (g_log S) -> logat S' p = logat S p.
Proof.
  unfold logat, lenN. intros E L. rewrite E. apply nth_error_app1. lia.
Qed.

Lemma logat_last S S' v :
  g_log S' = g_log S ++ [v] -> logat S' (lenN (g_log S)) = Some v.
Proof.
  unfold logat, lenN. intros E. rewrite E, Nnat.Nat2N.id, nth_error_app2 by lia.
  rewrite PeanoNat.Nat.sub_diag. reflexivity.
Qed.

Lemma logat_eq S S' p : g_log S' = g_log S -> logat S' p = logat S p.
Proof. unfold logat. intros ->. reflexivity. Qed.

(* ---- agents before and after a step ---- *)
Lemma apply1_get_conv s x o b B0 :
  get (ags s) b = Some B0 -> b <> x -> new_ok s x o = true ->
  exists B, get (ags (apply1 s x o)) b = Some B /\ (B = B0 \/ B = set_a_notified true B0).
Proof.
  intros EB NE NO. unfold apply1. cbn [ags]. rewrite get_notify_all.
  assert (E2 : N.eqb b x = false) by (apply N.eqb_neq; exact NE).
  unfold new_ok in NO. destruct (o_new o) as [[a' A']|].
  - apply andb_prop in NO as [_ NO]. rewrite !get_put.
    destruct (N.eqb b a') eqn:E1.
    + apply N.eqb_eq in E1. subst a'. rewrite EB in NO. discriminate NO.
    + rewrite E2, EB. eexists. split; [reflexivity|]. destruct (memN b (o_ntf o)); auto.
  - rewrite get_put, E2, EB. eexists. split; [reflexivity|]. destruct (memN b (o_ntf o)); auto.
Qed.

Lemma apply1_get_self s x o :
  new_ok s x o = true ->
  exists B, get (ags (apply1 s x o)) x = Some B /\ (B = o_a o \/ B = set_a_notified true (o_a o)).
Proof.
  intros NO. unfold apply1. cbn [ags]. rewrite get_notify_all.
  unfold new_ok in NO. destruct (o_new o) as [[a' A']|].
  - apply andb_prop in NO as [NO _]. apply negb_true_iff in NO. apply N.eqb_neq in NO.
    rewrite get_put. assert (E : N.eqb x a' = false) by (apply N.eqb_neq; intros E0; apply NO; symmetry; exact E0).
    rewrite E, get_put, N.eqb_refl. eexists. split; [reflexivity|]. destruct (memN x (o_ntf o)); auto.
  - rewrite get_put, N.eqb_refl. eexists. split; [reflexivity|]. destruct (memN x (o_ntf o)); auto.
Qed.

Lemma slota_notified B Sh b : SlotA (set_a_notified b B) Sh <-> SlotA B Sh.
Proof. destruct B; unfold SlotA, wipa, ea, pa, fa, wita, valof; cbn; tauto. Qed.

Lemma rd_att pc : rdphase pc = true -> att_pc pc = true.
Proof. destruct pc; intros X; try discriminate X; reflexivity. Qed.

Lemma rd_matched pc : rdphase pc = true -> matched pc = true.
Proof. destruct pc; intros X; try discriminate X; reflexivity. Qed.

Lemma matched_att pc : matched pc = true -> att_pc pc = true.
Proof. destruct pc; intros X; try discriminate X; reflexivity. Qed.

Lemma wip_sphase pc : wip pc = true -> sphase pc = true.
Proof. destruct pc; intros X; try discriminate X; reflexivity. Qed.

Definition witphase (pc : pcl) : bool :=
  match pc with G2 | G3 | P3pre | M3pre | P3 | M3 => true | _ => false end.

Lemma wita_nonphase A S : witphase (a_pc A) = false -> wita c S A.
Proof. unfold wita. destruct (a_pc A); intros X; try discriminate X; exact I. Qed.

Lemma wita_mono A S S' : (forall g, gpos S g <= gpos S' g) -> wita c S A -> wita c S' A.
Proof.
  intros MP. unfold wita, W2.
  assert (M : forall R, ((exists g, r_h R <= gpos S g + r_md R) \/ N <= r_md R) ->
                        ((exists g, r_h R <= gpos S' g + r_md R) \/ N <= r_md R)).
  { intros R [(g & L) | L]; [left; exists g; specialize (MP g); lia|right; exact L]. }
  destruct (a_pc A); try (intros H; exact H); intros H X; specialize (H X); auto.
  destruct H as [H | H]; [left; apply M; exact H|right; exact H].
Qed.

(* a tag that equals a position modulo the tag bit is that position *)
Lemma tag_is_pos S p t :
  WinG c S -> t = gtag S (sl c p) -> rm_tag t = p -> p <= head S ->
  t <> INITIAL_QUEUE_FLAG /\ t = p.
Proof.
  intros G -> E L. pose proof (w_head_small c S G) as HB.
  destruct (w_tag_claimed c S G (sl c p)) as [T | T].
  - rewrite T, rm_tag_initial in E. unfold MASK_TAG, B62 in *. lia.
  - rewrite rm_tag_small in E by (unfold MASK_IND, B62 in *; lia).
    split; [|exact E]. unfold INITIAL_QUEUE_FLAG, B62 in *. lia.
Qed.

(* ================= one micro-step ================= *)
Section Step.
Variables (fut : bool) (s : state) (x : BinNums.N) (X : agent) (o : out).
Hypothesis RN : mreachN c fut s.
Hypothesis SM' : SmallW (apply1 s x o).
Hypothesis EX : get (ags s) x = Some X.
Hypothesis M : micro c x X (sh s) = Some o.
Hypothesis NO : new_ok s x o = true.
Hypothesis NF : ~ f11_bad (sh s) X.
Hypothesis EN : is_local (a_pc X) = true \/ enabled x X (sh s) = true.
Hypothesis IH : SlotInv s.

Lemma st_R : mreach c fut s.
Proof. exact (mreachN_mreach c fut s RN). Qed.

Lemma st_SM : SmallW s.
Proof. exact (small_back c Npos Nsmall s x X o EX M SM'). Qed.

Lemma st_RN' : mreachN c fut (apply1 s x o).
Proof. eapply mrn_micro; eauto. Qed.

Lemma st_win : WinG c (sh s) /\ forall a A, get (ags s) a = Some A -> WinA c A (sh s).
Proof. exact (win_mreachN c Npos Nsmall fut s RN st_SM). Qed.

Lemma st_win' : WinG c (o_s o) /\ forall a A, get (ags (apply1 s x o)) a = Some A -> WinA c A (o_s o).
Proof. exact (win_mreachN c Npos Nsmall fut _ st_RN' SM'). Qed.

Lemma st_sf : StepFacts (sh s) (o_s o).
Proof. exact (proj1 (win_step_global c Npos Nsmall fut s x X o RN SM' EX M NO NF EN (win_mreachN c Npos Nsmall fut s RN))). Qed.

Lemma st_ih : SlotG (sh s) /\ (forall a A, get (ags s) a = Some A -> SlotA A (sh s)) /\ CellsOK s /\ Distinct s.
Proof. exact (IH st_SM). Qed.

Lemma st_ctl : forall a A, get (ags s) a = Some A -> ctl_ok A = true.
Proof. exact (ctl_mreach c fut s st_R). Qed.

Lemma st_hl : head (sh s) = lenN (g_log (sh s)) /\ head (sh s) < B62.
Proof. exact (head_small c Npos Nsmall fut s st_R st_SM). Qed.

Lemma st_hl' : head (o_s o) = lenN (g_log (o_s o)) /\ head (o_s o) < B62.
Proof. exact (head_small c Npos Nsmall fut _ (mreachN_mreach c fut _ st_RN') SM'). Qed.

Lemma st_cs : forall g, gpos (o_s o) g = gpos (sh s) g \/
   (a_sid X = g /\ (a_pc X = R12 \/ a_pc X = V4) /\ gpos (o_s o) g = next_count (gpos (sh s) g)) \/
   (a_pc X = A2 /\ g = nsid (sh s) /\ gpos (o_s o) g = gpos (sh s) (a_sid X)).
Proof. intros g. destruct st_SM as [SMa _]. apply (cursor_steps c fut s x X o g st_R SMa EX M). Qed.

(* the claim log only grows, and only by a claim *)
Lemma st_logm : forall p, p < head (sh s) -> logat (o_s o) p = logat (sh s) p.
Proof.
  intros p L. destruct st_hl as [HL _]. rewrite HL in L.
  destruct (micro_head _ _ _ _ _ M) as [[_ E] | [_ [_ E]]].
  - apply logat_eq. exact E.
  - eapply logat_app; eauto.
Qed.

Lemma st_noclaim : a_pc X <> P5 -> a_pc X <> M5 -> head (o_s o) = head (sh s) /\ g_log (o_s o) = g_log (sh s).
Proof.
  intros N1 N2. destruct (micro_head _ _ _ _ _ M) as [E | [[PC | [PC _]] _]]; [exact E| |]; contradiction.
Qed.

Lemma st_tags : a_pc X <> P7 -> forall i, gtag (o_s o) i = gtag (sh s) i.
Proof. intros N1 i. destruct (micro_tags i _ _ _ _ _ M) as [E | (PC & _)]; [exact E|contradiction]. Qed.

Lemma st_cells : a_pc X <> P6 -> cells (o_s o) = cells (sh s).
Proof. intros N1. destruct (micro_cells _ _ _ _ _ M) as [E | (PC & _)]; [exact E|contradiction]. Qed.

Lemma st_regx : fn_of (a_pc X) = FTR -> In (a_sid X) (streams (sh s)).
Proof.
  intros F. destruct st_SM as [SMa _]. destruct (reg_mreach c fut s st_R SMa) as (_ & RG1 & _).
  apply (RG1 x X (a_sid X) EX). apply ftr_wh; [exact (st_ctl x X EX)|exact F].
Qed.

(* ---- global part ---- *)
Lemma st_global : SlotG (o_s o).
Proof.
  destruct st_ih as (SG & SA & _). destruct st_win as (G & IA). destruct st_sf as [F1 F2 F3 F4 F5 F6 F7].
  destruct st_hl as [HL HB]. destruct (IA x X EX) as (_ & _ & (RA1 & RA2) & _).
  constructor.
  - intros g. pose proof (sg_pos _ SG g) as L0.
    destruct (st_cs g) as [E | [(ES & PC & E) | (PC & EG & E)]]; rewrite E.
    + lia.
    + assert (MX : matched (a_pc X) = true) by (destruct PC as [-> | ->]; reflexivity).
      specialize (RA2 MX). subst g.
      assert (EP : r_p (a_r X) = gpos (sh s) (a_sid X)).
      { destruct st_SM as [SMa _].
        destruct (micro_pos (a_sid X) _ _ _ _ _ M) as [PS | [(_ & _ & EP & EC) | (PA & _)]].
        - unfold P_same in PS. rewrite PS in E. rewrite (next_count_plus c Npos Nsmall) in E by lia. lia.
        - rewrite E in EP.
          destruct (r_am (a_r X)) eqn:EAM.
          + apply (pos_mreach c fut s st_R SMa x X EX). unfold ap_phase.
            destruct PC as [-> | ->]; cbn; [now rewrite EAM|reflexivity].
          + destruct PC as [P12 | PV4]; [symmetry; apply EC; auto|].
            apply (pos_mreach c fut s st_R SMa x X EX). unfold ap_phase. rewrite PV4. reflexivity.
        - destruct PC; congruence. }
      rewrite (next_count_plus c Npos Nsmall) by lia. lia.
    + pose proof (sg_pos _ SG (a_sid X)). lia.
  - intros i T.
    destruct (micro_tags i _ _ _ _ _ M) as [E | (PC & EI & E)].
    + rewrite E in T |- *. apply (sg_own _ SG i T).
    + rewrite E. symmetry. exact EI.
Qed.

(* two writers in progress never share a slot *)
Lemma wip_slots A B Sh :
  wipa A Sh -> wipa B Sh -> wip (a_pc A) = true -> wip (a_pc B) = true ->
  sl c (r_h (a_r A)) = sl c (r_h (a_r B)) -> r_h (a_r A) = r_h (a_r B).
Proof.
  intros WA WB PA PB E. destruct (WA PA) as (_ & _ & A1 & A2 & _). destruct (WB PB) as (_ & _ & B1 & B2 & _).
  unfold sl in E. apply (slot_window (tailc Sh) _ _ N Npos A1 A2 B1 B2 E).
Qed.

(* what the tail-cache store writes is not ahead of any writer in progress *)
Lemma st_tail_store B0 : wipa B0 (sh s) -> wip (a_pc B0) = true ->
  tailc (o_s o) <= r_h (a_r B0).
Proof.
  intros WB PB. destruct (WB PB) as (_ & _ & B1 & B2 & B3 & _).
  destruct st_win as (G & IA). destruct (IA x X EX) as (SAX & UAX & _).
  destruct st_ih as (_ & SA & _). destruct (SA x X EX) as (_ & _ & _ & _ & TX).
  destruct (micro_tailc _ _ _ _ _ M) as [E | [(PC & E) | (PC & ET & E)]]; rewrite E; [exact B1| |].
  - destruct (sa_at c X (sh s) P3 PC SAX) as (S0 & S1 & _ & _ & NF0 & ENT).
    unfold wita in TX. rewrite PC in TX. specialize (TX NF0). unfold Hb in S1. rewrite ENT.
    destruct TX as [(g & L) | L]; [specialize (B3 g); lia|lia].
  - destruct (sa_at c X (sh s) M3 PC SAX) as (S0 & S1 & _ & _ & NF0 & ENT).
    unfold wita in TX. rewrite PC in TX. specialize (TX NF0). unfold Hb in S1. rewrite ENT.
    destruct TX as [(g & L) | L]; [specialize (B3 g); lia|lia].
Qed.

(* ---- an agent that does not step ---- *)
Lemma st_other b B0 : b <> x -> get (ags s) b = Some B0 -> SlotA B0 (o_s o).
Proof.
  intros NE EB.
  destruct st_ih as (SG & SA & CO & DI). destruct st_win as (G & IA). destruct st_sf as [F1 F2 F3 F4 F5 F6 F7].
  destruct st_hl as [HL HB].
  destruct (SA b B0 EB) as (WB & EB_ & PB & FB & TB).
  destruct (SA x X EX) as (WX & EX_ & PX & FX & TX).
  destruct (IA b B0 EB) as (_ & _ & (RB1 & RB2) & _).
  destruct (IA x X EX) as (SAX & _ & (RX1 & RX2) & _).
  split; [|split; [|split; [|split]]].
  - (* writer in progress *)
    intros PW. destruct (WB PW) as (B0' & B1 & B2 & B3 & B4 & B5 & B6).
    split; [lia|]. split; [rewrite st_logm by exact B0'; exact B1|].
    split; [apply st_tail_store; assumption|]. split; [lia|].
    split; [|split].
    + intros g. pose proof (B4 g) as B4g.
      destruct (st_cs g) as [E | [(ES & PC & E) | (PC & EG & E)]]; rewrite E; [exact B4g| |apply B4].
      assert (MX : matched (a_pc X) = true) by (destruct PC as [-> | ->]; reflexivity).
      destruct (EX_ MX) as (T1 & T2). subst g.
      assert (EP : r_p (a_r X) = gpos (sh s) (a_sid X)).
      { destruct st_SM as [SMa _].
        destruct (micro_pos (a_sid X) _ _ _ _ _ M) as [PS | [(_ & _ & EP & EC) | (PA & _)]].
        - unfold P_same in PS. rewrite PS in E. pose proof (sg_pos _ SG (a_sid X)).
          rewrite (next_count_plus c Npos Nsmall) in E by lia. lia.
        - rewrite E in EP.
          destruct (r_am (a_r X)) eqn:EAM.
          + apply (pos_mreach c fut s st_R SMa x X EX). unfold ap_phase.
            destruct PC as [-> | ->]; cbn; [now rewrite EAM|reflexivity].
          + destruct PC as [P12 | PV4]; [symmetry; apply EC; auto|].
            apply (pos_mreach c fut s st_R SMa x X EX). unfold ap_phase. rewrite PV4. reflexivity.
        - destruct PC; congruence. }
      rewrite (next_count_plus c Npos Nsmall) by lia.
      assert (gpos (sh s) (a_sid X) <> r_h (a_r B0)); [|lia].
      intros EQ. rewrite EP, EQ in T1, T2. destruct B5 as [B5 | B5]; [contradiction|lia].
    + destruct (micro_tags (sl c (r_h (a_r B0))) _ _ _ _ _ M) as [E | (PC & EI & E)]; [rewrite E; exact B5|].
      exfalso. assert (PWX : wip (a_pc X) = true) by (rewrite PC; reflexivity).
      apply (DI x b X B0 (fun E0 => NE (eq_sym E0)) EX EB PWX PW).
      apply (wip_slots X B0 (sh s) WX WB PWX PW). symmetry. exact EI.
    + intros P7B. specialize (B6 P7B).
      destruct (micro_cells _ _ _ _ _ M) as [E | (PC & E)]; rewrite E; [exact B6|].
      rewrite get_put. destruct (N.eqb (sl c (r_h (a_r B0))) (sl c (r_h (a_r X)))) eqn:ES; [|exact B6].
      exfalso. apply N.eqb_eq in ES. assert (PWX : wip (a_pc X) = true) by (rewrite PC; reflexivity).
      apply (DI x b X B0 (fun E0 => NE (eq_sym E0)) EX EB PWX PW).
      apply (wip_slots X B0 (sh s) WX WB PWX PW). symmetry. exact ES.
  - (* a matched tag stays at or above the attempt position *)
    intros MB. destruct (EB_ MB) as (T1 & T2).
    destruct (micro_tags (sl c (r_p (a_r B0))) _ _ _ _ _ M) as [E | (PC & EI & E)]; rewrite E; [split; assumption|].
    assert (PWX : wip (a_pc X) = true) by (rewrite PC; reflexivity).
    destruct (WX PWX) as (X0 & _ & _ & _ & _ & X5 & _). rewrite <- EI in X5.
    split; [unfold INITIAL_QUEUE_FLAG, B62 in *; lia|]. destruct X5 as [X5 | X5]; [contradiction|lia].
  - intros AB. specialize (PB AB). specialize (F3 (a_sid B0)). lia.
  - intros RB. destruct (FB RB) as (BC & FV). split; [exact BC|].
    intros EQ. pose proof (PB (rd_att _ RB)) as L1. specialize (F3 (a_sid B0)).
    assert (EQ0 : gpos (sh s) (a_sid B0) = r_p (a_r B0)) by lia.
    rewrite <- (FV EQ0). apply st_logm. apply RB2. apply rd_matched. exact RB.
  - apply (wita_mono B0 (sh s) (o_s o) F3 TB).
Qed.

(* ---- the agent that steps ---- *)
Lemma st_self_wip : wipa (o_a o) (o_s o).
Proof.
  intros PW. cbv zeta.
  destruct st_ih as (SG & SA & CO & DI). destruct st_win as (G & IA).
  destruct st_hl as [HL HB]. destruct st_SM as [SMa SMl].
  destruct (SA x X EX) as (WX & _). destruct (IA x X EX) as (SAX & _).
  pose proof (micro_spred _ _ _ _ _ M (st_ctl x X EX) (wip_sphase _ PW)) as SPR.
  destruct (a_pc (o_a o)) eqn:EP'; try discriminate PW.
  - (* just claimed *)
    assert (CL : (a_pc X = P5 \/ a_pc X = M5)) by (destruct (a_pc X); try discriminate SPR; auto).
    assert (FACTS : head (sh s) = r_h (a_r X) /\ head (o_s o) = next_count (r_h (a_r X)) /\
                    r_h (a_r (o_a o)) = r_h (a_r X) /\ tailc (o_s o) = tailc (sh s) /\ pos (o_s o) = pos (sh s) /\
                    tags (o_s o) = tags (sh s) /\ PASS c (sh s) (a_r X)).
    { destruct CL as [PC | PC].
      - destruct (t_P5 c _ _ _ _ M PC G SAX) as (E1 & E2 & _ & E3 & E4 & _ & _ & _ & E5).
        destruct (head_mreach c fut s st_R SMa) as [HLX _].
        assert (PX : pp_pc (a_pc X) (a_stack X) = true) by (rewrite PC; reflexivity).
        pose proof (HLX x X EX PX) as EH. destruct (sa_at c X (sh s) P5 PC SAX) as (_ & PS).
        repeat split; auto.
      - destruct (sa_at c X (sh s) M5 PC SAX) as (_ & PS).
        destruct (t_M5 c Npos Nsmall _ _ _ _ M PC G SAX) as [(PC2 & _) | (_ & E0 & E1 & E2 & E3 & E4 & _ & _ & _ & E5)].
        + rewrite EP' in PC2. discriminate PC2.
        + repeat split; auto. }
    destruct FACTS as (EH & EH' & ER & ET & EPOS & ETG & PS).
    assert (ELOG : g_log (o_s o) = g_log (sh s) ++ [r_v (a_r X)]).
    { destruct (micro_head _ _ _ _ _ M) as [[E _] | [_ [_ E]]]; [|exact E].
      rewrite E, EH' in *. rewrite (next_count_plus c Npos Nsmall) in EH by lia. lia. }
    rewrite ER, (t_claim_rv _ _ _ _ _ M CL).
    split; [rewrite EH', (next_count_plus c Npos Nsmall) by lia; lia|].
    split; [rewrite <- EH, HL; apply (logat_last _ _ _ ELOG)|].
    split; [rewrite ET; pose proof (w_tail_le_head c _ G); lia|].
    split; [rewrite ET; unfold PASS in PS; exact PS|].
    split; [intros g; unfold gpos; rewrite EPOS; pose proof (sg_pos _ SG g) as L; unfold gpos in L; lia|].
    split; [|intros X0; discriminate X0].
    unfold gtag. rewrite ETG. destruct (w_tag_claimed c _ G (sl c (r_h (a_r X)))) as [T | T]; [left; exact T|right; unfold gtag in T; lia].
  - (* cell written *)
    assert (PC : a_pc X = P6) by (destruct (a_pc X); try discriminate SPR; reflexivity).
    destruct (t_P6r _ _ _ _ _ M PC) as (_ & ER & EV & EC & EL & _).
    destruct (t_P6 c _ _ _ _ M PC SAX) as (E1 & E2 & E3 & _ & _ & _ & E7 & _).
    assert (PWX : wip (a_pc X) = true) by (rewrite PC; reflexivity).
    destruct (WX PWX) as (X0 & X1 & X2 & X3 & X4 & X5 & _).
    rewrite ER, EV, E1, E2. unfold gpos, gtag. rewrite E3, E7, EC.
    split; [exact X0|]. split; [rewrite (logat_eq _ _ _ EL); exact X1|].
    split; [exact X2|]. split; [exact X3|]. split; [exact X4|]. split; [exact X5|].
    intros _. rewrite get_put, N.eqb_refl. reflexivity.
Qed.

Lemma st_self_ea : ea (o_a o) (o_s o).
Proof.
  intros MT. destruct st_ih as (SG & SA & _). destruct st_win as (G & IA).
  destruct (SA x X EX) as (_ & EX_ & _). destruct (IA x X EX) as (_ & _ & (RX1 & RX2) & _).
  destruct (micro_matched _ _ _ _ _ M (st_ctl x X EX) MT) as (ES & [(MX & E) | (PC & E & TG)]); rewrite E.
  - assert (N7 : a_pc X <> P7) by (intros E7; rewrite E7 in MX; discriminate MX).
    rewrite (st_tags N7). apply EX_. exact MX.
  - assert (N7 : a_pc X <> P7) by (intros E7; destruct PC as [PC | PC]; rewrite E7 in PC; discriminate PC).
    rewrite (st_tags N7).
    assert (AX : att_pc (a_pc X) = true) by (destruct PC as [-> | ->]; reflexivity).
    destruct (tag_is_pos (sh s) (r_p (a_r X)) _ G eq_refl TG (RX1 AX)) as (T1 & T2).
    split; [exact T1|]. rewrite T2. lia.
Qed.

Lemma st_self_pa : pa (o_a o) (o_s o).
Proof.
  intros AT. destruct st_ih as (SG & SA & _). destruct st_sf as [_ _ F3 _ _ _ _].
  destruct (SA x X EX) as (_ & _ & PX & _).
  destruct (micro_attpc _ _ _ _ _ M (st_ctl x X EX) AT) as (ES & [AX | PR2]); rewrite ES.
  - specialize (F3 (a_sid X)). destruct (micro_rp _ _ _ _ _ M) as [E | E]; rewrite E; [specialize (PX AX); lia|lia].
  - rewrite (micro_r2 _ _ _ _ _ M PR2). apply F3.
Qed.

Lemma st_self_wit : wita c (o_s o) (o_a o).
Proof.
  destruct (witphase (a_pc (o_a o))) eqn:WP; [|apply wita_nonphase; exact WP].
  destruct st_ih as (SG & SA & _). destruct st_win as (G & IA). destruct st_sf as [_ _ F3 _ _ _ _].
  destruct st_hl as [HL HB].
  destruct (SA x X EX) as (_ & _ & _ & _ & TX). destruct (IA x X EX) as (SAX & _).
  apply (wita_mono _ (sh s) (o_s o) F3).
  apply (micro_wit _ _ _ _ _ M (st_ctl x X EX)); [|intros g; pose proof (sg_pos _ SG g); lia|exact TX].
  assert (SPH : sphase (a_pc (o_a o)) = true) by (destruct (a_pc (o_a o)); try discriminate WP; reflexivity).
  pose proof (micro_spred _ _ _ _ _ M (st_ctl x X EX) SPH) as SPR.
  assert (A0X : A0 (sh s) (a_r X)).
  { unfold sa in SAX. destruct (a_pc (o_a o)); try discriminate WP;
      destruct (a_pc X); try discriminate SPR; unfold A0 in *; intuition. }
  unfold A0 in A0X. lia.
Qed.

Lemma st_self_fa : fa (o_a o) (o_s o).
Proof.
  intros RD. destruct st_ih as (SG & SA & CO & DI). destruct st_win as (G & IA).
  destruct st_sf as [_ _ F3 _ _ _ _]. destruct st_hl as [HL HB].
  destruct (SA x X EX) as (_ & EX_ & PX & FX & _). destruct (IA x X EX) as (_ & _ & (RX1 & RX2) & _).
  destruct (micro_read _ _ _ _ _ M (st_ctl x X EX) RD) as (ES & EPp & [(RDX & K) | (ENT & BCK & N11 & VAL)]).
  - destruct (FX RDX) as (BC & FV). destruct (K BC) as (EV & BC'). split; [exact BC'|].
    rewrite ES, EPp, EV. intros EQ.
    pose proof (PX (rd_att _ RDX)) as L1. specialize (F3 (a_sid X)).
    assert (EQ0 : gpos (sh s) (a_sid X) = r_p (a_r X)) by lia.
    rewrite <- (FV EQ0). apply st_logm. apply RX2. apply rd_matched. exact RDX.
  - split; [intros [K | K]; [apply BCK; exact K|contradiction]|].
    rewrite ES, EPp. intros EQ.
    assert (AX : att_pc (a_pc X) = true) by (destruct ENT as [-> | [-> | [-> _]]]; reflexivity).
    assert (NC : a_pc X <> R12 /\ a_pc X <> V4 /\ a_pc X <> A2 /\ a_pc X <> P5 /\ a_pc X <> M5).
    { destruct ENT as [-> | [-> | [-> _]]]; repeat split; discriminate. }
    destruct NC as (N1 & N2 & N3 & N4 & N5).
    assert (EQ0 : gpos (sh s) (a_sid X) = r_p (a_r X)).
    { destruct (st_cs (a_sid X)) as [E | [(_ & [PC | PC] & _) | (PC & _)]]; [rewrite <- E; exact EQ| | |]; contradiction. }
    destruct (st_noclaim N4 N5) as (_ & ELOG). rewrite (logat_eq _ _ _ ELOG).
    set (p := r_p (a_r X)) in *.
    pose proof (st_regx (att_ftr _ AX)) as REG.
    (* the tag of the slot is the attempt position *)
    assert (TP : gtag (sh s) (sl c p) <> INITIAL_QUEUE_FLAG /\ p <= gtag (sh s) (sl c p)).
    { destruct (micro_matched _ _ _ _ _ M (st_ctl x X EX) (rd_matched _ RD)) as (_ & [(MX & _) | (_ & _ & TG)]).
      - apply EX_. exact MX.
      - destruct (tag_is_pos (sh s) p _ G eq_refl TG (RX1 AX)) as (T1 & T2). split; [exact T1|]. rewrite T2. lia. }
    destruct TP as (T1 & T2).
    pose proof (w_tail_le_cursor c _ G _ REG) as W2'. pose proof (w_head_le_tail_n c _ G) as W3'.
    assert (TH : gtag (sh s) (sl c p) < head (sh s)) by (destruct (w_tag_claimed c _ G (sl c p)) as [T | T]; [contradiction|exact T]).
    assert (TE : gtag (sh s) (sl c p) = p).
    { pose proof (sg_own _ SG (sl c p) T1) as OWN. unfold sl in OWN.
      apply (slot_window p _ _ N Npos); try lia. exact OWN. }
    assert (NOP7 : forall a A, get (ags s) a = Some A -> a_pc A = P7 -> sl c (r_h (a_r A)) <> sl c p).
    { intros a A EA P7A ESL. destruct (SA a A EA) as (WA & _).
      assert (PWA : wip (a_pc A) = true) by (rewrite P7A; reflexivity).
      destruct (WA PWA) as (_ & _ & A2' & A3 & _ & A5 & _).
      rewrite ESL, TE in A5. destruct A5 as [A5 | A5]; [rewrite <- TE in A5; contradiction|].
      assert (r_h (a_r A) = p); [|lia].
      unfold sl in ESL. apply (slot_window p _ _ N Npos); try lia. }
    destruct (CO (sl c p) T1 NOP7) as (C1 & C2). rewrite TE in C1.
    destruct (get (cells (sh s)) (sl c p)) as [v|] eqn:EV; [|contradiction].
    rewrite (VAL v eq_refl). exact C1.
Qed.

Lemma st_self : SlotA (o_a o) (o_s o).
Proof.
  split; [exact st_self_wip|]. split; [exact st_self_ea|]. split; [exact st_self_pa|].
  split; [exact st_self_fa|exact st_self_wit].
Qed.

Lemma slota_plain B Sh :
  sphase (a_pc B) = false -> att_pc (a_pc B) = false -> SlotA B Sh.
Proof.
  intros S1 S2. split; [|split; [|split; [|split]]].
  - intros X0. rewrite (wip_sphase _ X0) in S1. discriminate S1.
  - intros X0. rewrite (matched_att _ X0) in S2. discriminate S2.
  - intros X0. congruence.
  - intros X0. rewrite (rd_att _ X0) in S2. discriminate S2.
  - apply wita_nonphase. destruct (a_pc B); try reflexivity; discriminate S1.
Qed.

Lemma slota_m2 B Sh : a_pc B = M2 -> SlotA B Sh.
Proof.
  intros PC. split; [|split; [|split; [|split]]].
  - intros X0. rewrite PC in X0. discriminate X0.
  - intros X0. rewrite PC in X0. discriminate X0.
  - intros X0. rewrite PC in X0. discriminate X0.
  - intros X0. rewrite PC in X0. discriminate X0.
  - apply wita_nonphase. rewrite PC. reflexivity.
Qed.

(* where a writer in progress comes from *)
Lemma st_wip_src : wip (a_pc (o_a o)) = true ->
  (wip (a_pc X) = true /\ r_h (a_r (o_a o)) = r_h (a_r X)) \/ r_h (a_r (o_a o)) = head (sh s).
Proof.
  intros PW. destruct st_win as (G & IA). destruct st_SM as [SMa SMl]. destruct (IA x X EX) as (SAX & _).
  pose proof (micro_spred _ _ _ _ _ M (st_ctl x X EX) (wip_sphase _ PW)) as SPR.
  destruct (a_pc (o_a o)) eqn:EP'; try discriminate PW.
  - right. assert (CL : (a_pc X = P5 \/ a_pc X = M5)) by (destruct (a_pc X); try discriminate SPR; auto).
    destruct CL as [PC | PC].
    + destruct (t_P5 c _ _ _ _ M PC G SAX) as (_ & E2 & _).
      destruct (head_mreach c fut s st_R SMa) as [HLX _].
      assert (PX : pp_pc (a_pc X) (a_stack X) = true) by (rewrite PC; reflexivity).
      rewrite E2. apply (HLX x X EX PX).
    + destruct (t_M5 c Npos Nsmall _ _ _ _ M PC G SAX) as [(PC2 & _) | (_ & E0 & _ & E2 & _)].
      * rewrite EP' in PC2. discriminate PC2.
      * rewrite E2. symmetry. exact E0.
  - left. assert (PC : a_pc X = P6) by (destruct (a_pc X); try discriminate SPR; reflexivity).
    destruct (t_P6r _ _ _ _ _ M PC) as (_ & ER & _). rewrite PC. split; [reflexivity|exact ER].
Qed.

Lemma st_distinct : Distinct (apply1 s x o).
Proof.
  intros a b A B NE EA EB PA PB.
  destruct st_ih as (SG & SA & CO & DI).
  destruct (apply1_get _ _ _ _ _ EA) as (A0' & HA & SRCA).
  destruct (apply1_get _ _ _ _ _ EB) as (B0' & HB & SRCB).
  assert (FA : a_pc A = a_pc A0' /\ r_h (a_r A) = r_h (a_r A0')) by (destruct HA as [-> | ->]; destruct A0'; split; reflexivity).
  assert (FB : a_pc B = a_pc B0' /\ r_h (a_r B) = r_h (a_r B0')) by (destruct HB as [-> | ->]; destruct B0'; split; reflexivity).
  destruct FA as (FA1 & FA2). destruct FB as (FB1 & FB2). rewrite FA1 in PA. rewrite FB1 in PB. rewrite FA2, FB2.
  clear HA HB FA1 FA2 FB1 FB2 EA EB A B.
  assert (NEWX : forall a' A', o_new o = Some (a', A') -> wip (a_pc A') = true -> False).
  { intros a' A' Hn PW. destruct (micro_new_idle _ _ _ _ _ _ _ M Hn) as (EI & _). rewrite EI in PW. discriminate PW. }
  assert (SELF : forall b0 B0, b0 <> x -> get (ags s) b0 = Some B0 -> wip (a_pc B0) = true ->
                   wip (a_pc (o_a o)) = true -> r_h (a_r (o_a o)) <> r_h (a_r B0)).
  { intros b0 B0 NE0 EB0 PB0 PX0. destruct (SA b0 B0 EB0) as (WB & _). destruct (WB PB0) as (L & _).
    destruct (st_wip_src PX0) as [(PWX & E) | E]; rewrite E; [|lia].
    apply (DI x b0 X B0 (fun E0 => NE0 (eq_sym E0)) EX EB0 PWX PB0). }
  destruct SRCA as [(a' & Hn & ->) | [(-> & ->) | (NA & EA0)]].
  - exfalso. eapply NEWX; eauto.
  - destruct SRCB as [(b' & Hn & ->) | [(-> & ->) | (NB & EB0)]].
    + exfalso. eapply NEWX; eauto.
    + contradiction.
    + apply (SELF b B0' NB EB0 PB PA).
  - destruct SRCB as [(b' & Hn & ->) | [(-> & ->) | (NB & EB0)]].
    + exfalso. eapply NEWX; eauto.
    + intros E. symmetry in E. revert E. apply (SELF a A0' NA EA0 PA PB).
    + apply (DI a b A0' B0' NE EA0 EB0 PA PB).
Qed.

Lemma st_cellsok : CellsOK (apply1 s x o).
Proof.
  intros i T NOP7'. change (sh (apply1 s x o)) with (o_s o) in *.
  destruct st_ih as (SG & SA & CO & DI). destruct st_win as (G & IA).
  destruct (SA x X EX) as (WX & _).
  assert (OTH : forall b B0, b <> x -> get (ags s) b = Some B0 -> a_pc B0 = P7 -> sl c (r_h (a_r B0)) <> i).
  { intros b B0 NE EB P7B. destruct (apply1_get_conv s x o b B0 EB NE NO) as (B & EB' & [-> | ->]).
    - apply (NOP7' b B0 EB' P7B).
    - assert (F : a_pc (set_a_notified true B0) = P7 /\ r_h (a_r (set_a_notified true B0)) = r_h (a_r B0))
        by (destruct B0; split; [exact P7B|reflexivity]).
      destruct F as (F1 & F2). rewrite <- F2. apply (NOP7' b _ EB' F1). }
  assert (TL : forall t, t < head (sh s) -> logat (o_s o) t = logat (sh s) t) by exact st_logm.
  destruct (micro_cells _ _ _ _ _ M) as [EC | (PC6 & EC)].
  - destruct (micro_tags i _ _ _ _ _ M) as [ET | (PC7 & EI & ET)].
    + rewrite ET in T |- *. rewrite EC.
      assert (NOP7 : forall a A, get (ags s) a = Some A -> a_pc A = P7 -> sl c (r_h (a_r A)) <> i).
      { intros a A EA P7A. destruct (N.eq_dec a x) as [-> | NE]; [|apply (OTH a A NE EA P7A)].
        rewrite EX in EA. injection EA as <-. intros ESL.
        assert (PWX : wip (a_pc X) = true) by (rewrite P7A; reflexivity).
        destruct (WX PWX) as (_ & _ & _ & _ & _ & X5 & _).
        destruct (t_P7r _ _ _ _ _ M P7A) as (ETG & _).
        assert (E2 : gtag (o_s o) i = r_h (a_r X)) by (unfold gtag; rewrite ETG, getd_put, <- ESL, N.eqb_refl; reflexivity).
        rewrite ESL, <- ET, E2 in X5. destruct X5 as [X5 | X5]; [|lia].
        rewrite ET in E2. rewrite E2 in T. contradiction. }
      destruct (CO i T NOP7) as (C1 & C2). split; [|exact C2]. rewrite <- C1. apply TL.
      destruct (w_tag_claimed c _ G i) as [T0 | T0]; [contradiction|exact T0].
    + (* the tag of slot i was just published *)
      assert (PWX : wip (a_pc X) = true) by (rewrite PC7; reflexivity).
      destruct (WX PWX) as (X0 & X1 & _ & _ & _ & _ & X6). specialize (X6 PC7).
      rewrite ET, EC, EI. rewrite X6. split; [|discriminate]. rewrite <- X1. apply TL. exact X0.
  - (* the cell of slot [sl h] was just written; its writer now sits at P7 *)
    destruct (t_P6r _ _ _ _ _ M PC6) as (PC' & ER & _).
    assert (N7 : a_pc X <> P7) by (rewrite PC6; discriminate).
    rewrite (st_tags N7) in T |- *.
    destruct (N.eq_dec i (sl c (r_h (a_r X)))) as [EI | NI].
    + exfalso. destruct (apply1_get_self s x o NO) as (B & EB' & [-> | ->]).
      * apply (NOP7' x _ EB' PC'). rewrite ER. symmetry. exact EI.
      * assert (F : a_pc (set_a_notified true (o_a o)) = P7 /\ r_h (a_r (set_a_notified true (o_a o))) = r_h (a_r (o_a o)))
          by (destruct (o_a o); split; [exact PC'|reflexivity]).
        destruct F as (F1 & F2). apply (NOP7' x _ EB' F1). rewrite F2, ER. symmetry. exact EI.
    + rewrite EC, get_put. assert (E : N.eqb i (sl c (r_h (a_r X))) = false) by (apply N.eqb_neq; exact NI). rewrite E.
      assert (NOP7 : forall a A, get (ags s) a = Some A -> a_pc A = P7 -> sl c (r_h (a_r A)) <> i).
      { intros a A EA P7A. destruct (N.eq_dec a x) as [-> | NE]; [|apply (OTH a A NE EA P7A)].
        rewrite EX in EA. injection EA as <-. congruence. }
      destruct (CO i T NOP7) as (C1 & C2). split; [|exact C2]. rewrite <- C1. apply TL.
      destruct (w_tag_claimed c _ G i) as [T0 | T0]; [contradiction|exact T0].
Qed.
End Step.

(* ================= the invariant ================= *)
Lemma slot_spur A Sh o0 : micro_spur c A Sh = Some o0 ->
  sphase (a_pc (o_a o0)) = true \/ att_pc (a_pc (o_a o0)) = true ->
  (a_pc A = M5 /\ a_pc (o_a o0) = M2) \/ (a_pc A = R12 /\ a_pc (o_a o0) = R4).
Proof. intros H _. destruct (spur_shape _ _ _ _ H) as (_ & _ & _ & _ & _ & _ & K & _). exact K. Qed.

Theorem slot_mreachN fut s : mreachN c fut s -> SlotInv s.
Proof.
  intros RN. induction RN as [|s0 a A cl pc RN IH EA Hpc Hal He FT0|s0 x X o RN IH EX EN M NO NF|s0 a A o RN IH EA M|s0 RN IH].
  - (* initial state *)
    intros _. split; [|split; [|split]].
    + constructor.
      * intros g. unfold gpos. cbn. unfold getd, get. cbn. destruct (N.eqb g 0); lia.
      * intros i T. exfalso. apply T. reflexivity.
    + intros a A EA. cbn in EA. unfold get in EA. cbn in EA.
      destruct (N.eqb a 0); [injection EA as <-; apply slota_plain; destruct fut; reflexivity|].
      destruct (N.eqb a 1); [injection EA as <-; apply slota_plain; destruct fut; reflexivity|discriminate].
    + intros i T. exfalso. apply T. reflexivity.
    + intros a b A B NE EA EB PA. exfalso. cbn in EA. unfold get in EA. cbn in EA.
      destruct (N.eqb a 0); [injection EA as <-; destruct fut; discriminate PA|].
      destruct (N.eqb a 1); [injection EA as <-; destruct fut; discriminate PA|discriminate].
  - (* begin_call *)
    intros SM. unfold begin_call in *. destruct SM as [S1 S2]. cbn [ags sh] in *.
    rewrite (len_put_same _ _ _ _ EA) in S1.
    change (g_log (hist (HCall a cl (g_clock (sh s0))) (sh s0))) with (g_log (sh s0)) in S2.
    destruct (IH (conj S1 S2)) as (SG & SA & CO & DI).
    destruct (entry_plain c _ _ _ He) as (P1' & P2' & _).
    split; [|split; [|split]].
    + destruct SG as [G1 G2]. constructor; [exact G1|exact G2].
    + intros b B EB. rewrite get_put in EB. destruct (N.eqb b a) eqn:E.
      * injection EB as <-. apply slota_plain; destruct A; cbn; assumption.
      * apply (SA b B EB).
    + intros i T NOP7. apply (CO i T). intros b B EB P7B.
      destruct (N.eq_dec b a) as [-> | NE].
      * rewrite EA in EB. injection EB as <-. rewrite Hpc in P7B. discriminate P7B.
      * apply (NOP7 b B); [|exact P7B]. cbn [ags]. rewrite get_put.
        assert (E : N.eqb b a = false) by (apply N.eqb_neq; exact NE). rewrite E. exact EB.
    + intros b1 b2 B1 B2 NE E1 E2 PW1 PW2. cbn [ags] in E1, E2. rewrite get_put in E1, E2.
      destruct (N.eqb b1 a) eqn:EQ1.
      * injection E1 as <-. exfalso. destruct A; cbn in PW1. rewrite (wip_sphase _ PW1) in P1'. discriminate P1'.
      * destruct (N.eqb b2 a) eqn:EQ2.
        -- injection E2 as <-. exfalso. destruct A; cbn in PW2. rewrite (wip_sphase _ PW2) in P1'. discriminate P1'.
        -- apply (DI b1 b2 B1 B2 NE E1 E2 PW1 PW2).
  - (* micro-step *)
    intros SM'. change (sh (apply1 s0 x o)) with (o_s o).
    split; [eapply st_global; eauto|].
    split; [|split; [eapply st_cellsok; eauto|eapply st_distinct; eauto]].
    intros b B EB.
    destruct (apply1_get _ _ _ _ _ EB) as (B0 & HB & Hsrc).
    assert (W0 : SlotA B0 (o_s o)); [|destruct HB as [-> | ->]; [exact W0|apply slota_notified; exact W0]].
    destruct Hsrc as [(a' & Hn & ->) | [(-> & ->) | (Hne & EB0)]].
    + destruct (micro_new_idle _ _ _ _ _ _ _ M Hn) as (EI & _). apply slota_plain; rewrite EI; reflexivity.
    + eapply st_self; eauto.
    + eapply st_other; eauto.
  - (* spurious compare-exchange failure *)
    intros SM'.
    pose proof (mreachN_mreach c fut s0 RN) as R.
    destruct (spur_shape _ _ _ _ M) as (N0 & _ & _ & _ & _ & _ & SHP & _ & EH & EL).
    destruct (spur_win c _ _ _ M) as (WE & ENS & SHP2).
    destruct (spur_slot _ _ _ _ M) as (ECELL & _ & _ & ESID & _).
    assert (SM : SmallW s0).
    { destruct SM' as [S1 S2]. split; [pose proof (apply1_len s0 a o); lia|].
      change (sh (apply1 s0 a o)) with (o_s o) in S2. rewrite EL in S2. exact S2. }
    destruct (IH SM) as (SG & SA & CO & DI).
    destruct WE as (E1 & E2 & E3 & E4 & E5 & E6 & E7).
    assert (EP : forall g, gpos (o_s o) g = gpos (sh s0) g) by (intros; unfold gpos; now rewrite E3).
    assert (ET : forall i, gtag (o_s o) i = gtag (sh s0) i) by (intros; unfold gtag; now rewrite E7).
    assert (ELG : forall p, logat (o_s o) p = logat (sh s0) p) by (intros; apply logat_eq; exact EL).
    assert (TR : forall B, SlotA B (sh s0) -> SlotA B (o_s o)).
    { intros B (W1 & W2' & W3 & W4 & W5). split; [|split; [|split; [|split]]].
      - intros PW. destruct (W1 PW) as (A1 & A2' & A3 & A4 & A5 & A6 & A7). cbv zeta.
        rewrite E1, E2, ELG, ET, ECELL. repeat split; auto. intros g. rewrite EP. apply A5.
      - intros MT. rewrite ET. apply W2'. exact MT.
      - intros AT. rewrite EP. apply W3. exact AT.
      - intros RD. destruct (W4 RD) as (BC & FV). split; [exact BC|]. rewrite EP, ELG. exact FV.
      - apply (wita_mono B (sh s0) (o_s o)); [intros g; rewrite EP; lia|exact W5]. }
    change (sh (apply1 s0 a o)) with (o_s o).
    assert (NWIP : wip (a_pc (o_a o)) = false /\ wip (a_pc A) = false).
    { destruct SHP as [(P1' & P2') | (P1' & P2')]; rewrite P1', P2'; split; reflexivity. }
    destruct NWIP as (NW1 & NW2).
    split; [|split; [|split]].
    + destruct SG as [G1 G2]. constructor.
      * intros g. rewrite EP, E1. apply G1.
      * intros i T. rewrite ET in T |- *. apply G2. exact T.
    + intros b B EB.
      destruct (apply1_get _ _ _ _ _ EB) as (B0 & HB & Hsrc).
      assert (W0 : SlotA B0 (o_s o)); [|destruct HB as [-> | ->]; [exact W0|apply slota_notified; exact W0]].
      destruct Hsrc as [(a' & Hn & ->) | [(-> & ->) | (Hne & EB0)]].
      * rewrite N0 in Hn. discriminate Hn.
      * destruct SHP2 as [(PC & PC' & EHH) | (PC & PC' & EPOS)].
        -- apply slota_m2.  exact PC'.
        -- split; [intros X0; rewrite PC' in X0; discriminate X0|].
           split; [intros X0; rewrite PC' in X0; discriminate X0|].
           split; [intros _; rewrite EPOS, ESID, EP; lia|].
           split; [intros X0; rewrite PC' in X0; discriminate X0|].
           apply wita_nonphase. rewrite PC'. reflexivity.
      * apply TR. apply (SA b B0 EB0).
    + intros i T NOP7. change (sh (apply1 s0 a o)) with (o_s o) in *. rewrite ET in T. rewrite ET, ELG, ECELL. apply (CO i T).
      intros b B EB P7B. destruct (N.eq_dec b a) as [-> | NE].
      * rewrite EA in EB. injection EB as <-. rewrite P7B in NW2. discriminate NW2.
      * assert (NOK : new_ok s0 a o = true) by (unfold new_ok; rewrite N0; reflexivity).
        destruct (apply1_get_conv s0 a o b B EB NE NOK) as (B' & EB' & [-> | ->]).
        -- apply (NOP7 b B EB' P7B).
        -- assert (F : a_pc (set_a_notified true B) = P7 /\ r_h (a_r (set_a_notified true B)) = r_h (a_r B))
             by (destruct B; split; [exact P7B|reflexivity]).
           destruct F as (F1 & F2). rewrite <- F2. apply (NOP7 b _ EB' F1).
    + intros b1 b2 B1 B2 NE EB1 EB2 PW1 PW2.
      destruct (apply1_get _ _ _ _ _ EB1) as (A0' & HA & SRCA).
      destruct (apply1_get _ _ _ _ _ EB2) as (B0' & HB & SRCB).
      assert (FA : a_pc B1 = a_pc A0' /\ r_h (a_r B1) = r_h (a_r A0')) by (destruct HA as [-> | ->]; destruct A0'; split; reflexivity).
      assert (FB : a_pc B2 = a_pc B0' /\ r_h (a_r B2) = r_h (a_r B0')) by (destruct HB as [-> | ->]; destruct B0'; split; reflexivity).
      destruct FA as (FA1 & FA2). destruct FB as (FB1 & FB2). rewrite FA1 in PW1. rewrite FB1 in PW2. rewrite FA2, FB2.
      destruct SRCA as [(a' & Hn & ->) | [(-> & ->) | (NA & EA0)]]; [rewrite N0 in Hn; discriminate Hn|rewrite NW1 in PW1; discriminate PW1|].
      destruct SRCB as [(b' & Hn & ->) | [(-> & ->) | (NB & EB0)]]; [rewrite N0 in Hn; discriminate Hn|rewrite NW1 in PW2; discriminate PW2|].
      apply (DI b1 b2 A0' B0' NE EA0 EB0 PW1 PW2).
  - (* clock tick *)
    intros SM. cbn [ags sh] in *. destruct SM as [S1 S2].
    change (g_log (tick (sh s0))) with (g_log (sh s0)) in S2.
    destruct (IH (conj S1 S2)) as (SG & SA & CO & DI).
    split; [|split; [|split]].
    + destruct SG as [G1 G2]. constructor; [exact G1|exact G2].
    + intros b B EB. apply (SA b B EB).
    + intros i T NOP7. apply (CO i T NOP7).
    + exact DI.
Qed.
End SL.
