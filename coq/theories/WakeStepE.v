(* Small step facts for C08. *)
From Coq Require Import NArith List Bool Lia.
Require Import MQ.Arith64 MQ.Arith64Facts MQ.Types MQ.State MQ.Model MQ.Exec MQ.Reach MQ.Ctl MQ.Count MQ.WritersStep
  MQ.RecvDefs MQ.RecvStep MQ.WakeDefs MQ.NpDefs.
Import ListNotations.
Open Scope N_scope.

Ltac one_pc H E :=
  match type of H with micro _ _ ?A _ = _ =>
    destruct A as [role alive multi sid tok pc stack R notified parked]; cbn in E; subst pc; micro_cases H end.

Lemma e_P7 c me A S o : micro c me A S = Some o -> a_pc A = P7 -> np (o_a o) = true.
Proof. intros H E. one_pc H E; reflexivity. Qed.

Lemma e_SD0 c me A S o : micro c me A S = Some o -> ctl_ok A = true -> a_pc A = SD0 -> np (o_a o) = true.
Proof.
  intros H Q E. destruct A as [role alive multi sid tok pc stack R notified parked]. cbn in E. subst pc.
  unfold ctl_ok in Q. cbn in Q. apply andb_prop in Q as [Q Q3]. apply andb_prop in Q as [Q1 Q2].
  destruct stack as [|k st]; [|cbn in Q1; discriminate Q1]. cbn in Q2.
  unfold np, sender_drop. micro_cases H; cbn.
  destruct (r_call R); cbn in Q2; try discriminate Q2; destruct role; cbn in Q2 |- *; try discriminate Q2; reflexivity.
Qed.

Lemma e_B2 c me A S o : micro c me A S = Some o -> a_pc A = B2 ->
  a_pc (o_a o) = B2w /\ a_r (o_a o) = a_r A /\ tags (o_s o) = tags S /\ writers (o_s o) = writers S /\
  sleepers (o_s o) = sleepers S ++ [me] /\ woken (o_s o) = woken S.
Proof. intros H E. one_pc H E; cbn; repeat split; reflexivity. Qed.

Lemma e_B1c c me A S o : micro c me A S = Some o -> a_pc A = B1c -> r_last (a_r A) = false ->
  a_pc (o_a o) = B2 /\ a_r (o_a o) = a_r A /\ tags (o_s o) = tags S /\ writers (o_s o) = writers S.
Proof.
  intros H E RL. destruct A as [role alive multi sid tok pc stack R notified parked]. cbn in E, RL. subst pc.
  micro_cases H; cbn; try congruence; repeat split; reflexivity.
Qed.

Lemma e_C1 c me A S o : micro c me A S = Some o -> a_pc A = C1 ->
  a_pc (o_a o) = C2 /\ a_stack (o_a o) = a_stack A /\ r_tag (a_r (o_a o)) = gtag S (r_slot (a_r A)) /\
  r_cnt (a_r (o_a o)) = r_cnt (a_r A) /\ r_slot (a_r (o_a o)) = r_slot (a_r A) /\
  tags (o_s o) = tags S /\ writers (o_s o) = writers S.
Proof. intros H E. one_pc H E; cbn; repeat split; reflexivity. Qed.

Lemma e_C2 c me A S o st : micro c me A S = Some o -> a_pc A = C2 -> a_stack A = B1c :: st ->
  a_pc (o_a o) = B1c /\ r_last (a_r (o_a o)) = wait_check (r_cnt (a_r A)) (r_tag (a_r A)) (writers S) /\
  r_cnt (a_r (o_a o)) = r_cnt (a_r A) /\ r_slot (a_r (o_a o)) = r_slot (a_r A) /\
  tags (o_s o) = tags S /\ writers (o_s o) = writers S.
Proof.
  intros H E ES. destruct A as [role alive multi sid tok pc stack R notified parked]. cbn in E, ES. subst pc stack.
  micro_cases H; cbn; repeat split; reflexivity.
Qed.

(* the wait condition does not depend on the writers count as long as it is not zero *)
Lemma wait_check_nz seq flag w w' : w <> 0 -> w' <> 0 -> wait_check seq flag w = wait_check seq flag w'.
Proof.
  intros N1 N2. unfold wait_check.
  assert (E1 : (w =? 0) = false) by (apply N.eqb_neq; exact N1).
  assert (E2 : (w' =? 0) = false) by (apply N.eqb_neq; exact N2).
  rewrite E1, E2. reflexivity.
Qed.

Lemma e_B2w c me A S o : micro c me A S = Some o -> a_pc A = B2w -> woken (o_s o) = removeN me (woken S).
Proof. intros H E. one_pc H E; reflexivity. Qed.
