(* Case analysis for C13: the handle whose decrement found the count at one goes on to remove its stream. *)
From Coq Require Import NArith List Bool Lia.
Require Import MQ.Arith64 MQ.Arith64Facts MQ.Types MQ.State MQ.Model MQ.Exec MQ.Reach MQ.Ctl MQ.Count MQ.WritersStep
  MQ.RecvDefs MQ.RecvStep.
Import ListNotations.
Open Scope N_scope.

(* on the way from the decrement that found the count at one to the removal of the stream from the published list *)
Definition lastp (sg : N) (A : agent) : bool :=
  (a_sid A =? sg) && r_last (a_r A) && match topc A with D1 | D2pre | D2 => true | _ => false end.

Lemma micro_lastp sg c me A S o :
  micro c me A S = Some o -> ctl_ok A = true -> lastp sg A = true ->
  lastp sg (o_a o) = true \/ (a_pc A = D2 /\ cur S = r_g (a_r A) /\ cur (o_s o) = r_ng (a_r A)).
Proof.
  intros H Q. destruct A as [role alive multi sid tok pc stack R notified parked]. unfold lastp, topc.
  destruct pc; micro_cases H; cbn [o_a o_s]; pre_case Q Q1 Q2 Q3; try split_frame Q1 Q2; cbn; eqb_hyps;
    first [ solve [intros X; discriminate X]
          | solve [intros X; left; exact X]
          | solve [intros X; right; repeat split; auto]
          | solve [intros X; rewrite ?andb_false_r in X; discriminate X] ].
Qed.

Lemma t_RD0l c me A S o : micro c me A S = Some o -> a_pc A = RD0 -> a_stack A = [] -> gcons S (a_sid A) = 1 ->
  lastp (a_sid A) (o_a o) = true.
Proof.
  intros H E ES EC. destruct A as [role alive multi sid tok pc stack R notified parked]. cbn in E, ES, EC. subst pc stack.
  unfold lastp, topc in *. micro_cases H; cbn; eqb_hyps; rewrite ?N.eqb_refl; try reflexivity; contradiction.
Qed.
