(* Case analysis: where the claim "I am the only consumer of my stream" comes from. *)
From Coq Require Import NArith List Bool Lia.
Require Import MQ.Arith64 MQ.Arith64Facts MQ.Types MQ.State MQ.Model MQ.Exec MQ.Reach MQ.Ctl MQ.Count MQ.WritersStep MQ.RecvDefs MQ.SoleDefs.
Import ListNotations.
Open Scope N_scope.

Definition S_kept (A : agent) (o : out) : Prop :=
  claims_sole A = true /\ a_sid (o_a o) = a_sid A.
Definition S_checked (A : agent) (S : shared) (o : out) : Prop :=
  gcons S (a_sid A) = 1 /\ a_sid (o_a o) = a_sid A /\ w_h (a_sid A) A = true.
Definition S_newstream (A : agent) (o : out) : Prop :=
  nphase A = true /\ a_sid (o_a o) = r_ns (a_r A) /\ a_pc A = RDfin2.

Lemma micro_sole c me A S o :
  micro c me A S = Some o -> ctl_ok A = true -> ra_ok A = true ->
  (claims_sole (o_a o) = true -> S_kept A o \/ S_checked A S o \/ S_newstream A o) /\
  (forall a' A', o_new o = Some (a', A') -> claims_sole A' = true ->
     nphase A = true /\ a_sid A' = r_ns (a_r A) /\ nphase (o_a o) = false).
Proof.
  intros H Q U. destruct A as [role alive multi sid tok pc stack R notified parked].
  unfold S_kept, S_checked, S_newstream, claims_sole, w_h, nphase, topc, recv_role, ra_ok, uni_ok, att_ok, topc in *.
  cbn in U.
  destruct pc; micro_cases H; cbn [o_a o_new];
    (split; [|let an := fresh "an" in let An := fresh "An" in let X := fresh "X" in
              intros an An X; try discriminate X; injection X as <- <-; cbn]);
    pre_case Q Q1 Q2 Q3;
    repeat (match goal with E : is_view_call _ = _ |- _ => unfold is_view_call in E; cbn in E end);
    try (match goal with E : false = true |- _ => discriminate E | E : true = false |- _ => discriminate E end);
    cbn in U |- *; rewrite ?N.eqb_refl; cbn; eqb_hyps;
    first [ solve [intros X; discriminate X]
          | solve [intros X; left; split; [exact X | reflexivity]]
          | solve [intros X; apply andb_prop in X as [XW X]; apply orb_prop in X as [X|X];
                   [left; split; [rewrite XW, X; reflexivity|reflexivity]
                   |right; left; repeat split; auto; now apply N.eqb_eq]]
          | try split_frame Q1 Q2; cbn in U |- *;
            first [ solve [intros X; discriminate X]
                  | solve [intros X; left; split; [exact X | reflexivity]]
                  | split_call Q2; cbn in U |- *; try (apply eqb_prop in Q3; subst; cbn in U |- *);
                    try (match goal with E : false = true |- _ => discriminate E | E : true = false |- _ => discriminate E end);
                    first [ solve [intros X; discriminate X]
                          | solve [discriminate U]
                          | solve [intros X; left; split; [exact X | reflexivity]]
                          | solve [intros X; right; left; repeat split; auto]
                          | solve [intros X; right; right; repeat split; auto]
                          | solve [intros X; repeat split; auto]
                          | solve [intros X; apply orb_prop in X as [X|X];
                                   [left; split; [rewrite X; reflexivity | reflexivity]
                                   |right; left; repeat split; auto; now apply N.eqb_eq]]
                          | solve [intros X; apply andb_prop in X as [XW X]; apply orb_prop in X as [X|X];
                                   [left; split; [rewrite XW, X; reflexivity|reflexivity]
                                   |right; left; repeat split; auto; now apply N.eqb_eq]]
                          | solve [intros X; left; split; [|reflexivity];
                                   destruct multi, (r_single R); cbn in X, U |- *; first [exact X | reflexivity | discriminate X | discriminate U]] ] ] ].
Qed.
