(* Case analysis for C13: an agent that has removed a stream from the published list goes on to look at the list and, if
   it is empty, to set the no-reader flag. *)
From Coq Require Import NArith List Bool Lia.
Require Import MQ.Arith64 MQ.Arith64Facts MQ.Types MQ.State MQ.Model MQ.Exec MQ.Reach MQ.Ctl MQ.Count MQ.WritersStep
  MQ.RecvDefs MQ.RecvStep MQ.SigStep.
Import ListNotations.
Open Scope N_scope.

(* between the removal of a stream from the published list and the look at the list that decides about the flag *)
Definition dph (A : agent) : bool :=
  match topc A with D3 | D4pre | D4b | D4c | D5 | D6 => true | _ => false end.

Lemma micro_dph c me A S o :
  micro c me A S = Some o -> ctl_ok A = true -> dph A = true ->
  dph (o_a o) = true \/ (a_pc A = D6 /\ no_reader (o_s o) = true) \/ (a_pc A = D5 /\ ggroup S (cur S) <> []).
Proof.
  intros H Q. destruct A as [role alive multi sid tok pc stack R notified parked]. unfold dph, topc, no_reader.
  destruct pc; micro_cases H; cbn [o_a o_s]; pre_case Q Q1 Q2 Q3; try split_frame Q1 Q2; cbn;
    first [ solve [intros X; discriminate X]
          | solve [intros X; left; first [reflexivity | exact X]]
          | solve [intros X; right; right; split; [reflexivity|congruence]]
          | solve [intros X; right; left; split; [reflexivity|assumption]]
          | solve [intros X; right; left; split; [reflexivity|];
                   match goal with H0 : N.odd (?sg / 2) = false |- _ =>
                     replace (sg + 2) with (sg + 1 * 2) by lia; rewrite N.div_add by lia;
                     rewrite N.add_1_r, N.odd_succ, <- N.negb_odd, H0; reflexivity end] ].
Qed.
