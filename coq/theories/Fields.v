(* Which micro-steps can change which shared field, and how (brute-force case analysis over
   all program counters, done once per field; later proofs use only these lemmas). *)
From Coq Require Import NArith List Bool Lia.
Require Import MQ.Arith64 MQ.Types MQ.State MQ.Model MQ.Exec MQ.Reach.
Import ListNotations.
Open Scope N_scope.

Lemma micro_head c me A S o : micro c me A S = Some o ->
  (head (o_s o) = head S /\ g_log (o_s o) = g_log S) \/
  ((a_pc A = P5 \/ (a_pc A = M5 /\ head S = r_h (a_r A))) /\
   head (o_s o) = next_count (r_h (a_r A)) /\ g_log (o_s o) = g_log S ++ [r_v (a_r A)]).
Proof.
  intros H. destruct A as [role alive multi sid tok pc stack R notified parked].
  destruct pc; micro_cases H; cbn; auto; eqb_hyps; intuition congruence.
Qed.

Lemma spur_head c A S o : micro_spur c A S = Some o ->
  head (o_s o) = head S /\ g_log (o_s o) = g_log S.
Proof.
  intros H. unfold micro_spur, ok in H. destruct (a_pc A); try discriminate H.
  - injection H as <-. cbn. auto.
  - destruct (r_am (a_r A)); [discriminate|].
    unfold use_obj, bad, drop_opt, drop_val in H.
    break_hyp H; injection H as <-; cbn; auto.
Qed.
