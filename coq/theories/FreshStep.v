(* Case analysis: stream identifiers are allocated fresh (InvRecv.v). *)
From Coq Require Import NArith List Bool Lia.
Require Import MQ.Arith64 MQ.Arith64Facts MQ.Types MQ.State MQ.Model MQ.Exec MQ.Reach MQ.Ctl MQ.Count MQ.WritersStep MQ.RecvDefs.
Import ListNotations.
Open Scope N_scope.

Lemma micro_fresh c me A S o :
  micro c me A S = Some o -> ctl_ok A = true -> fresh_ok A S ->
  nsid S <= nsid (o_s o) /\ fresh_ok (o_a o) (o_s o) /\
  (forall a' A', o_new o = Some (a', A') -> fresh_ok A' (o_s o)).
Proof.
  intros H Q [F1 [F2 F3]]. destruct A as [role alive multi sid tok pc stack R notified parked].
  unfold fresh_ok, nphase, topc in *. cbn in F1, F2, F3.
  destruct pc; micro_cases H; cbn [o_a o_new o_s];
    (split; [cbn; lia|]);
    (split; [|let an := fresh "an" in let An := fresh "An" in let X := fresh "X" in
              intros an An X; try discriminate X; injection X as <- <-; cbn;
              repeat split; try lia; try discriminate]);
    pre_case Q Q1 Q2 Q3; cbn in F3 |- *;
    first [ solve [repeat split; try lia; try exact F3; try discriminate]
          | try split_frame Q1 Q2; cbn in F3 |- *;
            first [ solve [repeat split; try lia; try exact F3; try discriminate]
                  | split_call Q2; cbn in F3 |- *; try specialize (F3 eq_refl);
                    solve [repeat split; try lia; try exact F3; try discriminate; intros; lia] ] ].
Qed.
