(* The window invariant (C03) for every execution without an F11 step: the tail cache is a lower
   bound of every registered cursor and the head counter is at most one ring ahead of it - hence
   never more than N accepted values are unconsumed by any registered stream. *)
From Coq Require Import NArith List Bool Lia.
Require Import MQ.Arith64 MQ.Arith64Facts MQ.Types MQ.State MQ.Model MQ.Exec MQ.Reach MQ.Fields MQ.Ctl MQ.Count MQ.SumCount MQ.FreshStep
  MQ.WritersStep MQ.InvWriters MQ.HeadStep MQ.InvHead MQ.RecvDefs MQ.RecvStep MQ.KnownStep MQ.InvRecv MQ.SoleDefs MQ.InvSole
  MQ.PosStep MQ.AttStep MQ.InvPos MQ.GroupStep MQ.GroupStep2 MQ.GroupStep3 MQ.NewAgentStep MQ.InvGroups MQ.RegStep MQ.InvReg
  MQ.WinStep MQ.WinDefs MQ.WinStep2 MQ.WinTrans.
Import ListNotations.
Open Scope N_scope.

Section W.
Variable c : cfg.
Notation N := (c_n c).
Hypothesis Npos : 0 < N.
Hypothesis Nsmall : N <= B61.

Definition SmallW (s : state) : Prop := lenN (ags s) < B62 /\ lenN (g_log (sh s)) < B62.

Definition WinA (A : agent) (Sh : shared) : Prop := sa c A Sh /\ ua A Sh /\ ra A Sh /\ ga A.

Definition WinInv (s : state) : Prop :=
  SmallW s -> WinG c (sh s) /\ forall a A, get (ags s) a = Some A -> WinA A (sh s).

(* ---- small facts ---- *)
Lemma sa_nonphase A Sh : sphase (a_pc A) = false -> sa c A Sh.
Proof. unfold sa. destruct (a_pc A); cbn; intros X; try discriminate X; exact I. Qed.

Lemma lenN_app_le {A} (l t : list A) : lenN l <= lenN (l ++ t).
Proof. unfold lenN. rewrite app_length. lia. Qed.

Lemma head_small fut s : mreach c fut s -> SmallW s -> head (sh s) = lenN (g_log (sh s)) /\ head (sh s) < B62.
Proof.
  intros R [S1 S2]. destruct (head_mreach c fut s R S1) as [_ HC]. unfold head_counts_log in HC.
  rewrite N.mod_small in HC by (unfold MASK_IND, B62 in *; lia). split; [exact HC|lia].
Qed.

Lemma next_count_plus x : x < B62 -> next_count x = x + 1.
Proof. intros H. apply next_count_small. unfold MASK_IND, B62 in *. lia. Qed.

(* assertions that only read words the step did not write *)
Lemma sa_weq A Sh Sh' : win_eq Sh Sh' -> sa c A Sh -> sa c A Sh'.
Proof.
  intros (E1 & E2 & E3 & E4 & E5 & E6 & E7) H. unfold sa in *.
  assert (EG : forall g, ggroup Sh' g = ggroup Sh g) by (intros; unfold ggroup; now rewrite E6).
  assert (EP : forall g, gpos Sh' g = gpos Sh g) by (intros; unfold gpos; now rewrite E3).
  assert (ES : streams Sh' = streams Sh) by (unfold streams; now rewrite EG, E4).
  destruct (a_pc A); try exact H;
    unfold A0, Hb, ScanCtx, CondProg, Post, FT, PASS in *; rewrite ?E1, ?E2, ?E4, ?E5, ?ES, ?EG in *;
    repeat (match goal with |- context [gpos Sh' ?g] => rewrite (EP g) end);
    try exact H.
  all: try (setoid_rewrite EP; exact H).
Qed.

(* assertions survive a step of another agent: every word they read only moves forward *)
Lemma sa_mono A Sh Sh' :
  head Sh <= head Sh' -> tailc Sh <= tailc Sh' -> (forall g, gpos Sh g <= gpos Sh' g) ->
  cur Sh <= cur Sh' -> ngid Sh <= ngid Sh' ->
  (forall g, g < ngid Sh -> ggroup Sh' g = ggroup Sh g) ->
  (forall sg, In sg (streams Sh') -> In sg (streams Sh) \/ exists p, In p (streams Sh) /\ gpos Sh' sg = gpos Sh' p) ->
  sa c A Sh -> sa c A Sh'.
Proof.
  intros MH MT MP MC MN IM ST H. unfold sa in *.
  assert (PO : Post c Sh (a_r A) -> Post c Sh' (a_r A)).
  { unfold Post. intros P NF. destruct (P NF) as (MD & AL). split; [exact MD|].
    intros sg IN. destruct (ST sg IN) as [I0 | (p & I0 & EP)].
    - specialize (AL sg I0). specialize (MP sg). lia.
    - specialize (AL p I0). specialize (MP p). lia. }
  assert (CP : CondProg c Sh (a_r A) -> CondProg c Sh' (a_r A)).
  { unfold CondProg. intros (C1 & C2 & C3). split; [lia|]. split; [lia|].
    intros EC. assert (EC0 : cur Sh = r_g (a_r A)) by lia.
    destruct (C3 EC0) as (pre & EG & MD & AL). exists pre. rewrite IM by exact C2.
    split; [exact EG|]. split; [exact MD|].
    intros NF sg IN. specialize (AL NF sg IN). specialize (MP sg). lia. }
  destruct (a_pc A); try exact H; unfold A0, Hb, ScanCtx, FT, PASS in *;
    repeat (match goal with H0 : _ /\ _ |- _ => destruct H0 end);
    repeat (match goal with |- _ /\ _ => split end); auto; try lia;
    try (apply PO; assumption); try (apply CP; assumption).
Qed.

Lemma ra_mono A Sh Sh' : head Sh <= head Sh' -> ra A Sh -> ra A Sh'.
Proof. intros MH (R1 & R2). split; intros X; [specialize (R1 X)|specialize (R2 X)]; lia. Qed.

Lemma ua_teq A Sh Sh' : tailc Sh' = tailc Sh -> ua A Sh -> ua A Sh'.
Proof. intros E H. unfold ua in *. rewrite E. exact H. Qed.

(* ---- how one micro-step moves the words the invariant reads ---- *)
Lemma a3_wh A : ctl_ok A = true -> a_pc A = A3 -> w_h (a_sid A) A = true.
Proof.
  intros Q B. destruct A as [role alive multi sid tok pc stack R notified parked].
  cbn in B. subst pc. unfold ctl_ok in Q. unfold w_h, topc, recv_role. cbn in Q |- *.
  apply andb_prop in Q as [Q Q3]. apply andb_prop in Q as [Q1 Q2].
  destruct stack as [|k st]; [|cbn in Q1; discriminate Q1]. cbn in Q2 |- *.
  destruct (r_call R); cbn in Q2; try discriminate Q2;
    destruct role; cbn in Q2 |- *; try discriminate Q2;
    apply eqb_prop in Q3; subst alive; rewrite N.eqb_refl; reflexivity.
Qed.

Lemma small_back s x X o :
  get (ags s) x = Some X -> micro c x X (sh s) = Some o -> SmallW (apply1 s x o) -> SmallW s.
Proof.
  intros EX M [S1 S2]. split.
  - pose proof (apply1_len s x o). lia.
  - change (sh (apply1 s x o)) with (o_s o) in S2.
    destruct (micro_head _ _ _ _ _ M) as [[_ E]|[_ [_ E]]]; rewrite E in S2; [exact S2|].
    pose proof (lenN_app_le (g_log (sh s)) [r_v (a_r X)]). lia.
Qed.

Record StepFacts (Sh Sh' : shared) : Prop := {
  sf_head : head Sh <= head Sh';
  sf_tail : tailc Sh <= tailc Sh';
  sf_pos : forall g, gpos Sh g <= gpos Sh' g;
  sf_cur : cur Sh <= cur Sh';
  sf_ngid : ngid Sh <= ngid Sh';
  sf_imm : forall g, g < ngid Sh -> ggroup Sh' g = ggroup Sh g;
  sf_streams : forall sg, In sg (streams Sh') ->
      In sg (streams Sh) \/ exists p, In p (streams Sh) /\ gpos Sh' sg = gpos Sh' p
}.

Lemma in_removeN_in x y l : In x (removeN y l) -> In x l.
Proof.
  induction l as [|z l IH]; [intros []|].
  change (removeN y (z :: l)) with (if N.eqb y z then removeN y l else z :: removeN y l).
  destruct (N.eqb y z); intros H; [right; auto|destruct H as [->|H]; [left; reflexivity|right; auto]].
Qed.

Lemma sa_at (A : agent) Sh pc : a_pc A = pc -> sa c A Sh ->
  match pc with
  | P3 | M3 => A0 Sh (a_r A) /\ Hb c Sh (a_r A) /\ ScanCtx c Sh (a_r A) /\ Post c Sh (a_r A) /\
               r_none (a_r A) = false /\ r_nt (a_r A) = r_h (a_r A) - r_md (a_r A)
  | P5 | M5 => A0 Sh (a_r A) /\ PASS c Sh (a_r A)
  | P7 => r_h (a_r A) < head Sh
  | _ => True
  end.
Proof. intros E H. unfold sa in H. rewrite E in H. destruct pc; try exact I; exact H. Qed.

Lemma win_step_global fut s x X o :
  mreachN c fut s -> SmallW (apply1 s x o) -> get (ags s) x = Some X ->
  micro c x X (sh s) = Some o -> new_ok s x o = true -> ~ f11_bad (sh s) X ->
  (is_local (a_pc X) = true \/ enabled x X (sh s) = true) ->
  WinInv s -> StepFacts (sh s) (o_s o) /\ WinG c (o_s o).
Proof.
  intros RN SM' EX M NO NF11 EN I.
  pose proof (mreachN_mreach c fut s RN) as R.
  pose proof (small_back s x X o EX M SM') as SM. destruct SM as [SMa SMl].
  destruct (I (conj SMa SMl)) as (G & IA). destruct (IA x X EX) as (SAX & UAX & RAX & GAX).
  pose proof (ctl_mreach c fut s R x X EX) as QX.
  destruct (head_small fut s R (conj SMa SMl)) as (HL0 & HB0).
  assert (R' : mreach c fut (apply1 s x o)) by (eapply mr_micro; eauto).
  destruct (head_small fut _ R' SM') as (HL1 & HB1). change (sh (apply1 s x o)) with (o_s o) in HL1, HB1.
  destruct (recv_mreach c fut s R) as (ND & FR & UQ & CE).
  destruct (groups_mreach c fut s R) as (GC & GA).
  destruct (reg_mreach c fut s R SMa) as (LZ & RG1 & RG2).
  pose proof (micro_head _ _ _ _ _ M) as FH.
  pose proof (micro_tailc _ _ _ _ _ M) as FT0.
  destruct (micro_groups _ _ _ _ _ M) as (NG & IM & CU).
  assert (CS : forall g, gpos (o_s o) g = gpos (sh s) g \/
                 (a_sid X = g /\ (a_pc X = R12 \/ a_pc X = V4) /\ gpos (o_s o) g = next_count (gpos (sh s) g)) \/
                 (a_pc X = A2 /\ g = nsid (sh s) /\ gpos (o_s o) g = gpos (sh s) (a_sid X)))
    by (intros g; apply (cursor_steps c fut s x X o g R SMa EX M)).
  (* the stream of a committing consumer is registered *)
  assert (REGX : (a_pc X = R12 \/ a_pc X = V4) -> In (a_sid X) (streams (sh s))).
  { intros PC. apply (RG1 x X (a_sid X) EX). apply ftr_wh; [exact QX|]. destruct PC as [-> | ->]; reflexivity. }
  (* head *)
  assert (SH : head (sh s) <= head (o_s o)).
  { destruct FH as [[E _] | [[PC | [PC HE]] [E _]]]; rewrite E.
    - lia.
    - assert (PX : pp_pc (a_pc X) (a_stack X) = true) by (rewrite PC; reflexivity).
      destruct (head_mreach c fut s R SMa) as [HLX _]. rewrite (HLX x X EX PX).
      rewrite next_count_plus by lia. lia.
    - rewrite <- HE. rewrite next_count_plus by lia. lia. }
  (* tail cache *)
  assert (ST : tailc (sh s) <= tailc (o_s o)).
  { destruct FT0 as [E | [(PC & E) | (PC & ET & E)]]; rewrite E; [lia| |].
    - destruct (sa_at X (sh s) P3 PC SAX) as (S0 & S1 & (S2a & S2b) & S3 & NF & ENT).
      destruct (S3 NF) as (MD & _). unfold ua in UAX. rewrite PC in UAX. lia.
    - destruct (sa_at X (sh s) M3 PC SAX) as (S0 & S1 & (S2a & S2b) & S3 & NF & ENT).
      destruct (S3 NF) as (MD & _). lia. }
  (* cursors *)
  assert (SP : forall g, gpos (sh s) g <= gpos (o_s o) g).
  { intros g. destruct (CS g) as [E | [(ES & PC & E) | (PC & EG & E)]]; rewrite E.
    - lia.
    - subst g. pose proof (w_cursor_le_head c _ G _ (REGX PC)). rewrite next_count_plus by lia. lia.
    - subst g. rewrite (w_pos_fresh c _ G (nsid (sh s))) by lia. lia. }
  assert (SC : cur (sh s) <= cur (o_s o)).
  { destruct CU as [E | [(PC & EC & E) | (PC & EC & E)]]; rewrite E; [lia| |];
      unfold ga in GAX; specialize (GAX (ltac:(auto))); lia. }
  assert (SS : forall sg, In sg (streams (o_s o)) ->
                 In sg (streams (sh s)) \/ exists p, In p (streams (sh s)) /\ gpos (o_s o) sg = gpos (o_s o) p).
  { intros sg IN. unfold streams in IN |- *.
    destruct CU as [E | [(PC & EC & E) | (PC & EC & E)]]; rewrite E in IN.
    - rewrite IM in IN by exact GC. left. exact IN.
    - destruct (GA x X EX) as (_ & XA & _). destruct (XA PC) as (L1 & EL).
      rewrite IM in IN by exact L1. rewrite EL, <- EC in IN. apply in_app_or in IN as [IN | [<- | []]]; [left; exact IN|].
      right. exists (a_sid X). split; [apply (RG1 x X (a_sid X) EX); apply a3_wh; assumption|].
      assert (NC : forall g, gpos (o_s o) g = gpos (sh s) g).
      { intros g. destruct (CS g) as [E1 | [(_ & [PC2 | PC2] & _) | (PC2 & _)]]; [exact E1| | |]; congruence. }
      rewrite !NC. destruct (N.eq_dec (gpos (sh s) (r_ns (a_r X))) (gpos (sh s) (a_sid X))) as [EQ | NE]; [exact EQ|].
      exfalso. apply NF11. repeat split; auto.
    - destruct (GA x X EX) as (_ & _ & XR). destruct (XR PC) as (L1 & EL).
      rewrite IM in IN by exact L1. rewrite EL, <- EC in IN. left. eapply in_removeN_in; eauto. }
  split; [constructor; auto|].
  (* the global part after the step *)
  assert (LOW : forall sg, In sg (streams (sh s)) -> gpos (o_s o) sg <= head (o_s o)).
  { intros sg IN. pose proof (w_cursor_le_head c _ G sg IN) as L0.
    destruct (CS sg) as [E | [(ES & PC & E) | (PC & EG & E)]]; rewrite E.
    - lia.
    - subst sg. rewrite next_count_plus by lia.
      (* the committing consumer has seen the tag of its position *)
      destruct RAX as (_ & RM). assert (MX : matched (a_pc X) = true) by (destruct PC as [-> | ->]; reflexivity).
      specialize (RM MX).
      assert (EP : r_p (a_r X) = gpos (sh s) (a_sid X)).
      { destruct (micro_pos (a_sid X) _ _ _ _ _ M) as [PS | [(_ & _ & EP & EC) | (PA & _)]].
        - unfold P_same in PS. rewrite PS in E. rewrite next_count_plus in E by lia. lia.
        - rewrite E in EP.
          destruct (r_am (a_r X)) eqn:EAM.
          + apply (pos_mreach c fut s R SMa x X EX). unfold ap_phase.
            destruct PC as [-> | ->]; cbn; [now rewrite EAM|reflexivity].
          + destruct PC as [P12 | PV4]; [symmetry; apply EC; auto|].
            apply (pos_mreach c fut s R SMa x X EX). unfold ap_phase. rewrite PV4. reflexivity.
        - destruct PC; congruence. }
      lia.
    - subst sg. destruct (FR x X EX) as (F1 & _).
      pose proof (RG1 x X (a_sid X) EX) as RX. pose proof (w_cursor_le_head c _ G) as LL.
      (* the parent of a new stream is a registered stream *)
      assert (WX : w_h (a_sid X) X = true).
      { clear -QX PC. destruct X as [role alive multi sid tok pc stack R0 notified parked].
        cbn in PC. subst pc. unfold ctl_ok in QX. unfold w_h, topc, recv_role. cbn in QX |- *.
        apply andb_prop in QX as [Q Q3]. apply andb_prop in Q as [Q1 Q2].
        destruct stack as [|k st]; [|cbn in Q1; discriminate Q1]. cbn in Q2 |- *.
        destruct (r_call R0); cbn in Q2; try discriminate Q2;
          destruct role; cbn in Q2 |- *; try discriminate Q2;
          apply eqb_prop in Q3; subst alive; rewrite N.eqb_refl; reflexivity. }
      specialize (LL _ (RX WX)). lia. }
  constructor.
  - (* tail cache below every registered cursor *)
    intros sg IN.
    destruct FT0 as [E | [(PC & E) | (PC & ET & E)]].
    + rewrite E. destruct (SS sg IN) as [I0 | (p & I0 & EP)].
      * pose proof (w_tail_le_cursor c _ G sg I0). specialize (SP sg). lia.
      * pose proof (w_tail_le_cursor c _ G p I0). specialize (SP p). lia.
    + destruct (sa_at X (sh s) P3 PC SAX) as (S0 & S1 & (S2a & S2b) & S3 & NF & ENT).
      destruct (S3 NF) as (MD & AL). rewrite E.
      assert (NC : forall g, gpos (o_s o) g = gpos (sh s) g).
      { intros g. destruct (CS g) as [E1 | [(_ & [PC2 | PC2] & _) | (PC2 & _)]]; [exact E1| | |]; congruence. }
      destruct (SS sg IN) as [I0 | (p & I0 & EP)].
      * rewrite NC. specialize (AL sg I0). lia.
      * rewrite EP, NC. specialize (AL p I0). lia.
    + destruct (sa_at X (sh s) M3 PC SAX) as (S0 & S1 & (S2a & S2b) & S3 & NF & ENT).
      destruct (S3 NF) as (MD & AL). rewrite E.
      assert (NC : forall g, gpos (o_s o) g = gpos (sh s) g).
      { intros g. destruct (CS g) as [E1 | [(_ & [PC2 | PC2] & _) | (PC2 & _)]]; [exact E1| | |]; congruence. }
      destruct (SS sg IN) as [I0 | (p & I0 & EP)].
      * rewrite NC. specialize (AL sg I0). lia.
      * rewrite EP, NC. specialize (AL p I0). lia.
  - (* head at most one ring ahead of the tail cache *)
    pose proof (w_head_le_tail_n c _ G) as W3.
    destruct FH as [[E _] | [[PC | [PC HE]] [E _]]].
    + rewrite E. lia.
    + destruct (sa_at X (sh s) P5 PC SAX) as (S0 & PS). unfold PASS in PS.
      assert (PX : pp_pc (a_pc X) (a_stack X) = true) by (rewrite PC; reflexivity).
      destruct (head_mreach c fut s R SMa) as [HLX _]. pose proof (HLX x X EX PX) as EH.
      rewrite E, next_count_plus by lia. lia.
    + destruct (sa_at X (sh s) M5 PC SAX) as (S0 & PS). unfold PASS in PS.
      rewrite E, next_count_plus by lia. lia.
  - (* tail cache not ahead of the head counter *)
    pose proof (w_tail_le_head c _ G) as W4.
    destruct FT0 as [E | [(PC & E) | (PC & ET & E)]]; rewrite E.
    + lia.
    + destruct (sa_at X (sh s) P3 PC SAX) as (S0 & S1 & (S2a & S2b) & S3 & NF & ENT). unfold A0 in S0. lia.
    + destruct (sa_at X (sh s) M3 PC SAX) as (S0 & S1 & (S2a & S2b) & S3 & NF & ENT). unfold A0 in S0. lia.
  - (* no registered cursor ahead of the head counter *)
    intros sg IN. destruct (SS sg IN) as [I0 | (p & I0 & EP)]; [apply LOW; exact I0|].
    rewrite EP. apply LOW; exact I0.
  - (* written tags are claimed positions *)
    intros i. destruct (micro_tags i _ _ _ _ _ M) as [E | (PC & EI & E)]; rewrite E.
    + destruct (w_tag_claimed c _ G i) as [T | T]; [left; exact T|right; lia].
    + right. pose proof (sa_at X (sh s) P7 PC SAX) as S7. cbn in S7. lia.
  - exact HB1.
  - (* cursors of unallocated identifiers *)
    intros g LG.
    assert (NSI : nsid (sh s) <= nsid (o_s o)) by (destruct (micro_fresh _ _ _ _ _ M QX (FR x X EX)) as (L & _); exact L).
    destruct (CS g) as [E | [(ES & PC & E) | (PC & EG & E)]].
    + rewrite E. apply (w_pos_fresh c _ G). lia.
    + exfalso. destruct (FR x X EX) as (F1 & _). lia.
    + exfalso. subst g. pose proof (micro_a2 _ _ _ _ _ M PC) as (_ & _ & _ & _ & _ & _).
      assert (nsid (o_s o) = nsid (sh s) + 1).
      { clear -M PC. destruct X as [role alive multi sid tok pc stack R0 notified parked].
        cbn in PC. subst pc. micro_cases M; reflexivity. }
      lia.
Qed.

(* ---- the stepping agent ---- *)
Definition ssrc (p : pcl) : bool :=
  match p with
  | P1 | M1 | P2 | M2 | M5 | G1 | G2 | G3 | P3pre | M3pre | M3 | M3b | M3post | P3 | P4pre | P4 | M4pre | M4 | P5 | P6 => true
  | _ => false
  end.

Lemma spred_src p q : spred p q = true -> ssrc p = true.
Proof. destruct q; try (intros X; discriminate X); destruct p; intros X; try discriminate X; reflexivity. Qed.

Lemma ua_nonpp B Sh : pp_pc (a_pc B) (a_stack B) = false -> ua B Sh.
Proof.
  unfold ua, pp_pc. destruct (a_pc B); try (intros _; exact I); try (intros X; discriminate X);
    destruct (a_stack B) as [|k st]; try (intros _; exact I); destruct k; try (intros _; exact I); intros X; discriminate X.
Qed.

Lemma wina_notified B Sh b : WinA (set_a_notified b B) Sh <-> WinA B Sh.
Proof. destruct B; unfold WinA, sa, ua, ra, ga; cbn; tauto. Qed.

Ltac ua_triv PC := unfold ua; rewrite PC; exact I.

Lemma self_sa_ua me X Sh o :
  micro c me X Sh = Some o -> ctl_ok X = true -> WinG c Sh -> sa c X Sh -> ua X Sh -> cur Sh < ngid Sh ->
  (a_pc X = P5 -> r_h (a_r X) = head Sh) ->
  sa c (o_a o) (o_s o) /\ ua (o_a o) (o_s o).
Proof.
  intros M Q G SA UA GC H5.
  destruct (sphase (a_pc (o_a o))) eqn:SPH.
  2:{ split; [apply sa_nonphase; exact SPH|]. unfold ua. destruct (a_pc (o_a o)); try exact I; discriminate SPH. }
  pose proof (micro_spred _ _ _ _ _ M Q SPH) as SPR.
  pose proof (spred_src _ _ SPR) as SRC.
  pose proof (w_head_small c Sh G) as HB.
  destruct (a_pc X) eqn:EP; try discriminate SRC; clear SRC.
  - (* P1 *) destruct (t_P1 c Npos Nsmall _ _ _ _ M EP G) as (S1 & _ & PC). split; [exact S1|ua_triv PC].
  - (* P2 *) destruct (t_P2 c Npos Nsmall _ _ _ _ M EP G SA) as (S1 & WE & [(PC & ST & TC) | PC]); (split; [exact S1|]).
    + destruct WE as (_ & E2 & _). unfold ua. rewrite PC, ST, TC, E2. reflexivity.
    + ua_triv PC.
  - (* P3pre *) destruct (t_P3pre c Npos Nsmall _ _ _ _ M EP G SA) as (WE & TC & _ & [(PC & S1) | PC]).
    + split; [exact S1|]. destruct WE as (_ & E2 & _). unfold ua in *. rewrite EP in UA. rewrite PC, TC, E2. exact UA.
    + rewrite PC in SPH. discriminate SPH.
  - (* P3 *) destruct (t_P3 c Npos Nsmall _ _ _ _ M EP Q G SA) as (_ & _ & _ & S1). split; [exact (S1 SPH)|].
    unfold ua. destruct (a_pc (o_a o)); try discriminate SPR; exact I.
  - (* P4pre *) destruct (t_pass c _ _ _ _ M (or_introl EP) SA) as (_ & _ & S1).
    rewrite EP in S1. split; [exact (S1 SPR)|]. unfold ua. destruct (a_pc (o_a o)); try discriminate SPR; exact I.
  - (* P4 *) destruct (t_pass c _ _ _ _ M (or_intror (or_introl EP)) SA) as (_ & _ & S1).
    rewrite EP in S1. split; [exact (S1 SPR)|]. unfold ua. destruct (a_pc (o_a o)); try discriminate SPR; exact I.
  - (* P5 *) destruct (t_P5 c _ _ _ _ M EP G SA) as (EH' & ER & PC & _).
    split; [|ua_triv PC]. unfold sa. rewrite PC, EH', ER. specialize (H5 eq_refl). rewrite next_count_plus by lia. lia.
  - (* P6 *) destruct (t_P6 c _ _ _ _ M EP SA) as (_ & _ & _ & _ & _ & _ & _ & S1 & PC). split; [exact S1|ua_triv PC].
  - (* M1 *) destruct (t_M1 c Npos Nsmall _ _ _ _ M EP G) as (S1 & _ & PC). split; [exact S1|ua_triv PC].
  - (* M2 *) destruct (t_M2 c Npos Nsmall _ _ _ _ M EP G SA) as (S1 & WE & [(PC & ST) | PC]); (split; [exact S1|]).
    + unfold ua. rewrite PC, ST. exact I.
    + ua_triv PC.
  - (* M3pre *) destruct (t_M3pre c Npos Nsmall _ _ _ _ M EP G SA) as (WE & S1 & [PC | [PC | PC]]); (split; [exact S1|ua_triv PC]).
  - (* M3 *) destruct (t_M3 c Npos Nsmall _ _ _ _ M EP G SA) as (_ & _ & PC & _ & F). split; [unfold sa; rewrite PC; exact F|ua_triv PC].
  - (* M3b *) destruct (t_M3b c Npos Nsmall _ _ _ _ M EP G SA) as (_ & S1 & PC). split; [exact S1|ua_triv PC].
  - (* M3post *) destruct (t_M3post c Npos Nsmall _ _ _ _ M EP G SA) as (_ & S1 & [PC | PC]); (split; [exact S1|ua_triv PC]).
  - (* M4pre *) destruct (t_pass c _ _ _ _ M (or_intror (or_intror (or_introl EP))) SA) as (_ & _ & S1).
    rewrite EP in S1. split; [exact (S1 SPR)|]. unfold ua. destruct (a_pc (o_a o)); try discriminate SPR; exact I.
  - (* M4 *) destruct (t_pass c _ _ _ _ M (or_intror (or_intror (or_intror EP))) SA) as (_ & _ & S1).
    rewrite EP in S1. split; [exact (S1 SPR)|]. unfold ua. destruct (a_pc (o_a o)); try discriminate SPR; exact I.
  - (* M5 *) destruct (t_M5 c Npos Nsmall _ _ _ _ M EP G SA) as [(PC & S1 & _) | (PC & EH & EH' & ER & _)].
    + split; [exact S1|ua_triv PC].
    + split; [|ua_triv PC]. unfold sa. rewrite PC, EH', ER, next_count_plus by lia. lia.
  - (* G1 *) destruct (t_G1 c Npos Nsmall _ _ _ _ M EP G SA GC) as (S1 & WE & PC & ST & TC). split; [exact S1|].
    destruct WE as (_ & E2 & _). unfold ua in *. rewrite EP in UA. destruct PC as [PC | PC]; rewrite PC, ST, TC, E2; exact UA.
  - (* G2 *) destruct (t_G2 c Npos Nsmall _ _ _ _ M EP G SA) as (S1 & WE & PC & ST & TC). split; [exact S1|].
    destruct WE as (_ & E2 & _). unfold ua in *. rewrite EP in UA. destruct PC as [PC | PC]; rewrite PC, ST, TC, E2; exact UA.
  - (* G3 *) destruct (t_G3 c _ _ _ _ M EP G SA) as (WE & TC & [(PC & ST & S1) | [(EC & AR & k & st & EST & PC & ST & F0 & F1 & F2 & F3) | (_ & PC)]]).
    + split; [exact S1|]. destruct WE as (_ & E2 & _). unfold ua in *. rewrite EP in UA. rewrite PC, ST, TC, E2. exact UA.
    + rewrite PC in SPR. unfold ua in UA. rewrite EP, EST in UA.
      assert (S0 : sa c (o_a o) Sh) by (unfold sa; rewrite PC, AR; destruct k; try discriminate SPR; auto).
      split; [exact (sa_weq _ _ _ WE S0)|].
      destruct WE as (_ & E2 & _). unfold ua. rewrite PC. destruct k; try discriminate SPR; [rewrite TC, E2; exact UA|exact I|].
      exfalso. clear -Q EP EST. destruct X as [role alive multi sid tok pc stack R notified parked].
      cbn in EP, EST. subst pc stack. unfold ctl_ok in Q. cbn in Q. discriminate Q.
    + rewrite PC in SPH. discriminate SPH.
Qed.

Lemma att_ftr pc : att_pc pc = true -> fn_of pc = FTR.
Proof. destruct pc; intros X; try discriminate X; reflexivity. Qed.

Lemma self_ra me X Sh o :
  micro c me X Sh = Some o -> ctl_ok X = true -> WinG c Sh -> ra X Sh ->
  (w_h (a_sid X) X = true -> In (a_sid X) (streams Sh)) -> head Sh <= head (o_s o) ->
  ra (o_a o) (o_s o).
Proof.
  intros M Q G (RA1 & RA2) REG MH.
  pose proof (w_head_small c Sh G) as HB.
  split.
  - intros AT. destruct (micro_attpc _ _ _ _ _ M Q AT) as (ES & [AX | PR2]).
    + destruct (micro_rp _ _ _ _ _ M) as [E | E]; rewrite E; [specialize (RA1 AX); lia|].
      pose proof (w_cursor_le_head c Sh G _ (REG (ftr_wh X Q (att_ftr _ AX)))). lia.
    + rewrite (micro_r2 _ _ _ _ _ M PR2).
      assert (F : fn_of (a_pc X) = FTR) by (destruct PR2 as [-> | ->]; reflexivity).
      pose proof (w_cursor_le_head c Sh G _ (REG (ftr_wh X Q F))). lia.
  - intros MT. destruct (micro_matched _ _ _ _ _ M Q MT) as (ES & [(MX & E) | (PC & E & TG)]); rewrite E.
    + specialize (RA2 MX). lia.
    + assert (AX : att_pc (a_pc X) = true) by (destruct PC as [-> | ->]; reflexivity).
      specialize (RA1 AX).
      destruct (w_tag_claimed c Sh G (sl c (r_p (a_r X)))) as [T | T].
      * rewrite T, rm_tag_initial in TG. unfold MASK_TAG, B62 in *. lia.
      * rewrite rm_tag_small in TG by (unfold MASK_IND, B62 in *; lia). lia.
Qed.

Lemma self_ga me X Sh o :
  micro c me X Sh = Some o -> ctl_ok X = true -> g_rg_ok X Sh -> ga (o_a o).
Proof.
  intros M Q RG. unfold ga. destruct (micro_gregs _ _ _ _ _ M Q) as (GA3 & GD2). intros [PC | PC].
  - specialize (GA3 PC). destruct (micro_a2 _ _ _ _ _ M GA3) as (E1 & _ & E2 & _). rewrite E1, E2.
    apply RG. rewrite GA3. reflexivity.
  - specialize (GD2 PC). destruct (micro_d2pre _ _ _ _ _ M GD2) as (E1 & E2 & _). rewrite E1, E2.
    apply RG. rewrite GD2. reflexivity.
Qed.

Lemma wina_plain B Sh :
  sphase (a_pc B) = false -> att_pc (a_pc B) = false -> matched (a_pc B) = false ->
  a_pc B <> A3 -> a_pc B <> D2 -> WinA B Sh.
Proof.
  intros S1 S2 S3 S4 S5. split; [apply sa_nonphase; exact S1|]. split.
  - unfold ua. destruct (a_pc B); try exact I; discriminate S1.
  - split; [split; intros X; congruence|]. intros [X | X]; contradiction.
Qed.

Lemma entry_plain r cl pc : entry c r cl = Some pc ->
  sphase pc = false /\ att_pc pc = false /\ matched pc = false /\ pc <> A3 /\ pc <> D2.
Proof.
  unfold entry. destruct r, cl; try (intros X; discriminate X); try (destruct (is_bcast c); try (intros X; discriminate X));
    intros X; injection X as <-; repeat split; discriminate.
Qed.

Lemma spur_win A Sh o : micro_spur c A Sh = Some o ->
  win_eq Sh (o_s o) /\ nsid (o_s o) = nsid Sh /\
  ((a_pc A = M5 /\ a_pc (o_a o) = M2 /\ r_h (a_r (o_a o)) = head Sh) \/
   (a_pc A = R12 /\ a_pc (o_a o) = R4 /\ r_p (a_r (o_a o)) = gpos Sh (a_sid A))).
Proof.
  intros H. destruct A as [role alive multi sid tok pc stack R notified parked].
  unfold micro_spur, ok in H. cbn in H.
  destruct pc; try discriminate H.
  - injection H as <-. cbn. split; [repeat split|]. split; [reflexivity|]. left. repeat split.
  - destruct (r_am R); [discriminate|].
    unfold use_obj, bad, drop_opt, drop_val in H. cbn in H.
    break_hyp H; injection H as <-; cbn; (split; [repeat split|]); (split; [reflexivity|]); right; repeat split.
Qed.

Lemma wing_weq Sh Sh' : win_eq Sh Sh' -> nsid Sh' = nsid Sh -> WinG c Sh -> WinG c Sh'.
Proof.
  intros (E1 & E2 & E3 & E4 & E5 & E6 & E7) EN G.
  assert (EG : forall g, ggroup Sh' g = ggroup Sh g) by (intros; unfold ggroup; now rewrite E6).
  assert (EP : forall g, gpos Sh' g = gpos Sh g) by (intros; unfold gpos; now rewrite E3).
  assert (ES : streams Sh' = streams Sh) by (unfold streams; now rewrite EG, E4).
  assert (ET : forall i, gtag Sh' i = gtag Sh i) by (intros; unfold gtag; now rewrite E7).
  destruct G as [G1 G2 G3 G4 G5 G6 G7].
  constructor; rewrite ?E1, ?E2, ?ES; auto.
  - intros sg IN. rewrite EP. auto.
  - intros sg IN. rewrite EP. auto.
  - intros i. rewrite ET. auto.
  - intros g L. rewrite EP. apply G7. lia.
Qed.

Lemma ra_weq A Sh Sh' : head Sh' = head Sh -> ra A Sh -> ra A Sh'.
Proof. intros E H. unfold ra in *. rewrite E. exact H. Qed.

Lemma wina_weq A Sh Sh' : win_eq Sh Sh' -> WinA A Sh -> WinA A Sh'.
Proof.
  intros WE (S1 & S2 & S3 & S4). pose proof WE as (E1 & E2 & _).
  split; [exact (sa_weq _ _ _ WE S1)|]. split; [exact (ua_teq _ _ _ E2 S2)|]. split; [exact (ra_weq _ _ _ E1 S3)|exact S4].
Qed.

Lemma win_eq_hist h Sh : win_eq Sh (hist h Sh).
Proof. repeat split. Qed.

Lemma win_eq_tick Sh : win_eq Sh (tick Sh).
Proof. repeat split. Qed.

Theorem win_mreachN fut s : mreachN c fut s -> WinInv s.
Proof.
  intros RN. induction RN as [|s0 a A cl pc RN IH EA Hpc Hal He FT0|s0 x X o RN IH EX EN M NO NF|s0 a A o RN IH EA M|s0 RN IH].
  - (* initial state *)
    intros _. split.
    + constructor; cbn.
      * intros sg [<- | []]. vm_compute. discriminate.
      * lia.
      * lia.
      * intros sg [<- | []]. vm_compute. discriminate.
      * intros i. left. reflexivity.
      * unfold B62. lia.
      * intros g L. unfold gpos. cbn. unfold getd, get. cbn. destruct (N.eqb g 0) eqn:E; [apply N.eqb_eq in E; lia|reflexivity].
    + intros a A EA. cbn in EA. unfold get in EA. cbn in EA.
      destruct (N.eqb a 0); [injection EA as <-; apply wina_plain; cbn; congruence|].
      destruct (N.eqb a 1); [injection EA as <-; apply wina_plain; cbn; congruence|discriminate].
  - (* begin_call *)
    intros SM. unfold begin_call in *. destruct SM as [S1 S2]. cbn [ags sh] in *.
    rewrite (len_put_same _ _ _ _ EA) in S1.
    change (g_log (hist (HCall a cl (g_clock (sh s0))) (sh s0))) with (g_log (sh s0)) in S2.
    destruct (IH (conj S1 S2)) as (G & IA).
    split; [apply (wing_weq (sh s0)); [repeat split|reflexivity|exact G]|].
    intros b B EB. rewrite get_put in EB. destruct (N.eqb b a) eqn:E.
    + injection EB as <-. destruct (entry_plain _ _ _ He) as (P1' & P2' & P3' & P4' & P5').
      apply wina_plain; destruct A; cbn; assumption.
    + apply (wina_weq B (sh s0)); [repeat split|]. apply (IA b B EB).
  - (* micro-step *)
    intros SM'.
    destruct (win_step_global fut s0 x X o RN SM' EX M NO NF EN IH) as (SF & G').
    pose proof (mreachN_mreach c fut s0 RN) as R.
    pose proof (small_back s0 x X o EX M SM') as SM. destruct SM as [SMa SMl].
    destruct (IH (conj SMa SMl)) as (G & IA).
    pose proof (ctl_mreach c fut s0 R) as CT.
    destruct (recv_mreach c fut s0 R) as (ND & FR & UQ & CE).
    destruct (groups_mreach c fut s0 R) as (GC & GA).
    destruct (reg_mreach c fut s0 R SMa) as (LZ & RG1 & RG2).
    destruct (head_mreach c fut s0 R SMa) as [HLX _].
    change (sh (apply1 s0 x o)) with (o_s o).
    split; [exact G'|].
    intros b B EB.
    destruct (apply1_get _ _ _ _ _ EB) as (B0 & HB & Hsrc).
    assert (W0 : WinA B0 (o_s o)); [|destruct HB as [-> | ->]; [exact W0|apply wina_notified; exact W0]].
    clear HB EB B.
    destruct Hsrc as [(a' & Hn & ->) | [(-> & ->) | (Hne & EB0)]].
    + destruct (micro_new_idle _ _ _ _ _ _ _ M Hn) as (EI & _). apply wina_plain; rewrite EI; cbn; congruence.
    + destruct (IA x X EX) as (SAX & UAX & RAX & GAX).
      assert (H5 : a_pc X = P5 -> r_h (a_r X) = head (sh s0)).
      { intros PC. apply (HLX x X EX). rewrite PC. reflexivity. }
      destruct (self_sa_ua _ _ _ _ M (CT _ _ EX) G SAX UAX GC H5) as (S1 & S2).
      split; [exact S1|]. split; [exact S2|]. split.
      * apply (self_ra _ _ _ _ M (CT _ _ EX) G RAX (RG1 x X (a_sid X) EX) (sf_head _ _ SF)).
      * destruct (GA x X EX) as (XG & _). apply (self_ga _ _ _ _ M (CT _ _ EX) XG).
    + destruct (IA b B0 EB0) as (SAB & UAB & RAB & GAB).
      destruct SF as [F1 F2 F3 F4 F5 F6 F7].
      split; [apply (sa_mono B0 (sh s0) (o_s o) F1 F2 F3 F4 F5 F6 F7 SAB)|].
      split; [|split; [apply (ra_mono _ _ _ F1 RAB)|exact GAB]].
      destruct (pp_pc (a_pc B0) (a_stack B0)) eqn:PP; [|apply ua_nonpp; exact PP].
      destruct (micro_tailc _ _ _ _ _ M) as [E | [(PC & _) | (PC & _)]].
      * apply (ua_teq _ _ _ E UAB).
      * exfalso. apply (sole_writer c fut s0 x X b B0 R SMa (fun E => Hne (eq_sym E)) EX EB0); [|exact PP].
        unfold in_send_body. rewrite PC. reflexivity.
      * exfalso. apply (sole_writer c fut s0 x X b B0 R SMa (fun E => Hne (eq_sym E)) EX EB0); [|exact PP].
        unfold in_send_body. rewrite PC. reflexivity.
  - (* spurious compare-exchange failure *)
    intros SM'.
    pose proof (mreachN_mreach c fut s0 RN) as R.
    destruct (spur_shape _ _ _ _ M) as (N0 & _ & _ & _ & _ & _ & _ & _ & _ & EL).
    destruct (spur_win _ _ _ M) as (WE & ENS & SHP).
    assert (SM : SmallW s0).
    { destruct SM' as [S1 S2]. split; [pose proof (apply1_len s0 a o); lia|].
      change (sh (apply1 s0 a o)) with (o_s o) in S2. rewrite EL in S2. exact S2. }
    destruct (IH SM) as (G & IA). destruct SM as [SMa SMl].
    pose proof (ctl_mreach c fut s0 R) as CT.
    destruct (reg_mreach c fut s0 R SMa) as (LZ & RG1 & RG2).
    change (sh (apply1 s0 a o)) with (o_s o).
    split; [apply (wing_weq _ _ WE ENS G)|].
    intros b B EB.
    destruct (apply1_get _ _ _ _ _ EB) as (B0 & HB & Hsrc).
    assert (W0 : WinA B0 (o_s o)); [|destruct HB as [-> | ->]; [exact W0|apply wina_notified; exact W0]].
    clear HB EB B.
    destruct Hsrc as [(a' & Hn & ->) | [(-> & ->) | (Hne & EB0)]].
    + rewrite N0 in Hn. discriminate Hn.
    + apply (wina_weq _ _ _ WE).
      destruct SHP as [(PC & PC' & EH) | (PC & PC' & EPOS)].
      * split; [|split; [unfold ua; rewrite PC'; exact I|split; [split; rewrite PC'; intros X; discriminate X|intros [X | X]; congruence]]].
        unfold sa. rewrite PC'. unfold A0, Hb. rewrite EH. pose proof (w_head_le_tail_n c _ G). split; lia.
      * split; [apply sa_nonphase; rewrite PC'; reflexivity|].
        split; [unfold ua; rewrite PC'; exact I|]. split; [|intros [X | X]; congruence].
        split; rewrite PC'; intros X; [|discriminate X]. rewrite EPOS.
        assert (F : fn_of (a_pc A) = FTR) by (rewrite PC; reflexivity).
        apply (w_cursor_le_head c _ G). apply (RG1 a A (a_sid A) EA). apply (ftr_wh A (CT _ _ EA) F).
    + apply (wina_weq _ _ _ WE). apply (IA b B0 EB0).
  - (* clock tick *)
    intros SM. cbn [ags sh] in *. destruct SM as [S1 S2].
    change (g_log (tick (sh s0))) with (g_log (sh s0)) in S2.
    destruct (IH (conj S1 S2)) as (G & IA).
    split; [apply (wing_weq (sh s0)); [repeat split|reflexivity|exact G]|].
    intros b B EB. apply (wina_weq B (sh s0)); [repeat split|]. apply (IA b B EB).
Qed.
End W.
