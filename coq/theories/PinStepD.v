(* Case analysis for the reference counts: where a clone or a view of a cell begins. *)
From Coq Require Import NArith List Bool Lia.
Require Import MQ.Arith64 MQ.Arith64Facts MQ.Types MQ.State MQ.Model MQ.Exec MQ.Reach MQ.Ctl MQ.Count MQ.WritersStep
  MQ.RecvDefs MQ.RecvStep.
Import ListNotations.
Open Scope N_scope.

Lemma micro_kc c me A S o :
  micro c me A S = Some o -> ctl_ok A = true -> (a_pc (o_a o) = KC \/ a_pc (o_a o) = VK) ->
  a_pc A = R4 \/ a_pc A = R8 \/ a_pc A = V1.
Proof.
  intros H Q. destruct A as [role alive multi sid tok pc stack R notified parked].
  destruct pc; micro_cases H; cbn [o_a]; pre_case Q Q1 Q2 Q3; try split_frame Q1 Q2; cbn;
    intros [X | X]; first [ discriminate X | solve [left; reflexivity] | solve [right; left; reflexivity] | solve [right; right; reflexivity] ].
Qed.
