(* Small step fact for the start position of a stream: what the publishing compare-exchange of add_stream does. *)
From Coq Require Import NArith List Bool Lia.
Require Import MQ.Arith64 MQ.Arith64Facts MQ.Types MQ.State MQ.Model MQ.Exec MQ.Reach MQ.Ctl MQ.Count MQ.WritersStep
  MQ.RecvDefs MQ.RecvStep.
Import ListNotations.
Open Scope N_scope.

Lemma t_A3s c me A S o : micro c me A S = Some o -> a_pc A = A3 ->
  (cur S = r_g (a_r A) /\ cur (o_s o) = r_ng (a_r A) /\
   g_start (o_s o) = put (g_start S) (r_ns (a_r A)) (gpos S (r_ns (a_r A))) /\ pos (o_s o) = pos S /\ g_deliv (o_s o) = g_deliv S) \/
  (cur (o_s o) = cur S /\ g_start (o_s o) = g_start S /\ a_pc (o_a o) <> A3).
Proof.
  intros H E. destruct A as [role alive multi sid tok pc stack R notified parked]. cbn in E. subst pc.
  micro_cases H; cbn; eqb_hyps;
    first [ solve [left; repeat split; auto] | solve [right; repeat split; auto; discriminate] ].
Qed.
