(* Case analysis: a step that changes the consumer count of the stepping handle's own stream
   leaves that handle without the claim to be the only consumer. *)
From Coq Require Import NArith List Bool Lia.
Require Import MQ.Arith64 MQ.Arith64Facts MQ.Types MQ.State MQ.Model MQ.Exec MQ.Reach MQ.Ctl MQ.Count MQ.WritersStep
  MQ.RecvDefs MQ.RecvStep MQ.SoleDefs.
Import ListNotations.
Open Scope N_scope.

Lemma micro_noclaim c me A S o :
  micro c me A S = Some o -> ctl_ok A = true -> ra_ok A = true -> fresh_ok A S ->
  gcons (o_s o) (a_sid A) <> gcons S (a_sid A) ->
  claims_sole (o_a o) = false \/ (w_h (a_sid A) A = true /\ w_c (a_sid A) A = true).
Proof.
  intros H Q U [F1 [F2 F3]]. destruct A as [role alive multi sid tok pc stack R notified parked].
  unfold claims_sole, w_h, w_c, nphase, topc, recv_role, ra_ok, uni_ok, att_ok, topc, gcons in *.
  cbn in U, F1, F2, F3.
  destruct pc; micro_cases H; cbn [o_a o_s]; cbn; rewrite ?getd_put;
    first [ solve [intros X; exfalso; apply X; reflexivity]
          | pre_case Q Q1 Q2 Q3; cbn in U |- *; rewrite ?N.eqb_refl; cbn;
            first [ solve [intros X; exfalso; apply X; reflexivity]
                  | solve [intros _; left; reflexivity]
                  | eqb_split; eqb_hyps; subst;
                    first [ solve [intros X; exfalso; apply X; reflexivity]
                          | solve [exfalso; lia]
                          | solve [intros _; left; reflexivity]
                          | try split_frame Q1 Q2; split_call Q2; cbn in U |- *; try (apply eqb_prop in Q3; subst; cbn in U |- *);
                            first [ solve [intros _; left; reflexivity]
                                  | solve [intros _; right; split; reflexivity]
                                  | solve [discriminate U]
                                  | solve [intros X; exfalso; apply X; reflexivity]
                                  | solve [intros _; left; destruct multi; cbn in U |- *; first [reflexivity | discriminate U]] ] ] ] ].
Qed.

(* the last step of a conversion that moves the handle to its new stream touches no count *)
Lemma micro_rdfin2_same sg c me A S o :
  micro c me A S = Some o -> a_pc A = RDfin2 -> gcons (o_s o) sg = gcons S sg.
Proof.
  intros H E. destruct A as [role alive multi sid tok pc stack R notified parked].
  cbn in E. subst pc. unfold gcons. micro_cases H; cbn; reflexivity.
Qed.
