(* Case analysis for the stream registry (InvGroups.v): the registers naming stream lists, the
   record of being the last handle, and the phase in which a new stream is already published. *)
From Coq Require Import NArith List Bool Lia.
Require Import MQ.Arith64 MQ.Arith64Facts MQ.Types MQ.State MQ.Model MQ.Exec MQ.Reach MQ.Ctl MQ.Count MQ.WritersStep
  MQ.RecvDefs MQ.RecvStep.
Import ListNotations.
Open Scope N_scope.

(* program counters at which r_g names the stream list the agent works on *)
Definition gphase (pc : pcl) : bool :=
  match pc with A2pre | A2 | A3 | D2pre | D2 => true | _ => false end.

Lemma micro_rg c me A S o :
  micro c me A S = Some o -> ctl_ok A = true -> gphase (a_pc (o_a o)) = true ->
  (gphase (a_pc A) = true /\ r_g (a_r (o_a o)) = r_g (a_r A)) \/ r_g (a_r (o_a o)) = cur S.
Proof.
  intros H Q. destruct A as [role alive multi sid tok pc stack R notified parked].
  destruct pc; micro_cases H; cbn [o_a]; pre_case Q Q1 Q2 Q3;
    first [ solve [intros X; discriminate X]
          | solve [intros _; left; split; reflexivity]
          | solve [intros _; right; reflexivity]
          | try split_frame Q1 Q2;
            first [ solve [intros X; discriminate X]
                  | solve [intros _; left; split; reflexivity]
                  | solve [intros _; right; reflexivity] ] ].
Qed.

(* the path taken by the handle whose decrement found the count at one *)
Definition lastpath (pc : pcl) : bool :=
  match pc with D1 | D2pre | D2 | D3 | D4pre | D4b | D4c | D5 | D6 => true | _ => false end.

Definition lp_ok (A : agent) : bool := negb (lastpath (topc A)) || r_last (a_r A).

Lemma micro_lp c me A S o :
  micro c me A S = Some o -> ctl_ok A = true -> lp_ok A = true ->
  lp_ok (o_a o) = true /\ (forall a' A', o_new o = Some (a', A') -> lp_ok A' = true) /\
  (lastpath (topc (o_a o)) = true ->
     a_sid (o_a o) = a_sid A /\
     (lastpath (topc A) = true \/ (a_pc A = RD0 /\ gcons S (a_sid A) = 1))).
Proof.
  intros H Q U. destruct A as [role alive multi sid tok pc stack R notified parked].
  unfold lp_ok, topc, gcons in *. cbn in U.
  destruct pc; micro_cases H; cbn [o_a o_new];
    (split; [|split; [let an := fresh "an" in let An := fresh "An" in let X := fresh "X" in
                      intros an An X; try discriminate X; injection X as <- <-; reflexivity|]]);
    pre_case Q Q1 Q2 Q3; cbn in U |- *; eqb_hyps;
    first [ reflexivity | exact U | solve [intros X; discriminate X]
          | solve [intros _; split; [reflexivity|left; reflexivity]]
          | solve [intros X; split; [reflexivity|left; exact X]]
          | solve [intros _; split; [reflexivity|right; split; [reflexivity|assumption]]]
          | try split_frame Q1 Q2; cbn in U |- *;
            first [ reflexivity | exact U | solve [intros X; discriminate X]
                  | solve [intros _; split; [reflexivity|left; reflexivity]]
                  | solve [intros X; split; [reflexivity|left; exact X]] ] ].
Qed.

(* a stream in flight that has been published already *)
Definition pubphase (A : agent) : bool :=
  nphase A && negb (match a_pc A with A3 => true | _ => false end).

Lemma micro_pub c me A S o :
  micro c me A S = Some o -> ctl_ok A = true -> pubphase (o_a o) = true ->
  r_ns (a_r (o_a o)) = r_ns (a_r A) /\
  (pubphase A = true \/ (a_pc A = A3 /\ cur S = r_g (a_r A))).
Proof.
  intros H Q. destruct A as [role alive multi sid tok pc stack R notified parked].
  unfold pubphase, nphase, topc.
  destruct pc; micro_cases H; cbn [o_a]; pre_case Q Q1 Q2 Q3; eqb_hyps;
    first [ solve [intros X; discriminate X]
          | solve [intros X; split; [reflexivity|left; exact X]]
          | solve [intros X; split; [reflexivity|right; split; [reflexivity|assumption]]]
          | try split_frame Q1 Q2;
            first [ solve [intros X; discriminate X]
                  | solve [intros X; split; [reflexivity|left; exact X]]
                  | split_call Q2;
                    first [ solve [intros X; discriminate X]
                          | solve [intros X; split; [reflexivity|left; exact X]]
                          | solve [intros X; split; [reflexivity|left; reflexivity]] ] ] ].
Qed.
