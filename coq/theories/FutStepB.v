(* Case analysis for C14: how an agent comes to hold the park-list lock, and what it keeps while it checks. *)
From Coq Require Import NArith List Bool Lia.
Require Import MQ.Arith64 MQ.Arith64Facts MQ.Types MQ.State MQ.Model MQ.Exec MQ.Reach MQ.Ctl MQ.Count MQ.WritersStep
  MQ.RecvDefs MQ.RecvStep MQ.NpDefs MQ.FutDefs.
Import ListNotations.
Open Scope N_scope.

Lemma micro_fholder c me A S o :
  micro c me A S = Some o -> ctl_ok A = true -> fholder (o_a o) = true ->
  (fholder A = true /\ r_cnt (a_r (o_a o)) = r_cnt (a_r A) /\ r_slot (a_r (o_a o)) = r_slot (a_r A) /\ cp_lock (o_s o) = cp_lock S) \/
  a_pc A = FP1.
Proof.
  intros H Q. destruct A as [role alive multi sid tok pc stack R notified parked]. unfold fholder, fchk.
  destruct pc; micro_cases H; cbn [o_a o_s]; pre_case Q Q1 Q2 Q3; try split_frame Q1 Q2; cbn;
    first [ solve [intros X; discriminate X]
          | solve [intros X; left; split; [first [reflexivity|exact X]|split; [reflexivity|split; reflexivity]]]
          | solve [intros X; right; reflexivity] ].
Qed.

(* how a consumer gets to the check under the park-list lock and to the parking step *)
Lemma micro_fchksrc c me A S o :
  micro c me A S = Some o -> ctl_ok A = true ->
  (a_pc (o_a o) = FP2 -> a_pc A = C2 /\ exists st, a_stack A = FP2 :: st).
Proof.
  intros H Q. destruct A as [role alive multi sid tok pc stack R notified parked].
  destruct pc; micro_cases H; cbn [o_a]; pre_case Q Q1 Q2 Q3; try split_frame Q1 Q2; cbn;
    intros X; first [ discriminate X | solve [split; [reflexivity|eexists; reflexivity]] ].
Qed.
