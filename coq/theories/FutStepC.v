(* Case analysis for C14: an agent that owes a notification of the park list keeps owing it until it has notified. *)
From Coq Require Import NArith List Bool Lia.
Require Import MQ.Arith64 MQ.Arith64Facts MQ.Types MQ.State MQ.Model MQ.Exec MQ.Reach MQ.Ctl MQ.Count MQ.WritersStep
  MQ.RecvDefs MQ.RecvStep MQ.NpDefs MQ.FutDefs.
Import ListNotations.
Open Scope N_scope.

Ltac npf_fin :=
  first [ solve [intros X; discriminate X]
        | solve [intros X; left; first [reflexivity|exact X]]
        | solve [intros X; right; left; reflexivity]
        | solve [intros X; match goal with H0 : r_res _ = _ |- _ => rewrite H0 in X end; discriminate X]
        | solve [intros X; right; right; intros a0 b0 E0;
                 first [ congruence
                       | match goal with H0 : needs_notify _ = false |- _ => unfold needs_notify in H0; rewrite E0 in H0; discriminate H0 end ]]
        | solve [intros X; left; destruct (r_res _); first [reflexivity|discriminate X|exact X]] ].

Lemma micro_npf c me A S o :
  micro c me A S = Some o -> ctl_ok A = true -> npf A = true ->
  npf (o_a o) = true \/ a_pc A = FN1 \/ (forall a b, c_wk c <> WFut a b).
Proof.
  intros H Q. destruct A as [role alive multi sid tok pc stack R notified parked]. unfold npf, sender_drop, is_ok.
  destruct pc; micro_cases H; cbn [o_a]; pre_case Q Q1 Q2 Q3; cbn;
    first [ npf_fin | try split_frame Q1 Q2; cbn; first [ npf_fin | split_call Q2; cbn; first [ npf_fin | solve [intros X; rewrite ?andb_false_r in X; discriminate X] ] ] ].
Qed.
