(* Small step facts for the slot invariant: the cell write, the publishing store, spurious failures. *)
From Coq Require Import NArith List Bool Lia.
Require Import MQ.Arith64 MQ.Arith64Facts MQ.Types MQ.State MQ.Model MQ.Exec MQ.Reach MQ.Ctl MQ.Count MQ.WritersStep
  MQ.RecvDefs MQ.RecvStep MQ.InvReg MQ.WinStep MQ.WinDefs MQ.WinTrans MQ.SlotDefs.
Import ListNotations.
Open Scope N_scope.

Ltac one_pc H E :=
  match type of H with micro _ _ ?A _ = _ =>
    destruct A as [role alive multi sid tok pc stack R notified parked]; cbn in E; subst pc; micro_cases H end.

Lemma t_P6r c me A S o : micro c me A S = Some o -> a_pc A = P6 ->
  a_pc (o_a o) = P7 /\ r_h (a_r (o_a o)) = r_h (a_r A) /\ r_v (a_r (o_a o)) = r_v (a_r A) /\
  cells (o_s o) = put (cells S) (sl c (r_h (a_r A))) (r_v (a_r A)) /\ g_log (o_s o) = g_log S /\ g_deliv (o_s o) = g_deliv S.
Proof. intros H E. one_pc H E; cbn; repeat split; reflexivity. Qed.

Lemma t_P7r c me A S o : micro c me A S = Some o -> a_pc A = P7 ->
  tags (o_s o) = put (tags S) (sl c (r_h (a_r A))) (r_h (a_r A)) /\ cells (o_s o) = cells S /\
  g_log (o_s o) = g_log S /\ wip (a_pc (o_a o)) = false.
Proof.
  intros H E. one_pc H E; cbn; repeat split; reflexivity.
Qed.

Lemma t_claim_rv c me A S o : micro c me A S = Some o -> (a_pc A = P5 \/ a_pc A = M5) ->
  r_v (a_r (o_a o)) = r_v (a_r A).
Proof.
  intros H E. destruct A as [role alive multi sid tok pc stack R notified parked]. cbn in E.
  destruct E as [-> | ->]; micro_cases H; reflexivity.
Qed.

Lemma spur_slot c A Sh o : micro_spur c A Sh = Some o ->
  cells (o_s o) = cells Sh /\ g_deliv (o_s o) = g_deliv Sh /\ g_start (o_s o) = g_start Sh /\
  a_sid (o_a o) = a_sid A /\ r_v (a_r (o_a o)) = r_v (a_r A).
Proof.
  intros H. destruct A as [role alive multi sid tok pc stack R notified parked].
  unfold micro_spur, ok in H. cbn in H.
  destruct pc; try discriminate H.
  - injection H as <-. cbn. repeat split.
  - destruct (r_am R); [discriminate|].
    unfold use_obj, bad, drop_opt, drop_val in H. cbn in H.
    break_hyp H; injection H as <-; cbn; repeat split.
Qed.
