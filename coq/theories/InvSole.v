(* A receiver handle that behaves as the only consumer of its stream (single-consumer mode, a
   single-consumer receiver type, or an attempt that found the count at one) is the only agent
   with weight on that stream (I8, receiver half).  Case analyses: SoleStepA/B, NoClaimStep. *)
From Coq Require Import NArith List Bool Lia.
Require Import MQ.Arith64 MQ.Arith64Facts MQ.Types MQ.State MQ.Model MQ.Exec MQ.Reach MQ.Ctl MQ.Count MQ.SumCount
  MQ.AgentInv MQ.AgentInvCtl MQ.WritersStep MQ.InvWriters MQ.RecvDefs MQ.RecvStep MQ.FreshStep MQ.KnownStep MQ.InvRecv
  MQ.SoleDefs MQ.SoleStepA MQ.SoleStepB MQ.NoClaimStep.
Import ListNotations.
Open Scope N_scope.

(* ---- the per-agent facts ---- *)
Lemma ra_entry c A cl pc :
  ctl_ok A = true -> ra_ok A = true -> a_pc A = Idle -> a_alive A = true -> entry c (a_role A) cl = Some pc ->
  ra_ok (at_pc pc (withr (set_r_res RNoRes (set_r_call cl (a_r A))) (set_a_notified false A))) = true.
Proof.
  intros QA _ Hpc _ He. destruct A as [role alive multi sid tok pc0 stack R notified parked].
  cbn in Hpc. subst pc0. unfold ctl_ok in QA. cbn in QA.
  destruct stack as [|k st]; [|cbn in QA; discriminate QA].
  unfold entry in He. unfold ra_ok, uni_ok, att_ok, topc. cbn.
  destruct role, cl; try discriminate He; try (destruct (is_bcast c); try discriminate He);
    injection He as <-; reflexivity.
Qed.

Lemma ra_spur c A S o : micro_spur c A S = Some o -> ctl_ok A = true -> ra_ok A = true -> ra_ok (o_a o) = true.
Proof.
  intros H Q U. destruct A as [role alive multi sid tok pc stack R notified parked].
  unfold micro_spur, ok in H. cbn in H.
  destruct pc; try discriminate H;
    (destruct stack as [|k st]; [unfold ctl_ok in Q; cbn in Q; discriminate Q|]).
  - injection H as <-. unfold ra_ok, uni_ok, att_ok, topc in *. cbn in *. exact U.
  - destruct (r_am R) eqn:EA; [discriminate|].
    unfold use_obj, bad, drop_opt, drop_val in H. cbn in H.
    break_hyp H; injection H as <-; unfold ra_ok, uni_ok, att_ok, topc in *; cbn in *; rewrite ?EA in *; exact U.
Qed.

Lemma ra_init fut a A : get (ags (init fut)) a = Some A -> ra_ok A = true.
Proof.
  intros EA. cbn in EA. unfold get in EA. cbn in EA.
  destruct (N.eqb a 0); [injection EA as <-; destruct fut; reflexivity|].
  destruct (N.eqb a 1); [injection EA as <-; destruct fut; reflexivity|discriminate].
Qed.

Theorem ra_mreach c fut s : mreach c fut s -> forall a A, get (ags s) a = Some A -> ra_ok A = true.
Proof.
  apply (agents_minv_ctl c ra_ok).
  - intros A b. apply ra_notified.
  - apply ra_entry.
  - apply micro_ra.
  - apply ra_spur.
  - apply ra_init.
Qed.

(* ---- counting helpers ---- *)
Lemma sumf_single f m a A :
  keys_nodup m -> get m a = Some A -> (forall b B, b <> a -> get m b = Some B -> f b B = 0) ->
  sumf f m = f a A.
Proof.
  revert a A. induction m as [|[k C] m IH]; intros a A ND G H; [discriminate|].
  rewrite get_cons in G. cbn [sumf]. destruct ND as [N1 N2].
  destruct (N.eqb a k) eqn:E.
  - apply N.eqb_eq in E. subst k. injection G as <-.
    rewrite (sumf_zero f m); [lia| |exact N2].
    intros b B GB. apply (H b B).
    + intro; subst. congruence.
    + rewrite get_cons. destruct (N.eqb b a) eqn:E2; [apply N.eqb_eq in E2; subst; congruence|exact GB].
  - rewrite (H k C).
    + rewrite (IH a A N2 G); [lia|]. intros b B Hb GB. apply (H b B Hb).
      rewrite get_cons. destruct (N.eqb b k) eqn:E2; [apply N.eqb_eq in E2; subst; congruence|exact GB].
    + intro; subst. now rewrite N.eqb_refl in E.
    + rewrite get_cons, N.eqb_refl. reflexivity.
Qed.

Lemma claims_wh A : claims_sole A = true -> w_h (a_sid A) A = true.
Proof. unfold claims_sole. intros H. now apply andb_prop in H as [H _]. Qed.

Lemma wh_wt_pos sg a A : w_h sg A = true -> 1 <= wt sg a A.
Proof. unfold wt. intros ->. cbn [b2n]. lia. Qed.

Lemma wh_sid sg A : w_h sg A = true -> a_sid A = sg.
Proof.
  unfold w_h. intros H. apply andb_prop in H as [H _]. apply andb_prop in H as [_ H]. now apply N.eqb_eq.
Qed.

(* the creator of a stream in flight is the only agent with weight on it, and the weight is one *)
Lemma inflight_weight s a A :
  RecvInv s -> get (ags s) a = Some A -> nphase A = true ->
  sumf (wt (r_ns (a_r A))) (ags s) = 1.
Proof.
  intros (ND & FR & UQ & _) EA NA.
  rewrite (sumf_single (wt (r_ns (a_r A))) (ags s) a A ND EA).
  - destruct (FR a A EA) as (_ & _ & F3). specialize (F3 NA).
    unfold wt. rewrite wn_alt, NA, N.eqb_refl. cbn [andb b2n].
    unfold w_h, w_c.
    assert (E : (a_sid A =? r_ns (a_r A)) = false) by (apply N.eqb_neq; lia).
    rewrite E, !andb_false_r. reflexivity.
  - intros b B Hb EB. apply kn_false_wt. apply (UQ a A b B); auto.
Qed.

(* ---- the invariant ---- *)
Definition Sole (s : state) : Prop :=
  forall a A, get (ags s) a = Some A -> claims_sole A = true -> sumf (wt (a_sid A)) (ags s) = 1.

Definition SoleInv (s : state) : Prop := lenN (ags s) < B62 -> Sole s.

(* the total weight on a stream after a step, case by case *)
Lemma step_weight c fut s a A o sg :
  mreach c fut s -> lenN (ags s) < B62 -> get (ags s) a = Some A ->
  micro c a A (sh s) = Some o -> new_ok s a o = true ->
  sumf (wt sg) (ags (apply1 s a o)) + wt sg a A = sumf (wt sg) (ags s) + wt sg a (o_a o) + new_wt sg o.
Proof.
  intros R Small EA M NO.
  destruct (recv_mreach c fut s R) as (ND & _).
  exact (apply1_sumf (wt sg) s a o A (fun k B => wt_notified sg k B true) ND EA NO).
Qed.

Theorem sole_mreach c fut s : mreach c fut s -> SoleInv s.
Proof.
  apply mreach_inv2.
  - (* begin_call *)
    intros s0 a A cl pc R I EA Hpc Hal He _ Small.
    unfold begin_call in *. cbn [ags sh] in *.
    rewrite (len_put_same _ _ _ _ EA) in Small. specialize (I Small).
    pose proof (ctl_mreach c fut s0 R a A EA) as QA.
    destruct (recv_mreach c fut s0 R) as (ND & _).
    destruct (begin_agent c A cl pc QA Hpc Hal He) as (NP1 & NP0 & ES & EN & EW).
    set (A1 := at_pc pc (withr (set_r_res RNoRes (set_r_call cl (a_r A))) (set_a_notified false A))) in *.
    assert (ESUM : forall sg, sumf (wt sg) (put (ags s0) a A1) = sumf (wt sg) (ags s0)).
    { intros sg. pose proof (sumf_put_in (wt sg) (ags s0) a A A1 ND EA) as X. rewrite EW in X. lia. }
    intros b B EB CB. cbn [ags sh] in *. rewrite ESUM. rewrite get_put in EB. destruct (N.eqb b a) eqn:E.
    + injection EB as <-. rewrite ES. apply (I a A EA).
      (* the claim of an idle handle does not depend on the call it starts *)
      clear -CB QA Hpc Hal He. subst A1.
      destruct A as [role alive multi sid tok pc0 stack R0 notified parked].
      cbn in Hpc, Hal. subst pc0 alive. unfold ctl_ok in QA. cbn in QA.
      destruct stack as [|k st]; [|cbn in QA; discriminate QA]. cbn in QA.
      unfold entry in He. unfold claims_sole, w_h, topc, recv_role in *. cbn in *.
      destruct (r_call R0); cbn in QA; try discriminate QA;
        destruct role, cl; try discriminate He; try (destruct (is_bcast c); try discriminate He);
        injection He as <-; cbn in *; rewrite ?andb_false_r, ?orb_false_r in *; exact CB.
    + apply (I b B EB CB).
  - (* micro *)
    intros s0 a A o R I EA _ M NO Small.
    assert (Small0 : lenN (ags s0) < B62) by (pose proof (apply1_len s0 a o); lia).
    specialize (I Small0).
    pose proof (ctl_mreach c fut s0 R a A EA) as QA.
    pose proof (ra_mreach c fut s0 R a A EA) as UA.
    pose proof (recv_mreach c fut s0 R) as RI.
    destruct RI as (ND & FR & UQ & CE). specialize (CE Small0).
    pose proof (FR a A EA) as FA.
    destruct (micro_sole _ _ _ _ _ M QA UA) as [MS1 MS2].
    assert (KEEP : forall sg, sumf (wt sg) (ags s0) = 1 -> 1 <= wt sg a A ->
                   (gcons (o_s o) sg = gcons (sh s0) sg) ->
                   (1 <= wt sg a (o_a o) + new_wt sg o) ->
                   sumf (wt sg) (ags (apply1 s0 a o)) = 1).
    { intros sg S1 W1 GC W2.
      pose proof (step_weight c fut s0 a A o sg R Small0 EA M NO) as SW.
      pose proof (sumf_get_le (wt sg) (ags s0) a A EA) as LE.
      destruct (CE sg) as [Z | EQ]; [lia|].
      destruct (micro_cons sg _ _ _ _ _ M QA FA) as
        [(Hc & Hw) | [(Hc & Hw & Hn & H1) | [(Hc & Hw & Hn) | [(Hs & Hc & Hw & Hw0 & Hn) | (Hc & Hw & Hw0 & Hn & HN & HP)]]]].
      - lia.
      - exfalso. rewrite GC, EQ, S1 in Hc. cbv in Hc. discriminate Hc.
      - exfalso. rewrite GC, EQ, S1 in Hc. cbv in Hc. discriminate Hc.
      - lia.
      - lia. }
    intros b B EB CB.
    destruct (apply1_get _ _ _ _ _ EB) as (B0 & HB & Hsrc).
    assert (CB0 : claims_sole B0 = true /\ a_sid B = a_sid B0).
    { destruct HB as [->| ->]; [auto|]. destruct (claims_notified B0 true) as [X Y]. rewrite X in CB. auto. }
    destruct CB0 as [CB0 ->]. clear HB CB EB B.
    destruct Hsrc as [(a' & Hn & ->) | [(-> & ->) | (Hne & EB0)]].
    + (* the new handle of a stream that was in flight *)
      destruct (MS2 _ _ Hn CB0) as (NA & ES & NO').
      rewrite ES.
      pose proof (inflight_weight s0 a A (conj ND (conj FR (conj UQ (fun _ => CE)))) EA NA) as S1.
      pose proof (step_weight c fut s0 a A o (r_ns (a_r A)) R Small0 EA M NO) as SW.
      pose proof (sumf_get_le (wt (r_ns (a_r A))) (ags s0) a A EA) as LE.
      assert (NW : 1 <= new_wt (r_ns (a_r A)) o).
      { unfold new_wt. rewrite Hn. apply wh_wt_pos. rewrite <- ES. now apply claims_wh. }
      destruct (micro_cons (r_ns (a_r A)) _ _ _ _ _ M QA FA) as
        [(Hc & Hw) | [(Hc & Hw & Hn2 & H1) | [(Hc & Hw & Hn2) | [(Hs & Hc & Hw & Hw0 & Hn2) | (Hc & Hw & Hw0 & Hn2 & HN & HP)]]]];
        lia.
    + (* the stepping handle *)
      destruct (MS1 CB0) as [(CA & ES) | [(GC & ES & WH) | (NA & ES & PA)]].
      * rewrite ES. pose proof (I a A EA CA) as S1.
        destruct (N.eq_dec (gcons (o_s o) (a_sid A)) (gcons (sh s0) (a_sid A))) as [GE | GN].
        -- apply KEEP; auto.
           ++ apply wh_wt_pos. now apply claims_wh.
           ++ pose proof (wh_wt_pos (a_sid A) a (o_a o)). rewrite <- ES in H at 1. specialize (H (claims_wh _ CB0)). lia.
        -- exfalso. destruct (micro_noclaim _ _ _ _ _ M QA UA FA GN) as [NC | (W1 & W2)]; [congruence|].
           pose proof (sumf_get_le (wt (a_sid A)) (ags s0) a A EA) as LE.
           assert (2 <= wt (a_sid A) a A) by (unfold wt; rewrite W1, W2; cbn [b2n]; lia). lia.
      * rewrite ES.
        assert (S1 : sumf (wt (a_sid A)) (ags s0) = 1).
        { pose proof (sumf_get_le (wt (a_sid A)) (ags s0) a A EA) as LE.
          pose proof (wh_wt_pos (a_sid A) a A WH).
          destruct (CE (a_sid A)) as [Z | EQ]; lia. }
        destruct (N.eq_dec (gcons (o_s o) (a_sid A)) (gcons (sh s0) (a_sid A))) as [GE | GN].
        -- apply KEEP; auto.
           ++ now apply wh_wt_pos.
           ++ pose proof (wh_wt_pos (a_sid A) a (o_a o)). rewrite <- ES in H at 1. specialize (H (claims_wh _ CB0)). lia.
        -- exfalso. destruct (micro_noclaim _ _ _ _ _ M QA UA FA GN) as [NC | (W1 & W2)]; [congruence|].
           pose proof (sumf_get_le (wt (a_sid A)) (ags s0) a A EA) as LE.
           assert (2 <= wt (a_sid A) a A) by (unfold wt; rewrite W1, W2; cbn [b2n]; lia). lia.
      * rewrite ES.
        pose proof (inflight_weight s0 a A (conj ND (conj FR (conj UQ (fun _ => CE)))) EA NA) as S1.
        apply KEEP; auto.
        -- pose proof (sumf_get_le (wt (r_ns (a_r A))) (ags s0) a A EA) as LE.
           destruct (FR a A EA) as (_ & _ & F3). specialize (F3 NA).
           unfold wt. rewrite wn_alt, NA, N.eqb_refl. cbn [andb b2n]. lia.
        -- eapply micro_rdfin2_same; eauto.
        -- pose proof (wh_wt_pos (r_ns (a_r A)) a (o_a o)). rewrite <- ES in H at 1. specialize (H (claims_wh _ CB0)). lia.
    + (* another handle *)
      pose proof (I b B0 EB0 CB0) as S1.
      pose proof (wh_wt_pos (a_sid B0) b B0 (claims_wh _ CB0)) as WB.
      pose proof (sumf_two_le (wt (a_sid B0)) (ags s0) a A b B0 ND (fun E => Hne (eq_sym E)) EA EB0) as TW.
      assert (WA : wt (a_sid B0) a A = 0) by lia.
      pose proof (step_weight c fut s0 a A o (a_sid B0) R Small0 EA M NO) as SW.
      destruct (micro_cons (a_sid B0) _ _ _ _ _ M QA FA) as
        [(Hc & Hw) | [(Hc & Hw & Hn2 & H1) | [(Hc & Hw & Hn2) | [(Hs & Hc & Hw & Hw0 & Hn2) | (Hc & Hw & Hw0 & Hn2 & HN & HP)]]]];
        try lia.
      exfalso. destruct (FR b B0 EB0) as (F1 & _). lia.
  - (* spurious failure *)
    intros s0 a A o R I EA M Small.
    destruct (spur_shape _ _ _ _ M) as (N0 & Hr & Ha & Hm & Hs & Hc & Hp & _).
    pose proof (ctl_mreach c fut s0 R a A EA) as QA.
    destruct (recv_mreach c fut s0 R) as (ND & _).
    assert (TOP : topc (o_a o) = topc A /\ a_sid (o_a o) = a_sid A /\ r_ns (a_r (o_a o)) = r_ns (a_r A) /\ o_ntf o = [] /\
                  (claims_sole (o_a o) = true -> claims_sole A = true)).
    { clear -M QA. destruct A as [role alive multi sid tok pc stack R0 notified parked].
      unfold micro_spur, ok in M. cbn in M. unfold topc, claims_sole, w_h, topc.
      destruct pc; try discriminate M;
        (destruct stack as [|k st]; [unfold ctl_ok in QA; cbn in QA; discriminate QA|]).
      - injection M as <-. cbn. repeat split; auto.
      - destruct (r_am R0); [discriminate|].
        unfold use_obj, bad, drop_opt, drop_val in M. cbn in M.
        break_hyp M; injection M as <-; cbn; repeat split; auto. }
    destruct TOP as (ET & ESd & ENs & NT & CL).
    assert (EW : forall sg x, wt sg x (o_a o) = wt sg x A).
    { intros sg x. unfold wt, w_h, w_c, w_n. now rewrite ET, ESd, ENs, Hr, Ha, Hc. }
    unfold apply1 in *. rewrite N0, NT in *. change (notify_all [] (put (ags s0) a (o_a o))) with (put (ags s0) a (o_a o)) in *.
    cbn [ags sh] in *. rewrite (len_put_same _ _ _ _ EA) in Small. specialize (I Small).
    assert (ESUM : forall sg, sumf (wt sg) (put (ags s0) a (o_a o)) = sumf (wt sg) (ags s0)).
    { intros sg. pose proof (sumf_put_in (wt sg) (ags s0) a A (o_a o) ND EA) as X. rewrite EW in X. lia. }
    intros b B EB CB. cbn [ags sh] in *. rewrite ESUM. rewrite get_put in EB. destruct (N.eqb b a) eqn:E.
    + injection EB as <-. rewrite ESd. apply (I a A EA). auto.
    + apply (I b B EB CB).
  - (* tick *)
    intros s0 R I Small. exact (I Small).
  - (* init *)
    intros _ a A EA CA. cbn in EA. unfold get in EA. cbn in EA.
    destruct (N.eqb a 0); [injection EA as <-; destruct fut; discriminate CA|].
    destruct (N.eqb a 1); [injection EA as <-; destruct fut; reflexivity|discriminate].
Qed.

Theorem sole_reach c fut s a A :
  reach c fut s -> lenN (ags s) < B62 -> get (ags s) a = Some A -> claims_sole A = true ->
  sumf (wt (a_sid A)) (ags s) = 1.
Proof. intros R Small. exact (sole_mreach c fut s (reach_mreach c fut s R) Small a A). Qed.
