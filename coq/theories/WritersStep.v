(* Case analysis part of InvWriters.v.
   The writers counter counts the live sender handles, and a sender in single-writer mode is
   the only live sender (I8, sender half): what makes the plain store to head sound. *)
From Coq Require Import NArith List Bool Lia.
Require Import MQ.Arith64 MQ.Arith64Facts MQ.Types MQ.State MQ.Model MQ.Exec MQ.Reach MQ.Ctl MQ.Count MQ.AgentInv.
Import ListNotations.
Open Scope N_scope.

Definition is_cdrop (cl : call) : bool := match cl with CDrop => true | _ => false end.
Definition at_sd0 (pc : pcl) : bool := match pc with SD0 => true | _ => false end.

(* a sender handle that the writers counter still counts *)
Definition cs (a : N) (A : agent) : bool :=
  is_sender_role (a_role A) && a_alive A
  && negb (is_cdrop (r_call (a_r A)) && negb (at_sd0 (a_pc A))).

Definition top_sc1 (A : agent) : bool :=
  match last_pc (a_pc A) (a_stack A) with SC1 => true | _ => false end.
Definition is_ftr (f : fn) : bool := match f with FTR => true | _ => false end.

(* per agent: while a sender clones itself it is already in multi mode; receive code runs on receivers *)
Definition w_ok (A : agent) : bool :=
  ctl_ok A
  && (negb (top_sc1 A) || a_multi A)
  && (negb (is_ftr (fn_of (a_pc A))) || negb (is_sender_role (a_role A))).

Lemma w_notified A b : w_ok (set_a_notified b A) = w_ok A.
Proof. destruct A; reflexivity. Qed.

Lemma w_entry c A cl pc :
  w_ok A = true -> a_pc A = Idle -> a_alive A = true -> entry c (a_role A) cl = Some pc ->
  w_ok (at_pc pc (withr (set_r_res RNoRes (set_r_call cl (a_r A))) (set_a_notified false A))) = true.
Proof.
  intros H Hpc Hal He. unfold w_ok in *.
  apply andb_prop in H as [H H3]. apply andb_prop in H as [H1 H2].
  rewrite (entry_ctl c A cl pc H1 Hpc Hal He).
  destruct A as [role alive multi sid tok pc0 stack R notified parked].
  cbn in Hpc, Hal. subst pc0 alive.
  unfold ctl_ok in H1. cbn in H1.
  destruct stack as [|k st]; [|cbn in H1; discriminate H1].
  unfold entry in He.
  destruct role, cl; try discriminate He; try (destruct (is_bcast c); try discriminate He);
    injection He as <-; reflexivity.
Qed.

(* shared preprocessing of a case: expose the stack shape the control invariant allows *)
Ltac pre_case Q Q1 Q2 Q3 :=
  unfold ctl_ok in Q; unfold popret; cbn in Q |- *;
  repeat match goal with E : r_call ?R = _ |- _ => rewrite E in *; clear E end;
  try (match goal with E : _ = _ |- _ => discriminate E end);
  cbn in Q |- *;
  apply andb_prop in Q as [Q Q3]; apply andb_prop in Q as [Q1 Q2];
  try (match goal with st : list pcl |- _ => is_var st; destruct st as [|k st]; cbn in Q1, Q2 |- *; try discriminate Q1; try discriminate Q2 end);
  try (match goal with |- context [fn_of ?p] => is_var p; destruct p; cbn in Q1 |- *; try discriminate Q1;
         match goal with st : list pcl |- _ => is_var st; destruct st; cbn in Q1, Q2 |- *; try discriminate Q1 end end);
  try discriminate Q2.

(* destruct the caller frame of a sub-function program counter *)
Ltac split_frame Q1 Q2 :=
  match type of Q1 with context [match ?k with _ => _ end] =>
    is_var k; destruct k; cbn in Q1, Q2 |- *; try discriminate Q1;
    try (match goal with st : list pcl |- _ =>
           is_var st; destruct st; cbn in Q1, Q2 |- *; try discriminate Q1; try discriminate Q2 end)
  end.

Ltac split_call Q2 :=
  try (match type of Q2 with context [r_call ?R] =>
         let rc := fresh "rc" in remember (r_call R) as rc in *;
         match goal with E : rc = r_call R |- _ => clear E end; destruct rc end);
  cbn in Q2 |- *; try discriminate Q2;
  try (match goal with r : role |- _ => is_var r; destruct r; cbn in Q2 |- *; try discriminate Q2 end).

Lemma micro_wextra c me A S o :
  micro c me A S = Some o -> ctl_ok A = true ->
  (negb (top_sc1 A) || a_multi A) = true ->
  (negb (is_ftr (fn_of (a_pc A))) || negb (is_sender_role (a_role A))) = true ->
  ((negb (top_sc1 (o_a o)) || a_multi (o_a o)) = true /\
   (negb (is_ftr (fn_of (a_pc (o_a o)))) || negb (is_sender_role (a_role (o_a o)))) = true) /\
  (forall a' A', o_new o = Some (a', A') ->
     (negb (top_sc1 A') || a_multi A') = true /\
     (negb (is_ftr (fn_of (a_pc A'))) || negb (is_sender_role (a_role A'))) = true).
Proof.
  intros H Q M F. destruct A as [role alive multi sid tok pc stack R notified parked].
  unfold top_sc1 in *. cbn in M, F.
  destruct pc; micro_cases H; cbn [o_a o_new];
    (split; [|let an := fresh "an" in let An := fresh "An" in let X := fresh "X" in
              intros an An X; try discriminate X; injection X as <- <-; cbn; split; reflexivity]);
    pre_case Q Q1 Q2 Q3; cbn in M, F |- *;
    first [ split; [first [reflexivity | exact M] | first [reflexivity | exact F]]
          | try split_frame Q1 Q2; cbn in M, F |- *;
            first [ split; [first [reflexivity | exact M] | first [reflexivity | exact F]]
                  | split_call Q2; cbn in M, F |- *;
                    split; first [reflexivity | exact M | exact F | discriminate] ] ].
Qed.

Lemma micro_writers c me A S o :
  micro c me A S = Some o -> ctl_ok A = true ->
  (negb (is_ftr (fn_of (a_pc A))) || negb (is_sender_role (a_role A))) = true ->
  (writers (o_s o) = writers S /\ cs me (o_a o) = cs me A /\
     (forall a' A', o_new o = Some (a', A') -> cs a' A' = false) /\
     (a_multi (o_a o) = false ->
        a_multi A = false \/ writers S = 1 \/ is_sender_role (a_role A) = false))
  \/ (writers (o_s o) = wadd (writers S) 1 /\ cs me (o_a o) = true /\ cs me A = true /\
      top_sc1 A = true /\ a_multi (o_a o) = a_multi A /\
      exists a' A', o_new o = Some (a', A') /\ cs a' A' = true /\ a_multi A' = true)
  \/ (writers (o_s o) = wsub (writers S) 1 /\ cs me (o_a o) = false /\ cs me A = true /\
      o_new o = None).
Proof.
  intros H Q F. destruct A as [role alive multi sid tok pc stack R notified parked].
  unfold top_sc1, cs. cbn in F.
  destruct pc; micro_cases H; cbn [o_a o_new o_s];
    pre_case Q Q1 Q2 Q3; cbn in F |- *; eqb_hyps;
    let fin_left :=
      (left; split; [reflexivity|]; split; [reflexivity|];
       split; [intros ? ? X; first [discriminate X | injection X as <- <-; reflexivity]
              | let Hm := fresh "Hm" in intro Hm;
                first [ discriminate Hm | left; exact Hm | right; left; assumption
                      | right; right; reflexivity | right; right; apply negb_true_iff; exact F ] ]) in
    let fin_mid :=
      (right; left; repeat split; try reflexivity; do 2 eexists; repeat split; reflexivity) in
    let fin_right := (right; right; repeat split; reflexivity) in
    first [ solve [fin_left]
          | try split_frame Q1 Q2; cbn in F |- *;
            first [ solve [fin_left]
                  | split_call Q2; cbn in F |- *;
                    try (apply eqb_prop in Q3; subst; cbn);
                    first [ solve [fin_left] | solve [fin_mid] | solve [fin_right] ] ] ].
Qed.

