(* Case analysis for C14: the lock and the content of the consumers' park list. *)
From Coq Require Import NArith List Bool Lia.
Require Import MQ.Arith64 MQ.Arith64Facts MQ.Types MQ.State MQ.Model MQ.Exec MQ.Reach MQ.Ctl MQ.Count MQ.WritersStep
  MQ.RecvDefs MQ.RecvStep.
Import ListNotations.
Open Scope N_scope.

Lemma micro_cplock c me A S o :
  micro c me A S = Some o ->
  cp_lock (o_s o) = cp_lock S \/
  (a_pc A = FP1 /\ cp_lock (o_s o) = Some me) \/
  (a_pc A = FP2 /\ cp_lock (o_s o) = None).
Proof.
  intros H. destruct A as [role alive multi sid tok pc stack R notified parked].
  destruct pc; micro_cases H; cbn [o_s]; unfold deliver, unlock; cbn;
    first [ solve [left; reflexivity]
          | solve [right; left; split; reflexivity]
          | solve [right; right; split; reflexivity]
          | destruct (r_val R); cbn; solve [left; reflexivity] ].
Qed.

Lemma micro_cparked c me A S o :
  micro c me A S = Some o ->
  (cparked (o_s o) = cparked S /\ (o_ntf o = [] \/ a_pc A = PF1 \/ a_pc A = PN1 \/ (a_pc A = FN1 /\ cparked S = []))) \/
  (a_pc A = FP2 /\ r_last (a_r A) = false /\ cparked (o_s o) = cparked S ++ [me] /\ o_ntf o = []) \/
  (a_pc A = FN1 /\ cparked (o_s o) = [] /\ o_ntf o = cparked S).
Proof.
  intros H. destruct A as [role alive multi sid tok pc stack R notified parked].
  destruct pc; micro_cases H; cbn [o_s o_ntf]; unfold deliver, unlock; cbn;
    first [ solve [left; split; [reflexivity|left; reflexivity]]
          | solve [left; split; [reflexivity|right; left; reflexivity]]
          | solve [left; split; [reflexivity|right; right; left; reflexivity]]
          | solve [left; split; [reflexivity|right; right; right; split; [reflexivity|assumption]]]
          | solve [right; left; repeat split; auto]
          | solve [right; right; repeat split; auto; congruence]
          | destruct (r_val R); cbn; solve [left; split; [reflexivity|left; reflexivity]] ].
Qed.
