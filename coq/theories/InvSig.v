(* C13: the NO_READER flag is sticky, a send tests the signal word it loaded, and whoever gets past
   the test saw the flag clear - so no value is claimed by a send that loaded the flag.
   C11: the answer of unsubscribe is the outcome of the handle's own decrement. *)
From Coq Require Import NArith List Bool Lia.
Require Import MQ.Arith64 MQ.Arith64Facts MQ.Types MQ.State MQ.Model MQ.Exec MQ.Reach MQ.Ctl MQ.AgentInv MQ.AgentInvCtl
  MQ.WritersStep MQ.SigStep.
Import ListNotations.
Open Scope N_scope.

Lemma spur_signal c A S o : micro_spur c A S = Some o ->
  signal (o_s o) = signal S /\ r_sig (a_r (o_a o)) = r_sig (a_r A) /\
  ((a_pc A = M5 /\ a_pc (o_a o) = M2) \/ (a_pc A = R12 /\ a_pc (o_a o) = R4)).
Proof.
  intros H. destruct A as [role alive multi sid tok pc stack R notified parked].
  unfold micro_spur, ok in H. cbn in H.
  destruct pc; try discriminate H.
  - injection H as <-. cbn. auto.
  - destruct (r_am R); [discriminate|].
    unfold use_obj, bad, drop_opt, drop_val in H. cbn in H.
    break_hyp H; injection H as <-; cbn; auto.
Qed.

Theorem no_reader_sticky c s l s' :
  step c s l = Some s' -> no_reader (sh s) = true -> no_reader (sh s') = true.
Proof.
  intros ST NR. revert ST. apply (step_pres c (fun s => no_reader (sh s) = true)); auto.
  - intros s0 a A o H _ _ M _. cbn [apply1 sh]. eapply micro_no_reader; eauto.
  - intros s0 a A o H _ M. cbn [apply1 sh]. destruct (spur_signal _ _ _ _ M) as [E _].
    unfold no_reader in *. now rewrite E.
Qed.

Lemma d_notified A b : d_ok (set_a_notified b A) = d_ok A.
Proof. destruct A; reflexivity. Qed.

Lemma d_entry c A cl pc :
  ctl_ok A = true -> d_ok A = true -> a_pc A = Idle -> a_alive A = true -> entry c (a_role A) cl = Some pc ->
  d_ok (at_pc pc (withr (set_r_res RNoRes (set_r_call cl (a_r A))) (set_a_notified false A))) = true.
Proof.
  intros _ _ _ _ He. destruct A as [role alive multi sid tok pc0 stack R notified parked].
  unfold entry in He. unfold d_ok. cbn.
  destruct role, cl; try discriminate He; try (destruct (is_bcast c); try discriminate He);
    injection He as <-; reflexivity.
Qed.

Lemma d_spur c A S o : micro_spur c A S = Some o -> ctl_ok A = true -> d_ok A = true -> d_ok (o_a o) = true.
Proof.
  intros H _ D. destruct (spur_signal _ _ _ _ H) as (_ & E & Hp). unfold d_ok in *. rewrite E.
  destruct Hp as [[E1 ->]|[E1 ->]]; [rewrite E1 in D; exact D|reflexivity].
Qed.

Lemma d_init fut a A : get (ags (init fut)) a = Some A -> d_ok A = true.
Proof.
  intros EA. cbn in EA. unfold get in EA. cbn in EA.
  destruct (N.eqb a 0); [injection EA as <-; destruct fut; reflexivity|].
  destruct (N.eqb a 1); [injection EA as <-; destruct fut; reflexivity|discriminate].
Qed.

(* whoever is past the test of try_send saw NO_READER clear *)
Theorem past_test_saw_readers c fut s :
  mreach c fut s -> forall a A, get (ags s) a = Some A ->
  past_sig (a_pc A) = true -> N.odd (r_sig (a_r A) / 2) = false.
Proof.
  intros R a A EA P.
  pose proof (agents_minv_ctl c d_ok d_notified (d_entry c) (micro_dok c) (d_spur c) d_init fut s R a A EA) as D.
  unfold d_ok in D. rewrite P in D. cbn in D. now apply negb_true_iff in D.
Qed.
