(* The re-validation at the end of a scan of the stream list (C16): the result is handed to the caller only if the
   published list is still the one that was scanned; otherwise the scan starts again on the current list. *)
From Coq Require Import NArith List Bool Lia.
Require Import MQ.Arith64 MQ.Types MQ.State MQ.Model MQ.Exec MQ.Reach.
Import ListNotations.
Open Scope N_scope.

Ltac one_pc H E :=
  match type of H with micro _ _ ?A _ = _ =>
    destruct A as [role alive multi sid tok pc stack R notified parked]; cbn in E; subst pc; micro_cases H end.

Lemma scan_validated c me A S o : micro c me A S = Some o -> a_pc A = G3 ->
  o_s o = S /\ a_r (o_a o) = a_r A /\
  ((cur S = r_g (a_r A) /\ a_pc (o_a o) = hd Idle (a_stack A) /\ a_stack (o_a o) = tl (a_stack A)) \/
   (cur S <> r_g (a_r A) /\ a_pc (o_a o) = G1 /\ a_stack (o_a o) = a_stack A)).
Proof.
  intros H E. one_pc H E; cbn; eqb_hyps; (split; [reflexivity|]); (split; [unfold popret; destruct stack; reflexivity|]).
  all: first [ left; split; [assumption|]; unfold popret; destruct stack; split; reflexivity
             | right; split; [assumption|split; reflexivity] ].
Qed.

(* the scan starts from the published list and remembers which list it is *)
Lemma scan_starts_from_published c me A S o : micro c me A S = Some o -> a_pc A = G1 ->
  r_g (a_r (o_a o)) = cur S /\ r_gl (a_r (o_a o)) = ggroup S (cur S) /\ r_none (a_r (o_a o)) = false /\
  groups (o_s o) = groups S /\ cur (o_s o) = cur S.
Proof.
  intros H E. one_pc H E; cbn; repeat split; reflexivity.
Qed.
