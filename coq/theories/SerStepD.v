(* Case analysis for payload identities: how a consumer gets to the decrement and to the commit. *)
From Coq Require Import NArith List Bool Lia.
Require Import MQ.Arith64 MQ.Arith64Facts MQ.Types MQ.State MQ.Model MQ.Exec MQ.Reach MQ.Ctl MQ.Count MQ.WritersStep
  MQ.RecvDefs MQ.RecvStep.
Import ListNotations.
Open Scope N_scope.

Lemma micro_cphase c me A S o :
  micro c me A S = Some o -> ctl_ok A = true ->
  (a_pc (o_a o) = R11 -> a_pc A = KC) /\
  (a_pc (o_a o) = R12 -> a_pc A = KC \/ a_pc A = R11 \/ is_bcast c = false).
Proof.
  intros H Q. destruct A as [role alive multi sid tok pc stack R notified parked].
  destruct pc; micro_cases H; cbn [o_a]; pre_case Q Q1 Q2 Q3; try split_frame Q1 Q2; cbn;
    split; intros X; first [ discriminate X | reflexivity | solve [left; reflexivity] | solve [right; left; reflexivity]
                           | solve [right; right; first [assumption | reflexivity]] ].
Qed.
