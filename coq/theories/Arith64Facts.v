(* Characterising lemmas for the 64-bit index arithmetic of Arith64.v: what each wrapped
   primitive means on unbounded numbers, under the explicit no-wrap bounds. *)
From Coq Require Import NArith ZArith List Bool Lia.
Require Import MQ.Arith64.
Open Scope N_scope.
Ltac Zify.zify_post_hook ::= Z.to_euclidean_division_equations.

Definition B62 : N := 4611686018427387904.      (* 2^62 *)
Definition B61 : N := 2305843009213693952.      (* 2^61 *)

Lemma MASK_IND_pow : MASK_IND = 2 ^ 63.  Proof. reflexivity. Qed.
Lemma W_pow : W = 2 ^ 64.  Proof. reflexivity. Qed.
Lemma B62_pow : B62 = 2 ^ 62.  Proof. reflexivity. Qed.
Lemma MAX_WRAP_B62 : MAX_WRAP = B62 - 1.  Proof. reflexivity. Qed.

(* ---- counters ---- *)
Lemma next_count_small x : x + 1 < MASK_IND -> next_count x = x + 1.
Proof. unfold next_count, rm_tag, wadd, MASK_IND, W. intros. lia. Qed.

Lemma next_count_mod x : x < W -> next_count x = (x + 1) mod MASK_IND.
Proof. unfold next_count, rm_tag, wadd, MASK_IND, W. intros. lia. Qed.

Lemma next_count_lt x : next_count x < MASK_IND.
Proof. unfold next_count, rm_tag, MASK_IND. lia. Qed.

Lemma rm_tag_small x : x < MASK_IND -> rm_tag x = x.
Proof. unfold rm_tag, MASK_IND. intros. lia. Qed.

Lemma is_tagged_small x : x < MASK_IND -> is_tagged x = false.
Proof. unfold is_tagged, MASK_IND, W. intros. apply N.leb_gt. lia. Qed.

Lemma is_tagged_initial : is_tagged INITIAL_QUEUE_FLAG = true.
Proof. reflexivity. Qed.

Lemma rm_tag_initial : rm_tag INITIAL_QUEUE_FLAG = MASK_TAG.
Proof. reflexivity. Qed.

(* ---- the producers' full test ---- *)
Lemma wsub_ge a b : b <= a -> a < W -> wsub a b = a - b.
Proof.
  intros Hb Ha. unfold wsub. rewrite (N.mod_small b W) by lia.
  replace (a + W - b) with ((a - b) + 1 * W) by lia.
  rewrite N.mod_add by (unfold W; lia). apply N.mod_small. lia.
Qed.

Lemma wsub_lt a b : a < b -> b < W -> wsub a b = a + W - b.
Proof.
  intros Hb Ha. unfold wsub. rewrite (N.mod_small b W) by lia.
  apply N.mod_small. lia.
Qed.

Lemma matches_previous_spec h n tc :
  h < B62 -> tc < B62 -> 0 < n -> n <= B61 ->
  matches_previous h n tc = true <-> h = tc + n.
Proof.
  unfold matches_previous. intros Hh Ht Hn Hn2. rewrite N.eqb_eq.
  assert (B62 < W) by reflexivity. assert (B61 < B62) by reflexivity.
  destruct (N.le_gt_cases n h) as [L|G].
  - rewrite wsub_ge by lia. rewrite rm_tag_small by (unfold MASK_IND, B62 in *; lia). lia.
  - rewrite wsub_lt by lia. unfold rm_tag.
    replace (h + W - n) with ((h + MASK_IND - n) + 1 * MASK_IND) by (unfold W, MASK_IND, B61, B62 in *; lia).
    rewrite N.mod_add by (unfold MASK_IND; lia).
    rewrite N.mod_small by (unfold MASK_IND, B61, B62 in *; lia).
    unfold MASK_IND, B61, B62 in *. lia.
Qed.

Lemma get_previous_spec h d : d <= h -> h < W -> get_previous h d = h - d.
Proof. unfold get_previous. intros. now apply wsub_ge. Qed.

Lemma past_spec check seq :
  check < B62 -> seq < B62 ->
  past check seq = (if seq <=? check then (check - seq, false) else (check + W - seq, true)).
Proof.
  unfold past. intros Hc Hs.
  assert (B62 < W) by reflexivity.
  destruct (seq <=? check) eqn:E.
  - apply N.leb_le in E. rewrite wsub_ge by lia. f_equal. apply N.ltb_ge. unfold MAX_WRAP, B62 in *. lia.
  - apply N.leb_gt in E. rewrite wsub_lt by lia. f_equal. apply N.ltb_lt. unfold MAX_WRAP, B62, W in *. lia.
Qed.

Lemma slot_of_lt x n : 0 < n -> slot_of x n < n.
Proof. unfold slot_of. intros. apply N.mod_lt. lia. Qed.

(* two positions inside one window of n consecutive positions share a slot only if equal *)
Lemma slot_window a q q' n :
  0 < n -> a <= q -> q < a + n -> a <= q' -> q' < a + n ->
  slot_of q n = slot_of q' n -> q = q'.
Proof.
  unfold slot_of. intros Hn H1 H2 H3 H4 E.
  pose proof (N.div_mod q n ltac:(lia)) as D1. pose proof (N.div_mod q' n ltac:(lia)) as D2.
  rewrite E in D1. set (k := q / n) in *. set (k' := q' / n) in *. set (r := q' mod n) in *.
  clearbody k k' r. assert (k = k'); [|subst; lia].
  destruct (N.lt_trichotomy k k') as [L|[L|L]]; [|exact L|]; exfalso; nia.
Qed.

(* ---- capacity rounding (countedindex.rs get_valid_wrap) ---- *)
Lemma pow2_le_mono a b : a <= b -> 2 ^ a <= 2 ^ b.
Proof. intros. apply N.pow_le_mono_r; lia. Qed.

Theorem get_valid_wrap_spec v :
  v < MAX_WRAP ->
  let n := get_valid_wrap v in
  (exists k, n = 2 ^ k) /\ 1 <= n /\ v <= n /\
  (forall k, v <= 2 ^ k -> n <= 2 ^ k).
Proof.
  intros Hv. unfold get_valid_wrap. cbv zeta.
  destruct (MAX_WRAP <=? v) eqn:E1; [apply N.leb_le in E1; lia|].
  destruct (v =? 0) eqn:E0.
  - apply N.eqb_eq in E0. subst v. repeat split.
    + exists 0. reflexivity.
    + lia.
    + lia.
    + intros k _. change 1 with (2 ^ 0). apply pow2_le_mono. lia.
  - apply N.eqb_neq in E0. unfold next_power_of_two.
    destruct (N.eq_dec v 1) as [->|H1].
    + repeat split.
      * exists 0. reflexivity.
      * cbn. lia.
      * cbn. lia.
      * intros k _. change (2 ^ N.log2_up 1) with (2 ^ 0). apply pow2_le_mono. lia.
    + assert (Hgt : 1 < v) by lia.
      destruct (N.log2_up_spec v Hgt) as [Hlo Hhi].
      repeat split.
      * eexists; reflexivity.
      * assert (0 < 2 ^ N.log2_up v) by (apply N.neq_0_lt_0, N.pow_nonzero; lia). lia.
      * exact Hhi.
      * intros k Hk.
        destruct (N.le_gt_cases (N.log2_up v) k) as [L|G]; [now apply pow2_le_mono|].
        exfalso. assert (k <= N.pred (N.log2_up v)) by lia.
        apply pow2_le_mono in H. lia.
Qed.

Lemma get_valid_wrap_pos v : 0 < get_valid_wrap v.
Proof.
  unfold get_valid_wrap. destruct (MAX_WRAP <=? v); [reflexivity|].
  destruct (v =? 0); [reflexivity|]. unfold next_power_of_two.
  apply N.neq_0_lt_0, N.pow_nonzero. lia.
Qed.

(* ---- the consumers' wait condition (wait.rs check) ---- *)
Lemma wait_check_no_writers seq flag : wait_check seq flag 0 = true.
Proof. reflexivity. Qed.

(* the slot holds exactly the awaited sequence number: the waiter is released *)
Lemma wait_check_published seq wc : seq < MASK_IND -> wait_check seq seq wc = true.
Proof.
  intros H. unfold wait_check. rewrite (rm_tag_small seq H), N.eqb_refl.
  now rewrite orb_true_r.
Qed.

(* a never-written slot does not release a waiter that waits for a real position while a sender lives *)
Lemma wait_check_never_written seq wc :
  seq < B62 -> wc <> 0 -> wait_check seq INITIAL_QUEUE_FLAG wc = false.
Proof.
  intros Hs Hw. unfold wait_check. rewrite is_tagged_initial, rm_tag_initial.
  apply N.eqb_neq in Hw. rewrite Hw. cbn [negb andb orb].
  rewrite orb_false_r. apply N.eqb_neq. unfold B62, MASK_TAG in *. lia.
Qed.

(* an older value still in the slot does not release the waiter; a newer one does *)
Lemma wait_check_older seq tag wc :
  seq < B62 -> tag < seq -> wc <> 0 -> wait_check seq tag wc = false.
Proof.
  intros Hs Ht Hw. unfold wait_check.
  assert (tag < MASK_IND) by (unfold MASK_IND, B62 in *; lia).
  rewrite rm_tag_small, is_tagged_small by assumption.
  apply N.eqb_neq in Hw. rewrite Hw. cbn [orb negb andb].
  rewrite past_spec by (unfold B62 in *; lia).
  assert (E : (tag <=? seq) = true) by (apply N.leb_le; lia). rewrite E. cbn [snd].
  rewrite orb_false_r. apply N.eqb_neq. lia.
Qed.

Lemma wait_check_newer seq tag wc :
  tag < B62 -> seq < tag -> wait_check seq tag wc = true.
Proof.
  intros Ht Hs. unfold wait_check.
  assert (tag < MASK_IND) by (unfold MASK_IND, B62 in *; lia).
  rewrite rm_tag_small, is_tagged_small by assumption.
  rewrite past_spec by (unfold B62 in *; lia).
  assert (E : (tag <=? seq) = false) by (apply N.leb_gt; lia). rewrite E. cbn [snd negb andb].
  now rewrite !orb_true_r.
Qed.
