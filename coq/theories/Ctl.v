(* Control invariant of every agent: the call stack is well formed (every return address is a
   legal continuation of the function it returns from), the top-level program counter belongs
   to the call in progress, the call fits the side (sender/receiver) of the handle, and an agent
   is dead exactly when it is Done.  Proved for all reachable states by case analysis over all
   program counters; everything later that speaks about "an agent inside call X" rests on it. *)
From Coq Require Import NArith List Bool Lia.
Require Import MQ.Arith64 MQ.Types MQ.State MQ.Model MQ.Exec MQ.Reach.
Import ListNotations.
Open Scope N_scope.

Inductive fn := FTop | FTS | FG | FU | FGT | FRT | FFR | FN | FPN | FPF | FTR | FC.

Definition fn_of (pc : pcl) : fn :=
  match pc with
  | TS0 | TS0b | TSmode | TS1 | P1 | P2 | P3pre | P3 | P4pre | P4 | P5 | P6 | P7
  | M1 | M2 | M3pre | M3 | M3b | M3post | M4pre | M4 | M5 | TSdone | TSret => FTS
  | G1 | G2 | G3 => FG
  | U1 | U2 | U3 => FU
  | GT1 | GT2 => FGT
  | RT0 | RT1 | RT2 => FRT
  | FR1 | FR2 | FR3 | FR4 | FR4b | FR5pre | FR5 | FR6 | FR7 | FR8 => FFR
  | NTF | N1 | N2 | FN1 => FN
  | PN1 => FPN
  | PF1 => FPF
  | R1pre | R1 | R2 | R3 | R1n | R2n | R4 | R5 | R6 | R6b | R7 | R8 | R9 | R10 | KC | R11 | R12
  | V1 | V5 | V6 | VK | V4 => FTR
  | C1 | C2 => FC
  | _ => FTop
  end.

Definition is_top (f : fn) : bool := match f with FTop => true | _ => false end.

(* legal return addresses of each function *)
Definition ret_ok (f : fn) (k : pcl) : bool :=
  match f, k with
  | FTS, TSfin | FTS, SS2 | FTS, SS6 | FTS, SP2 => true
  | FG, P3pre | FG, M3pre => true
  | FU, TS0b | FU, E0ret | FU, RT1 => true
  | FGT, SC1 | FGT, RC1 | FGT, A5 | FGT, FI1 => true
  | FRT, SD1 | FRT, RDfin => true
  | FFR, RT2 | FFR, D4b | FFR, D4c | FFR, A4 => true
  | FN, TSret | FN, SSret | FN, SD2 => true
  | FPN, TRfin2 | FPN, PLfin => true
  | FPF, RDfin2 => true
  | FTR, TRfin | FTR, RVafter => true
  | FC, WB2 | FC, WY2 | FC, WY5 | FC, WK2 | FC, WK5 | FC, B1c | FC, B3c | FC, WF2
  | FC, FS2 | FC, FS6 | FC, FP2 => true
  | _, _ => false
  end.

Fixpoint wfS (f : fn) (st : list pcl) : bool :=
  match st with
  | [] => is_top f
  | k :: st' => ret_ok f k && wfS (fn_of k) st'
  end.

Fixpoint last_pc (pc : pcl) (st : list pcl) : pcl :=
  match st with [] => pc | k :: st' => last_pc k st' end.

(* the top-level program counters of each call *)
Definition rd_tops (pc : pcl) : bool :=
  match pc with
  | RD0 | D1 | D2pre | D2 | D3 | D4pre | D4b | D4c | D5 | D6 | RDtok | RDfin | RDfin2 => true
  | _ => false
  end.
Definition add_tops (pc : pcl) : bool :=
  match pc with A1 | A2pre | A2 | A3 | A4 | A5 => true | _ => false end.
Definition fin_idle (pc : pcl) : bool := match pc with FIN | Idle => true | _ => false end.
Definition wait_tops (pc : pcl) : bool :=
  match pc with
  | W0 | WT | WB2 | WY1 | WY2 | WY3 | WY4 | WY5 | WK1 | WK2 | WK3 | WK4 | WK5
  | B1 | B1c | B2 | B2w | B3c | WF1 | WF2 | WFy => true
  | _ => false
  end.
Definition poll_tops (pc : pcl) : bool :=
  match pc with
  | PLafter | PLfin | PW0 | FS1 | FS2 | FS3 | FS4 | FS5 | FS6 | FP1 | FP2 | FP3 => true
  | _ => false
  end.
Definition ss_tops (pc : pcl) : bool :=
  match pc with
  | SSbegin | SS0 | SS1 | SS2 | SS3 | SS4 | SS5 | SS6 | SP1 | SP2 | SSdone | SSret => true
  | _ => false
  end.

Definition ct_ok (cl : call) (pc : pcl) : bool :=
  match cl with
  | CNone => match pc with Idle => true | _ => false end
  | CTrySend _ => match pc with TSbegin | TSfin => true | _ => fin_idle pc end
  | CTryRecv | CTryView =>
      match pc with E0 | E0ret | TRfin | TRfin2 => true | _ => fin_idle pc end
  | CRecv | CView =>
      match pc with E0 | E0ret | RVloop | RVafter | RVfin | TRfin2 => true
               | _ => wait_tops pc || fin_idle pc end
  | CPoll =>
      match pc with E0 | E0ret | RVloop | RVafter => true | _ => poll_tops pc || fin_idle pc end
  | CAPoll =>
      match pc with E0 | E0ret | RVloop | RVafter | AW => true | _ => poll_tops pc || fin_idle pc end
  | CClone _ => match pc with SC0 | SC1 | RC0 | RC1 => true | _ => fin_idle pc end
  | CAddStream _ => add_tops pc || fin_idle pc
  | CUnsub => match pc with Done => true | _ => rd_tops pc end
  | CDrop => match pc with SD0 | SD1 | SD2 | Done => true | _ => rd_tops pc end
  | CIntoSingle => match pc with IS0 | FI0 | FI1 | FI5 => true | _ => rd_tops pc || fin_idle pc end
  | CIntoMulti => match pc with IM0 => true | _ => add_tops pc || rd_tops pc || fin_idle pc end
  | CTransform => add_tops pc || rd_tops pc || fin_idle pc
  | CStartSend _ => ss_tops pc || fin_idle pc
  | CAStartSend _ => match pc with AW => true | _ => ss_tops pc || fin_idle pc end
  | CPollComplete => match pc with PC0 => true | _ => fin_idle pc end
  end.

Definition is_sender_role (r : role) : bool :=
  match r with RSender | RFSender => true | _ => false end.

(* which side of the queue a call belongs to (clone and drop exist on both) *)
Definition call_side (cl : call) : option bool :=
  match cl with
  | CTrySend _ | CStartSend _ | CAStartSend _ | CPollComplete => Some true
  | CTryRecv | CRecv | CTryView | CView | CPoll | CAPoll | CAddStream _ | CUnsub
  | CIntoSingle | CIntoMulti | CTransform => Some false
  | CNone | CClone _ | CDrop => None
  end.

Definition side_call (b : bool) (cl : call) : bool :=
  match call_side cl with Some x => Bool.eqb b x | None => true end.

(* top-level program counters that exist on one side only *)
Definition side_pc (b : bool) (pc : pcl) : bool :=
  match pc with
  | SC0 | SC1 | SD0 | SD1 | SD2 => b
  | RC0 | RC1 => negb b
  | _ => if rd_tops pc || add_tops pc then negb b else true
  end.

Definition is_done (pc : pcl) : bool := match pc with Done => true | _ => false end.

Definition ctl_ok (A : agent) : bool :=
  wfS (fn_of (a_pc A)) (a_stack A)
  && (ct_ok (r_call (a_r A)) (last_pc (a_pc A) (a_stack A))
      && side_call (is_sender_role (a_role A)) (r_call (a_r A))
      && side_pc (is_sender_role (a_role A)) (last_pc (a_pc A) (a_stack A)))
  && Bool.eqb (a_alive A) (negb (is_done (a_pc A))).

Definition Ctl (s : state) : Prop :=
  forall a A, get (ags s) a = Some A -> ctl_ok A = true.

(* ------------------------------------------------------------------ *)
Lemma ctl_notified A b : ctl_ok (set_a_notified b A) = ctl_ok A.
Proof. destruct A; reflexivity. Qed.

Lemma entry_ctl c A cl pc :
  ctl_ok A = true -> a_pc A = Idle -> a_alive A = true -> entry c (a_role A) cl = Some pc ->
  ctl_ok (at_pc pc (withr (set_r_res RNoRes (set_r_call cl (a_r A))) (set_a_notified false A))) = true.
Proof.
  intros H Hpc Hal He.
  destruct A as [role alive multi sid tok pc0 stack R notified parked].
  cbn in Hpc, Hal. subst pc0 alive.
  unfold ctl_ok in *. cbn in H |- *.
  destruct stack as [|k st]; [|cbn in H; discriminate H].
  unfold entry in He.
  destruct role, cl; try discriminate He; try (destruct (is_bcast c); try discriminate He);
    injection He as <-; reflexivity.
Qed.

(* ------------------------------------------------------------------ *)
Ltac ctl_case Q :=
  unfold ctl_ok in Q |- *; unfold popret; cbn in Q |- *;
  repeat match goal with E : r_call ?R = _ |- _ => rewrite E in *; clear E end;
  try (match goal with E : _ = _ |- _ => discriminate E end);
  cbn in Q |- *;
  let Q1 := fresh "Q1" in let Q2 := fresh "Q2" in let Q3 := fresh "Q3" in
  apply andb_prop in Q as [Q Q3]; apply andb_prop in Q as [Q1 Q2];
  try (match goal with st : list pcl |- _ => is_var st; destruct st as [|k st]; cbn in Q1, Q2 |- *; try discriminate Q1; try discriminate Q2 end);
  try (match goal with |- context [fn_of ?p] => is_var p; destruct p; cbn in Q1 |- *; try discriminate Q1;
         match goal with st : list pcl |- _ => is_var st; destruct st; cbn in Q1, Q2 |- *; try discriminate Q1 end end);
  try discriminate Q2;
  (* the panic exit of try_send_single abandons the stack: the caller frame decides the call *)
  try (match goal with |- context [FIN] =>
         match type of Q1 with context [match ?k with _ => _ end] =>
           is_var k; destruct k; cbn in Q1, Q2; try discriminate Q1;
           match goal with st : list pcl |- _ =>
             is_var st; destruct st; cbn in Q1, Q2; try discriminate Q1; try discriminate Q2 end end end);
  try rewrite Q1; try rewrite Q3; cbn;
  first [ reflexivity
        | rewrite Q2; reflexivity
        | try (match goal with |- context [r_call ?R] =>
                 let rc := fresh "rc" in remember (r_call R) as rc in *;
                 match goal with E : rc = r_call R |- _ => clear E end; destruct rc end);
          cbn in Q2 |- *; try discriminate Q2;
          try (match goal with r : role |- _ => is_var r; destruct r; cbn in Q2 |- *; try discriminate Q2 end);
          try (match goal with b : bool |- _ => destruct b; cbn in Q3 |- *; try discriminate Q3 end);
          try reflexivity; try exact Q2 ].

Lemma micro_ctl c me A S o :
  micro c me A S = Some o -> ctl_ok A = true ->
  ctl_ok (o_a o) = true /\
  (forall a' A', o_new o = Some (a', A') -> ctl_ok A' = true).
Proof.
  intros H Q. destruct A as [role alive multi sid tok pc stack R notified parked].
  destruct pc; micro_cases H; cbn [o_a o_new];
    (split; [|let an := fresh "an" in let An := fresh "An" in let X := fresh "X" in
              intros an An X; try discriminate X; injection X as <- <-]);
    ctl_case Q.
Qed.

Lemma spur_ctl c A S o :
  micro_spur c A S = Some o -> ctl_ok A = true -> ctl_ok (o_a o) = true /\ o_new o = None.
Proof.
  intros H Q. destruct A as [role alive multi sid tok pc stack R notified parked].
  unfold micro_spur, ok in H. cbn in H.
  destruct pc; try discriminate H.
  - injection H as <-. cbn [o_a o_new]. split; [|reflexivity]. ctl_case Q.
  - destruct (r_am R); [discriminate|].
    unfold use_obj, bad, drop_opt, drop_val in H. cbn in H.
    break_hyp H; injection H as <-; cbn [o_a o_new]; (split; [|reflexivity]); ctl_case Q.
Qed.

(* the invariant, for every reachable state *)
Theorem ctl_mreach c fut s : mreach c fut s -> Ctl s.
Proof.
  apply mreach_inv.
  - (* begin_call *)
    intros s0 a A cl pc I EA Hpc Hal He _ b B EB.
    unfold begin_call in EB. cbn [ags] in EB. rewrite get_put in EB.
    destruct (N.eqb b a) eqn:E.
    + injection EB as <-. apply (entry_ctl c); auto. eapply I; eauto.
    + eapply I; eauto.
  - (* micro *)
    intros s0 a A o I EA _ M NO b B EB.
    destruct (micro_ctl _ _ _ _ _ M (I _ _ EA)) as [Q1 Q2].
    unfold apply1 in EB. cbn [ags] in EB. rewrite get_notify_all in EB.
    destruct (o_new o) as [[a' A']|] eqn:EN.
    + rewrite get_put in EB. destruct (N.eqb b a') eqn:E1.
      * injection EB as <-. destruct (memN b (o_ntf o)); [rewrite ctl_notified|]; eauto.
      * rewrite get_put in EB. destruct (N.eqb b a) eqn:E2.
        -- injection EB as <-. destruct (memN b (o_ntf o)); [rewrite ctl_notified|]; eauto.
        -- destruct (get (ags s0) b) as [B0|] eqn:EB0; [|discriminate].
           injection EB as <-. destruct (memN b (o_ntf o)); [rewrite ctl_notified|]; eauto.
    + rewrite get_put in EB. destruct (N.eqb b a) eqn:E2.
      * injection EB as <-. destruct (memN b (o_ntf o)); [rewrite ctl_notified|]; eauto.
      * destruct (get (ags s0) b) as [B0|] eqn:EB0; [|discriminate].
        injection EB as <-. destruct (memN b (o_ntf o)); [rewrite ctl_notified|]; eauto.
  - (* spurious CAS failure *)
    intros s0 a A o I EA M b B EB.
    destruct (spur_ctl _ _ _ _ M (I _ _ EA)) as [Q1 Q2].
    unfold apply1 in EB. cbn [ags] in EB. rewrite get_notify_all, Q2 in EB.
    rewrite get_put in EB. destruct (N.eqb b a) eqn:E2.
    + injection EB as <-. destruct (memN b (o_ntf o)); [rewrite ctl_notified|]; eauto.
    + destruct (get (ags s0) b) as [B0|] eqn:EB0; [|discriminate].
      injection EB as <-. destruct (memN b (o_ntf o)); [rewrite ctl_notified|]; eauto.
  - intros s0 I. exact I.
  - intros a A EA. cbn in EA. unfold get in EA. cbn in EA.
    destruct (N.eqb a 0); [injection EA as <-; destruct fut; reflexivity|].
    destruct (N.eqb a 1); [injection EA as <-; destruct fut; reflexivity|discriminate].
Qed.

Theorem ctl_reach c fut s : reach c fut s -> Ctl s.
Proof. intros R. apply (ctl_mreach c fut). now apply reach_mreach. Qed.
