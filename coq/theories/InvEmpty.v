(* C13: when the published stream list is empty, the no-reader flag is set or an agent that removed a stream is on
   its way to set it. *)
From Coq Require Import NArith List Bool Lia.
Require Import MQ.Arith64 MQ.Arith64Facts MQ.Types MQ.State MQ.Model MQ.Exec MQ.Reach MQ.Fields MQ.Ctl MQ.Count MQ.SumCount MQ.FreshStep
  MQ.WritersStep MQ.InvWriters MQ.RecvDefs MQ.RecvStep MQ.KnownStep MQ.InvRecv MQ.GroupStep MQ.GroupStep2 MQ.GroupStep3
  MQ.NewAgentStep MQ.InvGroups MQ.RegStep MQ.InvReg MQ.SigStep MQ.SigStepB MQ.InvSlot.
Import ListNotations.
Open Scope N_scope.

Definition EmptyInv (s : state) : Prop :=
  streams (sh s) = [] ->
  no_reader (sh s) = true \/ exists a A, get (ags s) a = Some A /\ dph A = true.

Lemma dph_notified B : dph (set_a_notified true B) = dph B.
Proof. destruct B; reflexivity. Qed.

Lemma t_D2e c me A S o : micro c me A S = Some o -> a_pc A = D2 -> cur S = r_g (a_r A) ->
  (a_pc (o_a o) = D3 \/ a_pc (o_a o) = D4pre) /\ a_stack (o_a o) = a_stack A.
Proof.
  intros H E EC. destruct A as [role alive multi sid tok pc stack R notified parked]. cbn in E, EC. subst pc.
  micro_cases H; cbn; eqb_hyps; try congruence; split; auto.
Qed.

Theorem empty_mreach c fut s : mreach c fut s -> EmptyInv s.
Proof.
  apply mreach_inv2.
  - (* begin_call *)
    intros s0 a A cl pc R I EA Hpc Hal He _ EM.
    unfold begin_call in *. cbn [ags sh] in *.
    change (streams (hist (HCall a cl (g_clock (sh s0))) (sh s0))) with (streams (sh s0)) in EM.
    change (no_reader (hist (HCall a cl (g_clock (sh s0))) (sh s0))) with (no_reader (sh s0)).
    destruct (I EM) as [F | (w & W & EW & DW)]; [left; exact F|right].
    exists w, W. split; [|exact DW]. rewrite get_put. destruct (N.eqb w a) eqn:E; [|exact EW].
    apply N.eqb_eq in E. subst w. rewrite EA in EW. injection EW as <-.
    exfalso. clear -Hpc DW R EA. pose proof (ctl_mreach c fut s0 R a A EA) as Q.
    destruct A as [role alive multi sid tok pc0 stack R0 notified parked]. cbn in Hpc. subst pc0.
    unfold ctl_ok in Q. cbn in Q. destruct stack; [|cbn in Q; discriminate Q]. discriminate DW.
  - (* micro *)
    intros s0 x X o R I EX _ M NO EM. change (sh (apply1 s0 x o)) with (o_s o) in *.
    pose proof (ctl_mreach c fut s0 R x X EX) as QX.
    destruct (groups_mreach c fut s0 R) as (GC & GA).
    destruct (micro_groups _ _ _ _ _ M) as (NG & IM & CU).
    assert (SELF : dph (o_a o) = true -> exists a A, get (ags (apply1 s0 x o)) a = Some A /\ dph A = true).
    { intros D. destruct (apply1_get_self s0 x o NO) as (B & EB & [-> | ->]).
      - exists x, (o_a o). auto.
      - exists x, (set_a_notified true (o_a o)). split; [exact EB|]. rewrite dph_notified. exact D. }
    unfold streams in *.
    destruct CU as [E | [(PC & EC & E) | (PC & EC & E)]].
    + unfold G_cur_same in E. rewrite E, (IM _ GC) in EM.
      destruct (I EM) as [F | (w & W & EW & DW)]; [left; eapply micro_no_reader; eauto|].
      destruct (N.eq_dec w x) as [-> | NE].
      * rewrite EX in EW. injection EW as <-.
        destruct (micro_dph _ _ _ _ _ M QX DW) as [D | [(_ & F) | (_ & NEG)]]; [right; apply SELF; exact D|left; exact F|contradiction].
      * right. destruct (apply1_get_conv s0 x o w W EW NE NO) as (B & EB & [-> | ->]).
        -- exists w, W. auto.
        -- exists w, (set_a_notified true W). split; [exact EB|]. rewrite dph_notified. exact DW.
    + exfalso. destruct (GA x X EX) as (_ & XA & _). destruct (XA PC) as (L1 & EL).
      rewrite E, (IM _ L1), EL in EM. destruct (ggroup (sh s0) (r_g (a_r X))); discriminate EM.
    + right. apply SELF.
      destruct (t_D2e _ _ _ _ _ M PC EC) as (PC' & EST).
      clear -QX PC PC' EST. destruct X as [role alive multi sid tok pc stack R0 notified parked]. cbn in PC. subst pc.
      unfold ctl_ok in QX. cbn in QX. apply andb_prop in QX as [Q _]. apply andb_prop in Q as [Q1 _].
      destruct stack as [|k st]; [|cbn in Q1; discriminate Q1].
      unfold dph, topc. cbn in EST. rewrite EST. destruct PC' as [-> | ->]; reflexivity.
  - (* spurious failure *)
    intros s0 a A o R I EA M EM. change (sh (apply1 s0 a o)) with (o_s o) in *.
    destruct (spur_shape _ _ _ _ M) as (N0 & _ & _ & _ & EST & _ & SHP & _).
    destruct (spur_groups _ _ _ _ M) as (E1 & _ & E3 & _).
    assert (ESIG : signal (o_s o) = signal (sh s0)).
    { clear -M. destruct A as [role alive multi sid tok pc stack R0 notified parked].
      unfold micro_spur, ok in M. cbn in M. destruct pc; try discriminate M.
      - injection M as <-. reflexivity.
      - destruct (r_am R0); [discriminate|]. unfold use_obj, bad, drop_opt, drop_val in M. cbn in M.
        break_hyp M; injection M as <-; reflexivity. }
    unfold streams, ggroup, no_reader in *. rewrite E1, E3 in EM. rewrite ESIG.
    destruct (I EM) as [F | (w & W & EW & DW)]; [left; exact F|right].
    assert (NE : w <> a).
    { intros ->. rewrite EA in EW. injection EW as <-. unfold dph, topc in DW.
      pose proof (ctl_mreach c fut s0 R a A EA) as Q. clear -Q DW SHP.
      destruct A as [role alive multi sid tok pc stack R0 notified parked]. cbn in *.
      unfold ctl_ok in Q. cbn in Q. apply andb_prop in Q as [Q _]. apply andb_prop in Q as [Q1 Q2].
      destruct SHP as [(P1 & _) | (P1 & _)]; subst pc; cbn in Q1;
        (destruct stack as [|k st]; [discriminate Q1|]); cbn in Q1; apply andb_prop in Q1 as [K Q1];
        destruct k; cbn in K; try discriminate K; cbn in Q1, DW;
        try (destruct st as [|k2 st]; cbn in Q1, DW; try discriminate Q1; try discriminate DW;
             try (apply andb_prop in Q1 as [K2 Q1]; destruct k2; cbn in K2; try discriminate K2; cbn in Q1, DW;
                  destruct st; cbn in Q1, DW; try discriminate Q1; try discriminate DW)). }
    assert (NOK : new_ok s0 a o = true) by (unfold new_ok; rewrite N0; reflexivity).
    destruct (apply1_get_conv s0 a o w W EW NE NOK) as (B & EB & [-> | ->]).
    + exists w, W. auto.
    + exists w, (set_a_notified true W). split; [exact EB|]. rewrite dph_notified. exact DW.
  - intros s0 R I EM. exact (I EM).
  - intros EM. cbn in EM. discriminate EM.
Qed.
