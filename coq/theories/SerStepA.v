(* Case analysis for payload identities: serial numbers are allocated fresh, the identity table only grows. *)
From Coq Require Import NArith List Bool Lia.
Require Import MQ.Arith64 MQ.Arith64Facts MQ.Types MQ.State MQ.Model MQ.Exec MQ.Reach MQ.Ctl MQ.Count MQ.WritersStep
  MQ.RecvDefs MQ.RecvStep.
Import ListNotations.
Open Scope N_scope.

Lemma micro_gids c me A S o :
  micro c me A S = Some o ->
  (g_ids (o_s o) = g_ids S /\ nser (o_s o) = nser S) \/
  (exists v, g_ids (o_s o) = put (g_ids S) (nser S) v /\ nser (o_s o) = nser S + 1).
Proof.
  intros H. destruct A as [role alive multi sid tok pc stack R notified parked].
  destruct pc; micro_cases H; cbn [o_s]; unfold deliver; cbn;
    first [ solve [left; split; reflexivity]
          | solve [right; eexists; split; reflexivity]
          | destruct (r_val R); cbn; first [ solve [left; split; reflexivity] | solve [right; eexists; split; reflexivity] ] ].
Qed.
