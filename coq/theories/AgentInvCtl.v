(* Per-agent invariants whose preservation needs the control invariant. *)
From Coq Require Import NArith List Bool Lia.
Require Import MQ.Arith64 MQ.Types MQ.State MQ.Model MQ.Exec MQ.Reach MQ.Ctl MQ.AgentInv.
Import ListNotations.
Open Scope N_scope.

Section AgentInvCtl.
Variable c : cfg.
Variable Q : agent -> bool.
Hypothesis Qnotify : forall A b, Q (set_a_notified b A) = Q A.
Hypothesis Qentry : forall A cl pc,
  ctl_ok A = true -> Q A = true -> a_pc A = Idle -> a_alive A = true -> entry c (a_role A) cl = Some pc ->
  Q (at_pc pc (withr (set_r_res RNoRes (set_r_call cl (a_r A))) (set_a_notified false A))) = true.
Hypothesis Qmicro : forall me A S o,
  micro c me A S = Some o -> ctl_ok A = true -> Q A = true ->
  Q (o_a o) = true /\ (forall a' A', o_new o = Some (a', A') -> Q A' = true).
Hypothesis Qspur : forall A S o,
  micro_spur c A S = Some o -> ctl_ok A = true -> Q A = true -> Q (o_a o) = true.
Hypothesis Qinit : forall fut a A, get (ags (init fut)) a = Some A -> Q A = true.

Definition CQ (A : agent) : bool := ctl_ok A && Q A.

Lemma cq_notify : forall B b, CQ (set_a_notified b B) = CQ B.
Proof. intros B b. unfold CQ. now rewrite ctl_notified, Qnotify. Qed.

Lemma cq_entry : forall B cl pc,
  CQ B = true -> a_pc B = Idle -> a_alive B = true -> entry c (a_role B) cl = Some pc ->
  CQ (at_pc pc (withr (set_r_res RNoRes (set_r_call cl (a_r B))) (set_a_notified false B))) = true.
Proof.
  intros B cl pc H Hpc Hal He. unfold CQ in *. apply andb_prop in H as [H1 H2].
  now rewrite (entry_ctl c B cl pc H1 Hpc Hal He), (Qentry B cl pc H1 H2 Hpc Hal He).
Qed.

Lemma cq_micro : forall me B S o,
  micro c me B S = Some o -> CQ B = true ->
  CQ (o_a o) = true /\ (forall a' A', o_new o = Some (a', A') -> CQ A' = true).
Proof.
  intros me B S o H HB. unfold CQ in HB. apply andb_prop in HB as [H1 H2].
  destruct (micro_ctl _ _ _ _ _ H H1) as [C1 C2].
  destruct (Qmicro _ _ _ _ H H1 H2) as [Q1 Q2].
  split; [unfold CQ; now rewrite C1, Q1|].
  intros a' A' X. unfold CQ. now rewrite (C2 _ _ X), (Q2 _ _ X).
Qed.

Lemma cq_spur : forall B S o,
  micro_spur c B S = Some o -> CQ B = true -> CQ (o_a o) = true /\ o_new o = None.
Proof.
  intros B S o H HB. unfold CQ in HB. apply andb_prop in HB as [H1 H2].
  destruct (spur_ctl _ _ _ _ H H1) as [C1 N0].
  split; [|exact N0]. unfold CQ. now rewrite C1, (Qspur _ _ _ H H1 H2).
Qed.

Lemma cq_init : forall f b B, get (ags (init f)) b = Some B -> CQ B = true.
Proof.
  intros f b B EB. unfold CQ. rewrite (Qinit f b B EB), andb_true_r.
  cbn in EB. unfold get in EB. cbn in EB.
  destruct (N.eqb b 0); [injection EB as <-; destruct f; reflexivity|].
  destruct (N.eqb b 1); [injection EB as <-; destruct f; reflexivity|discriminate].
Qed.

Theorem agents_minv_ctl fut s :
  mreach c fut s -> forall a A, get (ags s) a = Some A -> Q A = true.
Proof.
  intros R a A EA.
  pose proof (agents_minv c CQ cq_notify cq_entry cq_micro cq_spur cq_init fut s R a A EA) as G.
  unfold CQ in G. now apply andb_prop in G as [_ G].
Qed.
End AgentInvCtl.
