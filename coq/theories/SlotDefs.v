(* The slot invariant (C01/C04): definitions.  A claimed position that is not yet published is "in
   progress"; a slot whose tag is a position holds that position's value unless a writer in progress
   has just overwritten the cell and is about to publish; a consumer that has read a cell while its
   stream's cursor still is its attempt position holds the value the claim log has at that position. *)
From Coq Require Import NArith List Bool Lia.
Require Import MQ.Arith64 MQ.Arith64Facts MQ.Types MQ.State MQ.Model MQ.Exec MQ.Reach MQ.Ctl MQ.RecvDefs MQ.InvReg MQ.WinStep MQ.WinDefs.
Import ListNotations.
Open Scope N_scope.

(* claimed, not yet published *)
Definition wip (pc : pcl) : bool := match pc with P6 | P7 => true | _ => false end.

(* between reading the cell and committing *)
Definition rdphase (pc : pcl) : bool := match pc with KC | R11 | R12 | VK | V4 => true | _ => false end.

(* the register that holds what was read from the cell *)
Definition valof (c : cfg) (A : agent) : option N :=
  match a_pc A with
  | R12 => if is_bcast c then Some (r_tmp (a_r A)) else r_val (a_r A)
  | V4 => r_val (a_r A)
  | _ => Some (r_tmp (a_r A))
  end.

Definition logat (S : shared) (p : N) : option N := nth_error (g_log S) (N.to_nat p).

(* the scan distance has a witness: a stream it has looked at, or the whole ring (no stream registered) *)
Definition W2 (c : cfg) (S : shared) (R : regs) : Prop :=
  (exists g, r_h R <= gpos S g + r_md R) \/ c_n c <= r_md R.

Definition wita (c : cfg) (S : shared) (A : agent) : Prop :=
  match a_pc A with
  | G2 => r_none (a_r A) = false -> W2 c S (a_r A) \/ r_gl (a_r A) <> []
  | G3 | P3pre | M3pre | P3 | M3 => r_none (a_r A) = false -> W2 c S (a_r A)
  | _ => True
  end.
