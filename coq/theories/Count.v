(* Counting agents that satisfy a predicate in the agent map, and how the count moves under
   the updates a micro-step makes (replace the stepping agent, add a fresh one, notify some). *)
From Coq Require Import NArith List Bool Lia.
Require Import MQ.Arith64 MQ.Types MQ.State MQ.Model MQ.Exec MQ.Reach.
Import ListNotations.
Open Scope N_scope.

Definition b2n (b : bool) : N := if b then 1 else 0.

Fixpoint cnt (f : N -> agent -> bool) (m : fmap agent) : N :=
  match m with
  | [] => 0
  | (k, A) :: m' => b2n (f k A) + cnt f m'
  end.

Fixpoint keys_nodup {A} (m : fmap A) : Prop :=
  match m with
  | [] => True
  | (k, _) :: m' => get m' k = None /\ keys_nodup m'
  end.

Lemma get_cons {A} k v (m : fmap A) k' :
  get ((k, v) :: m) k' = if N.eqb k' k then Some v else get m k'.
Proof. reflexivity. Qed.

Lemma put_cons {A} k v (m : fmap A) k' v' :
  put ((k, v) :: m) k' v' = if N.eqb k' k then (k', v') :: m else (k, v) :: put m k' v'.
Proof. reflexivity. Qed.

Lemma cnt_put_in f m : forall a A A',
  keys_nodup m -> get m a = Some A ->
  cnt f (put m a A') + b2n (f a A) = cnt f m + b2n (f a A').
Proof.
  induction m as [|[k B] m IH]; intros a A A' ND G.
  - discriminate G.
  - rewrite get_cons in G. rewrite put_cons. destruct ND as [N1 N2].
    destruct (N.eqb a k) eqn:E.
    + apply N.eqb_eq in E. subst k. injection G as <-. cbn [cnt]. lia.
    + cbn [cnt]. specialize (IH a A A' N2 G). lia.
Qed.

Lemma cnt_put_new f m : forall a A',
  get m a = None -> cnt f (put m a A') = cnt f m + b2n (f a A').
Proof.
  induction m as [|[k B] m IH]; intros a A' G.
  - change (put (@nil (N * agent)) a A') with [(a, A')]. cbn [cnt]. lia.
  - rewrite get_cons in G. rewrite put_cons. destruct (N.eqb a k) eqn:E; [discriminate|].
    cbn [cnt]. rewrite IH by assumption. lia.
Qed.

Lemma keys_nodup_put {A} (m : fmap A) a v : keys_nodup m -> keys_nodup (put m a v).
Proof.
  induction m as [|[k B] m IH]; intros ND.
  - change (put (@nil (N * A)) a v) with [(a, v)]. cbn. auto.
  - rewrite put_cons. destruct ND as [N1 N2]. destruct (N.eqb a k) eqn:E.
    + apply N.eqb_eq in E. subst k. cbn. auto.
    + cbn. split; [|auto]. rewrite get_put. rewrite N.eqb_sym, E. exact N1.
Qed.

Lemma notify_all_cons_step a l (m : fmap agent) :
  notify_all (a :: l) m =
  notify_all l (match get m a with Some A => put m a (set_a_notified true A) | None => m end).
Proof. reflexivity. Qed.

Lemma keys_nodup_notify l : forall (m : fmap agent), keys_nodup m -> keys_nodup (notify_all l m).
Proof.
  induction l as [|a l IH]; intros m ND; [exact ND|].
  rewrite notify_all_cons_step. apply IH. destruct (get m a); [apply keys_nodup_put|]; exact ND.
Qed.

Lemma cnt_notify f l : (forall k A, f k (set_a_notified true A) = f k A) ->
  forall m, keys_nodup m -> cnt f (notify_all l m) = cnt f m.
Proof.
  intros Hf. induction l as [|a l IH]; intros m ND; [reflexivity|].
  rewrite notify_all_cons_step. destruct (get m a) as [A|] eqn:E.
  - rewrite IH by (apply keys_nodup_put; exact ND).
    pose proof (cnt_put_in f m a A (set_a_notified true A) ND E) as X. rewrite Hf in X. lia.
  - apply IH. exact ND.
Qed.

Lemma cnt_get_pos f m : forall a A, get m a = Some A -> f a A = true -> 1 <= cnt f m.
Proof.
  induction m as [|[k B] m IH]; intros a A G F; [discriminate|].
  rewrite get_cons in G. cbn [cnt]. destruct (N.eqb a k) eqn:E.
  - apply N.eqb_eq in E. subst. injection G as <-. rewrite F. cbn. lia.
  - specialize (IH a A G F). lia.
Qed.

Lemma cnt_two f m : forall a A b B,
  keys_nodup m -> a <> b -> get m a = Some A -> get m b = Some B ->
  f a A = true -> f b B = true -> 2 <= cnt f m.
Proof.
  induction m as [|[k C] m IH]; intros a A b B ND Hab GA GB FA FB; [discriminate|].
  rewrite get_cons in GA, GB. cbn [cnt]. destruct ND as [N1 N2].
  destruct (N.eqb a k) eqn:E1; destruct (N.eqb b k) eqn:E2.
  - apply N.eqb_eq in E1, E2. congruence.
  - apply N.eqb_eq in E1. subst. injection GA as <-. rewrite FA.
    pose proof (cnt_get_pos f m b B GB FB). cbn. lia.
  - apply N.eqb_eq in E2. subst. injection GB as <-. rewrite FB.
    pose proof (cnt_get_pos f m a A GA FA). cbn. lia.
  - specialize (IH a A b B N2 Hab GA GB FA FB). lia.
Qed.

(* the key set of the agent map under one micro-step *)
Lemma apply1_keys s a o A :
  keys_nodup (ags s) -> get (ags s) a = Some A -> keys_nodup (ags (apply1 s a o)).
Proof.
  intros ND G. unfold apply1. cbn [ags]. apply keys_nodup_notify.
  destruct (o_new o) as [[a' A']|]; repeat apply keys_nodup_put; exact ND.
Qed.

(* the count after one micro-step, in terms of the stepping agent and the new one *)
Lemma apply1_cnt f s a o A :
  (forall k B, f k (set_a_notified true B) = f k B) ->
  keys_nodup (ags s) -> get (ags s) a = Some A -> new_ok s a o = true ->
  cnt f (ags (apply1 s a o)) + b2n (f a A) =
  cnt f (ags s) + b2n (f a (o_a o)) +
  match o_new o with Some (a', A') => b2n (f a' A') | None => 0 end.
Proof.
  intros Hf ND G NO. unfold apply1. cbn [ags].
  assert (ND1 : keys_nodup (put (ags s) a (o_a o))) by (apply keys_nodup_put; exact ND).
  pose proof (cnt_put_in f (ags s) a A (o_a o) ND G) as X.
  unfold new_ok in NO. destruct (o_new o) as [[a' A']|].
  - apply andb_prop in NO as [N1 N2]. apply negb_true_iff, N.eqb_neq in N1.
    destruct (get (ags s) a') eqn:E; [discriminate|].
    rewrite cnt_notify by (auto; apply keys_nodup_put; exact ND1).
    rewrite cnt_put_new by (rewrite get_put_other; auto). lia.
  - rewrite cnt_notify by auto. lia.
Qed.

Lemma init_keys fut : keys_nodup (ags (init fut)).
Proof. cbn. repeat split. Qed.
