(* Case analysis part of InvHead.v: the single-writer path of try_send. *)
From Coq Require Import NArith List Bool Lia.
Require Import MQ.Arith64 MQ.Arith64Facts MQ.Types MQ.State MQ.Model MQ.Exec MQ.Reach MQ.Ctl MQ.Count MQ.AgentInv MQ.WritersStep.
Import ListNotations.
Open Scope N_scope.

(* inside try_send_single after the load of head, up to and including the store to head *)
Definition pp_pc (pc : pcl) (st : list pcl) : bool :=
  match pc with
  | P2 | P3pre | P3 | P4pre | P4 | P5 => true
  | G1 | G2 | G3 => match st with P3pre :: _ => true | _ => false end
  | _ => false
  end.

Definition u1_ok (A : agent) : bool :=
  negb (pp_pc (a_pc A) (a_stack A) || match a_pc A with P1 => true | _ => false end) || negb (a_multi A).

Lemma micro_u1 c me A S o :
  micro c me A S = Some o -> ctl_ok A = true -> u1_ok A = true ->
  u1_ok (o_a o) = true /\ (forall a' A', o_new o = Some (a', A') -> u1_ok A' = true).
Proof.
  intros H Q U. destruct A as [role alive multi sid tok pc stack R notified parked].
  unfold u1_ok in *. cbn in U.
  destruct pc; micro_cases H; cbn [o_a o_new];
    (split; [|let an := fresh "an" in let An := fresh "An" in let X := fresh "X" in
              intros an An X; try discriminate X; injection X as <- <-; reflexivity]);
    pre_case Q Q1 Q2 Q3; cbn in U |- *;
    first [ reflexivity | exact U
          | destruct multi; cbn in U |- *; first [reflexivity | discriminate U | exact U]
          | try split_frame Q1 Q2; cbn in U |- *;
            first [ reflexivity | exact U
                  | destruct multi; cbn in U |- *; first [reflexivity | discriminate U | exact U] ] ].
Qed.

Lemma micro_pp c me A S o :
  micro c me A S = Some o -> ctl_ok A = true -> pp_pc (a_pc (o_a o)) (a_stack (o_a o)) = true ->
  (a_pc A = P1 /\ r_h (a_r (o_a o)) = head S /\ head (o_s o) = head S) \/
  (pp_pc (a_pc A) (a_stack A) = true /\ r_h (a_r (o_a o)) = r_h (a_r A) /\ head (o_s o) = head S).
Proof.
  intros H Q. destruct A as [role alive multi sid tok pc stack R notified parked].
  destruct pc; micro_cases H; cbn [o_a o_s];
    pre_case Q Q1 Q2 Q3;
    first [ discriminate
          | intros _; left; repeat split; reflexivity
          | intros X; right; repeat split; first [reflexivity | exact X]
          | try split_frame Q1 Q2;
            first [ discriminate
                  | intros X; right; repeat split; first [reflexivity | exact X] ] ].
Qed.

(* an agent inside the body of try_send (or in the scan it calls) is a counted sender *)
Definition in_send_body (A : agent) : bool :=
  match fn_of (a_pc A) with
  | FTS => true
  | FG => true
  | _ => false
  end.

Lemma send_body_cs a A : ctl_ok A = true -> in_send_body A = true -> cs a A = true.
Proof.
  intros Q B. destruct A as [role alive multi sid tok pc stack R notified parked].
  unfold ctl_ok in Q. unfold in_send_body in B. unfold cs. cbn in Q, B |- *.
  apply andb_prop in Q as [Q Q3]. apply andb_prop in Q as [Q1 Q2].
  destruct (fn_of pc) eqn:EF; try discriminate B;
    (destruct stack as [|k st]; cbn in Q1; [discriminate Q1|]);
    apply andb_prop in Q1 as [K Q1];
    destruct k; cbn in K; try discriminate K; cbn in Q1, Q2;
    try (destruct st as [|k2 st]; cbn in Q1, Q2; try discriminate Q1;
         try (apply andb_prop in Q1 as [K2 Q1]; destruct k2; cbn in K2; try discriminate K2; cbn in Q1, Q2;
              destruct st; cbn in Q1, Q2; try discriminate Q1));
    destruct (r_call R); cbn in Q2; try discriminate Q2;
    destruct role; cbn in Q2 |- *; try discriminate Q2;
    destruct pc; cbn in EF, Q3 |- *; try discriminate EF;
    apply eqb_prop in Q3; subst alive; reflexivity.
Qed.
