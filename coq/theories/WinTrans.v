(* The window invariant: what each step of try_send establishes for the stepping sender
   (one lemma per program counter it steps from), and what it does to the shared words the
   invariant reads. *)
From Coq Require Import NArith List Bool Lia.
Require Import MQ.Arith64 MQ.Arith64Facts MQ.Types MQ.State MQ.Model MQ.Exec MQ.Reach MQ.Ctl MQ.RecvDefs MQ.InvReg MQ.WinStep MQ.WinDefs.
Import ListNotations.
Open Scope N_scope.

(* the shared words the invariant reads are untouched *)
Definition win_eq (S S' : shared) : Prop :=
  head S' = head S /\ tailc S' = tailc S /\ pos S' = pos S /\ cur S' = cur S /\ ngid S' = ngid S /\
  groups S' = groups S /\ tags S' = tags S.

Lemma win_eq_refl S : win_eq S S.
Proof. repeat split. Qed.

Section T.
Variable c : cfg.
Notation N := (c_n c).
Hypothesis Npos : 0 < N.
Hypothesis Nsmall : N <= B61.

Ltac ltb_hyps :=
  repeat match goal with
  | H : (_ <? _) = true |- _ => apply N.ltb_lt in H
  | H : (_ <? _) = false |- _ => apply N.ltb_ge in H
  | H : (_ <=? _) = true |- _ => apply N.leb_le in H
  | H : (_ <=? _) = false |- _ => apply N.leb_gt in H
  end.

Ltac one_pc H E :=
  match type of H with micro _ _ ?A _ = _ =>
    destruct A as [role alive multi sid tok pc stack R notified parked]; cbn in E; subst pc; micro_cases H; unfold n in * end.

Lemma t_P1 me A S o : micro c me A S = Some o -> a_pc A = P1 -> WinG c S ->
  sa c (o_a o) (o_s o) /\ win_eq S (o_s o) /\ a_pc (o_a o) = P2.
Proof.
  intros H E G. one_pc H E. cbn. unfold A0, Hb. cbn. destruct G. repeat split; lia.
Qed.

Lemma t_M1 me A S o : micro c me A S = Some o -> a_pc A = M1 -> WinG c S ->
  sa c (o_a o) (o_s o) /\ win_eq S (o_s o) /\ a_pc (o_a o) = M2.
Proof.
  intros H E G. one_pc H E. cbn. unfold A0, Hb. cbn. destruct G. repeat split; lia.
Qed.

Lemma t_P2 me A S o : micro c me A S = Some o -> a_pc A = P2 -> WinG c S -> sa c A S ->
  sa c (o_a o) (o_s o) /\ win_eq S (o_s o) /\
  ((a_pc (o_a o) = G1 /\ a_stack (o_a o) = P3pre :: a_stack A /\ r_tc (a_r (o_a o)) = tailc S) \/ a_pc (o_a o) = P4pre).
Proof.
  intros H E G SA. one_pc H E; cbn in SA |- *; unfold A0, Hb, ScanCtx, PASS in *; cbn in *; destruct G, SA as [S0 S1].
  - apply -> matches_previous_spec in Heqb; try lia. repeat split; auto; lia.
  - assert (r_h R <> tailc S + N).
    { intro X. apply (matches_previous_spec (r_h R) N (tailc S)) in X; try lia. congruence. }
    repeat split; auto; lia.
Qed.

Lemma t_M2 me A S o : micro c me A S = Some o -> a_pc A = M2 -> WinG c S -> sa c A S ->
  sa c (o_a o) (o_s o) /\ win_eq S (o_s o) /\
  ((a_pc (o_a o) = G1 /\ a_stack (o_a o) = M3pre :: a_stack A) \/ a_pc (o_a o) = M4pre).
Proof.
  intros H E G SA. one_pc H E; cbn in SA |- *; unfold A0, Hb, ScanCtx, PASS in *; cbn in *; destruct G, SA as [S0 S1].
  - apply -> matches_previous_spec in Heqb; try lia. repeat split; auto; lia.
  - assert (r_h R <> tailc S + N).
    { intro X. apply (matches_previous_spec (r_h R) N (tailc S)) in X; try lia. congruence. }
    repeat split; auto; lia.
Qed.

Lemma t_M5 me A S o : micro c me A S = Some o -> a_pc A = M5 -> WinG c S -> sa c A S ->
  (a_pc (o_a o) = M2 /\ sa c (o_a o) (o_s o) /\ win_eq S (o_s o)) \/
  (a_pc (o_a o) = P6 /\ head S = r_h (a_r A) /\ head (o_s o) = next_count (r_h (a_r A)) /\
   r_h (a_r (o_a o)) = r_h (a_r A) /\
   tailc (o_s o) = tailc S /\ pos (o_s o) = pos S /\ cur (o_s o) = cur S /\ ngid (o_s o) = ngid S /\
   groups (o_s o) = groups S /\ tags (o_s o) = tags S).
Proof.
  intros H E G SA. one_pc H E; cbn in SA |- *; eqb_hyps.
  - right. repeat split; auto.
  - left. unfold A0, Hb in *. cbn. destruct G. repeat split; auto; lia.
Qed.

(* ---- the scan of the stream list ---- *)
Lemma t_G1 me A S o : micro c me A S = Some o -> a_pc A = G1 -> WinG c S -> sa c A S -> cur S < ngid S ->
  sa c (o_a o) (o_s o) /\ win_eq S (o_s o) /\ (a_pc (o_a o) = G2 \/ a_pc (o_a o) = G3) /\
  a_stack (o_a o) = a_stack A /\ r_tc (a_r (o_a o)) = r_tc (a_r A).
Proof.
  intros H E G SA CN. one_pc H E; cbn in SA |- *;
    unfold A0, Hb, ScanCtx, CondProg in *; cbn in *; destruct SA as (S0 & S1 & S2 & S3);
    (repeat split; auto; try lia; try discriminate).
  all: try (intros _; exists []; cbn; unfold ggroup in *; rewrite ?Heql; repeat split; auto; try lia; intros _ sg [];
            fail).
  all: try (intros _; exists []; cbn; unfold ggroup in *; rewrite ?Heql; repeat split; auto; lia).
Qed.

Lemma g2_core S g s h d :
  WinG c S -> cur S = g -> In s (ggroup S g) -> h <= head S -> h <= tailc S + N ->
  past h (gpos S s) = (d, false) -> d = h - gpos S s /\ gpos S s <= h /\ d <= N.
Proof.
  intros G EC IN H0 H1 HP.
  assert (INS : In s (streams S)) by (unfold streams; now rewrite EC).
  pose proof (w_cursor_le_head c S G s INS). pose proof (w_tail_le_cursor c S G s INS).
  pose proof (w_head_small c S G).
  rewrite past_spec in HP by lia.
  destruct (gpos S s <=? h) eqn:E; [|discriminate HP].
  apply N.leb_le in E. injection HP as <-. lia.
Qed.

Lemma t_G2 me A Sh o : micro c me A Sh = Some o -> a_pc A = G2 -> WinG c Sh -> sa c A Sh ->
  sa c (o_a o) (o_s o) /\ win_eq Sh (o_s o) /\ (a_pc (o_a o) = G2 \/ a_pc (o_a o) = G3) /\
  a_stack (o_a o) = a_stack A /\ r_tc (a_r (o_a o)) = r_tc (a_r A).
Proof.
  intros H E G SA. one_pc H E; cbn in SA |- *;
    unfold A0, Hb, ScanCtx, CondProg in *; cbn in *; destruct SA as (S0 & S1 & (S2a & S2b) & (C1 & C2 & C3));
    (split; [|repeat split; auto]).
  all: repeat split; auto; try discriminate.
  all: try (match goal with |- _ = false -> _ = [] => intros X; first [discriminate X | reflexivity] end).
  all: match goal with |- cur _ = _ -> _ => intros EC; destruct (C3 EC) as (pre & EG & MD & AL) end.
  (* the branches that saw a cursor ahead of the loaded head: nothing to show about distances *)
  all: try (exists pre; try rewrite <- Heql; repeat split; auto; intros X; discriminate X).
  (* the other branches: one more stream scanned *)
  all: repeat (match goal with
               | |- context [ggroup (set_g_bad ?x ?S0) ?g] => change (ggroup (set_g_bad x S0) g) with (ggroup S0 g)
               | |- context [gpos (set_g_bad ?x ?S0) ?g] => change (gpos (set_g_bad x S0) g) with (gpos S0 g)
               end).
  all: match goal with HP : past _ (gpos _ ?s) = (?d, false) |- _ =>
         assert (INs : In s (ggroup Sh (r_g R))) by (rewrite EG, Heql; apply in_or_app; right; left; reflexivity) end.
  all: match goal with HP : past _ (gpos _ ?s) = (?d, false) |- _ =>
         destruct (g2_core Sh (r_g R) s (r_h R) d G EC INs S0 S1 HP) as (ED & LE & DN) end.
  all: match goal with HP : past _ (gpos _ ?s) = (?d, false) |- _ => exists (pre ++ [s]) end.
  all: split; [rewrite <- app_assoc; cbn [app]; rewrite EG, Heql; reflexivity|].
  all: split; [eqb_hyps; ltb_hyps; lia|].
  all: intros NF sg IN; apply in_app_or in IN as [IN|[<-|[]]].
  all: repeat (match goal with |- context [gpos (set_g_bad ?x ?S0) ?g] => change (gpos (set_g_bad x S0) g) with (gpos S0 g) end).
  all: try (specialize (AL NF sg IN)); eqb_hyps; ltb_hyps; lia.
Qed.

Lemma t_G3 me A Sh o : micro c me A Sh = Some o -> a_pc A = G3 -> WinG c Sh -> sa c A Sh ->
  win_eq Sh (o_s o) /\ r_tc (a_r (o_a o)) = r_tc (a_r A) /\
  ((a_pc (o_a o) = G1 /\ a_stack (o_a o) = a_stack A /\ sa c (o_a o) (o_s o)) \/
   (cur Sh = r_g (a_r A) /\ a_r (o_a o) = a_r A /\
    exists k st, a_stack A = k :: st /\ a_pc (o_a o) = k /\ a_stack (o_a o) = st /\
      A0 Sh (a_r A) /\ Hb c Sh (a_r A) /\ ScanCtx c Sh (a_r A) /\ Post c Sh (a_r A)) \/
   (a_stack A = [] /\ a_pc (o_a o) = Idle)).
Proof.
  intros H E G SA. one_pc H E; cbn in SA |- *; eqb_hyps; unfold popret; cbn;
    destruct SA as (S0 & S1 & (S2a & S2b) & (C1 & C2 & C3) & C4).
  - (* the list is still the current one *)
    split; [repeat split; reflexivity|]. split; [destruct stack; reflexivity|].
    destruct stack as [|k st]; [right; right; split; reflexivity|].
    right. left. cbn. split; [exact Heqb|]. split; [reflexivity|].
    exists k, st. split; [reflexivity|]. split; [reflexivity|]. split; [reflexivity|].
    split; [exact S0|]. split; [exact S1|]. split; [split; assumption|].
    intros NF. destruct (C3 Heqb) as (pre & EG & MD & AL). split; [exact MD|].
    intros sg IN. unfold streams in IN. rewrite Heqb, EG, (C4 NF), app_nil_r in IN. apply (AL NF sg IN).
  - split; [repeat split; reflexivity|]. split; [reflexivity|]. left. cbn.
    split; [reflexivity|]. split; [reflexivity|]. split; [exact S0|]. split; [exact S1|]. split; assumption.
Qed.

Lemma t_P3pre me A Sh o : micro c me A Sh = Some o -> a_pc A = P3pre -> WinG c Sh -> sa c A Sh ->
  win_eq Sh (o_s o) /\ r_tc (a_r (o_a o)) = r_tc (a_r A) /\ a_stack (o_a o) = (if r_none (a_r A) then [] else a_stack A) /\
  ((a_pc (o_a o) = P3 /\ sa c (o_a o) (o_s o)) \/ a_pc (o_a o) = FIN).
Proof.
  intros H E G SA. one_pc H E; cbn in SA |- *; destruct SA as (S0 & S1 & (S2a & S2b) & S3); rewrite ?Heqb.
  - split; [repeat split; reflexivity|]. split; [reflexivity|]. split; [reflexivity|]. right; reflexivity.
  - unfold A0, Hb, ScanCtx, Post in *; cbn in *.
    split; [repeat split; reflexivity|]. split; [reflexivity|]. split; [reflexivity|]. left. split; [reflexivity|].
    destruct (S3 Heqb) as (MD & AL).
    repeat split; auto.
    rewrite get_previous_spec; [reflexivity|lia|].
    pose proof (w_head_small c Sh G). unfold B62, W in *. lia.
Qed.

Lemma t_M3pre me A Sh o : micro c me A Sh = Some o -> a_pc A = M3pre -> WinG c Sh -> sa c A Sh ->
  win_eq Sh (o_s o) /\ sa c (o_a o) (o_s o) /\
  (a_pc (o_a o) = M3 \/ a_pc (o_a o) = M3b \/ a_pc (o_a o) = M3post).
Proof.
  intros H E G SA. one_pc H E; cbn in SA |- *; destruct SA as (S0 & S1 & (S2a & S2b) & S3);
    unfold A0, Hb, ScanCtx, Post, FT in *; cbn in *; eqb_hyps.
  - repeat split; auto.
  - destruct (S3 Heqb) as (MD & _).
    assert (EP : get_previous (r_h R) (r_md R) = r_h R - r_md R).
    { rewrite get_previous_spec; [reflexivity|lia|]. pose proof (w_head_small c Sh G). unfold B62, W in *. lia. }
    rewrite EP in *. repeat split; auto; lia.
  - destruct (S3 Heqb) as (MD & AL).
    assert (EP : get_previous (r_h R) (r_md R) = r_h R - r_md R).
    { rewrite get_previous_spec; [reflexivity|lia|]. pose proof (w_head_small c Sh G). unfold B62, W in *. lia. }
    repeat split; auto.
Qed.

Lemma t_M3b me A Sh o : micro c me A Sh = Some o -> a_pc A = M3b -> WinG c Sh -> sa c A Sh ->
  win_eq Sh (o_s o) /\ sa c (o_a o) (o_s o) /\ a_pc (o_a o) = M3post.
Proof.
  intros H E G SA. one_pc H E; cbn in SA |- *; destruct SA as (S0 & S1).
  unfold A0, Hb, FT in *; cbn in *. repeat split; auto; lia.
Qed.

Lemma t_M3post me A Sh o : micro c me A Sh = Some o -> a_pc A = M3post -> WinG c Sh -> sa c A Sh ->
  win_eq Sh (o_s o) /\ sa c (o_a o) (o_s o) /\ (a_pc (o_a o) = M4pre \/ a_pc (o_a o) = TSdone).
Proof.
  intros H E G SA. one_pc H E; cbn in SA |- *; destruct SA as (S0 & (F1 & F2)).
  - repeat split; auto.
  - unfold A0, PASS in *; cbn in *. repeat split; auto.
    pose proof (w_head_small c Sh G). pose proof (w_tail_le_head c Sh G).
    assert (r_h R <> r_nt R + N).
    { intro X. apply (matches_previous_spec (r_h R) N (r_nt R)) in X; try lia. congruence. }
    lia.
Qed.

(* steps that only move on *)
Lemma t_pass me A Sh o : micro c me A Sh = Some o ->
  (a_pc A = P4pre \/ a_pc A = P4 \/ a_pc A = M4pre \/ a_pc A = M4) -> sa c A Sh ->
  win_eq Sh (o_s o) /\ r_h (a_r (o_a o)) = r_h (a_r A) /\
  (spred (a_pc A) (a_pc (o_a o)) = true -> sa c (o_a o) (o_s o)).
Proof.
  intros H E SA. destruct A as [role alive multi sid tok pc stack R notified parked]. cbn in E.
  destruct E as [-> | [-> | [-> | ->]]]; micro_cases H; unfold n in *; cbn in SA |- *;
    unfold popret; cbn; try (destruct stack as [|k st]; cbn);
    (split; [repeat split; reflexivity|]); (split; [reflexivity|]);
    intros PR; try discriminate PR; try exact SA;
    try (destruct k; cbn in PR; try discriminate PR; exact SA).
Qed.

Lemma t_P6 me A Sh o : micro c me A Sh = Some o -> a_pc A = P6 -> sa c A Sh ->
  head (o_s o) = head Sh /\ tailc (o_s o) = tailc Sh /\ pos (o_s o) = pos Sh /\ cur (o_s o) = cur Sh /\
  ngid (o_s o) = ngid Sh /\ groups (o_s o) = groups Sh /\ tags (o_s o) = tags Sh /\
  sa c (o_a o) (o_s o) /\ a_pc (o_a o) = P7.
Proof.
  intros H E SA. one_pc H E; cbn in SA |- *; repeat split; auto.
Qed.

Definition tail_only (Sh Sh' : shared) : Prop :=
  head Sh' = head Sh /\ pos Sh' = pos Sh /\ cur Sh' = cur Sh /\ ngid Sh' = ngid Sh /\
  groups Sh' = groups Sh /\ tags Sh' = tags Sh.

Lemma t_P3 me A Sh o : micro c me A Sh = Some o -> a_pc A = P3 -> ctl_ok A = true -> WinG c Sh -> sa c A Sh ->
  tail_only Sh (o_s o) /\ tailc (o_s o) = r_nt (a_r A) /\ r_h (a_r (o_a o)) = r_h (a_r A) /\
  (sphase (a_pc (o_a o)) = true -> sa c (o_a o) (o_s o)).
Proof.
  intros H E Q G SA. one_pc H E; cbn in SA |- *; destruct SA as (S0 & S1 & (S2a & S2b) & S3 & NF & ENT);
    unfold popret; cbn; unfold ctl_ok in Q; cbn in Q;
    try (destruct stack as [|k st]; cbn in Q |- *; [discriminate Q|]);
    (split; [repeat split; reflexivity|]); (split; [reflexivity|]); (split; [reflexivity|]);
    intros PR; try discriminate PR.
  - exfalso. apply andb_prop in Q as [Q _]. apply andb_prop in Q as [Q _]. apply andb_prop in Q as [Q _].
    destruct k; cbn in Q, PR; try discriminate Q; discriminate PR.
  - unfold A0, PASS, Hb, Post in *. cbn in *. destruct (S3 NF) as (MD & _).
    pose proof (w_head_small c Sh G).
    assert (r_h R <> r_nt R + N).
    { intro X. apply (matches_previous_spec (r_h R) N (r_nt R)) in X; try lia. congruence. }
    split; [exact S0|]. lia.
Qed.

Lemma t_M3 me A Sh o : micro c me A Sh = Some o -> a_pc A = M3 -> WinG c Sh -> sa c A Sh ->
  tail_only Sh (o_s o) /\ r_h (a_r (o_a o)) = r_h (a_r A) /\ a_pc (o_a o) = M3post /\
  ((tailc Sh = r_tc (a_r A) /\ tailc (o_s o) = r_nt (a_r A)) \/ tailc (o_s o) = tailc Sh) /\
  (A0 (o_s o) (a_r (o_a o)) /\ FT c (o_s o) (a_r (o_a o))).
Proof.
  intros H E G SA. one_pc H E; cbn in SA |- *; destruct SA as (S0 & S1 & (S2a & S2b) & S3 & NF & ENT);
    eqb_hyps; destruct (S3 NF) as (MD & _); unfold A0, FT, Hb in *; cbn in *;
    (split; [repeat split; reflexivity|]); repeat split; auto; lia.
Qed.

Lemma t_P5 me A Sh o : micro c me A Sh = Some o -> a_pc A = P5 -> WinG c Sh -> sa c A Sh ->
  head (o_s o) = next_count (r_h (a_r A)) /\ r_h (a_r (o_a o)) = r_h (a_r A) /\ a_pc (o_a o) = P6 /\
  tailc (o_s o) = tailc Sh /\ pos (o_s o) = pos Sh /\ cur (o_s o) = cur Sh /\ ngid (o_s o) = ngid Sh /\
  groups (o_s o) = groups Sh /\ tags (o_s o) = tags Sh.
Proof.
  intros H E G SA. one_pc H E; cbn; repeat split; reflexivity.
Qed.
End T.
