(* Case analysis: a receive attempt that commits with a plain store keeps the position it loaded. *)
From Coq Require Import NArith List Bool Lia.
Require Import MQ.Arith64 MQ.Arith64Facts MQ.Types MQ.State MQ.Model MQ.Exec MQ.Reach MQ.Ctl MQ.Count MQ.WritersStep
  MQ.RecvDefs MQ.RecvStep MQ.SoleDefs.
Import ListNotations.
Open Scope N_scope.

(* after the cursor load of an attempt that behaves as the only consumer of its stream (single mode, or it found the
   consumer count at one before loading the cursor, or view) *)
Definition ap_phase (A : agent) : bool :=
  match a_pc A with
  | R3 | R1n | R2n => false
  | pc => (in_att pc && (r_am (a_r A) || r_single (a_r A))) || in_view pc
  end.

Lemma ap_notified A b : ap_phase (set_a_notified b A) = ap_phase A.
Proof. destruct A; reflexivity. Qed.

Lemma micro_ap c me A S o :
  micro c me A S = Some o -> ctl_ok A = true -> ap_phase (o_a o) = true ->
  a_sid (o_a o) = a_sid A /\ gpos (o_s o) (a_sid A) = gpos S (a_sid A) /\
  (ap_phase A = true \/ (a_pc A = R2 \/ a_pc A = R2n)) /\
  (forall a' A', o_new o = Some (a', A') -> ap_phase A' = false).
Proof.
  intros H Q. destruct A as [role alive multi sid tok pc stack R notified parked].
  unfold ap_phase, gpos.
  destruct pc; micro_cases H; cbn [o_a o_s o_new]; pre_case Q Q1 Q2 Q3; rewrite ?getd_put; cbn;
    first [ solve [intros X; discriminate X]
          | solve [intros X; repeat split; auto; intros ? ? Y; discriminate Y]
          | try split_frame Q1 Q2; cbn;
            first [ solve [intros X; discriminate X]
                  | solve [intros X; repeat split; auto; intros ? ? Y; discriminate Y]
                  | solve [intros X; repeat split; auto; try (intros ? ? Y; discriminate Y);
                           match goal with E : r_am _ = _ |- _ => rewrite E in X; cbn in X; first [discriminate X | left; exact X] end]
                  | solve [intros X; repeat split; auto; try (intros ? ? Y; discriminate Y); left;
                           destruct (r_am R), (r_single R); cbn in X |- *; first [reflexivity | discriminate X | exact X]] ] ].
Qed.
