(* Lost notifications of parked consumer tasks (C14): definitions. *)
From Coq Require Import NArith List Bool Lia.
Require Import MQ.Arith64 MQ.Types MQ.State MQ.Model MQ.Exec MQ.Reach MQ.Ctl MQ.RecvDefs MQ.NpDefs.
Import ListNotations.
Open Scope N_scope.

(* checking the wait condition while holding the lock of the consumers' park list, on the way to parking *)
Definition fchk (A : agent) : bool :=
  match a_pc A with
  | C1 | C2 => match a_stack A with FP2 :: _ => true | _ => false end
  | _ => false
  end.

(* holds the lock of the consumers' park list across steps *)
Definition fholder (A : agent) : bool :=
  fchk A || match a_pc A with FP2 => true | _ => false end.

(* owes a notification of the consumers' park list *)
Definition npf (A : agent) : bool :=
  match a_pc A with
  | NTF | FN1 | SD1 => true
  | TSdone | SSdone => is_ok (r_res (a_r A))
  | SD0 | SD2 | Done | Idle | FIN | N1 | N2 => false
  | _ => sender_drop A
  end.
