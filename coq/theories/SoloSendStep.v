(* Solo termination of the send body (C18): a ranking function that every own step of try_send decreases, from the
   choice of the path (single-writer / multi-writer) to the return; the scan of the stream list (get_max_diff) is
   included as the subroutine it is in the model. *)
From Coq Require Import NArith List Bool Lia.
Require Import MQ.Arith64 MQ.Arith64Facts MQ.Types MQ.State MQ.Model MQ.Exec MQ.Reach.
Import ListNotations.
Open Scope N_scope.

Definition is_scan (pc : pcl) : bool := match pc with G1 | G2 | G3 => true | _ => false end.

Definition in_send (A : agent) : bool :=
  match a_pc A with
  | TSmode | TS1 | P1 | P2 | P3pre | P3 | P4pre | P4 | P5 | P6 | P7
  | M1 | M2 | M3pre | M3 | M3b | M3post | M4pre | M4 | M5 => true
  | G1 | G2 | G3 => match a_stack A with M3pre :: _ | P3pre :: _ => true | _ => false end
  | _ => false
  end.

(* the stack below the send body *)
Definition base (A : agent) : list pcl := if is_scan (a_pc A) then tl (a_stack A) else a_stack A.

(* cost of a scan of the current stream list *)
Definition g1 (S : shared) : N := 2 * lenN (ggroup S (cur S)) + 3.
(* the loaded head is the head counter; the list being scanned is the current one *)
Definition hfresh (A : agent) (S : shared) : bool := r_h (a_r A) =? head S.
Definition gfresh (A : agent) (S : shared) : bool := r_g (a_r A) =? cur S.
Definition hpen (A : agent) (S : shared) : N := if hfresh A S then 0 else g1 S + 11.

Definition scan_rank (A : agent) (S : shared) : N :=
  match a_pc A with
  | G1 => g1 S
  | G2 => 2 * lenN (r_gl (a_r A)) + 1 + (if gfresh A S then 0 else g1 S + 1)
  | G3 => 1 + (if gfresh A S then 0 else g1 S)
  | _ => 0
  end.

Definition send_rank (A : agent) (S : shared) : N :=
  match a_pc A with
  | TSmode => g1 S + 13 | TS1 => g1 S + 12
  | P1 => g1 S + 11 | P2 => g1 S + 10 | P3pre => 8 | P3 => 7 | P4pre => 5 | P4 => 4 | P5 => 3
  | P6 => 2 | P7 => 1
  | M1 => g1 S + 11
  | M2 => g1 S + 10 + hpen A S | M3pre => 8 + hpen A S | M3 => 7 + hpen A S | M3b => 7 + hpen A S
  | M3post => 6 + hpen A S | M4pre => 5 + hpen A S | M4 => 4 + hpen A S | M5 => 3 + hpen A S
  | G1 | G2 | G3 =>
      scan_rank A S + 8 + match a_stack A with M3pre :: _ => hpen A S | _ => 0 end
  | _ => 0
  end.

Lemma lenN_cons {X} (x : X) l : lenN (x :: l) = lenN l + 1.
Proof. unfold lenN. cbn [length]. rewrite Nat2N.inj_succ. lia. Qed.

Ltac srank_fin :=
  unfold send_rank, scan_rank, hpen, hfresh, gfresh, g1, base, in_send, gmd_next, ggroup in *; cbn;
  repeat match goal with
  | |- context [if is_bcast ?c then _ else _] => destruct (is_bcast c)
  | |- context [if ?a =? ?b then _ else _] => destruct (N.eqb_spec a b)
  | |- context [match getd [] ?m ?k with _ => _ end] => destruct (getd [] m k) eqn:?
  end; cbn;
  repeat match goal with E : getd [] _ _ = _ |- _ => rewrite ?E; clear E | E : r_gl _ = _ |- _ => rewrite ?E; clear E end;
  rewrite ?lenN_cons; change (lenN (@nil N)) with 0;
  first [ solve [left; repeat split; try reflexivity; lia]
        | solve [right; left; reflexivity]
        | solve [right; right; split; reflexivity]
        | solve [exfalso; congruence]
        | solve [left; repeat split; try reflexivity; exfalso; congruence]
        | idtac ].

Lemma micro_send_rank c me A S o :
  micro c me A S = Some o -> in_send A = true ->
  (in_send (o_a o) = true /\ base (o_a o) = base A /\ send_rank (o_a o) (o_s o) < send_rank A S) \/
  in_send (o_a o) = false \/
  (a_pc (o_a o) = hd Idle (base A) /\ a_stack (o_a o) = tl (base A)).
Proof.
  intros H IA. destruct A as [role alive multi sid tok pc stack R notified parked]. unfold in_send in IA. cbn in IA.
  destruct pc; try discriminate IA;
    try (match type of IA with context [match _ with _ => _ end] =>
           destruct stack as [|k0 stack]; try discriminate IA; destruct k0; try discriminate IA end);
    micro_cases H; cbn [o_a o_s]; eqb_hyps;
    try (match goal with st : list pcl |- _ => is_var st; destruct st end); srank_fin.
Qed.

(* k consecutive own steps of an agent that stay inside the send body (nobody else runs in between) *)
Inductive solo_send (c : cfg) (me : N) : nat -> agent -> shared -> Prop :=
| ssolo_0 A Sh : solo_send c me 0 A Sh
| ssolo_S k A Sh o :
    micro c me A Sh = Some o -> in_send (o_a o) = true -> base (o_a o) = base A ->
    solo_send c me k (o_a o) (o_s o) -> solo_send c me (Datatypes.S k) A Sh.

Lemma tl_fix {X} (l : list X) : tl l = l -> l = [].
Proof. destruct l as [|x l]; [reflexivity|]. cbn. intros E. apply (f_equal (@length X)) in E. cbn in E. lia. Qed.
Lemma tl_tl_fix {X} (l : list X) : tl (tl l) = l -> l = [].
Proof.
  destruct l as [|x [|y l]]; [reflexivity| |]; cbn; intros E; [discriminate E|].
  apply (f_equal (@length X)) in E. cbn in E. lia.
Qed.

Theorem solo_send_bound c me k A S :
  solo_send c me k A S -> in_send A = true -> N.of_nat k <= send_rank A S.
Proof.
  intros H. induction H as [A S|k A S o M IA' ST H IH]; intros IA; [cbn; lia|].
  destruct (micro_send_rank c me A S o M IA) as [(_ & _ & LT) | [OUT | (PC & STK)]].
  - specialize (IH IA'). rewrite Nat2N.inj_succ. lia.
  - rewrite OUT in IA'. discriminate IA'.
  - exfalso. unfold base in ST at 1. rewrite STK in ST.
    assert (B0 : base A = []) by (destruct (is_scan (a_pc (o_a o))); [apply tl_tl_fix|apply tl_fix]; exact ST).
    rewrite B0 in PC. cbn in PC. unfold in_send in IA'. rewrite PC in IA'. discriminate IA'.
Qed.

(* from the choice of the path: at most 2 * (number of registered streams) + 16 own steps *)
Theorem solo_send_from_start c me k A S :
  solo_send c me k A S -> a_pc A = TSmode -> N.of_nat k <= 2 * lenN (ggroup S (cur S)) + 16.
Proof.
  intros H PC. assert (IA : in_send A = true) by (unfold in_send; rewrite PC; reflexivity).
  pose proof (solo_send_bound c me k A S H IA) as B. unfold send_rank, g1 in B. rewrite PC in B. lia.
Qed.
