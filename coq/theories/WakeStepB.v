(* Case analysis for C08: how an agent comes to hold the wait mutex, and what it keeps while it checks. *)
From Coq Require Import NArith List Bool Lia.
Require Import MQ.Arith64 MQ.Arith64Facts MQ.Types MQ.State MQ.Model MQ.Exec MQ.Reach MQ.Ctl MQ.Count MQ.WritersStep
  MQ.RecvDefs MQ.RecvStep MQ.WakeDefs.
Import ListNotations.
Open Scope N_scope.

Lemma micro_holder c me A S o :
  micro c me A S = Some o -> ctl_ok A = true -> holder (o_a o) = true ->
  (holder A = true /\ r_cnt (a_r (o_a o)) = r_cnt (a_r A) /\ r_slot (a_r (o_a o)) = r_slot (a_r A) /\ bw_lock (o_s o) = bw_lock S) \/
  a_pc A = B1 \/ a_pc A = N1.
Proof.
  intros H Q. destruct A as [role alive multi sid tok pc stack R notified parked]. unfold holder, bchk.
  destruct pc; micro_cases H; cbn [o_a o_s]; pre_case Q Q1 Q2 Q3; try split_frame Q1 Q2; cbn;
    first [ solve [intros X; discriminate X]
          | solve [intros X; left; split; [first [reflexivity|exact X]|split; [reflexivity|split; reflexivity]]]
          | solve [intros X; right; left; reflexivity]
          | solve [intros X; right; right; reflexivity] ].
Qed.
