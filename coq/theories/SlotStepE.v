(* Case analysis for the delivery theorems: a broadcast consumer about to commit holds the clone it made;
   where the start position of a stream is recorded. *)
From Coq Require Import NArith List Bool Lia.
Require Import MQ.Arith64 MQ.Arith64Facts MQ.Types MQ.State MQ.Model MQ.Exec MQ.Reach MQ.Ctl MQ.Count MQ.WritersStep
  MQ.RecvDefs MQ.RecvStep.
Import ListNotations.
Open Scope N_scope.

Definition rvs (c : cfg) (A : agent) : Prop :=
  is_bcast c = true -> (a_pc A = R11 \/ a_pc A = R12) -> r_val (a_r A) <> None.

Lemma micro_rvs c me A S o :
  micro c me A S = Some o -> ctl_ok A = true -> rvs c A -> rvs c (o_a o).
Proof.
  intros H Q W. destruct A as [role alive multi sid tok pc stack R notified parked]. unfold rvs in *.
  destruct pc; micro_cases H; cbn [o_a]; pre_case Q Q1 Q2 Q3; eqb_hyps;
    first [ solve [intros BC [X | X]; discriminate X]
          | solve [intros BC _; cbn; discriminate]
          | solve [intros BC _; cbn; apply W; [exact BC|first [left; reflexivity|right; reflexivity]]]
          | solve [intros BC; congruence]
          | try split_frame Q1 Q2;
            first [ solve [intros BC [X | X]; discriminate X]
                  | solve [intros BC; congruence] ] ].
Qed.
