(* Solo termination of the receive attempt (C18): a ranking function that every own step of the attempt decreases.
   The attempt is the common body of try_recv / recv / poll (R-chain) and of try_recv_view / recv_view (V-chain):
   from the read of "am I the only consumer" / the load of the cursor to the return to the caller. *)
From Coq Require Import NArith List Bool Lia.
Require Import MQ.Arith64 MQ.Arith64Facts MQ.Types MQ.State MQ.Model MQ.Exec MQ.Reach.
Import ListNotations.
Open Scope N_scope.

Definition in_att (pc : pcl) : bool :=
  match pc with
  | R1pre | R1 | R2 | R3 | R1n | R2n | R4 | R5 | R6 | R6b | R7 | R8 | R9 | R10 | KC | R11 | R12
  | V1 | V5 | V6 | VK | V4 => true
  | _ => false
  end.

(* the attempt position is the cursor of the stream *)
Definition fresh (A : agent) (S : shared) : bool := r_p (a_r A) =? gpos S (a_sid A).
Definition pen (A : agent) (S : shared) : N := if fresh A S then 0 else 20.

Definition att_rank (A : agent) (S : shared) : N :=
  match a_pc A with
  | R1pre => 40 | R1 => 39 | R2 => 38 | R3 => 37 | R1n => 36 | R2n => 35
  | R4 => 12 + pen A S | R5 => 11 + pen A S | R6 => 10 + pen A S | R6b => 9 + pen A S
  | R7 => 11 + pen A S | R8 => 10 + pen A S
  | R9 => 29 | R10 => 28
  | KC => 7 + pen A S | R11 => 6 + pen A S | R12 => 5 + pen A S
  | V1 => 5 | V5 => 4 | VK => 4 | V6 => 3 | V4 => 3
  | _ => 0
  end.

Definition returned (A A' : agent) : Prop :=
  a_pc A' = hd Idle (a_stack A) /\ a_stack A' = tl (a_stack A).

Ltac rank_fin :=
  unfold att_rank, pen, fresh, returned, gpos in *; cbn;
  repeat match goal with
  | |- context [if is_bcast ?c then _ else _] => destruct (is_bcast c)
  | |- context [if ?a =? ?b then _ else _] => destruct (N.eqb_spec a b)
  end; cbn;
  first [ solve [left; repeat split; try reflexivity; lia]
        | solve [right; split; reflexivity]
        | solve [exfalso; congruence]
        | solve [left; repeat split; try reflexivity; exfalso; congruence]
        | idtac ].

Lemma micro_att_rank c me A S o :
  micro c me A S = Some o -> in_att (a_pc A) = true ->
  (in_att (a_pc (o_a o)) = true /\ a_stack (o_a o) = a_stack A /\ att_rank (o_a o) (o_s o) < att_rank A S) \/
  returned A (o_a o).
Proof.
  intros H IA. destruct A as [role alive multi sid tok pc stack R notified parked]. cbn in IA.
  destruct pc; try discriminate IA; micro_cases H; cbn [o_a o_s]; eqb_hyps;
    try (match goal with st : list pcl |- _ => is_var st; destruct st end); rank_fin.
Qed.

(* k consecutive own steps of an agent that stay inside the attempt (nobody else runs in between) *)
Inductive solo_att (c : cfg) (me : N) : nat -> agent -> shared -> Prop :=
| solo_0 A Sh : solo_att c me 0 A Sh
| solo_S k A Sh o :
    micro c me A Sh = Some o -> in_att (a_pc (o_a o)) = true -> a_stack (o_a o) = a_stack A ->
    solo_att c me k (o_a o) (o_s o) -> solo_att c me (Datatypes.S k) A Sh.

Lemma att_rank_le A S : att_rank A S <= 40.
Proof. unfold att_rank, pen. destruct (a_pc A); destruct (fresh A S); lia. Qed.

Theorem solo_att_bound c me k A S :
  solo_att c me k A S -> in_att (a_pc A) = true -> N.of_nat k <= att_rank A S.
Proof.
  intros H. induction H as [A S|k A S o M IA' ST H IH]; intros IA; [cbn; lia|].
  destruct (micro_att_rank c me A S o M IA) as [(_ & _ & LT) | (PC & STK)].
  - specialize (IH IA'). rewrite Nat2N.inj_succ. lia.
  - exfalso. rewrite ST in STK. destruct (a_stack A) as [|p st] eqn:E.
    + cbn in PC. rewrite PC in IA'. discriminate IA'.
    + cbn in STK. apply (f_equal (@length pcl)) in STK. cbn in STK. lia.
Qed.

Theorem solo_att_at_most_40 c me k A S :
  solo_att c me k A S -> in_att (a_pc A) = true -> (k <= 40)%nat.
Proof.
  intros H IA. pose proof (solo_att_bound c me k A S H IA) as B. pose proof (att_rank_le A S). lia.
Qed.
