(* Case analysis for the reference counts of the slots: which step changes a count, and who holds a reference. *)
From Coq Require Import NArith List Bool Lia.
Require Import MQ.Arith64 MQ.Arith64Facts MQ.Types MQ.State MQ.Model MQ.Exec MQ.Reach MQ.Ctl MQ.Count MQ.WritersStep
  MQ.RecvDefs MQ.RecvStep MQ.PinDefs.
Import ListNotations.
Open Scope N_scope.

Definition pin_same c i (A : agent) (S : shared) (o : out) : Prop :=
  gpin (o_s o) i = gpin S i /\ hw c i 0 (o_a o) = hw c i 0 A.
Definition pin_inc c i (A : agent) (S : shared) (o : out) : Prop :=
  a_pc A = R7 /\ i = sl c (r_p (a_r A)) /\ gpin (o_s o) i = wadd (gpin S i) 1 /\ hw c i 0 A = 0 /\ hw c i 0 (o_a o) = 1.
Definition pin_dec c i (A : agent) (S : shared) (o : out) : Prop :=
  (a_pc A = R9 \/ a_pc A = R11) /\ i = sl c (r_p (a_r A)) /\ gpin (o_s o) i = wsub (gpin S i) 1 /\
  hw c i 0 A = 1 /\ hw c i 0 (o_a o) = 0.

Ltac four := first [left; reflexivity | right; left; reflexivity | right; right; left; reflexivity | right; right; right; reflexivity].

Ltac pin_pre BP1 BP2 :=
  try (let RS := fresh "RS" in pose proof (BP1 ltac:(four)) as RS; cbn in RS; rewrite ?RS in * );
  try (let BC := fresh "BC" in pose proof (BP2 ltac:(four)) as BC; rewrite ?BC in * );
  repeat match goal with H0 : is_bcast _ = _ |- _ => rewrite ?H0 in *; clear H0 end;
  repeat match goal with H0 : r_single _ = _ |- _ => rewrite ?H0 in *; clear H0 end.

Ltac pin_fin :=
  cbn; rewrite ?andb_false_r; cbn; rewrite ?getd_put;
  split; [split; intros X; first [ reflexivity | assumption | solve [destruct X as [X|[X|[X|X]]]; discriminate X] ]
         |split; [|let a' := fresh in let A' := fresh in let X := fresh in intros a' A' X; first [discriminate X | injection X as <- <-; reflexivity]]];
  first [ solve [left; split; [first [reflexivity | eqb_split; reflexivity] | first [reflexivity | eqb_split; reflexivity]]]
        | idtac ].

Lemma micro_pin c i me A S o :
  micro c me A S = Some o -> ctl_ok A = true -> bphase_ok c A ->
  bphase_ok c (o_a o) /\ (pin_same c i A S o \/ pin_inc c i A S o \/ pin_dec c i A S o) /\
  (forall a' A', o_new o = Some (a', A') -> holds A' = false).
Proof.
  intros H Q [BP1 BP2]. destruct A as [role alive multi sid tok pc stack R notified parked].
  unfold bphase_ok, pin_same, pin_inc, pin_dec, hw, gpin in *.
  destruct pc; cbn in BP1, BP2; micro_cases H; cbn [o_a o_s o_new]; pre_case Q Q1 Q2 Q3; eqb_hyps.
  all: try split_frame Q1 Q2.
  all: pin_pre BP1 BP2.
  all: pin_fin.
  all: match goal with |- context [N.eqb ?ii (sl ?cc (r_p ?R0))] =>
         destruct (N.eqb_spec ii (sl cc (r_p R0))) as [EI | NE];
         [rewrite ?EI; rewrite ?N.eqb_refl; unfold gpin;
          first [ solve [right; left; repeat split; auto] | solve [right; right; repeat split; auto] ]
         |assert (NE' : N.eqb (sl cc (r_p R0)) ii = false) by (apply N.eqb_neq; intros E0; apply NE; symmetry; exact E0);
          rewrite ?NE'; left; split; reflexivity] end.
Qed.
