(* Small step facts for the reference counts: the producers' test of the count of their target slot. *)
From Coq Require Import NArith List Bool Lia.
Require Import MQ.Arith64 MQ.Arith64Facts MQ.Types MQ.State MQ.Model MQ.Exec MQ.Reach MQ.Ctl MQ.Count MQ.WritersStep
  MQ.RecvDefs MQ.RecvStep MQ.PinDefs.
Import ListNotations.
Open Scope N_scope.

Lemma t_P4z c me A S o : micro c me A S = Some o -> ctl_ok A = true -> (a_pc A = P4 \/ a_pc A = M4) ->
  (a_pc (o_a o) = P5 \/ a_pc (o_a o) = M5) ->
  gpin S (sl c (r_h (a_r A))) = 0 /\ r_h (a_r (o_a o)) = r_h (a_r A).
Proof.
  intros H Q E. destruct A as [role alive multi sid tok pc stack R notified parked]. cbn in E. unfold gpin.
  destruct E as [-> | ->]; micro_cases H; cbn [o_a]; pre_case Q Q1 Q2 Q3; eqb_hyps; try split_frame Q1 Q2; cbn; intros [X | X];
    first [ solve [split; auto] | discriminate X ].
Qed.

Lemma t_P4prez c me A S o : micro c me A S = Some o -> (a_pc A = P4pre \/ a_pc A = M4pre) ->
  (a_pc (o_a o) = P5 \/ a_pc (o_a o) = M5) -> is_bcast c = false.
Proof.
  intros H E. destruct A as [role alive multi sid tok pc stack R notified parked]. cbn in E.
  destruct E as [-> | ->]; micro_cases H; cbn; intros [X | X]; first [assumption | reflexivity | discriminate X].
Qed.

Lemma t_R7z c me A S o : micro c me A S = Some o -> a_pc A = R7 -> a_pc (o_a o) = R8.
Proof.
  intros H E. destruct A as [role alive multi sid tok pc stack R notified parked]. cbn in E. subst pc.
  micro_cases H; reflexivity.
Qed.
