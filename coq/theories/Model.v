(* The executable model: one micro-step per shared-memory operation (O pcs) or
   per thread-local control decision (L pcs) of src/multiqueue.rs, read_cursor.rs,
   memory.rs, wait.rs.  Definitions only: no proofs in this file. *)
From Coq Require Import NArith List Bool.
Require Import MQ.Arith64 MQ.Types MQ.State.
Import ListNotations.
Open Scope N_scope.

(* ------------------------------------------------------------------ *)
(* accessors with the defaults the real memory has                     *)
Definition gtag (S : shared) (i : N) : N := getd INITIAL_QUEUE_FLAG (tags S) i.
Definition gpin (S : shared) (i : N) : N := getd 0 (pins S) i.
Definition gpos (S : shared) (s : N) : N := getd 0 (pos S) s.
Definition gcons (S : shared) (s : N) : N := getd 0 (cons S) s.
Definition ggroup (S : shared) (g : N) : list N := getd [] (groups S) g.
Definition gtokep (S : shared) (t : N) : N := getd 0 (tokep S) t.
Definition gid (S : shared) (ser : N) : N := getd 0 (g_ids S) ser.
Definition gdrops (S : shared) (ser : N) : N := getd 0 (g_drops S) ser.

Definition sl (c : cfg) (x : N) : N := slot_of x (c_n c).

Record out := mkout {
  o_a : agent; o_s : shared; o_ev : list ev;
  o_new : option (N * agent); o_ntf : list N }.

Definition ok (A : agent) (S : shared) (evs : list ev) : option out :=
  Some (mkout A S evs None []).

Definition at_pc (pc : pcl) (A : agent) : agent := set_a_pc pc A.
Definition withr (R : regs) (A : agent) : agent := set_a_r R A.
Definition push (k : pcl) (A : agent) : agent := set_a_stack (k :: a_stack A) A.
Definition popret (A : agent) : agent :=
  match a_stack A with
  | k :: st => set_a_stack st (set_a_pc k A)
  | [] => set_a_pc Idle A
  end.
(* call a subroutine: continue at [k] when it returns *)
Definition callsub (sub k : pcl) (A : agent) : agent := at_pc sub (push k A).

Definition setres (r : res) (A : agent) : agent := withr (set_r_res r (a_r A)) A.

(* ------------------------------------------------------------------ *)
(* ghost / ledger helpers                                              *)
Definition bad (what : N) (S : shared) : shared * list ev :=
  (set_g_bad (what :: g_bad S) S, [EBad what]).

Definition drop_val (ser : N) (S : shared) : shared * list ev :=
  (set_g_drops (put (g_drops S) ser (gdrops S ser + 1)) S, [EDropV ser]).

Definition drop_opt (o : option N) (S : shared) : shared * list ev :=
  match o with Some ser => drop_val ser S | None => (S, []) end.

(* looking at payload [o] (clone, view, deliver): it must be there and not yet dropped *)
Definition check_val (what : N) (o : option N) (S : shared) : shared * list ev :=
  match o with
  | Some ser => if 0 <? gdrops S ser then bad what S else (S, [])
  | None => bad what S
  end.

Definition alloc_obj (o : obj) (S : shared) : shared * list ev :=
  (set_live (o :: live S) S, [EAlloc o]).

Definition dealloc_obj (o : obj) (S : shared) : shared * list ev :=
  if mem_obj o (live S)
  then (set_freed (o :: freed S) (set_live (remove_obj o (live S)) S), [EDealloc o])
  else let (S', e) := bad 3 S in (S', EDealloc o :: e).

Fixpoint dealloc_all (l : list obj) (S : shared) : shared * list ev :=
  match l with
  | [] => (S, [])
  | o :: l' => let (S1, e1) := dealloc_obj o S in
               let (S2, e2) := dealloc_all l' S1 in (S2, e1 ++ e2)
  end.

(* dereferencing a heap object: must not have been freed *)
Definition use_obj (o : obj) (S : shared) : shared * list ev :=
  if mem_obj o (live S) then (S, []) else bad 4 S.

Definition tick (S : shared) : shared := set_g_clock (g_clock S + 1) S.
Definition hist (h : hev) (S : shared) : shared := set_g_hist (h :: g_hist S) S.

(* ------------------------------------------------------------------ *)
(* teardown: Drop for MultiQueue, ReadCursor, MemoryManager(+Inner)     *)
Fixpoint seqN (start : N) (len : nat) : list N :=
  match len with O => [] | S k => start :: seqN (start + 1) k end.

Fixpoint drop_untagged (c : cfg) (l : list N) (S : shared) : shared * list ev :=
  match l with
  | [] => (S, [])
  | i :: l' =>
      let (S1, e1) :=
        if is_tagged (gtag S i) then (S, [])
        else match get (cells S) i with
             | Some ser => drop_val ser S
             | None => bad 5 S
             end in
      let (S2, e2) := drop_untagged c l' S1 in (S2, e1 ++ e2)
  end.

Fixpoint drop_range (c : cfg) (fuel : nat) (p : N) (S : shared) : shared * list ev :=
  if p =? head S then (S, [])
  else match fuel with
       | O => bad 6 S
       | S k =>
           let (S1, e1) := match get (cells S) (sl c p) with
                           | Some ser => drop_val ser S
                           | None => bad 5 S
                           end in
           let (S2, e2) := drop_range c k (next_count p) S1 in (S2, e1 ++ e2)
       end.

Definition teardown (c : cfg) (S : shared) : shared * list ev :=
  let (S1, e1) :=
    if is_bcast c then drop_untagged c (seqN 0 (N.to_nat (c_n c))) S
    else drop_range c (Datatypes.S (N.to_nat (c_n c))) (last_pos S) S in
  let (S2, e2) := dealloc_all [ORing; ORefs; OGroup (cur S1)] S1 in
  let (S3, e3) := dealloc_all (wtf S2) S2 in
  let (S4, e4) := dealloc_all (tofree S3) S3 in
  (set_torn true (set_wtf [] (set_tofree [] S4)), e1 ++ e2 ++ e3 ++ e4).

(* a handle goes away; the last one tears the queue down *)
Definition release_handle (c : cfg) (S : shared) : shared * list ev :=
  let S1 := set_handles (handles S - 1) S in
  if handles S1 =? 0 then teardown c S1 else (S1, []).

(* ------------------------------------------------------------------ *)
Definition is_view_call (A : agent) : bool :=
  match a_role A, r_call (a_r A) with
  | RFUni, _ => true
  | _, CTryView | _, CView => true
  | _, _ => false
  end.

Definition is_fut_recv (A : agent) : bool :=
  match a_role A with RFRecv | RFUni => true | _ => false end.

Definition spins (c : cfg) : N * N :=
  match c_wk c with
  | WBusy => (0, 0) | WYield a b => (a, b) | WBlock a b => (a, b) | WFut a b => (a, b)
  end.

Definition unlock (l : loc) (S : shared) : shared * list ev :=
  (match l with
   | LMm => set_mm_lock None S
   | LWtf => set_wtf_lock None S
   | LBw => set_bw_lock None S
   | LCp => set_cp_lock None S
   | LPp => set_pp_lock None S
   | _ => S
   end, [EUnlock l]).

Definition ntf_events (l : list N) : list ev := map ENotify l.

(* FutWait::notify on a parked list (the consumers' or the producers') *)
Definition futwait_notify (lk : loc) (parked : list N) : list ev :=
  if 8 <? lenN parked then ntf_events parked ++ [EUnlock lk]
  else EUnlock lk :: ntf_events parked.

(* the value a commit stores *)
Definition new_agent (r : role) (multi : bool) (sid tok : N) (R : regs) : agent :=
  mkagent r true multi sid tok Idle [] R false false.

Definition empty_regs : regs :=
  mkregs CNone 0 0 0 0 0 [] 0 false 0 0 false false 0 None None 0 0 0 0 0 [] ORing 0 0 RNoRes 0 false 0.

(* the group list after the scan position: next pc of the get_max_diff loop *)
Definition gmd_next (R : regs) : pcl := match r_gl R with [] => G3 | _ :: _ => G2 end.

(* claim: head advanced for the value in r_v *)
Definition claim (me : N) (R : regs) (S : shared) : shared :=
  hist (HClaim me (r_v R) (r_h R) (g_clock S)) (set_g_log (g_log S ++ [r_v R]) S).

Definition deliver (me sid p : N) (o : option N) (S : shared) : shared :=
  match o with
  | Some ser => hist (HDeliver me sid p ser (g_clock S))
                     (set_g_deliv (g_deliv S ++ [(sid, p, ser, me)]) S)
  | None => S
  end.

(* ------------------------------------------------------------------ *)
(* which pcs are thread-local decisions                                *)
Definition is_local (pc : pcl) : bool :=
  match pc with
  | TSbegin | TS0b | TSmode | P3pre | P4pre | M3pre | M3post | M4pre | TSdone | TSret | TSfin
  | RT0 | RT2 | FR5pre | NTF
  | E0ret | R1pre | TRfin | TRfin2 | RVloop | RVafter | RVfin
  | WT | WB2 | WY1 | WY2 | WY4 | WY5 | WK1 | WK2 | WK3 | WK5 | B1c | B3c | WF1 | WF2
  | PLafter | PLfin | FS1 | FS2 | FS3 | FS4 | FS6 | FP2
  | SSbegin | SS0 | SS1 | SS2 | SS3 | SS4 | SS6 | SP2 | SSdone | SSret
  | SC0 | SD1 | SD2 | RC1 | D2pre | D4pre | D4b | D4c | RDtok | RDfin | RDfin2
  | A2pre | A4 | A5 | IM0 | FI1 | PC0 | FIN => true
  | _ => false
  end.

Definition is_rest (pc : pcl) : bool := match pc with Idle | Done => true | _ => false end.

(* is the operation pending at an O pc enabled? *)
Definition enabled (me : N) (A : agent) (S : shared) : bool :=
  let free (l : option N) := match l with None => true | Some _ => false end in
  match a_pc A with
  | Idle | Done => false
  | N1 | B1 => free (bw_lock S)
  | B2w => memN me (woken S) && free (bw_lock S)
  | FN1 | FP1 => free (cp_lock S)
  | PN1 | PF1 | SP1 => free (pp_lock S)
  | GT1 | RT1 => free (mm_lock S)
  | FR1 => free (wtf_lock S)
  | AW => a_notified A
  | pc => negb (is_local pc)
  end.

(* ------------------------------------------------------------------ *)
(* the micro-step                                                       *)
Section Micro.
Variable c : cfg.
Variable me : N.

Definition n := c_n c.

(* ---- try_send -------------------------------------------------- *)
Definition m_send (A : agent) (S : shared) : option out :=
  let R := a_r A in
  let slot := sl c (r_h R) in
  match a_pc A with
  | TSbegin =>
      (* the client creates the payload and calls try_send *)
      let id := match r_call R with CTrySend v => v | _ => 0 end in
      let ser := nser S in
      let S1 := set_g_ids (put (g_ids S) ser id) (set_nser (ser + 1) S) in
      ok (callsub TS0 TSfin (withr (set_r_v ser R) A)) S1 [EBorn ser id]
  | TS0 =>
      let sig := signal S in
      let A1 := withr (set_r_sig sig R) A in
      let e := [EOp KLoad LSignal 0 0 sig true] in
      if sig =? 0 then ok (at_pc TSmode A1) S e
      else if N.odd sig then ok (callsub U1 TS0b A1) S e
      else ok (at_pc TS0b A1) S e
  | TS0b =>
      if N.odd (r_sig R / 2)
      then ok (popret (setres (RDisc (r_v R)) A)) S []
      else ok (at_pc TSmode A) S []
  | TSmode => ok (at_pc (if a_multi A then TS1 else P1) A) S []
  | TS1 =>
      let w := writers S in
      let e := [EOp KLoad LWriters 0 0 w true] in
      if w =? 1 then ok (at_pc P1 (set_a_multi false A)) S e
      else ok (at_pc M1 A) S e
  | P1 => ok (at_pc P2 (withr (set_r_h (head S) R) A)) S [EOp KLoad LHead 0 0 (head S) true]
  | P2 =>
      let tc := tailc S in
      let A1 := withr (set_r_tc tc R) A in
      let e := [EOp KLoad LTailc 0 0 tc true] in
      if matches_previous (r_h R) n tc then ok (callsub G1 P3pre A1) S e
      else ok (at_pc P4pre A1) S e
  | P3pre =>
      if r_none R then ok (at_pc FIN (set_a_stack [] (setres RPanic A))) S []
      else ok (at_pc P3 (withr (set_r_nt (get_previous (r_h R) (r_md R)) R) A)) S []
  | P3 =>
      let nt := r_nt R in
      let S1 := set_tailc nt S in
      let e := [EOp KStore LTailc nt 0 nt true] in
      if matches_previous (r_h R) n nt then ok (popret (setres (RFull (r_v R)) A)) S1 e
      else ok (at_pc P4pre A) S1 e
  | P4pre => ok (at_pc (if is_bcast c then P4 else P5) A) S []
  | P4 =>
      let r := gpin S slot in
      let e := [EOp KLoad (LPin slot) 0 0 r true] in
      if r =? 0 then ok (at_pc P5 A) S e
      else ok (popret (setres (RFull (r_v R)) A)) S e
  | P5 =>
      let nh := next_count (r_h R) in
      ok (at_pc P6 A) (claim me R (set_head nh S)) [EOp KStore LHead nh 0 nh true]
  | P6 =>
      let t := gtag S slot in
      let old := if is_bcast c && negb (is_tagged t) then get (cells S) slot else None in
      let S1 := set_cells (put (cells S) slot (r_v R)) S in
      ok (at_pc P7 (withr (set_r_old old R) A)) S1 [EOp KLoad (LTag slot) 0 0 t true]
  | P7 =>
      let S1 := set_tags (put (tags S) slot (r_h R)) S in
      let (S2, e2) := drop_opt (r_old R) S1 in
      ok (at_pc TSdone (withr (set_r_old None (set_r_res ROk R)) A)) S2
         (EOp KStore (LTag slot) (r_h R) 0 (r_h R) true :: e2)
  | M1 => ok (at_pc M2 (withr (set_r_h (head S) R) A)) S [EOp KLoad LHead 0 0 (head S) true]
  | M2 =>
      let tc := tailc S in
      let A1 := withr (set_r_tc tc R) A in
      let e := [EOp KLoad LTailc 0 0 tc true] in
      if matches_previous (r_h R) n tc then ok (callsub G1 M3pre A1) S e
      else ok (at_pc M4pre A1) S e
  | M3pre =>
      if r_none R then ok (at_pc M3b A) S []
      else let nt := get_previous (r_h R) (r_md R) in
           let A1 := withr (set_r_nt nt R) A in
           if r_tc R =? nt then ok (at_pc M3post A1) S [] else ok (at_pc M3 A1) S []
  | M3 =>
      let curv := tailc S in
      if curv =? r_tc R
      then ok (at_pc M3post A) (set_tailc (r_nt R) S) [EOp KCas LTailc (r_tc R) (r_nt R) curv true]
      else ok (at_pc M3post (withr (set_r_nt curv R) A)) S [EOp KCas LTailc (r_tc R) (r_nt R) curv false]
  | M3b => ok (at_pc M3post (withr (set_r_nt (tailc S) R) A)) S [EOp KLoad LTailc 0 0 (tailc S) true]
  | M3post =>
      if matches_previous (r_h R) n (r_nt R) then ok (at_pc TSdone (setres (RFull (r_v R)) A)) S []
      else ok (at_pc M4pre A) S []
  | M4pre => ok (at_pc (if is_bcast c then M4 else M5) A) S []
  | M4 =>
      let r := gpin S slot in
      let e := [EOp KLoad (LPin slot) 0 0 r true] in
      if r =? 0 then ok (at_pc M5 A) S e
      else ok (at_pc TSdone (setres (RFull (r_v R)) A)) S e
  | M5 =>
      let curv := head S in
      let nh := next_count (r_h R) in
      if curv =? r_h R
      then ok (at_pc P6 A) (claim me R (set_head nh S)) [EOp KCasW LHead (r_h R) nh curv true]
      else ok (at_pc M2 (withr (set_r_h curv R) A)) S [EOp KCasW LHead (r_h R) nh curv false]
  | TSdone =>
      match r_res R with
      | ROk => if needs_notify c then ok (callsub NTF TSret A) S [] else ok (at_pc TSret A) S []
      | _ => ok (at_pc TSret A) S []
      end
  | TSret => ok (popret A) S []
  | TSfin =>
      (* back in the client: a refused value comes back and is dropped there *)
      let (S1, e1) := match r_res R with
                      | RFull ser | RDisc ser => drop_val ser S
                      | _ => (S, [])
                      end in
      ok (at_pc FIN A) S1 e1
  | _ => None
  end.

(* ---- ReadCursor::get_max_diff ---------------------------------- *)
Definition m_gmd (A : agent) (S : shared) : option out :=
  let R := a_r A in
  match a_pc A with
  | G1 =>
      let g := cur S in
      let (S1, e1) := use_obj (OGroup g) S in
      (* no stream registered: the whole ring counts as outstanding *)
      let md0 := match ggroup S g with [] => n | _ :: _ => 0 end in
      let R1 := set_r_none false (set_r_md md0 (set_r_gl (ggroup S g) (set_r_g g R))) in
      ok (at_pc (gmd_next R1) (withr R1 A)) S1 (EOp KPld LReaders 0 0 g true :: ETouch g :: e1)
  | G2 =>
      match r_gl R with
      | [] => None
      | s :: rest =>
          let rp := gpos S s in
          let (S1, e1) := use_obj (OPos s) S in
          let e := EOp KLoad (LPos s) 0 0 rp true :: e1 in
          let (d, tofar) := past (r_h R) rp in
          if tofar then ok (at_pc G3 (withr (set_r_none true R) A)) S1 e
          else let R1 := set_r_gl rest (set_r_md (if r_md R <? d then d else r_md R) R) in
               ok (at_pc (gmd_next R1) (withr R1 A)) S1 e
      end
  | G3 =>
      let g := cur S in
      let e := [EOp KPld LReaders 0 0 g true] in
      if g =? r_g R then ok (popret A) S e else ok (at_pc G1 A) S e
  | _ => None
  end.

(* ---- memory manager --------------------------------------------- *)
Definition m_mem (A : agent) (S : shared) : option out :=
  let R := a_r A in
  let tok := a_tok A in
  match a_pc A with
  | U1 => ok (at_pc U2 (withr (set_r_e (epoch S) R) A)) S [EOp KLoad LEpoch 0 0 (epoch S) true]
  | U2 =>
      let te := gtokep S tok in
      let (S1, e1) := use_obj (OTok tok) S in
      let e := EOp KLoad (LTok tok) 0 0 te true :: e1 in
      if te =? r_e R then ok (popret A) S1 e else ok (at_pc U3 A) S1 e
  | U3 =>
      ok (popret A) (set_tokep (put (tokep S) tok (r_e R)) S)
         [EOp KStore (LTok tok) (r_e R) 0 (r_e R) true]
  | GT1 => ok (at_pc GT2 A) (set_mm_lock (Some me) S) [EOp KLock LMm 0 0 0 true]
  | GT2 =>
      let e := epoch S in
      let t := ntid S in
      let (S1, e1) := alloc_obj (OTok t) (set_ntid (t + 1) S) in
      let S2 := set_tokep (put (tokep S1) t e) (set_tokens (tokens S1 ++ [t]) S1) in
      let (S3, e3) := unlock LMm S2 in
      ok (popret (withr (set_r_tmp t R) A)) S3 (EOp KLoad LEpoch 0 0 e true :: e1 ++ e3)
  | RT0 => ok (callsub U1 RT1 A) S []
  | RT1 =>
      let S1 := set_tokens (removeN tok (tokens S)) (set_mm_lock (Some me) S) in
      ok (callsub FR1 RT2 (withr (set_r_obj (OTok tok) R) A)) S1 [EOp KLock LMm 0 0 0 true]
  | RT2 => let (S1, e1) := unlock LMm S in ok (popret A) S1 e1
  | FR1 =>
      ok (at_pc FR2 A) (set_wtf (wtf S ++ [r_obj R]) (set_wtf_lock (Some me) S))
         [EOp KLock LWtf 0 0 0 true]
  | FR2 =>
      match mm_lock S with
      | None => ok (at_pc FR3 A) (set_mm_lock (Some me) S)
                   [EOp KTryLock LMm 0 0 1 true]
      | Some _ => ok (at_pc FR5pre A) S [EOp KTryLock LMm 0 0 0 false]
      end
  | FR3 =>
      let e := epoch S in
      let ev0 := EOp KLoad LEpoch 0 0 e true in
      match tokens S with
      | [] => let (S1, e1) := unlock LMm S in ok (at_pc FR5pre A) S1 (ev0 :: e1)
      | _ :: _ => ok (at_pc FR4 (withr (set_r_tl (tokens S) (set_r_e e R)) A)) S [ev0]
      end
  | FR4 =>
      match r_tl R with
      | [] => None
      | t :: rest =>
          let te := gtokep S t in
          let (S0, e0) := use_obj (OTok t) S in
          let ev0 := EOp KLoad (LTok t) 0 0 te true :: e0 in
          if negb (te =? r_e R)
          then let (S1, e1) := unlock LMm S0 in ok (at_pc FR5pre A) S1 (ev0 ++ e1)
          else match rest with
               | _ :: _ => ok (withr (set_r_tl rest R) A) S0 ev0
               | [] =>
                   let (S1, e1) := dealloc_all (tofree S0) S0 in
                   ok (at_pc FR4b (withr (set_r_tl [] R) A))
                      (set_iepoch (r_e R) (set_tofree [] S1)) (ev0 ++ e1)
               end
      end
  | FR4b =>
      let old := signal S in
      let nw := if N.odd old then old - 1 else old in
      let (S1, e1) := unlock LMm (set_signal nw S) in
      ok (at_pc FR5pre A) S1 (EOp KFand LSignal (W - 2) 0 old true :: e1)
  | FR5pre =>
      if 20 <? lenN (wtf S) then ok (at_pc FR5 A) S []
      else let (S1, e1) := unlock LWtf S in ok (popret A) S1 e1
  | FR5 =>
      match mm_lock S with
      | None => ok (at_pc FR6 A) (set_mm_lock (Some me) S) [EOp KTryLock LMm 0 0 1 true]
      | Some _ => let (S1, e1) := unlock LWtf S in
                  ok (popret A) S1 (EOp KTryLock LMm 0 0 0 false :: e1)
      end
  | FR6 =>
      let ce := epoch S in
      let ev0 := EOp KLoad LEpoch 0 0 ce true in
      if iepoch S =? ce
      then ok (at_pc FR7 (withr (set_r_e ce R) A)) (set_wtf [] (set_tofree (wtf S) S)) [ev0]
      else let (S1, e1) := unlock LMm S in
           let (S2, e2) := unlock LWtf S1 in ok (popret A) S2 (ev0 :: e1 ++ e2)
  | FR7 =>
      let ne := wadd (r_e R) 1 in
      ok (at_pc FR8 A) (set_epoch ne S) [EOp KStore LEpoch ne 0 ne true]
  | FR8 =>
      let old := signal S in
      let nw := if N.odd old then old else old + 1 in
      let (S1, e1) := unlock LMm (set_signal nw S) in
      let (S2, e2) := unlock LWtf S1 in
      ok (popret A) S2 (EOp KFor LSignal 1 0 old true :: e1 ++ e2)
  | _ => None
  end.

(* ---- notification ------------------------------------------------ *)
Definition m_notify (A : agent) (S : shared) : option out :=
  match a_pc A with
  | NTF =>
      match c_wk c with
      | WBusy | WYield _ _ => ok (popret A) S []
      | WBlock _ _ => ok (at_pc N1 A) S []
      | WFut _ _ => ok (at_pc FN1 A) S []
      end
  | N1 => ok (at_pc N2 A) (set_bw_lock (Some me) S) [EOp KLock LBw 0 0 0 true]
  | N2 =>
      let S1 := set_sleepers [] (set_woken (woken S ++ sleepers S) S) in
      let (S2, e2) := unlock LBw S1 in
      ok (popret A) S2 (EOp KCvNotify LBwCv 0 0 0 true :: e2)
  | FN1 =>
      let l := cparked S in
      match l with
      | [] => ok (popret A) S [EOp KLock LCp 0 0 0 true; EUnlock LCp]
      | _ :: _ =>
          Some (mkout (popret A) (set_cparked [] S)
                      (EOp KLock LCp 0 0 0 true :: futwait_notify LCp l) None l)
      end
  | PF1 =>
      let l := pparked S in
      match l with
      | [] => ok (popret A) S [EOp KLock LPp 0 0 0 true; EUnlock LPp]
      | _ :: _ =>
          Some (mkout (popret A) (set_pparked [] S)
                      (EOp KLock LPp 0 0 0 true :: futwait_notify LPp l) None l)
      end
  | PN1 =>
      let l := pparked S in
      Some (mkout (popret A) (set_pparked [] S)
                  (EOp KLock LPp 0 0 0 true :: ntf_events l ++ [EUnlock LPp]) None l)
  | _ => None
  end.

(* ---- receive ----------------------------------------------------- *)
Definition m_recv (A : agent) (S : shared) : option out :=
  let R := a_r A in
  let sid := a_sid A in
  let p := r_p R in
  let slot := sl c p in
  let pos_load := fun (S : shared) =>
     let v := gpos S sid in
     let (S1, e1) := use_obj (OPos sid) S in (v, S1, EOp KLoad (LPos sid) 0 0 v true :: e1) in
  let cons_load := fun (S : shared) =>
     let v := gcons S sid in
     let (S1, e1) := use_obj (OMeta sid) S in (v, S1, EOp KLoad (LCons sid) 0 0 v true :: e1) in
  (* begin of the payload access once the tag matched and (on a shared stream) the cursor was re-checked *)
  let getval := fun (A : agent) (S : shared) (e : list ev) =>
     if is_bcast c then
       let (S1, e1) := check_val 1 (get (cells S) slot) S in
       ok (at_pc KC (withr (set_r_tmp (getd 0 (cells S) slot) (a_r A)) A)) S1 (e ++ e1)
     else
       ok (at_pc R12 (withr (set_r_val (get (cells S) slot) (a_r A)) A)) S e in
  match a_pc A with
  | E0 =>
      let sig := signal S in
      let A1 := withr (set_r_sig sig R) A in
      let e := [EOp KLoad LSignal 0 0 sig true] in
      if N.odd sig then ok (callsub U1 E0ret A1) S e else ok (at_pc E0ret A1) S e
  | E0ret =>
      match r_call R with
      | CTryRecv | CTryView => ok (callsub R1pre TRfin A) S []
      | _ => ok (at_pc RVloop A) S []
      end
  | R1pre =>
      (* try_recv reads "am I the only consumer" before it loads the position; the view path has no such read *)
      ok (at_pc (if is_view_call A then (if a_multi A then R1 else R2) else R3) A) S []
  | R1 =>
      let '(v, S1, e) := cons_load S in
      if v =? 1 then ok (at_pc R2 (set_a_multi false A)) S1 e else ok (at_pc R2 A) S1 e
  | R2 =>
      let '(v, S1, e) := pos_load S in
      let R1 := set_r_am (negb (a_multi A)) (set_r_p v R) in
      ok (at_pc (if is_view_call A then V1 else R3) (withr R1 A)) S1 e
  | R3 =>
      let '(v, S1, e) := cons_load S in
      ok (at_pc (if a_multi A then R1n else R2n) (withr (set_r_single (v =? 1) R) A)) S1 e
  | R1n =>
      let '(v, S1, e) := cons_load S in
      if v =? 1 then ok (at_pc R2n (set_a_multi false A)) S1 e else ok (at_pc R2n A) S1 e
  | R2n =>
      let '(v, S1, e) := pos_load S in
      let R1 := set_r_am (negb (a_multi A)) (set_r_p v R) in
      ok (at_pc R4 (withr R1 A)) S1 e
  | R4 =>
      let t := gtag S slot in
      let e := [EOp KLoad (LTag slot) 0 0 t true] in
      let A1 := withr (set_r_tag t R) A in
      if negb (rm_tag t =? p) then ok (at_pc R5 A1) S e
      else if r_single R then getval A1 S e
      else ok (at_pc (if is_bcast c then R7 else R8) A1) S e
  | R5 =>
      let w := writers S in
      let e := [EOp KLoad LWriters 0 0 w true] in
      if w =? 0 then ok (at_pc R6 A) S e
      else ok (popret (withr (set_r_slot slot (set_r_res REmpty R)) A)) S e
  | R6 =>
      let t := gtag S slot in
      let e := [EOp KLoad (LTag slot) 0 0 t true] in
      if negb (rm_tag t =? p)
      then if r_single R then ok (popret (setres RDiscon A)) S e else ok (at_pc R6b A) S e
      else ok (popret (withr (set_r_slot slot (set_r_res REmpty R)) A)) S e
  | R6b =>
      let '(v, S1, e) := pos_load S in
      if negb (v =? p) then ok (at_pc R4 (withr (set_r_p v R) A)) S1 e
      else ok (popret (setres RDiscon A)) S1 e
  | R7 =>
      let old := gpin S slot in
      ok (at_pc R8 A) (set_pins (put (pins S) slot (wadd old 1)) S)
         [EOp KFadd (LPin slot) 1 0 old true]
  | R8 =>
      let '(v, S1, e) := pos_load S in
      if negb (v =? p) then ok (at_pc (if is_bcast c then R9 else R10) A) S1 e
      else getval A S1 e
  | R9 =>
      let old := gpin S slot in
      ok (at_pc R10 A) (set_pins (put (pins S) slot (wsub old 1)) S)
         [EOp KFsub (LPin slot) 1 0 old true]
  | R10 =>
      let '(v, S1, e) := pos_load S in
      ok (at_pc R4 (withr (set_r_p v R) A)) S1 e
  | KC =>
      (* the clone completes: the source must still be the value the clone started from *)
      let src := get (cells S) slot in
      let same := match src with Some s0 => s0 =? r_tmp R | None => false end in
      let (S0, e0) := if same then check_val 1 src S else bad 2 S in
      let ser := nser S0 in
      let S1 := set_g_ids (put (g_ids S0) ser (gid S0 (r_tmp R))) (set_nser (ser + 1) S0) in
      ok (at_pc (if r_single R then R12 else R11) (withr (set_r_val (Some ser) R) A)) S1
         (EOp KCloneMid LNone 0 0 (r_tmp R) true :: e0 ++ [EClone ser (r_tmp R)])
  | R11 =>
      let old := gpin S slot in
      ok (at_pc R12 A) (set_pins (put (pins S) slot (wsub old 1)) S)
         [EOp KFsub (LPin slot) 1 0 old true]
  | R12 =>
      let np := next_count p in
      let curv := gpos S sid in
      let (S0, e0) := use_obj (OPos sid) S in
      if r_am R then
        ok (popret (setres (match r_val R with Some ser => RVal ser | None => RPanic end) A))
           (deliver me sid p (r_val R) (set_pos (put (pos S0) sid np) S0))
           (EOp KStore (LPos sid) np 0 np true :: e0)
      else if curv =? p then
        ok (popret (setres (match r_val R with Some ser => RVal ser | None => RPanic end) A))
           (deliver me sid p (r_val R) (set_pos (put (pos S0) sid np) S0))
           (EOp KCasW (LPos sid) p np curv true :: e0)
      else
        (* forget_val: the broadcast clone is dropped, the moved-out bits are forgotten *)
        let (S1, e1) := if is_bcast c then drop_opt (r_val R) S0 else (S0, []) in
        ok (at_pc R4 (withr (set_r_val None (set_r_p curv R)) A)) S1
           (EOp KCasW (LPos sid) p np curv false :: e0 ++ e1)
  (* try_recv_view *)
  | V1 =>
      let t := gtag S slot in
      let e := [EOp KLoad (LTag slot) 0 0 t true] in
      if negb (rm_tag t =? p) then ok (at_pc V5 A) S e
      else let (S1, e1) := check_val 1 (get (cells S) slot) S in
           ok (at_pc VK (withr (set_r_tmp (getd 0 (cells S) slot) R) A)) S1 (e ++ e1)
  | V5 =>
      let w := writers S in
      let e := [EOp KLoad LWriters 0 0 w true] in
      if w =? 0 then ok (at_pc V6 A) S e
      else ok (popret (withr (set_r_slot slot (set_r_res REmpty R)) A)) S e
  | V6 =>
      let t := gtag S slot in
      let e := [EOp KLoad (LTag slot) 0 0 t true] in
      if negb (rm_tag t =? p) then ok (popret (setres RDiscon A)) S e
      else ok (popret (withr (set_r_slot slot (set_r_res REmpty R)) A)) S e
  | VK =>
      let src := get (cells S) slot in
      let same := match src with Some s0 => s0 =? r_tmp R | None => false end in
      let (S0, e0) := if same then check_val 1 src S else bad 2 S in
      (* MPMC: drop_in_place after the closure *)
      let (S1, e1) := if is_bcast c then (S0, []) else drop_val (r_tmp R) S0 in
      ok (at_pc V4 (withr (set_r_val (Some (r_tmp R)) R) A)) S1
         (EOp KViewMid LNone 0 0 (r_tmp R) true :: e0 ++ e1)
  | V4 =>
      let np := next_count p in
      let (S0, e0) := use_obj (OPos sid) S in
      ok (popret (setres (match r_val R with Some ser => RVal ser | None => RPanic end) A))
         (deliver me sid p (r_val R) (set_pos (put (pos S0) sid np) S0))
         (EOp KStore (LPos sid) np 0 np true :: e0)
  (* the callers *)
  | TRfin =>
      if is_fut_recv A then ok (callsub PN1 TRfin2 A) S [] else ok (at_pc TRfin2 A) S []
  | TRfin2 =>
      (* back in the client, which drops an owned value it received (a view returns no ownership) *)
      let (S1, e1) := match r_res R with
                      | RVal ser => if is_view_call A then (S, []) else
                                      let (Sa, ea) := check_val 7 (Some ser) S in
                                      let (Sb, eb) := drop_val ser Sa in (Sb, ea ++ eb)
                      | _ => (S, [])
                      end in
      ok (at_pc FIN A) S1 e1
  | RVloop => ok (callsub R1pre RVafter A) S []
  | RVafter =>
      match r_call R with
      | CPoll | CAPoll => ok (at_pc PLafter A) S []
      | _ => match r_res R with
             | REmpty => ok (at_pc W0 A) S []
             | _ => ok (at_pc RVfin A) S []
             end
      end
  | RVfin =>
      if is_fut_recv A then ok (callsub PN1 TRfin2 A) S [] else ok (at_pc TRfin2 A) S []
  | W0 =>
      let '(v, S1, e) := pos_load S in
      if negb (sl c v =? r_slot R) then ok (at_pc RVloop A) S1 e
      else ok (at_pc WT (withr (set_r_cnt v R) A)) S1 e
  | _ => None
  end.

(* ---- Wait::wait / check ------------------------------------------ *)
Definition m_wait (A : agent) (S : shared) : option out :=
  let R := a_r A in
  let (sf, sy) := spins c in
  match a_pc A with
  | C1 =>
      let t := gtag S (r_slot R) in
      ok (at_pc C2 (withr (set_r_tag t R) A)) S [EOp KLoad (LTag (r_slot R)) 0 0 t true]
  | C2 =>
      let w := writers S in
      ok (popret (withr (set_r_last (wait_check (r_cnt R) (r_tag R) w) R) A)) S
         [EOp KLoad LWriters 0 0 w true]
  | WT =>
      match c_wk c with
      | WBusy => ok (callsub C1 WB2 A) S []
      | WYield _ _ => ok (at_pc WY1 (withr (set_r_i sf R) A)) S []
      | WBlock _ _ => ok (at_pc WK1 (withr (set_r_i sf R) A)) S []
      | WFut _ _ => ok (at_pc WF1 A) S []
      end
  | WB2 => if r_last R then ok (at_pc RVloop A) S [] else ok (callsub C1 WB2 A) S []
  | WY1 => if r_i R =? 0 then ok (at_pc WY3 A) S [] else ok (callsub C1 WY2 A) S []
  | WY2 => if r_last R then ok (at_pc RVloop A) S []
           else ok (at_pc WY1 (withr (set_r_i (r_i R - 1) R) A)) S []
  | WY3 => ok (at_pc WY4 (withr (set_r_j (N.max 1 sy) R) A)) S [EOp KYield LNone 0 0 0 true]
  | WY4 => if r_j R =? 0 then ok (at_pc WY3 A) S [] else ok (callsub C1 WY5 A) S []
  | WY5 => if r_last R then ok (at_pc RVloop A) S []
           else ok (at_pc WY4 (withr (set_r_j (r_j R - 1) R) A)) S []
  | WK1 => if r_i R =? 0 then ok (at_pc WK3 (withr (set_r_j sy R) A)) S []
           else ok (callsub C1 WK2 A) S []
  | WK2 => if r_last R then ok (at_pc RVloop A) S []
           else ok (at_pc WK1 (withr (set_r_i (r_i R - 1) R) A)) S []
  | WK3 => if r_j R =? 0 then ok (at_pc B1 A) S [] else ok (at_pc WK4 A) S []
  | WK4 => ok (callsub C1 WK5 A) S [EOp KYield LNone 0 0 0 true]
  | WK5 => if r_last R then ok (at_pc RVloop A) S []
           else ok (at_pc WK3 (withr (set_r_j (r_j R - 1) R) A)) S []
  | B1 => ok (callsub C1 B1c A) (set_bw_lock (Some me) S) [EOp KLock LBw 0 0 0 true]
  | B1c =>
      if r_last R then let (S1, e1) := unlock LBw S in ok (at_pc RVloop A) S1 e1
      else ok (at_pc B2 A) S []
  | B2 =>
      ok (at_pc B2w A) (set_sleepers (sleepers S ++ [me]) (set_bw_lock None S))
         [EOp KCvWait LBwCv 0 0 0 true]
  | B2w =>
      (* woken up: re-acquire the mutex; the guard is dropped right away *)
      ok (callsub C1 B3c A) (set_woken (removeN me (woken S)) S)
         [EOp KWake LBw 0 0 0 true; EUnlock LBw]
  | B3c => if r_last R then ok (at_pc RVloop A) S [] else ok (at_pc B1 A) S []
  | WF1 => ok (callsub C1 WF2 A) S []
  | WF2 => if r_last R then ok (at_pc RVloop A) S [] else ok (at_pc WFy A) S []
  | WFy => ok (at_pc WF1 A) S [EOp KYield LNone 0 0 0 true]
  | _ => None
  end.

(* ---- futures: Stream::poll, Sink::start_send ---------------------- *)
Definition m_fut (A : agent) (S : shared) : option out :=
  let R := a_r A in
  let sid := a_sid A in
  let (sf, sy) := spins c in
  match a_pc A with
  | PLafter =>
      match r_res R with
      | RVal _ => ok (callsub PN1 PLfin A) S []
      | REmpty => ok (at_pc PW0 A) S []
      | _ => ok (at_pc PLfin A) S []
      end
  | PLfin =>
      match r_res R, r_call R with
      | RNotReady, CAPoll => ok (at_pc AW A) S [ERet RNotReady]
      | RVal ser, _ =>
          let (S1, e1) := if is_view_call A then (S, []) else
                            let (Sa, ea) := check_val 7 (Some ser) S in
                            let (Sb, eb) := drop_val ser Sa in (Sb, ea ++ eb) in
          ok (at_pc FIN A) S1 e1
      | _, _ => ok (at_pc FIN A) S []
      end
  | PW0 =>
      let v := gpos S sid in
      let (S1, e1) := use_obj (OPos sid) S in
      let e := EOp KLoad (LPos sid) 0 0 v true :: e1 in
      if negb (sl c v =? r_slot R) then ok (at_pc RVloop A) S1 e
      else ok (at_pc FS1 (withr (set_r_i sf (set_r_cnt v R)) A)) S1 e
  | FS1 => if r_i R =? 0 then ok (at_pc FS3 A) S [] else ok (callsub C1 FS2 A) S []
  | FS2 => if r_last R then ok (at_pc RVloop A) S []
           else ok (at_pc FS1 (withr (set_r_i (r_i R - 1) R) A)) S []
  | FS3 => ok (at_pc FS4 (withr (set_r_j sy R) A)) S []
  | FS4 => if r_j R =? 0 then ok (at_pc FP1 A) S [] else ok (at_pc FS5 A) S []
  | FS5 => ok (callsub C1 FS6 A) S [EOp KYield LNone 0 0 0 true]
  | FS6 => if r_last R then ok (at_pc RVloop A) S []
           else ok (at_pc FS4 (withr (set_r_j (r_j R - 1) R) A)) S []
  | FP1 => ok (callsub C1 FP2 A) (set_cp_lock (Some me) S) [EOp KLock LCp 0 0 0 true]
  | FP2 =>
      if r_last R then let (S1, e1) := unlock LCp S in ok (at_pc RVloop A) S1 e1
      else let (S1, e1) := unlock LCp (set_cparked (cparked S ++ [me]) S) in
           ok (at_pc FP3 A) S1 e1
  | FP3 => ok (at_pc PLfin (setres RNotReady A)) S [EOp KSleep LNone 100 0 0 true]
  | AW =>
      let A1 := set_a_notified false A in
      match r_call R with
      | CAPoll => ok (at_pc E0 A1) S [EOp KAwait LNone 0 0 0 true]
      | _ => ok (at_pc SS0 A1) S [EOp KAwait LNone 0 0 0 true]
      end
  | SSbegin =>
      let id := match r_call R with CStartSend v | CAStartSend v => v | _ => 0 end in
      let ser := nser S in
      let S1 := set_g_ids (put (g_ids S) ser id) (set_nser (ser + 1) S) in
      ok (at_pc SS0 (withr (set_r_v ser R) A)) S1 [EBorn ser id]
  | SS0 => ok (at_pc SS1 (withr (set_r_i sf R) A)) S []
  | SS1 => if r_i R =? 0 then ok (at_pc SS3 A) S [] else ok (callsub TS0 SS2 A) S []
  | SS2 => match r_res R with
           | RFull _ => ok (at_pc SS1 (withr (set_r_i (r_i R - 1) R) A)) S []
           | _ => ok (at_pc SSdone A) S []
           end
  | SS3 => ok (at_pc SS4 (withr (set_r_j sy R) A)) S []
  | SS4 => if r_j R =? 0 then ok (at_pc SP1 A) S [] else ok (at_pc SS5 A) S []
  | SS5 => ok (callsub TS0 SS6 A) S [EOp KYield LNone 0 0 0 true]
  | SS6 => match r_res R with
           | RFull _ => ok (at_pc SS4 (withr (set_r_j (r_j R - 1) R) A)) S []
           | _ => ok (at_pc SSdone A) S []
           end
  | SP1 => ok (callsub TS0 SP2 A) (set_pp_lock (Some me) S) [EOp KLock LPp 0 0 0 true]
  | SP2 =>
      match r_res R with
      | RFull _ => let (S1, e1) := unlock LPp (set_pparked (pparked S ++ [me]) S) in
                   ok (at_pc SSdone A) S1 e1
      | _ => let (S1, e1) := unlock LPp S in ok (at_pc SSdone A) S1 e1
      end
  | SSdone =>
      match r_res R with
      | ROk => if needs_notify c then ok (callsub NTF SSret A) S [] else ok (at_pc SSret A) S []
      | _ => ok (at_pc SSret A) S []
      end
  | SSret =>
      match r_res R, r_call R with
      | RFull _, CAStartSend _ => ok (at_pc AW A) S [ERet (r_res R)]
      | RFull ser, _ | RDisc ser, _ => let (S1, e1) := drop_val ser S in ok (at_pc FIN A) S1 e1
      | _, _ => ok (at_pc FIN A) S []
      end
  | _ => None
  end.

(* ---- handle population: clone, drop, add_stream, conversions ------ *)
Definition m_handle (A : agent) (S : shared) : option out :=
  let R := a_r A in
  let sid := a_sid A in
  let tgt := match r_call R with CClone a' | CAddStream a' => a' | _ => 0 end in
  match a_pc A with
  | SC0 => ok (callsub GT1 SC1 (set_a_multi true A)) S []
  | SC1 =>
      let old := writers S in
      Some (mkout (at_pc FIN (setres RUnit A))
                  (set_handles (handles S + 1) (set_writers (wadd old 1) S))
                  [EOp KFadd LWriters 1 0 old true]
                  (Some (tgt, new_agent (a_role A) true 0 (r_tmp R) empty_regs)) [])
  | SD0 =>
      let old := writers S in
      ok (callsub RT0 SD1 A) (set_writers (wsub old 1) S) [EOp KFsub LWriters 1 0 old true]
  | SD1 => ok (callsub NTF SD2 A) S []
  | SD2 =>
      let (S1, e1) := release_handle c S in
      ok (at_pc Done (set_a_alive false A)) (hist (HRet me RUnit (g_clock S1)) S1) (e1 ++ [ERet RUnit])
  | RC0 =>
      let old := gcons S sid in
      let (S0, e0) := use_obj (OMeta sid) S in
      ok (callsub GT1 RC1 (set_a_multi true A)) (set_cons (put (cons S0) sid (wadd old 1)) S0)
         (EOp KFadd (LCons sid) 1 0 old true :: e0)
  | RC1 =>
      Some (mkout (at_pc FIN (setres RUnit A)) (set_handles (handles S + 1) S) []
                  (Some (tgt, new_agent (a_role A) true sid (r_tmp R) empty_regs)) [])
  | RD0 =>
      let old := gcons S sid in
      let (S0, e0) := use_obj (OMeta sid) S in
      let S1 := set_cons (put (cons S0) sid (wsub old 1)) S0 in
      let e := EOp KFsub (LCons sid) 1 0 old true :: e0 in
      if old =? 1 then ok (at_pc D1 (withr (set_r_last true R) A)) S1 e
      else ok (at_pc RDtok (withr (set_r_last false R) A)) S1 e
  | D1 => ok (at_pc D2pre (withr (set_r_g (cur S) R) A)) S [EOp KPld LReaders 0 0 (cur S) true]
  | D2pre =>
      let g := r_g R in
      let (S0, e0) := use_obj (OGroup g) S in
      let ng := ngid S0 in
      let (S1, e1) := alloc_obj (OGroup ng) (set_ngid (ng + 1) S0) in
      ok (at_pc D2 (withr (set_r_ng ng R) A))
         (set_groups (put (groups S1) ng (removeN sid (ggroup S1 g))) S1) (ETouch g :: e0 ++ e1)
  | D2 =>
      let g := r_g R in
      let curv := cur S in
      if curv =? g then
        ok (at_pc (if lenN (ggroup S g) =? 1 then D3 else D4pre) A) (set_cur (r_ng R) S)
           [EOp KPcas LReaders g (r_ng R) curv true]
      else
        let (S1, e1) := dealloc_obj (OGroup (r_ng R)) S in
        ok (at_pc D2pre (withr (set_r_g curv R) A)) S1 (EOp KPcas LReaders g (r_ng R) curv false :: e1)
  | D3 =>
      let v := gpos S sid in
      let (S0, e0) := use_obj (OPos sid) S in
      ok (at_pc D4pre A) (set_last_pos v S0) (EOp KLoad (LPos sid) 0 0 v true :: e0)
  | D4pre => ok (callsub FR1 D4b (withr (set_r_obj (OGroup (r_g R)) R) A)) S []
  | D4b => ok (callsub FR1 D4c (withr (set_r_obj (OPos sid) R) A)) S []
  | D4c => let (S1, e1) := dealloc_obj (OMeta sid) S in ok (at_pc D5 A) S1 e1
  | D5 =>
      let g := cur S in
      let e := [EOp KPld LReaders 0 0 g true] in
      match ggroup S g with
      | [] => ok (at_pc D6 A) S e
      | _ :: _ => ok (at_pc RDtok A) S e
      end
  | D6 =>
      let old := signal S in
      let nw := if N.odd (old / 2) then old else old + 2 in
      ok (at_pc RDtok A) (set_signal nw S) [EOp KFor LSignal 2 0 old true]
  | RDtok => ok (callsub RT0 RDfin A) S []
  | RDfin => if is_fut_recv A then ok (callsub PF1 RDfin2 A) S [] else ok (at_pc RDfin2 A) S []
  | RDfin2 =>
      match r_call R with
      | CIntoSingle => ok (at_pc FI5 (set_a_tok (r_tgt R) A)) S []
      | CIntoMulti =>
          ok (at_pc FIN (setres RUnit
                (set_a_role RFRecv (set_a_multi false (set_a_tok (r_tgt R) (set_a_sid (r_ns R) A)))))) S []
      | CTransform =>
          ok (at_pc FIN (setres RUnit
                (set_a_role RFUni (set_a_multi false (set_a_tok (r_tgt R) (set_a_sid (r_ns R) A)))))) S []
      | _ =>
          let r := match r_call R, a_role A, c_fl c with
                   | CUnsub, RUni, BCast => RUnit
                   | CUnsub, _, _ => RBool (r_last R)
                   | _, _, _ => RUnit
                   end in
          let (S1, e1) := release_handle c S in
          ok (at_pc Done (set_a_alive false A)) (hist (HRet me r (g_clock S1)) S1) (e1 ++ [ERet r])
      end
  | A1 => ok (at_pc A2pre (withr (set_r_g (cur S) R) A)) S [EOp KPld LReaders 0 0 (cur S) true]
  | A2pre =>
      let (S0, e0) := use_obj (OGroup (r_g R)) S in
      ok (at_pc A2 A) S0 (ETouch (r_g R) :: e0)
  | A2 =>
      let g := r_g R in
      let raw := gpos S sid in
      let (S0, e0) := use_obj (OPos sid) S in
      let ns := nsid S0 in
      let ng := ngid S0 in
      let (S1, e1) := alloc_obj (OMeta ns) (set_ngid (ng + 1) (set_nsid (ns + 1) S0)) in
      let (S2, e2) := alloc_obj (OGroup ng) S1 in
      let (S3, e3) := alloc_obj (OPos ns) S2 in
      let S4 := set_groups (put (groups S3) ng (ggroup S3 g ++ [ns]))
                  (set_cons (put (cons S3) ns 1) (set_pos (put (pos S3) ns raw) S3)) in
      ok (at_pc A3 (withr (set_r_ng ng (set_r_ns ns R)) A)) S4
         (EOp KLoad (LPos sid) 0 0 raw true :: e0 ++ e1 ++ e2 ++ e3)
  | A3 =>
      let g := r_g R in
      let curv := cur S in
      if curv =? g then
        ok (callsub FR1 A4 (withr (set_r_obj (OGroup g) R) A))
           (set_g_start (put (g_start S) (r_ns R) (gpos S (r_ns R))) (set_cur (r_ng R) S))
           [EOp KPcas LReaders g (r_ng R) curv true]
      else
        let (S1, e1) := dealloc_all [OMeta (r_ns R); OPos (r_ns R); OGroup (r_ng R)] S in
        ok (at_pc A2pre (withr (set_r_g curv R) A)) S1 (EOp KPcas LReaders g (r_ng R) curv false :: e1)
  | A4 => ok (callsub GT1 A5 A) S []
  | A5 =>
      match r_call R with
      | CAddStream a' =>
          Some (mkout (at_pc FIN (setres RUnit A)) (set_handles (handles S + 1) S) []
                      (Some (a', new_agent (a_role A) false (r_ns R) (r_tmp R) empty_regs)) [])
      | _ => ok (at_pc RD0 (withr (set_r_tgt (r_tmp R) R) A)) S []
      end
  | IS0 =>
      let v := gcons S sid in
      let (S0, e0) := use_obj (OMeta sid) S in
      let e := EOp KLoad (LCons sid) 0 0 v true :: e0 in
      if v =? 1 then ok (at_pc FIN (setres (RBool true) (set_a_role RUni A))) S0 e
      else ok (at_pc FIN (setres (RBool false) A)) S0 e
  | IM0 => ok (at_pc FIN (setres RUnit (set_a_role RRecv A))) S []
  | FI0 =>
      let old := gcons S sid in
      let (S0, e0) := use_obj (OMeta sid) S in
      ok (callsub GT1 FI1 (set_a_multi true A)) (set_cons (put (cons S0) sid (wadd old 1)) S0)
         (EOp KFadd (LCons sid) 1 0 old true :: e0)
  | FI1 => ok (at_pc RD0 (withr (set_r_tgt (r_tmp R) R) A)) S []
  | FI5 =>
      let v := gcons S sid in
      let (S0, e0) := use_obj (OMeta sid) S in
      let e := EOp KLoad (LCons sid) 0 0 v true :: e0 in
      if v =? 1 then ok (at_pc FIN (setres (RBool true) (set_a_role RFUni A))) S0 e
      else ok (at_pc FIN (setres (RBool false) A)) S0 e
  | PC0 => ok (at_pc FIN (setres ROk A)) S []
  | FIN =>
      ok (at_pc Idle A) (hist (HRet me (r_res R) (g_clock S)) S) [ERet (r_res R)]
  | _ => None
  end.

Definition micro (A : agent) (S : shared) : option out :=
  match m_send A S with Some o => Some o | None =>
  match m_gmd A S with Some o => Some o | None =>
  match m_mem A S with Some o => Some o | None =>
  match m_notify A S with Some o => Some o | None =>
  match m_recv A S with Some o => Some o | None =>
  match m_wait A S with Some o => Some o | None =>
  match m_fut A S with Some o => Some o | None =>
  m_handle A S end end end end end end end.

(* a weak compare-exchange that fails although the value matched *)
Definition micro_spur (A : agent) (S : shared) : option out :=
  let R := a_r A in
  match a_pc A with
  | M5 =>
      let curv := head S in
      ok (at_pc M2 (withr (set_r_h curv R) A)) S
         [EOp KCasW LHead (r_h R) (next_count (r_h R)) curv false]
  | R12 =>
      if r_am R then None
      else
        let sid := a_sid A in
        let curv := gpos S sid in
        let (S0, e0) := use_obj (OPos sid) S in
        let (S1, e1) := if is_bcast c then drop_opt (r_val R) S0 else (S0, []) in
        ok (at_pc R4 (withr (set_r_val None (set_r_p curv R)) A)) S1
           (EOp KCasW (LPos sid) (r_p R) (next_count (r_p R)) curv false :: e0 ++ e1)
  | _ => None
  end.

End Micro.

(* ------------------------------------------------------------------ *)
(* which calls a handle admits, and where they start                    *)
Definition entry (c : cfg) (r : role) (cl : call) : option pcl :=
  match r, cl with
  | RSender, CTrySend _ | RFSender, CTrySend _ => Some TSbegin
  | RSender, CClone _ | RFSender, CClone _ => Some SC0
  | RSender, CDrop | RFSender, CDrop => Some SD0
  | RFSender, CStartSend _ | RFSender, CAStartSend _ => Some SSbegin
  | RFSender, CPollComplete => Some PC0
  | RRecv, CTryRecv | RRecv, CRecv | RUni, CTryRecv | RUni, CRecv
  | RUni, CTryView | RUni, CView
  | RFRecv, CTryRecv | RFRecv, CRecv | RFRecv, CPoll | RFRecv, CAPoll
  | RFUni, CTryRecv | RFUni, CRecv | RFUni, CPoll | RFUni, CAPoll => Some E0
  | RRecv, CClone _ | RFRecv, CClone _ => Some RC0
  | RRecv, CAddStream _ | RFRecv, CAddStream _ => if is_bcast c then Some A1 else None
  | RFUni, CAddStream _ | RFUni, CTransform | RFUni, CIntoMulti => Some A1
  | RRecv, CUnsub | RRecv, CDrop | RUni, CUnsub | RUni, CDrop
  | RFRecv, CUnsub | RFRecv, CDrop | RFUni, CUnsub | RFUni, CDrop => Some RD0
  | RRecv, CIntoSingle => Some IS0
  | RUni, CIntoMulti => Some IM0
  | RFRecv, CIntoSingle => Some FI0
  | _, _ => None
  end.

(* ------------------------------------------------------------------ *)
Record state := mkstate { sh : shared; ags : fmap agent }.

Inductive label := Start (a : N) (cl : call) | Step (a : N) | Spur (a : N).

Definition FUEL : nat := 64.

Fixpoint notify_all (l : list N) (m : fmap agent) : fmap agent :=
  match l with
  | [] => m
  | a :: l' => notify_all l' (match get m a with
                              | Some A => put m a (set_a_notified true A)
                              | None => m
                              end)
  end.

(* the effect of one micro-step of agent [a] on the global state *)
Definition apply1 (s : state) (a : N) (o : out) : state :=
  let m1 := put (ags s) a (o_a o) in
  let m2 := match o_new o with Some (a', A') => put m1 a' A' | None => m1 end in
  mkstate (o_s o) (notify_all (o_ntf o) m2).

(* a step that hands a new handle to agent [a'] needs that identifier to be unused still
   (identifiers are a modelling device: the environment picks a fresh one for every new handle) *)
Definition new_ok (s : state) (a : N) (o : out) : bool :=
  match o_new o with
  | Some (a', _) => negb (a' =? a) && match get (ags s) a' with None => true | Some _ => false end
  | None => true
  end.

Definition mstep (c : cfg) (s : state) (a : N) : option (state * list ev) :=
  match get (ags s) a with
  | Some A => match micro c a A (sh s) with
              | Some o => if new_ok s a o then Some (apply1 s a o, o_ev o) else None
              | None => None
              end
  | None => None
  end.

(* run agent [a]'s thread-local code up to its next scheduling point *)
Fixpoint settle (fuel : nat) (c : cfg) (a : N) (s : state) (evs : list ev) : option (state * list ev) :=
  match get (ags s) a with
  | Some A =>
      if is_local (a_pc A) then
        match fuel with
        | O => None
        | S f => match mstep c s a with
                 | Some (s', e) => settle f c a s' (evs ++ e)
                 | None => None
                 end
        end
      else Some (s, evs)
  | None => None
  end.

Definition ticked (r : option (state * list ev)) : option (state * list ev) :=
  match r with
  | Some (s, e) => Some (mkstate (tick (sh s)) (ags s), e)
  | None => None
  end.

(* a call that creates a handle names the agent that receives it: it must not exist yet *)
Definition fresh_target (s : state) (a : N) (cl : call) : bool :=
  match cl with
  | CClone a' | CAddStream a' => negb (a' =? a) && match get (ags s) a' with None => true | Some _ => false end
  | _ => true
  end.

Definition begin_call (s : state) (a : N) (A : agent) (cl : call) (pc : pcl) : state :=
  let A1 := at_pc pc (withr (set_r_res RNoRes (set_r_call cl (a_r A))) (set_a_notified false A)) in
  mkstate (hist (HCall a cl (g_clock (sh s))) (sh s)) (put (ags s) a A1).

Definition stepx (c : cfg) (s : state) (l : label) : option (state * list ev) :=
  match l with
  | Start a cl =>
      match get (ags s) a with
      | Some A =>
          match a_pc A, a_alive A, entry c (a_role A) cl with
          | Idle, true, Some pc =>
              if fresh_target s a cl then ticked (settle FUEL c a (begin_call s a A cl pc) [EStart cl])
              else None
          | _, _, _ => None
          end
      | None => None
      end
  | Step a =>
      match get (ags s) a with
      | Some A =>
          if enabled a A (sh s) then
            match mstep c s a with
            | Some (s', e) => ticked (settle FUEL c a s' e)
            | None => None
            end
          else None
      | None => None
      end
  | Spur a =>
      match get (ags s) a with
      | Some A =>
          match micro_spur c A (sh s) with
          | Some o => ticked (settle FUEL c a (apply1 s a o) (o_ev o))
          | None => None
          end
      | None => None
      end
  end.

Definition step (c : cfg) (s : state) (l : label) : option state :=
  match stepx c s l with Some (s', _) => Some s' | None => None end.

(* ------------------------------------------------------------------ *)
(* the state right after broadcast_queue / mpmc_queue / *_fut_queue      *)
Definition init_shared : shared :=
  mkshared 0 0 1
    [] [] []
    [(0, 0)] [(0, 1)] [(0, [0])] 0 0
    0 0 0
    [0; 1] [(0, 0); (1, 0)] [] []
    None None None None None
    [] [] [] []
    [OTok 1; OTok 0; OPos 0; OGroup 0; OMeta 0; ORefs; ORing] []
    1 1 2 0 2 false
    [] [] [(0, 0)]
    [] [] [] 0
    [].

Definition init (fut : bool) : state :=
  mkstate init_shared
    [(0, new_agent (if fut then RFSender else RSender) false 0 0 empty_regs);
     (1, new_agent (if fut then RFRecv else RRecv) false 0 1 empty_regs)].

Definition mk_cfg (fl : flavour) (cap_req : N) (wk : waitk) : cfg :=
  mkcfg fl (get_valid_wrap cap_req) wk.
