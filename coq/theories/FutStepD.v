(* Case analysis for C14: how a consumer task becomes a parked task. *)
From Coq Require Import NArith List Bool Lia.
Require Import MQ.Arith64 MQ.Arith64Facts MQ.Types MQ.State MQ.Model MQ.Exec MQ.Reach MQ.Ctl MQ.Count MQ.WritersStep
  MQ.RecvDefs MQ.RecvStep MQ.NpDefs MQ.FutDefs.
Import ListNotations.
Open Scope N_scope.

Definition is_notready (r : res) : bool := match r with RNotReady => true | _ => false end.

(* the program-counter part of "has parked itself inside a poll": after the parking step, until the poll returns (an
   asynchronous poll stays at AW until it is notified) *)
Definition fwpc (A : agent) : bool :=
  match a_pc A with
  | FP3 => true
  | AW => match r_call (a_r A) with CAPoll => true | _ => false end
  | PLfin | PLafter | RVafter => is_notready (r_res (a_r A))
  | PN1 => match a_stack A with PLfin :: _ => is_notready (r_res (a_r A)) | _ => false end
  | _ => false
  end.

(* a consumer task that has parked itself and has not been notified since *)
Definition fwait (A : agent) : bool := negb (a_notified A) && fwpc A.

Lemma micro_fwpc c me A S o :
  micro c me A S = Some o -> ctl_ok A = true -> fwpc (o_a o) = true ->
  (fwpc A = true /\ r_cnt (a_r (o_a o)) = r_cnt (a_r A) /\ r_slot (a_r (o_a o)) = r_slot (a_r A) /\
   (a_notified (o_a o) = a_notified A \/ a_pc A = AW)) \/
  (a_pc A = FP2 /\ r_last (a_r A) = false /\ r_cnt (a_r (o_a o)) = r_cnt (a_r A) /\ r_slot (a_r (o_a o)) = r_slot (a_r A) /\
   a_notified (o_a o) = a_notified A).
Proof.
  intros H Q. destruct A as [role alive multi sid tok pc stack R notified parked]. unfold fwpc, is_notready.
  destruct pc; micro_cases H; cbn [o_a]; pre_case Q Q1 Q2 Q3; try split_frame Q1 Q2; cbn;
    first [ solve [intros X; discriminate X]
          | solve [intros X; left; split; [first [reflexivity|exact X]|split; [reflexivity|split; [reflexivity|left; reflexivity]]]]
          | solve [intros X; left; split; [first [reflexivity|exact X]|split; [reflexivity|split; [reflexivity|right; reflexivity]]]]
          | solve [intros X; right; repeat split; auto]
          | solve [intros X; left; split; [first [reflexivity|exact X]|split; [reflexivity|split; [reflexivity|left; reflexivity]]]]
          | solve [intros X; match goal with H0 : r_res _ = _ |- _ => rewrite H0 in X end; discriminate X]
          | solve [intros X; left; match goal with H0 : r_res _ = _ |- _ => rewrite H0 end; repeat split; auto] ].
Qed.
