(* No call panics (C09, C15): the expect of the single-writer tail reload never fires, a commit always holds a
   value.  For every execution without an F11 step. *)
From Coq Require Import NArith List Bool Lia.
Require Import MQ.Arith64 MQ.Arith64Facts MQ.Types MQ.State MQ.Model MQ.Exec MQ.Reach MQ.Fields MQ.Ctl MQ.Count MQ.SumCount
  MQ.WritersStep MQ.InvWriters MQ.HeadStep MQ.InvHead MQ.RecvDefs MQ.RecvStep MQ.InvRecv MQ.InvReg MQ.NewAgentStep MQ.WinStep MQ.WinDefs MQ.InvWin
  MQ.SlotDefs MQ.InvSlot MQ.InvDeliv MQ.NoPanicStep MQ.NoPanicStepB.
Import ListNotations.
Open Scope N_scope.

Section NP.
Variable c : cfg.
Notation N := (c_n c).
Hypothesis Npos : 0 < N.
Hypothesis Nsmall : N <= B61.

Definition np_ok (A : agent) : Prop := nnb A = true /\ panicked (r_res (a_r A)) = false.

Definition NoPanicInv (s : state) : Prop := SmallW s -> forall a A, get (ags s) a = Some A -> np_ok A.

Lemma np_notified A b : np_ok (set_a_notified b A) <-> np_ok A.
Proof. destruct A; unfold np_ok, nnb; cbn; tauto. Qed.

Lemma entry_nn r cl pc : entry c r cl = Some pc -> pc <> G2 /\ pc <> G3 /\ pc <> P3pre.
Proof.
  unfold entry. destruct r, cl; try (intros X; discriminate X); try (destruct (is_bcast c); try (intros X; discriminate X));
    intros X; injection X as <-; repeat split; discriminate.
Qed.

Lemma spur_res A S o : micro_spur c A S = Some o ->
  r_res (a_r (o_a o)) = r_res (a_r A) /\ (a_pc (o_a o) = M2 \/ a_pc (o_a o) = R4).
Proof.
  intros H. destruct A as [role alive multi sid tok pc stack R notified parked].
  unfold micro_spur, ok in H. cbn in H. destruct pc; try discriminate H.
  - injection H as <-. cbn. auto.
  - destruct (r_am R); [discriminate|]. unfold use_obj, bad, drop_opt, drop_val in H. cbn in H.
    break_hyp H; injection H as <-; cbn; auto.
Qed.

Theorem nopanic_mreachN fut s : mreachN c fut s -> NoPanicInv s.
Proof.
  intros RN. induction RN as [|s0 a A cl pc RN IH EA Hpc Hal He FT0|s0 x X o RN IH EX EN M NO NF|s0 a A o RN IH EA M|s0 RN IH].
  - intros _ a A EA. cbn in EA. unfold get in EA. cbn in EA.
    destruct (N.eqb a 0); [injection EA as <-; destruct fut; split; reflexivity|].
    destruct (N.eqb a 1); [injection EA as <-; destruct fut; split; reflexivity|discriminate].
  - intros SM. unfold begin_call in *. destruct SM as [S1 S2]. cbn [ags sh] in *.
    rewrite (len_put_same _ _ _ _ EA) in S1.
    change (g_log (hist (HCall a cl (g_clock (sh s0))) (sh s0))) with (g_log (sh s0)) in S2.
    pose proof (IH (conj S1 S2)) as I0.
    intros b B EB. rewrite get_put in EB. destruct (N.eqb b a) eqn:E; [|apply (I0 b B EB)].
    injection EB as <-. destruct (entry_nn _ _ _ He) as (P1 & P2' & P3').
    split; [|destruct A; reflexivity].
    unfold nnb. destruct A; cbn. destruct pc; try reflexivity; congruence.
  - intros SM'.
    pose proof (small_back c Npos Nsmall s0 x X o EX M SM') as SM.
    pose proof (IH SM) as I0.
    pose proof (mreachN_mreach c fut s0 RN) as R.
    pose proof (ctl_mreach c fut s0 R x X EX) as QX.
    intros b B EB.
    destruct (apply1_get _ _ _ _ _ EB) as (B0 & HB & Hsrc).
    assert (W0 : np_ok B0); [|destruct HB as [-> | ->]; [exact W0|apply np_notified; exact W0]].
    destruct Hsrc as [(a' & Hn & ->) | [(-> & ->) | (Hne & EB0)]].
    + destruct (micro_new_idle _ _ _ _ _ _ _ M Hn) as (EI & _ & _ & ER). split; [unfold nnb; rewrite EI; reflexivity|].
      rewrite ER. reflexivity.
    + destruct (I0 x X EX) as (NX & PX).
      destruct (win_mreachN c Npos Nsmall fut s0 RN SM) as (G & _).
      destruct (slot_mreachN c Npos Nsmall fut s0 RN SM) as (SG & _).
      split.
      * apply (micro_nn _ _ _ _ _ M QX NX). intros PP g.
        destruct SM as [SMa _].
        pose proof (proj1 (head_mreach c fut s0 R SMa) x X EX PP) as EH.
        pose proof (sg_pos c _ SG g) as LE. pose proof (w_head_small c _ G) as HS.
        rewrite EH. rewrite past_spec by lia.
        destruct (gpos (sh s0) g <=? head (sh s0)) eqn:E; [reflexivity|]. apply N.leb_gt in E. lia.
      * destruct (panicked (r_res (a_r (o_a o)))) eqn:PO; [exfalso|reflexivity].
        destruct (micro_panic _ _ _ _ _ M QX PO) as [K | [(PC & RNONE) | (PC & RV & CM)]].
        -- rewrite PX in K. discriminate K.
        -- unfold nnb in NX. rewrite PC, RNONE in NX. discriminate NX.
        -- pose proof (deliv_mreachN c Npos Nsmall fut s0 RN) as DI.
           assert (EP : gpos (sh s0) (a_sid X) = r_p (a_r X)).
           { apply (dl_commit_pos c Npos Nsmall fut s0 x X o RN SM' EX M).
             destruct PC as [PC | PC]; [left; split; [exact PC|exact (CM PC)]|right; exact PC]. }
           destruct (dl_commit_val c Npos Nsmall fut s0 x X o RN SM' EX M DI PC EP) as (ser & ES & _).
           rewrite RV in ES. discriminate ES.
    + apply (I0 b B0 EB0).
  - intros SM'.
    destruct (spur_shape _ _ _ _ M) as (N0 & _ & _ & _ & _ & _ & _ & _ & _ & EL).
    assert (SM : SmallW s0).
    { destruct SM' as [S1 S2]. split; [pose proof (apply1_len s0 a o); lia|].
      change (sh (apply1 s0 a o)) with (o_s o) in S2. rewrite EL in S2. exact S2. }
    pose proof (IH SM) as I0.
    intros b B EB.
    destruct (apply1_get _ _ _ _ _ EB) as (B0 & HB & Hsrc).
    assert (W0 : np_ok B0); [|destruct HB as [-> | ->]; [exact W0|apply np_notified; exact W0]].
    destruct Hsrc as [(a' & Hn & ->) | [(-> & ->) | (Hne & EB0)]].
    + rewrite N0 in Hn. discriminate Hn.
    + destruct (spur_res _ _ _ M) as (ER & SHP). destruct (I0 a A EA) as (_ & PA).
      split; [unfold nnb; destruct SHP as [-> | ->]; reflexivity|]. rewrite ER. exact PA.
    + apply (I0 b B0 EB0).
  - intros SM. cbn [ags sh] in *. destruct SM as [S1 S2].
    change (g_log (tick (sh s0))) with (g_log (sh s0)) in S2.
    exact (IH (conj S1 S2)).
Qed.

(* no agent ever carries a panic result *)
Theorem no_panic fut s a A :
  mreachN c fut s -> lenN (ags s) < B62 -> lenN (g_log (sh s)) < B62 -> get (ags s) a = Some A ->
  r_res (a_r A) <> RPanic.
Proof.
  intros RN S1 S2 EA E. destruct (nopanic_mreachN fut s RN (conj S1 S2) a A EA) as (_ & P).
  rewrite E in P. discriminate P.
Qed.
End NP.
