(* Case analysis for C08: how a consumer gets to the check and to the sleep. *)
From Coq Require Import NArith List Bool Lia.
Require Import MQ.Arith64 MQ.Arith64Facts MQ.Types MQ.State MQ.Model MQ.Exec MQ.Reach MQ.Ctl MQ.Count MQ.WritersStep
  MQ.RecvDefs MQ.RecvStep.
Import ListNotations.
Open Scope N_scope.

Lemma micro_chksrc c me A S o :
  micro c me A S = Some o -> ctl_ok A = true ->
  (a_pc (o_a o) = C2 -> a_pc A = C1) /\
  (a_pc (o_a o) = B1c -> a_pc A = C2 /\ exists st, a_stack A = B1c :: st) /\
  (a_pc (o_a o) = B2 -> a_pc A = B1c).
Proof.
  intros H Q. destruct A as [role alive multi sid tok pc stack R notified parked].
  destruct pc; micro_cases H; cbn [o_a]; pre_case Q Q1 Q2 Q3; try split_frame Q1 Q2; cbn;
    (split; [|split]); intros X; first [ discriminate X | reflexivity | solve [split; [reflexivity|eexists; reflexivity]] ].
Qed.
