(* Basic vocabulary of the model: finite maps, configuration, calls, results,
   program counters, events.  Definitions only. *)
From Coq Require Import NArith List Bool.
Import ListNotations.
Open Scope N_scope.

(* ---- association-list finite maps keyed by N ---- *)
Definition fmap (A : Type) := list (N * A).

Fixpoint get {A} (m : fmap A) (k : N) : option A :=
  match m with
  | [] => None
  | (k', v) :: m' => if N.eqb k k' then Some v else get m' k
  end.

Fixpoint put {A} (m : fmap A) (k : N) (v : A) : fmap A :=
  match m with
  | [] => [(k, v)]
  | (k', v') :: m' => if N.eqb k k' then (k, v) :: m' else (k', v') :: put m' k v
  end.

Definition getd {A} (d : A) (m : fmap A) (k : N) : A :=
  match get m k with Some v => v | None => d end.

Fixpoint memN (x : N) (l : list N) : bool :=
  match l with [] => false | y :: l' => N.eqb x y || memN x l' end.

Fixpoint removeN (x : N) (l : list N) : list N :=
  match l with [] => [] | y :: l' => if N.eqb x y then removeN x l' else y :: removeN x l' end.

Definition lenN {A} (l : list A) : N := N.of_nat (length l).

(* ---- configuration ---- *)
Inductive flavour := BCast | MPMC.
Inductive waitk :=
| WBusy
| WYield (sf sy : N)
| WBlock (sf sy : N)
| WFut (sf sy : N).

Record cfg := mkcfg { c_fl : flavour; c_n : N; c_wk : waitk }.

Definition is_bcast (c : cfg) : bool := match c_fl c with BCast => true | MPMC => false end.
Definition needs_notify (c : cfg) : bool :=
  match c_wk c with WBusy | WYield _ _ => false | WBlock _ _ | WFut _ _ => true end.

(* ---- handles, calls, results ---- *)
Inductive role := RSender | RRecv | RUni | RFSender | RFRecv | RFUni.

Inductive call :=
| CNone
| CTrySend (v : N)
| CTryRecv | CRecv | CTryView | CView
| CClone (a' : N) | CAddStream (a' : N)
| CUnsub | CDrop
| CIntoSingle | CIntoMulti
| CStartSend (v : N) | CAStartSend (v : N)
| CPoll | CAPoll
| CPollComplete
| CTransform.

Inductive res :=
| RNoRes
| ROk                 (* try_send Ok / AsyncSink::Ready *)
| RFull (ser : N)     (* TrySendError::Full(v) / NotReady(v) *)
| RDisc (ser : N)     (* TrySendError::Disconnected(v) / Err(SendError(v)) *)
| RVal (ser : N)      (* Ok(v) / Ready(Some v) *)
| REmpty              (* TryRecvError::Empty *)
| RDiscon             (* TryRecvError::Disconnected / RecvError / Ready(None) *)
| RNotReady           (* Async::NotReady from poll *)
| RBool (b : bool)
| RUnit
| RPanic.

(* heap objects handed out by alloc.rs *)
Inductive obj := ORing | ORefs | OGroup (g : N) | OPos (s : N) | OMeta (s : N) | OTok (t : N).

Definition obj_eqb (a b : obj) : bool :=
  match a, b with
  | ORing, ORing | ORefs, ORefs => true
  | OGroup x, OGroup y | OPos x, OPos y | OMeta x, OMeta y | OTok x, OTok y => N.eqb x y
  | _, _ => false
  end.

Fixpoint mem_obj (o : obj) (l : list obj) : bool :=
  match l with [] => false | y :: l' => obj_eqb o y || mem_obj o l' end.
Fixpoint remove_obj (o : obj) (l : list obj) : list obj :=
  match l with [] => [] | y :: l' => if obj_eqb o y then l' else y :: remove_obj o l' end.

(* ---- shared locations and operations (one per scheduling point) ---- *)
Inductive loc :=
| LHead | LTailc | LWriters | LTag (i : N) | LPin (i : N)
| LPos (s : N) | LCons (s : N) | LReaders | LSignal | LEpoch | LTok (t : N)
| LMm | LWtf | LBw | LBwCv | LCp | LPp | LNone.

Inductive opk :=
| KLoad | KStore | KCas | KCasW | KFadd | KFsub | KFor | KFand | KPld | KPcas
| KLock | KTryLock | KCvWait | KWake | KCvNotify | KYield | KSleep
| KCloneMid | KViewMid | KAwait.

Inductive ev :=
| EStart (c : call)
| EOp (k : opk) (l : loc) (a b r : N) (ok : bool)
| EAlloc (o : obj) | EDealloc (o : obj)
| EUnlock (l : loc)
| ETouch (g : N)
| ENotify (a : N)
| EBorn (ser id : N)
| EClone (ser from : N)
| EDropV (ser : N)
| EBad (what : N)
| ERet (r : res).

(* ghost history *)
Inductive hev :=
| HCall (a : N) (c : call) (t : N)
| HRet (a : N) (r : res) (t : N)
| HClaim (a : N) (ser p : N) (t : N)
| HDeliver (a : N) (sid p ser : N) (t : N).

(* ---- program counters: O* perform one shared-memory operation, L* are local ---- *)
Inductive pcl :=
| Idle | Done
(* try_send *)
| TSbegin | TS0 | TS0b | TSmode | TS1 | P1 | P2 | P3pre | P3 | P4pre | P4 | P5 | P6 | P7
| M1 | M2 | M3pre | M3 | M3b | M3post | M4pre | M4 | M5 | TSdone | TSret | TSfin
(* get_max_diff *)
| G1 | G2 | G3
(* update_token / get_token / remove_token / free *)
| U1 | U2 | U3 | GT1 | GT2 | RT0 | RT1 | RT2
| FR1 | FR2 | FR3 | FR4 | FR4b | FR5pre | FR5 | FR6 | FR7 | FR8
(* notify *)
| NTF | N1 | N2 | FN1 | PN1 | PF1
(* receive *)
| E0 | E0ret | R1pre | R1 | R2 | R3 | R1n | R2n | R4 | R5 | R6 | R6b | R7 | R8 | R9 | R10 | KC | R11 | R12
| V1 | V5 | V6 | VK | V4
| TRfin | TRfin2 | RVloop | RVafter | RVfin | W0
(* wait *)
| C1 | C2 | WT | WB2 | WY1 | WY2 | WY3 | WY4 | WY5
| WK1 | WK2 | WK3 | WK4 | WK5 | B1 | B1c | B2 | B2w | B3c | WF1 | WF2 | WFy
(* futures *)
| PLafter | PLfin | PW0 | FS1 | FS2 | FS3 | FS4 | FS5 | FS6 | FP1 | FP2 | FP3 | AW
| SSbegin | SS0 | SS1 | SS2 | SS3 | SS4 | SS5 | SS6 | SP1 | SP2 | SSdone | SSret
(* handle population *)
| SC0 | SC1 | SD0 | SD1 | SD2 | RC0 | RC1
| RD0 | D1 | D2pre | D2 | D3 | D4pre | D4b | D4c | D5 | D6 | RDtok | RDfin | RDfin2
| A1 | A2pre | A2 | A3 | A4 | A5 | IS0 | IM0 | FI0 | FI1 | FI5 | PC0 | FIN.

