(* Stream cursors: an attempt that commits with a plain store still holds the current position
   (it runs on a handle that is the only consumer of its stream), so every cursor write advances
   the cursor by exactly one; a new stream starts at its parent's position. *)
From Coq Require Import NArith List Bool Lia.
Require Import MQ.Arith64 MQ.Arith64Facts MQ.Types MQ.State MQ.Model MQ.Exec MQ.Reach MQ.Ctl MQ.Count MQ.SumCount
  MQ.AgentInv MQ.AgentInvCtl MQ.WritersStep MQ.InvWriters MQ.RecvDefs MQ.RecvStep MQ.FreshStep MQ.KnownStep MQ.InvRecv
  MQ.SoleDefs MQ.SoleStepA MQ.SoleStepB MQ.NoClaimStep MQ.InvSole MQ.PosStep MQ.AttStep MQ.NewAgentStep.
Import ListNotations.
Open Scope N_scope.

(* inside try_recv the agent is a live receiver handle of its stream *)
Lemma ftr_wh A : ctl_ok A = true -> fn_of (a_pc A) = FTR -> w_h (a_sid A) A = true.
Proof.
  intros Q B. destruct A as [role alive multi sid tok pc stack R notified parked].
  unfold ctl_ok in Q. unfold w_h, topc, recv_role. cbn in Q, B |- *.
  apply andb_prop in Q as [Q Q3]. apply andb_prop in Q as [Q1 Q2].
  destruct stack as [|k st]; [destruct pc; cbn in B; try discriminate B; cbn in Q1; discriminate Q1|].
  assert (F : wfS FTR (k :: st) = true) by (rewrite <- B; exact Q1).
  cbn in F. apply andb_prop in F as [K F1].
  destruct k; cbn in K; try discriminate K; cbn in F1;
    (destruct st; [|cbn in F1; discriminate F1]);
    cbn in Q2; destruct pc; cbn in B; try discriminate B; cbn in Q2, Q3 |- *;
    destruct (r_call R); cbn in Q2; try discriminate Q2;
    destruct role; cbn in Q2 |- *; try discriminate Q2;
    apply eqb_prop in Q3; subst alive; rewrite N.eqb_refl; reflexivity.
Qed.

Lemma ap_in_ftr A : ap_phase A = true -> fn_of (a_pc A) = FTR.
Proof.
  unfold ap_phase. destruct A as [role alive multi sid tok pc stack R notified parked]. cbn.
  destruct pc; cbn; intros X; try discriminate X; reflexivity.
Qed.

Lemma ap_claims A : ctl_ok A = true -> ra_ok A = true -> ap_phase A = true -> claims_sole A = true.
Proof.
  intros Q U P. pose proof (ftr_wh A Q (ap_in_ftr A P)) as WH.
  unfold claims_sole. rewrite WH. cbn [andb].
  unfold ra_ok, att_ok in U. apply andb_prop in U as [_ U]. apply andb_prop in U as [U U3]. apply andb_prop in U as [U1 _].
  unfold ap_phase in P. destruct A as [role alive multi sid tok pc stack R notified parked]. cbn in *.
  destruct pc; cbn in P, U1, U3 |- *; try discriminate P;
    destruct (r_am R), (r_single R), multi, (uni_role role); cbn in *; try discriminate; reflexivity.
Qed.

Lemma commit_in_ftr A : (a_pc A = R12 \/ a_pc A = V4) -> fn_of (a_pc A) = FTR.
Proof. intros [->| ->]; reflexivity. Qed.

Lemma micro_r2 c me A S o : micro c me A S = Some o -> (a_pc A = R2 \/ a_pc A = R2n) -> r_p (a_r (o_a o)) = gpos S (a_sid A).
Proof.
  intros H E. destruct A as [role alive multi sid tok pc stack R notified parked].
  cbn in E. unfold gpos. destruct E as [-> | ->]; micro_cases H; reflexivity.
Qed.

Definition AP (s : state) : Prop :=
  forall a A, get (ags s) a = Some A -> ap_phase A = true -> r_p (a_r A) = gpos (sh s) (a_sid A).

Definition PosInv (s : state) : Prop := lenN (ags s) < B62 -> AP s.

Lemma ap_fields_notified A : r_p (a_r (set_a_notified true A)) = r_p (a_r A) /\ a_sid (set_a_notified true A) = a_sid A.
Proof. destruct A; split; reflexivity. Qed.

Theorem pos_mreach c fut s : mreach c fut s -> PosInv s.
Proof.
  apply mreach_inv2.
  - (* begin_call *)
    intros s0 a A cl pc R I EA Hpc Hal He _ Small.
    unfold begin_call in *. cbn [ags sh] in *.
    rewrite (len_put_same _ _ _ _ EA) in Small. specialize (I Small).
    intros b B EB PB. cbn [ags sh] in *. change (gpos (hist _ (sh s0)) (a_sid B)) with (gpos (sh s0) (a_sid B)).
    rewrite get_put in EB. destruct (N.eqb b a) eqn:E.
    + injection EB as <-. exfalso. clear -He PB.
      destruct A as [role alive multi sid tok pc0 stack R0 notified parked]. unfold ap_phase in PB. cbn in *.
      unfold entry in He.
      destruct role, cl; try discriminate He; try (destruct (is_bcast c); try discriminate He);
        injection He as <-; discriminate PB.
    + apply (I b B EB PB).
  - (* micro *)
    intros s0 x X o R I EX _ M NO Small.
    assert (Small0 : lenN (ags s0) < B62) by (pose proof (apply1_len s0 x o); lia).
    specialize (I Small0).
    pose proof (ctl_mreach c fut s0 R) as CT.
    pose proof (ra_mreach c fut s0 R) as RA.
    destruct (recv_mreach c fut s0 R) as (ND & FR & UQ & CE).
    pose proof (sole_mreach c fut s0 R Small0) as SO.
    intros b B EB PB. change (sh (apply1 s0 x o)) with (o_s o).
    destruct (apply1_get _ _ _ _ _ EB) as (B0 & HB & Hsrc).
    assert (PB0 : ap_phase B0 = true /\ r_p (a_r B) = r_p (a_r B0) /\ a_sid B = a_sid B0).
    { destruct HB as [->| ->]; [auto|]. destruct (ap_fields_notified B0) as [X1 X2]. rewrite ap_notified in PB. auto. }
    destruct PB0 as (PB0 & -> & ->). clear HB PB EB B.
    destruct Hsrc as [(a' & Hn & ->) | [(-> & ->) | (Hne & EB0)]].
    + destruct (micro_new_idle _ _ _ _ _ _ _ M Hn) as (EI & _). unfold ap_phase in PB0. rewrite EI in PB0. discriminate.
    + destruct (micro_ap _ _ _ _ _ M (CT _ _ EX) PB0) as (ES & EG & PH & _).
      rewrite ES, EG. destruct PH as [PX | PX].
      * destruct (micro_rp _ _ _ _ _ M) as [E | E]; rewrite E; [apply (I x X EX PX)|reflexivity].
      * apply (micro_r2 _ _ _ _ _ M PX).
    + rewrite (I b B0 EB0 PB0).
      destruct (micro_pos (a_sid B0) _ _ _ _ _ M) as [PS | [(ES & PC & _) | (PA & ES & _)]].
      * symmetry. exact PS.
      * exfalso.
        pose proof (ftr_wh X (CT _ _ EX) (commit_in_ftr X PC)) as WX. rewrite ES in WX.
        pose proof (ap_claims B0 (CT _ _ EB0) (RA _ _ EB0) PB0) as CB.
        pose proof (SO b B0 EB0 CB) as S1.
        pose proof (wh_wt_pos _ b B0 (claims_wh _ CB)) as W1.
        pose proof (wh_wt_pos _ x X WX) as W2.
        pose proof (sumf_two_le (wt (a_sid B0)) (ags s0) x X b B0 ND (fun E => Hne (eq_sym E)) EX EB0). lia.
      * exfalso. destruct (FR b B0 EB0) as (F1 & _). lia.
  - (* spurious failure *)
    intros s0 a A o R I EA M Small.
    destruct (spur_shape _ _ _ _ M) as (N0 & Hr & Ha & Hm & Hs & Hc & Hp & _).
    pose proof (ctl_mreach c fut s0 R a A EA) as QA.
    assert (TOP : o_ntf o = [] /\ (forall sg, gpos (o_s o) sg = gpos (sh s0) sg) /\
                  (ap_phase (o_a o) = true -> r_p (a_r (o_a o)) = gpos (sh s0) (a_sid (o_a o)))).
    { clear -M QA. destruct A as [role alive multi sid tok pc stack R0 notified parked].
      unfold micro_spur, ok in M. cbn in M. unfold ap_phase.
      destruct pc; try discriminate M.
      - injection M as <-. cbn. repeat split; auto. discriminate.
      - destruct (r_am R0) eqn:EA; [discriminate|].
        unfold use_obj, bad, drop_opt, drop_val in M. cbn in M.
        break_hyp M; injection M as <-; cbn; repeat split; auto. }
    destruct TOP as (NT & EG & NAP).
    unfold apply1 in *. rewrite N0, NT in *.
    change (notify_all [] (put (ags s0) a (o_a o))) with (put (ags s0) a (o_a o)) in *.
    cbn [ags sh] in *. rewrite (len_put_same _ _ _ _ EA) in Small. specialize (I Small).
    intros b B EB PB. cbn [ags sh] in *. rewrite EG. rewrite get_put in EB. destruct (N.eqb b a) eqn:E.
    + injection EB as <-. apply NAP. exact PB.
    + apply (I b B EB PB).
  - (* tick *)
    intros s0 R I Small. exact (I Small).
  - (* init *)
    intros _ a A EA PA. exfalso. cbn in EA. unfold get in EA. cbn in EA.
    destruct (N.eqb a 0); [injection EA as <-; destruct fut; discriminate PA|].
    destruct (N.eqb a 1); [injection EA as <-; destruct fut; discriminate PA|discriminate].
Qed.

(* every cursor write advances the cursor by exactly one; a fresh cursor copies its parent's *)
Theorem cursor_steps c fut s a A o sg :
  mreach c fut s -> lenN (ags s) < B62 -> get (ags s) a = Some A -> micro c a A (sh s) = Some o ->
  gpos (o_s o) sg = gpos (sh s) sg \/
  (a_sid A = sg /\ (a_pc A = R12 \/ a_pc A = V4) /\ gpos (o_s o) sg = next_count (gpos (sh s) sg)) \/
  (a_pc A = A2 /\ sg = nsid (sh s) /\ gpos (o_s o) sg = gpos (sh s) (a_sid A)).
Proof.
  intros R Small EA M.
  destruct (micro_pos sg _ _ _ _ _ M) as [PS | [(ES & PC & EP & EC) | PI]]; auto.
  right. left. split; [exact ES|]. split; [exact PC|]. rewrite EP. f_equal.
  destruct (r_am (a_r A)) eqn:EAM.
  - subst sg. apply (pos_mreach c fut s R Small a A EA).
    unfold ap_phase. destruct PC as [-> | ->]; cbn; [now rewrite EAM|reflexivity].
  - destruct PC as [P12 | PV4].
    + symmetry. apply EC. auto.
    + subst sg. apply (pos_mreach c fut s R Small a A EA). unfold ap_phase. rewrite PV4. reflexivity.
Qed.
