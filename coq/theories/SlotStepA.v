(* Case analysis for the slot invariant: which step writes a cell; the value register of a sender. *)
From Coq Require Import NArith List Bool Lia.
Require Import MQ.Arith64 MQ.Arith64Facts MQ.Types MQ.State MQ.Model MQ.Exec MQ.Reach MQ.Ctl MQ.Count MQ.WritersStep
  MQ.RecvDefs MQ.RecvStep.
Import ListNotations.
Open Scope N_scope.

Lemma micro_cells c me A S o :
  micro c me A S = Some o ->
  cells (o_s o) = cells S \/ (a_pc A = P6 /\ cells (o_s o) = put (cells S) (sl c (r_h (a_r A))) (r_v (a_r A))).
Proof.
  intros H. destruct A as [role alive multi sid tok pc stack R notified parked].
  destruct pc; micro_cases H; cbn [o_s]; cbn;
    first [ solve [left; reflexivity] | solve [right; split; reflexivity] ].
Qed.

Lemma micro_rv c me A S o :
  micro c me A S = Some o ->
  r_v (a_r (o_a o)) = r_v (a_r A) \/ a_pc A = TSbegin \/ a_pc A = SSbegin.
Proof.
  intros H. destruct A as [role alive multi sid tok pc stack R notified parked].
  destruct pc; micro_cases H; cbn [o_a]; unfold popret; cbn;
    first [ solve [left; reflexivity] | solve [right; left; reflexivity] | solve [right; right; reflexivity]
          | destruct stack; cbn; solve [left; reflexivity] ].
Qed.

Lemma micro_gdeliv c me A S o :
  micro c me A S = Some o ->
  g_deliv (o_s o) = g_deliv S \/
  ((a_pc A = R12 \/ a_pc A = V4) /\ exists ser, r_val (a_r A) = Some ser /\
   g_deliv (o_s o) = g_deliv S ++ [(a_sid A, r_p (a_r A), ser, me)]).
Proof.
  intros H. destruct A as [role alive multi sid tok pc stack R notified parked].
  destruct pc; micro_cases H; cbn [o_s]; unfold deliver; cbn;
    first [ solve [left; reflexivity]
          | solve [right; split; [auto|eexists; split; [eassumption|reflexivity]]]
          | destruct (r_val R) eqn:EV; cbn;
            first [ solve [left; reflexivity]
                  | solve [right; split; [auto|eexists; split; [reflexivity|reflexivity]]] ] ].
Qed.
