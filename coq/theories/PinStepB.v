(* Case analysis for the reference counts of the slots: a reference is taken only by the increment. *)
From Coq Require Import NArith List Bool Lia.
Require Import MQ.Arith64 MQ.Arith64Facts MQ.Types MQ.State MQ.Model MQ.Exec MQ.Reach MQ.Ctl MQ.Count MQ.WritersStep
  MQ.RecvDefs MQ.RecvStep MQ.PinDefs.
Import ListNotations.
Open Scope N_scope.

Lemma micro_hold c me A S o :
  micro c me A S = Some o -> ctl_ok A = true -> holds (o_a o) = true ->
  a_sid (o_a o) = a_sid A /\ r_p (a_r (o_a o)) = r_p (a_r A) /\
  (holds A = true \/ a_pc A = R7 \/ (a_pc A = R4 /\ a_pc (o_a o) = R8 /\ is_bcast c = false)) /\
  ((a_pc (o_a o) = KC \/ a_pc (o_a o) = R11) -> (a_pc A = R8 /\ gpos S (a_sid A) = r_p (a_r A)) \/ a_pc A = KC).
Proof.
  intros H Q. destruct A as [role alive multi sid tok pc stack R notified parked]. unfold holds.
  destruct pc; micro_cases H; cbn [o_a]; pre_case Q Q1 Q2 Q3; eqb_hyps;
    try split_frame Q1 Q2; cbn;
    repeat (match goal with H0 : r_single _ = _ |- _ => rewrite ?H0 in *; clear H0 end); cbn;
    first [ solve [intros X; discriminate X]
          | solve [intros X; match goal with H0 : r_single _ = _ |- _ => rewrite H0 in X end; discriminate X]
          | solve [intros X; split; [reflexivity|split; [reflexivity|split; [first [left; first [reflexivity|exact X] | right; left; reflexivity | right; right; repeat split; auto]|]]];
                   intros [Y|Y]; first [discriminate Y | solve [left; split; [reflexivity|assumption]] | solve [right; reflexivity]]] ].
Qed.
