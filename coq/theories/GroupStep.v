(* Case analysis: the published stream list (groups, cur) - lists are immutable once allocated,
   identifiers are fresh, the current list changes only by the two publishing compare-exchanges. *)
From Coq Require Import NArith List Bool Lia.
Require Import MQ.Arith64 MQ.Arith64Facts MQ.Types MQ.State MQ.Model MQ.Exec MQ.Reach MQ.Ctl MQ.Count MQ.WritersStep
  MQ.RecvDefs MQ.RecvStep.
Import ListNotations.
Open Scope N_scope.

Definition G_cur_same (S : shared) (o : out) : Prop := cur (o_s o) = cur S.
Definition G_add (A : agent) (S : shared) (o : out) : Prop :=
  a_pc A = A3 /\ cur S = r_g (a_r A) /\ cur (o_s o) = r_ng (a_r A).
Definition G_remove (A : agent) (S : shared) (o : out) : Prop :=
  a_pc A = D2 /\ cur S = r_g (a_r A) /\ cur (o_s o) = r_ng (a_r A).

Lemma micro_groups c me A S o :
  micro c me A S = Some o ->
  ngid S <= ngid (o_s o) /\
  (forall g, g < ngid S -> ggroup (o_s o) g = ggroup S g) /\
  (G_cur_same S o \/ G_add A S o \/ G_remove A S o).
Proof.
  intros H. destruct A as [role alive multi sid tok pc stack R notified parked].
  unfold G_cur_same, G_add, G_remove, ggroup.
  destruct pc; micro_cases H; cbn [o_s]; cbn;
    (split; [lia|]);
    (split; [intros g Hg; rewrite ?getd_put;
             first [ reflexivity
                   | destruct (N.eqb g (ngid S)) eqn:E; [apply N.eqb_eq in E; lia | reflexivity] ] |]);
    eqb_hyps;
    first [ solve [left; reflexivity]
          | solve [right; left; repeat split; auto]
          | solve [right; right; repeat split; auto] ].
Qed.

(* what the allocating steps put into the new list *)
Lemma micro_a2 c me A S o :
  micro c me A S = Some o -> a_pc A = A2 ->
  r_ng (a_r (o_a o)) = ngid S /\ r_ns (a_r (o_a o)) = nsid S /\ r_g (a_r (o_a o)) = r_g (a_r A) /\
  ggroup (o_s o) (ngid S) = ggroup S (r_g (a_r A)) ++ [nsid S] /\
  gpos (o_s o) (nsid S) = gpos S (a_sid A) /\ a_pc (o_a o) = A3.
Proof.
  intros H E. destruct A as [role alive multi sid tok pc stack R notified parked].
  cbn in E. subst pc. unfold ggroup, gpos. micro_cases H; cbn; rewrite ?getd_put, ?N.eqb_refl; repeat split; reflexivity.
Qed.

Lemma micro_d2pre c me A S o :
  micro c me A S = Some o -> a_pc A = D2pre ->
  r_ng (a_r (o_a o)) = ngid S /\ r_g (a_r (o_a o)) = r_g (a_r A) /\ a_sid (o_a o) = a_sid A /\
  ggroup (o_s o) (ngid S) = removeN (a_sid A) (ggroup S (r_g (a_r A))) /\ a_pc (o_a o) = D2.
Proof.
  intros H E. destruct A as [role alive multi sid tok pc stack R notified parked].
  cbn in E. subst pc. unfold ggroup. micro_cases H; cbn; rewrite ?getd_put, ?N.eqb_refl; repeat split; reflexivity.
Qed.

(* the registers that name the lists are not touched between allocation and publication *)
Lemma micro_gregs c me A S o :
  micro c me A S = Some o -> ctl_ok A = true ->
  (a_pc (o_a o) = A3 -> a_pc A = A2) /\
  (a_pc (o_a o) = D2 -> a_pc A = D2pre).
Proof.
  intros H Q. destruct A as [role alive multi sid tok pc stack R notified parked].
  destruct pc; micro_cases H; cbn [o_a]; pre_case Q Q1 Q2 Q3;
    first [ solve [split; intros X; first [discriminate X | reflexivity]]
          | try split_frame Q1 Q2; solve [split; intros X; first [discriminate X | reflexivity]] ].
Qed.
