(* An executable checker for the restricted reachability [mreachN] (micro-steps that are not of the
   known-finding class F11): a schedule of micro-operations is run from a state, every side condition
   of the constructors is tested, and the result is again [mreachN].  Used for the non-vacuity witnesses
   of the window theorem (Props/C03.v). *)
From Coq Require Import NArith List Bool Lia.
Require Import MQ.Arith64 MQ.Types MQ.State MQ.Model MQ.Exec MQ.Reach MQ.WinDefs.
Import ListNotations.
Open Scope N_scope.

Definition f11_badb (S : shared) (X : agent) : bool :=
  match a_pc X with
  | A3 => (cur S =? r_g (a_r X)) && negb (gpos S (r_ns (a_r X)) =? gpos S (a_sid X))
  | _ => false
  end.

Lemma f11_badb_spec S X : f11_badb S X = false -> ~ f11_bad S X.
Proof.
  unfold f11_badb, f11_bad. intros H (PC & EC & NE). rewrite PC in H.
  apply N.eqb_eq in EC. rewrite EC in H. cbn in H. apply negb_false_iff in H. apply N.eqb_eq in H. contradiction.
Qed.

Inductive mop := MBegin (a : N) (cl : call) | MStep (a : N) | MSteps (a : N) (k : nat) | MSpur (a : N) | MTick | MCall (a : N) (cl : call) (fuel : nat).

Definition m_begin (c : cfg) (s : state) (a : N) (cl : call) : option state :=
  match get (ags s) a with
  | Some A =>
      match a_pc A, a_alive A, entry c (a_role A) cl with
      | Idle, true, Some pc => if fresh_target s a cl then Some (begin_call s a A cl pc) else None
      | _, _, _ => None
      end
  | None => None
  end.

Definition m_step (chk : bool) (c : cfg) (s : state) (a : N) : option state :=
  match get (ags s) a with
  | Some A =>
      if (is_local (a_pc A) || enabled a A (sh s)) && negb (chk && f11_badb (sh s) A) then
        match micro c a A (sh s) with
        | Some o => if new_ok s a o then Some (apply1 s a o) else None
        | None => None
        end
      else None
  | None => None
  end.

Definition m_spur (c : cfg) (s : state) (a : N) : option state :=
  match get (ags s) a with
  | Some A => match micro_spur c A (sh s) with Some o => Some (apply1 s a o) | None => None end
  | None => None
  end.

Definition idle_now (s : state) (a : N) : bool :=
  match get (ags s) a with Some A => match a_pc A with Idle => true | _ => false end | None => true end.

Fixpoint m_finish (chk : bool) (c : cfg) (fuel : nat) (s : state) (a : N) : option state :=
  if idle_now s a then Some s
  else match fuel with
       | O => None
       | S k => match m_step chk c s a with Some s' => m_finish chk c k s' a | None => None end
       end.

Fixpoint m_steps (chk : bool) (c : cfg) (k : nat) (s : state) (a : N) : option state :=
  match k with
  | O => Some s
  | S k' => match m_step chk c s a with Some s' => m_steps chk c k' s' a | None => None end
  end.

Definition m_op (chk : bool) (c : cfg) (s : state) (op : mop) : option state :=
  match op with
  | MBegin a cl => m_begin c s a cl
  | MStep a => m_step chk c s a
  | MSteps a k => m_steps chk c k s a
  | MSpur a => m_spur c s a
  | MTick => Some (mkstate (tick (sh s)) (ags s))
  | MCall a cl fuel => match m_begin c s a cl with Some s' => m_finish chk c fuel s' a | None => None end
  end.

Fixpoint m_run (chk : bool) (c : cfg) (s : state) (ops : list mop) : option state :=
  match ops with
  | [] => Some s
  | op :: rest => match m_op chk c s op with Some s' => m_run chk c s' rest | None => None end
  end.

Lemma m_begin_sound c fut s a cl s' : mreachN c fut s -> m_begin c s a cl = Some s' -> mreachN c fut s'.
Proof.
  intros R H. unfold m_begin in H.
  destruct (get (ags s) a) as [A|] eqn:EA; [|discriminate].
  destruct (a_pc A) eqn:EP; try discriminate H.
  destruct (a_alive A) eqn:EL; [|discriminate].
  destruct (entry c (a_role A) cl) as [pc|] eqn:EE; [|discriminate].
  destruct (fresh_target s a cl) eqn:EF; [|discriminate]. injection H as <-.
  eapply mrn_begin; eauto.
Qed.

Lemma m_step_sound c fut s a s' : mreachN c fut s -> m_step true c s a = Some s' -> mreachN c fut s'.
Proof.
  intros R H. unfold m_step in H.
  destruct (get (ags s) a) as [A|] eqn:EA; [|discriminate].
  destruct ((is_local (a_pc A) || enabled a A (sh s)) && negb (true && f11_badb (sh s) A)) eqn:EC; [|discriminate].
  apply andb_prop in EC as [E1 E2]. apply orb_prop in E1. apply negb_true_iff in E2. cbn in E2.
  destruct (micro c a A (sh s)) as [o|] eqn:EM; [|discriminate].
  destruct (new_ok s a o) eqn:EN; [|discriminate]. injection H as <-.
  eapply mrn_micro; eauto. apply f11_badb_spec. exact E2.
Qed.

Lemma m_finish_sound c fut fuel : forall s a s', mreachN c fut s -> m_finish true c fuel s a = Some s' -> mreachN c fut s'.
Proof.
  induction fuel as [|k IH]; intros s a s' R H; cbn [m_finish] in H.
  - destruct (idle_now s a); [injection H as <-; exact R|discriminate].
  - destruct (idle_now s a); [injection H as <-; exact R|].
    destruct (m_step true c s a) as [s1|] eqn:E; [|discriminate].
    eapply IH; [|exact H]. eapply m_step_sound; eauto.
Qed.

Lemma m_steps_sound c fut k : forall s a s', mreachN c fut s -> m_steps true c k s a = Some s' -> mreachN c fut s'.
Proof.
  induction k as [|k IH]; intros s a s' R H; cbn [m_steps] in H.
  - injection H as <-; exact R.
  - destruct (m_step true c s a) as [s1|] eqn:E; [|discriminate].
    eapply IH; [|exact H]. eapply m_step_sound; eauto.
Qed.

Lemma m_op_sound c fut s op s' : mreachN c fut s -> m_op true c s op = Some s' -> mreachN c fut s'.
Proof.
  intros R H. destruct op as [a cl|a|a k|a| |a cl fuel]; cbn [m_op] in H.
  - eapply m_begin_sound; eauto.
  - eapply m_step_sound; eauto.
  - eapply m_steps_sound; eauto.
  - unfold m_spur in H. destruct (get (ags s) a) as [A|] eqn:EA; [|discriminate].
    destruct (micro_spur c A (sh s)) as [o|] eqn:EM; [|discriminate]. injection H as <-.
    eapply mrn_spur; eauto.
  - injection H as <-. apply mrn_tick. exact R.
  - destruct (m_begin c s a cl) as [s1|] eqn:E; [|discriminate].
    eapply m_finish_sound; [|exact H]. eapply m_begin_sound; eauto.
Qed.

Theorem m_run_sound c fut ops : forall s s', mreachN c fut s -> m_run true c s ops = Some s' -> mreachN c fut s'.
Proof.
  induction ops as [|op rest IH]; intros s s' R H; cbn [m_run] in H.
  - injection H as <-. exact R.
  - destruct (m_op true c s op) as [s1|] eqn:E; [|discriminate].
    eapply IH; [|exact H]. eapply m_op_sound; eauto.
Qed.

(* the same runner, with or without the test, stays inside the unrestricted micro-step reachability *)
Lemma m_begin_mreach c fut s a cl s' : mreach c fut s -> m_begin c s a cl = Some s' -> mreach c fut s'.
Proof.
  intros R H. unfold m_begin in H.
  destruct (get (ags s) a) as [A|] eqn:EA; [|discriminate].
  destruct (a_pc A) eqn:EP; try discriminate H.
  destruct (a_alive A) eqn:EL; [|discriminate].
  destruct (entry c (a_role A) cl) as [pc|] eqn:EE; [|discriminate].
  destruct (fresh_target s a cl) eqn:EF; [|discriminate]. injection H as <-.
  eapply mr_begin; eauto.
Qed.

Lemma m_step_mreach chk c fut s a s' : mreach c fut s -> m_step chk c s a = Some s' -> mreach c fut s'.
Proof.
  intros R H. unfold m_step in H.
  destruct (get (ags s) a) as [A|] eqn:EA; [|discriminate].
  destruct ((is_local (a_pc A) || enabled a A (sh s)) && negb (chk && f11_badb (sh s) A)) eqn:EC; [|discriminate].
  apply andb_prop in EC as [E1 E2]. apply orb_prop in E1.
  destruct (micro c a A (sh s)) as [o|] eqn:EM; [|discriminate].
  destruct (new_ok s a o) eqn:EN; [|discriminate]. injection H as <-.
  eapply mr_micro; eauto.
Qed.

Lemma m_finish_mreach chk c fut fuel : forall s a s', mreach c fut s -> m_finish chk c fuel s a = Some s' -> mreach c fut s'.
Proof.
  induction fuel as [|k IH]; intros s a s' R H; cbn [m_finish] in H.
  - destruct (idle_now s a); [injection H as <-; exact R|discriminate].
  - destruct (idle_now s a); [injection H as <-; exact R|].
    destruct (m_step chk c s a) as [s1|] eqn:E; [|discriminate].
    eapply IH; [|exact H]. eapply m_step_mreach; eauto.
Qed.

Lemma m_steps_mreach chk c fut k : forall s a s', mreach c fut s -> m_steps chk c k s a = Some s' -> mreach c fut s'.
Proof.
  induction k as [|k IH]; intros s a s' R H; cbn [m_steps] in H.
  - injection H as <-; exact R.
  - destruct (m_step chk c s a) as [s1|] eqn:E; [|discriminate].
    eapply IH; [|exact H]. eapply m_step_mreach; eauto.
Qed.

Theorem m_run_mreach chk c fut ops : forall s s', mreach c fut s -> m_run chk c s ops = Some s' -> mreach c fut s'.
Proof.
  induction ops as [|op rest IH]; intros s s' R H; cbn [m_run] in H.
  - injection H as <-. exact R.
  - destruct (m_op chk c s op) as [s1|] eqn:E; [|discriminate].
    eapply IH; [|exact H].
    destruct op as [a cl|a|a k|a| |a cl fuel]; cbn [m_op] in E.
    + eapply m_begin_mreach; eauto.
    + eapply m_step_mreach; eauto.
    + eapply m_steps_mreach; eauto.
    + unfold m_spur in E. destruct (get (ags s) a) as [A|] eqn:EA; [|discriminate].
      destruct (micro_spur c A (sh s)) as [o|] eqn:EM; [|discriminate]. injection E as <-.
      eapply mr_spur; eauto.
    + injection E as <-. apply mr_tick. exact R.
    + destruct (m_begin c s a cl) as [s2|] eqn:E2; [|discriminate].
      eapply m_finish_mreach; [|exact E]. eapply m_begin_mreach; eauto.
Qed.
