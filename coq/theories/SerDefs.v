(* Payload identities: definitions. *)
From Coq Require Import NArith List Bool Lia.
Require Import MQ.Arith64 MQ.Types MQ.State MQ.Model MQ.Exec MQ.Reach MQ.Ctl MQ.RecvDefs.
Import ListNotations.
Open Scope N_scope.

(* inside a send call, after the payload was created *)
Definition sv_active (A : agent) : bool :=
  match topc A with
  | TSfin | SS0 | SS1 | SS2 | SS3 | SS4 | SS5 | SS6 | SP1 | SP2 | SSdone | SSret => true
  | AW => match r_call (a_r A) with CAPoll => false | _ => true end
  | _ => false
  end.

