(* Case analysis for the registry membership invariant (InvReg.v): where a handle's hold on a
   stream comes from. *)
From Coq Require Import NArith List Bool Lia.
Require Import MQ.Arith64 MQ.Arith64Facts MQ.Types MQ.State MQ.Model MQ.Exec MQ.Reach MQ.Ctl MQ.Count MQ.WritersStep
  MQ.RecvDefs MQ.RecvStep MQ.GroupStep2.
Import ListNotations.
Open Scope N_scope.

Lemma micro_wh sg c me A S o :
  micro c me A S = Some o -> ctl_ok A = true ->
  (w_h sg (o_a o) = true -> w_h sg A = true \/ (pubphase A = true /\ r_ns (a_r A) = sg)) /\
  (forall a' A', o_new o = Some (a', A') -> w_h sg A' = true ->
     w_h sg A = true \/ (pubphase A = true /\ r_ns (a_r A) = sg)).
Proof.
  intros H Q. destruct A as [role alive multi sid tok pc stack R notified parked].
  unfold w_h, pubphase, nphase, topc, recv_role.
  destruct pc; micro_cases H; cbn [o_a o_new];
    (split; [|let an := fresh "an" in let An := fresh "An" in let X := fresh "X" in
              intros an An X; try discriminate X; injection X as <- <-; cbn]);
    pre_case Q Q1 Q2 Q3;
    first [ solve [intros X; discriminate X]
          | solve [intros X; left; exact X]
          | try split_frame Q1 Q2;
            first [ solve [intros X; discriminate X]
                  | solve [intros X; left; exact X]
                  | split_call Q2; try (apply eqb_prop in Q3; subst; cbn);
                    first [ solve [intros X; discriminate X]
                          | solve [intros X; left; exact X]
                          | solve [intros X; left; rewrite ?andb_true_r in *; exact X]
                          | solve [intros X; rewrite andb_false_r in X; discriminate X]
                          | solve [intros X; right; split; [reflexivity|]; rewrite ?andb_true_r in X; now apply N.eqb_eq in X] ] ] ].
Qed.

(* at the decrementing step the agent is a live handle of its stream *)
Lemma rd0_wh A : ctl_ok A = true -> a_pc A = RD0 -> w_h (a_sid A) A = true.
Proof.
  intros Q B. destruct A as [role alive multi sid tok pc stack R notified parked].
  cbn in B. subst pc. unfold ctl_ok in Q. unfold w_h, topc, recv_role. cbn in Q |- *.
  apply andb_prop in Q as [Q Q3]. apply andb_prop in Q as [Q1 Q2].
  destruct stack as [|k st]; [|cbn in Q1; discriminate Q1]. cbn in Q2 |- *.
  destruct (r_call R); cbn in Q2; try discriminate Q2;
    destruct role; cbn in Q2 |- *; try discriminate Q2;
    apply eqb_prop in Q3; subst alive; rewrite N.eqb_refl; reflexivity.
Qed.
