(* Case analysis for C15/C03: a send that is refused as Full (NotReady for the Sink) hands back its own value and has
   written nothing to the ring. *)
From Coq Require Import NArith List Bool Lia.
Require Import MQ.Arith64 MQ.Arith64Facts MQ.Types MQ.State MQ.Model MQ.Exec MQ.Reach MQ.Ctl MQ.Count MQ.WritersStep
  MQ.RecvDefs MQ.RecvStep.
Import ListNotations.
Open Scope N_scope.

Definition is_full (r : res) : bool := match r with RFull _ => true | _ => false end.

Lemma micro_full c me A S o v :
  micro c me A S = Some o -> is_full (r_res (a_r A)) = false -> r_res (a_r (o_a o)) = RFull v ->
  v = r_v (a_r A) /\ g_log (o_s o) = g_log S /\ head (o_s o) = head S /\ cells (o_s o) = cells S /\ tags (o_s o) = tags S /\
  (a_pc A = P2 \/ a_pc A = P3 \/ a_pc A = P4 \/ a_pc A = M3post \/ a_pc A = M4).
Proof.
  intros H. destruct A as [role alive multi sid tok pc stack R notified parked].
  destruct pc; micro_cases H; cbn [o_a o_s]; unfold popret, setres, deliver; cbn;
    first [ solve [intros NF E; rewrite E in NF; discriminate NF]
          | solve [intros NF E; discriminate E]
          | solve [intros NF E; injection E as <-; repeat split; auto]
          | destruct stack; cbn;
            first [ solve [intros NF E; rewrite E in NF; discriminate NF]
                  | solve [intros NF E; discriminate E]
                  | solve [intros NF E; injection E as <-; repeat split; auto] ]
          | destruct (r_val R); cbn;
            first [ solve [intros NF E; rewrite E in NF; discriminate NF]
                  | solve [intros NF E; discriminate E] ] ].
Qed.
