(* More case analysis for the window invariant: where a receive attempt starts. *)
From Coq Require Import NArith List Bool Lia.
Require Import MQ.Arith64 MQ.Arith64Facts MQ.Types MQ.State MQ.Model MQ.Exec MQ.Reach MQ.Ctl MQ.Count MQ.WritersStep
  MQ.RecvDefs MQ.RecvStep MQ.InvReg MQ.WinStep MQ.WinDefs.
Import ListNotations.
Open Scope N_scope.

Lemma micro_attpc c me A S o :
  micro c me A S = Some o -> ctl_ok A = true -> att_pc (a_pc (o_a o)) = true ->
  a_sid (o_a o) = a_sid A /\ (att_pc (a_pc A) = true \/ (a_pc A = R2 \/ a_pc A = R2n)).
Proof.
  intros H Q. destruct A as [role alive multi sid tok pc stack R notified parked].
  destruct pc; micro_cases H; cbn [o_a]; pre_case Q Q1 Q2 Q3;
    first [ solve [intros X; discriminate X]
          | solve [intros _; split; [reflexivity|left; reflexivity]]
          | solve [intros _; split; [reflexivity|right; first [left; reflexivity|right; reflexivity]]]
          | try split_frame Q1 Q2;
            first [ solve [intros X; discriminate X]
                  | solve [intros _; split; [reflexivity|left; reflexivity]] ] ].
Qed.
