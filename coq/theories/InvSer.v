(* Payload identities (C01, broadcast): the clone a broadcast consumer delivers carries the identity of the claim-log
   entry of its position. *)
From Coq Require Import NArith List Bool Lia.
Require Import MQ.Arith64 MQ.Arith64Facts MQ.Types MQ.State MQ.Model MQ.Exec MQ.Reach MQ.Fields MQ.Ctl MQ.Count MQ.SumCount MQ.FreshStep
  MQ.WritersStep MQ.InvWriters MQ.HeadStep MQ.InvHead MQ.RecvDefs MQ.RecvStep MQ.KnownStep MQ.InvRecv MQ.SoleDefs MQ.InvSole
  MQ.PosStep MQ.AttStep MQ.InvPos MQ.GroupStep MQ.GroupStep2 MQ.GroupStep3 MQ.NewAgentStep MQ.InvGroups MQ.RegStep MQ.InvReg
  MQ.WinStep MQ.WinDefs MQ.WinStep2 MQ.WinTrans MQ.InvWin MQ.SlotDefs MQ.SlotStepA MQ.SlotStepB MQ.SlotStepC MQ.SlotStepD
  MQ.SlotStepE MQ.SlotStepG MQ.InvSlot MQ.InvDeliv MQ.PinDefs MQ.InvPin MQ.SerDefs MQ.SerStepA MQ.SerStepB MQ.SerStepC MQ.SerStepD.
Import ListNotations.
Open Scope N_scope.

Section SR.
Variable c : cfg.
Notation N := (c_n c).
Hypothesis Npos : 0 < N.
Hypothesis Nsmall : N <= B61.

Definition sva (A : agent) (S : shared) : Prop := sv_active A = true -> r_v (a_r A) < nser S.

Definition rda (A : agent) (S : shared) : Prop :=
  is_bcast c = true ->
  ((a_pc A = KC \/ a_pc A = R11 \/ a_pc A = R12) -> r_tmp (a_r A) < nser S) /\
  ((a_pc A = R11 \/ a_pc A = R12) ->
     exists ser, r_val (a_r A) = Some ser /\ ser < nser S /\ gid S ser = gid S (r_tmp (a_r A))).

Record SerG (S : shared) : Prop := {
  sr_log : forall x, In x (g_log S) -> x < nser S;
  sr_cell : forall i v, get (cells S) i = Some v -> v < nser S;
  sr_del : is_bcast c = true -> forall sid p ser me, In (sid, p, ser, me) (g_deliv S) ->
             ser < nser S /\ exists src, logat S p = Some src /\ gid S ser = gid S src
}.

Definition SerInv (s : state) : Prop :=
  SmallW s -> SerG (sh s) /\ forall a A, get (ags s) a = Some A -> sva A (sh s) /\ rda A (sh s).

Lemma sr_notified B Sh b : (sva (set_a_notified b B) Sh /\ rda (set_a_notified b B) Sh) <-> (sva B Sh /\ rda B Sh).
Proof. destruct B; unfold sva, rda, sv_active, topc; cbn; tauto. Qed.

Lemma sr_plain B Sh : sv_active B = false -> a_pc B <> KC -> a_pc B <> R11 -> a_pc B <> R12 -> sva B Sh /\ rda B Sh.
Proof.
  intros Z N1 N2 N3. split; [intros X; congruence|]. intros _. split.
  - intros [X | [X | X]]; contradiction.
  - intros [X | X]; contradiction.
Qed.

Lemma logat_in S p v : logat S p = Some v -> In v (g_log S).
Proof. unfold logat. apply nth_error_In. Qed.

Theorem ser_mreachN fut s : mreachN c fut s -> SerInv s.
Proof.
  intros RN. induction RN as [|s0 a A cl pc RN IH EA Hpc Hal He FT0|s0 x X o RN IH EX EN M NO NF|s0 a A o RN IH EA M|s0 RN IH].
  - intros _. split.
    + constructor; [intros x []|intros i v E; cbn in E; discriminate E|intros _ sid p ser me []].
    + intros a A EA. cbn in EA. unfold get in EA. cbn in EA.
      destruct (N.eqb a 0); [injection EA as <-; apply sr_plain; destruct fut; first [reflexivity|discriminate]|].
      destruct (N.eqb a 1); [injection EA as <-; apply sr_plain; destruct fut; first [reflexivity|discriminate]|discriminate].
  - (* begin_call *)
    intros SM. unfold begin_call in *. destruct SM as [S1 S2]. cbn [ags sh] in *.
    rewrite (len_put_same _ _ _ _ EA) in S1.
    change (g_log (hist (HCall a cl (g_clock (sh s0))) (sh s0))) with (g_log (sh s0)) in S2.
    destruct (IH (conj S1 S2)) as (SGs & SAs).
    split; [destruct SGs as [G1 G2 G3]; constructor; assumption|].
    intros b B EB. rewrite get_put in EB. destruct (N.eqb b a) eqn:E; [|exact (SAs b B EB)].
    injection EB as <-.
    pose proof (ctl_mreach c fut s0 (mreachN_mreach c fut s0 RN) a A EA) as QA.
    assert (ST0 : a_stack A = []).
    { clear -QA Hpc. destruct A as [role alive multi sid tok pc0 stack R0 notified parked]. cbn in Hpc. subst pc0.
      unfold ctl_ok in QA. cbn in QA. destruct stack; [reflexivity|cbn in QA; discriminate QA]. }
    apply sr_plain; destruct A; cbn in *; subst; unfold sv_active, topc; cbn;
      unfold entry in He; destruct a_role, cl; try discriminate He; try (destruct (is_bcast c); try discriminate He);
      injection He as <-; first [reflexivity | discriminate].
  - (* micro-step *)
    intros SM'. change (sh (apply1 s0 x o)) with (o_s o).
    pose proof (small_back c Npos Nsmall s0 x X o EX M SM') as SM.
    pose proof (mreachN_mreach c fut s0 RN) as R.
    destruct (IH SM) as ([G1 G2 G3] & SAs).
    pose proof (ctl_mreach c fut s0 R x X EX) as QX.
    destruct (SAs x X EX) as (SVX & RDX).
    assert (RN' : mreachN c fut (apply1 s0 x o)) by (eapply mrn_micro; eauto).
    (* serial numbers and identities only grow *)
    assert (NM : nser (sh s0) <= nser (o_s o) /\ forall y, y < nser (sh s0) -> gid (o_s o) y = gid (sh s0) y).
    { destruct (micro_gids _ _ _ _ _ M) as [(E1 & E2) | (v & E1 & E2)].
      - split; [lia|]. intros y _. unfold gid. rewrite E1. reflexivity.
      - split; [lia|]. intros y L. unfold gid. rewrite E1, getd_put.
        assert (E : N.eqb y (nser (sh s0)) = false) by (apply N.eqb_neq; lia). rewrite E. reflexivity. }
    destruct NM as (NM & GS).
    assert (TL : forall p, p < head (sh s0) -> logat (o_s o) p = logat (sh s0) p) by (eapply st_logm; eauto).
    destruct (head_small c Npos Nsmall fut s0 R SM) as [HL HB].
    (* the log *)
    assert (G1' : forall y, In y (g_log (o_s o)) -> y < nser (o_s o)).
    { intros y IN. destruct (micro_head _ _ _ _ _ M) as [[_ E] | [CL [_ E]]]; rewrite E in IN.
      - specialize (G1 y IN). lia.
      - apply in_app_or in IN as [IN | [<- | []]]; [specialize (G1 y IN); lia|].
        assert (ACT : sv_active X = true) by (apply claim_active; [exact QX|destruct CL as [P | [P _]]; auto]).
        specialize (SVX ACT). lia. }
    (* the cells *)
    assert (G2' : forall i v, get (cells (o_s o)) i = Some v -> v < nser (o_s o)).
    { intros i v E. destruct (micro_cells _ _ _ _ _ M) as [EC | (P6' & EC)]; rewrite EC in E.
      - specialize (G2 i v E). lia.
      - rewrite get_put in E. destruct (N.eqb i (sl c (r_h (a_r X)))); [|specialize (G2 i v E); lia].
        injection E as <-. assert (ACT : sv_active X = true) by (apply claim_active; [exact QX|auto]).
        specialize (SVX ACT). lia. }
    (* the agents *)
    assert (AG' : forall b B, get (ags (apply1 s0 x o)) b = Some B -> sva B (o_s o) /\ rda B (o_s o)).
    { intros b B EB.
      destruct (apply1_get _ _ _ _ _ EB) as (B0 & HB0 & Hsrc).
      assert (W0 : sva B0 (o_s o) /\ rda B0 (o_s o)); [|destruct HB0 as [-> | ->]; [exact W0|apply sr_notified; exact W0]].
      destruct Hsrc as [(a' & Hn & ->) | [(-> & ->) | (Hne & EB0)]].
      - destruct (micro_new_idle _ _ _ _ _ _ _ M Hn) as (EI & ES & _).
        apply sr_plain; try (rewrite EI; discriminate). unfold sv_active, topc. rewrite EI, ES. reflexivity.
      - split.
        + intros ACT. destruct (micro_sv _ _ _ _ _ M QX ACT) as [(AX & E) | (_ & E1 & E2)].
          * rewrite E. specialize (SVX AX). lia.
          * rewrite E1, E2. lia.
        + intros BC. specialize (RDX BC). destruct RDX as (RD1 & RD2).
          destruct (micro_cphase _ _ _ _ _ M QX) as (C11 & C12).
          assert (KCS : a_pc X = KC -> r_tmp (a_r (o_a o)) < nser (o_s o) /\
                    exists ser, r_val (a_r (o_a o)) = Some ser /\ ser < nser (o_s o) /\ gid (o_s o) ser = gid (o_s o) (r_tmp (a_r (o_a o)))).
          { intros PK. destruct (t_KCs _ _ _ _ _ M PK) as (E1 & E2 & E3 & E4 & _).
            pose proof (RD1 (or_introl PK)) as LT. rewrite E3. split; [lia|].
            exists (nser (sh s0)). split; [exact E2|]. split; [lia|].
            unfold gid at 1 2. rewrite E4, !getd_put, N.eqb_refl.
            assert (E : N.eqb (r_tmp (a_r X)) (nser (sh s0)) = false) by (apply N.eqb_neq; lia). rewrite E. reflexivity. }
          split.
          * intros [PC' | [PC' | PC']].
            -- (* the clone starts: the cell holds a value with an allocated serial number *)
               destruct (pin_mreachN c Npos Nsmall fut _ RN' SM') as (_ & _ & _ & IT & _).
               destruct (apply1_get_self s0 x o NO) as (B' & EB' & [-> | ->]).
               ++ pose proof (IT x _ EB' (or_introl PC')) as EC. apply (G2' _ _ EC).
               ++ assert (F : a_pc (set_a_notified true (o_a o)) = KC) by (destruct (o_a o); exact PC').
                  pose proof (IT x _ EB' (or_introl F)) as EC.
                  assert (F2 : r_p (a_r (set_a_notified true (o_a o))) = r_p (a_r (o_a o)) /\ r_tmp (a_r (set_a_notified true (o_a o))) = r_tmp (a_r (o_a o))) by (destruct (o_a o); split; reflexivity).
                  destruct F2 as (F2 & F3). rewrite F2, F3 in EC. apply (G2' _ _ EC).
            -- destruct (KCS (C11 PC')) as (L & _). exact L.
            -- destruct (C12 PC') as [PK | [P11 | NB]]; [destruct (KCS PK) as (L & _); exact L| |congruence].
               destruct (t_R11s _ _ _ _ _ M P11) as (E1 & _ & _ & E4 & _). rewrite E4. specialize (RD1 (or_intror (or_introl P11))). lia.
          * intros [PC' | PC'].
            -- destruct (KCS (C11 PC')) as (_ & K). exact K.
            -- destruct (C12 PC') as [PK | [P11 | NB]]; [destruct (KCS PK) as (_ & K); exact K| |congruence].
               destruct (t_R11s _ _ _ _ _ M P11) as (E1 & E2 & E3 & E4 & _).
               destruct (RD2 (or_introl P11)) as (ser & V1 & V2 & V3). pose proof (RD1 (or_intror (or_introl P11))) as LT.
               exists ser. rewrite E3, E4. split; [exact V1|]. split; [lia|]. rewrite !GS by lia. exact V3.
      - destruct (SAs b B0 EB0) as (SVB & RDB). split.
        + intros ACT. specialize (SVB ACT). lia.
        + intros BC. destruct (RDB BC) as (RD1 & RD2). split.
          * intros PC'. specialize (RD1 PC'). lia.
          * intros PC'. destruct (RD2 PC') as (ser & V1 & V2 & V3).
            assert (LT : r_tmp (a_r B0) < nser (sh s0)) by (apply RD1; right; exact PC').
            exists ser. split; [exact V1|]. split; [lia|]. rewrite !GS by lia. exact V3. }
    split; [|exact AG'].
    constructor; [exact G1'|exact G2'|].
    intros BC sid p ser me IN.
    assert (OLD : In (sid, p, ser, me) (g_deliv (sh s0)) ->
              ser < nser (o_s o) /\ exists src, logat (o_s o) p = Some src /\ gid (o_s o) ser = gid (o_s o) src).
    { intros IN0. destruct (G3 BC sid p ser me IN0) as (L & src & ES & EGI).
      split; [lia|]. exists src.
      assert (PH : p < head (sh s0)).
      { rewrite HL. unfold logat in ES. assert (nth_error (g_log (sh s0)) (N.to_nat p) <> None) by congruence.
        apply nth_error_Some in H. unfold lenN. lia. }
      split; [rewrite TL by exact PH; exact ES|].
      pose proof (G1 src (logat_in _ _ _ ES)) as LS. rewrite !GS by lia. exact EGI. }
    destruct (micro_gdeliv _ _ _ _ _ M) as [E | (PC & ser0 & EV & E)]; rewrite E in IN; [exact (OLD IN)|].
    apply in_app_or in IN as [IN | [IN | []]]; [exact (OLD IN)|]. injection IN as <- <- <- <-.
    assert (DIH : DelivInv c s0) by (apply (deliv_mreachN c Npos Nsmall fut); exact RN).
    destruct (dl_append c Npos Nsmall fut s0 x X o RN SM' EX M ser0 x PC EV E) as (EP & _).
    destruct (slot_mreachN c Npos Nsmall fut s0 RN SM) as (_ & SA & _).
    destruct (win_mreachN c Npos Nsmall fut s0 RN SM) as (_ & IA).
    destruct (SA x X EX) as (_ & _ & _ & FX & _). destruct (IA x X EX) as (_ & _ & (_ & RX2) & _).
    assert (RD : rdphase (a_pc X) = true) by (destruct PC as [-> | ->]; reflexivity).
    assert (MX : matched (a_pc X) = true) by (destruct PC as [-> | ->]; reflexivity).
    destruct (FX RD) as (_ & FV). specialize (FV EP). specialize (RX2 MX).
    rewrite TL by exact RX2.
    destruct PC as [PC | PC]; unfold valof in FV; rewrite PC in FV.
    + rewrite BC in FV. destruct (RDX BC) as (RD1 & RD2). destruct (RD2 (or_intror PC)) as (ser & V1 & V2 & V3).
      rewrite EV in V1. injection V1 as <-. split; [lia|]. exists (r_tmp (a_r X)). split; [exact FV|].
      pose proof (RD1 (or_intror (or_intror PC))) as LT. rewrite !GS by lia. exact V3.
    + rewrite EV in FV. pose proof (G1 ser0 (logat_in _ _ _ FV)) as LS. split; [lia|]. exists ser0. split; [exact FV|reflexivity].
  - (* spurious failure *)
    intros SM'.
    destruct (spur_shape _ _ _ _ M) as (N0 & _ & _ & _ & _ & _ & SHP & _ & EH & EL).
    destruct (spur_slot _ _ _ _ M) as (ECELL & ED & _ & _ & ERV).
    assert (EIDS : g_ids (o_s o) = g_ids (sh s0) /\ nser (o_s o) = nser (sh s0)).
    { clear -M. destruct A as [role alive multi sid tok pc stack R0 notified parked].
      unfold micro_spur, ok in M. cbn in M. destruct pc; try discriminate M.
      - injection M as <-. split; reflexivity.
      - destruct (r_am R0); [discriminate|]. unfold use_obj, bad, drop_opt, drop_val in M. cbn in M.
        break_hyp M; injection M as <-; split; reflexivity. }
    destruct EIDS as (EI & EN0).
    assert (SM : SmallW s0).
    { destruct SM' as [S1 S2]. split; [pose proof (apply1_len s0 a o); lia|].
      change (sh (apply1 s0 a o)) with (o_s o) in S2. rewrite EL in S2. exact S2. }
    destruct (IH SM) as ([G1 G2 G3] & SAs).
    change (sh (apply1 s0 a o)) with (o_s o).
    assert (EGID : forall y, gid (o_s o) y = gid (sh s0) y) by (intros; unfold gid; rewrite EI; reflexivity).
    split.
    + constructor.
      * intros y IN. rewrite EL in IN. rewrite EN0. apply G1. exact IN.
      * intros i v E. rewrite ECELL in E. rewrite EN0. apply (G2 i v E).
      * intros BC sid p ser me IN. rewrite ED in IN. rewrite EN0, (logat_eq _ _ _ EL).
        destruct (G3 BC _ _ _ _ IN) as (L & src & E1 & E2). split; [exact L|]. exists src. rewrite !EGID. auto.
    + intros b B EB.
      destruct (apply1_get _ _ _ _ _ EB) as (B0 & HB0 & Hsrc).
      assert (W0 : sva B0 (o_s o) /\ rda B0 (o_s o)); [|destruct HB0 as [-> | ->]; [exact W0|apply sr_notified; exact W0]].
      destruct Hsrc as [(a' & Hn & ->) | [(-> & ->) | (Hne & EB0)]].
      * rewrite N0 in Hn. discriminate Hn.
      * destruct (SAs a A EA) as (SVA & _). split.
        -- intros ACT. rewrite ERV, EN0. apply SVA.
           destruct (spur_shape _ _ _ _ M) as (_ & _ & _ & _ & EST & ECALL & _).
           unfold sv_active, topc in *. rewrite EST, ECALL in ACT.
           destruct SHP as [(P1 & P2) | (P1 & P2)]; rewrite P2 in ACT; rewrite P1;
             destruct (a_stack A); cbn in ACT |- *; try discriminate ACT; exact ACT.
        -- intros BC. split.
           ++ intros [Y | [Y | Y]]; destruct SHP as [(_ & P2) | (_ & P2)]; rewrite P2 in Y; discriminate Y.
           ++ intros [Y | Y]; destruct SHP as [(_ & P2) | (_ & P2)]; rewrite P2 in Y; discriminate Y.
      * destruct (SAs b B0 EB0) as (SVB & RDB). unfold sva, rda in *. rewrite EN0. split; [exact SVB|].
        intros BC. destruct (RDB BC) as (R1 & R2). split; [exact R1|]. intros Y. destruct (R2 Y) as (ser & V1 & V2 & V3).
        exists ser. rewrite !EGID. auto.
  - intros SM. cbn [ags sh] in *. destruct SM as [S1 S2].
    change (g_log (tick (sh s0))) with (g_log (sh s0)) in S2.
    destruct (IH (conj S1 S2)) as ([G1 G2 G3] & SAs). split; [constructor; assumption|exact SAs].
Qed.
End SR.
