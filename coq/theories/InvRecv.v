(* Receiver-side population invariant (I8, receiver half): for every stream, the consumer
   count equals the total weight of the agents on it (handles, clones in flight, a stream in
   flight), stream identifiers are fresh, and a stream in flight is known to its creator only.
   Case analyses are in RecvStep.v, FreshStep.v, KnownStep.v. *)
From Coq Require Import NArith List Bool Lia.
Require Import MQ.Arith64 MQ.Arith64Facts MQ.Types MQ.State MQ.Model MQ.Exec MQ.Reach MQ.Ctl MQ.Count MQ.SumCount
  MQ.AgentInv MQ.WritersStep MQ.InvWriters MQ.RecvDefs MQ.RecvStep MQ.FreshStep MQ.KnownStep.
Import ListNotations.
Open Scope N_scope.

Definition Fresh (s : state) : Prop :=
  forall a A, get (ags s) a = Some A -> fresh_ok A (sh s).

(* a stream in flight is known to nobody but its creator *)
Definition Uniq (s : state) : Prop :=
  forall a A b B, a <> b -> get (ags s) a = Some A -> get (ags s) b = Some B ->
  nphase A = true -> kn B (r_ns (a_r A)) = false.

Definition ConsEq (s : state) : Prop :=
  forall sg, sumf (wt sg) (ags s) = 0 \/ gcons (sh s) sg = sumf (wt sg) (ags s).

Definition RecvInv (s : state) : Prop :=
  keys_nodup (ags s) /\ Fresh s /\ Uniq s /\ (lenN (ags s) < B62 -> ConsEq s).

(* ------------------------------------------------------------------ *)
Lemma wn_alt sg A : w_n sg A = (r_ns (a_r A) =? sg) && nphase A.
Proof. reflexivity. Qed.

Lemma kn_false_wt A a sg : kn A sg = false -> wt sg a A = 0.
Proof.
  unfold kn, wt. intros K. apply orb_false_elim in K as [K1 K2].
  rewrite wn_alt. unfold w_h, w_c. rewrite K1. rewrite !andb_false_r. cbn [andb b2n].
  rewrite andb_comm, K2. reflexivity.
Qed.

Lemma fresh_wt_nsid A a S : fresh_ok A S -> wt (nsid S) a A = 0.
Proof.
  intros (F1 & F2 & _). apply kn_false_wt. unfold kn.
  assert (E1 : (a_sid A =? nsid S) = false) by (apply N.eqb_neq; lia).
  assert (E2 : (r_ns (a_r A) =? nsid S) = false) by (apply N.eqb_neq; lia).
  now rewrite E1, E2, andb_false_r.
Qed.

Lemma fresh_mono A S S' : fresh_ok A S -> nsid S <= nsid S' -> fresh_ok A S'.
Proof. intros (F1 & F2 & F3) L. split; [lia|]. split; [lia|]. exact F3. Qed.

Lemma fresh_notified A b S : fresh_ok (set_a_notified b A) S <-> fresh_ok A S.
Proof. destruct A; reflexivity. Qed.

Lemma nphase_notified A b : nphase (set_a_notified b A) = nphase A /\ r_ns (a_r (set_a_notified b A)) = r_ns (a_r A).
Proof. destruct A; split; reflexivity. Qed.

Lemma wn_nphase sg A : w_n sg A = true -> nphase A = true /\ r_ns (a_r A) = sg.
Proof.
  rewrite wn_alt. intros H. apply andb_prop in H as [H1 H2]. apply N.eqb_eq in H1. auto.
Qed.

Lemma begin_shape s a A cl pc :
  sh (begin_call s a A cl pc) = hist (HCall a cl (g_clock (sh s))) (sh s) /\
  ags (begin_call s a A cl pc) =
  put (ags s) a (at_pc pc (withr (set_r_res RNoRes (set_r_call cl (a_r A))) (set_a_notified false A))).
Proof. split; reflexivity. Qed.

(* the agent that begins a call keeps its weights and knowledge *)
Lemma begin_agent c A cl pc :
  ctl_ok A = true -> a_pc A = Idle -> a_alive A = true -> entry c (a_role A) cl = Some pc ->
  let A1 := at_pc pc (withr (set_r_res RNoRes (set_r_call cl (a_r A))) (set_a_notified false A)) in
  nphase A1 = false /\ nphase A = false /\ a_sid A1 = a_sid A /\ r_ns (a_r A1) = r_ns (a_r A) /\
  (forall sg a, wt sg a A1 = wt sg a A).
Proof.
  intros H Hpc Hal He.
  destruct A as [role alive multi sid tok pc0 stack R notified parked].
  cbn in Hpc, Hal. subst pc0 alive.
  unfold ctl_ok in H. cbn in H.
  destruct stack as [|k st]; [|cbn in H; discriminate H]. cbn in H.
  unfold entry in He. unfold nphase, topc, wt, w_h, w_c, w_n, topc. cbn.
  destruct (r_call R); cbn in H; try discriminate H;
    destruct role, cl; try discriminate He; try (destruct (is_bcast c); try discriminate He);
    injection He as <-; cbn; repeat split; reflexivity.
Qed.

Lemma len_put_same {A} (m : fmap A) a v w : get m a = Some w -> lenN (put m a v) = lenN m.
Proof.
  unfold lenN. intros G. f_equal. revert G. induction m as [|[k B] m IH]; intros G; [discriminate|].
  rewrite get_cons in G. rewrite put_cons. destruct (N.eqb a k); [reflexivity|].
  cbn [length]. f_equal. auto.
Qed.

(* ------------------------------------------------------------------ *)
Theorem recv_mreach c fut s : mreach c fut s -> RecvInv s.
Proof.
  apply mreach_inv2.
  - (* begin_call *)
    intros s0 a A cl pc R (ND & FR & UQ & CE) EA Hpc Hal He _.
    pose proof (ctl_mreach c fut s0 R a A EA) as QA.
    destruct (begin_agent c A cl pc QA Hpc Hal He) as (NP1 & NP0 & ES & EN & EW).
    unfold RecvInv, Fresh, Uniq, ConsEq, begin_call; cbn [ags sh].
    set (A1 := at_pc pc (withr (set_r_res RNoRes (set_r_call cl (a_r A))) (set_a_notified false A))) in *.
    split; [|split; [|split]].
    + apply keys_nodup_put. exact ND.
    + intros b B EB. rewrite get_put in EB. destruct (N.eqb b a) eqn:E.
      * injection EB as <-. destruct (FR a A EA) as (F1 & F2 & F3).
        unfold fresh_ok. rewrite ES, EN, NP1. change (nsid (hist _ (sh s0))) with (nsid (sh s0)).
        repeat split; auto. discriminate.
      * apply (FR b B EB).
    + intros x X y Y Hxy EX EY NX. rewrite get_put in EX, EY.
      destruct (N.eqb x a) eqn:E1; destruct (N.eqb y a) eqn:E2.
      * apply N.eqb_eq in E1, E2. congruence.
      * injection EX as <-. congruence.
      * injection EY as <-. apply N.eqb_eq in E2. subst y.
        pose proof (UQ x X a A Hxy EX EA NX) as K. unfold kn in *. rewrite ES, EN, NP1. rewrite NP0 in K. exact K.
      * eapply UQ; eauto.
    + intros Small. rewrite (len_put_same _ _ _ _ EA) in Small. intros sg.
      pose proof (sumf_put_in (wt sg) (ags s0) a A A1 ND EA) as X. rewrite EW in X.
      assert (ES2 : sumf (wt sg) (put (ags s0) a A1) = sumf (wt sg) (ags s0)) by lia.
      rewrite ES2. change (gcons (hist _ (sh s0)) sg) with (gcons (sh s0) sg). apply (CE Small).
  - (* micro *)
    intros s0 a A o R (ND & FR & UQ & CE) EA _ M NO.
    pose proof (ctl_mreach c fut s0 R a A EA) as QA.
    pose proof (FR a A EA) as FA.
    destruct (micro_fresh _ _ _ _ _ M QA FA) as (NS & FA' & FN).
    change (sh (apply1 s0 a o)) with (o_s o).
    assert (FR' : Fresh (apply1 s0 a o)).
    { intros b B EB. change (sh (apply1 s0 a o)) with (o_s o).
      destruct (apply1_get _ _ _ _ _ EB) as (B0 & HB & Hsrc).
      assert (G : fresh_ok B0 (o_s o)).
      { destruct Hsrc as [(a' & Hn & ->) | [(-> & ->) | (Hne & EB0)]]; eauto.
        eapply fresh_mono; eauto. }
      destruct HB as [->| ->]; [exact G|now apply fresh_notified]. }
    assert (UQ' : Uniq (apply1 s0 a o)).
    { intros x X y Y Hxy EX EY NX.
      destruct (apply1_get _ _ _ _ _ EX) as (X0 & HX & SX).
      destruct (apply1_get _ _ _ _ _ EY) as (Y0 & HY & SY).
      assert (NX0 : nphase X0 = true /\ r_ns (a_r X) = r_ns (a_r X0)).
      { destruct HX as [->| ->]; [auto|]. destruct (nphase_notified X0 true) as [E1 E2]. rewrite E1 in NX. auto. }
      destruct NX0 as [NX0 ->].
      assert (KY : kn Y (r_ns (a_r X0)) = kn Y0 (r_ns (a_r X0))).
      { destruct HY as [->| ->]; [reflexivity|apply kn_notified]. }
      rewrite KY. clear KY HX HY EX EY X Y NX.
      destruct (micro_known (r_ns (a_r X0)) _ _ _ _ _ M QA) as (K1 & _ & K3).
      destruct SX as [(a1 & Hn1 & ->) | [(-> & ->) | (Hnx & EX0)]].
      - (* the new agent is idle *)
        destruct (micro_known 0 _ _ _ _ _ M QA) as (_ & _ & K3'). destruct (K3' _ _ Hn1) as [Z _]. congruence.
      - (* the stepping agent carries the stream *)
        destruct (micro_known 0 _ _ _ _ _ M QA) as (_ & K2 & K3').
        destruct (K2 NX0) as [(NA & EN) | (PA & EN)].
        + rewrite EN. destruct SY as [(a2 & Hn2 & ->) | [(-> & E) | (Hny & EY0)]].
          * destruct (K3' _ _ Hn2) as (NP & [ES | [ES | (ES & _ & NF)]]); [| |congruence];
              unfold kn; rewrite NP, ES; cbn [andb]; rewrite orb_false_r; apply N.eqb_neq;
              destruct FA as (_ & _ & F3); specialize (F3 NA); lia.
          * congruence.
          * apply (UQ a A y Y0); auto.
        + rewrite EN. destruct SY as [(a2 & Hn2 & ->) | [(-> & E) | (Hny & EY0)]].
          * destruct (FN _ _ Hn2) as (G1 & G2 & _).
            destruct (K3' _ _ Hn2) as (NP & _).
            unfold kn. rewrite NP. cbn [andb]. rewrite orb_false_r. apply N.eqb_neq.
            destruct (K3' _ _ Hn2) as (_ & [ES | [ES | (ES & _)]]); rewrite ES; destruct FA as (F1 & F2 & _); lia.
          * congruence.
          * destruct (FR y Y0 EY0) as (G1 & G2 & _). unfold kn.
            assert (E1 : (a_sid Y0 =? nsid (sh s0)) = false) by (apply N.eqb_neq; lia).
            assert (E2 : (r_ns (a_r Y0) =? nsid (sh s0)) = false) by (apply N.eqb_neq; lia).
            now rewrite E1, E2, andb_false_r.
      - (* an old agent carries the stream *)
        destruct SY as [(a2 & Hn2 & ->) | [(-> & ->) | (Hny & EY0)]].
        + destruct (micro_known 0 _ _ _ _ _ M QA) as (_ & _ & K3'). destruct (K3' _ _ Hn2) as (NP & HS).
          pose proof (UQ x X0 a A Hnx EX0 EA NX0) as KA.
          unfold kn in KA |- *. rewrite NP. cbn [andb]. rewrite orb_false_r.
          apply orb_false_elim in KA as [KA1 KA2].
          destruct HS as [ES | [ES | (ES & NA & _)]]; rewrite ES; [exact KA1| |].
          * apply N.eqb_neq. destruct (FR x X0 EX0) as (_ & _ & F3). specialize (F3 NX0). lia.
          * rewrite NA in KA2. exact KA2.
        + destruct (kn (o_a o) (r_ns (a_r X0))) eqn:KO; [|reflexivity]. exfalso.
          destruct (K1 eq_refl) as [KA | (PA & EN)].
          * pose proof (UQ x X0 a A Hnx EX0 EA NX0). congruence.
          * destruct (FR x X0 EX0) as (_ & G2 & _). lia.
        + apply (UQ x X0 y Y0); auto. }
    split; [|split; [exact FR'|split; [exact UQ'|]]].
    + eapply apply1_keys; eauto.
    + intros Small sg. change (sh (apply1 s0 a o)) with (o_s o).
      assert (Small0 : lenN (ags s0) < B62) by (pose proof (apply1_len s0 a o); lia).
      pose proof (apply1_sumf (wt sg) s0 a o A (fun k B => wt_notified sg k B true) ND EA NO) as SUM.
      fold (new_wt sg o) in SUM.
      pose proof (sumf_bound (wt sg) (ags s0) 3 (fun k B => wt_le2 sg k B)) as BND.
      pose proof (sumf_get_le (wt sg) (ags s0) a A EA) as LEA.
      assert (B62W : 4 * B62 <= W) by (cbv; discriminate).
      assert (WLT : sumf (wt sg) (ags s0) + 1 < W) by (unfold B62, W in *; lia).
      destruct (micro_cons sg _ _ _ _ _ M QA FA) as
        [(Hc & Hw) | [(Hc & Hw & Hn & H1) | [(Hc & Hw & Hn) | [(Hs & Hc & Hw & Hw0 & Hn) | (Hc & Hw & Hw0 & Hn & HN & HP)]]]].
      * (* nothing moves for this stream *)
        assert (ES : sumf (wt sg) (ags (apply1 s0 a o)) = sumf (wt sg) (ags s0)) by lia.
        rewrite ES, Hc. apply (CE Small0 sg).
      * (* a handle of this stream announces a clone *)
        assert (ES : sumf (wt sg) (ags (apply1 s0 a o)) = sumf (wt sg) (ags s0) + 1) by lia.
        right. rewrite ES, Hc. destruct (CE Small0 sg) as [Z | EQ]; [lia|].
        rewrite EQ. unfold wadd. now rewrite N.mod_small by lia.
      * (* a handle of this stream leaves *)
        assert (ES : sumf (wt sg) (ags (apply1 s0 a o)) + 1 = sumf (wt sg) (ags s0)) by lia.
        right. rewrite Hc. destruct (CE Small0 sg) as [Z | EQ]; [lia|].
        rewrite EQ. rewrite wsub_ge by lia. lia.
      * (* a new stream is allocated: nobody has weight on the fresh identifier *)
        assert (Z0 : sumf (wt sg) (ags s0) = 0).
        { apply sumf_zero; [|exact ND]. intros b B EB. subst sg. apply fresh_wt_nsid. apply (FR b B EB). }
        right. rewrite Hc. lia.
      * (* abandoned stream: nobody else knows it *)
        left. apply sumf_zero; [|eapply apply1_keys; eauto].
        intros b B EB. destruct (apply1_get _ _ _ _ _ EB) as (B0 & HB & Hsrc).
        assert (G : wt sg b B0 = 0).
        { destruct (wn_nphase sg A HN) as [NA ER].
          destruct Hsrc as [(a' & Hn2 & ->) | [(-> & ->) | (Hne & EB0)]].
          - unfold new_wt in Hn. rewrite Hn2 in Hn. exact Hn.
          - exact Hw.
          - apply kn_false_wt. rewrite <- ER. apply (UQ a A b B0); auto. }
        destruct HB as [->| ->]; [exact G|now rewrite wt_notified].
  - (* spurious failure *)
    intros s0 a A o R (ND & FR & UQ & CE) EA M.
    destruct (spur_shape _ _ _ _ M) as (N0 & Hr & Ha & Hm & Hs & Hc & Hp & _).
    pose proof (ctl_mreach c fut s0 R a A EA) as QA.
    assert (TOP : topc (o_a o) = topc A /\ a_sid (o_a o) = a_sid A /\ r_ns (a_r (o_a o)) = r_ns (a_r A) /\ nsid (o_s o) = nsid (sh s0) /\
                  (forall sg, gcons (o_s o) sg = gcons (sh s0) sg) /\ o_ntf o = []).
    { clear -M QA. destruct A as [role alive multi sid tok pc stack R0 notified parked].
      unfold micro_spur, ok in M. cbn in M. unfold topc.
      destruct pc; try discriminate M;
        (destruct stack as [|k st]; [unfold ctl_ok in QA; cbn in QA; discriminate QA|]).
      - injection M as <-. cbn. repeat split; reflexivity.
      - destruct (r_am R0); [discriminate|].
        unfold use_obj, bad, drop_opt, drop_val in M. cbn in M.
        break_hyp M; injection M as <-; cbn; repeat split; reflexivity. }
    destruct TOP as (ET & ESd & ENs & ENsid & EG & NT).
    assert (EW : forall sg x, wt sg x (o_a o) = wt sg x A).
    { intros sg x. unfold wt, w_h, w_c, w_n. now rewrite ET, ESd, ENs, Hr, Ha, Hc. }
    assert (ENP : nphase (o_a o) = nphase A) by (unfold nphase; now rewrite ET, Hc).
    unfold RecvInv, Fresh, Uniq, ConsEq, apply1. rewrite N0, NT. change (notify_all [] (put (ags s0) a (o_a o))) with (put (ags s0) a (o_a o)). cbn [ags sh].
    split; [|split; [|split]].
    + apply keys_nodup_put. exact ND.
    + intros b B EB. cbn [ags sh] in *. rewrite get_put in EB. destruct (N.eqb b a) eqn:E.
      * injection EB as <-. destruct (FR a A EA) as (F1 & F2 & F3).
        unfold fresh_ok. rewrite ESd, ENs, ENP, ENsid. auto.
      * destruct (FR b B EB) as (F1 & F2 & F3). unfold fresh_ok. rewrite ENsid. auto.
    + intros x X y Y Hxy EX EY NX. cbn [ags] in *. rewrite get_put in EX, EY.
      destruct (N.eqb x a) eqn:E1; destruct (N.eqb y a) eqn:E2.
      * apply N.eqb_eq in E1, E2. congruence.
      * injection EX as <-. apply N.eqb_eq in E1. subst x. rewrite ENs. rewrite ENP in NX.
        apply (UQ a A y Y); auto.
      * injection EY as <-. apply N.eqb_eq in E2. subst y.
        pose proof (UQ x X a A Hxy EX EA NX) as K. unfold kn in *. now rewrite ESd, ENs, ENP.
      * eapply UQ; eauto.
    + intros Small. cbn [ags sh] in *. rewrite (len_put_same _ _ _ _ EA) in Small. intros sg.
      pose proof (sumf_put_in (wt sg) (ags s0) a A (o_a o) ND EA) as X. rewrite EW in X.
      assert (ES2 : sumf (wt sg) (put (ags s0) a (o_a o)) = sumf (wt sg) (ags s0)) by lia.
      rewrite ES2, EG. apply (CE Small).
  - (* tick *)
    intros s0 R (ND & FR & UQ & CE). split; [exact ND|split; [exact FR|split; [exact UQ|exact CE]]].
  - (* init *)
    split; [|split; [|split]].
    + apply init_keys.
    + intros a A EA. cbn in EA. unfold get in EA. cbn in EA.
      destruct (N.eqb a 0); [injection EA as <-; destruct fut; cbv; repeat split; discriminate|].
      destruct (N.eqb a 1); [injection EA as <-; destruct fut; cbv; repeat split; discriminate|discriminate].
    + intros a A b B Hab EA EB NA. exfalso. cbn in EA. unfold get in EA. cbn in EA.
      destruct (N.eqb a 0); [injection EA as <-; destruct fut; discriminate NA|].
      destruct (N.eqb a 1); [injection EA as <-; destruct fut; discriminate NA|discriminate].
    + intros _ sg. right. destruct fut; cbn; unfold gcons, getd, get; cbn;
        unfold wt, w_h, w_c, w_n, topc, recv_role; cbn;
        destruct (N.eqb 0 sg) eqn:E; cbn; rewrite ?E; cbn; try reflexivity;
        rewrite N.eqb_sym, E; reflexivity.
Qed.
