(* The published stream lists: identifiers are fresh, lists are never modified after allocation,
   and the list a publishing compare-exchange installs is the current list plus the new stream
   (add_stream) or minus the leaving stream (remove_reader). *)
From Coq Require Import NArith List Bool Lia.
Require Import MQ.Arith64 MQ.Arith64Facts MQ.Types MQ.State MQ.Model MQ.Exec MQ.Reach MQ.Ctl MQ.Count
  MQ.WritersStep MQ.InvWriters MQ.RecvDefs MQ.RecvStep MQ.InvRecv MQ.GroupStep MQ.GroupStep2 MQ.GroupStep3 MQ.NewAgentStep.
Import ListNotations.
Open Scope N_scope.

Definition g_add_ok (A : agent) (S : shared) : Prop :=
  a_pc A = A3 -> r_ng (a_r A) < ngid S /\ ggroup S (r_ng (a_r A)) = ggroup S (r_g (a_r A)) ++ [r_ns (a_r A)].
Definition g_rem_ok (A : agent) (S : shared) : Prop :=
  a_pc A = D2 -> r_ng (a_r A) < ngid S /\ ggroup S (r_ng (a_r A)) = removeN (a_sid A) (ggroup S (r_g (a_r A))).
Definition g_rg_ok (A : agent) (S : shared) : Prop :=
  gphase (a_pc A) = true -> r_g (a_r A) < ngid S.

Definition GroupsInv (s : state) : Prop :=
  cur (sh s) < ngid (sh s) /\
  forall a A, get (ags s) a = Some A -> g_rg_ok A (sh s) /\ g_add_ok A (sh s) /\ g_rem_ok A (sh s).

Lemma gfields_notified A :
  a_pc (set_a_notified true A) = a_pc A /\ a_r (set_a_notified true A) = a_r A /\ a_sid (set_a_notified true A) = a_sid A.
Proof. destruct A; repeat split; reflexivity. Qed.

Lemma gok_mono A S S' :
  ngid S <= ngid S' -> (forall g, g < ngid S -> ggroup S' g = ggroup S g) ->
  g_rg_ok A S /\ g_add_ok A S /\ g_rem_ok A S -> g_rg_ok A S' /\ g_add_ok A S' /\ g_rem_ok A S'.
Proof.
  intros L IM (G1 & G2 & G3). unfold g_rg_ok, g_add_ok, g_rem_ok in *. split; [|split].
  - intros P. specialize (G1 P). lia.
  - intros P. destruct (G2 P) as [L1 E].
    assert (GP : gphase (a_pc A) = true) by (rewrite P; reflexivity).
    specialize (G1 GP). split; [lia|]. rewrite !IM by lia. exact E.
  - intros P. destruct (G3 P) as [L1 E].
    assert (GP : gphase (a_pc A) = true) by (rewrite P; reflexivity).
    specialize (G1 GP). split; [lia|]. rewrite !IM by lia. exact E.
Qed.

Theorem groups_mreach c fut s : mreach c fut s -> GroupsInv s.
Proof.
  apply mreach_inv2.
  - (* begin_call *)
    intros s0 a A cl pc R (G0 & I) EA Hpc Hal He _. unfold begin_call. cbn [ags sh]. split; [exact G0|].
    intros b B EB. cbn [ags sh] in *. rewrite get_put in EB. destruct (N.eqb b a) eqn:E; [|apply (I b B EB)].
    injection EB as <-.
    assert (NP : gphase pc = false /\ pc <> A3 /\ pc <> D2).
    { clear -He. unfold entry in He.
      destruct (a_role A), cl; try discriminate He; try (destruct (is_bcast c); try discriminate He);
        injection He as <-; repeat split; discriminate. }
    destruct NP as (N1 & N2 & N3). unfold g_rg_ok, g_add_ok, g_rem_ok.
    destruct A as [role alive multi sid tok pc0 stack R0 notified parked]. cbn.
    split; [|split]; intros X; congruence.
  - (* micro *)
    intros s0 x X o R (G0 & I) EX _ M NO.
    pose proof (ctl_mreach c fut s0 R x X EX) as QX.
    destruct (micro_groups _ _ _ _ _ M) as (NG & IM & CU).
    destruct (I x X EX) as (XG & XA & XR).
    unfold GroupsInv. change (sh (apply1 s0 x o)) with (o_s o). split.
    + destruct CU as [E | [(PA & EC & E) | (PA & EC & E)]]; rewrite E.
      * lia.
      * destruct (XA PA). lia.
      * destruct (XR PA). lia.
    + intros b B EB.
      destruct (apply1_get _ _ _ _ _ EB) as (B0 & HB & Hsrc).
      assert (G : g_rg_ok B0 (o_s o) /\ g_add_ok B0 (o_s o) /\ g_rem_ok B0 (o_s o)).
      { destruct Hsrc as [(a' & Hn & ->) | [(-> & ->) | (Hne & EB0)]].
        - destruct (micro_new_idle _ _ _ _ _ _ _ M Hn) as (EI & _).
          unfold g_rg_ok, g_add_ok, g_rem_ok. rewrite EI. split; [|split]; intros Y; discriminate Y.
        - unfold g_rg_ok, g_add_ok, g_rem_ok. split; [|split].
          + intros P. destruct (micro_rg _ _ _ _ _ M QX P) as [(PX & E) | E]; rewrite E; [specialize (XG PX)|]; lia.
          + intros P. destruct (micro_gregs _ _ _ _ _ M QX) as (T1 & _). specialize (T1 P).
            destruct (micro_a2 _ _ _ _ _ M T1) as (E1 & E2 & E3 & E4 & _).
            assert (GP : gphase (a_pc X) = true) by (rewrite T1; reflexivity).
            split.
            * rewrite E1. pose proof (micro_a2_ngid _ _ _ _ _ M T1). lia.
            * rewrite E1, E2, E3, E4. rewrite IM by (apply XG; exact GP). reflexivity.
          + intros P. destruct (micro_gregs _ _ _ _ _ M QX) as (_ & T1). specialize (T1 P).
            destruct (micro_d2pre _ _ _ _ _ M T1) as (E1 & E2 & E3 & E4 & _).
            assert (GP : gphase (a_pc X) = true) by (rewrite T1; reflexivity).
            split.
            * rewrite E1. pose proof (micro_d2pre_ngid _ _ _ _ _ M T1). lia.
            * rewrite E1, E2, E3, E4. rewrite IM by (apply XG; exact GP). reflexivity.
        - apply (gok_mono B0 (sh s0) (o_s o) NG IM). apply (I b B0 EB0). }
      destruct HB as [->| ->]; [exact G|].
      destruct (gfields_notified B0) as (E1 & E2 & E3).
      unfold g_rg_ok, g_add_ok, g_rem_ok in *. rewrite E1, E2, E3. exact G.
  - (* spurious failure *)
    intros s0 a A o R (G0 & I) EA M.
    destruct (spur_groups _ _ _ _ M) as (E1 & E2 & E3 & E4 & E5 & E6 & _).
    destruct (spur_shape _ _ _ _ M) as (N0 & _ & _ & _ & _ & _ & Hp & _).
    unfold GroupsInv. change (sh (apply1 s0 a o)) with (o_s o). split; [rewrite E1, E2; exact G0|].
    intros b B EB. destruct (apply1_get _ _ _ _ _ EB) as (B0 & HB & Hsrc).
    assert (G : g_rg_ok B0 (o_s o) /\ g_add_ok B0 (o_s o) /\ g_rem_ok B0 (o_s o)).
    { destruct Hsrc as [(a' & Hn & ->) | [(-> & ->) | (Hne & EB0)]].
      - rewrite N0 in Hn. discriminate.
      - unfold g_rg_ok, g_add_ok, g_rem_ok.
        destruct Hp as [[_ P]|[_ P]]; rewrite P; (split; [|split]); intros Y; discriminate Y.
      - destruct (I b B0 EB0) as (H1 & H2 & H3). unfold g_rg_ok, g_add_ok, g_rem_ok, ggroup in *.
        rewrite E2, E3. auto. }
    destruct HB as [->| ->]; [exact G|].
    destruct (gfields_notified B0) as (F1 & F2 & F3).
    unfold g_rg_ok, g_add_ok, g_rem_ok in *. rewrite F1, F2, F3. exact G.
  - (* tick *)
    intros s0 R I. exact I.
  - (* init *)
    split; [destruct fut; reflexivity|].
    intros a A EA. cbn in EA. unfold get in EA. cbn in EA.
    destruct (N.eqb a 0); [injection EA as <-; destruct fut; (split; [|split]); intros Y; discriminate Y|].
    destruct (N.eqb a 1); [injection EA as <-; destruct fut; (split; [|split]); intros Y; discriminate Y|discriminate].
Qed.
