(* The start position of a stream (C10): a stream's deliveries begin exactly at the position its cursor had when it
   was published. *)
From Coq Require Import NArith List Bool Lia.
Require Import MQ.Arith64 MQ.Arith64Facts MQ.Types MQ.State MQ.Model MQ.Exec MQ.Reach MQ.Fields MQ.Ctl MQ.Count MQ.SumCount MQ.FreshStep
  MQ.WritersStep MQ.InvWriters MQ.HeadStep MQ.InvHead MQ.RecvDefs MQ.RecvStep MQ.KnownStep MQ.InvRecv MQ.SoleDefs MQ.InvSole
  MQ.PosStep MQ.AttStep MQ.InvPos MQ.GroupStep MQ.GroupStep2 MQ.GroupStep3 MQ.NewAgentStep MQ.InvGroups MQ.RegStep MQ.InvReg
  MQ.WinStep MQ.WinDefs MQ.WinStep2 MQ.WinTrans MQ.InvWin MQ.SlotDefs MQ.SlotStepA MQ.SlotStepB MQ.SlotStepC MQ.SlotStepD
  MQ.SlotStepE MQ.SlotStepF MQ.SlotStepG MQ.SlotStepJ MQ.InvSlot MQ.InvDeliv.
Import ListNotations.
Open Scope N_scope.

Section ST.
Variable c : cfg.
Notation N := (c_n c).
Hypothesis Npos : 0 < N.
Hypothesis Nsmall : N <= B61.

Record StartG (s : state) : Prop := {
  si_fresh : forall sg, nsid (sh s) <= sg -> get (g_start (sh s)) sg = None;
  si_flight : forall a A, get (ags s) a = Some A -> a_pc A = A3 -> get (g_start (sh s)) (r_ns (a_r A)) = None;
  si_reg : forall sg, In sg (streams (sh s)) -> get (g_start (sh s)) sg <> None;
  si_pos : forall sg st, get (g_start (sh s)) sg = Some st -> gpos (sh s) sg = st + lenN (dposs sg (g_deliv (sh s)));
  si_ent : forall sid p ser me, In (sid, p, ser, me) (g_deliv (sh s)) -> get (g_start (sh s)) sid <> None
}.

Definition StartInv (s : state) : Prop := SmallW s -> StartG s.

Lemma dposs_none sg l : (forall sid p ser me, In (sid, p, ser, me) l -> sid <> sg) -> dposs sg l = [].
Proof.
  unfold dposs. induction l as [|[[[sid p] ser] me] l IHl]; intros HL; [reflexivity|]. cbn.
  assert (EB : (sid =? sg) = false) by (apply N.eqb_neq; apply (HL sid p ser me); left; reflexivity).
  rewrite EB. apply IHl. intros sid' p' ser' me' IN. apply (HL sid' p' ser' me'). right. exact IN.
Qed.

Lemma a3_notified B : a_pc (set_a_notified true B) = a_pc B /\ r_ns (a_r (set_a_notified true B)) = r_ns (a_r B).
Proof. destruct B; split; reflexivity. Qed.

Theorem start_mreachN fut s : mreachN c fut s -> StartInv s.
Proof.
  intros RN. induction RN as [|s0 a A cl pc RN IH EA Hpc Hal He FT0|s0 x X o RN IH EX EN M NO NF|s0 a A o RN IH EA M|s0 RN IH].
  - intros _. constructor.
    + intros sg L. cbn in *. unfold get. cbn. destruct (N.eqb sg 0) eqn:E; [apply N.eqb_eq in E; lia|reflexivity].
    + intros a A EA PC. exfalso. cbn in EA. unfold get in EA. cbn in EA.
      destruct (N.eqb a 0); [injection EA as <-; destruct fut; discriminate PC|].
      destruct (N.eqb a 1); [injection EA as <-; destruct fut; discriminate PC|discriminate].
    + intros sg [<- | []]. cbn. discriminate.
    + intros sg st E. cbn in E. unfold get in E. cbn in E. destruct (N.eqb sg 0) eqn:E0; [|discriminate].
      injection E as <-. apply N.eqb_eq in E0. subst sg. reflexivity.
    + intros sid p ser me [].
  - (* begin_call *)
    intros SM. unfold begin_call in *. destruct SM as [S1 S2]. cbn [ags sh] in *.
    rewrite (len_put_same _ _ _ _ EA) in S1.
    change (g_log (hist (HCall a cl (g_clock (sh s0))) (sh s0))) with (g_log (sh s0)) in S2.
    destruct (IH (conj S1 S2)) as [G1 G2 G3 G4 G5].
    constructor; cbn [ags sh]; try assumption.
    intros b B EB PC. rewrite get_put in EB. destruct (N.eqb b a) eqn:E; [|apply (G2 b B EB PC)].
    injection EB as <-. exfalso. destruct (entry_plain c _ _ _ He) as (_ & _ & _ & N3 & _).
    destruct A; cbn in PC. contradiction.
  - (* micro-step *)
    intros SM'. change (sh (apply1 s0 x o)) with (o_s o).
    pose proof (small_back c Npos Nsmall s0 x X o EX M SM') as SM.
    pose proof (mreachN_mreach c fut s0 RN) as R.
    destruct (IH SM) as [G1 G2 G3 G4 G5].
    pose proof (ctl_mreach c fut s0 R x X EX) as QX.
    destruct (recv_mreach c fut s0 R) as (ND & FR & UQ & _).
    destruct (micro_fresh _ _ _ _ _ M QX (FR x X EX)) as (NS & _).
    destruct (FR x X EX) as (F1 & F2 & _).
    destruct (groups_mreach c fut s0 R) as (GC & GA).
    destruct (micro_groups _ _ _ _ _ M) as (NG & IM & CU).
    assert (DI : DelivInv c (apply1 s0 x o)) by (apply (deliv_mreachN c Npos Nsmall fut); eapply mrn_micro; eauto).
    assert (CS : forall g, gpos (o_s o) g = gpos (sh s0) g \/
       (a_sid X = g /\ (a_pc X = R12 \/ a_pc X = V4) /\ gpos (o_s o) g = next_count (gpos (sh s0) g)) \/
       (a_pc X = A2 /\ g = nsid (sh s0) /\ gpos (o_s o) g = gpos (sh s0) (a_sid X))) by (eapply st_cs; eauto).
    destruct (win_mreachN c Npos Nsmall fut s0 RN SM) as (G & _).
    destruct (slot_mreachN c Npos Nsmall fut s0 RN SM) as (SG & _).
    pose proof (w_head_small c _ G) as HB.
    (* what the step does to the start table *)
    assert (GS : (a_pc X = A3 /\ cur (sh s0) = r_g (a_r X) /\ cur (o_s o) = r_ng (a_r X) /\
                  g_start (o_s o) = put (g_start (sh s0)) (r_ns (a_r X)) (gpos (sh s0) (r_ns (a_r X))) /\
                  pos (o_s o) = pos (sh s0) /\ g_deliv (o_s o) = g_deliv (sh s0)) \/
                 (g_start (o_s o) = g_start (sh s0) /\ (a_pc X = A3 -> cur (o_s o) = cur (sh s0) /\ a_pc (o_a o) <> A3))).
    { destruct (micro_gstart _ _ _ _ _ M) as [E | (PC & _)].
      - right. split; [exact E|]. intros PC. destruct (t_A3s _ _ _ _ _ M PC) as [(_ & _ & E2 & _) | (E1 & _ & E3)]; [|auto].
        exfalso. destruct (t_A3s _ _ _ _ _ M PC) as [(EC & _ & E2' & _) | (_ & E2' & _)].
        + (* put leaves the table unchanged only if the key was there: it was not *)
          rewrite E in E2'. assert (K : get (g_start (sh s0)) (r_ns (a_r X)) = get (put (g_start (sh s0)) (r_ns (a_r X)) (gpos (sh s0) (r_ns (a_r X)))) (r_ns (a_r X))) by (rewrite <- E2'; reflexivity).
          rewrite get_put, N.eqb_refl, (G2 x X EX PC) in K. discriminate K.
        + rewrite E in E2. assert (K : get (g_start (sh s0)) (r_ns (a_r X)) = get (put (g_start (sh s0)) (r_ns (a_r X)) (gpos (sh s0) (r_ns (a_r X)))) (r_ns (a_r X))) by (rewrite <- E2; reflexivity).
          rewrite get_put, N.eqb_refl, (G2 x X EX PC) in K. discriminate K.
      - destruct (t_A3s _ _ _ _ _ M PC) as [(E1 & E2 & E3 & E4 & E5) | (E1 & E2 & E3)].
        + left. repeat split; assumption.
        + right. split; [exact E2|]. intros _. split; assumption. }
    (* deliveries *)
    assert (OLDE : forall sid p ser me, In (sid, p, ser, me) (g_deliv (o_s o)) ->
                     In (sid, p, ser, me) (g_deliv (sh s0)) \/ (sid = a_sid X /\ fn_of (a_pc X) = FTR)).
    { intros sid p ser me IN. destruct (micro_gdeliv _ _ _ _ _ M) as [E | (PC & ser0 & _ & E)]; rewrite E in IN; [left; exact IN|].
      apply in_app_or in IN as [IN | [IN | []]]; [left; exact IN|]. injection IN as <- _ _ _. right.
      split; [reflexivity|apply commit_in_ftr; exact PC]. }
    assert (REGX : fn_of (a_pc X) = FTR -> In (a_sid X) (streams (sh s0))).
    { intros F. destruct SM as [SMa _]. destruct (reg_mreach c fut s0 R SMa) as (_ & RG1 & _).
      apply (RG1 x X (a_sid X) EX). apply ftr_wh; assumption. }
    destruct GS as [(PC & EC & EC' & EGS & EPOS & EDL) | (EGS & NA3)].
    + (* the stream r_ns X is published *)
      destruct (GA x X EX) as (_ & XA & _). destruct (XA PC) as (L1 & EL).
      assert (EP : forall g, gpos (o_s o) g = gpos (sh s0) g) by (intros; unfold gpos; now rewrite EPOS).
      constructor; change (sh (apply1 s0 x o)) with (o_s o).
      * intros sg L. rewrite EGS, get_put. destruct (N.eqb sg (r_ns (a_r X))) eqn:E; [apply N.eqb_eq in E; lia|]. apply G1. lia.
      * intros b B EB PCB. rewrite EGS, get_put.
        destruct (apply1_get _ _ _ _ _ EB) as (B0 & HB0 & Hsrc).
        assert (FB : a_pc B0 = A3 /\ r_ns (a_r B) = r_ns (a_r B0)).
        { destruct HB0 as [-> | ->]; [auto|]. destruct (a3_notified B0) as (E1 & E2). rewrite E1 in PCB. auto. }
        destruct FB as (PB0 & ->).
        destruct Hsrc as [(a' & Hn & ->) | [(-> & ->) | (Hne & EB0)]].
        -- destruct (micro_new_idle _ _ _ _ _ _ _ M Hn) as (EI & _). rewrite EI in PB0. discriminate PB0.
        -- exfalso. destruct (micro_gregs _ _ _ _ _ M QX) as (GA3 & _). specialize (GA3 PB0). congruence.
        -- assert (NPX : nphase X = true).
           { clear -QX PC. destruct X as [role alive multi sid tok pc stack R0 notified parked]. cbn in PC. subst pc.
             unfold ctl_ok in QX. unfold nphase, topc. cbn in QX |- *.
             apply andb_prop in QX as [Q _]. apply andb_prop in Q as [Q1 _].
             destruct stack as [|k st]; [reflexivity|cbn in Q1; discriminate Q1]. }
           assert (NPB : nphase B0 = true).
           { pose proof (ctl_mreach c fut s0 R b B0 EB0) as QB. clear -QB PB0.
             destruct B0 as [role alive multi sid tok pc stack R0 notified parked]. cbn in PB0. subst pc.
             unfold ctl_ok in QB. unfold nphase, topc. cbn in QB |- *.
             apply andb_prop in QB as [Q _]. apply andb_prop in Q as [Q1 _].
             destruct stack as [|k st]; [reflexivity|cbn in Q1; discriminate Q1]. }
           pose proof (UQ x X b B0 (fun E0 => Hne (eq_sym E0)) EX EB0 NPX) as KN.
           unfold kn in KN. rewrite NPB in KN. cbn in KN. apply orb_false_elim in KN as [_ KN].
           rewrite KN. apply (G2 b B0 EB0 PB0).
      * intros sg IN. unfold streams in IN. rewrite EC', (IM _ L1), EL, <- EC in IN. rewrite EGS, get_put.
        destruct (N.eqb sg (r_ns (a_r X))) eqn:E; [discriminate|].
        apply in_app_or in IN as [IN | [IN | []]]; [apply G3; exact IN|]. subst sg. rewrite N.eqb_refl in E. discriminate E.
      * intros sg st E. rewrite EGS, get_put in E. rewrite EDL, EP.
        destruct (N.eqb sg (r_ns (a_r X))) eqn:E0; [|apply G4; exact E].
        apply N.eqb_eq in E0. subst sg. injection E as <-.
        rewrite dposs_none; [unfold lenN; cbn; lia|].
        intros sid p ser me IN ES. subst sid. apply (G5 _ _ _ _ IN). apply (G2 x X EX PC).
      * intros sid p ser me IN. rewrite EDL in IN. rewrite EGS, get_put.
        destruct (N.eqb sid (r_ns (a_r X))); [discriminate|]. apply (G5 _ _ _ _ IN).
    + (* the start table is unchanged *)
      constructor; change (sh (apply1 s0 x o)) with (o_s o).
      * intros sg L. rewrite EGS. apply G1. lia.
      * intros b B EB PCB. rewrite EGS.
        destruct (apply1_get _ _ _ _ _ EB) as (B0 & HB0 & Hsrc).
        assert (FB : a_pc B0 = A3 /\ r_ns (a_r B) = r_ns (a_r B0)).
        { destruct HB0 as [-> | ->]; [auto|]. destruct (a3_notified B0) as (E1 & E2). rewrite E1 in PCB. auto. }
        destruct FB as (PB0 & ->).
        destruct Hsrc as [(a' & Hn & ->) | [(-> & ->) | (Hne & EB0)]].
        -- destruct (micro_new_idle _ _ _ _ _ _ _ M Hn) as (EI & _). rewrite EI in PB0. discriminate PB0.
        -- destruct (micro_gregs _ _ _ _ _ M QX) as (GA3 & _). specialize (GA3 PB0).
           destruct (micro_a2 _ _ _ _ _ M GA3) as (_ & E2 & _). rewrite E2. apply G1. lia.
        -- apply (G2 b B0 EB0 PB0).
      * intros sg IN. rewrite EGS. apply G3. unfold streams in *.
        destruct CU as [E | [(PC & EC & E) | (PC & EC & E)]].
        -- unfold G_cur_same in E. rewrite E, (IM _ GC) in IN. exact IN.
        -- exfalso. destruct (NA3 PC) as (E1 & _). rewrite E, EC in E1.
           destruct (GA x X EX) as (_ & XA & _). destruct (XA PC) as (L1 & _).
           destruct (win_mreachN c Npos Nsmall fut s0 RN SM) as (_ & IA). destruct (IA x X EX) as (_ & _ & _ & GAX).
           unfold ga in GAX. specialize (GAX (or_introl PC)). lia.
        -- destruct (GA x X EX) as (_ & _ & XR). destruct (XR PC) as (L1 & EL).
           rewrite E, (IM _ L1), EL, <- EC in IN. eapply in_removeN_in; eauto.
      * intros sg st E. rewrite EGS in E. specialize (G4 sg st E).
        destruct (DI SM') as (_ & _ & _).
        destruct (CS sg) as [EQ | [(ES & PC & EQ) | (PC & EG & EQ)]].
        -- rewrite EQ, G4. f_equal. f_equal.
           destruct (micro_gdeliv _ _ _ _ _ M) as [ED | (PC & ser0 & EV & ED)]; rewrite ED; [reflexivity|].
           rewrite dposs_app. destruct (N.eq_dec (a_sid X) sg) as [ES | NS0].
           ++ exfalso. subst sg. assert (EP' : gpos (o_s o) (a_sid X) = r_p (a_r X) + 1 /\ gpos (sh s0) (a_sid X) = r_p (a_r X)).
              { destruct (dl_append c Npos Nsmall fut s0 x X o RN SM' EX M ser0 x PC EV ED) as (A1 & A2'). auto. }
              lia.
           ++ assert (EF : dposs sg [(a_sid X, r_p (a_r X), ser0, x)] = []).
              { unfold dposs. cbn. assert (EB : (a_sid X =? sg) = false) by (apply N.eqb_neq; exact NS0). rewrite EB. reflexivity. }
              rewrite EF, app_nil_r. reflexivity.
        -- subst sg.
           assert (DIH : DelivInv c s0) by (apply (deliv_mreachN c Npos Nsmall fut); exact RN).
           destruct (dl_commit_appends c Npos Nsmall fut s0 x X o RN SM' EX M DIH PC EQ) as (ser & EV & ED & EP).
           rewrite ED, dposs_app.
           assert (EF : dposs (a_sid X) [(a_sid X, r_p (a_r X), ser, x)] = [r_p (a_r X)]).
           { unfold dposs. cbn. rewrite N.eqb_refl. reflexivity. }
           rewrite EF, EQ. pose proof (sg_pos c _ SG (a_sid X)) as L.
           rewrite (next_count_plus c Npos Nsmall) by lia. rewrite G4.
           unfold lenN. rewrite app_length. cbn [length]. lia.
        -- exfalso. subst sg. rewrite (G1 (nsid (sh s0))) in E by lia. discriminate E.
      * intros sid p ser me IN. rewrite EGS. destruct (OLDE _ _ _ _ IN) as [IN0 | (-> & F)]; [apply (G5 _ _ _ _ IN0)|].
        apply G3. apply REGX. exact F.
  - (* spurious failure *)
    intros SM'.
    destruct (spur_shape _ _ _ _ M) as (N0 & _ & _ & _ & _ & _ & SHP & _ & EH & EL).
    destruct (spur_win c _ _ _ M) as (WE & ENS & _).
    destruct (spur_slot _ _ _ _ M) as (_ & ED & EGS & _).
    assert (SM : SmallW s0).
    { destruct SM' as [S1 S2]. split; [pose proof (apply1_len s0 a o); lia|].
      change (sh (apply1 s0 a o)) with (o_s o) in S2. rewrite EL in S2. exact S2. }
    destruct (IH SM) as [G1 G2 G3 G4 G5].
    destruct WE as (_ & _ & E3 & E4 & _ & E6 & _).
    change (sh (apply1 s0 a o)) with (o_s o).
    constructor; change (sh (apply1 s0 a o)) with (o_s o); rewrite ?EGS, ?ED.
    + intros sg L. apply G1. lia.
    + intros b B EB PCB.
      destruct (apply1_get _ _ _ _ _ EB) as (B0 & HB0 & Hsrc).
      assert (FB : a_pc B0 = A3 /\ r_ns (a_r B) = r_ns (a_r B0)).
      { destruct HB0 as [-> | ->]; [auto|]. destruct (a3_notified B0) as (E1 & E2). rewrite E1 in PCB. auto. }
      destruct FB as (PB0 & ->).
      destruct Hsrc as [(a' & Hn & ->) | [(-> & ->) | (Hne & EB0)]].
      * rewrite N0 in Hn. discriminate Hn.
      * exfalso. destruct SHP as [(_ & P') | (_ & P')]; rewrite P' in PB0; discriminate PB0.
      * apply (G2 b B0 EB0 PB0).
    + intros sg IN. apply G3. unfold streams, ggroup in *. rewrite E4, E6 in IN. exact IN.
    + intros sg st E. unfold gpos. rewrite E3. apply (G4 sg st E).
    + exact G5.
  - intros SM. cbn [ags sh] in *. destruct SM as [S1 S2].
    change (g_log (tick (sh s0))) with (g_log (sh s0)) in S2.
    destruct (IH (conj S1 S2)) as [G1 G2 G3 G4 G5]. constructor; assumption.
Qed.
End ST.
