(* Consequences of the population and registry invariants that the property files state. *)
From Coq Require Import NArith List Bool Lia.
Require Import MQ.Arith64 MQ.Arith64Facts MQ.Types MQ.State MQ.Model MQ.Exec MQ.Reach MQ.Ctl MQ.Count MQ.SumCount
  MQ.WritersStep MQ.InvWriters MQ.RecvDefs MQ.RecvStep MQ.KnownStep MQ.InvRecv MQ.SoleDefs MQ.InvSole MQ.PosStep MQ.AttStep MQ.InvPos
  MQ.GroupStep MQ.GroupStep2 MQ.GroupStep3 MQ.InvGroups MQ.RegStep MQ.InvReg.
Import ListNotations.
Open Scope N_scope.

(* once no sender handle is alive the writers counter stays at zero *)
Theorem writers_zero_stable c fut s a A o :
  mreach c fut s -> lenN (ags s) < B62 -> get (ags s) a = Some A ->
  micro c a A (sh s) = Some o -> writers (sh s) = 0 -> writers (o_s o) = 0.
Proof.
  intros R Small EA M Z.
  destruct (iw_mreach c fut s R) as [ND I]. destruct (I Small) as [IWr _].
  pose proof (wok_mreach c fut s R a A EA) as QA. unfold w_ok in QA.
  apply andb_prop in QA as [QA QF]. apply andb_prop in QA as [QC QM].
  destruct (micro_writers _ _ _ _ _ M QC QF) as
    [(Hw & _) | [(Hw & Hc1 & Hc0 & _) | (Hw & Hc1 & Hc0 & _)]].
  - now rewrite Hw.
  - exfalso. pose proof (cnt_get_pos cs (ags s) a A EA Hc0). lia.
  - exfalso. pose proof (cnt_get_pos cs (ags s) a A EA Hc0). lia.
Qed.

(* the cursor of a stream in flight is written by nobody until the stream gets its first handle *)
Theorem inflight_cursor_untouched c fut s a A x X o :
  mreach c fut s -> lenN (ags s) < B62 -> get (ags s) a = Some A -> nphase A = true ->
  get (ags s) x = Some X -> micro c x X (sh s) = Some o ->
  gpos (o_s o) (r_ns (a_r A)) = gpos (sh s) (r_ns (a_r A)).
Proof.
  intros R Small EA NA EX M.
  destruct (recv_mreach c fut s R) as (ND & FR & UQ & _).
  destruct (FR a A EA) as (_ & F2 & F3). specialize (F3 NA).
  destruct (cursor_steps c fut s x X o (r_ns (a_r A)) R Small EX M) as [E | [(ES & _) | (_ & ES & _)]]; [exact E| |lia].
  exfalso. destruct (N.eq_dec x a) as [->|Hne].
  - rewrite EA in EX. injection EX as <-. lia.
  - pose proof (UQ a A x X (fun E => Hne (eq_sym E)) EA EX NA) as K. unfold kn in K.
    apply orb_false_elim in K as [K _]. apply N.eqb_neq in K. congruence.
Qed.

(* the compare-exchange of remove_reader installs the current list minus the leaving stream, and
   that stream is held by nobody *)
Theorem removal_takes_own_stream_only c fut s x X o :
  mreach c fut s -> lenN (ags s) < B62 -> get (ags s) x = Some X ->
  micro c x X (sh s) = Some o -> a_pc X = D2 -> cur (sh s) = r_g (a_r X) ->
  streams (o_s o) = removeN (a_sid X) (streams (sh s)) /\ sumf (wt (a_sid X)) (ags s) = 0.
Proof.
  intros R Small EX M PA EC.
  destruct (groups_mreach c fut s R) as (GC & GA). destruct (GA x X EX) as (_ & _ & XR).
  destruct (XR PA) as (L1 & EL).
  destruct (micro_groups _ _ _ _ _ M) as (NG & IM & CU).
  pose proof (ctl_mreach c fut s R x X EX) as QX.
  split.
  - unfold streams. rewrite EC, <- EL.
    assert (E : cur (o_s o) = r_ng (a_r X)).
    { clear -M PA EC. destruct X as [role alive multi sid tok pc stack R0 notified parked].
      cbn in PA, EC. subst pc. micro_cases M; cbn; eqb_hyps; congruence. }
    rewrite E. apply IM. exact L1.
  - destruct (reg_mreach c fut s R Small) as (LZ & _). apply (LZ x X EX).
    clear -QX PA. destruct X as [role alive multi sid tok pc stack R0 notified parked].
    cbn in PA. subst pc. unfold ctl_ok in QX. cbn in QX. unfold topc. cbn.
    destruct stack; [reflexivity|cbn in QX; discriminate QX].
Qed.
