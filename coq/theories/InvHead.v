(* head counts exactly the claimed values (I1): head = |log| (mod 2^63), the log only grows,
   and the single-writer path stores head + 1 (its loaded value is still current). *)
From Coq Require Import NArith List Bool Lia.
Require Import MQ.Arith64 MQ.Arith64Facts MQ.Types MQ.State MQ.Model MQ.Exec MQ.Reach MQ.Fields MQ.Ctl MQ.Count
  MQ.AgentInv MQ.WritersStep MQ.InvWriters MQ.HeadStep.
Import ListNotations.
Open Scope N_scope.

(* ---- per agent: the single-writer path runs in single-writer mode ---- *)
Definition wu_ok (A : agent) : bool := w_ok A && u1_ok A.

Lemma wu_notified A b : wu_ok (set_a_notified b A) = wu_ok A.
Proof. destruct A; reflexivity. Qed.

Lemma u1_entry c A cl pc :
  entry c (a_role A) cl = Some pc ->
  u1_ok (at_pc pc (withr (set_r_res RNoRes (set_r_call cl (a_r A))) (set_a_notified false A))) = true.
Proof.
  intros He. destruct A as [role alive multi sid tok pc0 stack R notified parked].
  unfold entry in He. unfold u1_ok. cbn.
  destruct role, cl; try discriminate He; try (destruct (is_bcast c); try discriminate He);
    injection He as <-; reflexivity.
Qed.

Lemma wu_entry c A cl pc :
  wu_ok A = true -> a_pc A = Idle -> a_alive A = true -> entry c (a_role A) cl = Some pc ->
  wu_ok (at_pc pc (withr (set_r_res RNoRes (set_r_call cl (a_r A))) (set_a_notified false A))) = true.
Proof.
  intros H Hpc Hal He. unfold wu_ok in *. apply andb_prop in H as [H1 H2].
  rewrite (w_entry c A cl pc H1 Hpc Hal He), (u1_entry c A cl pc He). reflexivity.
Qed.

Lemma wu_micro c me A S o :
  micro c me A S = Some o -> wu_ok A = true ->
  wu_ok (o_a o) = true /\ (forall a' A', o_new o = Some (a', A') -> wu_ok A' = true).
Proof.
  intros H Q. unfold wu_ok in Q. apply andb_prop in Q as [QW QU].
  destruct (micro_wok _ _ _ _ _ H QW) as [W1 W2].
  assert (QC : ctl_ok A = true).
  { unfold w_ok in QW. apply andb_prop in QW as [QW _]. apply andb_prop in QW as [QW _]. exact QW. }
  destruct (micro_u1 _ _ _ _ _ H QC QU) as [U1 U2].
  split; [unfold wu_ok; now rewrite W1, U1|].
  intros a' A' X. unfold wu_ok. now rewrite (W2 _ _ X), (U2 _ _ X).
Qed.

Lemma wu_spur c A S o : micro_spur c A S = Some o -> wu_ok A = true -> wu_ok (o_a o) = true /\ o_new o = None.
Proof.
  intros H Q. unfold wu_ok in Q. apply andb_prop in Q as [QW QU].
  destruct (spur_wok _ _ _ _ H QW) as [W1 N0].
  destruct (spur_shape _ _ _ _ H) as (_ & _ & _ & _ & _ & _ & Hp & _).
  split; [|exact N0]. unfold wu_ok. rewrite W1. unfold u1_ok.
  destruct Hp as [[_ ->]|[_ ->]]; reflexivity.
Qed.

Lemma wu_init fut a A : get (ags (init fut)) a = Some A -> wu_ok A = true.
Proof.
  intros EA. cbn in EA. unfold get in EA. cbn in EA.
  destruct (N.eqb a 0); [injection EA as <-; destruct fut; reflexivity|].
  destruct (N.eqb a 1); [injection EA as <-; destruct fut; reflexivity|discriminate].
Qed.

Theorem wu_mreach c fut s : mreach c fut s -> forall a A, get (ags s) a = Some A -> wu_ok A = true.
Proof.
  apply (agents_minv c wu_ok).
  - intros A b. apply wu_notified.
  - apply wu_entry.
  - apply wu_micro.
  - apply wu_spur.
  - intros f a A. apply wu_init.
Qed.

Theorem u1_mreach c fut s : mreach c fut s -> forall a A, get (ags s) a = Some A -> u1_ok A = true.
Proof.
  intros R a A EA. pose proof (wu_mreach c fut s R a A EA) as Q.
  unfold wu_ok in Q. now apply andb_prop in Q as [_ Q].
Qed.

(* ---- the global part ---- *)
Definition HL (s : state) : Prop :=
  forall a A, get (ags s) a = Some A -> pp_pc (a_pc A) (a_stack A) = true -> r_h (a_r A) = head (sh s).

Definition head_counts_log (s : state) : Prop :=
  head (sh s) = lenN (g_log (sh s)) mod MASK_IND.

Definition HeadInv (s : state) : Prop :=
  lenN (ags s) < B62 -> HL s /\ head_counts_log s.

Lemma lenN_app1 {A} (l : list A) x : lenN (l ++ [x]) = lenN l + 1.
Proof. unfold lenN. rewrite app_length. cbn [length]. lia. Qed.

Lemma next_count_of_mod k : next_count (k mod MASK_IND) = (k + 1) mod MASK_IND.
Proof.
  rewrite next_count_mod.
  - rewrite N.add_mod_idemp_l by (unfold MASK_IND; lia). reflexivity.
  - assert (k mod MASK_IND < MASK_IND) by (apply N.mod_lt; unfold MASK_IND; lia).
    unfold MASK_IND, W in *. lia.
Qed.

Lemma pp_in_body A : pp_pc (a_pc A) (a_stack A) = true -> in_send_body A = true.
Proof.
  destruct A as [role alive multi sid tok pc stack R notified parked]. unfold in_send_body. cbn.
  destruct pc; cbn; intros X; try discriminate X; reflexivity.
Qed.

Lemma claim_in_body A : (a_pc A = P5 \/ a_pc A = M5) -> in_send_body A = true.
Proof.
  destruct A as [role alive multi sid tok pc stack R notified parked]. unfold in_send_body. cbn.
  intros [->| ->]; reflexivity.
Qed.

Lemma u1_pp A : u1_ok A = true -> pp_pc (a_pc A) (a_stack A) = true -> a_multi A = false.
Proof.
  unfold u1_ok. intros U X. rewrite X in U. cbn in U. now apply negb_true_iff in U.
Qed.

Lemma pp_notified A : pp_pc (a_pc (set_a_notified true A)) (a_stack (set_a_notified true A)) = pp_pc (a_pc A) (a_stack A)
  /\ r_h (a_r (set_a_notified true A)) = r_h (a_r A).
Proof. destruct A; split; reflexivity. Qed.

(* two different counted senders cannot coexist with one of them in single-writer mode *)
Lemma sole_writer c fut s a A b B :
  mreach c fut s -> lenN (ags s) < B62 -> a <> b ->
  get (ags s) a = Some A -> get (ags s) b = Some B ->
  in_send_body A = true -> pp_pc (a_pc B) (a_stack B) = true -> False.
Proof.
  intros R Small Hab EA EB HA HB.
  pose proof (ctl_mreach c fut s R) as CT.
  pose proof (u1_mreach c fut s R b B EB) as UB.
  destruct (iw_mreach c fut s R) as [ND I]. destruct (I Small) as [_ IU].
  pose proof (send_body_cs a A (CT _ _ EA) HA) as CA.
  pose proof (send_body_cs b B (CT _ _ EB) (pp_in_body B HB)) as CB.
  pose proof (IU b B EB CB (u1_pp B UB HB)) as C1.
  pose proof (cnt_two cs (ags s) a A b B ND Hab EA EB CA CB). lia.
Qed.

Theorem head_mreach c fut s : mreach c fut s -> HeadInv s.
Proof.
  apply mreach_inv2.
  - (* begin_call *)
    intros s0 a A cl pc R I EA Hpc Hal He _ Small.
    assert (LN : lenN (ags (begin_call s0 a A cl pc)) = lenN (ags s0)).
    { unfold begin_call. cbn [ags]. clear -EA. unfold lenN. f_equal. revert EA. generalize (ags s0) as m.
      induction m as [|[k B] m IH]; intros G; [discriminate|].
      rewrite get_cons in G. rewrite put_cons. destruct (N.eqb a k); [reflexivity|].
      cbn [length]. f_equal. auto. }
    rewrite LN in Small. destruct (I Small) as [H1 H2]. split.
    + intros b B EB PB. unfold begin_call in EB |- *. cbn [ags sh] in *.
      rewrite get_put in EB. destruct (N.eqb b a) eqn:E.
      * injection EB as <-. exfalso. clear -He PB.
        destruct A as [role alive multi sid tok pc0 stack R0 notified parked]. cbn in *.
        unfold entry in He.
        destruct role, cl; try discriminate He; try (destruct (is_bcast c); try discriminate He);
          injection He as <-; discriminate PB.
      * change (head (hist _ (sh s0))) with (head (sh s0)). eauto.
    + unfold head_counts_log, begin_call. cbn [sh]. exact H2.
  - (* micro *)
    intros s0 a A o R I EA _ M NO Small.
    assert (Small0 : lenN (ags s0) < B62) by (pose proof (apply1_len s0 a o); lia).
    destruct (I Small0) as [H1 H2].
    change (sh (apply1 s0 a o)) with (o_s o).
    pose proof (micro_head _ _ _ _ _ M) as MH.
    split.
    + intros b B EB PB. change (sh (apply1 s0 a o)) with (o_s o).
      destruct (apply1_get _ _ _ _ _ EB) as (B0 & HB & Hsrc).
      assert (PB0 : pp_pc (a_pc B0) (a_stack B0) = true /\ r_h (a_r B) = r_h (a_r B0)).
      { destruct HB as [->| ->]; [auto|]. destruct (pp_notified B0) as [X Y]. rewrite X in PB. auto. }
      destruct PB0 as [PB0 ->].
      destruct Hsrc as [(a' & Hn & ->) | [(-> & ->) | (Hne & EB0)]].
      * (* a new agent is idle *)
        exfalso. clear -M Hn PB0.
        destruct A as [role alive multi sid tok pc stack R0 notified parked].
        destruct pc; micro_cases M; cbn in Hn; try discriminate Hn;
          injection Hn as <- <-; discriminate PB0.
      * destruct (micro_pp _ _ _ _ _ M (ctl_mreach c fut s0 R _ _ EA) PB0) as [(_ & E1 & E2) | (PA & E1 & E2)].
        -- now rewrite E1, E2.
        -- rewrite E1, E2. eauto.
      * destruct MH as [[E1 _] | [HP _]].
        -- rewrite E1. eauto.
        -- exfalso. eapply (sole_writer c fut s0 a A b B0); eauto.
           apply claim_in_body. destruct HP as [HP|[HP _]]; auto.
    + unfold head_counts_log in *. change (sh (apply1 s0 a o)) with (o_s o).
      destruct MH as [[E1 E2] | [[HP|[HP Hh]] [E1 E2]]].
      * now rewrite E1, E2.
      * rewrite E1, E2, lenN_app1.
        assert (PA : pp_pc (a_pc A) (a_stack A) = true) by (rewrite HP; reflexivity).
        rewrite (H1 _ _ EA PA), H2. apply next_count_of_mod.
      * rewrite E1, E2, lenN_app1, <- Hh, H2. apply next_count_of_mod.
  - (* spurious failure *)
    intros s0 a A o R I EA M Small.
    assert (Small0 : lenN (ags s0) < B62) by (pose proof (apply1_len s0 a o); lia).
    destruct (I Small0) as [H1 H2].
    destruct (spur_shape _ _ _ _ M) as (N0 & _ & _ & _ & _ & _ & Hp & _ & Hh & Hl).
    change (sh (apply1 s0 a o)) with (o_s o). split.
    + intros b B EB PB. change (sh (apply1 s0 a o)) with (o_s o). rewrite Hh.
      destruct (apply1_get _ _ _ _ _ EB) as (B0 & HB & Hsrc).
      assert (PB0 : pp_pc (a_pc B0) (a_stack B0) = true /\ r_h (a_r B) = r_h (a_r B0)).
      { destruct HB as [->| ->]; [auto|]. destruct (pp_notified B0) as [X Y]. rewrite X in PB. auto. }
      destruct PB0 as [PB0 ->].
      destruct Hsrc as [(a' & Hn & ->) | [(-> & ->) | (Hne & EB0)]].
      * rewrite N0 in Hn. discriminate.
      * exfalso. destruct Hp as [[_ E]|[_ E]]; rewrite E in PB0; discriminate PB0.
      * eauto.
    + unfold head_counts_log in *. change (sh (apply1 s0 a o)) with (o_s o). now rewrite Hh, Hl.
  - (* tick *)
    intros s0 R I Small. destruct (I Small) as [H1 H2]. split.
    + intros b B EB PB. cbn [sh ags] in *. change (head (tick (sh s0))) with (head (sh s0)). eauto.
    + unfold head_counts_log in *. cbn [sh]. exact H2.
  - intros _. split.
    + intros a A EA PA. exfalso. cbn in EA. unfold get in EA. cbn in EA.
      destruct (N.eqb a 0); [injection EA as <-; destruct fut; discriminate PA|].
      destruct (N.eqb a 1); [injection EA as <-; destruct fut; discriminate PA|discriminate].
    + reflexivity.
Qed.

Theorem head_is_log_length c fut s :
  reach c fut s -> lenN (ags s) < B62 -> head (sh s) = lenN (g_log (sh s)) mod MASK_IND.
Proof. intros R Small. exact (proj2 (head_mreach c fut s (reach_mreach c fut s R) Small)). Qed.
