(* Small step facts for C07: the three steps that report the end of the stream. *)
From Coq Require Import NArith List Bool Lia.
Require Import MQ.Arith64 MQ.Arith64Facts MQ.Types MQ.State MQ.Model MQ.Exec MQ.Reach MQ.Ctl MQ.Count MQ.WritersStep
  MQ.RecvDefs MQ.RecvStep.
Import ListNotations.
Open Scope N_scope.

Definition is_discon (r : res) : bool := match r with RDiscon => true | _ => false end.

(* the end is reported at R6 only by an attempt that found the consumer count at one *)
Lemma t_R6d c me A S o : micro c me A S = Some o -> a_pc A = R6 ->
  is_discon (r_res (a_r A)) = false -> is_discon (r_res (a_r (o_a o))) = true ->
  r_single (a_r A) = true /\ rm_tag (gtag S (sl c (r_p (a_r A)))) <> r_p (a_r A).
Proof.
  intros H E. destruct A as [role alive multi sid tok pc stack R notified parked]. cbn in E. subst pc.
  unfold gtag. micro_cases H; cbn; unfold popret; cbn; eqb_hyps; intros X0 X1;
    first [ solve [split; auto]
          | solve [rewrite X0 in X1; discriminate X1]
          | destruct stack; cbn in *; first [ solve [split; auto] | solve [rewrite X0 in X1; discriminate X1] | discriminate X1 ] ].
Qed.

Lemma t_R6bd c me A S o : micro c me A S = Some o -> a_pc A = R6b ->
  is_discon (r_res (a_r A)) = false -> is_discon (r_res (a_r (o_a o))) = true ->
  gpos S (a_sid A) = r_p (a_r A).
Proof.
  intros H E. destruct A as [role alive multi sid tok pc stack R notified parked]. cbn in E. subst pc.
  unfold gpos. micro_cases H; cbn; unfold popret; cbn; eqb_hyps; intros X0 X1;
    first [ solve [auto]
          | solve [rewrite X0 in X1; discriminate X1]
          | destruct stack; cbn in *; first [ solve [auto] | solve [rewrite X0 in X1; discriminate X1] | discriminate X1 ] ].
Qed.

Lemma t_V6d c me A S o : micro c me A S = Some o -> a_pc A = V6 ->
  is_discon (r_res (a_r A)) = false -> is_discon (r_res (a_r (o_a o))) = true ->
  rm_tag (gtag S (sl c (r_p (a_r A)))) <> r_p (a_r A).
Proof.
  intros H E. destruct A as [role alive multi sid tok pc stack R notified parked]. cbn in E. subst pc.
  unfold gtag. micro_cases H; cbn; unfold popret; cbn; eqb_hyps; intros X0 X1;
    first [ solve [auto]
          | solve [rewrite X0 in X1; discriminate X1]
          | destruct stack; cbn in *; first [ solve [auto] | solve [rewrite X0 in X1; discriminate X1] | discriminate X1 ] ].
Qed.
