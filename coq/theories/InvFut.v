(* No notification of a parked consumer task is lost (C14, consumers' side of the futures adapters). *)
From Coq Require Import NArith List Bool Lia.
Require Import MQ.Arith64 MQ.Arith64Facts MQ.Types MQ.State MQ.Model MQ.Exec MQ.Reach MQ.Fields MQ.Ctl MQ.Count MQ.SumCount
  MQ.WritersStep MQ.InvWriters MQ.RecvDefs MQ.RecvStep MQ.InvRecv MQ.NewAgentStep MQ.InvMisc MQ.WinStep MQ.InvSlot MQ.WaitStep
  MQ.WakeDefs MQ.NpDefs MQ.WakeStepD MQ.WakeStepE MQ.WakeStepF MQ.InvWake
  MQ.FutDefs MQ.FutStepA MQ.FutStepB MQ.FutStepC MQ.FutStepD MQ.FutStepE.
Import ListNotations.
Open Scope N_scope.

Section FT.
Variable c : cfg.
Variables sf0 sy0 : N.
Hypothesis WF : c_wk c = WFut sf0 sy0.

Definition NPf (s : state) : Prop := exists n N, get (ags s) n = Some N /\ npf N = true.

Definition chkf_ok (A : agent) (s : state) : Prop :=
  (a_pc A = C2 -> fchk A = true -> wcond A (sh s) = true ->
     wait_check (r_cnt (a_r A)) (r_tag (a_r A)) (writers (sh s)) = false -> NPf s) /\
  (a_pc A = FP2 -> r_last (a_r A) = false -> wcond A (sh s) = true -> NPf s).

Record FutG (s : state) : Prop := {
  fg_lock : forall a A, get (ags s) a = Some A -> fholder A = true -> cp_lock (sh s) = Some a;
  fg_park : forall t T, get (ags s) t = Some T -> fwait T = true -> In t (cparked (sh s));
  fg_wake : forall t T, get (ags s) t = Some T -> fwait T = true -> wcond T (sh s) = true -> NPf s;
  fg_chk : forall a A, get (ags s) a = Some A -> chkf_ok A s
}.

Lemma npf_notified B : npf (set_a_notified true B) = npf B.
Proof. destruct B; reflexivity. Qed.
Lemma fholder_notified B : fholder (set_a_notified true B) = fholder B.
Proof. destruct B; reflexivity. Qed.
Lemma fchk_notified B : fchk (set_a_notified true B) = fchk B.
Proof. destruct B; reflexivity. Qed.
Lemma fwait_notified B : fwait (set_a_notified true B) = false.
Proof. destruct B; reflexivity. Qed.
Lemma fwait_fwpc B : fwait B = true -> fwpc B = true /\ a_notified B = false.
Proof. unfold fwait. intros H. apply andb_prop in H as [H1 H2]. apply negb_true_iff in H1. auto. Qed.
Lemma fwpc_fwait B : fwpc B = true -> a_notified B = false -> fwait B = true.
Proof. unfold fwait. intros H1 H2. rewrite H1, H2. reflexivity. Qed.
Lemma fwpc_pcs B : fwpc B = true -> a_pc B <> FP2 /\ a_pc B <> FN1 /\ a_pc B <> P7 /\ a_pc B <> SD0 /\ a_pc B <> FP1 /\ fholder B = false.
Proof.
  unfold fwpc, fholder, fchk. destruct (a_pc B); intros H; try discriminate H; repeat split; try discriminate; reflexivity.
Qed.

Section Step.
Variables (fut : bool) (s : state) (x : BinNums.N) (X : agent) (o : out).
Hypothesis R : mreach c fut s.
Hypothesis SMa : lenN (ags s) < B62.
Hypothesis EX : get (ags s) x = Some X.
Hypothesis EN : is_local (a_pc X) = true \/ enabled x X (sh s) = true.
Hypothesis M : micro c x X (sh s) = Some o.
Hypothesis NO : new_ok s x o = true.
Hypothesis IH : FutG s.

Let QX := ctl_mreach c fut s R x X EX.

Lemma ft_enabled pc0 : a_pc X = pc0 -> is_local pc0 = false -> enabled x X (sh s) = true.
Proof. intros E L. destruct EN as [H | H]; [rewrite E, L in H; discriminate H|exact H]. Qed.

Lemma npf_step : NPf s -> NPf (apply1 s x o) \/ a_pc X = FN1.
Proof.
  intros (n & N & EN0 & NPN). destruct (N.eq_dec n x) as [-> | NE].
  - rewrite EX in EN0. injection EN0 as <-.
    destruct (micro_npf _ _ _ _ _ M QX NPN) as [K | [K | K]]; [|right; exact K|exfalso; apply (K sf0 sy0 WF)].
    left. destruct (apply1_get_self s x o NO) as (B & EB & [-> | ->]).
    + exists x, (o_a o). auto.
    + exists x, (set_a_notified true (o_a o)). rewrite npf_notified. auto.
  - left. destruct (apply1_get_conv s x o n N EN0 NE NO) as (B & EB & [-> | ->]).
    + exists n, N. auto.
    + exists n, (set_a_notified true N). rewrite npf_notified. auto.
Qed.

Lemma npf_self : npf (o_a o) = true -> NPf (apply1 s x o).
Proof.
  intros K. destruct (apply1_get_self s x o NO) as (B & EB & [-> | ->]).
  - exists x, (o_a o). auto.
  - exists x, (set_a_notified true (o_a o)). rewrite npf_notified. auto.
Qed.

Lemma ft_wcond_step B : wcond B (o_s o) = true -> wcond B (sh s) = true \/ a_pc X = P7 \/ a_pc X = SD0.
Proof. eapply wcond_step; eauto. Qed.

Lemma ft_check_back cnt flag : wait_check cnt flag (writers (o_s o)) = false ->
  wait_check cnt flag (writers (sh s)) = false \/ a_pc X = SD0.
Proof. eapply check_back; eauto. Qed.

Lemma ft_owed_after B : (wcond B (sh s) = true -> NPf s) -> a_pc X <> FN1 -> wcond B (o_s o) = true -> NPf (apply1 s x o).
Proof.
  intros OW NN2 H. destruct (ft_wcond_step B H) as [H0 | [PC | PC]].
  - destruct (npf_step (OW H0)) as [K | K]; [exact K|contradiction].
  - apply npf_self. apply (f_P7 _ _ _ _ _ M PC).
  - apply npf_self. apply (f_SD0 _ _ _ _ _ M QX PC).
Qed.

Lemma ft_lock : forall b B, get (ags (apply1 s x o)) b = Some B -> fholder B = true -> cp_lock (o_s o) = Some b.
Proof.
  intros b B EB HB. destruct IH as [LK _ _ _].
  destruct (apply1_get _ _ _ _ _ EB) as (B0 & HB0 & SRC).
  assert (H0 : fholder B0 = true) by (destruct HB0 as [-> | ->]; [exact HB|rewrite fholder_notified in HB; exact HB]).
  clear HB0 HB EB B.
  destruct SRC as [(a' & Hn & ->) | [(-> & ->) | (NE & EB0)]].
  - destruct (micro_new_idle _ _ _ _ _ _ _ M Hn) as (EI & ES & _). unfold fholder, fchk in H0. rewrite EI in H0. discriminate H0.
  - destruct (micro_fholder _ _ _ _ _ M QX H0) as [(HX & _ & _ & EL) | PC].
    + rewrite EL. apply (LK x X EX HX).
    + destruct (f_FP1 _ _ _ _ _ M PC) as (E & _). exact E.
  - pose proof (LK b B0 EB0 H0) as LB.
    destruct (micro_cplock _ _ _ _ _ M) as [E | [(PC & E) | (PC & E)]].
    + rewrite E. exact LB.
    + exfalso. pose proof (f_FP1_enabled x X (sh s) PC (ft_enabled FP1 PC eq_refl)) as FREE. rewrite FREE in LB. discriminate LB.
    + exfalso. assert (HX : fholder X = true) by (unfold fholder; rewrite PC; apply orb_true_r).
      pose proof (LK x X EX HX) as LX. rewrite LX in LB. injection LB as E0. apply NE. symmetry. exact E0.
Qed.

(* a step of the notifier with a non-empty list notifies every parked task *)
Lemma ft_fn1_clears b : a_pc X = FN1 -> In b (cparked (sh s)) ->
  forall B, get (ags (apply1 s x o)) b = Some B -> a_notified B = true.
Proof.
  intros PC IN B EB. apply (apply1_notified s x o b B EB).
  rewrite (f_FN1 _ _ _ _ _ M PC). exact IN.
Qed.

(* a task that has parked itself is on the park list *)
Lemma ft_park : forall t T, get (ags (apply1 s x o)) t = Some T -> fwait T = true -> In t (cparked (o_s o)).
Proof.
  intros t T ET FW. destruct IH as [LK PK WKE CHK].
  destruct (apply1_get _ _ _ _ _ ET) as (T0 & HT0 & SRC).
  assert (TE : T = T0) by (destruct HT0 as [-> | ->]; [reflexivity|rewrite fwait_notified in FW; discriminate FW]).
  subst T. clear HT0.
  destruct SRC as [(a' & Hn & ->) | [(-> & ->) | (NE & ET0)]].
  - exfalso. destruct (micro_new_idle _ _ _ _ _ _ _ M Hn) as (EI & _). destruct (fwait_fwpc _ FW) as (FP & _).
    unfold fwpc in FP. rewrite EI in FP. discriminate FP.
  - destruct (fwait_fwpc _ FW) as (FP & NT).
    destruct (micro_fwpc _ _ _ _ _ M QX FP) as [(FPX & _ & _ & NTF0) | (PC & RL & _)].
    + destruct (fwpc_pcs X FPX) as (N1 & N2 & _).
      assert (NTX : a_notified X = false).
      { destruct NTF0 as [E | PAW]; [rewrite <- E; exact NT|].
        exfalso. destruct (f_AW _ _ _ _ _ M PAW) as [E | E]; unfold fwpc in FP; rewrite E in FP; discriminate FP. }
      pose proof (PK x X EX (fwpc_fwait X FPX NTX)) as INX.
      destruct (micro_cparked _ _ _ _ _ M) as [(E & _) | [(PC2 & _) | (PC2 & _)]]; [rewrite E; exact INX| |]; contradiction.
    + destruct (f_FP2 _ _ _ _ _ M PC RL) as (_ & _ & _ & _ & _ & E & _). rewrite E. apply in_or_app. right. left. reflexivity.
  - pose proof (PK t T0 ET0 FW) as IN0.
    destruct (micro_cparked _ _ _ _ _ M) as [(E & _) | [(_ & _ & E & _) | (PC & E1 & E2)]].
    + rewrite E. exact IN0.
    + rewrite E. apply in_or_app. left. exact IN0.
    + exfalso. assert (INO : In t (o_ntf o)) by (rewrite E2; exact IN0).
      pose proof (apply1_notified s x o t T0 ET INO) as NT. destruct (fwait_fwpc _ FW) as (_ & NF). congruence.
Qed.

(* a parked task whose condition holds is owed a notification *)
Lemma ft_wake : forall t T, get (ags (apply1 s x o)) t = Some T -> fwait T = true -> wcond T (o_s o) = true -> NPf (apply1 s x o).
Proof.
  intros t T ET FW WC. destruct IH as [LK PK WKE CHK].
  destruct (apply1_get _ _ _ _ _ ET) as (T0 & HT0 & SRC).
  assert (TE : T = T0) by (destruct HT0 as [-> | ->]; [reflexivity|rewrite fwait_notified in FW; discriminate FW]).
  subst T. clear HT0.
  destruct SRC as [(a' & Hn & ->) | [(-> & ->) | (NE & ET0)]].
  - exfalso. destruct (micro_new_idle _ _ _ _ _ _ _ M Hn) as (EI & _). destruct (fwait_fwpc _ FW) as (FP & _).
    unfold fwpc in FP. rewrite EI in FP. discriminate FP.
  - destruct (fwait_fwpc _ FW) as (FP & NT).
    destruct (micro_fwpc _ _ _ _ _ M QX FP) as [(FPX & EC & ES & NTF0) | (PC & RL & EC & ES & _)].
    + destruct (fwpc_pcs X FPX) as (N1 & N2 & N3 & N4 & _).
      assert (NTX : a_notified X = false).
      { destruct NTF0 as [E | PAW]; [rewrite <- E; exact NT|].
        exfalso. destruct (f_AW _ _ _ _ _ M PAW) as [E | E]; unfold fwpc in FP; rewrite E in FP; discriminate FP. }
      assert (WX : wcond X (o_s o) = true) by (unfold wcond in *; rewrite EC, ES in WC; exact WC).
      destruct (ft_wcond_step X WX) as [W0 | [P | P]]; [|contradiction|contradiction].
      destruct (npf_step (WKE x X EX (fwpc_fwait X FPX NTX) W0)) as [K | K]; [exact K|contradiction].
    + destruct (f_FP2 _ _ _ _ _ M PC RL) as (_ & ER & _ & ETG & EWR & _).
      destruct (CHK x X EX) as (_ & C2').
      assert (WX : wcond X (sh s) = true) by (unfold wcond, gtag in *; rewrite ER, ETG, EWR in WC; exact WC).
      destruct (npf_step (C2' PC RL WX)) as [K | K]; [exact K|congruence].
  - destruct (ft_wcond_step T0 WC) as [W0 | [P | P]]; [|apply npf_self; apply (f_P7 _ _ _ _ _ M P)|apply npf_self; apply (f_SD0 _ _ _ _ _ M QX P)].
    destruct (npf_step (WKE t T0 ET0 FW W0)) as [K | K]; [exact K|].
    exfalso. pose proof (PK t T0 ET0 FW) as IN0.
    pose proof (ft_fn1_clears t K IN0 T0 ET) as NT. destruct (fwait_fwpc _ FW) as (_ & NF). congruence.
Qed.

Lemma ft_chk : forall b B, get (ags (apply1 s x o)) b = Some B -> chkf_ok B (apply1 s x o).
Proof.
  intros b B EB. destruct IH as [LK PK WKE CHK].
  destruct (apply1_get _ _ _ _ _ EB) as (B0 & HB0 & SRC).
  assert (W0 : chkf_ok B0 (apply1 s x o)).
  2:{ destruct HB0 as [-> | ->]; [exact W0|]. destruct (facts_notified B0) as (E1 & E2 & E3).
      unfold chkf_ok in *. rewrite fchk_notified, wcond_notified, E1, E3. exact W0. }
  clear HB0 EB B. unfold chkf_ok. change (sh (apply1 s x o)) with (o_s o).
  destruct SRC as [(a' & Hn & ->) | [(-> & ->) | (NE & EB0)]].
  - destruct (micro_new_idle _ _ _ _ _ _ _ M Hn) as (EI & _). rewrite EI.
    split; intros Y; discriminate Y.
  - destruct (micro_chksrc _ _ _ _ _ M QX) as (S1 & _).
    destruct (CHK x X EX) as (C1' & C2').
    split.
    + intros PC' BK WCN WCT. exfalso. specialize (S1 PC').
      destruct (e_C1 _ _ _ _ _ M S1) as (_ & _ & ETAG & ECNT & ESL & ETG & EWR).
      unfold wcond, gtag in WCN. rewrite ECNT, ESL, ETG, EWR in WCN. rewrite ECNT, ETAG, EWR in WCT. unfold gtag in WCT. congruence.
    + intros PC' RL WCN.
      destruct (micro_fchksrc _ _ _ _ _ M QX PC') as (PC2 & st & EST).
      destruct (f_C2 _ _ _ _ _ st M PC2 EST) as (_ & ERL & ECNT & ESL & ETG & EWR).
      assert (BK : fchk X = true) by (unfold fchk; rewrite PC2, EST; reflexivity).
      assert (WX : wcond X (sh s) = true) by (unfold wcond, gtag in *; rewrite ECNT, ESL, ETG, EWR in WCN; exact WCN).
      rewrite ERL in RL.
      destruct (npf_step (C1' PC2 BK WX RL)) as [K | K]; [exact K|congruence].
  - destruct (CHK b B0 EB0) as (C1' & C2').
    assert (NFN : fholder B0 = true -> a_pc X <> FN1).
    { intros HB PC. pose proof (LK b B0 EB0 HB) as LB.
      pose proof (f_FN1_enabled x X (sh s) PC (ft_enabled FN1 PC eq_refl)) as FREE. rewrite FREE in LB. discriminate LB. }
    split.
    + intros PC BK WCN WCT.
      assert (HB : fholder B0 = true) by (unfold fholder; rewrite BK; reflexivity).
      destruct (ft_wcond_step B0 WCN) as [WC0 | [P7' | PSD]]; [|apply npf_self; apply (f_P7 _ _ _ _ _ M P7')|apply npf_self; apply (f_SD0 _ _ _ _ _ M QX PSD)].
      destruct (ft_check_back _ _ WCT) as [WT0 | PSD]; [|apply npf_self; apply (f_SD0 _ _ _ _ _ M QX PSD)].
      destruct (npf_step (C1' PC BK WC0 WT0)) as [K | K]; [exact K|exfalso; apply (NFN HB K)].
    + intros PC RL WCN.
      assert (HB : fholder B0 = true) by (unfold fholder; rewrite PC; apply orb_true_r).
      apply (ft_owed_after B0 (C2' PC RL) (NFN HB) WCN).
Qed.
End Step.

Lemma entry_quiet_f r cl pc : entry c r cl = Some pc ->
  pc <> C1 /\ pc <> C2 /\ pc <> FP2 /\ pc <> FP3 /\ pc <> AW /\ pc <> PLfin /\ pc <> PLafter /\ pc <> RVafter /\ pc <> PN1 /\
  pc <> NTF /\ pc <> FN1 /\ pc <> SD1 /\ pc <> TSdone /\ pc <> SSdone.
Proof.
  unfold entry. destruct r, cl; try (intros X; discriminate X); try (destruct (is_bcast c); try (intros X; discriminate X));
    intros X; injection X as <-; repeat split; discriminate.
Qed.

Lemma spur_fut A Sh o0 : micro_spur c A Sh = Some o0 ->
  cp_lock (o_s o0) = cp_lock Sh /\ cparked (o_s o0) = cparked Sh /\ o_ntf o0 = [] /\
  tags (o_s o0) = tags Sh /\ writers (o_s o0) = writers Sh /\
  a_stack (o_a o0) = a_stack A /\ a_notified (o_a o0) = a_notified A /\
  ((a_pc A = M5 /\ a_pc (o_a o0) = M2) \/ (a_pc A = R12 /\ a_pc (o_a o0) = R4)).
Proof.
  intros H. destruct A as [role alive multi sid tok pc stack R0 notified parked].
  unfold micro_spur, ok in H. cbn in H. destruct pc; try discriminate H.
  - injection H as <-. cbn. repeat split; auto.
  - destruct (r_am R0); [discriminate|]. unfold use_obj, bad, drop_opt, drop_val in H. cbn in H.
    break_hyp H; injection H as <-; cbn; repeat split; auto.
Qed.

Theorem fut_mreach fut s : mreach c fut s -> lenN (ags s) < B62 -> FutG s.
Proof.
  revert s. apply (mreach_inv2 c fut (fun s => lenN (ags s) < B62 -> FutG s)).
  - (* begin_call *)
    intros s0 a A cl pc R I EA Hpc Hal He _ SM. unfold begin_call in *. cbn [ags sh] in *.
    rewrite (len_put_same _ _ _ _ EA) in SM. destruct (I SM) as [LK PK WKE CHK].
    destruct (entry_quiet_f _ _ _ He) as (Q1 & Q2 & Q3 & Q4 & Q5 & Q6 & Q7 & Q8 & Q9 & Q10 & Q11 & Q12 & Q13 & Q14).
    set (A1 := at_pc pc (withr (set_r_res RNoRes (set_r_call cl (a_r A))) (set_a_notified false A))) in *.
    assert (PA1 : a_pc A1 = pc) by (destruct A; reflexivity).
    assert (OTH : forall b B, get (put (ags s0) a A1) b = Some B -> (b = a /\ B = A1) \/ (b <> a /\ get (ags s0) b = Some B)).
    { intros b B EB. rewrite get_put in EB. destruct (N.eqb b a) eqn:E.
      - left. apply N.eqb_eq in E. injection EB as <-. auto.
      - right. apply N.eqb_neq in E. auto. }
    assert (NPK : NPf s0 -> NPf (mkstate (hist (HCall a cl (g_clock (sh s0))) (sh s0)) (put (ags s0) a A1))).
    { intros (n & N & EN0 & NPN). exists n, N. split; [|exact NPN]. cbn [ags]. rewrite get_put.
      destruct (N.eqb n a) eqn:E; [|exact EN0]. apply N.eqb_eq in E. subst n. rewrite EA in EN0. injection EN0 as <-.
      exfalso. unfold npf in NPN. rewrite Hpc in NPN. discriminate NPN. }
    assert (FW1 : fwpc A1 = false) by (unfold fwpc; rewrite PA1; destruct pc; try reflexivity; congruence).
    constructor; cbn [ags sh].
    + intros b B EB HB. change (cp_lock (hist (HCall a cl (g_clock (sh s0))) (sh s0))) with (cp_lock (sh s0)).
      destruct (OTH b B EB) as [(-> & ->) | (_ & EB0)]; [|apply (LK b B EB0 HB)].
      exfalso. unfold fholder, fchk in HB. rewrite PA1 in HB. destruct pc; try discriminate HB; congruence.
    + intros t T ET FW. change (cparked (hist (HCall a cl (g_clock (sh s0))) (sh s0))) with (cparked (sh s0)).
      destruct (OTH t T ET) as [(-> & ->) | (_ & ET0)]; [|apply (PK t T ET0 FW)].
      destruct (fwait_fwpc _ FW) as (FP & _). congruence.
    + intros t T ET FW WC. apply NPK.
      destruct (OTH t T ET) as [(-> & ->) | (_ & ET0)]; [destruct (fwait_fwpc _ FW) as (FP & _); congruence|].
      apply (WKE t T ET0 FW WC).
    + intros b B EB. destruct (OTH b B EB) as [(-> & ->) | (_ & EB0)].
      * unfold chkf_ok. rewrite PA1. split; intros Y; congruence.
      * destruct (CHK b B EB0) as (C1' & C2'). unfold chkf_ok. cbn [sh].
        split; [intros P1 P2 P3 P4; apply NPK; apply (C1' P1 P2 P3 P4)|].
        intros P1 P2 P3. apply NPK. apply (C2' P1 P2 P3).
  - (* micro-step *)
    intros s0 x X o R I EX EN M NO SM'.
    assert (SMa : lenN (ags s0) < B62) by (pose proof (apply1_len s0 x o); lia).
    specialize (I SMa). change (sh (apply1 s0 x o)) with (o_s o).
    constructor; change (sh (apply1 s0 x o)) with (o_s o).
    + eapply ft_lock; eauto.
    + eapply ft_park; eauto.
    + eapply ft_wake; eauto.
    + eapply ft_chk; eauto.
  - (* spurious failure *)
    intros s0 a A o R I EA M SM'.
    assert (SMa : lenN (ags s0) < B62) by (pose proof (apply1_len s0 a o); lia).
    destruct (I SMa) as [LK PK WKE CHK].
    destruct (spur_shape _ _ _ _ M) as (N0 & Hr & _ & _ & _ & Hc & _).
    destruct (spur_fut _ _ _ M) as (E1 & E2 & ENTF & E4 & E5 & EST & ENT & SHP).
    assert (NOK : new_ok s0 a o = true) by (unfold new_ok; rewrite N0; reflexivity).
    change (sh (apply1 s0 a o)) with (o_s o).
    assert (NPX : npf (o_a o) = npf A).
    { unfold npf, sender_drop. rewrite Hr, Hc. destruct SHP as [(P1 & P2) | (P1 & P2)]; rewrite P1, P2; reflexivity. }
    assert (NPK : NPf s0 -> NPf (apply1 s0 a o)).
    { intros (n & N & EN0 & NPN). destruct (N.eq_dec n a) as [-> | NE].
      - rewrite EA in EN0. injection EN0 as <-. destruct (apply1_get_self s0 a o NOK) as (B & EB & [-> | ->]).
        + exists a, (o_a o). rewrite NPX. auto.
        + exists a, (set_a_notified true (o_a o)). rewrite npf_notified, NPX. auto.
      - destruct (apply1_get_conv s0 a o n N EN0 NE NOK) as (B & EB & [-> | ->]).
        + exists n, N. auto.
        + exists n, (set_a_notified true N). rewrite npf_notified. auto. }
    (* nobody is notified by this step: every agent keeps its flag *)
    assert (SRC : forall b B, get (ags (apply1 s0 a o)) b = Some B ->
              (b = a /\ B = o_a o) \/ (b <> a /\ get (ags s0) b = Some B)).
    { intros b B EB. unfold apply1 in EB. cbn [ags] in EB. rewrite N0, ENTF in EB.
      change (notify_all [] (put (ags s0) a (o_a o))) with (put (ags s0) a (o_a o)) in EB.
      rewrite get_put in EB. destruct (N.eqb b a) eqn:E.
      - left. apply N.eqb_eq in E. injection EB as <-. auto.
      - right. apply N.eqb_neq in E. auto. }
    assert (XQ : fwpc (o_a o) = false /\ fholder (o_a o) = false /\ a_pc (o_a o) <> C2 /\ a_pc (o_a o) <> FP2).
    { unfold fwpc, fholder, fchk. destruct SHP as [(_ & P2) | (_ & P2)]; rewrite P2; repeat split; discriminate. }
    destruct XQ as (XQ1 & XQ2 & XQ3 & XQ4).
    constructor; change (sh (apply1 s0 a o)) with (o_s o).
    + intros b B EB HB. rewrite E1. destruct (SRC b B EB) as [(-> & ->) | (NE & EB0)]; [congruence|apply (LK b B EB0 HB)].
    + intros t T ET FW. rewrite E2. destruct (SRC t T ET) as [(-> & ->) | (NE & ET0)]; [destruct (fwait_fwpc _ FW); congruence|apply (PK t T ET0 FW)].
    + intros t T ET FW WC. apply NPK. destruct (SRC t T ET) as [(-> & ->) | (NE & ET0)]; [destruct (fwait_fwpc _ FW); congruence|].
      apply (WKE t T ET0 FW). unfold wcond, gtag in *. rewrite E4, E5 in WC. exact WC.
    + intros b B EB. destruct (SRC b B EB) as [(-> & ->) | (NE & EB0)].
      * unfold chkf_ok. split; intros Y; congruence.
      * destruct (CHK b B EB0) as (C1' & C2'). unfold chkf_ok, wcond, gtag in *. change (sh (apply1 s0 a o)) with (o_s o). rewrite E4, E5.
        split; [intros P1 P2 P3 P4; apply NPK; apply (C1' P1 P2 P3 P4)|].
        intros P1 P2 P3. apply NPK. apply (C2' P1 P2 P3).
  - (* tick *)
    intros s0 R I SM. cbn [ags sh] in *. destruct (I SM) as [LK PK WKE CHK].
    assert (NPK : NPf s0 -> NPf (mkstate (tick (sh s0)) (ags s0))) by (intros (n & N & E & K); exists n, N; auto).
    constructor; cbn [ags sh]; [exact LK|exact PK| |].
    + intros t T ET FW WC. apply NPK. apply (WKE t T ET FW WC).
    + intros b B EB. destruct (CHK b B EB) as (C1' & C2'). unfold chkf_ok. cbn [sh].
      split; [intros P1 P2 P3 P4; apply NPK; apply (C1' P1 P2 P3 P4)|].
      intros P1 P2 P3. apply NPK. apply (C2' P1 P2 P3).
  - (* initial state *)
    intros _.
    assert (AG : forall a A, get (ags (init fut)) a = Some A -> a_pc A = Idle).
    { intros a A EA. cbn in EA. unfold get in EA. cbn in EA.
      destruct (N.eqb a 0); [injection EA as <-; destruct fut; reflexivity|].
      destruct (N.eqb a 1); [injection EA as <-; destruct fut; reflexivity|discriminate]. }
    constructor.
    + intros a A EA HA. exfalso. unfold fholder, fchk in HA. rewrite (AG a A EA) in HA. discriminate HA.
    + intros t T ET FW. exfalso. destruct (fwait_fwpc _ FW) as (FP & _). unfold fwpc in FP. rewrite (AG t T ET) in FP. discriminate FP.
    + intros t T ET FW. exfalso. destruct (fwait_fwpc _ FW) as (FP & _). unfold fwpc in FP. rewrite (AG t T ET) in FP. discriminate FP.
    + intros a A EA. unfold chkf_ok. rewrite (AG a A EA). split; intros Y; discriminate Y.
Qed.
End FT.
