(* Reachability over all label sequences, the induction principle every invariant
   proof uses, finite-map facts, shape lemmas for the recursive helpers of Model.v and
   the case-analysis tactic over the micro-step. *)
From Coq Require Import NArith List Bool Lia.
Require Import MQ.Arith64 MQ.Types MQ.State MQ.Model MQ.Exec.
Import ListNotations.
Open Scope N_scope.

Arguments N.add : simpl never.
Arguments N.sub : simpl never.
Arguments N.mul : simpl never.
Arguments N.div : simpl never.
Arguments N.modulo : simpl never.
Arguments N.eqb : simpl never.
Arguments N.ltb : simpl never.
Arguments N.leb : simpl never.
Arguments N.odd : simpl never.
Arguments N.max : simpl never.
Arguments N.pow : simpl never.
Arguments N.of_nat : simpl never.
Arguments N.to_nat : simpl never.
Arguments wadd : simpl never.
Arguments wsub : simpl never.
Arguments rm_tag : simpl never.
Arguments is_tagged : simpl never.
Arguments past : simpl never.
Arguments matches_previous : simpl never.
Arguments get_previous : simpl never.
Arguments slot_of : simpl never.
Arguments next_count : simpl never.
Arguments wait_check : simpl never.
Arguments get_valid_wrap : simpl never.
Arguments W : simpl never.
Arguments INITIAL_QUEUE_FLAG : simpl never.

(* ------------------------------------------------------------------ *)
(* all executions                                                       *)
Inductive reach (c : cfg) (fut : bool) : state -> Prop :=
| reach_init : reach c fut (init fut)
| reach_step s l s' : reach c fut s -> step c s l = Some s' -> reach c fut s'.

Lemma reach_run c fut ls : reach c fut (reach_by c fut ls).
Proof.
  unfold reach_by.
  assert (G : forall s, reach c fut s -> reach c fut (fst (run c s ls))).
  { induction ls as [|l ls IH]; intros s R; cbn [run fst]; [exact R|].
    destruct (stepx c s l) as [[s' e]|] eqn:E; [|exact R].
    specialize (IH s'). destruct (run c s' ls) as [s'' es] eqn:E2. cbn [fst] in *.
    apply IH. eapply reach_step; [exact R|]. unfold step. now rewrite E. }
  apply G. constructor.
Qed.

(* ------------------------------------------------------------------ *)
(* finite maps                                                          *)
Lemma get_put_same {A} (m : fmap A) k v : get (put m k v) k = Some v.
Proof.
  induction m as [|[k' v'] m IH]; cbn [put get].
  - now rewrite N.eqb_refl.
  - destruct (N.eqb k k') eqn:E; cbn [get]; [now rewrite N.eqb_refl|now rewrite E].
Qed.

Lemma get_put_other {A} (m : fmap A) k k' v : k' <> k -> get (put m k v) k' = get m k'.
Proof.
  intros Hn. induction m as [|[k2 v2] m IH]; cbn [put get].
  - destruct (N.eqb k' k) eqn:E; [apply N.eqb_eq in E; contradiction|reflexivity].
  - destruct (N.eqb k k2) eqn:E; cbn [get].
    + apply N.eqb_eq in E. subst k2.
      destruct (N.eqb k' k) eqn:E2; [apply N.eqb_eq in E2; contradiction|reflexivity].
    + destruct (N.eqb k' k2); [reflexivity|exact IH].
Qed.

Lemma get_put {A} (m : fmap A) k k' v :
  get (put m k v) k' = if N.eqb k' k then Some v else get m k'.
Proof.
  destruct (N.eqb k' k) eqn:E.
  - apply N.eqb_eq in E. subst. apply get_put_same.
  - apply get_put_other. intro; subst. now rewrite N.eqb_refl in E.
Qed.

Lemma getd_put {A} (d : A) (m : fmap A) k k' v :
  getd d (put m k v) k' = if N.eqb k' k then v else getd d m k'.
Proof. unfold getd. rewrite get_put. now destruct (N.eqb k' k). Qed.

Lemma get_notify_all l : forall (m : fmap agent) b,
  get (notify_all l m) b =
  match get m b with
  | Some B => Some (if memN b l then set_a_notified true B else B)
  | None => None
  end.
Proof.
  induction l as [|a l IH]; intros m b; cbn [notify_all memN].
  - now destruct (get m b).
  - rewrite IH. destruct (get m a) as [A|] eqn:EA.
    + rewrite get_put. destruct (N.eqb b a) eqn:E.
      * apply N.eqb_eq in E. subst b. rewrite EA. cbn [orb].
        destruct (memN a l); reflexivity.
      * cbn [orb]. reflexivity.
    + destruct (N.eqb b a) eqn:E.
      * apply N.eqb_eq in E. subst b. now rewrite EA.
      * cbn [orb]. reflexivity.
Qed.

(* ------------------------------------------------------------------ *)
(* shapes of the recursive helpers: which fields they can touch         *)
Lemma dealloc_obj_shape o S :
  exists lv fr bd, fst (dealloc_obj o S) = set_g_bad bd (set_freed fr (set_live lv S)).
Proof.
  unfold dealloc_obj. destruct (mem_obj o (live S)).
  - exists (remove_obj o (live S)), (o :: freed S), (g_bad S). destruct S; reflexivity.
  - exists (live S), (freed S), (3 :: g_bad S). destruct S; reflexivity.
Qed.

Lemma dealloc_all_shape l : forall S,
  exists lv fr bd, fst (dealloc_all l S) = set_g_bad bd (set_freed fr (set_live lv S)).
Proof.
  induction l as [|o l IH]; intros S; cbn [dealloc_all].
  - exists (live S), (freed S), (g_bad S). destruct S; reflexivity.
  - destruct (dealloc_obj_shape o S) as (lv & fr & bd & E1).
    destruct (dealloc_obj o S) as [S1 e1]. cbn [fst] in E1. subst S1.
    destruct (IH (set_g_bad bd (set_freed fr (set_live lv S)))) as (lv2 & fr2 & bd2 & E2).
    destruct (dealloc_all l _) as [S2 e2]. cbn [fst] in *. subst S2.
    exists lv2, fr2, bd2. destruct S; reflexivity.
Qed.

Lemma drop_untagged_shape c l : forall S,
  exists dr bd, fst (drop_untagged c l S) = set_g_bad bd (set_g_drops dr S)
                /\ tags (fst (drop_untagged c l S)) = tags S.
Proof.
  induction l as [|i l IH]; intros S; cbn [drop_untagged].
  - exists (g_drops S), (g_bad S). split; destruct S; reflexivity.
  - set (X := if is_tagged (gtag S i) then (S, []) else
              match get (cells S) i with Some ser => drop_val ser S | None => bad 5 S end).
    assert (HX : exists dr bd, fst X = set_g_bad bd (set_g_drops dr S)).
    { unfold X. destruct (is_tagged (gtag S i)).
      - exists (g_drops S), (g_bad S). destruct S; reflexivity.
      - destruct (get (cells S) i) as [ser|].
        + exists (put (g_drops S) ser (gdrops S ser + 1)), (g_bad S). destruct S; reflexivity.
        + exists (g_drops S), (5 :: g_bad S). destruct S; reflexivity. }
    destruct HX as (dr & bd & E1). destruct X as [S1 e1]. cbn [fst] in E1. subst S1.
    destruct (IH (set_g_bad bd (set_g_drops dr S))) as (dr2 & bd2 & E2 & E3).
    destruct (drop_untagged c l _) as [S2 e2]. cbn [fst] in *. subst S2.
    exists dr2, bd2. split; destruct S; reflexivity.
Qed.

Lemma drop_range_shape c fuel : forall p S,
  exists dr bd, fst (drop_range c fuel p S) = set_g_bad bd (set_g_drops dr S).
Proof.
  induction fuel as [|k IH]; intros p S; cbn [drop_range].
  - destruct (p =? head S).
    + exists (g_drops S), (g_bad S). destruct S; reflexivity.
    + exists (g_drops S), (6 :: g_bad S). destruct S; reflexivity.
  - destruct (p =? head S).
    + exists (g_drops S), (g_bad S). destruct S; reflexivity.
    + set (X := match get (cells S) (sl c p) with Some ser => drop_val ser S | None => bad 5 S end).
      assert (HX : exists dr bd, fst X = set_g_bad bd (set_g_drops dr S)).
      { unfold X. destruct (get (cells S) (sl c p)) as [ser|].
        - exists (put (g_drops S) ser (gdrops S ser + 1)), (g_bad S). destruct S; reflexivity.
        - exists (g_drops S), (5 :: g_bad S). destruct S; reflexivity. }
      destruct HX as (dr & bd & E1). destruct X as [S1 e1]. cbn [fst] in E1. subst S1.
      destruct (IH (next_count p) (set_g_bad bd (set_g_drops dr S))) as (dr2 & bd2 & E2).
      assert (Hh : head (set_g_bad bd (set_g_drops dr S)) = head S) by (destruct S; reflexivity).
      destruct (drop_range c k _ _) as [S2 e2]. cbn [fst] in *. subst S2.
      exists dr2, bd2. destruct S; reflexivity.
Qed.

Definition td_shape (S S' : shared) : Prop :=
  exists dr bd lv fr,
    S' = set_torn true (set_wtf [] (set_tofree []
           (set_g_bad bd (set_freed fr (set_live lv (set_g_drops dr S)))))).

Lemma teardown_shape c S : td_shape S (fst (teardown c S)).
Proof.
  unfold teardown.
  set (X := if is_bcast c then drop_untagged c (seqN 0 (N.to_nat (c_n c))) S
            else drop_range c (Datatypes.S (N.to_nat (c_n c))) (last_pos S) S).
  assert (HX : exists dr bd, fst X = set_g_bad bd (set_g_drops dr S)).
  { unfold X. destruct (is_bcast c).
    - destruct (drop_untagged_shape c (seqN 0 (N.to_nat (c_n c))) S) as (dr & bd & E & _). eauto.
    - apply drop_range_shape. }
  destruct HX as (dr & bd & E1). destruct X as [S1 e1]. cbn [fst] in E1. subst S1.
  destruct (dealloc_all_shape [ORing; ORefs; OGroup (cur (set_g_bad bd (set_g_drops dr S)))]
              (set_g_bad bd (set_g_drops dr S))) as (lv2 & fr2 & bd2 & E2).
  destruct (dealloc_all [ORing; ORefs; _] _) as [S2 e2]. cbn [fst] in E2. subst S2.
  match goal with |- context [dealloc_all (wtf ?X) ?X] =>
    destruct (dealloc_all_shape (wtf X) X) as (lv3 & fr3 & bd3 & E3);
    destruct (dealloc_all (wtf X) X) as [S3 e3] end.
  cbn [fst] in E3. subst S3.
  match goal with |- context [dealloc_all (tofree ?X) ?X] =>
    destruct (dealloc_all_shape (tofree X) X) as (lv4 & fr4 & bd4 & E4);
    destruct (dealloc_all (tofree X) X) as [S4 e4] end.
  cbn [fst] in E4. subst S4. cbn [fst].
  exists dr, bd4, lv4, fr4. destruct S; reflexivity.
Qed.

Lemma release_handle_shape c S S1 e1 :
  release_handle c S = (S1, e1) ->
  S1 = set_handles (handles S - 1) S \/ td_shape (set_handles (handles S - 1) S) S1.
Proof.
  unfold release_handle. cbn zeta.
  destruct (handles (set_handles (handles S - 1) S) =? 0).
  - intros E. right. pose proof (teardown_shape c (set_handles (handles S - 1) S)) as T.
    rewrite E in T. exact T.
  - intros E. inversion E. now left.
Qed.

Arguments dealloc_all : simpl never.
Arguments drop_untagged : simpl never.
Arguments drop_range : simpl never.
Arguments teardown : simpl never.
Arguments release_handle : simpl never.
Arguments notify_all : simpl never.
Arguments get : simpl never.
Arguments put : simpl never.
Arguments getd : simpl never.
Arguments memN : simpl never.
Arguments removeN : simpl never.
Arguments mem_obj : simpl never.
Arguments remove_obj : simpl never.
Arguments lenN : simpl never.
Arguments futwait_notify : simpl never.
Arguments ntf_events : simpl never.

(* ------------------------------------------------------------------ *)
(* the induction principle: an invariant is preserved by every label    *)
Section StepInd.
Variable c : cfg.
Variable P : state -> Prop.

Hypothesis Hbegin : forall s a A cl pc,
  P s -> get (ags s) a = Some A -> a_pc A = Idle -> a_alive A = true ->
  entry c (a_role A) cl = Some pc -> fresh_target s a cl = true ->
  P (begin_call s a A cl pc).
Hypothesis Hmicro : forall s a A o,
  P s -> get (ags s) a = Some A ->
  (is_local (a_pc A) = true \/ enabled a A (sh s) = true) ->
  micro c a A (sh s) = Some o -> new_ok s a o = true -> P (apply1 s a o).
Hypothesis Hspur : forall s a A o,
  P s -> get (ags s) a = Some A -> micro_spur c A (sh s) = Some o -> P (apply1 s a o).
Hypothesis Htick : forall s, P s -> P (mkstate (tick (sh s)) (ags s)).

Lemma settle_pres fuel a : forall s evs s' e',
  P s -> settle fuel c a s evs = Some (s', e') -> P s'.
Proof.
  induction fuel as [|f IH]; intros s evs s' e' Ps; cbn [settle].
  - destruct (get (ags s) a) as [A|]; [|discriminate].
    destruct (is_local (a_pc A)); [discriminate|]. intros E; inversion E; subst; exact Ps.
  - destruct (get (ags s) a) as [A|] eqn:EA; [|discriminate].
    destruct (is_local (a_pc A)) eqn:EL.
    + unfold mstep. rewrite EA.
      destruct (micro c a A (sh s)) as [o|] eqn:EM; [|discriminate].
      destruct (new_ok s a o) eqn:ENO; [|discriminate].
      intros E. eapply IH; [|exact E]. eapply Hmicro; eauto.
    + intros E; inversion E; subst; exact Ps.
Qed.

Lemma step_pres s l s' : P s -> step c s l = Some s' -> P s'.
Proof.
  intros Ps. unfold step.
  destruct (stepx c s l) as [[s1 e1]|] eqn:E; [|discriminate].
  intros X; inversion X; subst s1; clear X.
  unfold stepx in E. destruct l as [a cl|a|a].
  - destruct (get (ags s) a) as [A|] eqn:EA; [|discriminate].
    destruct (a_pc A) eqn:Epc; try discriminate.
    destruct (a_alive A) eqn:Eal; try discriminate.
    destruct (entry c (a_role A) cl) as [pc|] eqn:Een; try discriminate.
    destruct (fresh_target s a cl) eqn:Efr; try discriminate.
    unfold ticked in E.
    destruct (settle FUEL c a (begin_call s a A cl pc) [EStart cl]) as [[s2 e2]|] eqn:ES; [|discriminate].
    inversion E; subst. apply Htick. eapply settle_pres; [|exact ES].
    eapply Hbegin; eauto.
  - destruct (get (ags s) a) as [A|] eqn:EA; [|discriminate].
    destruct (enabled a A (sh s)) eqn:Een; [|discriminate].
    unfold mstep in E. rewrite EA in E.
    destruct (micro c a A (sh s)) as [o|] eqn:EM; [|discriminate].
    destruct (new_ok s a o) eqn:ENO; [|discriminate].
    unfold ticked in E.
    destruct (settle FUEL c a (apply1 s a o) (o_ev o)) as [[s2 e2]|] eqn:ES; [|discriminate].
    inversion E; subst. apply Htick. eapply settle_pres; [|exact ES].
    eapply Hmicro; eauto.
  - destruct (get (ags s) a) as [A|] eqn:EA; [|discriminate].
    destruct (micro_spur c A (sh s)) as [o|] eqn:EM; [|discriminate].
    unfold ticked in E.
    destruct (settle FUEL c a (apply1 s a o) (o_ev o)) as [[s2 e2]|] eqn:ES; [|discriminate].
    inversion E; subst. apply Htick. eapply settle_pres; [|exact ES].
    eapply Hspur; eauto.
Qed.

Lemma reach_inv fut : P (init fut) -> forall s, reach c fut s -> P s.
Proof.
  intros P0 s R. induction R as [|s l s' R IH E]; [exact P0|]. eapply step_pres; eauto.
Qed.
End StepInd.

(* ------------------------------------------------------------------ *)
(* reachability at the granularity of micro-steps: also the states in the middle of the
   thread-local code that follows a shared-memory operation.  Every state of [reach] is one. *)
Inductive mreach (c : cfg) (fut : bool) : state -> Prop :=
| mr_init : mreach c fut (init fut)
| mr_begin s a A cl pc :
    mreach c fut s -> get (ags s) a = Some A -> a_pc A = Idle -> a_alive A = true ->
    entry c (a_role A) cl = Some pc -> fresh_target s a cl = true ->
    mreach c fut (begin_call s a A cl pc)
| mr_micro s a A o :
    mreach c fut s -> get (ags s) a = Some A ->
    (is_local (a_pc A) = true \/ enabled a A (sh s) = true) ->
    micro c a A (sh s) = Some o -> new_ok s a o = true -> mreach c fut (apply1 s a o)
| mr_spur s a A o :
    mreach c fut s -> get (ags s) a = Some A -> micro_spur c A (sh s) = Some o ->
    mreach c fut (apply1 s a o)
| mr_tick s : mreach c fut s -> mreach c fut (mkstate (tick (sh s)) (ags s)).

Lemma reach_mreach c fut s : reach c fut s -> mreach c fut s.
Proof.
  apply reach_inv.
  - intros; eapply mr_begin; eauto.
  - intros; eapply mr_micro; eauto.
  - intros; eapply mr_spur; eauto.
  - intros; apply mr_tick; auto.
  - constructor.
Qed.

Section MStepInd.
Variable c : cfg.
Variable P : state -> Prop.
Hypothesis Hbegin : forall s a A cl pc,
  P s -> get (ags s) a = Some A -> a_pc A = Idle -> a_alive A = true ->
  entry c (a_role A) cl = Some pc -> fresh_target s a cl = true ->
  P (begin_call s a A cl pc).
Hypothesis Hmicro : forall s a A o,
  P s -> get (ags s) a = Some A ->
  (is_local (a_pc A) = true \/ enabled a A (sh s) = true) ->
  micro c a A (sh s) = Some o -> new_ok s a o = true -> P (apply1 s a o).
Hypothesis Hspur : forall s a A o,
  P s -> get (ags s) a = Some A -> micro_spur c A (sh s) = Some o -> P (apply1 s a o).
Hypothesis Htick : forall s, P s -> P (mkstate (tick (sh s)) (ags s)).

Lemma mreach_inv fut : P (init fut) -> forall s, mreach c fut s -> P s.
Proof.
  intros P0 s R. induction R; eauto.
Qed.
End MStepInd.

(* the same with the knowledge that the predecessor state is itself micro-reachable *)
Section MStepInd2.
Variable c : cfg.
Variable fut : bool.
Variable P : state -> Prop.
Hypothesis Hbegin : forall s a A cl pc,
  mreach c fut s -> P s -> get (ags s) a = Some A -> a_pc A = Idle -> a_alive A = true ->
  entry c (a_role A) cl = Some pc -> fresh_target s a cl = true ->
  P (begin_call s a A cl pc).
Hypothesis Hmicro : forall s a A o,
  mreach c fut s -> P s -> get (ags s) a = Some A ->
  (is_local (a_pc A) = true \/ enabled a A (sh s) = true) ->
  micro c a A (sh s) = Some o -> new_ok s a o = true -> P (apply1 s a o).
Hypothesis Hspur : forall s a A o,
  mreach c fut s -> P s -> get (ags s) a = Some A -> micro_spur c A (sh s) = Some o -> P (apply1 s a o).
Hypothesis Htick : forall s, mreach c fut s -> P s -> P (mkstate (tick (sh s)) (ags s)).

Lemma mreach_inv2 : P (init fut) -> forall s, mreach c fut s -> P s.
Proof.
  intros P0 s R. induction R; eauto.
Qed.
End MStepInd2.

(* ------------------------------------------------------------------ *)
(* case analysis over the micro-step                                    *)
Lemma dealloc_all_eq l S S1 e1 : dealloc_all l S = (S1, e1) ->
  exists lv fr bd, S1 = set_g_bad bd (set_freed fr (set_live lv S)).
Proof.
  intros E. destruct (dealloc_all_shape l S) as (lv & fr & bd & X). rewrite E in X. eauto.
Qed.

Ltac break_hyp H :=
  repeat match type of H with
  | context [match ?x with _ => _ end] =>
      lazymatch x with
      | release_handle _ _ => fail
      | context [match _ with _ => _ end] => fail
      | _ => idtac
      end;
      ((is_var x; destruct x) || destruct x eqn:?); cbn in H; try discriminate H
  end.

Ltac use_shapes :=
  repeat match goal with
  | E : dealloc_all _ _ = (?S1, _) |- _ =>
      let lv := fresh "lv" in let fr := fresh "fr" in let bd := fresh "bd" in
      apply dealloc_all_eq in E; destruct E as (lv & fr & bd & E); subst S1
  end.

(* after [destruct A; destruct pc], reduce [micro .. = Some o] to the branch taken;
   leaves [o] replaced by the explicit result *)
Ltac micro_cases H :=
  unfold micro, m_wait, m_fut, ok in H;
  match type of H with context [spins ?c] =>
    let sf := fresh "sf" in let sy := fresh "sy" in let Esp := fresh "Esp" in
    destruct (spins c) as [sf sy] eqn:Esp end;
  cbn in H; try discriminate H;
  unfold ok, gmd_next, drop_opt, drop_val, bad, check_val, alloc_obj, dealloc_obj, use_obj, unlock, claim, deliver, hist, tick in H;
  cbn in H; break_hyp H; try discriminate H;
  repeat match type of H with
  | context [release_handle ?c ?S] =>
      let S1 := fresh "S1" in let e1 := fresh "e1" in let E := fresh "E" in
      let dr := fresh "dr" in let bd := fresh "bd" in let lv := fresh "lv" in let fr := fresh "fr" in
      destruct (release_handle c S) as [S1 e1] eqn:E;
      apply release_handle_shape in E;
      destruct E as [E | (dr & bd & lv & fr & E)]; subst S1
  end;
  use_shapes;
  match type of H with Some _ = Some ?o => injection H as H; subst o end.

Ltac eqb_hyps :=
  repeat match goal with
  | H : (_ =? _) = true |- _ => apply N.eqb_eq in H
  | H : (_ =? _) = false |- _ => apply N.eqb_neq in H
  | H : negb _ = true |- _ => apply negb_true_iff in H
  | H : negb _ = false |- _ => apply negb_false_iff in H
  end.
