(* The steps of a receive attempt on a drained stream with no sender left: they lead to the "disconnected" result. *)
From Coq Require Import NArith List Bool Lia.
Require Import MQ.Arith64 MQ.Arith64Facts MQ.Types MQ.State MQ.Model MQ.Exec MQ.Reach MQ.Fields MQ.WinDefs.
Import ListNotations.
Open Scope N_scope.

Ltac one_pc H E :=
  match type of H with micro _ _ ?A _ = _ =>
    destruct A as [role alive multi sid tok pc stack R notified parked]; cbn in E; subst pc; micro_cases H end.

Lemma tag_not_head c S : WinG c S -> rm_tag (gtag S (sl c (head S))) <> head S.
Proof.
  intros G. pose proof (w_head_small c S G) as HS. unfold B62 in HS.
  destruct (w_tag_claimed c S G (sl c (head S))) as [E | L].
  - rewrite E. change (rm_tag INITIAL_QUEUE_FLAG) with 9223372036854775807. lia.
  - unfold rm_tag, MASK_IND. rewrite N.mod_small by lia. lia.
Qed.

Lemma end_R4 c me A S o : micro c me A S = Some o -> a_pc A = R4 ->
  rm_tag (gtag S (sl c (r_p (a_r A)))) <> r_p (a_r A) ->
  a_pc (o_a o) = R5 /\ r_p (a_r (o_a o)) = r_p (a_r A) /\ a_sid (o_a o) = a_sid A /\ a_stack (o_a o) = a_stack A /\ o_s o = S.
Proof. intros H E T. one_pc H E; cbn in *; eqb_hyps; try congruence; repeat split; reflexivity. Qed.

Lemma end_V1 c me A S o : micro c me A S = Some o -> a_pc A = V1 ->
  rm_tag (gtag S (sl c (r_p (a_r A)))) <> r_p (a_r A) ->
  a_pc (o_a o) = V5 /\ r_p (a_r (o_a o)) = r_p (a_r A) /\ a_sid (o_a o) = a_sid A /\ a_stack (o_a o) = a_stack A /\ o_s o = S.
Proof. intros H E T. one_pc H E; cbn in *; eqb_hyps; try congruence; repeat split; reflexivity. Qed.

Lemma end_R5 c me A S o : micro c me A S = Some o -> (a_pc A = R5 \/ a_pc A = V5) -> writers S = 0 ->
  (a_pc (o_a o) = R6 \/ a_pc (o_a o) = V6) /\ r_p (a_r (o_a o)) = r_p (a_r A) /\ a_sid (o_a o) = a_sid A /\ a_stack (o_a o) = a_stack A /\ o_s o = S.
Proof.
  intros H [E | E] W0; one_pc H E; cbn in *; eqb_hyps; try congruence; repeat split; auto.
Qed.

Lemma end_R6 c me A S o : micro c me A S = Some o -> a_pc A = R6 ->
  rm_tag (gtag S (sl c (r_p (a_r A)))) <> r_p (a_r A) ->
  (r_res (a_r (o_a o)) = RDiscon /\ o_a o = popret (setres RDiscon A)) \/
  (a_pc (o_a o) = R6b /\ r_p (a_r (o_a o)) = r_p (a_r A) /\ a_sid (o_a o) = a_sid A /\ a_stack (o_a o) = a_stack A /\ o_s o = S).
Proof.
  intros H E T. one_pc H E; cbn in *; eqb_hyps; try congruence.
  - left. split; [destruct stack; reflexivity|reflexivity].
  - right. repeat split; reflexivity.
Qed.

Lemma end_V6 c me A S o : micro c me A S = Some o -> a_pc A = V6 ->
  rm_tag (gtag S (sl c (r_p (a_r A)))) <> r_p (a_r A) ->
  r_res (a_r (o_a o)) = RDiscon /\ o_a o = popret (setres RDiscon A).
Proof.
  intros H E T. one_pc H E; cbn in *; eqb_hyps; try congruence.
  split; [destruct stack; reflexivity|reflexivity].
Qed.

Lemma end_R6b c me A S o : micro c me A S = Some o -> a_pc A = R6b ->
  gpos S (a_sid A) = r_p (a_r A) ->
  r_res (a_r (o_a o)) = RDiscon /\ o_a o = popret (setres RDiscon A).
Proof.
  intros H E T. one_pc H E; cbn in *; eqb_hyps; try congruence.
  all: try (split; [destruct stack; reflexivity|reflexivity]).
Qed.
