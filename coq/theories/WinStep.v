(* Case analysis for the window invariant (InvWin.v): which steps write the tail cache and the
   slot tags, and the control skeleton of try_send / try_recv that the assertions follow. *)
From Coq Require Import NArith List Bool Lia.
Require Import MQ.Arith64 MQ.Arith64Facts MQ.Types MQ.State MQ.Model MQ.Exec MQ.Reach MQ.Ctl MQ.Count MQ.WritersStep
  MQ.RecvDefs MQ.RecvStep.
Import ListNotations.
Open Scope N_scope.

Definition T_same (S : shared) (o : out) : Prop := tailc (o_s o) = tailc S.
Definition T_store (A : agent) (S : shared) (o : out) : Prop :=
  a_pc A = P3 /\ tailc (o_s o) = r_nt (a_r A).
Definition T_cas (A : agent) (S : shared) (o : out) : Prop :=
  a_pc A = M3 /\ tailc S = r_tc (a_r A) /\ tailc (o_s o) = r_nt (a_r A).

Lemma micro_tailc c me A S o :
  micro c me A S = Some o -> T_same S o \/ T_store A S o \/ T_cas A S o.
Proof.
  intros H. destruct A as [role alive multi sid tok pc stack R notified parked].
  unfold T_same, T_store, T_cas.
  destruct pc; micro_cases H; cbn [o_s]; cbn; eqb_hyps;
    first [ solve [left; reflexivity]
          | solve [right; left; split; reflexivity]
          | solve [right; right; repeat split; auto] ].
Qed.

Lemma micro_tags i c me A S o :
  micro c me A S = Some o ->
  gtag (o_s o) i = gtag S i \/ (a_pc A = P7 /\ i = sl c (r_h (a_r A)) /\ gtag (o_s o) i = r_h (a_r A)).
Proof.
  intros H. destruct A as [role alive multi sid tok pc stack R notified parked].
  unfold gtag.
  destruct pc; micro_cases H; cbn [o_s]; cbn; rewrite ?getd_put;
    first [ solve [left; reflexivity]
          | destruct (N.eqb i (sl c (r_h R))) eqn:E; eqb_hyps;
            first [ solve [left; reflexivity] | solve [right; repeat split; auto] ] ].
Qed.

(* the sender phases that carry an assertion about the window *)
Definition sphase (pc : pcl) : bool :=
  match pc with
  | P2 | P3pre | P3 | P4pre | P4 | P5 | P6 | P7
  | M2 | M3pre | M3 | M3b | M3post | M4pre | M4 | M5 | G1 | G2 | G3 => true
  | _ => false
  end.

(* from which program counter each of them is entered *)
Definition spred (p q : pcl) : bool :=
  match q, p with
  | P2, P1 | M2, M1 | M2, M5
  | G1, P2 | G1, M2 | G1, G3 | G2, G1 | G2, G2 | G3, G1 | G3, G2
  | P3pre, G3 | M3pre, G3
  | P3, P3pre | M3, M3pre | M3b, M3pre | M3post, M3pre | M3post, M3 | M3post, M3b
  | P4pre, P2 | P4pre, P3 | M4pre, M2 | M4pre, M3post
  | P4, P4pre | P5, P4pre | P5, P4 | M4, M4pre | M5, M4pre | M5, M4
  | P6, P5 | P6, M5 | P7, P6 => true
  | _, _ => false
  end.

Lemma micro_spred c me A S o :
  micro c me A S = Some o -> ctl_ok A = true -> sphase (a_pc (o_a o)) = true ->
  spred (a_pc A) (a_pc (o_a o)) = true.
Proof.
  intros H Q. destruct A as [role alive multi sid tok pc stack R notified parked].
  destruct pc; micro_cases H; cbn [o_a]; pre_case Q Q1 Q2 Q3;
    first [ solve [intros X; first [discriminate X | reflexivity]]
          | try split_frame Q1 Q2; solve [intros X; first [discriminate X | reflexivity]] ].
Qed.

(* a receive attempt that has seen the tag of its position *)
Definition matched (pc : pcl) : bool :=
  match pc with R7 | R8 | KC | R11 | R12 | VK | V4 => true | _ => false end.

Lemma micro_matched c me A S o :
  micro c me A S = Some o -> ctl_ok A = true -> matched (a_pc (o_a o)) = true ->
  a_sid (o_a o) = a_sid A /\
  ((matched (a_pc A) = true /\ r_p (a_r (o_a o)) = r_p (a_r A)) \/
   ((a_pc A = R4 \/ a_pc A = V1) /\ r_p (a_r (o_a o)) = r_p (a_r A) /\
    rm_tag (gtag S (sl c (r_p (a_r A)))) = r_p (a_r A))).
Proof.
  intros H Q. destruct A as [role alive multi sid tok pc stack R notified parked].
  unfold gtag.
  destruct pc; micro_cases H; cbn [o_a]; pre_case Q Q1 Q2 Q3; eqb_hyps;
    first [ solve [intros X; discriminate X]
          | solve [intros _; split; [reflexivity|left; split; reflexivity]]
          | solve [intros _; split; [reflexivity|right; repeat split; auto]]
          | try split_frame Q1 Q2;
            first [ solve [intros X; discriminate X]
                  | solve [intros _; split; [reflexivity|left; split; reflexivity]]
                  | solve [intros _; split; [reflexivity|right; repeat split; auto]] ] ].
Qed.
