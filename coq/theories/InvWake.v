(* No wake-up of the blocking wait is lost (C08, wait strategy with mutex and condition variable). *)
From Coq Require Import NArith List Bool Lia.
Require Import MQ.Arith64 MQ.Arith64Facts MQ.Types MQ.State MQ.Model MQ.Exec MQ.Reach MQ.Fields MQ.Ctl MQ.Count MQ.SumCount
  MQ.WritersStep MQ.InvWriters MQ.RecvDefs MQ.RecvStep MQ.InvRecv MQ.NewAgentStep MQ.InvMisc MQ.WinStep MQ.InvSlot MQ.WaitStep
  MQ.WakeDefs MQ.NpDefs MQ.WakeStepA MQ.WakeStepB MQ.WakeStepC MQ.WakeStepD MQ.WakeStepE MQ.WakeStepF.
Import ListNotations.
Open Scope N_scope.

Section WK.
Variable c : cfg.
Variables sf0 sy0 : N.
Hypothesis WB : c_wk c = WBlock sf0 sy0.

Definition NP (s : state) : Prop := exists n N, get (ags s) n = Some N /\ np N = true.

Definition chk_ok (A : agent) (s : state) : Prop :=
  (a_pc A = C2 -> bchk A = true -> wcond A (sh s) = true ->
     wait_check (r_cnt (a_r A)) (r_tag (a_r A)) (writers (sh s)) = false -> NP s) /\
  (a_pc A = B2 -> r_last (a_r A) = false) /\
  ((a_pc A = B1c \/ a_pc A = B2) -> r_last (a_r A) = false -> wcond A (sh s) = true -> NP s).

Record WakeG (s : state) : Prop := {
  wk_lock : forall a A, get (ags s) a = Some A -> holder A = true -> bw_lock (sh s) = Some a;
  wk_sleep : forall t, In t (sleepers (sh s)) -> (exists T, get (ags s) t = Some T /\ a_pc T = B2w) /\ memN t (woken (sh s)) = false;
  wk_woken : forall t, In t (woken (sh s)) -> exists T, get (ags s) t = Some T /\ a_pc T = B2w;
  wk_wake : forall t T, In t (sleepers (sh s)) -> get (ags s) t = Some T -> wcond T (sh s) = true -> NP s;
  wk_chk : forall a A, get (ags s) a = Some A -> chk_ok A s
}.

Lemma facts_notified B : a_pc (set_a_notified true B) = a_pc B /\ a_stack (set_a_notified true B) = a_stack B /\
  a_r (set_a_notified true B) = a_r B.
Proof. destruct B; repeat split; reflexivity. Qed.

Lemma np_notified B : np (set_a_notified true B) = np B.
Proof. destruct B; reflexivity. Qed.
Lemma holder_notified B : holder (set_a_notified true B) = holder B.
Proof. destruct B; reflexivity. Qed.
Lemma bchk_notified B : bchk (set_a_notified true B) = bchk B.
Proof. destruct B; reflexivity. Qed.
Lemma wcond_notified B Sh : wcond (set_a_notified true B) Sh = wcond B Sh.
Proof. destruct B; reflexivity. Qed.

Lemma memN_in x l : memN x l = true <-> In x l.
Proof.
  induction l as [|y l IH]; [cbn; split; [discriminate|intros []]|].
  change (memN x (y :: l)) with (N.eqb x y || memN x l). cbn [In].
  split.
  - intros H. apply orb_prop in H as [H | H]; [left; apply N.eqb_eq in H; symmetry; exact H|right; apply IH; exact H].
  - intros [H | H]; apply orb_true_iff; [left; apply N.eqb_eq; symmetry; exact H|right; apply IH; exact H].
Qed.

Lemma memN_removeN_self x l : memN x (removeN x l) = false.
Proof.
  induction l as [|z l IH]; [reflexivity|].
  change (removeN x (z :: l)) with (if N.eqb x z then removeN x l else z :: removeN x l).
  destruct (N.eqb x z) eqn:E; [exact IH|].
  change (memN x (z :: removeN x l)) with (N.eqb x z || memN x (removeN x l)). rewrite E, IH. reflexivity.
Qed.

Lemma in_removeN_in' x y l : In x (removeN y l) -> In x l.
Proof.
  induction l as [|z l IH]; [intros []|].
  change (removeN y (z :: l)) with (if N.eqb y z then removeN y l else z :: removeN y l).
  destruct (N.eqb y z); intros H; [right; auto|destruct H as [->|H]; [left; reflexivity|right; auto]].
Qed.

Section Step.
Variables (fut : bool) (s : state) (x : BinNums.N) (X : agent) (o : out).
Hypothesis R : mreach c fut s.
Hypothesis SMa : lenN (ags s) < B62.
Hypothesis EX : get (ags s) x = Some X.
Hypothesis EN : is_local (a_pc X) = true \/ enabled x X (sh s) = true.
Hypothesis M : micro c x X (sh s) = Some o.
Hypothesis NO : new_ok s x o = true.
Hypothesis IH : WakeG s.

Let QX := ctl_mreach c fut s R x X EX.

Lemma wk_enabled pc0 : a_pc X = pc0 -> is_local pc0 = false -> enabled x X (sh s) = true.
Proof. intros E L. destruct EN as [H | H]; [rewrite E, L in H; discriminate H|exact H]. Qed.

(* an owed notification stays owed, unless it is being delivered *)
Lemma np_step : NP s -> NP (apply1 s x o) \/ a_pc X = N2.
Proof.
  intros (n & N & EN0 & NPN). destruct (N.eq_dec n x) as [-> | NE].
  - rewrite EX in EN0. injection EN0 as <-.
    destruct (micro_np _ _ _ _ _ M QX NPN) as [K | [K | K]]; [|right; exact K|exfalso; apply (K sf0 sy0 WB)].
    left. destruct (apply1_get_self s x o NO) as (B & EB & [-> | ->]).
    + exists x, (o_a o). auto.
    + exists x, (set_a_notified true (o_a o)). rewrite np_notified. auto.
  - left. destruct (apply1_get_conv s x o n N EN0 NE NO) as (B & EB & [-> | ->]).
    + exists n, N. auto.
    + exists n, (set_a_notified true N). rewrite np_notified. auto.
Qed.

Lemma np_self : np (o_a o) = true -> NP (apply1 s x o).
Proof.
  intros K. destruct (apply1_get_self s x o NO) as (B & EB & [-> | ->]).
  - exists x, (o_a o). auto.
  - exists x, (set_a_notified true (o_a o)). rewrite np_notified. auto.
Qed.

(* a wait condition becomes true only by a publishing step or by a sender's drop *)
Lemma cond_step cnt slot :
  wait_check cnt (gtag (o_s o) slot) (writers (o_s o)) = true ->
  wait_check cnt (gtag (sh s) slot) (writers (sh s)) = true \/ a_pc X = P7 \/ a_pc X = SD0.
Proof.
  intros H.
  destruct (micro_tags slot _ _ _ _ _ M) as [ET | (PC & _)]; [|right; left; exact PC]. rewrite ET in H.
  destruct (micro_wchange _ _ _ _ _ M) as [EW | [PC | EW]]; [rewrite EW in H; left; exact H|right; right; exact PC|].
  left. destruct (N.eq_dec (writers (sh s)) 0) as [Z | NZ].
  - pose proof (writers_zero_stable c fut s x X o R SMa EX M Z) as Z'. rewrite Z' in H. rewrite Z. exact H.
  - destruct (iw_mreach c fut s R) as (_ & WC). destruct (WC SMa) as (WE & _).
    pose proof (cnt_le_len cs (ags s)) as LE.
    assert (NZ' : writers (o_s o) <> 0).
    { rewrite EW. unfold wadd, W, B62 in *. rewrite N.mod_small by lia. lia. }
    rewrite (wait_check_nz cnt _ _ _ NZ NZ'). exact H.
Qed.

Lemma wcond_step B : wcond B (o_s o) = true -> wcond B (sh s) = true \/ a_pc X = P7 \/ a_pc X = SD0.
Proof. unfold wcond. apply cond_step. Qed.

(* from a condition that holds now to an owed notification afterwards *)
Lemma owed_after B : (wcond B (sh s) = true -> NP s) -> a_pc X <> N2 -> wcond B (o_s o) = true -> NP (apply1 s x o).
Proof.
  intros OW NN2 H. destruct (wcond_step B H) as [H0 | [PC | PC]].
  - destruct (np_step (OW H0)) as [K | K]; [exact K|contradiction].
  - apply np_self. apply (e_P7 _ _ _ _ _ M PC).
  - apply np_self. apply (e_SD0 _ _ _ _ _ M QX PC).
Qed.

(* who holds the wait mutex *)
Lemma st_lock : forall b B, get (ags (apply1 s x o)) b = Some B -> holder B = true -> bw_lock (o_s o) = Some b.
Proof.
  intros b B EB HB. destruct IH as [LK _ _ _ _].
  destruct (apply1_get _ _ _ _ _ EB) as (B0 & HB0 & SRC).
  assert (H0 : holder B0 = true) by (destruct HB0 as [-> | ->]; [exact HB|rewrite holder_notified in HB; exact HB]).
  clear HB0 HB EB B.
  destruct SRC as [(a' & Hn & ->) | [(-> & ->) | (NE & EB0)]].
  - destruct (micro_new_idle _ _ _ _ _ _ _ M Hn) as (EI & ES & _). unfold holder, bchk in H0. rewrite EI in H0. discriminate H0.
  - destruct (micro_holder _ _ _ _ _ M QX H0) as [(HX & _ & _ & EL) | [PC | PC]].
    + rewrite EL. apply (LK x X EX HX).
    + destruct (w_B1 _ _ _ _ _ M PC) as (E & _). exact E.
    + destruct (w_N1 _ _ _ _ _ M PC) as (E & _). exact E.
  - pose proof (LK b B0 EB0 H0) as LB.
    destruct (micro_bwlock _ _ _ _ _ M) as [E | [(PC & E) | (PC & E)]].
    + rewrite E. exact LB.
    + exfalso. assert (FREE : bw_lock (sh s) = None).
      { destruct PC as [PC | PC].
        - apply (w_B1_enabled x X (sh s) PC). apply (wk_enabled B1 PC eq_refl).
        - apply (w_N1_enabled x X (sh s) PC). apply (wk_enabled N1 PC eq_refl). }
      rewrite FREE in LB. discriminate LB.
    + exfalso. assert (HX : holder X = true) by (unfold holder; destruct PC as [-> | [-> | ->]]; apply orb_true_r).
      pose proof (LK x X EX HX) as LX. rewrite LX in LB. injection LB as E0. apply NE. symmetry. exact E0.
Qed.

(* sleepers and woken agents are at the condition-variable wait *)
Lemma st_other_pc : forall b B0, b <> x -> get (ags s) b = Some B0 ->
  exists B, get (ags (apply1 s x o)) b = Some B /\ a_pc B = a_pc B0 /\ a_stack B = a_stack B0 /\ a_r B = a_r B0.
Proof.
  intros b B0 NE EB0. destruct (apply1_get_conv s x o b B0 EB0 NE NO) as (B & EB & [-> | ->]).
  - exists B0. auto.
  - exists (set_a_notified true B0). destruct (facts_notified B0) as (E1 & E2 & E3). auto.
Qed.

Lemma st_sleep : forall t, In t (sleepers (o_s o)) ->
  (exists T, get (ags (apply1 s x o)) t = Some T /\ a_pc T = B2w) /\ memN t (woken (o_s o)) = false.
Proof.
  intros t IN. destruct IH as [LK SL WKN _ _].
  assert (XNS : a_pc X = B2w -> ~ In x (sleepers (sh s))).
  { intros PC INX. destruct (SL x INX) as (_ & NW).
    destruct (w_B2w_enabled x X (sh s) PC (wk_enabled B2w PC eq_refl)) as (MW & _). congruence. }
  destruct (micro_sleepers _ _ _ _ _ M) as [(ES & EW) | [(PC & ES & EW) | (PC & ES & EW)]]; rewrite ES in IN.
  - destruct (SL t IN) as ((T & ET & PT) & NW).
    assert (NE : t <> x).
    { intros ->. rewrite EX in ET. injection ET as <-. apply (XNS PT IN). }
    split.
    + destruct (st_other_pc t T NE ET) as (B & EB & E1 & _). exists B. split; [exact EB|]. rewrite E1. exact PT.
    + destruct EW as [EW | (_ & EW)]; rewrite EW; [exact NW|].
      destruct (memN t (removeN x (woken (sh s)))) eqn:E; [|reflexivity].
      apply memN_in in E. apply in_removeN_in' in E. apply memN_in in E. congruence.
  - destruct (e_B2 _ _ _ _ _ M PC) as (PC' & _).
    apply in_app_or in IN as [IN | [<- | []]].
    + destruct (SL t IN) as ((T & ET & PT) & NW).
      assert (NE : t <> x) by (intros ->; rewrite EX in ET; injection ET as <-; congruence).
      split; [|rewrite EW; exact NW].
      destruct (st_other_pc t T NE ET) as (B & EB & E1 & _). exists B. split; [exact EB|]. rewrite E1. exact PT.
    + split.
      * destruct (apply1_get_self s x o NO) as (B & EB & [-> | ->]).
        -- exists (o_a o). auto.
        -- exists (set_a_notified true (o_a o)). destruct (facts_notified (o_a o)) as (E1 & _). rewrite E1. auto.
      * rewrite EW. destruct (memN x (woken (sh s))) eqn:E; [|reflexivity]. exfalso.
        apply memN_in in E. destruct (WKN x E) as (T & ET & PT). rewrite EX in ET. injection ET as <-. congruence.
  - destruct IN.
Qed.

Lemma st_woken : forall t, In t (woken (o_s o)) -> exists T, get (ags (apply1 s x o)) t = Some T /\ a_pc T = B2w.
Proof.
  intros t IN. destruct IH as [LK SL WKN _ _].
  assert (KEEP : forall T, get (ags s) t = Some T -> a_pc T = B2w -> t <> x ->
            exists T', get (ags (apply1 s x o)) t = Some T' /\ a_pc T' = B2w).
  { intros T ET PT NE. destruct (st_other_pc t T NE ET) as (B & EB & E1 & _). exists B. split; [exact EB|]. rewrite E1. exact PT. }
  destruct (micro_sleepers _ _ _ _ _ M) as [(ES & EW) | [(PC & ES & EW) | (PC & ES & EW)]].
  - destruct EW as [EW | (PC & EW)]; rewrite EW in IN.
    + destruct (WKN t IN) as (T & ET & PT). apply (KEEP T ET PT).
      intros ->. rewrite EX in ET. injection ET as <-.
      (* an agent at the wait that steps removes itself from the woken set *)
      pose proof (e_B2w _ _ _ _ _ M PT) as EW2. rewrite EW2 in EW.
      assert (K : memN x (removeN x (woken (sh s))) = true) by (apply memN_in; rewrite EW; exact IN).
      rewrite memN_removeN_self in K. discriminate K.
    + pose proof (in_removeN_in' _ _ _ IN) as IN0. destruct (WKN t IN0) as (T & ET & PT). apply (KEEP T ET PT).
      intros ->. assert (K : memN x (removeN x (woken (sh s))) = true) by (apply memN_in; exact IN).
      rewrite memN_removeN_self in K. discriminate K.
  - rewrite EW in IN. destruct (WKN t IN) as (T & ET & PT). apply (KEEP T ET PT).
    intros ->. rewrite EX in ET. injection ET as <-. congruence.
  - rewrite EW in IN. apply in_app_or in IN as [IN | IN].
    + destruct (WKN t IN) as (T & ET & PT). apply (KEEP T ET PT). intros ->. rewrite EX in ET. injection ET as <-. congruence.
    + destruct (SL t IN) as ((T & ET & PT) & _). apply (KEEP T ET PT). intros ->. rewrite EX in ET. injection ET as <-. congruence.
Qed.

Lemma check_back cnt flag : wait_check cnt flag (writers (o_s o)) = false ->
  wait_check cnt flag (writers (sh s)) = false \/ a_pc X = SD0.
Proof.
  intros H.
  destruct (micro_wchange _ _ _ _ _ M) as [EW | [PC | EW]]; [rewrite EW in H; left; exact H|right; exact PC|]. left.
  destruct (N.eq_dec (writers (sh s)) 0) as [Z | NZ].
  - pose proof (writers_zero_stable c fut s x X o R SMa EX M Z) as Z'. rewrite Z' in H. rewrite Z. exact H.
  - destruct (iw_mreach c fut s R) as (_ & WC). destruct (WC SMa) as (WE & _).
    pose proof (cnt_le_len cs (ags s)) as LE.
    assert (NZ' : writers (o_s o) <> 0).
    { rewrite EW. unfold wadd, W, B62 in *. rewrite N.mod_small by lia. lia. }
    rewrite (wait_check_nz cnt _ _ _ NZ NZ'). exact H.
Qed.

(* two agents cannot both hold the wait mutex *)
Lemma holders_same b B0 : get (ags s) b = Some B0 -> holder B0 = true -> holder X = true -> b = x.
Proof.
  intros EB HB HX. destruct IH as [LK _ _ _ _].
  pose proof (LK b B0 EB HB) as L1. pose proof (LK x X EX HX) as L2. rewrite L1 in L2. injection L2 as E. exact E.
Qed.

Lemma n2_holder : a_pc X = N2 -> holder X = true.
Proof. intros PC. unfold holder. rewrite PC. apply orb_true_r. Qed.

Lemma st_wake : forall t T, In t (sleepers (o_s o)) -> get (ags (apply1 s x o)) t = Some T ->
  wcond T (o_s o) = true -> NP (apply1 s x o).
Proof.
  intros t T IN ET WC. destruct IH as [LK SL WKN WKE CHK].
  destruct (apply1_get _ _ _ _ _ ET) as (T0 & HT0 & SRC).
  assert (WC0 : wcond T0 (o_s o) = true) by (destruct HT0 as [-> | ->]; [exact WC|rewrite wcond_notified in WC; exact WC]).
  clear HT0 WC ET T.
  assert (XNS : a_pc X = B2w -> ~ In x (sleepers (sh s))).
  { intros PC INX. destruct (SL x INX) as (_ & NW).
    destruct (w_B2w_enabled x X (sh s) PC (wk_enabled B2w PC eq_refl)) as (MW & _). congruence. }
  destruct (micro_sleepers _ _ _ _ _ M) as [(ES & _) | [(PC & ES & _) | (PC & ES & _)]]; rewrite ES in IN.
  - (* nobody went to sleep, nobody was woken *)
    assert (NN2 : a_pc X <> N2).
    { intros PC. destruct (w_N2 _ _ _ _ _ M PC) as (E0 & _). rewrite ES in E0. rewrite E0 in IN. destruct IN. }
    destruct SRC as [(a' & Hn & ->) | [(-> & ->) | (NE & ET0)]].
    + exfalso. destruct (SL a' IN) as ((T1 & ET1 & _) & _). unfold new_ok in NO. rewrite Hn, ET1 in NO.
      apply andb_prop in NO as [_ NO]. discriminate NO.
    + exfalso. destruct (SL x IN) as ((T1 & ET1 & PT1) & _). rewrite EX in ET1. injection ET1 as <-. apply (XNS PT1 IN).
    + apply (owed_after T0 (WKE t T0 IN ET0) NN2 WC0).
  - (* the stepping agent goes to sleep *)
    assert (NN2 : a_pc X <> N2) by congruence.
    destruct (e_B2 _ _ _ _ _ M PC) as (PC' & ER & ETG & EWR & _).
    destruct SRC as [(a' & Hn & ->) | [(-> & ->) | (NE & ET0)]].
    + exfalso. clear -M PC Hn. destruct X as [role alive multi sid tok pc stack R0 notified parked]. cbn in PC. subst pc.
      micro_cases M; cbn in Hn; discriminate Hn.
    + destruct (CHK x X EX) as (_ & C2' & C3').
      assert (WX : wcond X (sh s) = true).
      { unfold wcond, gtag in *. rewrite ER, ETG, EWR in WC0. exact WC0. }
      destruct (np_step (C3' (or_intror PC) (C2' PC) WX)) as [K | K]; [exact K|contradiction].
    + apply in_app_or in IN as [IN | [E0 | []]]; [|exfalso; apply NE; symmetry; exact E0].
      apply (owed_after T0 (WKE t T0 IN ET0) NN2 WC0).
  - destruct IN.
Qed.

Lemma st_chk : forall b B, get (ags (apply1 s x o)) b = Some B -> chk_ok B (apply1 s x o).
Proof.
  intros b B EB. destruct IH as [LK SL WKN WKE CHK].
  destruct (apply1_get _ _ _ _ _ EB) as (B0 & HB0 & SRC).
  assert (W0 : chk_ok B0 (apply1 s x o)).
  2:{ destruct HB0 as [-> | ->]; [exact W0|]. destruct (facts_notified B0) as (E1 & E2 & E3).
      unfold chk_ok in *. rewrite bchk_notified, wcond_notified, E1, E3. exact W0. }
  clear HB0 EB B. change (sh (apply1 s x o)) with (o_s o). unfold chk_ok. change (sh (apply1 s x o)) with (o_s o).
  destruct SRC as [(a' & Hn & ->) | [(-> & ->) | (NE & EB0)]].
  - destruct (micro_new_idle _ _ _ _ _ _ _ M Hn) as (EI & _). rewrite EI.
    split; [intros Y; discriminate Y|]. split; [intros Y; discriminate Y|]. intros [Y | Y]; discriminate Y.
  - (* the stepping agent *)
    destruct (micro_chksrc _ _ _ _ _ M QX) as (S1 & S2 & S3).
    destruct (CHK x X EX) as (C1' & C2' & C3').
    split; [|split].
    + intros PC' BK WCN WCT. exfalso. specialize (S1 PC').
      destruct (e_C1 _ _ _ _ _ M S1) as (_ & _ & ETAG & ECNT & ESL & ETG & EWR).
      unfold wcond, gtag in WCN. rewrite ECNT, ESL, ETG, EWR in WCN. rewrite ECNT, ETAG, EWR in WCT. unfold gtag in WCT. congruence.
    + intros PC'. specialize (S3 PC').
      destruct (w_B1c _ _ _ _ _ M S3) as [(RL & _) | (_ & PR & _)]; [|congruence].
      destruct (e_B1c _ _ _ _ _ M S3 RL) as (_ & ER & _). rewrite ER. exact RL.
    + intros [PC' | PC'] RL WCN.
      * destruct (S2 PC') as (PC2 & st & EST).
        destruct (e_C2 _ _ _ _ _ st M PC2 EST) as (_ & ERL & ECNT & ESL & ETG & EWR).
        assert (BK : bchk X = true) by (unfold bchk; rewrite PC2, EST; reflexivity).
        assert (WX : wcond X (sh s) = true) by (unfold wcond, gtag in *; rewrite ECNT, ESL, ETG, EWR in WCN; exact WCN).
        rewrite ERL in RL.
        destruct (np_step (C1' PC2 BK WX RL)) as [K | K]; [exact K|congruence].
      * specialize (S3 PC').
        destruct (w_B1c _ _ _ _ _ M S3) as [(RL0 & _) | (_ & PR & _)]; [|congruence].
        destruct (e_B1c _ _ _ _ _ M S3 RL0) as (_ & ER & ETG & EWR).
        assert (WX : wcond X (sh s) = true) by (unfold wcond, gtag in *; rewrite ER, ETG, EWR in WCN; exact WCN).
        destruct (np_step (C3' (or_introl S3) RL0 WX)) as [K | K]; [exact K|congruence].
  - (* an agent that does not step *)
    destruct (CHK b B0 EB0) as (C1' & C2' & C3').
    assert (NN2 : holder B0 = true -> a_pc X <> N2).
    { intros HB PC. apply NE. apply (holders_same b B0 EB0 HB (n2_holder PC)). }
    split; [|split; [exact C2'|]].
    + intros PC BK WCN WCT.
      assert (HB : holder B0 = true) by (unfold holder; rewrite BK; reflexivity).
      destruct (wcond_step B0 WCN) as [WC0 | [P7' | PSD]]; [|apply np_self; apply (e_P7 _ _ _ _ _ M P7')|apply np_self; apply (e_SD0 _ _ _ _ _ M QX PSD)].
      destruct (check_back _ _ WCT) as [WT0 | PSD]; [|apply np_self; apply (e_SD0 _ _ _ _ _ M QX PSD)].
      destruct (np_step (C1' PC BK WC0 WT0)) as [K | K]; [exact K|exfalso; apply (NN2 HB K)].
    + intros PC RL WCN.
      assert (HB : holder B0 = true) by (unfold holder; destruct PC as [-> | ->]; apply orb_true_r).
      apply (owed_after B0 (C3' PC RL) (NN2 HB) WCN).
Qed.
End Step.

Lemma entry_quiet r cl pc : entry c r cl = Some pc ->
  pc <> C1 /\ pc <> C2 /\ pc <> B1c /\ pc <> B2 /\ pc <> N2 /\ pc <> B2w /\
  pc <> NTF /\ pc <> N1 /\ pc <> SD1 /\ pc <> TSdone /\ pc <> SSdone.
Proof.
  unfold entry. destruct r, cl; try (intros X; discriminate X); try (destruct (is_bcast c); try (intros X; discriminate X));
    intros X; injection X as <-; repeat split; discriminate.
Qed.

Lemma spur_wake A Sh o0 : micro_spur c A Sh = Some o0 ->
  bw_lock (o_s o0) = bw_lock Sh /\ sleepers (o_s o0) = sleepers Sh /\ woken (o_s o0) = woken Sh /\
  tags (o_s o0) = tags Sh /\ writers (o_s o0) = writers Sh /\
  a_stack (o_a o0) = a_stack A /\ ((a_pc A = M5 /\ a_pc (o_a o0) = M2) \/ (a_pc A = R12 /\ a_pc (o_a o0) = R4)).
Proof.
  intros H. destruct A as [role alive multi sid tok pc stack R0 notified parked].
  unfold micro_spur, ok in H. cbn in H. destruct pc; try discriminate H.
  - injection H as <-. cbn. repeat split; auto.
  - destruct (r_am R0); [discriminate|]. unfold use_obj, bad, drop_opt, drop_val in H. cbn in H.
    break_hyp H; injection H as <-; cbn; repeat split; auto.
Qed.

Theorem wake_mreach fut s : mreach c fut s -> lenN (ags s) < B62 -> WakeG s.
Proof.
  revert s. apply (mreach_inv2 c fut (fun s => lenN (ags s) < B62 -> WakeG s)).
  - (* begin_call *)
    intros s0 a A cl pc R I EA Hpc Hal He _ SM. unfold begin_call in *. cbn [ags sh] in *.
    rewrite (len_put_same _ _ _ _ EA) in SM. destruct (I SM) as [LK SL WKN WKE CHK].
    destruct (entry_quiet _ _ _ He) as (Q1 & Q2 & Q3 & Q4 & Q5 & Q6 & Q7 & Q8 & Q9 & Q10 & Q11).
    pose proof (ctl_mreach c fut s0 R a A EA) as QA.
    assert (ST0 : a_stack A = []).
    { clear -QA Hpc. destruct A as [role alive multi sid tok pc0 stack R0 notified parked]. cbn in Hpc. subst pc0.
      unfold ctl_ok in QA. cbn in QA. destruct stack; [reflexivity|cbn in QA; discriminate QA]. }
    set (A1 := at_pc pc (withr (set_r_res RNoRes (set_r_call cl (a_r A))) (set_a_notified false A))) in *.
    assert (PA1 : a_pc A1 = pc /\ a_stack A1 = []) by (destruct A; cbn in *; auto).
    destruct PA1 as (PA1 & SA1).
    assert (OTH : forall b B, get (put (ags s0) a A1) b = Some B -> (b = a /\ B = A1) \/ (b <> a /\ get (ags s0) b = Some B)).
    { intros b B EB. rewrite get_put in EB. destruct (N.eqb b a) eqn:E.
      - left. apply N.eqb_eq in E. injection EB as <-. auto.
      - right. apply N.eqb_neq in E. auto. }
    assert (NPK : NP s0 -> NP (mkstate (hist (HCall a cl (g_clock (sh s0))) (sh s0)) (put (ags s0) a A1))).
    { intros (n & N & EN0 & NPN). exists n, N. split; [|exact NPN]. cbn [ags]. rewrite get_put.
      destruct (N.eqb n a) eqn:E; [|exact EN0]. apply N.eqb_eq in E. subst n. rewrite EA in EN0. injection EN0 as <-.
      exfalso. unfold np in NPN. rewrite Hpc in NPN. discriminate NPN. }
    constructor; cbn [ags sh].
    + intros b B EB HB. change (bw_lock (hist (HCall a cl (g_clock (sh s0))) (sh s0))) with (bw_lock (sh s0)).
      destruct (OTH b B EB) as [(-> & ->) | (_ & EB0)]; [|apply (LK b B EB0 HB)].
      exfalso. unfold holder, bchk in HB. rewrite PA1 in HB. destruct pc; try discriminate HB; congruence.
    + intros t IN. change (sleepers (hist (HCall a cl (g_clock (sh s0))) (sh s0))) with (sleepers (sh s0)) in IN.
      change (woken (hist (HCall a cl (g_clock (sh s0))) (sh s0))) with (woken (sh s0)).
      destruct (SL t IN) as ((T & ET & PT) & NW). split; [|exact NW]. exists T. split; [|exact PT].
      rewrite get_put. destruct (N.eqb t a) eqn:E; [|exact ET]. apply N.eqb_eq in E. subst t. rewrite EA in ET. injection ET as <-. congruence.
    + intros t IN. change (woken (hist (HCall a cl (g_clock (sh s0))) (sh s0))) with (woken (sh s0)) in IN.
      destruct (WKN t IN) as (T & ET & PT). exists T. split; [|exact PT].
      rewrite get_put. destruct (N.eqb t a) eqn:E; [|exact ET]. apply N.eqb_eq in E. subst t. rewrite EA in ET. injection ET as <-. congruence.
    + intros t T IN ET WC. change (sleepers (hist (HCall a cl (g_clock (sh s0))) (sh s0))) with (sleepers (sh s0)) in IN.
      apply NPK. destruct (OTH t T ET) as [(-> & ->) | (_ & ET0)].
      * exfalso. destruct (SL a IN) as ((T1 & ET1 & PT1) & _). rewrite EA in ET1. injection ET1 as <-. congruence.
      * apply (WKE t T IN ET0). exact WC.
    + intros b B EB. destruct (OTH b B EB) as [(-> & ->) | (_ & EB0)].
      * unfold chk_ok. rewrite PA1. split; [intros Y; congruence|]. split; [intros Y; congruence|]. intros [Y | Y]; congruence.
      * destruct (CHK b B EB0) as (C1' & C2' & C3'). unfold chk_ok. cbn [sh].
        split; [intros P1 P2 P3 P4; apply NPK; apply (C1' P1 P2 P3 P4)|]. split; [exact C2'|].
        intros P1 P2 P3. apply NPK. apply (C3' P1 P2 P3).
  - (* micro-step *)
    intros s0 x X o R I EX EN M NO SM'.
    assert (SMa : lenN (ags s0) < B62) by (pose proof (apply1_len s0 x o); lia).
    specialize (I SMa). change (sh (apply1 s0 x o)) with (o_s o).
    constructor; change (sh (apply1 s0 x o)) with (o_s o).
    + eapply st_lock; eauto.
    + eapply st_sleep; eauto.
    + eapply st_woken; eauto.
    + eapply st_wake; eauto.
    + eapply st_chk; eauto.
  - (* spurious failure *)
    intros s0 a A o R I EA M SM'.
    assert (SMa : lenN (ags s0) < B62) by (pose proof (apply1_len s0 a o); lia).
    destruct (I SMa) as [LK SL WKN WKE CHK].
    destruct (spur_shape _ _ _ _ M) as (N0 & Hr & _ & _ & _ & Hc & _).
    destruct (spur_wake _ _ _ M) as (E1 & E2 & E3 & E4 & E5 & EST & SHP).
    assert (NOK : new_ok s0 a o = true) by (unfold new_ok; rewrite N0; reflexivity).
    change (sh (apply1 s0 a o)) with (o_s o).
    assert (NPX : np (o_a o) = np A).
    { unfold np, sender_drop. rewrite Hr, Hc. destruct SHP as [(P1 & P2) | (P1 & P2)]; rewrite P1, P2; reflexivity. }
    assert (NPK : NP s0 -> NP (apply1 s0 a o)).
    { intros (n & N & EN0 & NPN). destruct (N.eq_dec n a) as [-> | NE].
      - rewrite EA in EN0. injection EN0 as <-. destruct (apply1_get_self s0 a o NOK) as (B & EB & [-> | ->]).
        + exists a, (o_a o). rewrite NPX. auto.
        + exists a, (set_a_notified true (o_a o)). rewrite np_notified, NPX. auto.
      - destruct (apply1_get_conv s0 a o n N EN0 NE NOK) as (B & EB & [-> | ->]).
        + exists n, N. auto.
        + exists n, (set_a_notified true N). rewrite np_notified. auto. }
    assert (SRC : forall b B, get (ags (apply1 s0 a o)) b = Some B ->
              (b = a /\ (a_pc B = M2 \/ a_pc B = R4)) \/
              (b <> a /\ exists B0, get (ags s0) b = Some B0 /\ a_pc B = a_pc B0 /\ a_stack B = a_stack B0 /\ a_r B = a_r B0)).
    { intros b B EB. destruct (apply1_get _ _ _ _ _ EB) as (B0 & HB0 & S0).
      destruct (facts_notified B0) as (F1 & F2 & F3).
      destruct S0 as [(a' & Hn & ->) | [(-> & ->) | (NE & EB0)]].
      - rewrite N0 in Hn. discriminate Hn.
      - left. split; [reflexivity|]. destruct HB0 as [-> | ->]; rewrite ?F1; destruct SHP as [(_ & P2) | (_ & P2)]; auto.
      - right. split; [exact NE|]. exists B0. destruct HB0 as [-> | ->]; auto. }
    constructor; change (sh (apply1 s0 a o)) with (o_s o).
    + intros b B EB HB. rewrite E1. destruct (SRC b B EB) as [(-> & PB) | (NE & B0 & EB0 & F1 & F2 & F3)].
      * exfalso. unfold holder, bchk in HB. destruct PB as [PB | PB]; rewrite PB in HB; discriminate HB.
      * apply (LK b B0 EB0). unfold holder, bchk in *. rewrite F1, F2 in HB. exact HB.
    + intros t IN. rewrite E2 in IN. rewrite E3. destruct (SL t IN) as ((T & ET & PT) & NW). split; [|exact NW].
      assert (NE : t <> a).
      { intros ->. rewrite EA in ET. injection ET as <-. destruct SHP as [(P1 & _) | (P1 & _)]; congruence. }
      destruct (apply1_get_conv s0 a o t T ET NE NOK) as (B & EB & [-> | ->]).
      * exists T. auto.
      * exists (set_a_notified true T). destruct (facts_notified T) as (F1 & _). rewrite F1. auto.
    + intros t IN. rewrite E3 in IN. destruct (WKN t IN) as (T & ET & PT).
      assert (NE : t <> a).
      { intros ->. rewrite EA in ET. injection ET as <-. destruct SHP as [(P1 & _) | (P1 & _)]; congruence. }
      destruct (apply1_get_conv s0 a o t T ET NE NOK) as (B & EB & [-> | ->]).
      * exists T. auto.
      * exists (set_a_notified true T). destruct (facts_notified T) as (F1 & _). rewrite F1. auto.
    + intros t T IN ET WC. rewrite E2 in IN. apply NPK.
      destruct (SRC t T ET) as [(-> & PB) | (NE & T0 & ET0 & F1 & F2 & F3)].
      * exfalso. destruct (SL a IN) as ((T1 & ET1 & PT1) & _). rewrite EA in ET1. injection ET1 as <-.
        destruct SHP as [(P1 & _) | (P1 & _)]; congruence.
      * apply (WKE t T0 IN ET0). unfold wcond, gtag in *. rewrite F3, E4, E5 in WC. exact WC.
    + intros b B EB. destruct (SRC b B EB) as [(-> & PB) | (NE & B0 & EB0 & F1 & F2 & F3)].
      * unfold chk_ok. split; [intros Y; destruct PB; congruence|]. split; [intros Y; destruct PB; congruence|].
        intros [Y | Y]; destruct PB; congruence.
      * destruct (CHK b B0 EB0) as (C1' & C2' & C3'). unfold chk_ok, bchk, wcond, gtag in *. cbn [sh].
        change (sh (apply1 s0 a o)) with (o_s o). rewrite F1, F2, F3, E4, E5.
        split; [intros P1 P2 P3 P4; apply NPK; apply (C1' P1 P2 P3 P4)|]. split; [exact C2'|].
        intros P1 P2 P3. apply NPK. apply (C3' P1 P2 P3).
  - (* tick *)
    intros s0 R I SM. cbn [ags sh] in *. destruct (I SM) as [LK SL WKN WKE CHK].
    assert (NPK : NP s0 -> NP (mkstate (tick (sh s0)) (ags s0))) by (intros (n & N & E & K); exists n, N; auto).
    constructor; cbn [ags sh]; [exact LK|exact SL|exact WKN| |].
    + intros t T IN ET WC. apply NPK. apply (WKE t T IN ET WC).
    + intros b B EB. destruct (CHK b B EB) as (C1' & C2' & C3'). unfold chk_ok. cbn [sh].
      split; [intros P1 P2 P3 P4; apply NPK; apply (C1' P1 P2 P3 P4)|]. split; [exact C2'|].
      intros P1 P2 P3. apply NPK. apply (C3' P1 P2 P3).
  - (* initial state *)
    intros _.
    assert (AG : forall a A, get (ags (init fut)) a = Some A -> a_pc A = Idle /\ a_stack A = []).
    { intros a A EA. cbn in EA. unfold get in EA. cbn in EA.
      destruct (N.eqb a 0); [injection EA as <-; destruct fut; split; reflexivity|].
      destruct (N.eqb a 1); [injection EA as <-; destruct fut; split; reflexivity|discriminate]. }
    constructor.
    + intros a A EA HA. exfalso. destruct (AG a A EA) as (P & _). unfold holder, bchk in HA. rewrite P in HA. discriminate HA.
    + intros t [].
    + intros t [].
    + intros t T [].
    + intros a A EA. destruct (AG a A EA) as (P & _). unfold chk_ok. rewrite P.
      split; [intros Y; discriminate Y|]. split; [intros Y; discriminate Y|]. intros [Y | Y]; discriminate Y.
Qed.
End WK.
