(* The reference counts of the slots (C04): the count of a slot is the number of consumers that hold a reference on
   it; a producer that has passed the test of the count never meets a consumer that reads the cell it is going to
   overwrite; a consumer in the middle of a clone or a view finds the cell unchanged. *)
From Coq Require Import NArith List Bool Lia.
Require Import MQ.Arith64 MQ.Arith64Facts MQ.Types MQ.State MQ.Model MQ.Exec MQ.Reach MQ.Fields MQ.Ctl MQ.Count MQ.SumCount MQ.FreshStep
  MQ.WritersStep MQ.InvWriters MQ.HeadStep MQ.InvHead MQ.RecvDefs MQ.RecvStep MQ.KnownStep MQ.InvRecv MQ.SoleDefs MQ.InvSole
  MQ.PosStep MQ.AttStep MQ.InvPos MQ.GroupStep MQ.GroupStep2 MQ.GroupStep3 MQ.NewAgentStep MQ.InvGroups MQ.RegStep MQ.InvReg
  MQ.WinStep MQ.WinDefs MQ.WinStep2 MQ.WinTrans MQ.InvWin MQ.SlotDefs MQ.SlotStepA MQ.SlotStepB MQ.SlotStepC MQ.SlotStepD MQ.InvSlot
  MQ.PinDefs MQ.PinStepA MQ.PinStepB MQ.PinStepC MQ.PinStepD.
Import ListNotations.
Open Scope N_scope.

Lemma slot_gap a b n : 0 < n -> slot_of a n = slot_of b n -> a < b -> a + n <= b.
Proof.
  intros Hn E L. destruct (N.le_gt_cases (a + n) b) as [G | G]; [exact G|]. exfalso.
  assert (a = b); [|lia]. apply (slot_window a a b n Hn); try lia; try exact E.
Qed.

Lemma wadd1_small x : x < B62 -> wadd x 1 = x + 1.
Proof. intros H. unfold wadd, W, B62 in *. rewrite N.mod_small; lia. Qed.

Section PN.
Variable c : cfg.
Notation N := (c_n c).
Hypothesis Npos : 0 < N.
Hypothesis Nsmall : N <= B61.

(* the producer has passed the test of the reference count of its target slot and has not written the cell yet *)
Definition zone (A : agent) (S : shared) : Prop :=
  a_pc A = P5 \/ a_pc A = P6 \/ (a_pc A = M5 /\ r_h (a_r A) = head S).

Definition PinCount (s : state) : Prop := forall i, gpin (sh s) i = sumf (hw c i) (ags s).

Definition Stale (s : state) : Prop :=
  is_bcast c = true ->
  forall w W b B, get (ags s) w = Some W -> zone W (sh s) -> get (ags s) b = Some B ->
    holds B = true -> sl c (r_p (a_r B)) = sl c (r_h (a_r W)) ->
    (a_pc B = R8 \/ a_pc B = R9) /\ r_p (a_r B) < gpos (sh s) (a_sid B).

Definition Intact (s : state) : Prop :=
  forall b B, get (ags s) b = Some B -> (a_pc B = KC \/ a_pc B = VK) ->
    get (cells (sh s)) (sl c (r_p (a_r B))) = Some (r_tmp (a_r B)).

Definition Written (S : shared) : Prop := forall i, gtag S i <> INITIAL_QUEUE_FLAG -> get (cells S) i <> None.

Definition PinInv (s : state) : Prop :=
  SmallW s ->
  (forall a A, get (ags s) a = Some A -> bphase_ok c A) /\ PinCount s /\ Stale s /\ Intact s /\ Written (sh s).

Lemma bphase_notified B b : bphase_ok c (set_a_notified b B) <-> bphase_ok c B.
Proof. destruct B; unfold bphase_ok; cbn; tauto. Qed.

Lemma bphase_plain B : att_pc (a_pc B) = false -> bphase_ok c B.
Proof.
  intros Z. split; intros X; exfalso; destruct X as [X | [X | [X | X]]]; rewrite X in Z; discriminate Z.
Qed.

Lemma holds_att B : holds B = true -> att_pc (a_pc B) = true.
Proof. unfold holds. destruct (a_pc B); intros X; try discriminate X; reflexivity. Qed.

Lemma holds_notified B : holds (set_a_notified true B) = holds B /\ a_pc (set_a_notified true B) = a_pc B /\
  r_p (a_r (set_a_notified true B)) = r_p (a_r B) /\ a_sid (set_a_notified true B) = a_sid B /\
  r_h (a_r (set_a_notified true B)) = r_h (a_r B) /\ r_tmp (a_r (set_a_notified true B)) = r_tmp (a_r B).
Proof. destruct B; repeat split; reflexivity. Qed.

(* a consumer that acts as the only one of its stream is never lapped on the slot of its position *)
Lemma sole_not_lapped fut s b B w W :
  mreachN c fut s -> SmallW s -> get (ags s) b = Some B -> get (ags s) w = Some W ->
  (a_pc B = KC \/ a_pc B = VK) -> ap_phase B = true -> wip (a_pc W) = true ->
  sl c (r_h (a_r W)) = sl c (r_p (a_r B)) -> False.
Proof.
  intros RN SM EB EW PC AP PW ESL.
  pose proof (mreachN_mreach c fut s RN) as R. pose proof SM as [SMa SMl].
  destruct (slot_mreachN c Npos Nsmall fut s RN SM) as (SG & SA & _).
  destruct (win_mreachN c Npos Nsmall fut s RN SM) as (G & IA).
  destruct (SA b B EB) as (_ & EAB & _). destruct (SA w W EW) as (WW & _).
  assert (MB : matched (a_pc B) = true) by (destruct PC as [-> | ->]; reflexivity).
  assert (FB : fn_of (a_pc B) = FTR) by (destruct PC as [-> | ->]; reflexivity).
  destruct (EAB MB) as (T1 & T2). destruct (WW PW) as (_ & _ & W2' & W3' & _ & W5 & _).
  pose proof (pos_mreach c fut s R SMa b B EB AP) as EP.
  assert (REG : In (a_sid B) (streams (sh s))).
  { destruct (reg_mreach c fut s R SMa) as (_ & RG1 & _). apply (RG1 b B (a_sid B) EB). apply ftr_wh; [apply (ctl_mreach c fut s R b B EB)|exact FB]. }
  pose proof (w_tail_le_cursor c _ G _ REG) as TL.
  rewrite ESL in W5. destruct W5 as [W5 | W5]; [contradiction|].
  assert (L : r_p (a_r B) < r_h (a_r W)) by lia.
  pose proof (slot_gap _ _ N Npos (eq_sym ESL) L). lia.
Qed.

Section Step.
Variables (fut : bool) (s : state) (x : BinNums.N) (X : agent) (o : out).
Hypothesis RN : mreachN c fut s.
Hypothesis SM' : SmallW (apply1 s x o).
Hypothesis EX : get (ags s) x = Some X.
Hypothesis M : micro c x X (sh s) = Some o.
Hypothesis NO : new_ok s x o = true.
Hypothesis NF : ~ f11_bad (sh s) X.
Hypothesis EN : is_local (a_pc X) = true \/ enabled x X (sh s) = true.
Hypothesis IH : PinInv s.

Let R := mreachN_mreach c fut s RN.
Let SM := small_back c Npos Nsmall s x X o EX M SM'.
Let QX := ctl_mreach c fut s R x X EX.

Lemma pn_ih : (forall a A, get (ags s) a = Some A -> bphase_ok c A) /\ PinCount s /\ Stale s /\ Intact s /\ Written (sh s).
Proof. exact (IH SM). Qed.

Lemma pn_slot : SlotG c (sh s) /\ (forall a A, get (ags s) a = Some A -> SlotA c A (sh s)) /\ CellsOK c s /\ Distinct s.
Proof. exact (slot_mreachN c Npos Nsmall fut s RN SM). Qed.

Lemma pn_win : WinG c (sh s) /\ forall a A, get (ags s) a = Some A -> WinA c A (sh s).
Proof. exact (win_mreachN c Npos Nsmall fut s RN SM). Qed.

Lemma pn_cs : forall g, gpos (o_s o) g = gpos (sh s) g \/
   (a_sid X = g /\ (a_pc X = R12 \/ a_pc X = V4) /\ gpos (o_s o) g = next_count (gpos (sh s) g)) \/
   (a_pc X = A2 /\ g = nsid (sh s) /\ gpos (o_s o) g = gpos (sh s) (a_sid X)).
Proof. eapply st_cs; eauto. Qed.

Lemma pn_sf : StepFacts (sh s) (o_s o).
Proof. eapply st_sf; eauto. Qed.

(* ---- the count ---- *)
Lemma pn_count : PinCount (apply1 s x o).
Proof.
  intros i. change (sh (apply1 s x o)) with (o_s o).
  destruct pn_ih as (BP & PC & _). destruct (recv_mreach c fut s R) as (ND & _).
  destruct (micro_pin c i _ _ _ _ M QX (BP x X EX)) as (_ & PIN & NEW).
  pose proof (apply1_sumf (hw c i) s x o X (hw_notified c i) ND EX NO) as SUM.
  assert (NEW0 : match o_new o with Some (a', A') => hw c i a' A' | None => 0 end = 0).
  { destruct (o_new o) as [[a' A']|] eqn:EN0; [|reflexivity]. unfold hw. rewrite (NEW a' A' eq_refl).
    rewrite andb_false_r. reflexivity. }
  rewrite NEW0, N.add_0_r in SUM.
  assert (HX : hw c i x X = hw c i 0 X /\ hw c i x (o_a o) = hw c i 0 (o_a o)) by (split; reflexivity).
  destruct HX as (HX1 & HX2). rewrite HX1, HX2 in SUM.
  specialize (PC i).
  assert (BND : sumf (hw c i) (ags s) < B62).
  { pose proof (sumf_bound (hw c i) (ags s) 1 (hw_le1 c i)) as B. destruct SM as [SMa _]. lia. }
  destruct PIN as [(E1 & E2) | [(_ & _ & E1 & E2 & E3) | (_ & _ & E1 & E2 & E3)]].
  - rewrite E1, PC. rewrite E2 in SUM. lia.
  - rewrite E1, PC, wadd1_small by exact BND. rewrite E2, E3 in SUM. lia.
  - rewrite E2, E3 in SUM.
    pose proof (sumf_get_le (hw c i) (ags s) x X EX) as LE. rewrite HX1, E2 in LE.
    rewrite E1, PC, wsub_ge by (unfold W, B62 in *; lia). lia.
Qed.

(* ---- a published slot has been written ---- *)
Lemma pn_written : Written (o_s o).
Proof.
  intros i T. destruct pn_ih as (_ & _ & _ & _ & WR). destruct pn_slot as (_ & SA & _).
  destruct (SA x X EX) as (WX & _).
  assert (CELL : forall j, get (cells (sh s)) j <> None -> get (cells (o_s o)) j <> None).
  { intros j NE. destruct (micro_cells _ _ _ _ _ M) as [E | (_ & E)]; rewrite E; [exact NE|].
    rewrite get_put. destruct (N.eqb j (sl c (r_h (a_r X)))); [discriminate|exact NE]. }
  destruct (micro_tags i _ _ _ _ _ M) as [E | (PC & EI & E)].
  - rewrite E in T. apply CELL. apply WR. exact T.
  - assert (PWX : wip (a_pc X) = true) by (rewrite PC; reflexivity).
    destruct (WX PWX) as (_ & _ & _ & _ & _ & _ & X6). apply CELL. rewrite EI, (X6 PC). discriminate.
Qed.

(* ---- the cell under a clone or a view ---- *)
Lemma pn_intact : Intact (apply1 s x o).
Proof.
  intros b B EB PCB. change (sh (apply1 s x o)) with (o_s o).
  destruct pn_ih as (BP & PC & ST & IT & WR). destruct pn_slot as (SG & SA & _). destruct pn_win as (G & IA).
  destruct (apply1_get _ _ _ _ _ EB) as (B0 & HB & Hsrc).
  assert (FB : (a_pc B0 = KC \/ a_pc B0 = VK) /\ r_p (a_r B) = r_p (a_r B0) /\ r_tmp (a_r B) = r_tmp (a_r B0)).
  { destruct HB as [-> | ->]; [auto|]. destruct (holds_notified B0) as (_ & E1 & E2 & _ & _ & E3). rewrite E1 in PCB. auto. }
  destruct FB as (PB0 & -> & ->). clear HB EB B PCB.
  destruct Hsrc as [(a' & Hn & ->) | [(-> & ->) | (Hne & EB0)]].
  - destruct (micro_new_idle _ _ _ _ _ _ _ M Hn) as (EI & _). destruct PB0 as [P | P]; rewrite EI in P; discriminate P.
  - (* the stepping agent has just read the cell *)
    assert (RD : rdphase (a_pc (o_a o)) = true) by (destruct PB0 as [-> | ->]; reflexivity).
    assert (SRC : a_pc X = R4 \/ a_pc X = R8 \/ a_pc X = V1) by (apply (micro_kc _ _ _ _ _ M QX PB0)).
    assert (N6 : a_pc X <> P6) by (destruct SRC as [-> | [-> | ->]]; discriminate).
    destruct (micro_cells _ _ _ _ _ M) as [EC | (P6' & _)]; [|contradiction]. rewrite EC.
    destruct (micro_read _ _ _ _ _ M QX RD) as (ES & EPp & [(RDX & _) | (_ & _ & _ & VAL)]).
    + exfalso. destruct SRC as [E | [E | E]]; rewrite E in RDX; discriminate RDX.
    + rewrite EPp.
      destruct (SA x X EX) as (_ & EAX & _). destruct (IA x X EX) as (_ & _ & (RX1 & _) & _).
      assert (AX : att_pc (a_pc X) = true) by (destruct SRC as [-> | [-> | ->]]; reflexivity).
      assert (T1 : gtag (sh s) (sl c (r_p (a_r X))) <> INITIAL_QUEUE_FLAG).
      { destruct (micro_matched _ _ _ _ _ M QX (rd_matched _ RD)) as (_ & [(MX & _) | (_ & _ & TG)]).
        - apply EAX. exact MX.
        - destruct (tag_is_pos c Npos Nsmall (sh s) (r_p (a_r X)) _ G eq_refl TG (RX1 AX)) as (T1 & _). exact T1. }
      destruct (get (cells (sh s)) (sl c (r_p (a_r X)))) as [v|] eqn:EV; [|exfalso; apply (WR _ T1); exact EV].
      specialize (VAL v eq_refl). unfold valof in VAL. destruct PB0 as [P | P]; rewrite P in VAL; injection VAL as ->; reflexivity.
  - (* another agent is cloning or viewing: nobody writes its cell *)
    specialize (IT b B0 EB0 PB0).
    destruct (micro_cells _ _ _ _ _ M) as [EC | (P6' & EC)]; rewrite EC; [exact IT|].
    rewrite get_put. destruct (N.eqb (sl c (r_p (a_r B0))) (sl c (r_h (a_r X)))) eqn:ESL; [|exact IT].
    exfalso. apply N.eqb_eq in ESL.
    assert (PWX : wip (a_pc X) = true) by (rewrite P6'; reflexivity).
    pose proof (ctl_mreach c fut s R b B0 EB0) as QB.
    destruct (SM) as [SMa _].
    pose proof (ra_mreach c fut s R b B0 EB0) as RAB.
    destruct (holds B0) eqn:HB0.
    + (* it holds a reference: the producer would have been refused *)
      assert (BC : is_bcast c = true).
      { destruct PB0 as [P | P]; [apply (proj2 (BP b B0 EB0)); right; right; left; exact P|].
        unfold holds in HB0. rewrite P in HB0. discriminate HB0. }
      assert (ZX : zone X (sh s)) by (right; left; exact P6').
      destruct (ST BC x X b B0 EX ZX EB0 HB0 ESL) as ([P | P] & _); destruct PB0 as [P' | P']; congruence.
    + (* it acts as the only consumer of its stream *)
      assert (AP : ap_phase B0 = true).
      { unfold ap_phase. destruct PB0 as [P | P]; rewrite P; [|reflexivity]. cbn.
        unfold holds in HB0. rewrite P in HB0. apply negb_false_iff in HB0. rewrite HB0. destruct (r_am (a_r B0)); reflexivity. }
      apply (sole_not_lapped fut s b B0 x X RN SM EB0 EX PB0 AP PWX). symmetry. exact ESL.
Qed.

(* ---- consumers that hold a reference on the slot a producer is about to overwrite are stale ---- *)
Lemma zone_notified B Sh : zone (set_a_notified true B) Sh <-> zone B Sh.
Proof. destruct B; unfold zone; cbn; tauto. Qed.

Lemma pn_zone_back w W0 : w <> x -> get (ags s) w = Some W0 -> zone W0 (o_s o) -> zone W0 (sh s).
Proof.
  intros NE EW [Z | [Z | (Z & EH)]]; [left; exact Z|right; left; exact Z|]. right. right. split; [exact Z|].
  destruct pn_win as (_ & IA). destruct (IA w W0 EW) as (SAW & _). destruct pn_sf as [F1 _ _ _ _ _ _].
  destruct (sa_at c W0 (sh s) M5 Z SAW) as (A0W & _). unfold A0 in A0W. lia.
Qed.

Lemma pn_stale_new fut0 : fut0 = fut -> forall b B0 w W0,
  get (ags s) w = Some W0 -> zone W0 (sh s) -> get (ags s) b = Some B0 -> a_pc B0 = R7 ->
  is_bcast c = true -> sl c (r_p (a_r B0)) = sl c (r_h (a_r W0)) -> r_p (a_r B0) < gpos (sh s) (a_sid B0).
Proof.
  intros _ b B0 w W0 EW ZW EB PB BC ESL.
  destruct pn_slot as (SG & SA & _). destruct pn_win as (G & IA). destruct SM as [SMa SMl].
  destruct (SA b B0 EB) as (_ & EAB & _). destruct (IA b B0 EB) as (_ & _ & (_ & RB2) & _).
  destruct (SA w W0 EW) as (WW & _). destruct (IA w W0 EW) as (SAW & _).
  assert (MB : matched (a_pc B0) = true) by (rewrite PB; reflexivity).
  destruct (EAB MB) as (T1 & T2). specialize (RB2 MB).
  assert (REG : In (a_sid B0) (streams (sh s))).
  { destruct (reg_mreach c fut s R SMa) as (_ & RG1 & _). apply (RG1 b B0 (a_sid B0) EB).
    apply ftr_wh; [apply (ctl_mreach c fut s R b B0 EB)|rewrite PB; reflexivity]. }
  pose proof (w_tail_le_cursor c _ G _ REG) as TL.
  assert (HW : r_p (a_r B0) < r_h (a_r W0) /\ r_h (a_r W0) < tailc (sh s) + N).
  { destruct ZW as [Z | [Z | (Z & EH)]].
    - destruct (sa_at c W0 (sh s) P5 Z SAW) as (_ & PS). unfold PASS in PS.
      destruct (head_mreach c fut s R SMa) as [HLX _].
      assert (PX : pp_pc (a_pc W0) (a_stack W0) = true) by (rewrite Z; reflexivity).
      rewrite (HLX w W0 EW PX). split; [exact RB2|]. rewrite <- (HLX w W0 EW PX). exact PS.
    - assert (PW : wip (a_pc W0) = true) by (rewrite Z; reflexivity).
      destruct (WW PW) as (_ & _ & _ & W3' & _ & W5 & _). split; [|exact W3'].
      rewrite <- ESL in W5. destruct W5 as [W5 | W5]; [contradiction|lia].
    - destruct (sa_at c W0 (sh s) M5 Z SAW) as (_ & PS). unfold PASS in PS. rewrite EH. split; [exact RB2|]. rewrite <- EH. exact PS. }
  destruct HW as (L & U).
  pose proof (slot_gap _ _ N Npos ESL L). lia.
Qed.

Lemma pn_stale : Stale (apply1 s x o).
Proof.
  intros BC w W b B EW ZW EB HB ESL. change (sh (apply1 s x o)) with (o_s o) in *.
  destruct pn_ih as (BP & PC & ST & IT & WR). destruct pn_sf as [F1 _ F3 _ _ _ _].
  destruct (apply1_get _ _ _ _ _ EW) as (W0 & HW & SRCW).
  destruct (apply1_get _ _ _ _ _ EB) as (B0 & HB0 & SRCB).
  assert (FW : zone W0 (o_s o) /\ r_h (a_r W) = r_h (a_r W0)).
  { destruct HW as [-> | ->]; [auto|]. destruct (holds_notified W0) as (_ & _ & _ & _ & E & _). split; [clear -ZW; destruct W0; exact ZW|exact E]. }
  destruct FW as (ZW0 & EHW). rewrite EHW in ESL.
  assert (FB : holds B0 = true /\ a_pc B = a_pc B0 /\ r_p (a_r B) = r_p (a_r B0) /\ a_sid B = a_sid B0).
  { destruct HB0 as [-> | ->]; [auto|]. destruct (holds_notified B0) as (E0 & E1 & E2 & E3 & _). rewrite E0 in HB. auto. }
  destruct FB as (HB1 & -> & EPB & ->). rewrite EPB in ESL |- *.
  clear HW HB0 EW EB HB ZW EHW EPB W B.
  destruct SRCW as [(a' & Hn & ->) | [(-> & ->) | (NW & EW0)]].
  - exfalso. destruct (micro_new_idle _ _ _ _ _ _ _ M Hn) as (EI & _).
    destruct ZW0 as [Z | [Z | (Z & _)]]; rewrite EI in Z; discriminate Z.
  - (* the stepping agent is the producer *)
    destruct SRCB as [(a' & Hn & ->) | [(-> & ->) | (NB & EB0)]].
    + exfalso. destruct (micro_pin c 0 _ _ _ _ M QX (BP x X EX)) as (_ & _ & NEW). rewrite (NEW _ _ Hn) in HB1. discriminate HB1.
    + exfalso. unfold holds in HB1. destruct ZW0 as [Z | [Z | (Z & _)]]; rewrite Z in HB1; discriminate HB1.
    + assert (SPH : sphase (a_pc (o_a o)) = true) by (destruct ZW0 as [Z | [Z | (Z & _)]]; rewrite Z; reflexivity).
      pose proof (micro_spred _ _ _ _ _ M QX SPH) as SPR.
      destruct pn_win as (G & IA). destruct (IA x X EX) as (SAX & _).
      assert (OLD : zone X (sh s) -> r_h (a_r (o_a o)) = r_h (a_r X) ->
                    (a_pc B0 = R8 \/ a_pc B0 = R9) /\ r_p (a_r B0) < gpos (o_s o) (a_sid B0)).
      { intros ZX ER. rewrite ER in ESL. destruct (ST BC x X b B0 EX ZX EB0 HB1 ESL) as (P & L).
        split; [exact P|]. specialize (F3 (a_sid B0)). lia. }
      assert (FRESH : (a_pc X = P4 \/ a_pc X = M4) -> (a_pc (o_a o) = P5 \/ a_pc (o_a o) = M5) -> False).
      { intros PX PX'. destruct (t_P4z _ _ _ _ _ M QX PX PX') as (PIN0 & ER). rewrite ER in ESL.
        pose proof (PC (sl c (r_h (a_r X)))) as PCI. rewrite PIN0 in PCI.
        pose proof (sumf_get_le (hw c (sl c (r_h (a_r X)))) (ags s) b B0 EB0) as LE. rewrite <- PCI in LE.
        unfold hw in LE. rewrite BC, HB1, ESL, N.eqb_refl in LE. cbn in LE. lia. }
      assert (NOB : (a_pc X = P4pre \/ a_pc X = M4pre) -> (a_pc (o_a o) = P5 \/ a_pc (o_a o) = M5) -> False).
      { intros PX PX'. pose proof (t_P4prez _ _ _ _ _ M PX PX') as E. congruence. }
      destruct ZW0 as [Z | [Z | (Z & EH)]]; rewrite Z in SPR.
      * exfalso. destruct (a_pc X) eqn:EPX; try discriminate SPR.
        -- apply NOB; [left; reflexivity|left; exact Z].
        -- apply FRESH; [left; reflexivity|left; exact Z].
      * destruct (a_pc X) eqn:EPX; try discriminate SPR.
        -- destruct (t_P5 c _ _ _ _ M EPX G SAX) as (_ & ER & _). apply OLD; [left; exact EPX|exact ER].
        -- destruct (t_M5 c Npos Nsmall _ _ _ _ M EPX G SAX) as [(PC2 & _) | (_ & E0 & _ & ER & _)].
           ++ rewrite Z in PC2. discriminate PC2.
           ++ apply OLD; [right; right; split; [exact EPX|symmetry; exact E0]|exact ER].
      * exfalso. destruct (a_pc X) eqn:EPX; try discriminate SPR.
        -- apply NOB; [right; reflexivity|right; exact Z].
        -- apply FRESH; [right; reflexivity|right; exact Z].
  - (* the producer does not step *)
    pose proof (pn_zone_back w W0 NW EW0 ZW0) as ZW1.
    destruct SRCB as [(a' & Hn & ->) | [(-> & ->) | (NB & EB0)]].
    + exfalso. destruct (micro_pin c 0 _ _ _ _ M QX (BP x X EX)) as (_ & _ & NEW). rewrite (NEW _ _ Hn) in HB1. discriminate HB1.
    + (* the stepping agent is the consumer *)
      destruct (micro_hold _ _ _ _ _ M QX HB1) as (ES & EPp & SRC & KCF).
      rewrite ES, EPp in *. specialize (F3 (a_sid X)).
      destruct SRC as [HX | [P7 | (_ & _ & NBC)]]; [| |congruence].
      * destruct (ST BC w W0 x X EW0 ZW1 EX HX ESL) as (PX & L). split; [|lia].
        unfold holds in HB1. destruct (a_pc (o_a o)) eqn:EP'; try discriminate HB1; auto.
        -- exfalso. destruct (KCF (or_introl eq_refl)) as [(_ & E) | E]; [lia|]. destruct PX as [PX | PX]; congruence.
        -- exfalso. destruct (KCF (or_intror eq_refl)) as [(_ & E) | E]; [lia|]. destruct PX as [PX | PX]; congruence.
      * split; [left; apply (t_R7z _ _ _ _ _ M P7)|].
        pose proof (pn_stale_new fut eq_refl x X w W0 EW0 ZW1 EX P7 BC ESL). lia.
    + destruct (ST BC w W0 b B0 EW0 ZW1 EB0 HB1 ESL) as (P & L). split; [exact P|]. specialize (F3 (a_sid B0)). lia.
Qed.
End Step.

Lemma hw_plain i a B : holds B = false -> hw c i a B = 0.
Proof. intros H. unfold hw. rewrite H, andb_false_r. reflexivity. Qed.

Lemma entry_noatt r cl pc : entry c r cl = Some pc -> att_pc pc = false /\ sphase pc = false.
Proof. intros He. destruct (entry_plain c _ _ _ He) as (P1 & P2 & _). auto. Qed.

Lemma noatt_noholds B : att_pc (a_pc B) = false -> holds B = false.
Proof. intros Z. destruct (holds B) eqn:H; [|reflexivity]. pose proof (holds_att B H) as E. congruence. Qed.

Lemma zone_sphase B Sh : zone B Sh -> sphase (a_pc B) = true.
Proof. intros [Z | [Z | (Z & _)]]; rewrite Z; reflexivity. Qed.

Theorem pin_mreachN fut s : mreachN c fut s -> PinInv s.
Proof.
  intros RN. induction RN as [|s0 a A cl pc RN IH EA Hpc Hal He FT0|s0 x X o RN IH EX EN M NO NF|s0 a A o RN IH EA M|s0 RN IH].
  - (* initial state *)
    intros _.
    assert (AG : forall a A, get (ags (init fut)) a = Some A -> a_pc A = Idle).
    { intros a A EA. cbn in EA. unfold get in EA. cbn in EA.
      destruct (N.eqb a 0); [injection EA as <-; destruct fut; reflexivity|].
      destruct (N.eqb a 1); [injection EA as <-; destruct fut; reflexivity|discriminate]. }
    split; [|split; [|split; [|split]]].
    + intros a A EA. apply bphase_plain. rewrite (AG a A EA). reflexivity.
    + intros i. cbn. unfold gpin, hw, holds. cbn. destruct fut; cbn; rewrite !andb_false_r; reflexivity.
    + intros _ w W b B EW ZW. exfalso. pose proof (zone_sphase _ _ ZW) as Z. rewrite (AG w W EW) in Z. discriminate Z.
    + intros b B EB [P | P]; rewrite (AG b B EB) in P; discriminate P.
    + intros i T. exfalso. apply T. reflexivity.
  - (* begin_call *)
    intros SM. unfold begin_call in *. destruct SM as [S1 S2]. cbn [ags sh] in *.
    rewrite (len_put_same _ _ _ _ EA) in S1.
    change (g_log (hist (HCall a cl (g_clock (sh s0))) (sh s0))) with (g_log (sh s0)) in S2.
    destruct (IH (conj S1 S2)) as (BP & PC & ST & IT & WR).
    destruct (entry_noatt _ _ _ He) as (NA & NS).
    set (A1 := at_pc pc (withr (set_r_res RNoRes (set_r_call cl (a_r A))) (set_a_notified false A))) in *.
    assert (PA1 : a_pc A1 = pc) by (destruct A; reflexivity).
    assert (HA1 : holds A1 = false) by (apply noatt_noholds; rewrite PA1; exact NA).
    assert (HA0 : holds A = false) by (unfold holds; rewrite Hpc; reflexivity).
    destruct (recv_mreach c fut s0 (mreachN_mreach c fut s0 RN)) as (ND & _).
    assert (OTH : forall b B, get (put (ags s0) a A1) b = Some B -> (b = a /\ B = A1) \/ (b <> a /\ get (ags s0) b = Some B)).
    { intros b B EB. rewrite get_put in EB. destruct (N.eqb b a) eqn:E.
      - left. apply N.eqb_eq in E. injection EB as <-. auto.
      - right. apply N.eqb_neq in E. auto. }
    split; [|split; [|split; [|split]]].
    + intros b B EB. destruct (OTH b B EB) as [(-> & ->) | (_ & EB0)]; [apply bphase_plain; rewrite PA1; exact NA|apply (BP b B EB0)].
    + intros i. cbn [ags sh]. change (gpin (hist (HCall a cl (g_clock (sh s0))) (sh s0)) i) with (gpin (sh s0) i).
      pose proof (sumf_put_in (hw c i) (ags s0) a A A1 ND EA) as SUM.
      rewrite (hw_plain i a A HA0), (hw_plain i a A1 HA1) in SUM. rewrite (PC i). lia.
    + intros BC w W b B EW ZW EB HB ESL. cbn [ags sh] in *.
      assert (ZW' : zone W (sh s0)) by exact ZW.
      destruct (OTH w W EW) as [(-> & ->) | (_ & EW0)].
      * exfalso. pose proof (zone_sphase _ _ ZW) as Z. rewrite PA1 in Z. congruence.
      * destruct (OTH b B EB) as [(-> & ->) | (_ & EB0)]; [congruence|].
        exact (ST BC w W b B EW0 ZW' EB0 HB ESL).
    + intros b B EB PCB. cbn [ags sh] in *.
      change (cells (hist (HCall a cl (g_clock (sh s0))) (sh s0))) with (cells (sh s0)).
      destruct (OTH b B EB) as [(-> & ->) | (_ & EB0)]; [|exact (IT b B EB0 PCB)].
      exfalso. destruct PCB as [P | P]; rewrite PA1 in P; rewrite P in NA; discriminate NA.
    + exact WR.
  - (* micro-step *)
    intros SM'. change (sh (apply1 s0 x o)) with (o_s o).
    pose proof (small_back c Npos Nsmall s0 x X o EX M SM') as SM.
    destruct (IH SM) as (BP & _).
    pose proof (ctl_mreach c fut s0 (mreachN_mreach c fut s0 RN) x X EX) as QX.
    split; [|split; [eapply pn_count; eauto|split; [eapply pn_stale; eauto|split; [eapply pn_intact; eauto|eapply pn_written; eauto]]]].
    intros b B EB.
    destruct (apply1_get _ _ _ _ _ EB) as (B0 & HB & Hsrc).
    assert (W0 : bphase_ok c B0); [|destruct HB as [-> | ->]; [exact W0|apply bphase_notified; exact W0]].
    destruct Hsrc as [(a' & Hn & ->) | [(-> & ->) | (Hne & EB0)]].
    + destruct (micro_new_idle _ _ _ _ _ _ _ M Hn) as (EI & _). apply bphase_plain. rewrite EI. reflexivity.
    + destruct (micro_pin c 0 _ _ _ _ M QX (BP x X EX)) as (B1 & _). exact B1.
    + apply (BP b B0 EB0).
  - (* spurious failure *)
    intros SM'.
    pose proof (mreachN_mreach c fut s0 RN) as R.
    destruct (spur_shape _ _ _ _ M) as (N0 & _ & _ & _ & _ & _ & SHP & _ & EH & EL).
    destruct (spur_win c _ _ _ M) as (WE & _).
    destruct (spur_slot _ _ _ _ M) as (ECELL & _).
    assert (EPIN : pins (o_s o) = pins (sh s0)).
    { clear -M. destruct A as [role alive multi sid tok pc stack R0 notified parked].
      unfold micro_spur, ok in M. cbn in M. destruct pc; try discriminate M.
      - injection M as <-. reflexivity.
      - destruct (r_am R0); [discriminate|]. unfold use_obj, bad, drop_opt, drop_val in M. cbn in M.
        break_hyp M; injection M as <-; reflexivity. }
    assert (SM : SmallW s0).
    { destruct SM' as [S1 S2]. split; [pose proof (apply1_len s0 a o); lia|].
      change (sh (apply1 s0 a o)) with (o_s o) in S2. rewrite EL in S2. exact S2. }
    destruct (IH SM) as (BP & PC & ST & IT & WR).
    destruct WE as (_ & _ & E3 & _ & _ & _ & E7).
    destruct (recv_mreach c fut s0 R) as (ND & _).
    assert (NOK : new_ok s0 a o = true) by (unfold new_ok; rewrite N0; reflexivity).
    assert (HX : holds A = false /\ holds (o_a o) = false /\ att_pc (a_pc (o_a o)) = true \/ holds A = false /\ holds (o_a o) = false).
    { right. unfold holds. destruct SHP as [(P1 & P2) | (P1 & P2)]; rewrite P1, P2; split; reflexivity. }
    assert (HXA : holds A = false /\ holds (o_a o) = false) by (destruct HX as [(H1 & H2 & _) | H]; auto).
    destruct HXA as (HA0 & HA1).
    assert (NZ : forall Sh, ~ zone (o_a o) Sh).
    { intros Sh Z. pose proof (zone_sphase _ _ Z) as ZS. unfold zone in Z. destruct SHP as [(_ & P2) | (_ & P2)]; rewrite P2 in Z.
      - destruct Z as [Z | [Z | (Z & _)]]; discriminate Z.
      - destruct Z as [Z | [Z | (Z & _)]]; discriminate Z. }
    change (sh (apply1 s0 a o)) with (o_s o).
    split; [|split; [|split; [|split]]].
    + intros b B EB.
      destruct (apply1_get _ _ _ _ _ EB) as (B0 & HB & Hsrc).
      assert (W0 : bphase_ok c B0); [|destruct HB as [-> | ->]; [exact W0|apply bphase_notified; exact W0]].
      destruct Hsrc as [(a' & Hn & ->) | [(-> & ->) | (Hne & EB0)]].
      * rewrite N0 in Hn. discriminate Hn.
      * destruct SHP as [(_ & P2) | (_ & P2)].
        -- apply bphase_plain. rewrite P2. reflexivity.
        -- split; intros [Y | [Y | [Y | Y]]]; rewrite P2 in Y; discriminate Y.
      * apply (BP b B0 EB0).
    + intros i. change (sh (apply1 s0 a o)) with (o_s o). unfold gpin. rewrite EPIN. fold (gpin (sh s0) i).
      pose proof (apply1_sumf (hw c i) s0 a o A (hw_notified c i) ND EA NOK) as SUM.
      rewrite N0, (hw_plain i a A HA0), (hw_plain i a (o_a o) HA1) in SUM. rewrite (PC i). lia.
    + intros BC w W b B EW ZW EB HB ESL. change (sh (apply1 s0 a o)) with (o_s o) in *.
      destruct (apply1_get _ _ _ _ _ EW) as (W0 & HW & SRCW).
      destruct (apply1_get _ _ _ _ _ EB) as (B0 & HB0 & SRCB).
      assert (FW : zone W0 (o_s o) /\ r_h (a_r W) = r_h (a_r W0)).
      { destruct HW as [-> | ->]; [auto|]. destruct (holds_notified W0) as (_ & _ & _ & _ & E & _). split; [clear -ZW; destruct W0; exact ZW|exact E]. }
      destruct FW as (ZW0 & EHW). rewrite EHW in ESL.
      assert (FB : holds B0 = true /\ a_pc B = a_pc B0 /\ r_p (a_r B) = r_p (a_r B0) /\ a_sid B = a_sid B0).
      { destruct HB0 as [-> | ->]; [auto|]. destruct (holds_notified B0) as (E0 & E1 & E2 & E3' & _). rewrite E0 in HB. auto. }
      destruct FB as (HB1 & -> & EPB & ->). rewrite EPB in ESL |- *.
      destruct SRCW as [(a' & Hn & ->) | [(-> & ->) | (NW & EW0)]]; [rewrite N0 in Hn; discriminate Hn|exfalso; apply (NZ _ ZW0)|].
      destruct SRCB as [(a' & Hn & ->) | [(-> & ->) | (NB & EB0)]]; [rewrite N0 in Hn; discriminate Hn|congruence|].
      assert (ZW1 : zone W0 (sh s0)) by (unfold zone in *; rewrite EH in ZW0; exact ZW0).
      unfold gpos. rewrite E3. exact (ST BC w W0 b B0 EW0 ZW1 EB0 HB1 ESL).
    + intros b B EB PCB. change (sh (apply1 s0 a o)) with (o_s o). rewrite ECELL.
      destruct (apply1_get _ _ _ _ _ EB) as (B0 & HB0 & SRCB).
      assert (FB : (a_pc B0 = KC \/ a_pc B0 = VK) /\ r_p (a_r B) = r_p (a_r B0) /\ r_tmp (a_r B) = r_tmp (a_r B0)).
      { destruct HB0 as [-> | ->]; [auto|]. destruct (holds_notified B0) as (_ & E1 & E2 & _ & _ & E3'). rewrite E1 in PCB. auto. }
      destruct FB as (PB0 & -> & ->).
      destruct SRCB as [(a' & Hn & ->) | [(-> & ->) | (NB & EB0)]]; [rewrite N0 in Hn; discriminate Hn| |exact (IT b B0 EB0 PB0)].
      exfalso. destruct SHP as [(_ & P2) | (_ & P2)]; destruct PB0 as [P | P]; rewrite P2 in P; discriminate P.
    + intros i T. unfold gtag in T. rewrite E7 in T. rewrite ECELL. apply (WR i T).
  - (* clock tick *)
    intros SM. cbn [ags sh] in *. destruct SM as [S1 S2].
    change (g_log (tick (sh s0))) with (g_log (sh s0)) in S2.
    exact (IH (conj S1 S2)).
Qed.
End PN.
