(* Lifting a predicate that each agent maintains on its own (it depends only on the agent's
   own fields) to all agents of all reachable states. *)
From Coq Require Import NArith List Bool Lia.
Require Import MQ.Arith64 MQ.Types MQ.State MQ.Model MQ.Exec MQ.Reach.
Import ListNotations.
Open Scope N_scope.

Section AgentInv.
Variable c : cfg.
Variable Q : agent -> bool.
Hypothesis Qnotify : forall A b, Q (set_a_notified b A) = Q A.
Hypothesis Qentry : forall A cl pc,
  Q A = true -> a_pc A = Idle -> a_alive A = true -> entry c (a_role A) cl = Some pc ->
  Q (at_pc pc (withr (set_r_res RNoRes (set_r_call cl (a_r A))) (set_a_notified false A))) = true.
Hypothesis Qmicro : forall me A S o,
  micro c me A S = Some o -> Q A = true ->
  Q (o_a o) = true /\ (forall a' A', o_new o = Some (a', A') -> Q A' = true).
Hypothesis Qspur : forall A S o,
  micro_spur c A S = Some o -> Q A = true -> Q (o_a o) = true /\ o_new o = None.
Hypothesis Qinit : forall fut a A, get (ags (init fut)) a = Some A -> Q A = true.

Definition AllQ (s : state) : Prop := forall a A, get (ags s) a = Some A -> Q A = true.

Lemma allq_apply1 s a A o :
  AllQ s -> get (ags s) a = Some A -> Q (o_a o) = true ->
  (forall a' A', o_new o = Some (a', A') -> Q A' = true) -> AllQ (apply1 s a o).
Proof.
  intros I EA Q1 Q2 b B EB.
  unfold apply1 in EB. cbn [ags] in EB. rewrite get_notify_all in EB.
  destruct (o_new o) as [[a' A']|] eqn:EN.
  - rewrite get_put in EB. destruct (N.eqb b a') eqn:E1.
    + injection EB as <-. destruct (memN b (o_ntf o)); [rewrite Qnotify|]; eauto.
    + rewrite get_put in EB. destruct (N.eqb b a) eqn:E2.
      * injection EB as <-. destruct (memN b (o_ntf o)); [rewrite Qnotify|]; eauto.
      * destruct (get (ags s) b) as [B0|] eqn:EB0; [|discriminate].
        injection EB as <-. destruct (memN b (o_ntf o)); [rewrite Qnotify|]; eauto.
  - rewrite get_put in EB. destruct (N.eqb b a) eqn:E2.
    + injection EB as <-. destruct (memN b (o_ntf o)); [rewrite Qnotify|]; eauto.
    + destruct (get (ags s) b) as [B0|] eqn:EB0; [|discriminate].
      injection EB as <-. destruct (memN b (o_ntf o)); [rewrite Qnotify|]; eauto.
Qed.

Theorem agents_minv fut s : mreach c fut s -> AllQ s.
Proof.
  apply mreach_inv.
  - intros s0 a A cl pc I EA Hpc Hal He _ b B EB.
    unfold begin_call in EB. cbn [ags] in EB. rewrite get_put in EB.
    destruct (N.eqb b a) eqn:E.
    + injection EB as <-. apply Qentry; auto. eapply I; eauto.
    + eapply I; eauto.
  - intros s0 a A o I EA _ M NO.
    destruct (Qmicro _ _ _ _ M (I _ _ EA)) as [Q1 Q2]. eapply allq_apply1; eauto.
  - intros s0 a A o I EA M.
    destruct (Qspur _ _ _ M (I _ _ EA)) as [Q1 Q2].
    eapply allq_apply1; eauto. intros a' A' X. rewrite Q2 in X. discriminate.
  - intros s0 I. exact I.
  - intros a A. apply Qinit.
Qed.

Theorem agents_inv fut s : reach c fut s -> AllQ s.
Proof. intros R. apply (agents_minv fut). now apply reach_mreach. Qed.
End AgentInv.
