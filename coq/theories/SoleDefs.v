(* When a receiver handle behaves as the only consumer of its stream (I8, receiver half). *)
From Coq Require Import NArith List Bool Lia.
Require Import MQ.Arith64 MQ.Types MQ.State MQ.Model MQ.Exec MQ.Reach MQ.Ctl MQ.Count MQ.RecvDefs.
Import ListNotations.
Open Scope N_scope.

Definition uni_role (r : role) : bool := match r with RUni | RFUni => true | _ => false end.

(* inside one receive attempt, after "am I the only consumer" was read (R3); R1n, R2n load the position *)
Definition in_att (pc : pcl) : bool :=
  match pc with
  | R1n | R2n | R4 | R5 | R6 | R6b | R7 | R8 | R9 | R10 | KC | R11 | R12 => true
  | _ => false
  end.

(* the in-place view path of a receive attempt *)
Definition in_view (pc : pcl) : bool :=
  match pc with V1 | V5 | V6 | VK | V4 => true | _ => false end.

(* the handle acts as if no other handle of its stream existed *)
Definition claims_sole (A : agent) : bool :=
  w_h (a_sid A) A
  && (negb (a_multi A) || uni_role (a_role A) || (in_att (a_pc A) && r_single (a_r A))).

(* single-consumer receivers never clone *)
Definition uni_ok (A : agent) : bool :=
  negb (uni_role (a_role A))
  || match topc A with RC0 | RC1 | FI0 | FI1 | IS0 => false | _ => true end.

(* the attempt mode is the handle mode; view calls run on single-consumer receivers *)
Definition is_viewc (cl : call) : bool := match cl with CTryView | CView => true | _ => false end.

Definition after_r2 (pc : pcl) : bool := match pc with R1n | R2n => false | _ => in_att pc || in_view pc end.

Definition att_ok (A : agent) : bool :=
  (negb (after_r2 (a_pc A)) || negb (r_am (a_r A)) || negb (a_multi A))
  && (negb (is_viewc (r_call (a_r A))) || uni_role (a_role A))
  && (negb (in_view (a_pc A)) || uni_role (a_role A)).

Definition ra_ok (A : agent) : bool := uni_ok A && att_ok A.

Lemma ra_notified A b : ra_ok (set_a_notified b A) = ra_ok A.
Proof. destruct A; reflexivity. Qed.

Lemma claims_notified A b : claims_sole (set_a_notified b A) = claims_sole A /\ a_sid (set_a_notified b A) = a_sid A.
Proof. destruct A; split; reflexivity. Qed.
