(* Case analysis for "no call panics": which steps set the result to a panic. *)
From Coq Require Import NArith List Bool Lia.
Require Import MQ.Arith64 MQ.Arith64Facts MQ.Types MQ.State MQ.Model MQ.Exec MQ.Reach MQ.Ctl MQ.Count MQ.WritersStep.
Import ListNotations.
Open Scope N_scope.

Definition panicked (r : res) : bool := match r with RPanic => true | _ => false end.

Lemma micro_panic c me A S o :
  micro c me A S = Some o -> ctl_ok A = true -> panicked (r_res (a_r (o_a o))) = true ->
  panicked (r_res (a_r A)) = true \/
  (a_pc A = P3pre /\ r_none (a_r A) = true) \/
  ((a_pc A = R12 \/ a_pc A = V4) /\ r_val (a_r A) = None /\
   (a_pc A = R12 -> r_am (a_r A) = true \/ gpos S (a_sid A) = r_p (a_r A))).
Proof.
  intros H Q. destruct A as [role alive multi sid tok pc stack R notified parked].
  destruct pc; micro_cases H; cbn [o_a o_s]; pre_case Q Q1 Q2 Q3; try split_frame Q1 Q2; cbn;
    intros X; eqb_hyps;
    first [ discriminate X
          | solve [left; exact X]
          | solve [right; left; split; [reflexivity|assumption]]
          | solve [right; right; split; [left; reflexivity|split; [assumption|intros _; left; assumption]]]
          | solve [right; right; split; [left; reflexivity|split; [assumption|intros _; right; assumption]]]
          | solve [right; right; split; [right; reflexivity|split; [assumption|intros Y; discriminate Y]]]
          | idtac ].
Qed.
