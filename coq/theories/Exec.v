(* Running the model: folds of step over label sequences, and the small
   observers the OCaml driver and the in-Coq cross-evaluation use. Definitions only. *)
From Coq Require Import NArith List Bool.
Require Import MQ.Arith64 MQ.Types MQ.State MQ.Model.
Import ListNotations.
Open Scope N_scope.

Definition can_step (s : state) (a : N) : bool :=
  match get (ags s) a with Some A => enabled a A (sh s) | None => false end.

Definition is_idle (s : state) (a : N) : bool :=
  match get (ags s) a with
  | Some A => match a_pc A with Idle => a_alive A | _ => false end
  | None => false
  end.

Definition at_weak_cas (s : state) (a : N) : bool :=
  match get (ags s) a with
  | Some A => match a_pc A with M5 => true | R12 => negb (r_am (a_r A)) | _ => false end
  | None => false
  end.

Definition pc_of (s : state) (a : N) : pcl :=
  match get (ags s) a with Some A => a_pc A | None => Done end.

(* run a label sequence; stops at the first label that is not enabled *)
Fixpoint run (c : cfg) (s : state) (ls : list label) : state * list (list ev) :=
  match ls with
  | [] => (s, [])
  | l :: ls' =>
      match stepx c s l with
      | Some (s', e) => let (s'', es) := run c s' ls' in (s'', e :: es)
      | None => (s, [])
      end
  end.

Definition reach_by (c : cfg) (fut : bool) (ls : list label) : state := fst (run c (init fut) ls).
