(* C02: the claim events of the call history are the claim log, in order, each with its position. *)
From Coq Require Import NArith List Bool Lia.
Require Import MQ.Arith64 MQ.Arith64Facts MQ.Types MQ.State MQ.Model MQ.Exec MQ.Reach MQ.Fields MQ.Ctl MQ.Count
  MQ.WritersStep MQ.InvWriters MQ.HeadStep MQ.InvHead MQ.RecvDefs MQ.RecvStep MQ.InvRecv MQ.HistStepA.
Import ListNotations.
Open Scope N_scope.

(* the log with its positions, newest first *)
Fixpoint numbered (l : list N) (k : N) : list (N * N) :=
  match l with
  | [] => []
  | x :: l' => numbered l' (k + 1) ++ [(x, k)]
  end.

Lemma numbered_snoc l : forall k x, numbered (l ++ [x]) k = (x, k + lenN l) :: numbered l k.
Proof.
  induction l as [|y l IH]; intros k x.
  - cbn. unfold lenN. cbn. rewrite N.add_0_r. reflexivity.
  - cbn [app numbered]. rewrite IH. cbn [app]. f_equal. f_equal. unfold lenN. cbn [length]. lia.
Qed.

Definition HistInv (s : state) : Prop :=
  lenN (ags s) < B62 -> lenN (g_log (sh s)) < B62 -> hclaims (g_hist (sh s)) = numbered (g_log (sh s)) 0.

Theorem hist_mreach c fut s : mreach c fut s -> HistInv s.
Proof.
  apply mreach_inv2.
  - intros s0 a A cl pc R I EA Hpc Hal He _ S1 S2. unfold begin_call in *. cbn [ags sh] in *.
    rewrite (len_put_same _ _ _ _ EA) in S1.
    change (g_log (hist (HCall a cl (g_clock (sh s0))) (sh s0))) with (g_log (sh s0)) in *.
    change (hclaims (g_hist (hist (HCall a cl (g_clock (sh s0))) (sh s0)))) with (hclaims (g_hist (sh s0))).
    exact (I S1 S2).
  - intros s0 x X o R I EX _ M NO S1 S2. change (sh (apply1 s0 x o)) with (o_s o) in *.
    assert (S1' : lenN (ags s0) < B62) by (pose proof (apply1_len s0 x o); lia).
    destruct (micro_hclaims _ _ _ _ _ M) as [(E1 & E2) | (CL & E1 & E2)].
    + rewrite E1, E2. rewrite E2 in S2. exact (I S1' S2).
    + rewrite E2 in S2. assert (S2' : lenN (g_log (sh s0)) < B62).
      { unfold lenN in *. rewrite app_length in S2. lia. }
      rewrite E1, E2, numbered_snoc, (I S1' S2'). f_equal. f_equal.
      destruct (head_mreach c fut s0 R S1') as [HLX HC]. unfold head_counts_log in HC.
      rewrite N.mod_small in HC by (unfold MASK_IND, B62 in *; lia).
      destruct CL as [PC | (PC & EH)].
      * assert (PX : pp_pc (a_pc X) (a_stack X) = true) by (rewrite PC; reflexivity).
        rewrite (HLX x X EX PX). lia.
      * rewrite <- EH. lia.
  - intros s0 a A o R I EA M S1 S2. change (sh (apply1 s0 a o)) with (o_s o) in *.
    destruct (spur_shape _ _ _ _ M) as (_ & _ & _ & _ & _ & _ & _ & _ & _ & EL).
    assert (S1' : lenN (ags s0) < B62) by (pose proof (apply1_len s0 a o); lia).
    assert (EHI : hclaims (g_hist (o_s o)) = hclaims (g_hist (sh s0))).
    { clear -M. destruct A as [role alive multi sid tok pc stack R0 notified parked].
      unfold micro_spur, ok in M. cbn in M. destruct pc; try discriminate M.
      - injection M as <-. reflexivity.
      - destruct (r_am R0); [discriminate|]. unfold use_obj, bad, drop_opt, drop_val in M. cbn in M.
        break_hyp M; injection M as <-; reflexivity. }
    rewrite EHI, EL. rewrite EL in S2. exact (I S1' S2).
  - intros s0 R I S1 S2. exact (I S1 S2).
  - intros _ _. reflexivity.
Qed.

(* positions in the history increase with time: an older claim has the smaller position *)
Lemma numbered_sorted l : forall k v p, In (v, p) (numbered l k) -> k <= p /\ p < k + lenN l.
Proof.
  induction l as [|x l IH]; intros k v p IN; [destruct IN|].
  cbn [numbered] in IN. apply in_app_or in IN as [IN | [IN | []]].
  - destruct (IH _ _ _ IN) as (L1 & L2). unfold lenN in *. cbn [length]. lia.
  - injection IN as <- <-. unfold lenN. cbn [length]. lia.
Qed.

(* oldest first *)
Fixpoint numbered_up (l : list N) (k : N) : list (N * N) :=
  match l with
  | [] => []
  | x :: l' => (x, k) :: numbered_up l' (k + 1)
  end.

Lemma rev_numbered l : forall k, rev (numbered l k) = numbered_up l k.
Proof.
  induction l as [|x l IH]; intros k; [reflexivity|].
  cbn [numbered numbered_up]. rewrite rev_app_distr. cbn [rev app]. rewrite IH. reflexivity.
Qed.

Lemma nth_numbered_up l : forall k i v p,
  nth_error (numbered_up l k) i = Some (v, p) -> p = k + N.of_nat i /\ nth_error l i = Some v.
Proof.
  induction l as [|x l IH]; intros k i v p H; [destruct i; discriminate H|].
  destruct i as [|i]; cbn in H |- *.
  - injection H as <- <-. split; [lia|reflexivity].
  - destruct (IH _ _ _ _ H) as (E1 & E2). split; [lia|exact E2].
Qed.

(* the i-th claim event of the history (oldest first) is the claim of position i with the i-th value of the log *)
Theorem history_claims_are_the_log c fut s i v p :
  mreach c fut s -> lenN (ags s) < B62 -> lenN (g_log (sh s)) < B62 ->
  nth_error (rev (hclaims (g_hist (sh s)))) i = Some (v, p) ->
  p = N.of_nat i /\ nth_error (g_log (sh s)) i = Some v.
Proof.
  intros R S1 S2 H. rewrite (hist_mreach c fut s R S1 S2), rev_numbered in H.
  destruct (nth_numbered_up _ _ _ _ _ H) as (E1 & E2). split; [lia|exact E2].
Qed.
