(* C13: when every receiver handle is gone and no call is in progress, the no-reader flag is set. *)
From Coq Require Import NArith List Bool Lia.
Require Import MQ.Arith64 MQ.Arith64Facts MQ.Types MQ.State MQ.Model MQ.Exec MQ.Reach MQ.Ctl MQ.Count MQ.SumCount
  MQ.RecvDefs MQ.RecvStep MQ.InvRecv MQ.InvReg MQ.SigStep MQ.SigStepB MQ.InvEmpty MQ.WinDefs MQ.InvWin MQ.HoldStepB MQ.InvHold.
Import ListNotations.
Open Scope N_scope.

(* nobody is in the middle of a call, and no receiver handle is alive *)
Definition receivers_gone (s : state) : Prop :=
  forall a A, get (ags s) a = Some A ->
    (a_pc A = Idle \/ a_pc A = Done) /\ (recv_role (a_role A) = true -> a_alive A = false).

Theorem all_gone_flag c fut s :
  0 < c_n c -> c_n c <= B61 -> mreachN c fut s -> SmallW s -> receivers_gone s -> no_reader (sh s) = true.
Proof.
  intros Np Ns RN SM RG. pose proof (mreachN_mreach c fut s RN) as R.
  assert (TOP : forall a A, get (ags s) a = Some A -> topc A = Idle \/ topc A = Done).
  { intros a A EA. destruct (RG a A EA) as (PC & _). pose proof (ctl_mreach c fut s R a A EA) as Q.
    clear -PC Q. destruct A as [role alive multi sid tok pc stack R0 notified parked]. cbn in PC.
    unfold ctl_ok in Q. unfold topc. cbn in Q |- *.
    destruct PC as [-> | ->]; cbn in Q; (destruct stack; [cbn; auto|cbn in Q; discriminate Q]). }
  assert (NOW : forall sg a A, get (ags s) a = Some A -> wt sg a A = 0).
  { intros sg a A EA. destruct (RG a A EA) as (_ & AL). destruct (TOP a A EA) as [T | T];
      unfold wt, w_h, w_c, w_n; rewrite T; cbn; rewrite ?andb_false_r; cbn;
      destruct (recv_role (a_role A)) eqn:RR; cbn; try reflexivity; rewrite (AL eq_refl); reflexivity. }
  assert (NOL : forall sg a A, get (ags s) a = Some A -> lastp sg A = false).
  { intros sg a A EA. unfold lastp. destruct (TOP a A EA) as [T | T]; rewrite T; apply andb_false_r. }
  assert (NOD : forall a A, get (ags s) a = Some A -> dph A = false).
  { intros a A EA. unfold dph. destruct (TOP a A EA) as [T | T]; rewrite T; reflexivity. }
  assert (EM : streams (sh s) = []).
  { destruct (streams (sh s)) as [|sg l] eqn:ES; [reflexivity|]. exfalso.
    assert (IN : In sg (streams (sh s))) by (rewrite ES; left; reflexivity).
    destruct (hold_mreachN c Np Ns fut s RN SM sg IN) as [L | (a & A & EA & LA)].
    - destruct (recv_mreach c fut s R) as (ND & _).
      rewrite (sumf_zero (wt sg) (ags s) (NOW sg) ND) in L. lia.
    - rewrite (NOL sg a A EA) in LA. discriminate LA. }
  destruct (empty_mreach c fut s R EM) as [F | (a & A & EA & DA)]; [exact F|].
  rewrite (NOD a A EA) in DA. discriminate DA.
Qed.
