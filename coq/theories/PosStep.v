(* Case analysis: which steps write a stream cursor, and what they write. *)
From Coq Require Import NArith List Bool Lia.
Require Import MQ.Arith64 MQ.Arith64Facts MQ.Types MQ.State MQ.Model MQ.Exec MQ.Reach MQ.Ctl MQ.Count MQ.WritersStep MQ.RecvDefs MQ.RecvStep MQ.SoleDefs.
Import ListNotations.
Open Scope N_scope.

Definition P_same (sg : N) (S : shared) (o : out) : Prop := gpos (o_s o) sg = gpos S sg.
(* a consumer of the stream commits its attempt *)
Definition P_commit (sg : N) (A : agent) (S : shared) (o : out) : Prop :=
  a_sid A = sg /\ (a_pc A = R12 \/ a_pc A = V4) /\
  gpos (o_s o) sg = next_count (r_p (a_r A)) /\
  ((a_pc A = R12 /\ r_am (a_r A) = false) -> gpos S sg = r_p (a_r A)).
(* a new stream is initialised with the cursor of its parent *)
Definition P_init (sg : N) (A : agent) (S : shared) (o : out) : Prop :=
  a_pc A = A2 /\ sg = nsid S /\ gpos (o_s o) sg = gpos S (a_sid A).

Lemma micro_pos sg c me A S o :
  micro c me A S = Some o -> P_same sg S o \/ P_commit sg A S o \/ P_init sg A S o.
Proof.
  intros H. destruct A as [role alive multi sid tok pc stack R notified parked].
  unfold P_same, P_commit, P_init, gpos.
  destruct pc; micro_cases H; cbn [o_s]; cbn; rewrite ?getd_put;
    first [ solve [left; reflexivity]
          | eqb_split; eqb_hyps; subst;
            first [ solve [left; reflexivity]
                  | solve [right; left; repeat split; auto; intros [? ?]; congruence]
                  | solve [right; right; repeat split; auto] ] ].
Qed.

(* the register that holds the attempt position is loaded from the cursor *)
Definition pos_loaded (A : agent) (S : shared) (o : out) : Prop :=
  r_p (a_r (o_a o)) = r_p (a_r A) \/ r_p (a_r (o_a o)) = gpos S (a_sid A).

Lemma micro_rp c me A S o : micro c me A S = Some o -> pos_loaded A S o.
Proof.
  intros H. destruct A as [role alive multi sid tok pc stack R notified parked].
  unfold pos_loaded, gpos.
  destruct pc; micro_cases H; cbn [o_a]; unfold popret; cbn;
    first [ solve [left; reflexivity] | solve [right; reflexivity]
          | destruct stack; cbn; first [ solve [left; reflexivity] | solve [right; reflexivity] ] ].
Qed.
