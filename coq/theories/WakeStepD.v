(* Case analysis for C08: the writers count reaches zero only by a sender's drop. *)
From Coq Require Import NArith List Bool Lia.
Require Import MQ.Arith64 MQ.Arith64Facts MQ.Types MQ.State MQ.Model MQ.Exec MQ.Reach MQ.Ctl MQ.Count MQ.WritersStep
  MQ.RecvDefs MQ.RecvStep.
Import ListNotations.
Open Scope N_scope.

Lemma micro_wchange c me A S o :
  micro c me A S = Some o ->
  writers (o_s o) = writers S \/ a_pc A = SD0 \/ writers (o_s o) = wadd (writers S) 1.
Proof.
  intros H. destruct A as [role alive multi sid tok pc stack R notified parked].
  destruct pc; micro_cases H; cbn [o_s]; unfold deliver, unlock; cbn;
    first [ solve [left; reflexivity] | solve [right; left; reflexivity] | solve [right; right; reflexivity]
          | destruct (r_val R); cbn; solve [left; reflexivity] ].
Qed.
