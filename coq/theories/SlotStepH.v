(* Case analysis for C07: a consumer is at the re-check of the end test only after it has seen no sender left. *)
From Coq Require Import NArith List Bool Lia.
Require Import MQ.Arith64 MQ.Arith64Facts MQ.Types MQ.State MQ.Model MQ.Exec MQ.Reach MQ.Ctl MQ.Count MQ.WritersStep
  MQ.RecvDefs MQ.RecvStep.
Import ListNotations.
Open Scope N_scope.

Definition zphase (pc : pcl) : bool := match pc with R6 | R6b | V6 => true | _ => false end.

Lemma micro_zphase c me A S o :
  micro c me A S = Some o -> ctl_ok A = true -> zphase (a_pc (o_a o)) = true ->
  a_sid (o_a o) = a_sid A /\ r_p (a_r (o_a o)) = r_p (a_r A) /\
  ((a_pc A = R5 \/ a_pc A = V5) /\ writers S = 0 /\ a_pc (o_a o) <> R6b \/
   (a_pc A = R6 /\ a_pc (o_a o) = R6b /\ r_single (a_r A) = false /\ rm_tag (gtag S (sl c (r_p (a_r A)))) <> r_p (a_r A))).
Proof.
  intros H Q. destruct A as [role alive multi sid tok pc stack R notified parked].
  unfold gtag.
  destruct pc; micro_cases H; cbn [o_a]; pre_case Q Q1 Q2 Q3; eqb_hyps;
    first [ solve [intros X; discriminate X]
          | solve [intros _; split; [reflexivity|split; [reflexivity|left; split; [first [left; reflexivity|right; reflexivity]|split; [assumption|discriminate]]]]]
          | solve [intros _; split; [reflexivity|split; [reflexivity|right; repeat split; auto]]]
          | try split_frame Q1 Q2;
            first [ solve [intros X; discriminate X] ] ].
Qed.
