(* Ownership of an overwritten value (C05): the value a send is about to overwrite - and will drop after publishing -
   is the claim-log entry of an older position that every registered stream has already consumed. *)
From Coq Require Import NArith List Bool Lia.
Require Import MQ.Arith64 MQ.Arith64Facts MQ.Types MQ.State MQ.Model MQ.Exec MQ.Reach MQ.Fields MQ.Ctl MQ.Count MQ.SumCount
  MQ.WritersStep MQ.InvWriters MQ.RecvDefs MQ.InvReg MQ.WinStep MQ.WinDefs MQ.InvWin MQ.SlotDefs MQ.InvSlot.
Import ListNotations.
Open Scope N_scope.

Section OW.
Variable c : cfg.
Notation N := (c_n c).
Hypothesis Npos : 0 < N.
Hypothesis Nsmall : N <= B61.

Theorem overwritten_is_consumed fut s a A :
  mreachN c fut s -> lenN (ags s) < B62 -> lenN (g_log (sh s)) < B62 ->
  get (ags s) a = Some A -> a_pc A = P6 ->
  let i := sl c (r_h (a_r A)) in
  let q := gtag (sh s) i in
  q <> INITIAL_QUEUE_FLAG ->
  q + N <= r_h (a_r A) /\
  get (cells (sh s)) i = logat (sh s) q /\ logat (sh s) q <> None /\
  forall sg, In sg (streams (sh s)) -> q < gpos (sh s) sg.
Proof.
  intros RN S1 S2 EA PC i q T1.
  assert (SM : SmallW s) by (split; assumption).
  destruct (win_mreachN c Npos Nsmall fut s RN SM) as (G & _).
  destruct (slot_mreachN c Npos Nsmall fut s RN SM) as (SG & SA & CO & DI).
  destruct (SA a A EA) as (WA & _).
  assert (PW : wip (a_pc A) = true) by (rewrite PC; reflexivity).
  destruct (WA PW) as (HH & _ & TL & TU & _ & TG & _).
  fold i in TG. fold q in TG. destruct TG as [TG | TG]; [contradiction|].
  pose proof (sg_own c _ SG i T1) as OWN. fold q in OWN. unfold i, sl in OWN.
  assert (QN : q + N <= r_h (a_r A)).
  { destruct (N.lt_ge_cases (r_h (a_r A)) (q + N)) as [LT | GE]; [exfalso|exact GE].
    assert (E : q = r_h (a_r A)); [|lia].
    apply (slot_window q q (r_h (a_r A)) N Npos); try lia; try exact OWN. }
  split; [exact QN|].
  assert (NOP7 : forall b B, get (ags s) b = Some B -> a_pc B = P7 -> sl c (r_h (a_r B)) <> i).
  { intros b B EB P7B ESL. destruct (SA b B EB) as (WB & _).
    assert (PWB : wip (a_pc B) = true) by (rewrite P7B; reflexivity).
    destruct (WB PWB) as (_ & _ & TLB & TUB & _).
    assert (EH : r_h (a_r B) = r_h (a_r A)).
    { unfold i, sl in ESL. apply (slot_window (tailc (sh s)) _ _ N Npos); try lia; try exact ESL. }
    destruct (N.eq_dec b a) as [-> | NE].
    - rewrite EA in EB. injection EB as <-. rewrite PC in P7B. discriminate P7B.
    - apply (DI b a B A NE EB EA PWB PW). exact EH. }
  destruct (CO i T1 NOP7) as (C1 & C2). fold q in C1.
  split; [symmetry; exact C1|]. split; [rewrite C1; exact C2|].
  intros sg IN. pose proof (w_tail_le_cursor c _ G sg IN) as W1. lia.
Qed.
End OW.

Ltac one_pc H E :=
  match type of H with micro _ _ ?A _ = _ =>
    destruct A as [role alive multi sid tok pc stack R notified parked]; cbn in E; subst pc; micro_cases H end.

(* the send remembers the value it overwrites (broadcast flavour: the slot was written before) and drops nothing yet *)
Lemma own_P6 c me A S o : micro c me A S = Some o -> a_pc A = P6 ->
  let i := sl c (r_h (a_r A)) in
  r_old (a_r (o_a o)) = (if is_bcast c && negb (is_tagged (gtag S i)) then get (cells S) i else None) /\
  g_drops (o_s o) = g_drops S.
Proof.
  intros H E. one_pc H E; cbn; try (match goal with Q : (_ && _) = _ |- _ => rewrite Q end); split; reflexivity.
Qed.

(* after publishing the new tag it drops exactly that value, once *)
Lemma own_P7 c me A S o : micro c me A S = Some o -> a_pc A = P7 ->
  g_drops (o_s o) = match r_old (a_r A) with
                    | Some ser => put (g_drops S) ser (gdrops S ser + 1)
                    | None => g_drops S
                    end /\
  r_old (a_r (o_a o)) = None.
Proof.
  intros H E. one_pc H E; cbn; try (match goal with Q : r_old _ = _ |- _ => rewrite Q end); split; reflexivity.
Qed.

(* back in the caller, a refused value is dropped there, once; an accepted one is not touched *)
Lemma own_TSfin c me A S o : micro c me A S = Some o -> a_pc A = TSfin ->
  g_drops (o_s o) = match r_res (a_r A) with
                    | RFull ser | RDisc ser => put (g_drops S) ser (gdrops S ser + 1)
                    | _ => g_drops S
                    end.
Proof.
  intros H E. one_pc H E; cbn; try (match goal with Q : r_res _ = _ |- _ => rewrite Q end); reflexivity.
Qed.
