(* Case analysis: which stream identifiers an agent knows, and how that set moves (InvRecv.v). *)
From Coq Require Import NArith List Bool Lia.
Require Import MQ.Arith64 MQ.Arith64Facts MQ.Types MQ.State MQ.Model MQ.Exec MQ.Reach MQ.Ctl MQ.Count MQ.WritersStep MQ.RecvDefs.
Import ListNotations.
Open Scope N_scope.

(* the agent's own stream, and the stream it is creating *)
Definition kn (A : agent) (sg : N) : bool :=
  (a_sid A =? sg) || (nphase A && (r_ns (a_r A) =? sg)).

Lemma kn_notified A b sg : kn (set_a_notified b A) sg = kn A sg.
Proof. destruct A; reflexivity. Qed.

Lemma micro_known sg c me A S o :
  micro c me A S = Some o -> ctl_ok A = true ->
  (kn (o_a o) sg = true -> kn A sg = true \/ (a_pc A = A2 /\ sg = nsid S)) /\
  (nphase (o_a o) = true ->
     (nphase A = true /\ r_ns (a_r (o_a o)) = r_ns (a_r A)) \/ (a_pc A = A2 /\ r_ns (a_r (o_a o)) = nsid S)) /\
  (forall a' A', o_new o = Some (a', A') ->
     nphase A' = false /\
     (a_sid A' = a_sid A \/ a_sid A' = 0 \/ (a_sid A' = r_ns (a_r A) /\ nphase A = true /\ nphase (o_a o) = false))).
Proof.
  intros H Q. destruct A as [role alive multi sid tok pc stack R notified parked].
  unfold kn, nphase, topc.
  destruct pc; micro_cases H; cbn [o_a o_new o_s];
    pre_case Q Q1 Q2 Q3;
    (split; [|split; [|let an := fresh "an" in let An := fresh "An" in let X := fresh "X" in
                       intros an An X; try discriminate X; injection X as <- <-; cbn]]);
    first [ solve [auto] | solve [intros X; left; exact X] | solve [intros X; left; split; [exact X|reflexivity]]
          | solve [intros X; discriminate X]
          | try split_frame Q1 Q2;
            first [ solve [auto] | solve [intros X; left; exact X] | solve [intros X; left; split; [exact X|reflexivity]]
                  | solve [intros X; discriminate X]
                  | split_call Q2;
                    first [ solve [auto] | solve [intros X; left; exact X]
                          | solve [intros X; left; split; [exact X|reflexivity]]
                          | solve [intros X; discriminate X]
                          | solve [intros X; right; split; [reflexivity|]; apply orb_prop in X as [X|X]; [|discriminate X]; now apply N.eqb_eq in X]
                          | solve [intros X; right; split; reflexivity]
                          | solve [split; [reflexivity|]; left; reflexivity]
                          | solve [split; [reflexivity|]; right; left; reflexivity]
                          | solve [split; [reflexivity|]; right; right; repeat split; reflexivity]
                          | solve [intros X; apply orb_prop in X as [X|X];
                                   [left; rewrite X; reflexivity
                                   |right; split; [reflexivity|]; apply N.eqb_eq in X; symmetry; exact X]]
                          | solve [intros X; left; rewrite orb_false_r in X; rewrite X; reflexivity]
                          | solve [intros X; left; rewrite X; reflexivity]
                          | solve [intros X; left; rewrite orb_false_r in X; rewrite X; apply orb_true_r] ] ] ].
Qed.
