(* Lost wake-ups of the blocking wait (C08): definitions. *)
From Coq Require Import NArith List Bool Lia.
Require Import MQ.Arith64 MQ.Types MQ.State MQ.Model MQ.Exec MQ.Reach MQ.Ctl MQ.RecvDefs.
Import ListNotations.
Open Scope N_scope.

(* checking the wait condition while holding the wait mutex, on the way to the condition-variable wait *)
Definition bchk (A : agent) : bool :=
  match a_pc A with
  | C1 | C2 => match a_stack A with B1c :: _ => true | _ => false end
  | _ => false
  end.

(* holds the wait mutex *)
Definition holder (A : agent) : bool :=
  bchk A || match a_pc A with B1c | B2 | N2 => true | _ => false end.

(* the wait condition of a consumer, on the current state of its slot *)
Definition wcond (A : agent) (S : shared) : bool :=
  wait_check (r_cnt (a_r A)) (gtag S (r_slot (a_r A))) (writers S).
