(* Case analysis for C08: who takes and who releases the wait mutex. *)
From Coq Require Import NArith List Bool Lia.
Require Import MQ.Arith64 MQ.Arith64Facts MQ.Types MQ.State MQ.Model MQ.Exec MQ.Reach MQ.Ctl MQ.Count MQ.WritersStep
  MQ.RecvDefs MQ.RecvStep.
Import ListNotations.
Open Scope N_scope.

Lemma micro_bwlock c me A S o :
  micro c me A S = Some o ->
  bw_lock (o_s o) = bw_lock S \/
  ((a_pc A = B1 \/ a_pc A = N1) /\ bw_lock (o_s o) = Some me) \/
  ((a_pc A = B1c \/ a_pc A = B2 \/ a_pc A = N2) /\ bw_lock (o_s o) = None).
Proof.
  intros H. destruct A as [role alive multi sid tok pc stack R notified parked].
  destruct pc; micro_cases H; cbn [o_s]; unfold deliver, unlock; cbn;
    first [ solve [left; reflexivity]
          | solve [right; left; split; [auto|reflexivity]]
          | solve [right; right; split; [auto|reflexivity]]
          | destruct (r_val R); cbn; solve [left; reflexivity] ].
Qed.

Lemma micro_sleepers c me A S o :
  micro c me A S = Some o ->
  (sleepers (o_s o) = sleepers S /\ (woken (o_s o) = woken S \/ (a_pc A = B2w /\ woken (o_s o) = removeN me (woken S)))) \/
  (a_pc A = B2 /\ sleepers (o_s o) = sleepers S ++ [me] /\ woken (o_s o) = woken S) \/
  (a_pc A = N2 /\ sleepers (o_s o) = [] /\ woken (o_s o) = woken S ++ sleepers S).
Proof.
  intros H. destruct A as [role alive multi sid tok pc stack R notified parked].
  destruct pc; micro_cases H; cbn [o_s]; unfold deliver, unlock; cbn;
    first [ solve [left; split; [reflexivity|left; reflexivity]]
          | solve [left; split; [reflexivity|right; split; reflexivity]]
          | solve [right; left; repeat split; reflexivity]
          | solve [right; right; repeat split; reflexivity]
          | destruct (r_val R); cbn; solve [left; split; [reflexivity|left; reflexivity]] ].
Qed.
