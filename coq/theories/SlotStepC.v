(* Case analysis for the slot invariant: the scan distance of get_max_diff has a witness. *)
From Coq Require Import NArith List Bool Lia.
Require Import MQ.Arith64 MQ.Arith64Facts MQ.Types MQ.State MQ.Model MQ.Exec MQ.Reach MQ.Ctl MQ.Count MQ.WritersStep
  MQ.RecvDefs MQ.RecvStep MQ.InvReg MQ.WinStep MQ.WinDefs MQ.SlotDefs.
Import ListNotations.
Open Scope N_scope.

Ltac wit_fin HB GB W :=
  unfold W2 in *; cbn; unfold gmd_next; cbn;
  first [ exact I
        | exact W
        | solve [intros X; discriminate X]
        | solve [intros _; right; intros X; discriminate X]
        | solve [intros _; right; unfold Model.n; lia]
        | solve [cbn in W; intros X; specialize (W X); destruct W as [W|W]; [exact W|contradiction]]
        | idtac ].

Lemma micro_wit c me A S o :
  micro c me A S = Some o -> ctl_ok A = true -> r_h (a_r A) < B62 -> (forall g, gpos S g < B62) ->
  wita c S A -> wita c S (o_a o).
Proof.
  intros H Q HB GB W. destruct A as [role alive multi sid tok pc stack R notified parked]. unfold wita in *.
  cbn in HB.
  destruct pc; cbn in W; micro_cases H; cbn [o_a]; pre_case Q Q1 Q2 Q3; eqb_hyps;
    try split_frame Q1 Q2; wit_fin HB GB W.
  all: try (intros _; right; unfold Model.n; lia).
  all: try (intros _; apply W; reflexivity).
  all: match goal with Hp : past ?h (gpos _ ?s) = (?d, false) |- _ =>
         rewrite (past_spec h _ HB (GB s)) in Hp;
         match type of Hp with context [if ?b then _ else _] => destruct b eqn:EL end; [|discriminate Hp];
         injection Hp as <-; apply N.leb_le in EL; intros _; left; exists s end.
  all: try match goal with H0 : (_ <? _) = false |- _ => apply N.ltb_ge in H0 end.
  all: lia.
Qed.
