(* Receiver-side population bookkeeping: the weight each agent contributes to the consumer count
   of a stream (as a handle, as a clone in flight, as the creator of a stream in flight). *)
From Coq Require Import NArith List Bool Lia.
Require Import MQ.Arith64 MQ.Types MQ.State MQ.Model MQ.Exec MQ.Reach MQ.Ctl MQ.Count.
Import ListNotations.
Open Scope N_scope.

Definition recv_role (r : role) : bool := negb (is_sender_role r).

Definition after_rd0 (pc : pcl) : bool :=
  match pc with
  | D1 | D2pre | D2 | D3 | D4pre | D4b | D4c | D5 | D6 | RDtok | RDfin | RDfin2 => true
  | _ => false
  end.

(* calls that give up the handle on the stream they were called on *)
Definition leaving (cl : call) : bool :=
  match cl with CDrop | CUnsub | CIntoMulti | CTransform => true | _ => false end.
Definition is_into_single (cl : call) : bool := match cl with CIntoSingle => true | _ => false end.
Definition newstream_conv (cl : call) : bool := match cl with CIntoMulti | CTransform => true | _ => false end.

Definition topc (A : agent) : pcl := last_pc (a_pc A) (a_stack A).

(* the handle itself *)
Definition w_h (sg : N) (A : agent) : bool :=
  recv_role (a_role A) && a_alive A && (a_sid A =? sg)
  && negb (after_rd0 (topc A) && leaving (r_call (a_r A))).

(* a clone in flight: the count is already incremented, the new handle does not exist yet
   (or, for the futures into_single, the old handle has not been released yet) *)
Definition w_c (sg : N) (A : agent) : bool :=
  (a_sid A =? sg)
  && match topc A with
     | RC1 | FI1 => true
     | RD0 => is_into_single (r_call (a_r A))
     | _ => false
     end.

(* a new stream in flight: allocated with count 1, its first handle does not exist yet *)
Definition w_n (sg : N) (A : agent) : bool :=
  (r_ns (a_r A) =? sg)
  && match topc A with
     | A3 | A4 | A5 => true
     | pc => (match pc with RD0 => true | _ => after_rd0 pc end) && newstream_conv (r_call (a_r A))
     end.

Definition wt (sg : N) (a : N) (A : agent) : N :=
  b2n (w_h sg A) + b2n (w_c sg A) + b2n (w_n sg A).

Lemma wt_notified sg a A b : wt sg a (set_a_notified b A) = wt sg a A.
Proof. destruct A; reflexivity. Qed.

Lemma wt_le2 sg a A : wt sg a A <= 3.
Proof. unfold wt. destruct (w_h sg A), (w_c sg A), (w_n sg A); cbn; lia. Qed.

(* the phase in which the agent carries a new stream in flight *)
Definition nphase (A : agent) : bool :=
  match topc A with
  | A3 | A4 | A5 => true
  | pc => (match pc with RD0 => true | _ => after_rd0 pc end) && newstream_conv (r_call (a_r A))
  end.

(* identifiers of streams an agent knows are below the allocation counter, and a stream in flight
   is newer than the stream of the handle that creates it *)
Definition fresh_ok (A : agent) (S : shared) : Prop :=
  a_sid A < nsid S /\ r_ns (a_r A) < nsid S /\ (nphase A = true -> a_sid A < r_ns (a_r A)).
