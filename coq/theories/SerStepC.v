(* Small step facts for payload identities: the clone step and the decrement after it; who is inside a send. *)
From Coq Require Import NArith List Bool Lia.
Require Import MQ.Arith64 MQ.Arith64Facts MQ.Types MQ.State MQ.Model MQ.Exec MQ.Reach MQ.Ctl MQ.Count MQ.WritersStep
  MQ.RecvDefs MQ.RecvStep MQ.SerDefs.
Import ListNotations.
Open Scope N_scope.

Lemma t_KCs c me A S o : micro c me A S = Some o -> a_pc A = KC ->
  nser (o_s o) = nser S + 1 /\ r_val (a_r (o_a o)) = Some (nser S) /\ r_tmp (a_r (o_a o)) = r_tmp (a_r A) /\
  g_ids (o_s o) = put (g_ids S) (nser S) (gid S (r_tmp (a_r A))) /\
  (a_pc (o_a o) = R11 \/ a_pc (o_a o) = R12) /\ r_p (a_r (o_a o)) = r_p (a_r A) /\ a_sid (o_a o) = a_sid A.
Proof.
  intros H E. destruct A as [role alive multi sid tok pc stack R notified parked]. cbn in E. subst pc.
  unfold gid. micro_cases H; cbn; repeat split; auto.
Qed.

Lemma t_R11s c me A S o : micro c me A S = Some o -> a_pc A = R11 ->
  nser (o_s o) = nser S /\ g_ids (o_s o) = g_ids S /\ r_val (a_r (o_a o)) = r_val (a_r A) /\
  r_tmp (a_r (o_a o)) = r_tmp (a_r A) /\ a_pc (o_a o) = R12.
Proof.
  intros H E. destruct A as [role alive multi sid tok pc stack R notified parked]. cbn in E. subst pc.
  micro_cases H; cbn; repeat split; auto.
Qed.

(* a sender at or after the claim is inside a send call *)
Lemma claim_active A : ctl_ok A = true -> (a_pc A = P5 \/ a_pc A = M5 \/ a_pc A = P6) -> sv_active A = true.
Proof.
  intros Q B. destruct A as [role alive multi sid tok pc stack R notified parked].
  unfold ctl_ok in Q. unfold sv_active, topc. cbn in Q, B |- *.
  apply andb_prop in Q as [Q Q3]. apply andb_prop in Q as [Q1 Q2].
  destruct B as [-> | [-> | ->]]; cbn in Q1;
    (destruct stack as [|k st]; cbn in Q1; [discriminate Q1|]);
    apply andb_prop in Q1 as [K Q1];
    destruct k; cbn in K; try discriminate K; cbn in Q1, Q2 |- *;
    try reflexivity;
    (destruct st as [|k2 st]; cbn in Q1, Q2 |- *; try discriminate Q1; try reflexivity).
Qed.
