(* Case analysis for the slot invariant: where a consumer reads the cell, and what it keeps until the commit. *)
From Coq Require Import NArith List Bool Lia.
Require Import MQ.Arith64 MQ.Arith64Facts MQ.Types MQ.State MQ.Model MQ.Exec MQ.Reach MQ.Ctl MQ.Count MQ.WritersStep
  MQ.RecvDefs MQ.RecvStep MQ.InvReg MQ.WinStep MQ.WinDefs MQ.SlotDefs.
Import ListNotations.
Open Scope N_scope.

Definition read_concl (c : cfg) (A : agent) (S : shared) (o : out) : Prop :=
  a_sid (o_a o) = a_sid A /\ r_p (a_r (o_a o)) = r_p (a_r A) /\
  ((rdphase (a_pc A) = true /\
    ((a_pc A = KC \/ a_pc A = R11 -> is_bcast c = true) ->
     valof c (o_a o) = valof c A /\ (a_pc (o_a o) = KC \/ a_pc (o_a o) = R11 -> is_bcast c = true))) \/
   ((a_pc A = R4 \/ a_pc A = V1 \/ (a_pc A = R8 /\ gpos S (a_sid A) = r_p (a_r A))) /\
    (a_pc (o_a o) = KC -> is_bcast c = true) /\ a_pc (o_a o) <> R11 /\
    forall v, get (cells S) (sl c (r_p (a_r A))) = Some v -> valof c (o_a o) = Some v)).

Ltac bc_rw := repeat match goal with H : is_bcast _ = _ |- _ => rewrite ?H in *; clear H end.

Ltac read_fin :=
  first [ solve [intros X; discriminate X]
        | intros _; split; [reflexivity|split; [reflexivity|]];
          first [ solve [left; split; [reflexivity|]; intros BC; split;
                         [unfold valof; cbn; try (rewrite BC by (first [left; reflexivity|right; reflexivity])); reflexivity
                         |intros [X|X]; first [discriminate X | apply BC; first [left; reflexivity|right; reflexivity]]]]
                | solve [right; split; [first [left; reflexivity|right; left; reflexivity|right; right; split; [reflexivity|assumption]]|];
                         split; [intros X; first [discriminate X|assumption|reflexivity]|];
                         split; [intros X; discriminate X|];
                         let v := fresh "v" in let EV := fresh "EV" in
                         intros v EV; unfold valof, getd; cbn; bc_rw; unfold getd; rewrite ?EV; reflexivity] ] ].

Lemma micro_read c me A S o :
  micro c me A S = Some o -> ctl_ok A = true -> rdphase (a_pc (o_a o)) = true -> read_concl c A S o.
Proof.
  intros H Q. destruct A as [role alive multi sid tok pc stack R notified parked]. unfold read_concl.
  destruct pc; micro_cases H; cbn [o_a]; pre_case Q Q1 Q2 Q3; eqb_hyps;
    first [ read_fin | try split_frame Q1 Q2; read_fin ].
Qed.
