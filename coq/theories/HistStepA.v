(* Case analysis for C02: the claim events of the call history are written exactly by the claiming steps. *)
From Coq Require Import NArith List Bool Lia.
Require Import MQ.Arith64 MQ.Arith64Facts MQ.Types MQ.State MQ.Model MQ.Exec MQ.Reach MQ.Ctl MQ.Count MQ.WritersStep
  MQ.RecvDefs MQ.RecvStep.
Import ListNotations.
Open Scope N_scope.

(* the claim events of a history, newest first: (value, position) *)
Fixpoint hclaims (h : list hev) : list (N * N) :=
  match h with
  | [] => []
  | HClaim _ ser p _ :: h' => (ser, p) :: hclaims h'
  | _ :: h' => hclaims h'
  end.

Lemma micro_hclaims c me A S o :
  micro c me A S = Some o ->
  (hclaims (g_hist (o_s o)) = hclaims (g_hist S) /\ g_log (o_s o) = g_log S) \/
  ((a_pc A = P5 \/ (a_pc A = M5 /\ head S = r_h (a_r A))) /\
   hclaims (g_hist (o_s o)) = (r_v (a_r A), r_h (a_r A)) :: hclaims (g_hist S) /\
   g_log (o_s o) = g_log S ++ [r_v (a_r A)]).
Proof.
  intros H. destruct A as [role alive multi sid tok pc stack R notified parked].
  destruct pc; micro_cases H; cbn [o_s]; unfold deliver, claim, hist; cbn; eqb_hyps;
    first [ solve [left; split; reflexivity]
          | solve [right; split; [auto|split; reflexivity]]
          | destruct (r_val R); cbn; first [ solve [left; split; reflexivity] ] ].
Qed.
