(* The two allocating steps of the registry advance the list counter. *)
From Coq Require Import NArith List Bool Lia.
Require Import MQ.Arith64 MQ.Types MQ.State MQ.Model MQ.Exec MQ.Reach.
Import ListNotations.
Open Scope N_scope.

Lemma micro_a2_ngid c me A S o : micro c me A S = Some o -> a_pc A = A2 -> ngid (o_s o) = ngid S + 1.
Proof.
  intros H E. destruct A as [role alive multi sid tok pc stack R notified parked].
  cbn in E. subst pc. micro_cases H; reflexivity.
Qed.

Lemma micro_d2pre_ngid c me A S o : micro c me A S = Some o -> a_pc A = D2pre -> ngid (o_s o) = ngid S + 1.
Proof.
  intros H E. destruct A as [role alive multi sid tok pc stack R notified parked].
  cbn in E. subst pc. micro_cases H; reflexivity.
Qed.

(* spurious compare-exchange failures do not touch the registry *)
Lemma spur_groups c A S o : micro_spur c A S = Some o ->
  cur (o_s o) = cur S /\ ngid (o_s o) = ngid S /\ groups (o_s o) = groups S /\
  r_g (a_r (o_a o)) = r_g (a_r A) /\ r_ng (a_r (o_a o)) = r_ng (a_r A) /\ r_ns (a_r (o_a o)) = r_ns (a_r A) /\
  r_last (a_r (o_a o)) = r_last (a_r A) /\ head (o_s o) = head S /\ tailc (o_s o) = tailc S.
Proof.
  intros H. destruct A as [role alive multi sid tok pc stack R notified parked].
  unfold micro_spur, ok in H. cbn in H.
  destruct pc; try discriminate H.
  - injection H as <-. cbn. repeat split; reflexivity.
  - destruct (r_am R); [discriminate|].
    unfold use_obj, bad, drop_opt, drop_val in H. cbn in H.
    break_hyp H; injection H as <-; cbn; repeat split; reflexivity.
Qed.

(* the publishing compare-exchange of add_stream succeeds when the list is still the one read *)
Lemma micro_a3_succ c me A S o :
  micro c me A S = Some o -> a_pc A = A3 -> cur S = r_g (a_r A) -> cur (o_s o) = r_ng (a_r A).
Proof.
  intros H E EC. destruct A as [role alive multi sid tok pc stack R notified parked].
  cbn in E, EC. subst pc. micro_cases H; cbn; eqb_hyps; congruence.
Qed.
