(* The stream registry: a stream that some handle still holds, and a stream in flight that has
   been published, is in the published list; the handle whose decrement found the count at one
   leaves a stream nobody holds any more (so removing it takes nothing away from anybody). *)
From Coq Require Import NArith List Bool Lia.
Require Import MQ.Arith64 MQ.Arith64Facts MQ.Types MQ.State MQ.Model MQ.Exec MQ.Reach MQ.Ctl MQ.Count MQ.SumCount
  MQ.AgentInv MQ.AgentInvCtl MQ.WritersStep MQ.InvWriters MQ.RecvDefs MQ.RecvStep MQ.FreshStep MQ.KnownStep MQ.InvRecv
  MQ.SoleDefs MQ.InvSole MQ.GroupStep MQ.GroupStep2 MQ.GroupStep3 MQ.NewAgentStep MQ.InvGroups MQ.RegStep MQ.SigStep.
Import ListNotations.
Open Scope N_scope.

Definition streams (S : shared) : list N := ggroup S (cur S).

(* ---- per agent: on the last-handle path the record says "last" ---- *)
Lemma lp_notified A b : lp_ok (set_a_notified b A) = lp_ok A.
Proof. destruct A; reflexivity. Qed.

Lemma lp_entry c A cl pc :
  ctl_ok A = true -> lp_ok A = true -> a_pc A = Idle -> a_alive A = true -> entry c (a_role A) cl = Some pc ->
  lp_ok (at_pc pc (withr (set_r_res RNoRes (set_r_call cl (a_r A))) (set_a_notified false A))) = true.
Proof.
  intros QA _ Hpc _ He. destruct A as [role alive multi sid tok pc0 stack R notified parked].
  cbn in Hpc. subst pc0. unfold ctl_ok in QA. cbn in QA.
  destruct stack as [|k st]; [|cbn in QA; discriminate QA].
  unfold entry in He. unfold lp_ok, topc. cbn.
  destruct role, cl; try discriminate He; try (destruct (is_bcast c); try discriminate He);
    injection He as <-; reflexivity.
Qed.

Lemma lp_spur c A S o : micro_spur c A S = Some o -> ctl_ok A = true -> lp_ok A = true -> lp_ok (o_a o) = true.
Proof.
  intros H Q U. destruct (spur_groups _ _ _ _ H) as (_ & _ & _ & _ & _ & _ & EL & _).
  destruct A as [role alive multi sid tok pc stack R notified parked].
  unfold micro_spur, ok in H. cbn in H. unfold lp_ok, topc in *. rewrite EL.
  destruct pc; try discriminate H;
    (destruct stack as [|k st]; [unfold ctl_ok in Q; cbn in Q; discriminate Q|]).
  - injection H as <-. cbn in *. exact U.
  - destruct (r_am R); [discriminate|].
    unfold use_obj, bad, drop_opt, drop_val in H. cbn in H.
    break_hyp H; injection H as <-; cbn in *; exact U.
Qed.

Lemma lp_init fut a A : get (ags (init fut)) a = Some A -> lp_ok A = true.
Proof.
  intros EA. cbn in EA. unfold get in EA. cbn in EA.
  destruct (N.eqb a 0); [injection EA as <-; destruct fut; reflexivity|].
  destruct (N.eqb a 1); [injection EA as <-; destruct fut; reflexivity|discriminate].
Qed.

Lemma micro_lp1 c me A S o :
  micro c me A S = Some o -> ctl_ok A = true -> lp_ok A = true ->
  lp_ok (o_a o) = true /\ (forall a' A', o_new o = Some (a', A') -> lp_ok A' = true).
Proof. intros H Q U. destruct (micro_lp _ _ _ _ _ H Q U) as (X1 & X2 & _). auto. Qed.

Theorem lp_mreach c fut s : mreach c fut s -> forall a A, get (ags s) a = Some A -> lp_ok A = true.
Proof.
  apply (agents_minv_ctl c lp_ok).
  - intros A b. apply lp_notified.
  - apply lp_entry.
  - apply micro_lp1.
  - apply lp_spur.
  - apply lp_init.
Qed.

(* ---- the handle on the last-handle path left a stream nobody holds ---- *)
Definition LastZero (s : state) : Prop :=
  forall x X, get (ags s) x = Some X -> lastpath (topc X) = true -> sumf (wt (a_sid X)) (ags s) = 0.

Definition Reg (s : state) : Prop :=
  (forall a A sg, get (ags s) a = Some A -> w_h sg A = true -> In sg (streams (sh s))) /\
  (forall a A, get (ags s) a = Some A -> pubphase A = true -> In (r_ns (a_r A)) (streams (sh s))).

Definition RegInv (s : state) : Prop := lenN (ags s) < B62 -> LastZero s /\ Reg s.

Lemma topc_notified A : topc (set_a_notified true A) = topc A /\ a_sid (set_a_notified true A) = a_sid A.
Proof. destruct A; split; reflexivity. Qed.

Lemma reg_notified sg A :
  w_h sg (set_a_notified true A) = w_h sg A /\ pubphase (set_a_notified true A) = pubphase A /\
  r_ns (a_r (set_a_notified true A)) = r_ns (a_r A).
Proof. destruct A; repeat split; reflexivity. Qed.

Lemma in_removeN x y l : In x l -> x <> y -> In x (removeN y l).
Proof.
  induction l as [|z l IH]; intros H Hn; [destruct H|].
  change (removeN y (z :: l)) with (if N.eqb y z then removeN y l else z :: removeN y l).
  destruct (N.eqb y z) eqn:E.
  - apply N.eqb_eq in E. subst z. destruct H as [->|H]; [congruence|auto].
  - destruct H as [->|H]; [left; reflexivity|right; auto].
Qed.

(* the weight of everybody on a stream nobody holds stays zero across a step *)
Lemma zero_kept c fut s x X o sg :
  mreach c fut s -> lenN (ags s) < B62 -> get (ags s) x = Some X ->
  micro c x X (sh s) = Some o -> new_ok s x o = true ->
  sumf (wt sg) (ags s) = 0 -> sg < nsid (sh s) -> sumf (wt sg) (ags (apply1 s x o)) = 0.
Proof.
  intros R Small EX M NO Z FS.
  pose proof (ctl_mreach c fut s R x X EX) as QX.
  destruct (recv_mreach c fut s R) as (ND & FR & UQ & CE).
  pose proof (step_weight c fut s x X o sg R Small EX M NO) as SW.
  pose proof (sumf_get_le (wt sg) (ags s) x X EX) as LE.
  destruct (micro_cons sg _ _ _ _ _ M QX (FR x X EX)) as
    [(Hc & Hw) | [(Hc & Hw & Hn & H1) | [(Hc & Hw & Hn) | [(Hs & Hc & Hw & Hw0 & Hn) | (Hc & Hw & Hw0 & Hn & HN & HP)]]]]; lia.
Qed.

Theorem reg_mreach c fut s : mreach c fut s -> RegInv s.
Proof.
  apply mreach_inv2.
  - (* begin_call *)
    intros s0 a A cl pc R I EA Hpc Hal He _ Small.
    unfold begin_call in *. cbn [ags sh] in *.
    rewrite (len_put_same _ _ _ _ EA) in Small. destruct (I Small) as (LZ & RG1 & RG2).
    pose proof (ctl_mreach c fut s0 R a A EA) as QA.
    destruct (recv_mreach c fut s0 R) as (ND & _).
    destruct (begin_agent c A cl pc QA Hpc Hal He) as (NP1 & NP0 & ES & EN & EW).
    set (A1 := at_pc pc (withr (set_r_res RNoRes (set_r_call cl (a_r A))) (set_a_notified false A))) in *.
    assert (ESUM : forall sg, sumf (wt sg) (put (ags s0) a A1) = sumf (wt sg) (ags s0)).
    { intros sg. pose proof (sumf_put_in (wt sg) (ags s0) a A A1 ND EA) as X. rewrite EW in X. lia. }
    assert (T1 : lastpath (topc A1) = false /\ pubphase A1 = false /\ (forall sg, w_h sg A1 = true -> w_h sg A = true)).
    { clear -QA Hpc Hal He. subst A1.
      destruct A as [role alive multi sid tok pc0 stack R0 notified parked].
      cbn in Hpc, Hal. subst pc0 alive. unfold ctl_ok in QA. cbn in QA.
      destruct stack as [|k st]; [|cbn in QA; discriminate QA]. cbn in QA.
      unfold entry in He. unfold pubphase, nphase, w_h, topc, recv_role. cbn.
      destruct (r_call R0); cbn in QA; try discriminate QA;
        destruct role, cl; try discriminate He; try (destruct (is_bcast c); try discriminate He);
        injection He as <-; cbn; repeat split; auto. }
    destruct T1 as (TL & TP & TW).
    split.
    + intros b B EB LB. cbn [ags sh] in *. rewrite ESUM. rewrite get_put in EB. destruct (N.eqb b a) eqn:E.
      * injection EB as <-. congruence.
      * apply (LZ b B EB LB).
    + unfold streams. change (ggroup (hist _ (sh s0)) (cur (hist _ (sh s0)))) with (streams (sh s0)). split.
      * intros b B sg EB WB. cbn [ags sh] in *. rewrite get_put in EB. destruct (N.eqb b a) eqn:E.
        -- injection EB as <-. apply (RG1 a A sg EA). auto.
        -- apply (RG1 b B sg EB WB).
      * intros b B EB PB. cbn [ags sh] in *. rewrite get_put in EB. destruct (N.eqb b a) eqn:E.
        -- injection EB as <-. congruence.
        -- apply (RG2 b B EB PB).
  - (* micro *)
    intros s0 x X o R I EX _ M NO Small.
    assert (Small0 : lenN (ags s0) < B62) by (pose proof (apply1_len s0 x o); lia).
    destruct (I Small0) as (LZ & RG1 & RG2).
    pose proof (ctl_mreach c fut s0 R) as CT.
    pose proof (lp_mreach c fut s0 R) as LP.
    destruct (recv_mreach c fut s0 R) as (ND & FR & UQ & CE). specialize (CE Small0).
    destruct (groups_mreach c fut s0 R) as (GC & GA).
    pose proof (CT _ _ EX) as QX.
    unfold LastZero, Reg. change (sh (apply1 s0 x o)) with (o_s o).
    destruct (micro_groups _ _ _ _ _ M) as (NG & IM & CU).
    split.
    + (* LastZero *)
      intros b B EB LB.
      destruct (apply1_get _ _ _ _ _ EB) as (B0 & HB & Hsrc).
      assert (LB0 : lastpath (topc B0) = true /\ a_sid B = a_sid B0).
      { destruct HB as [->| ->]; [auto|]. destruct (topc_notified B0) as [E1 E2]. rewrite E1 in LB. auto. }
      destruct LB0 as [LB0 ->]. clear HB LB EB B.
      destruct Hsrc as [(a' & Hn & ->) | [(-> & ->) | (Hne & EB0)]].
      * destruct (micro_new_idle _ _ _ _ _ _ _ M Hn) as (EI & ES & _).
        unfold topc in LB0. rewrite EI, ES in LB0. discriminate.
      * destruct (micro_lp _ _ _ _ _ M QX (LP _ _ EX)) as (_ & _ & T3).
        destruct (T3 LB0) as (ES & [LX | (PX & GC1)]); rewrite ES.
        -- eapply zero_kept; eauto. destruct (FR x X EX) as (F1 & _). exact F1.
        -- (* the decrement that found the count at one *)
           pose proof (rd0_wh X QX PX) as WH.
           pose proof (wh_wt_pos _ x X WH) as W1.
           pose proof (sumf_get_le (wt (a_sid X)) (ags s0) x X EX) as LE.
           pose proof (step_weight c fut s0 x X o (a_sid X) R Small0 EX M NO) as SW.
           destruct (micro_rd0 _ _ _ _ _ M PX) as (_ & GD).
           assert (S1 : sumf (wt (a_sid X)) (ags s0) = 1) by (destruct (CE (a_sid X)) as [Z | EQ]; lia).
           destruct (micro_cons (a_sid X) _ _ _ _ _ M QX (FR x X EX)) as
             [(Hc & Hw) | [(Hc & Hw & Hn & H1) | [(Hc & Hw & Hn) | [(Hs & Hc & Hw & Hw0 & Hn) | (Hc & Hw & Hw0 & Hn & HN & HP)]]]].
           ++ exfalso. rewrite GD, GC1 in Hc. cbv in Hc. discriminate Hc.
           ++ exfalso. rewrite GD, GC1 in Hc. cbv in Hc. discriminate Hc.
           ++ lia.
           ++ exfalso. destruct (FR x X EX) as (F1 & _). lia.
           ++ exfalso. rewrite PX in HP. discriminate HP.
      * eapply zero_kept; eauto. destruct (FR b B0 EB0) as (F1 & _). exact F1.
    + (* Reg *)
      assert (STR : forall sg, In sg (streams (sh s0)) ->
                    (forall y Y, get (ags s0) y = Some Y -> lastpath (topc Y) = true -> a_sid Y <> sg \/ False) ->
                    True) by auto.
      assert (KEEP : forall sg, In sg (streams (sh s0)) -> 0 < sumf (wt sg) (ags s0) -> In sg (streams (o_s o))).
      { intros sg IN POS. unfold streams in *.
        destruct CU as [E | [(PA & EC & E) | (PA & EC & E)]]; rewrite E.
        - rewrite IM by exact GC. exact IN.
        - destruct (GA x X EX) as (_ & XA & _). destruct (XA PA) as (L1 & EL).
          rewrite IM by exact L1. rewrite EL, <- EC. apply in_or_app. left. exact IN.
        - destruct (GA x X EX) as (_ & _ & XR). destruct (XR PA) as (L1 & EL).
          rewrite IM by exact L1. rewrite EL, <- EC. apply in_removeN; [exact IN|].
          intro; subst sg.
          assert (LX : lastpath (topc X) = true).
          { clear -QX PA. destruct X as [role alive multi sid tok pc stack R0 notified parked].
            cbn in PA. subst pc. unfold ctl_ok in QX. cbn in QX. unfold topc. cbn.
            destruct stack; [reflexivity|cbn in QX; discriminate QX]. }
          rewrite (LZ x X EX LX) in POS. lia. }
      split.
      * intros b B sg EB WB.
        destruct (apply1_get _ _ _ _ _ EB) as (B0 & HB & Hsrc).
        assert (WB0 : w_h sg B0 = true).
        { destruct HB as [->| ->]; [auto|]. destruct (reg_notified sg B0) as (E1 & _). now rewrite E1 in WB. }
        clear HB WB EB B.
        destruct (micro_wh sg _ _ _ _ _ M QX) as (W1 & W2).
        assert (SRC : (exists Y y, get (ags s0) y = Some Y /\ w_h sg Y = true) \/ (pubphase X = true /\ r_ns (a_r X) = sg)).
        { destruct Hsrc as [(a' & Hn & ->) | [(-> & ->) | (Hne & EB0)]].
          - destruct (W2 _ _ Hn WB0) as [H|H]; [left; eauto|right; exact H].
          - destruct (W1 WB0) as [H|H]; [left; eauto|right; exact H].
          - left; eauto. }
        destruct SRC as [(Y & y & EY & WY) | (PX & <-)].
        -- apply KEEP; [apply (RG1 y Y sg EY WY)|].
           pose proof (sumf_get_le (wt sg) (ags s0) y Y EY). pose proof (wh_wt_pos sg y Y WY). lia.
        -- apply KEEP; [apply (RG2 x X EX PX)|].
           pose proof (sumf_get_le (wt (r_ns (a_r X))) (ags s0) x X EX) as LE.
           assert (1 <= wt (r_ns (a_r X)) x X); [|lia].
           unfold pubphase in PX. apply andb_prop in PX as [NX _].
           unfold wt. rewrite wn_alt, NX, N.eqb_refl. cbn [andb b2n]. lia.
      * intros b B EB PB.
        destruct (apply1_get _ _ _ _ _ EB) as (B0 & HB & Hsrc).
        assert (PB0 : pubphase B0 = true /\ r_ns (a_r B) = r_ns (a_r B0)).
        { destruct HB as [->| ->]; [auto|]. destruct (reg_notified 0 B0) as (_ & E2 & E3). rewrite E2 in PB. auto. }
        destruct PB0 as [PB0 ->]. clear HB PB EB B.
        destruct Hsrc as [(a' & Hn & ->) | [(-> & ->) | (Hne & EB0)]].
        -- destruct (micro_new_idle _ _ _ _ _ _ _ M Hn) as (EI & ES & _).
           unfold pubphase, nphase, topc in PB0. rewrite EI, ES in PB0. discriminate.
        -- destruct (micro_pub _ _ _ _ _ M QX PB0) as (EN & [PX | (PA & EC)]); rewrite EN.
           ++ apply KEEP; [apply (RG2 x X EX PX)|].
              pose proof (sumf_get_le (wt (r_ns (a_r X))) (ags s0) x X EX) as LE.
              assert (1 <= wt (r_ns (a_r X)) x X); [|lia].
              unfold pubphase in PX. apply andb_prop in PX as [NX _].
              unfold wt. rewrite wn_alt, NX, N.eqb_refl. cbn [andb b2n]. lia.
           ++ (* the publishing compare-exchange succeeds *)
              unfold streams. rewrite (micro_a3_succ _ _ _ _ _ M PA EC).
              destruct (GA x X EX) as (_ & XA & _). destruct (XA PA) as (L1 & EL).
              rewrite IM by exact L1. rewrite EL. apply in_or_app. right. left. reflexivity.
        -- apply KEEP; [apply (RG2 b B0 EB0 PB0)|].
           pose proof (sumf_get_le (wt (r_ns (a_r B0))) (ags s0) b B0 EB0) as LE.
           assert (1 <= wt (r_ns (a_r B0)) b B0); [|lia].
           unfold pubphase in PB0. apply andb_prop in PB0 as [NX _].
           unfold wt. rewrite wn_alt, NX, N.eqb_refl. cbn [andb b2n]. lia.
  - (* spurious failure *)
    intros s0 a A o R I EA M Small.
    destruct (spur_shape _ _ _ _ M) as (N0 & Hr & Ha & Hm & Hs & Hc & Hp & _).
    destruct (spur_groups _ _ _ _ M) as (E1 & E2 & E3 & E4 & E5 & E6 & _).
    pose proof (ctl_mreach c fut s0 R a A EA) as QA.
    destruct (recv_mreach c fut s0 R) as (ND & _).
    assert (TOP : topc (o_a o) = topc A /\ a_sid (o_a o) = a_sid A /\ o_ntf o = [] /\ a_pc (o_a o) <> A3).
    { clear -M QA. destruct A as [role alive multi sid tok pc stack R0 notified parked].
      unfold micro_spur, ok in M. cbn in M. unfold topc.
      destruct pc; try discriminate M;
        (destruct stack as [|k st]; [unfold ctl_ok in QA; cbn in QA; discriminate QA|]).
      - injection M as <-. cbn. repeat split; auto; discriminate.
      - destruct (r_am R0); [discriminate|].
        unfold use_obj, bad, drop_opt, drop_val in M. cbn in M.
        break_hyp M; injection M as <-; cbn; repeat split; auto; discriminate. }
    destruct TOP as (ET & ESd & NT & NA3).
    assert (EW : forall sg x, wt sg x (o_a o) = wt sg x A).
    { intros sg x. unfold wt, w_h, w_c, w_n. now rewrite ET, ESd, E6, Hr, Ha, Hc. }
    unfold apply1 in *. rewrite N0, NT in *.
    change (notify_all [] (put (ags s0) a (o_a o))) with (put (ags s0) a (o_a o)) in *.
    cbn [ags sh] in *. rewrite (len_put_same _ _ _ _ EA) in Small. destruct (I Small) as (LZ & RG1 & RG2).
    assert (ESUM : forall sg, sumf (wt sg) (put (ags s0) a (o_a o)) = sumf (wt sg) (ags s0)).
    { intros sg. pose proof (sumf_put_in (wt sg) (ags s0) a A (o_a o) ND EA) as X. rewrite EW in X. lia. }
    assert (ESTR : streams (o_s o) = streams (sh s0)) by (unfold streams, ggroup; now rewrite E1, E3).
    unfold LastZero, Reg. cbn [ags sh]. split.
    + intros b B EB LB. cbn [ags sh] in *. rewrite ESUM. rewrite get_put in EB. destruct (N.eqb b a) eqn:E.
      * injection EB as <-. rewrite ESd. apply (LZ a A EA). now rewrite <- ET.
      * apply (LZ b B EB LB).
    + rewrite ESTR. split.
      * intros b B sg EB WB. cbn [ags sh] in *. rewrite get_put in EB. destruct (N.eqb b a) eqn:E.
        -- injection EB as <-. apply (RG1 a A sg EA). unfold w_h in *. now rewrite <- ET, <- ESd, <- Hr, <- Ha, <- Hc.
        -- apply (RG1 b B sg EB WB).
      * intros b B EB PB. cbn [ags sh] in *. rewrite get_put in EB. destruct (N.eqb b a) eqn:E.
        -- injection EB as <-. rewrite E6. apply (RG2 a A EA).
           unfold pubphase, nphase in *. rewrite ET, Hc in PB.
           apply andb_prop in PB as [P1 _]. rewrite P1. cbn [andb].
           destruct Hp as [[PA _]|[PA _]]; rewrite PA; reflexivity.
        -- apply (RG2 b B EB PB).
  - (* tick *)
    intros s0 R I Small. exact (I Small).
  - (* init *)
    intros _. split.
    + intros x X EX LX. exfalso. cbn in EX. unfold get in EX. cbn in EX.
      destruct (N.eqb x 0); [injection EX as <-; destruct fut; discriminate LX|].
      destruct (N.eqb x 1); [injection EX as <-; destruct fut; discriminate LX|discriminate].
    + split.
      * intros a A sg EA WA. cbn in EA. unfold get in EA. cbn in EA.
        destruct (N.eqb a 0); [injection EA as <-; destruct fut; discriminate WA|].
        destruct (N.eqb a 1); [|discriminate]. injection EA as <-.
        assert (sg = 0).
        { destruct fut; unfold w_h in WA; cbn in WA; rewrite andb_true_r in WA; apply N.eqb_eq in WA; auto. }
        subst sg. destruct fut; cbv; auto.
      * intros a A EA PA. exfalso. cbn in EA. unfold get in EA. cbn in EA.
        destruct (N.eqb a 0); [injection EA as <-; destruct fut; discriminate PA|].
        destruct (N.eqb a 1); [injection EA as <-; destruct fut; discriminate PA|discriminate].
Qed.
