(* Extraction of the executable model to OCaml. Only ExtrOcamlBasic's directives
   (bool, option, unit, list, prod, sumbool, ...) are used; N and positive stay
   the Coq inductives. No Extract Constant / Extract Inductive of our own. *)
Require Import MQ.Arith64 MQ.Types MQ.State MQ.Model MQ.Exec.
Require Extraction.
Require Import ExtrOcamlBasic.
Extraction Language OCaml.
Extraction "mqmodel.ml" stepx init mk_cfg can_step is_idle at_weak_cas pc_of
  gtag gpin gpos ggroup gtokep gid gdrops
  get_valid_wrap past rm_tag is_tagged matches_previous get_previous slot_of wait_check next_count.
