#!/bin/bash
# Build everything the checks need: Coq development (full .vo), extraction, OCaml driver, harness.
set -e
cd "$(dirname "$0")"
ROOT=$(pwd)
cd coq
[ -f Makefile ] || coq_makefile -f _CoqProject -o Makefile >/dev/null
timeout 3000 make -j16 >"$ROOT/coq/build.log" 2>&1 || { tail -30 "$ROOT/coq/build.log"; exit 1; }
cd extract
if [ ! -f mqmodel.ml ] || [ ../theories/Model.vo -nt mqmodel.ml ] || [ ../theories/Exec.vo -nt mqmodel.ml ]; then
  timeout 600 coqc -Q ../theories MQ Extract.v >/dev/null
fi
cd "$ROOT/ocaml"
if [ ! -f driver ] || [ ../coq/extract/mqmodel.ml -nt driver ] || [ driver.ml -nt driver ]; then
  cp ../coq/extract/mqmodel.ml ../coq/extract/mqmodel.mli .
  ocamlfind ocamlopt -w -a mqmodel.mli mqmodel.ml driver.ml -o driver
fi
cd "$ROOT/harness"
cp /repo/Cargo.lock Cargo.lock 2>/dev/null || true
CARGO_NET_OFFLINE=true timeout 1200 cargo build --offline >"$ROOT/harness/build.log" 2>&1 || { grep -E "^error" -A12 "$ROOT/harness/build.log" | head -60; exit 1; }
# warm the per-property proof-output cache (Print Assumptions of every property file), in parallel
cd "$ROOT"
python3 - <<'PYEOF'
import os, subprocess, concurrent.futures as cf
root = os.getcwd()
coq = os.path.join(root, "coq")
os.makedirs(os.path.join(root, "work", "proofcache"), exist_ok=True)
def one(pid):
    vo = os.path.join(coq, "theories", "Props", pid + ".vo")
    pf = os.path.join(coq, "theories", "Props", pid + ".v")
    cache = os.path.join(root, "work", "proofcache", pid + ".out")
    if os.path.exists(cache) and os.path.getmtime(cache) >= os.path.getmtime(vo) and os.path.getmtime(cache) >= os.path.getmtime(pf):
        return
    r = subprocess.run("timeout 2400 coqc -Q theories MQ theories/Props/%s.v" % pid, shell=True, cwd=coq, capture_output=True, text=True)
    if r.returncode == 0:
        open(cache, "w").write(r.stdout)
pids = sorted(f[:-2] for f in os.listdir(os.path.join(coq, "theories", "Props")) if f.endswith(".v"))
with cf.ThreadPoolExecutor(max_workers=12) as ex:
    list(ex.map(one, pids))
PYEOF
echo build-ok
