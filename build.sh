#!/bin/bash
# Build everything the checks need: Coq development (full .vo), extraction, OCaml driver, harness.
set -e
cd "$(dirname "$0")"
ROOT=$(pwd)
cd coq
[ -f Makefile ] || coq_makefile -f _CoqProject -o Makefile >/dev/null
# everything except the property files (those are compiled below, each run keeping what it prints)
timeout 5000 make -j16 $(grep '^theories/.*\.v$' _CoqProject | grep -v '^theories/Props/' | sed 's/\.v$/.vo/') >"$ROOT/coq/build.log" 2>&1 || { tail -30 "$ROOT/coq/build.log"; exit 1; }
cd extract
if [ ! -f mqmodel.ml ] || [ ../theories/Model.vo -nt mqmodel.ml ] || [ ../theories/Exec.vo -nt mqmodel.ml ]; then
  timeout 600 coqc -Q ../theories MQ Extract.v >/dev/null
fi
cd "$ROOT/ocaml"
if [ ! -f driver ] || [ ../coq/extract/mqmodel.ml -nt driver ] || [ driver.ml -nt driver ]; then
  cp ../coq/extract/mqmodel.ml ../coq/extract/mqmodel.mli .
  ocamlfind ocamlopt -w -a mqmodel.mli mqmodel.ml driver.ml -o driver
fi
cd "$ROOT/harness"
cp /repo/Cargo.lock Cargo.lock 2>/dev/null || true
CARGO_NET_OFFLINE=true timeout 1200 cargo build --offline >"$ROOT/harness/build.log" 2>&1 || { grep -E "^error" -A12 "$ROOT/harness/build.log" | head -60; exit 1; }
# the property files: compiled one make call each, in parallel; what each prints (pinned statements, Print Assumptions)
# is kept in work/proofcache/<id>.out for the proof stage of the checks
cd "$ROOT"
python3 - <<'PYEOF'
import os, subprocess, sys, concurrent.futures as cf
root = os.getcwd()
coq = os.path.join(root, "coq")
os.makedirs(os.path.join(root, "work", "proofcache"), exist_ok=True)
def one(pid):
    cache = os.path.join(root, "work", "proofcache", pid + ".out")
    r = subprocess.run("timeout 3000 make -C %s theories/Props/%s.vo" % (coq, pid), shell=True, capture_output=True, text=True)
    if r.returncode != 0:
        return pid + ": " + (r.stdout + r.stderr)[-600:]
    marker = "COQC theories/Props/%s.v" % pid
    if marker in r.stdout:
        open(cache, "w").write(r.stdout[r.stdout.index(marker):])
    return None
pids = sorted(f[:-2] for f in os.listdir(os.path.join(coq, "theories", "Props")) if f.endswith(".v"))
with cf.ThreadPoolExecutor(max_workers=14) as ex:
    bad = [b for b in ex.map(one, pids) if b]
if bad:
    print("\n".join(bad)); sys.exit(1)
PYEOF
echo build-ok
