#!/bin/bash
# Build everything the checks need: Coq development (full .vo), extraction, OCaml driver, harness.
set -e
cd "$(dirname "$0")"
ROOT=$(pwd)
cd coq
[ -f Makefile ] || coq_makefile -f _CoqProject -o Makefile >/dev/null
timeout 3000 make -j16 >"$ROOT/coq/build.log" 2>&1 || { tail -30 "$ROOT/coq/build.log"; exit 1; }
cd extract
if [ ! -f mqmodel.ml ] || [ ../theories/Model.vo -nt mqmodel.ml ] || [ ../theories/Exec.vo -nt mqmodel.ml ]; then
  timeout 600 coqc -Q ../theories MQ Extract.v >/dev/null
fi
cd "$ROOT/ocaml"
if [ ! -f driver ] || [ ../coq/extract/mqmodel.ml -nt driver ] || [ driver.ml -nt driver ]; then
  cp ../coq/extract/mqmodel.ml ../coq/extract/mqmodel.mli .
  ocamlfind ocamlopt -w -a mqmodel.mli mqmodel.ml driver.ml -o driver
fi
cd "$ROOT/harness"
cp /repo/Cargo.lock Cargo.lock 2>/dev/null || true
CARGO_NET_OFFLINE=true timeout 1200 cargo build --offline >"$ROOT/harness/build.log" 2>&1 || { grep -E "^error" -A12 "$ROOT/harness/build.log" | head -60; exit 1; }
echo build-ok
