#!/bin/bash
# runs every seeded change against the check of its own property and of the properties it also breaks
cd /verif
for d in seeded/C*/; do
  id=$(basename $d)
  props=$(python3 -c "import json;d=json.load(open('/verif/seeded/$id/meta.json'));print(' '.join([d['property']]+list(d.get('also_breaks',[]))))")
  tools/mutant_run.sh $id $props
done
