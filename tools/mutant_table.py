#!/usr/bin/env python3
"""Regenerates the seeded-change table of DESIGN.md section 11.7 from seeded/<id>/result.json."""
import json, glob, os, re
ROOT = os.path.dirname(os.path.dirname(os.path.abspath(__file__)))
rows = ["| change | what it changes | check → outcome |", "|---|---|---|"]
for d in sorted(glob.glob(os.path.join(ROOT, "seeded", "C*"))):
    mid = os.path.basename(d)
    meta = json.load(open(os.path.join(d, "meta.json")))
    rp = os.path.join(d, "result.json")
    if not os.path.exists(rp):
        out = "not run"
    else:
        res = json.load(open(rp))
        parts = []
        for p, r in res.items():
            if r.get("caught"):
                parts.append("%s: caught at the %s stage, %s" % (p, r.get("stage", "?"), r.get("kind", "?")))
            else:
                parts.append("%s: **missed**" % p)
        out = "; ".join(parts)
    rows.append("| %s | %s | %s |" % (mid, meta["change"].replace("|", "/"), out))
p = os.path.join(ROOT, "DESIGN.md")
s = open(p).read()
s = re.sub(r"<!-- MUTANT-TABLE-BEGIN -->.*?<!-- MUTANT-TABLE-END -->",
           "<!-- MUTANT-TABLE-BEGIN -->\n" + "\n".join(rows) + "\n<!-- MUTANT-TABLE-END -->", s, flags=re.S)
open(p, "w").write(s)
print(len(rows) - 2, "rows")
