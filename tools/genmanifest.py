#!/usr/bin/env python3
"""Regenerates /verif/MANIFEST.json from the table below (run by hand after changing what is claimed)."""
import json, os, sys
ROOT = os.path.dirname(os.path.dirname(os.path.abspath(__file__)))
sys.path.insert(0, os.path.join(ROOT, "tools"))
import propcfg

old = json.load(open(os.path.join(ROOT, "MANIFEST.json")))
c19 = [c for c in old["checks"] if c["property_id"] == "C19"][0]

TB = ("Trusted: Coq 8.16.1 kernel (vm_compute in witness examples only; no native_compute); axioms: none (every theorem prints "
      "'Closed under the global context'); the hand-written model coq/theories/Model.v is tied to /repo by the per-step "
      "correspondence (tools/corr.py: the extracted model and the real crate under the deterministic scheduler agree on every "
      "operation, full state snapshot, enabled set and result, on every scenario of the run); sequentially consistent interleavings "
      "only (weak-memory reorderings not modelled); extraction via ExtrOcamlBasic and ocaml/driver.ml; harness, shims "
      "(src/verif_hooks.rs under --cfg multiqueue2_verif), oracles and generators (tools/*.py). Theorems that count handles assume "
      "fewer than 2^62 handles were ever created (stated in the theorem).")

CORR = (" The part not proved is decided by the correspondence check plus the property's oracle on every real trace (exhaustive "
        "schedules of small scenarios up to a preemption bound, seeded random schedules); a divergence or a broken proof is reported "
        "as a violation (with a concrete failing trace when the oracle finds one, else no-failing-input-found).")

P = {
 "C01": ("proof", "Props/C01.v, all configurations, populations and interleavings of micro-steps of the model (states in the middle of calls included): head = number of claimed values (mod 2^63); every step leaves the claim log alone or appends exactly the claiming send's value; the single-writer path's loaded head is still current when it stores; for every stream the positions it has delivered, in delivery order, are consecutive and end just before its cursor (each position once, in order, no gap); on the move-out flavour (MPMC, views included) every recorded delivery for position p handed over exactly the p-th claimed value; on every flavour a consumer at its committing step whose cursor is its attempt position holds the p-th claimed value (broadcast: the source its clone was made from); a slot whose tag is a position holds that position's value unless a writer is between its cell write and its tag store. The delivery theorems are over mreachN (every execution without the publishing step of known finding F11, named by the predicate f11_bad; see C03) and assume fewer than 2^62 handles ever created and values ever claimed. PARTIAL: that a broadcast clone stays a clone of that source while the clone runs (pin invariant, C04) and the 2^63 wrap-around are not proved; 'accepted by a send' = 'claimed' is by C01_claim_appends_own_value." + CORR),
 "C02": ("proof", "Props/C02.v: a single claim log that no step of any execution reorders, rewrites or shortens (append-only), whose length is the head counter; the order of accepted values is fixed at the claiming steps; every commit of a consumer moves its stream's cursor from p to exactly p+1 (also on the plain-store paths of single-consumer handles, by the proved sole-consumer invariant); with Props/C01.v: every stream delivers consecutive positions in delivery order and (move-out flavour) the value delivered for position p is the p-th claimed value, so every stream sees the one claim order. PARTIAL: producer order and real-time order relate the claim order to call/return events and are checked by the oracle on real traces; broadcast value identity through clones is step-level only (see C01)." + CORR),
 "C03": ("proof", "Props/C03.v: (1) the window invariant, for every configuration, population of handles and interleaving of micro-steps (states in the middle of calls included): no registered stream's cursor is ahead of the head counter and head <= cursor + N for every registered stream (at most N claimed-but-unconsumed values per stream); a sender about to claim (plain store or compare-exchange) claims a position < cursor + N for every registered stream, so the slot of an unconsumed value is never claimed again; a consumer that matched the tag of its position reads a claimed position. Proved by induction over the restricted reachability mreachN = all micro-steps except the publishing compare-exchange of add_stream succeeding after the parent cursor moved (exactly known finding F11, named by the predicate f11_bad); an Example shows that with that one step the statement is false in the model (the F11 witness), so the exclusion is necessary, and a second Example exhibits a covered state with the ring exactly full. (2) capacity = least power of two >= max(1, request) for all requests below 2^62-1; exact meaning of the producers' full test and of the scan distance under the no-wrap bound. PARTIAL: counters are assumed below 2^62 (stated in the theorems: fewer than 2^62 handles ever created and fewer than 2^62 values ever claimed), i.e. the 63-bit wrap-around of positions is not covered; that a slot's payload is not dropped or overwritten while unconsumed additionally needs the slot/tag invariant (C01/C04), which is not proved." + CORR),
 "C04": ("proof", "Props/C04.v, over mreachN (all configurations, populations, interleavings; without the F11 step; counters below 2^62): a consumer between reading a cell and committing (cloning, viewing, about to commit) whose stream's cursor still is its attempt position holds exactly the value the claiming send of that position wrote - one send's whole value, written before that send published the tag; a consumer that matched a tag looks at a slot that has been written and is not older than its position, and its position is claimed; a send that has claimed and not yet published (about to write the cell, or just wrote it) holds a position not behind any cursor and less than N ahead of every registered cursor, and no other send in progress shares its slot - so the cell it overwrites holds a value every stream has consumed. PARTIAL: that the cell stays untouched for the whole duration of a clone/view by a consumer that shares its stream (reference-count/pin invariant) and that the value has not been dropped (ownership ledger) are not proved: the model flags such accesses (g_bad) and the correspondence and oracle decide them on real traces." + CORR),
 "C07": ("proof", "Props/C07.v: in every reachable state the writers counter that receivers test before reporting the end equals the number of live sender handles, through clones and drops at any moment; a live sender handle keeps it positive; once it is zero no step makes it non-zero again (the end is final). PARTIAL: 'the stream is drained when the end is reported' is not proved." + CORR),
 "C10": ("proof", "Props/C10.v: the allocating step of add_stream initialises the new cursor with the parent's cursor as it is at that step; no step of any agent writes the cursor of a stream still in flight (only its creator knows it), so it is published with exactly that position; a published stream is in the published list as long as its creator or a handle holds it. Backpressure for the new stream: the window invariant of Props/C03.v (head <= cursor + N for every registered stream, new ones included) holds in every execution without the F11 step. PARTIAL: gap-free delivery from there on is not proved (for a parent shared with a concurrently receiving sibling the start position is stale: known finding F11)." + CORR),
 "C16": ("proof", "Props/C16.v (the part of the argument that does not depend on the epoch protocol): stream-list identifiers are allocated fresh, a list is never modified after allocation, the published identifier and every identifier an agent works on are allocated ones, and the list a publishing compare-exchange installs is the list it read plus/minus one stream - so the pointer re-validation of a scan compares identities of unmodified lists. PARTIAL: 'no freed object is ever dereferenced or freed twice' (epoch invariant I10) is not proved; the model flags such accesses and the correspondence compares them with the quarantine allocator of the harness." + CORR),
 "C08": ("proof", "Props/C08.v: adequacy of the wait condition (wait.rs check) for all sequence numbers below 2^62: released when no sender is left, when the awaited position is published, when the slot has moved past it; not released on a never-written slot or an older value while a sender lives. PARTIAL: the pending-notification invariant (no lost wake-up across lock/condvar steps) is not proved; fairness of the OS scheduler cannot be expressed." + CORR),
 "C11": ("proof", "Props/C11.v: the first step of unsubscribe/drop records whether the handle's own decrement found the count at 1; no later step of that call changes the record in any reachable state; the last step reports exactly that record; the compare-exchange that publishes the shortened list installs exactly the current list minus the leaving handle's stream, and at that moment no agent has any weight on that stream. The producers' scan and the window invariant (Props/C03.v) quantify over the streams of the current list only, so a removed stream is not consulted by any scan that loads the list after the publishing compare-exchange. PARTIAL: the wake-up of a sender blocked on the removed stream's position is checked by the oracle only." + CORR),
 "C12": ("proof", "Props/C12.v: the mode invariant in every reachable state, for clones/drops/conversions at any moment: writers = number of live sender handles and a sender in single-writer mode is the only live sender; for every stream the consumer count equals the total weight of the agents on it (handles, clones in flight, a stream in flight) and a handle that behaves as the only consumer (single-consumer mode, single-consumer receiver type, or an attempt that found the count at one) is the only agent with weight on its stream. These make the plain stores to the head counter and to the cursors sound (C01/C02 files). PARTIAL: observational equivalence of the modes for delivered values (slot invariant) is not proved." + CORR),
 "C13": ("proof", "Props/C13.v: NO_READER is sticky across every step; try_send tests the signal word it loaded; the test step of a send that loaded the flag returns Disconnected with its own value and claims nothing; in every reachable state whoever is past the test loaded a word without the flag. PARTIAL: that the flag is set when the last receiver's drop returns (stream-registry invariant) is not proved." + CORR),
 "C15": ("proof", "Props/C15.v: in every reachable state a task call (poll, start_send, poll_complete) is never at a program counter of the blocking wait strategies (no condvar wait, no Wait::wait loop inside the call). PARTIAL: NotReady identity and equality with the plain handles are not proved." + CORR),
 "C18": ("proof", "Props/C18.v: in every reachable state an agent inside try_send/try_recv/try_recv_view is never at a program counter of a wait strategy, of the futures park path or of the futures send loop; the control invariant (well-formed call stack, call/program-counter/side consistency) holds for all agents. PARTIAL: bounded solo termination (ranking function) is not proved." + CORR),
}
OTHER = ["C05", "C06", "C09", "C14", "C17"]

checks = []
for pid in ["C%02d" % i for i in range(1, 19)]:
    if pid in P:
        cat, text = P[pid]
        tech = "Rocq/Coq proof (invariants by induction over all executions of the micro-step model) + per-step model/implementation correspondence + oracle search"
        note = TB
    else:
        cat = "other"
        text = ("No theorem of its own yet. " + propcfg.NO_THEOREM[pid] + ". Theorems proved about the same model that the check rests on: control invariant "
                "(Ctl.v), writers-count invariant (InvWriters.v), head = |claim log| (InvHead.v), window invariant (InvWin.v), slot invariant (InvSlot.v).")
        tech = "per-step correspondence between the real code and the executable Coq model + property oracle on real traces (no property theorem yet)"
        note = TB + " For this property the Coq development contributes the executable model only."
    checks.append({
        "property_id": pid,
        "quick_cmd": "./check %s --tier quick" % pid,
        "thorough_cmd": "./check %s --tier thorough" % pid,
        "evidence_file": "/verif/evidence/%s.json" % pid,
        "replay_cmd_template": "./check %s --replay {path}" % pid,
        "engine": "check",
        "level_claimed": {"category": cat, "text": text, "design_ref": "DESIGN.md section 7 %s and section 12 (status)" % pid},
        "level_note": note,
        "technique": tech,
    })
checks.append(c19)
old["checks"] = checks
old["engines"][0]["serves_properties"] = [c["property_id"] for c in checks]
old["not_applicable"] = []
old["notes"] = ("see DESIGN.md (section 12: what is proved, what is partial); every check rebuilds the Coq development, the extracted model "
                "and the harness from the current trees; known findings in known_findings.json; seeded mutants in seeded/")
json.dump(old, open(os.path.join(ROOT, "MANIFEST.json"), "w"), indent=1)
print("checks", len(checks))
