#!/usr/bin/env python3
"""Scenario generators shared by the checks.  Everything random derives from one
random.Random(seed).  A scenario is (cfg, per-agent scripts, schedule tokens)."""
import random

class Scn:
    def __init__(self, name, fl, kind, cap, wk, sf, sy, scripts, sched, limit=3000, tags=()):
        self.name, self.fl, self.kind, self.cap, self.wk, self.sf, self.sy = name, fl, kind, cap, wk, sf, sy
        self.scripts, self.sched, self.limit, self.tags = scripts, sched, limit, tuple(tags)
    def text(self):
        out = ["scenario %s" % self.name,
               "cfg %s %s %d %s %d %d" % (self.fl, self.kind, self.cap, self.wk, self.sf, self.sy),
               "limit %d" % self.limit]
        for a in sorted(self.scripts):
            out.append("script %d %s" % (a, " ".join(self.scripts[a])))
        # keep lines reasonably short
        toks = list(self.sched)
        for i in range(0, max(len(toks), 1), 200):
            out.append("sched " + " ".join(toks[i:i + 200]))
        out.append("end")
        return "\n".join(out) + "\n"
    def ncalls(self):
        return sum(len(v) for v in self.scripts.values())

def pick_cfg(rng, want_kind=None, want_fl=None, blocking_ok=True):
    fl = want_fl or rng.choice("BM")
    kind = want_kind or rng.choice(["plain", "plain", "fut"])
    cap = rng.choice([0, 1, 1, 2, 2, 3, 4, 4, 5, 8, 9])
    if kind == "fut":
        if fl == "M":
            wk, sf, sy = "fut", 50, 50
        else:
            wk, sf, sy = "fut", rng.choice([0, 0, 1, 2]), rng.choice([0, 0, 1, 2])
    else:
        wk = rng.choice(["busy", "yield", "block"] if blocking_ok else ["busy", "yield"])
        if wk == "busy":
            sf = sy = 0
        else:
            sf, sy = rng.choice([0, 0, 1, 2]), rng.choice([0, 0, 1, 2])
    return fl, kind, cap, wk, sf, sy

class Pop:
    """Static population bookkeeping while scripts are generated."""
    def __init__(self, rng, fl, kind, max_agents=6, allow_block=True, allow_convert=True, allow_f12=False):
        self.rng, self.fl, self.kind = rng, fl, kind
        self.scripts = {0: [], 1: []}
        self.role = {0: "S", 1: "R"}          # S sender, R receiver, U uni receiver
        self.stream = {1: 0}                   # agent -> stream id (static)
        self.shared = {0: False}               # stream -> has (had) more than one handle
        self.nstream = 1
        self.open = [0, 1]                     # agents whose script may still grow
        self.next_agent = 2
        self.next_val = 1
        self.max_agents = max_agents
        self.allow_block, self.allow_convert, self.allow_f12 = allow_block, allow_convert, allow_f12
        self.fut = kind == "fut"
    def new_agent(self, role, stream=None):
        a = self.next_agent; self.next_agent += 1
        self.scripts[a] = []; self.role[a] = role
        if stream is not None: self.stream[a] = stream
        self.open.append(a)
        return a
    def val(self):
        v = self.next_val; self.next_val += 1; return v
    def step(self, a):
        """append one call to agent a's script"""
        rng, sc, role = self.rng, self.scripts[a], self.role[a]
        can_spawn = self.next_agent < self.max_agents
        if role == "S":
            r = rng.random()
            if r < 0.12 and can_spawn:
                b = self.new_agent("S"); sc.append("clone:%d" % b)
            elif self.fut and r < 0.55:
                sc.append(("asend:%d" if rng.random() < 0.4 else "ssend:%d") % self.val())
            elif self.fut and r < 0.6:
                sc.append("pollc")
            else:
                sc.append("send:%d" % self.val())
        elif role == "R":
            st = self.stream[a]
            r = rng.random()
            if r < 0.10 and can_spawn:
                b = self.new_agent("R", st); self.shared[st] = True; sc.append("clone:%d" % b)
            elif r < 0.20 and can_spawn and self.fl == "B":
                ns = self.nstream; self.nstream += 1; self.shared[ns] = False
                b = self.new_agent("R", ns); sc.append("addstream:%d" % b)
            elif r < 0.27 and self.allow_convert and not self.shared[st] and not self._will_share(st):
                sc.append("intosingle"); self.role[a] = "U"; self.shared[st] = None  # frozen solo
            elif self.fut and r < 0.65:
                sc.append("apoll" if rng.random() < 0.35 else "poll")
            elif r < 0.72 and self.allow_block:
                sc.append("brecv")
            else:
                sc.append("recv")
        elif role == "U":
            r = rng.random()
            if self.fut:
                if r < 0.08:
                    sc.append("intomulti"); self.role[a] = "R"; ns = self.nstream; self.nstream += 1
                    self.stream[a] = ns; self.shared[ns] = False
                elif r < 0.14:
                    sc.append("transform"); ns = self.nstream; self.nstream += 1
                    self.stream[a] = ns; self.shared[ns] = None
                elif r < 0.20 and can_spawn and (self.fl == "B" or self.allow_f12):
                    ns = self.nstream; self.nstream += 1; self.shared[ns] = None
                    b = self.new_agent("U", ns); sc.append("addstream:%d" % b)
                elif r < 0.65:
                    sc.append("apoll" if rng.random() < 0.35 else "poll")
                elif r < 0.72 and self.allow_block:
                    sc.append("brecv")
                else:
                    sc.append("recv")
            else:
                if r < 0.10:
                    sc.append("intomulti"); self.role[a] = "R"; self.shared[self.stream[a]] = False
                elif r < 0.45:
                    sc.append("view")
                elif r < 0.55 and self.allow_block:
                    sc.append("bview")
                elif r < 0.62 and self.allow_block:
                    sc.append("brecv")
                else:
                    sc.append("recv")
    def _will_share(self, st):
        return False
    def close(self, a):
        role = self.role[a]
        if role == "S":
            self.scripts[a].append("drop")
        else:
            self.scripts[a].append(self.rng.choice(["drop", "unsub"]))
        self.open.remove(a)

def gen_scripts(rng, fl, kind, ncalls, **kw):
    pop = Pop(rng, fl, kind, **kw)
    budget = ncalls
    while budget > 0 and pop.open:
        a = rng.choice(pop.open)
        # weight: keep the first sender and first receiver busy
        pop.step(a); budget -= 1
        if len(pop.scripts[a]) > 2 and rng.random() < 0.06 and len(pop.open) > 1:
            pop.close(a)
    for a in list(pop.open):
        pop.close(a)
    # an agent created by a clone that got no call of its own still needs to drop its handle
    return pop.scripts

def sched_seq(rng, scripts):
    """every call runs to completion before the next starts (single-threaded history)"""
    toks = []
    remaining = {a: len(s) for a, s in scripts.items()}
    born = {0, 1}
    # creation order is static: an agent can run once its creator has issued the creating call
    pending_births = {}
    for a, s in scripts.items():
        for i, c in enumerate(s):
            if c.startswith("clone:") or c.startswith("addstream:"):
                pending_births[(a, i)] = int(c.split(":")[1])
    done = {a: 0 for a in scripts}
    while any(remaining[a] > 0 for a in born):
        a = rng.choice([x for x in born if remaining[x] > 0])
        toks.append("%d*" % a)
        if (a, done[a]) in pending_births:
            born.add(pending_births[(a, done[a])])
        done[a] += 1; remaining[a] -= 1
    return toks

def sched_rand(rng, scripts, length):
    ags = sorted(scripts)
    toks = []
    cur = rng.choice(ags)
    stick = rng.choice([0.3, 0.6, 0.85, 0.95])
    for _ in range(length):
        if rng.random() > stick:
            cur = rng.choice(ags)
        t = str(cur)
        if rng.random() < 0.02:
            t += "!"
        elif rng.random() < 0.03:
            t += "*"
        toks.append(t)
    return toks

def gen_seq(rng, i, **kw):
    fl, kind, cap, wk, sf, sy = pick_cfg(rng, kw.pop("kind", None), kw.pop("fl", None))
    n = rng.choice([6, 10, 20, 40, 80])
    # in a sequential history a blocking receive on an empty queue with a live sender never returns
    scripts = gen_scripts(rng, fl, kind, n, allow_block=False, **kw)
    return Scn("seq%d" % i, fl, kind, cap, wk, sf, sy, scripts, sched_seq(rng, scripts), tags=("seq",))

def gen_rand(rng, i, **kw):
    fl, kind, cap, wk, sf, sy = pick_cfg(rng, kw.pop("kind", None), kw.pop("fl", None))
    n = rng.choice([6, 10, 16, 30])
    scripts = gen_scripts(rng, fl, kind, n, **kw)
    return Scn("rnd%d" % i, fl, kind, cap, wk, sf, sy, scripts,
               sched_rand(rng, scripts, rng.choice([40, 120, 400])), tags=("rand",))
