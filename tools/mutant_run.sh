#!/bin/bash
# mutant_run.sh <id> <check> [<check>...]: apply /verif/seeded/<id>/patch.diff to /repo, run the quick checks,
# restore /repo.  Prints one line per check (CAUGHT / missed) and records them in seeded/<id>/result.json.
id=$1; shift
cd /repo && git diff --quiet || { echo "/repo is dirty"; exit 2; }
git -C /repo apply /verif/seeded/$id/patch.diff || { echo "patch does not apply"; exit 3; }
cd /verif
res="/verif/seeded/$id/result.json"
echo "{" > $res.tmp
first=1
for p in "$@"; do
  out=$(./check $p --tier quick 2>&1 | grep -v conda)
  v=$(echo "$out" | grep '^VIOLATION' | head -1)
  if [ -n "$v" ]; then
     echo "$id $p CAUGHT: $v"
     rp=$(echo "$v" | sed 's/.*replay=\([^ ]*\).*/\1/')
     stage=$(python3 -c "import json,sys;d=json.load(open('$rp'));print(d.get('stage','?'))" 2>/dev/null)
     kind="concrete-replay"; echo "$v" | grep -q "no-failing-input-found" && kind="no-failing-input-found"
     ent="\"$p\": {\"caught\": true, \"stage\": \"$stage\", \"kind\": \"$kind\"}"
  else
     echo "$id $p missed: $(echo "$out" | tail -1)"
     ent="\"$p\": {\"caught\": false}"
  fi
  [ $first = 1 ] || echo "," >> $res.tmp
  first=0
  echo " $ent" >> $res.tmp
done
echo "}" >> $res.tmp
mv $res.tmp $res
git -C /repo checkout -- .
cd /verif && ./build.sh >/dev/null 2>&1
