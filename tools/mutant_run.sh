#!/bin/bash
# mutant_run.sh <id> <check> [<check>...]: apply /verif/seeded/<id>/patch.diff to /repo, run the quick checks,
# restore /repo.  Prints one line per check: caught / missed.
id=$1; shift
cd /repo && git diff --quiet || { echo "/repo is dirty"; exit 2; }
git -C /repo apply /verif/seeded/$id/patch.diff || { echo "patch does not apply"; exit 3; }
cd /verif
for p in "$@"; do
  out=$(./check $p --tier quick 2>&1 | grep -v conda)
  if echo "$out" | grep -q "^VIOLATION"; then
     echo "$id $p CAUGHT: $(echo "$out" | grep '^VIOLATION' | head -2 | tr '\n' ' ')"
  else
     echo "$id $p missed: $(echo "$out" | tail -1)"
  fi
done
git -C /repo checkout -- .
cd /verif && ./build.sh >/dev/null 2>&1
