#!/usr/bin/env python3
"""check <Cxx> [--tier quick|thorough] [--replay file]

One property check = proof stage (Coq) + correspondence stage (model vs. real code, per step)
+ oracle stage (property oracles on the real-code traces) + known-finding witnesses.
Exit 0: the property held on everything explored.  Exit 1 + a line
`VIOLATION property=<id> replay=<path>` otherwise."""
import sys, os, re, json, time, hashlib, random, subprocess, shutil, glob

HERE = os.path.dirname(os.path.abspath(__file__))
ROOT = os.path.dirname(HERE)
sys.path.insert(0, HERE)
import scen, corr, oracle, propcfg

COQ = os.path.join(ROOT, "coq")
FORBIDDEN = re.compile(r"\b(Admitted|admit|Axiom|Axioms|Parameter|Parameters|Conjecture|Conjectures|Unset\s+Guard|bypass_check|type-in-type|impredicative-set|Admit\s+Obligations)\b")
AXIOM_ALLOW = set()   # no axiom is needed anywhere in the development

def sh(cmd, timeout=None, cwd=None, env=None):
    return subprocess.run(cmd, shell=isinstance(cmd, str), cwd=cwd, timeout=timeout, env=env,
                          capture_output=True, text=True)

def strip_comments(src):
    out, depth, i = [], 0, 0
    while i < len(src):
        if src.startswith("(*", i):
            depth += 1; i += 2
        elif src.startswith("*)", i) and depth > 0:
            depth -= 1; i += 2
        else:
            if depth == 0:
                out.append(src[i])
            i += 1
    return "".join(out)

# ----------------------------------------------------------------------------- build
def build():
    r = sh([os.path.join(ROOT, "build.sh")], timeout=3600)
    if r.returncode != 0:
        return False, (r.stdout + r.stderr)[-3000:]
    return True, ""

# ----------------------------------------------------------------------------- proof stage
def proof_stage(pid, tier):
    """-> dict(ok, obligations, discharged, theorems, assumptions, detail)"""
    pf = os.path.join(COQ, "theories", "Props", pid + ".v")
    res = {"ok": False, "obligations": 0, "discharged": 0, "theorems": [], "axioms": [], "detail": "",
           "checker_cmd": "make -C coq theories/Props/%s.vo && coqc -Q theories MQ theories/Props/%s.v (Print Assumptions, pinned statements)" % (pid, pid)}
    if not os.path.exists(pf):
        res["detail"] = "no property file " + pf
        return res
    src = strip_comments(open(pf).read())
    thms = re.findall(r"^\s*(?:Theorem|Example|Corollary)\s+([A-Za-z0-9_']+)", src, re.M)
    pins = re.findall(r"^\s*Check\s+([A-Za-z0-9_']+)\s*:", src, re.M)
    res["theorems"] = thms
    res["obligations"] = len(thms)
    need_pin = re.findall(r"^\s*(?:Theorem|Corollary)\s+([A-Za-z0-9_']+)", src, re.M)
    unpinned = [t for t in need_pin if t not in pins]
    # forbidden words anywhere in the development
    bad = []
    for f in glob.glob(os.path.join(COQ, "**", "*.v"), recursive=True):
        body = strip_comments(open(f).read())
        for m in FORBIDDEN.finditer(body):
            bad.append("%s: %s" % (os.path.relpath(f, ROOT), m.group(0)))
    if bad:
        res["detail"] = "forbidden declarations: " + "; ".join(bad[:5])
        return res
    if unpinned:
        res["detail"] = "theorems without a pinned statement (Check name : stmt.): " + ", ".join(unpinned)
        return res
    # the generated boilerplate must be what the generator produces
    g = sh([sys.executable, os.path.join(HERE, "gensetters.py")])
    if g.stdout != open(os.path.join(COQ, "theories", "State.v")).read():
        res["detail"] = "coq/theories/State.v differs from the output of tools/gensetters.py"
        return res
    r = sh("timeout 3000 make -C %s theories/Props/%s.vo" % (COQ, pid), timeout=3100)
    if r.returncode != 0:
        res["detail"] = "make failed: " + (r.stdout + r.stderr)[-1500:]
        return res
    # the output of the property file (Print Assumptions, pinned statements) is cached per compiled file.  When make
    # has just (re)compiled the file, what it printed is that output; otherwise the cache written by the run that
    # compiled it is used, and if there is none the file is compiled once more by hand.
    vo = os.path.join(COQ, "theories", "Props", pid + ".vo")
    cache = os.path.join(ROOT, "work", "proofcache", pid + ".out")
    os.makedirs(os.path.dirname(cache), exist_ok=True)
    marker = "COQC theories/Props/%s.v" % pid
    if marker in r.stdout:
        out = r.stdout[r.stdout.index(marker):]
        with open(cache, "w") as f:
            f.write(out)
    elif os.path.exists(cache) and os.path.exists(vo) and os.path.getmtime(cache) >= os.path.getmtime(vo) \
            and os.path.getmtime(cache) >= os.path.getmtime(pf):
        out = open(cache).read()
    else:
        r = sh("timeout 2400 coqc -Q theories MQ theories/Props/%s.v" % pid, cwd=COQ, timeout=2500)
        if r.returncode != 0:
            res["detail"] = "coqc failed: " + (r.stdout + r.stderr)[-1500:]
            return res
        out = r.stdout
        with open(cache, "w") as f:
            f.write(out)
    closed = out.count("Closed under the global context")
    axioms = []
    for m in re.finditer(r"Axioms:\s*\n((?:.+\n?)+?)(?:\n|$)", out):
        for ln in m.group(1).splitlines():
            nm = ln.strip().split(" ")[0].split(":")[0]
            if nm:
                axioms.append(nm)
    res["axioms"] = sorted(set(axioms))
    printed = closed + len(re.findall(r"^Axioms:", out, re.M))
    npa = len(re.findall(r"^\s*Print\s+Assumptions\s+", src, re.M))
    if npa < len(need_pin):
        res["detail"] = "Print Assumptions missing under some theorem"
        return res
    notallowed = [a for a in res["axioms"] if a not in AXIOM_ALLOW]
    if notallowed:
        res["detail"] = "axioms outside the allowlist: " + ", ".join(notallowed)
        return res
    if printed < npa:
        res["detail"] = "could not read every Print Assumptions result"
        return res
    if tier == "thorough":
        # independent re-check of the property file with coqchk.  Re-checking the whole development under it takes hours
        # (the case analyses over all program counters), so the per-property run re-checks the property file itself
        # (-norec: its dependencies are loaded as compiled by coqc) and reports whether tools/coqchk_all.sh, which re-checks
        # every file of the development, has been run on the compiled files as they are now.
        r = sh("timeout 3000 coqchk -silent -o -Q theories MQ -norec MQ.Props.%s" % pid, cwd=COQ, timeout=3100)
        res["coqchk"] = (r.stdout + r.stderr)[-800:]
        if r.returncode != 0:
            res["detail"] = "coqchk failed: " + res["coqchk"]
            return res
        mods = [l.strip()[len("theories/"):-2].replace("/", ".") for l in open(os.path.join(COQ, "_CoqProject")) if l.strip().startswith("theories/") and l.strip().endswith(".v")]
        okm = 0
        for m in mods:
            vo = os.path.join(COQ, "theories", m.replace(".", "/") + ".vo")
            okf = os.path.join(ROOT, "work", "coqchk", m + ".ok")
            if os.path.exists(vo) and os.path.exists(okf) and open(okf).read().strip() == str(int(os.path.getmtime(vo))):
                okm += 1
        full = "%d of %d modules re-checked as compiled now" % (okm, len(mods))
        res["coqchk_full"] = full
        res["checker_cmd"] += " ; coqchk -silent -o -Q theories MQ -norec MQ.Props.%s (whole-development coqchk by tools/coqchk_all.sh: %s)" % (pid, full)
    res["discharged"] = len(thms)
    res["ok"] = True
    return res

# ----------------------------------------------------------------------------- scenarios
def make_scenarios(pid, tier, seed):
    cfg = propcfg.PROPS[pid]
    rng = random.Random((seed * 1000003) ^ (int(pid[1:]) * 7919))
    mult = cfg.get("thorough_mult", 8) if tier == "thorough" else 1
    scns = []
    # minimised corpus first
    for path in sorted(glob.glob(os.path.join(ROOT, "corpus", "*.scn"))):
        scns.extend(propcfg.load_scn_file(path))
    for (gname, count, kw) in cfg["gens"]:
        gen = propcfg.GENS[gname]
        for i in range(count * mult):
            s = gen(rng, len(scns), **dict(kw))
            if s is not None:
                s.name = "%s_%s_%d" % (pid, gname, len(scns))
                scns.append(s)
    return scns

def explore_scenarios(pid, tier, seed, workdir):
    """exhaustive schedules of the small scenarios of the property (enumerated on the model)"""
    cfg = propcfg.PROPS[pid]
    out = []
    smalls = cfg.get("small", [])
    if not smalls:
        return out, 0
    pb, maxn, maxlen = cfg.get("explore", (2, 150, 400))
    if tier == "thorough":
        pb, maxn = pb + 1, maxn * 10
    path = os.path.join(workdir, "small.txt")
    with open(path, "w") as f:
        for i, s in enumerate(smalls):
            s.name = "%s_small%d" % (pid, i)
            f.write(s.text())
    r = sh([corr.DRIVER, "explore", path, str(pb), str(maxn), str(maxlen)], timeout=1200)
    exp = propcfg.parse_scn_text(r.stdout)
    for s in exp:
        s.tags = ("explore",)
    return exp, len(smalls)

# ----------------------------------------------------------------------------- verdict
def write_replay(pid, obj):
    os.makedirs(os.path.join(ROOT, "replays"), exist_ok=True)
    h = hashlib.sha1(json.dumps(obj, sort_keys=True).encode()).hexdigest()[:10]
    p = os.path.join(ROOT, "replays", "%s-%s.json" % (pid, h))
    with open(p, "w") as f:
        json.dump(obj, f, indent=1)
    return p

def load_known():
    p = os.path.join(ROOT, "known_findings.json")
    if os.path.exists(p):
        return json.load(open(p))
    return {"findings": [], "fixed": []}

def main():
    args = sys.argv[1:]
    pid = args[0]
    tier = os.environ.get("VERIF_TIER", "quick")
    if "--tier" in args:
        tier = args[args.index("--tier") + 1]
    seed = int(os.environ.get("VERIF_SEED", "20260926"))
    t0 = time.time()
    if "--replay" in args:
        return replay(pid, args[args.index("--replay") + 1])
    cfg = propcfg.PROPS[pid]
    evid = {"property_id": pid, "tier": tier, "seed": seed, "level": "proof", "coverage": {}, "assumptions": [],
            "wall_s": 0.0, "violations": 0}
    violations = []       # (replay obj, suffix)
    known_lines = []

    okb, detail = build()
    if not okb:
        violations.append(({"stage": "build", "detail": detail,
                            "no_longer_checks": "the Coq development, the extracted model or the harness does not build against /repo's current tree"},
                           "no-failing-input-found"))
    if cfg.get("custom"):
        # properties decided by their own engine (C19): it returns the same kind of record
        return propcfg.CUSTOM[pid](pid, tier, seed, evid, t0, finish)

    if pid in propcfg.NO_THEOREM:
        # no theorem of its own yet: the development must still build (it is what the correspondence runs)
        pr = {"ok": okb, "obligations": 0, "discharged": 0, "theorems": [], "axioms": [], "detail": "" if okb else "not built",
              "checker_cmd": "make -C coq (the whole development, full .vo build)"}
        evid["level"] = "other"
    else:
        pr = proof_stage(pid, tier) if okb else {"ok": False, "obligations": 0, "discharged": 0, "theorems": [], "axioms": [], "detail": "not built", "checker_cmd": ""}
    workdir = os.path.join(ROOT, "work", pid)
    shutil.rmtree(workdir, ignore_errors=True)
    os.makedirs(workdir, exist_ok=True)
    results, nsmall = [], 0
    if okb:
        scns = make_scenarios(pid, tier, seed)
        exp, nsmall = explore_scenarios(pid, tier, seed, workdir)
        scns = scns + exp
        names = set()
        for i, s in enumerate(scns):
            if s.name in names:
                s.name = "%s_%d" % (s.name, i)
            names.add(s.name)
        results = corr.run_all(scns, workdir, brief=False)

    known = load_known()
    # ---- oracle stage on the real traces, classification of hits
    diverging, hits, kc_hits = [], [], []
    distinct, nontrivial = set(), 0
    dist = {"calls": {}, "rets": {}, "outcomes": {}, "cfg": {}}
    steps_compared = 0
    samples = []
    for d in results:
        s = d["scn"]
        steps_compared += d["steps"]
        if d["diverge"]:
            diverging.append(d)
        rl = d.get("real_lines")
        if rl is None:
            continue
        n = propcfg.cap_n(s.cap)
        st = oracle.parse_trace(rl)
        h = oracle.Hist(s, st, d["real_end"], n)
        key = hashlib.sha1("\n".join(x for x in rl if x and x[0].isdigit()).encode()).hexdigest()
        if key not in distinct:
            distinct.add(key)
            if propcfg.nontrivial(pid, h):
                nontrivial += 1
        for c in h.calls:
            dist["calls"][c.name] = dist["calls"].get(c.name, 0) + 1
            r = (c.ret or "unfinished").split(":")[0]
            dist["rets"][r] = dist["rets"].get(r, 0) + 1
        oc = d["real_end"]["outcome"]
        dist["outcomes"][oc] = dist["outcomes"].get(oc, 0) + 1
        ck = "%s/%s/%s" % (s.fl, s.kind, s.wk)
        dist["cfg"][ck] = dist["cfg"].get(ck, 0) + 1
        vs = []
        for o in cfg["oracles"]:
            vs.extend(propcfg.ORACLES[o](h))
        if vs:
            cls = propcfg.known_class(pid, h, known, vs)
            (kc_hits if cls else hits).append((d, vs, cls))
        if len(samples) < 3 and d["steps"] > 10:
            samples.append({"scenario": s.text(), "first_steps": [x for x in rl if x and x[0].isdigit()][:12],
                            "outcome": oc})

    for (d, vs, cls) in kc_hits:
        line = "KNOWN-FINDING: property=%s %s" % (pid, cls["what_fails"])
        if line not in known_lines:
            known_lines.append(line)
    # listed witnesses are replayed explicitly
    for kf in known.get("findings", []):
        if pid in kf["properties"]:
            st = propcfg.replay_witness(kf, workdir)
            line = "KNOWN-FINDING: property=%s %s" % (pid, kf["what_fails"])
            if st == "fails" and line not in known_lines:
                known_lines.append(line)
            evid["coverage"].setdefault("witness_replays", []).append({"class": kf["class"], "status": st})

    # ---- search mode: something diverged and no oracle hit yet: run the same scenarios on the real code with
    # payload destructors as scheduling points (interleavings the lock-step comparison cannot produce)
    if diverging and not hits and okb:
        cand = [d["scn"] for d in results if d["scn"] is not None]
        # the diverging scenarios again under many fresh random schedules
        srng = random.Random(seed ^ 0x5eac4)
        k = 0
        for d in sorted(diverging, key=lambda x: x["steps"])[:40]:
            s0 = d["scn"]
            if s0 is None:
                continue
            for _ in range(24 if tier == "quick" else 120):
                k += 1
                cand.append(scen.Scn("%s_srch%d" % (s0.name, k), s0.fl, s0.kind, s0.cap, s0.wk, s0.sf, s0.sy, s0.scripts,
                                     scen.sched_rand(srng, s0.scripts, srng.choice([40, 120, 300])), s0.limit, s0.tags))
        srch = corr.run_real_only(cand, os.path.join(workdir, "search"), {"MQX_DROPYIELD": "1"})
        evid["coverage"]["search_runs"] = len(srch)
        for (s, rl, endi) in srch:
            if s is None:
                continue
            h = oracle.Hist(s, oracle.parse_trace(rl), endi, propcfg.cap_n(s.cap))
            vs = []
            for o in cfg["oracles"]:
                vs.extend(propcfg.ORACLES[o](h))
            if vs and not propcfg.known_class(pid, h, known, vs):
                hits.append(({"scn": s, "steps": len(h.steps), "real_lines": rl, "search_env": "MQX_DROPYIELD=1"}, vs, None))
    if hits:
        d, vs, _ = min(hits, key=lambda x: x[0]["steps"])
        violations.append(({"stage": "oracle", "property": pid, "violation": vs[0], "all": vs[:5],
                            "scenario": d["scn"].text(), "real_trace": d.get("real_lines", [])[:4000], "search_env": d.get("search_env", ""),
                            "replay_cmd": "./check %s --replay <this file>" % pid}, ""))
    elif diverging or not pr["ok"]:
        # something that the claim rests on no longer checks; a search for a failing input was part
        # of this run (every oracle of the property ran on every real trace) and found nothing
        if not pr["ok"]:
            violations.append(({"stage": "proof", "no_longer_checks": pr["detail"], "theorems": pr["theorems"]},
                               "no-failing-input-found"))
        if diverging:
            d = min(diverging, key=lambda x: x["diverge"][0])
            i, a, b = d["diverge"]
            violations.append(({"stage": "correspondence",
                                "no_longer_checks": "model and implementation disagree at line %d of the trace" % i,
                                "model": a, "real": b, "scenario": d["scn"].text(),
                                "context": d["model_lines"][max(0, i - 8):i],
                                "diverging_scenarios": len(diverging)}, "no-failing-input-found"))

    cov = evid["coverage"]
    cov.update({
        "obligations": pr["obligations"], "discharged": pr["discharged"],
        "checker_cmd": pr.get("checker_cmd", ""),
        "trusted_base": propcfg.trusted_base(pid, pr),
        "theorems": pr["theorems"],
        "axioms_reported": pr["axioms"],
        "traces_validated_against_impl": len(results) - len(diverging),
        "steps_compared": steps_compared,
        "evaluations": len(results),
        "distinct_nontrivial": nontrivial,
        "rule": propcfg.PROPS[pid].get("rule", "seeded scenario generators (tools/scen.py, tools/propcfg.py) plus model-enumerated schedules of the small scenarios; distinct = different canonical step sequences; non-trivial = " + propcfg.nontrivial_rule(pid)),
        "samples": samples,
        "exhaustive_small": {"scenarios": nsmall, "schedules": sum(1 for d in results if "explore" in (d["scn"].tags or ()))},
        "input_distribution": dist,
        "diverging": len(diverging),
        "oracle_hits": len(hits), "known_class_hits": len(kc_hits),
    })
    evid["assumptions"] = propcfg.assumptions(pid)
    if pid in propcfg.NO_THEOREM:
        cov["explanation"] = propcfg.NO_THEOREM[pid]
    return finish(pid, evid, violations, known_lines, t0)

def finish(pid, evid, violations, known_lines, t0):
    evid["violations"] = len(violations)
    evid["wall_s"] = round(time.time() - t0, 2)
    os.makedirs(os.path.join(ROOT, "evidence"), exist_ok=True)
    with open(os.path.join(ROOT, "evidence", pid + ".json"), "w") as f:
        json.dump(evid, f, indent=1)
    for l in known_lines:
        print(l)
    if violations:
        for obj, suffix in violations:
            p = write_replay(pid, obj)
            print(("VIOLATION property=%s replay=%s %s" % (pid, p, suffix)).rstrip())
        return 1
    cov = evid["coverage"]
    print("OK property=%s obligations=%s/%s traces=%s steps=%s wall=%.1fs" % (
        pid, cov.get("discharged"), cov.get("obligations"), cov.get("traces_validated_against_impl"),
        cov.get("steps_compared"), evid["wall_s"]))
    return 0

def replay(pid, path):
    if path.endswith(".scn"):
        # a bare scenario file (corpus/, findings/): replay it as it is
        obj = {"scenario": open(path).read()}
    else:
        obj = json.load(open(path))
    if "scenario" not in obj:
        print(json.dumps(obj, indent=1)[:3000])
        return 0
    okb, detail = build()
    wd = os.path.join(ROOT, "work", "replay")
    os.makedirs(wd, exist_ok=True)
    scns = propcfg.parse_scn_text(obj["scenario"])
    if obj.get("search_env"):
        # found in search mode: payload destructors are scheduling points; only the real code runs
        k, v = obj["search_env"].split("=")
        for (s, rl, endi) in corr.run_real_only(scns, wd, {k: v}, jobs=1):
            for x in rl:
                if x and x[0].isdigit():
                    print("  " + x[:160])
            h = oracle.Hist(s, oracle.parse_trace(rl), endi, propcfg.cap_n(s.cap))
            for o in propcfg.PROPS[pid]["oracles"]:
                for vv in propcfg.ORACLES[o](h):
                    print("ORACLE", vv)
        return 0
    res = corr.run_all(scns, wd, brief=False, jobs=1)
    for d in res:
        print("scenario", d["name"], "diverge", d["diverge"])
        ml, rl = d["model_lines"], d.get("real_lines", [])
        for i in range(max(len(ml), len(rl))):
            a = ml[i] if i < len(ml) else ""
            b = rl[i] if i < len(rl) else ""
            if a and a[0].isdigit() or b and b[0].isdigit():
                print("%s %-70s | %s" % (" " if a == b else "!", a[:70], b[:90]))
        h = oracle.Hist(scns[0], oracle.parse_trace(rl), d["real_end"], propcfg.cap_n(scns[0].cap))
        for o in propcfg.PROPS[pid]["oracles"]:
            for v in propcfg.ORACLES[o](h):
                print("ORACLE", v)
    return 0

if __name__ == "__main__":
    sys.exit(main())
