#!/usr/bin/env python3
"""Translator for C19: reads the struct/enum declarations and the `unsafe impl Send/Sync`
headers of the crate's source files and regenerates coq/theories/Gen/Handles.v, the input of
the auto-trait model (TraitModel.v).  Run on every check, so the theorems of Props/C19.v are
re-checked against what the code says now."""
import re, sys, os

FILES = ["multiqueue.rs", "broadcast.rs", "mpmc.rs", "read_cursor.rs", "memory.rs", "countedindex.rs",
         "atomicsignal.rs", "wait.rs"]

def strip(src):
    src = re.sub(r"//[^\n]*", "", src)
    src = re.sub(r"/\*.*?\*/", "", src, flags=re.S)
    # drop test modules
    i = src.find("#[cfg(test)]")
    if i >= 0:
        src = src[:i]
    return src

class P:
    """tiny recursive-descent parser for Rust types"""
    def __init__(self, s):
        self.t = re.findall(r"[A-Za-z_][A-Za-z0-9_]*|'[a-z_]+|::|->|[<>\[\]\(\),;&\*\+:=!]|\d+", s)
        self.i = 0
    def peek(self):
        return self.t[self.i] if self.i < len(self.t) else None
    def eat(self, x=None):
        v = self.peek()
        if x is not None and v != x:
            raise ValueError("expected %s got %s in %s" % (x, v, self.t))
        self.i += 1
        return v
    def ty(self):
        v = self.peek()
        if v == "*":
            self.eat(); self.eat()  # const / mut
            return ("raw", self.ty())
        if v == "&":
            self.eat()
            if self.peek() and self.peek().startswith("'"):
                self.eat()
            if self.peek() == "mut":
                self.eat()
            return ("ref", self.ty())
        if v == "[":
            self.eat(); t = self.ty()
            if self.peek() == ";":
                self.eat(); self.eat()
            self.eat("]")
            return ("app", "Array", [t])
        if v == "(":
            self.eat(); args = []
            while self.peek() != ")":
                args.append(self.ty())
                if self.peek() == ",":
                    self.eat()
            self.eat(")")
            return ("app", "Tuple", args)
        if v == "dyn":
            self.eat(); self.path_with_args()
            send = sync = False
            while self.peek() == "+":
                self.eat(); b = self.eat()
                send |= b == "Send"; sync |= b == "Sync"
            return ("dyn", send, sync)
        if v == "unsafe" or v == "fn":
            if v == "unsafe":
                self.eat()
            self.eat("fn"); self.eat("(")
            depth = 1
            while depth:
                x = self.eat()
                depth += x == "("; depth -= x == ")"
            if self.peek() == "->":
                self.eat(); self.ty()
            return ("app", "FnPtr", [])
        name, args = self.path_with_args()
        return ("app", name, args)
    def path_with_args(self):
        name = self.eat()
        while self.peek() == "::":
            self.eat(); name = self.eat()
        args = []
        if self.peek() == "<":
            self.eat()
            while self.peek() != ">":
                if self.peek() and self.peek().startswith("'"):
                    self.eat()
                else:
                    args.append(self.ty())
                if self.peek() == ",":
                    self.eat()
            self.eat(">")
        if self.peek() == "(":   # FnMut(&T) -> R
            self.eat(); depth = 1
            while depth:
                x = self.eat()
                depth += x == "("; depth -= x == ")"
            if self.peek() == "->":
                self.eat(); self.ty()
        return name, args

def split_top(s, sep=","):
    out, depth, cur = [], 0, ""
    for ch in s:
        if ch in "<([":
            depth += 1
        elif ch in ">)]":
            depth -= 1
        if ch == sep and depth == 0:
            out.append(cur); cur = ""
        else:
            cur += ch
    if cur.strip():
        out.append(cur)
    return out

def parse_generics(g):
    """'RW: QueueRW<T>, R, F: FnMut(&T) -> R + Send, T: Send' -> [(name, [auto-trait bounds])]"""
    g = g.replace("->", "\x00")   # keep '>' of the arrow out of the depth count
    res = []
    for part in split_top(g):
        part = part.replace("\x00", "->").strip()
        if not part or part.startswith("'"):
            continue
        if ":" in part:
            name, b = part.split(":", 1)
            bounds = [x.strip() for x in split_top(b.replace("->", "\x00"), "+")]
            bounds = [x.replace("\x00", "->") for x in bounds]
            res.append((name.strip(), [x for x in bounds if x in ("Send", "Sync")]))
        else:
            res.append((part, []))
    return res

def scan(srcdir):
    structs, impls = [], []
    for fn in FILES:
        src = strip(open(os.path.join(srcdir, fn)).read())
        # empty structs first, so that their braces cannot swallow a later declaration
        for m in re.finditer(r"(?:pub\s+)?struct\s+([A-Za-z0-9_]+)\s*\{\s*\}", src):
            structs.append((m.group(1), [], []))
        src = re.sub(r"(?:pub\s+)?struct\s+[A-Za-z0-9_]+\s*\{\s*\}", "", src)
        for m in re.finditer(r"(?:pub\s+)?struct\s+([A-Za-z0-9_]+)\s*(?:<((?:[^<>{}]|<[^<>]*(?:<[^<>]*>)?[^<>]*>|->)*)>)?\s*(?:where[^{]*)?\{(.*?)\n\}", src, re.S):
            name, gen, body = m.group(1), m.group(2) or "", m.group(3)
            params = [n for n, _ in parse_generics(gen)]
            fields = []
            for f in split_top(re.sub(r"#\[[^\]]*\]", "", body)):
                f = f.strip()
                if not f:
                    continue
                f = re.sub(r"^pub(\([a-z]+\))?\s+", "", f)
                fname, ftype = f.split(":", 1)
                fields.append((fname.strip(), P(ftype.strip()).ty()))
            structs.append((name, params, fields))
        for m in re.finditer(r"(?:pub\s+)?enum\s+([A-Za-z0-9_]+)\s*\{([^}]*)\}", src):
            structs.append((m.group(1), [], []))
        for m in re.finditer(r"unsafe\s+impl\s*(?:<((?:[^<>]|<[^<>]*(?:<[^<>]*>)?[^<>]*>|->)*)>)?\s*(Send|Sync)\s+for\s+([A-Za-z0-9_]+)\s*(?:<([^{]*)>)?\s*\{", src):
            gen, tr, sname, args = m.group(1) or "", m.group(2), m.group(3), m.group(4) or ""
            gens = parse_generics(gen)
            argl = [P(a.strip()).ty() for a in split_top(args) if a.strip()]
            impls.append((tr, sname, gens, argl))
    return structs, impls

def coq_ty(t, params):
    if t[0] == "raw":
        return "(TRaw %s)" % coq_ty(t[1], params)
    if t[0] == "ref":
        return "(TRef %s)" % coq_ty(t[1], params)
    if t[0] == "dyn":
        return "(TDyn %s %s)" % ("true" if t[1] else "false", "true" if t[2] else "false")
    name, args = t[1], t[2]
    if name in params and not args:
        return '(TParam "%s")' % name
    return '(TApp "%s" [%s])' % (name, "; ".join(coq_ty(a, params) for a in args))

def emit(structs, impls):
    out = ["(* GENERATED by tools/traitscan.py from /repo/src -- do not edit.  Struct declarations and",
           "   explicit Send/Sync impl headers of the crate, in the grammar of TraitModel.v. *)",
           "From Coq Require Import String List Bool.",
           "Require Import MQ.TraitModel.",
           "Import ListNotations.",
           "Open Scope string_scope.",
           "",
           "Definition structs : list sdecl := ["]
    rows = []
    for name, params, fields in structs:
        rows.append('  mksdecl "%s" [%s] [%s]' % (name, "; ".join('"%s"' % p for p in params),
                                                    "; ".join(coq_ty(t, params) for _, t in fields)))
    out.append(";\n".join(rows))
    out.append("].")
    out.append("")
    out.append("Definition impls : list idecl := [")
    rows = []
    for tr, sname, gens, argl in impls:
        params = [n for n, _ in gens]
        bounds = []
        for n, bs in gens:
            for b in bs:
                bounds.append('("%s", %s)' % (n, "TSend" if b == "Send" else "TSync"))
        rows.append('  mkidecl %s "%s" [%s] [%s]' % ("TSend" if tr == "Send" else "TSync", sname,
                                                      "; ".join(coq_ty(a, params) for a in argl), "; ".join(bounds)))
    out.append(";\n".join(rows))
    out.append("].")
    return "\n".join(out) + "\n"

if __name__ == "__main__":
    srcdir = sys.argv[1] if len(sys.argv) > 1 else "/repo/src"
    structs, impls = scan(srcdir)
    sys.stdout.write(emit(structs, impls))
