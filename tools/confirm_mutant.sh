#!/bin/bash
# confirm_mutant.sh <id> [worktree]: in the scratch worktree, confirm that (1) the crate builds and the
# existing suite passes with the change, (2) the demonstration fails with it, (3) passes without it.
# Writes /verif/seeded/<id>/{patch.diff,demo*,NOTES.md,confirm.log}
id=$1; wt=${2:-/tmp/mut/$id}; out=/verif/seeded/$id
mkdir -p $out; cd $wt || exit 2
cp MUTANT/patch.diff $out/patch.diff; cp MUTANT/demo_* $out/ 2>/dev/null; cp MUTANT/NOTES.md $out/NOTES.md 2>/dev/null
demo=$(ls tests/demo_* 2>/dev/null | head -1); demoname=$(basename ${demo%.rs})
export CARGO_NET_OFFLINE=true
{
git checkout -q -- src && git apply $out/patch.diff || { echo "APPLY-FAILED"; exit 3; }
echo "== suite with change (demo excluded)"; mv $demo /tmp/mut/$id.demo.rs
timeout 1500 cargo test --offline --no-fail-fast 2>&1 | grep -E "^test result|FAILED|failed|panicked" | head -20
mv /tmp/mut/$id.demo.rs $demo
echo "== demo with change"; timeout 900 cargo test --offline --test $demoname 2>&1 | grep -E "^test |test result|panicked" | head -12
git checkout -q -- src
echo "== demo without change"; timeout 1500 cargo test --offline --test $demoname 2>&1 | grep -E "^test |test result|panicked" | head -12
git apply $out/patch.diff
} > $out/confirm.log 2>&1
tail -30 $out/confirm.log
