#!/usr/bin/env python3
"""Correspondence: run the same scenarios on the extracted Coq model (ocaml/driver) and on
the real crate under the deterministic scheduler (harness mqx); compare step by step."""
import os, subprocess, sys, tempfile, concurrent.futures as cf

ROOT = os.path.dirname(os.path.dirname(os.path.abspath(__file__)))
DRIVER = os.path.join(ROOT, "ocaml", "driver")
MQX = os.path.join(ROOT, "harness", "target", "debug", "mqx")

def split_traces(text):
    """-> list of (name, [lines], endline)"""
    out, cur, name = [], None, None
    for line in text.splitlines():
        if line.startswith("scenario "):
            name, cur = line.split()[1], []
        elif line.startswith("end "):
            out.append((name, cur, line))
            cur = None
        elif cur is not None:
            cur.append(line.rstrip())
    if cur is not None:
        out.append((name, cur, "end crashed"))
    return out

def end_fields(endline):
    f = endline.split()
    d = {"outcome": f[1] if len(f) > 1 else "?"}
    for x in f[2:]:
        if "=" in x:
            k, v = x.split("=", 1); d[k] = v
    return d

def run_shard(args):
    path, brief = args
    extra = ["--brief"] if brief else []
    m = subprocess.run([DRIVER, "run", path] + extra, capture_output=True, text=True)
    r = subprocess.run([MQX, "run", path] + extra, capture_output=True, text=True)
    return path, m.stdout, r.stdout, m.returncode, r.returncode, r.stderr[-2000:]

def compare(mtext, rtext):
    """-> list of per-scenario dicts"""
    M, R = split_traces(mtext), split_traces(rtext)
    res = []
    rmap = {n: (l, e) for n, l, e in R}
    for name, ml, me in M:
        d = {"name": name, "steps": sum(1 for x in ml if x and x[0].isdigit()), "diverge": None,
             "model_end": end_fields(me), "real_end": None, "model_lines": ml}
        if name not in rmap:
            d["diverge"] = (0, "<scenario missing in the real run>", "")
            res.append(d); continue
        rl, re_ = rmap[name]
        d["real_end"] = end_fields(re_)
        d["real_lines"] = rl
        for i in range(max(len(ml), len(rl))):
            a = ml[i] if i < len(ml) else "<no line>"
            b = rl[i] if i < len(rl) else "<no line>"
            if a != b:
                d["diverge"] = (i, a, b); break
        if d["diverge"] is None:
            if d["model_end"]["outcome"] != d["real_end"]["outcome"] or d["model_end"].get("steps") != d["real_end"].get("steps"):
                d["diverge"] = (len(ml), me, re_)
        res.append(d)
    return res

def run_real_only(scns, workdir, env_extra, jobs=16):
    """run the scenarios on the real code only (search mode); -> list of (scn, real_lines, endinfo)"""
    os.makedirs(workdir, exist_ok=True)
    nshard = max(1, min(jobs, len(scns)))
    shards = [[] for _ in range(nshard)]
    for i, s in enumerate(scns):
        shards[i % nshard].append(s)
    env = dict(os.environ); env.update(env_extra)
    def one(i):
        p = os.path.join(workdir, "rshard%d.txt" % i)
        with open(p, "w") as f:
            for s in shards[i]:
                f.write(s.text())
        r = subprocess.run([MQX, "run", p], capture_output=True, text=True, env=env)
        return r.stdout
    byname = {s.name: s for s in scns}
    out = []
    with cf.ThreadPoolExecutor(max_workers=nshard) as ex:
        for txt in ex.map(one, range(nshard)):
            for name, lines, endl in split_traces(txt):
                out.append((byname.get(name), lines, end_fields(endl)))
    return out

def run_all(scns, workdir, brief=False, jobs=16):
    """scns: list of Scn. Returns list of result dicts (with the Scn attached)."""
    os.makedirs(workdir, exist_ok=True)
    nshard = max(1, min(jobs, len(scns)))
    shards = [[] for _ in range(nshard)]
    for i, s in enumerate(scns):
        shards[i % nshard].append(s)
    paths = []
    for i, sh in enumerate(shards):
        p = os.path.join(workdir, "shard%d.txt" % i)
        with open(p, "w") as f:
            for s in sh:
                f.write(s.text())
        paths.append((p, brief))
    byname = {s.name: s for s in scns}
    results = []
    with cf.ThreadPoolExecutor(max_workers=nshard) as ex:
        for path, mo, ro, mrc, rrc, rerr in ex.map(run_shard, paths):
            for d in compare(mo, ro):
                d["scn"] = byname.get(d["name"])
                d["real_rc"] = rrc
                d["real_err"] = rerr if rrc != 0 else ""
                results.append(d)
    return results

if __name__ == "__main__":
    import random
    sys.path.insert(0, os.path.dirname(os.path.abspath(__file__)))
    import scen
    seed = int(sys.argv[1]) if len(sys.argv) > 1 else 1
    n = int(sys.argv[2]) if len(sys.argv) > 2 else 50
    mode = sys.argv[3] if len(sys.argv) > 3 else "seq"
    kw = {}
    for x in sys.argv[4:]:
        k, v = x.split("="); kw[k] = v
    rng = random.Random(seed)
    gen = scen.gen_seq if mode == "seq" else scen.gen_rand
    scns = [gen(rng, i, **dict(kw)) for i in range(n)]
    wd = tempfile.mkdtemp(prefix="corr")
    res = run_all(scns, wd)
    bad = [d for d in res if d["diverge"]]
    print("scenarios", len(res), "steps", sum(d["steps"] for d in res), "diverging", len(bad), "workdir", wd)
    outcomes = {}
    for d in res:
        outcomes[d["model_end"]["outcome"]] = outcomes.get(d["model_end"]["outcome"], 0) + 1
    print("outcomes", outcomes)
    for d in bad[:5]:
        i, a, b = d["diverge"]
        print("---", d["name"], "line", i)
        print(d["scn"].text())
        lo = max(0, i - 6)
        for x in d["model_lines"][lo:i]:
            print("   ", x)
        print("  M:", a)
        print("  R:", b)
        if d.get("real_err"): print("  stderr:", d["real_err"])
