#!/bin/bash
# Re-checks every compiled file of the Coq development with coqchk, one module at a time (-norec: each run checks one
# file against its already compiled dependencies; all files together cover the development), several in parallel.
# Takes hours.  For every module that passes it records the modification time of the .vo it checked in
# work/coqchk/<module>.ok; modules whose record matches the current .vo are skipped.
cd "$(dirname "$0")/../coq" || exit 1
mkdir -p ../work/coqchk
J=${COQCHK_JOBS:-6}
one() {
  m=$1; f=theories/$(echo $m | tr . /).vo
  [ -f "$f" ] || { echo "MISSING $m"; return; }
  t=$(stat -c %Y "$f")
  [ -f ../work/coqchk/$m.ok ] && [ "$(cat ../work/coqchk/$m.ok)" = "$t" ] && { echo "SKIP $m"; return; }
  if timeout 20000 coqchk -silent -o -Q theories MQ -norec MQ.$m > ../work/coqchk/$m.log 2>&1; then echo $t > ../work/coqchk/$m.ok; echo "OK $m"; else rm -f ../work/coqchk/$m.ok; echo "FAILED $m"; fi
}
export -f one
grep '^theories/.*\.v$' _CoqProject | sed 's#^theories/##; s#\.v$##; s#/#.#g' | xargs -P $J -I{} bash -c 'one {}'
