#!/bin/bash
# Re-checks every compiled file of the Coq development with coqchk, one module at a time (-norec: each run checks one
# file against its already compiled dependencies; all files together cover the development), 8 in parallel.
# Takes hours.  Writes work/coqchk_full.stamp when every module passed.
cd "$(dirname "$0")/../coq" || exit 1
mods=$(grep '^theories/.*\.v$' _CoqProject | sed 's#^theories/##; s#\.v$##; s#/#.#g')
fail=0
echo "$mods" | xargs -P 8 -I{} sh -c 'timeout 14000 coqchk -silent -o -Q theories MQ -norec MQ.{} > ../work/coqchk_{}.log 2>&1 || echo FAILED {}' | tee ../work/coqchk_all.log
grep -q FAILED ../work/coqchk_all.log && fail=1
if [ $fail = 0 ]; then echo "all modules re-checked by coqchk -norec on $(date -u +%FT%TZ)" > ../work/coqchk_full.stamp; echo coqchk-all-ok; else echo coqchk-all-FAILED; exit 1; fi
